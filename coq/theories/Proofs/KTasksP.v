(* Proofs about Model/KTasks.v (C06).  Three inductive invariants of every run of the model (all programs,
   schedules, root fires, tick counts), each preserved by every transition:

   [IC]  ties the table of temporary handlers and the task set to the phase of every wait state:
     - which of <name>, <name>_done, generate_events handlers of a wait are installed is a function of its phase;
     - accounting: (#times the waiting handler was resumed) + (1 if the wait is still live) +
       (1 if its TimeoutError is pending as a task) = 1, always;
     - a timeout fires exactly after tmo0+1 generate_events dispatches seen by the wait.
   [EX]  (with IC: [Full]) ranges of every table index, ownership of generators (a handler generator is either the
     object of exactly one task, or the parent of exactly one wait that has not resumed it, and is suspended
     accordingly), counting (waitingHandlers of an event = its handler-generator tasks + 2 x its handlers suspended
     in waits), the gate (passed at most once, only when dispatched and the count is 0; afterwards the event is
     never written again), uniqueness of queued <name>_done, and the shape of the log.  Consequences: [bad] is
     unreachable (run_no_crash); resumptions deliver the callee's final value (resume_value) after the callee's
     last handler step (resume_after_finish).
   [EL]  what is pending where: a flagged wait has its task, an armed wait on an object has that event queued, a
     wait that has seen its event e either finds e still holding counts or has e_done queued; waits are younger
     than the waits of the events they wait for.  Consequence: quiescent_all_resumed. *)
From Coq Require Import List ZArith Bool Arith Lia.
From Circ Require Import Model.KTasks.
Import ListNotations.
Open Scope Z_scope.

(* ------------------------------------------------------------------ lists *)

Lemma nth_error_upd_nth : forall {A} (f : A -> A) l i j,
  nth_error (upd_nth i f l) j = if Nat.eqb i j then option_map f (nth_error l j) else nth_error l j.
Proof.
  intros A f l. induction l as [|x r IH]; intros i j.
  - destruct i, j; simpl; try reflexivity. destruct (Nat.eqb i j); reflexivity.
  - destruct i, j; simpl; try reflexivity. apply IH.
Qed.

Lemma length_upd_nth : forall {A} (f : A -> A) l i, length (upd_nth i f l) = length l.
Proof. intros A f l. induction l; intros [|i]; simpl; auto. Qed.

Lemma nth_error_snoc : forall {A} (l : list A) x i y,
  nth_error (l ++ [x]) i = Some y ->
  (nth_error l i = Some y /\ (i < length l)%nat) \/ (i = length l /\ y = x).
Proof.
  intros A l x i y H. destruct (Nat.lt_ge_cases i (length l)) as [Hl|Hl].
  - left. rewrite nth_error_app1 in H by assumption. auto.
  - right. rewrite nth_error_app2 in H by assumption.
    destruct (i - length l)%nat eqn:E.
    + simpl in H. inversion H. split; [lia|reflexivity].
    + simpl in H. destruct n; discriminate.
Qed.

Lemma th_eqb_eq : forall a b, th_eqb a b = true <-> a = b.
Proof.
  intros [x|x|x] [y|y|y]; simpl; split; intro H; try discriminate; try congruence;
    try (apply Nat.eqb_eq in H; congruence); try (inversion H; apply Nat.eqb_refl).
Qed.

Lemma tref_eqb_eq : forall a b, tref_eqb a b = true <-> a = b.
Proof.
  intros [x|x|x] [y|y|y]; simpl; split; intro H; try discriminate; try congruence;
    try (apply Nat.eqb_eq in H; congruence); try (inversion H; apply Nat.eqb_refl).
Qed.

Lemma onat_eqb_eq : forall a b, onat_eqb a b = true <-> a = b.
Proof.
  intros [x|] [y|]; simpl; split; intro H; try discriminate; try congruence.
  - apply Nat.eqb_eq in H. congruence.
  - inversion H. apply Nat.eqb_refl.
Qed.

Lemma task_eqb_eq : forall a b, task_eqb a b = true <-> a = b.
Proof.
  intros [e1 r1 p1] [e2 r2 p2]. unfold task_eqb. simpl. split.
  - intro H. apply andb_prop in H. destruct H as [H H3]. apply andb_prop in H. destruct H as [H1 H2].
    apply Nat.eqb_eq in H1. apply tref_eqb_eq in H2. apply onat_eqb_eq in H3. congruence.
  - intro H. inversion H. subst. rewrite Nat.eqb_refl.
    assert (tref_eqb r2 r2 = true) by (apply tref_eqb_eq; reflexivity).
    assert (onat_eqb p2 p2 = true) by (apply onat_eqb_eq; reflexivity).
    rewrite H0, H1. reflexivity.
Qed.

Lemma existsb_task : forall t l, existsb (task_eqb t) l = true <-> In t l.
Proof.
  intros t l. rewrite existsb_exists. split.
  - intros [x [Hx He]]. apply task_eqb_eq in He. subst. assumption.
  - intro H. exists t. split; [assumption|apply task_eqb_eq; reflexivity].
Qed.

Lemma has_th_In : forall h w, has_th h w = true <-> In h (ths w).
Proof.
  intros h w. unfold has_th. rewrite existsb_exists. split.
  - intros [x [Hx He]]. apply th_eqb_eq in He. subst. assumption.
  - intro H. exists h. split; [assumption|apply th_eqb_eq; reflexivity].
Qed.

Lemma In_del : forall h x l, In x (filter (fun u => negb (th_eqb h u)) l) <-> In x l /\ x <> h.
Proof.
  intros h x l. rewrite filter_In. split; intros [H1 H2]; split; auto.
  - intro E. subst. assert (th_eqb h h = true) by (apply th_eqb_eq; reflexivity). rewrite H in H2. discriminate.
  - destruct (th_eqb h x) eqn:E; [|reflexivity]. apply th_eqb_eq in E. congruence.
Qed.

Lemma In_unreg : forall t x l, In x (filter (fun u => negb (task_eqb t u)) l) <-> In x l /\ x <> t.
Proof.
  intros t x l. rewrite filter_In. split; intros [H1 H2]; split; auto.
  - intro E. subst. assert (task_eqb t t = true) by (apply task_eqb_eq; reflexivity). rewrite H in H2. discriminate.
  - destruct (task_eqb t x) eqn:E; [|reflexivity]. apply task_eqb_eq in E. congruence.
Qed.

(* ------------------------------------------------------------------ frames: what an operation leaves alone *)

Definition triple (w : world) := (ths w, wsts w, tasks w).

(* operations that touch neither handlers, wait states nor tasks, and never clear [bad] *)
Definition quiet (f : world -> world) : Prop :=
  forall w, triple (f w) = triple w /\ (bad w = true -> bad (f w) = true).

Lemma quiet_id : quiet (fun w => w).
Proof. intro w. auto. Qed.
Lemma quiet_comp : forall f g, quiet f -> quiet g -> quiet (fun w => g (f w)).
Proof.
  intros f g Hf Hg w. destruct (Hf w) as [A B]. destruct (Hg (f w)) as [C D]. split; [congruence|auto].
Qed.
Lemma quiet_add_log : forall x, quiet (add_log x). Proof. intros x w. split; auto. Qed.
Lemma quiet_set_bad : quiet set_bad. Proof. intro w. split; auto. Qed.
Lemma quiet_push : forall q, quiet (push q). Proof. intros q w. split; auto. Qed.
Lemma quiet_mod_evt : forall tok f, quiet (mod_evt tok f). Proof. intros tok f w. split; auto. Qed.
Lemma quiet_mod_gen : forall g f, quiet (mod_gen g f). Proof. intros g f w. split; auto. Qed.
Lemma quiet_set_gens : forall l, quiet (fun w => set_gens w l). Proof. intros l w. split; auto. Qed.
Lemma quiet_set_queue : forall l, quiet (fun w => set_queue w l). Proof. intros l w. split; auto. Qed.

Lemma fire_user_quiet : forall nm b h, quiet (fun w => fst (fire_user nm b h w)).
Proof. intros nm b h w. split; auto. Qed.

Lemma event_done_quiet : forall tok err, quiet (event_done tok err).
Proof.
  intros tok err w. unfold event_done.
  destruct (nth_error (evs w) tok) as [e|]; [|split; auto].
  destruct (e_waiting e =? 0); [|split; auto].
  destruct (e_alert e); destruct (err || e_errors e); split; auto.
Qed.

Lemma run_steps_quiet : forall sts tok hi k w,
  triple (fst (fst (fst (run_steps tok hi k sts w)))) = triple w /\
  (bad w = true -> bad (fst (fst (fst (run_steps tok hi k sts w)))) = true).
Proof.
  induction sts as [|s r IH]; intros tok hi k w; simpl.
  - split; auto.
  - destruct s; simpl; try (split; auto; fail).
    + destruct fire; simpl; split; auto.
    + specialize (IH tok hi (S k) (fst (fire_user nm tok 0 (add_log (LStep tok hi k) w)))).
      destruct IH as [A B]. split.
      * exact (eq_trans A eq_refl).
      * intro Hb. apply B. exact Hb.
Qed.

Lemma gen_resume_quiet : forall gid how, quiet (fun w => fst (gen_resume gid how w)).
Proof.
  intros gid how w. unfold gen_resume.
  destruct (nth_error (gens w) gid) as [g|]; [|split; auto].
  destruct (g_rest g) as [sts|]; [|split; auto].
  set (w1 := match how with
             | RNext => if g_atcall g then set_bad w else w
             | RSend _ => if g_atcall g then w else set_bad w
             | RThrow => if g_atcall g then w else set_bad w end).
  assert (Q1 : triple w1 = triple w /\ (bad w = true -> bad w1 = true)).
  { unfold w1. destruct how; destruct (g_atcall g); split; auto. }
  replace (match how with
           | RNext => if g_atcall g then set_bad w else w
           | RSend _ => if g_atcall g then w else set_bad w
           | RThrow => if g_atcall g then w else set_bad w end) with w1 by reflexivity.
  destruct Q1 as [T1 B1].
  destruct how as [|e|].
  - destruct (run_steps (g_tok g) (g_hi g) (g_k g) sts w1) as [[[w2 r] k'] rest] eqn:E.
    pose proof (run_steps_quiet sts (g_tok g) (g_hi g) (g_k g) w1) as [A B]. rewrite E in A, B. simpl in A, B.
    simpl. split; [unfold triple in *; simpl; congruence | intro Hb; simpl; auto].
  - destruct (nth_error (evs w1) e) as [ev|].
    + set (w2 := add_log _ w1).
      destruct (run_steps (g_tok g) (g_hi g) (g_k g) sts w2) as [[[w3 r] k'] rest] eqn:E.
      pose proof (run_steps_quiet sts (g_tok g) (g_hi g) (g_k g) w2) as [A B]. rewrite E in A, B. simpl in A, B.
      simpl. split; [unfold triple in *; simpl in *; congruence | intro Hb; simpl; apply B; simpl; auto].
    + set (w2 := set_bad w1).
      destruct (run_steps (g_tok g) (g_hi g) (g_k g) sts w2) as [[[w3 r] k'] rest] eqn:E.
      pose proof (run_steps_quiet sts (g_tok g) (g_hi g) (g_k g) w2) as [A B]. rewrite E in A, B. simpl in A, B.
      simpl. split; [unfold triple in *; simpl in *; congruence | intro Hb; simpl; apply B; simpl; auto].
  - destruct (g_catch g).
    + set (w2 := add_log _ w1).
      destruct (run_steps (g_tok g) (g_hi g) (g_k g) sts w2) as [[[w3 r] k'] rest] eqn:E.
      pose proof (run_steps_quiet sts (g_tok g) (g_hi g) (g_k g) w2) as [A B]. rewrite E in A, B. simpl in A, B.
      simpl. split; [unfold triple in *; simpl in *; congruence | intro Hb; simpl; apply B; simpl; auto].
    + simpl. split; [unfold triple in *; simpl in *; congruence | intro Hb; simpl; auto].
Qed.

(* ------------------------------------------------------------------ the invariant *)

Definition sid_of (h : th) : nat := match h with THEv s | THDone s | THTick s => s end.
Definition is_rt (sid : nat) (t : task) : bool := tref_eqb (t_ref t) (RTimeout sid).
Definition count_rt (sid : nat) (ts : list task) : nat := length (filter (is_rt sid) ts).
Definition alive (ph : phase) : nat := match ph with Dead => 0 | _ => 1 end.

Definition wst_time_ok (st : wst) : Prop :=
  if s_timedout st then Z.of_nat (s_ticks st) = s_tmo0 st + 1
  else (s_tmo0 st < 0 -> s_timeout st = s_tmo0 st) /\
       (0 <= s_tmo0 st -> 0 <= s_timeout st /\ s_timeout st + Z.of_nat (s_ticks st) = s_tmo0 st).

Record sid_ok (hs : list th) (ts : list task) (sid : nat) (st : wst) : Prop := {
  so_ev : In (THEv sid) hs <-> s_ph st = Armed;
  so_done : In (THDone sid) hs <-> s_ph st <> Dead;
  so_tick : In (THTick sid) hs <-> (s_ph st = Armed \/ s_ph st = Seen) /\ 0 <= s_timeout st;
  so_armed : s_ph st = Armed -> s_run st = false /\ s_event st = None;
  so_tmo : s_timedout st = true -> s_ph st = Dead /\ s_timeout st = 0;
  so_time : wst_time_ok st;
  so_credit : (s_resumes st + alive (s_ph st) + count_rt sid ts = 1)%nat;
  so_rt : (0 < count_rt sid ts)%nat -> s_timedout st = true;
  so_seen : s_ph st = Seen -> s_run st = true }.

Definition task_ok (ss : list wst) (t : task) : Prop :=
  match t_ref t with
  | RGen _ => t_parent t = None
  | RWait sid => exists st, nth_error ss sid = Some st /\ s_ph st = Flagged /\
                            t = mk_task (s_tevent st) (RWait sid) (Some (s_parent st))
  | RTimeout sid => exists st, nth_error ss sid = Some st /\
                               t = mk_task (s_tevent st) (RTimeout sid) (Some (s_parent st))
  end.

Definition IC3 (hs : list th) (ss : list wst) (ts : list task) : Prop :=
  NoDup hs /\ (forall h, In h hs -> (sid_of h < length ss)%nat) /\
  (forall sid st, nth_error ss sid = Some st -> sid_ok hs ts sid st) /\
  NoDup ts /\ (forall t, In t ts -> task_ok ss t).

Definition IC (w : world) : Prop := IC3 (ths w) (wsts w) (tasks w).
Definition Inv (w : world) : Prop := bad w = true \/ IC w.

Lemma quiet_Inv : forall f, quiet f -> forall w, Inv w -> Inv (f w).
Proof.
  intros f Q w [Hb|Hi]; destruct (Q w) as [T B].
  - left. auto.
  - right. unfold IC in *. unfold triple in T. inversion T. rewrite H0, H1, H2. assumption.
Qed.

(* count_rt *)
Lemma count_rt_app : forall sid a b, count_rt sid (a ++ b) = (count_rt sid a + count_rt sid b)%nat.
Proof. intros. unfold count_rt. rewrite filter_app, app_length. reflexivity. Qed.

Lemma count_rt_unreg_other : forall sid t l, is_rt sid t = false ->
  count_rt sid (filter (fun u => negb (task_eqb t u)) l) = count_rt sid l.
Proof.
  intros sid t l H. unfold count_rt. induction l as [|x r IH]; simpl; [reflexivity|].
  destruct (task_eqb t x) eqn:E; simpl.
  - apply task_eqb_eq in E. subst x. rewrite H. assumption.
  - destruct (is_rt sid x); simpl; congruence.
Qed.

Lemma count_rt_zero : forall sid l, (forall t, In t l -> is_rt sid t = false) -> count_rt sid l = O.
Proof.
  intros sid l H. unfold count_rt. induction l as [|x r IH]; simpl; [reflexivity|].
  rewrite (H x) by (left; reflexivity). apply IH. intros t Ht. apply H. right. assumption.
Qed.

Lemma count_rt_pos_In : forall sid l, (0 < count_rt sid l)%nat -> exists t, In t l /\ is_rt sid t = true.
Proof.
  intros sid l. unfold count_rt. induction l as [|x r IH]; simpl; [lia|].
  destruct (is_rt sid x) eqn:E.
  - intros _. exists x. auto.
  - intro H. destruct (IH H) as [t [A B]]. exists t. auto.
Qed.

(* removing the one canonical RTimeout task of sid from a duplicate-free set *)
Lemma count_rt_unreg_self : forall sid t l, NoDup l -> In t l -> is_rt sid t = true ->
  (forall u, In u l -> is_rt sid u = true -> u = t) ->
  count_rt sid (filter (fun u => negb (task_eqb t u)) l) = O.
Proof.
  intros sid t l ND Hin Hrt Hu. apply count_rt_zero. intros u Hu'. apply In_unreg in Hu'. destruct Hu' as [A B].
  destruct (is_rt sid u) eqn:E; [|reflexivity]. exfalso. apply B. apply Hu; assumption.
Qed.

Lemma is_rt_other : forall sid sid' t, is_rt sid t = true -> sid <> sid' -> is_rt sid' t = false.
Proof.
  intros sid sid' t H Hn. unfold is_rt in *. apply tref_eqb_eq in H.
  destruct (tref_eqb (t_ref t) (RTimeout sid')) eqn:E; [|reflexivity].
  apply tref_eqb_eq in E. rewrite H in E. inversion E. contradiction.
Qed.

Lemma sid_ok_ext : forall hs ts hs' ts' sid st,
  sid_ok hs ts sid st ->
  (forall h, sid_of h = sid -> (In h hs' <-> In h hs)) ->
  count_rt sid ts' = count_rt sid ts ->
  sid_ok hs' ts' sid st.
Proof.
  intros hs ts hs' ts' sid st [A B C D E F G G2 G3] Hh Hc.
  constructor; auto.
  - rewrite (Hh (THEv sid)) by reflexivity. assumption.
  - rewrite (Hh (THDone sid)) by reflexivity. assumption.
  - rewrite (Hh (THTick sid)) by reflexivity. assumption.
  - rewrite Hc. assumption.
  - rewrite Hc. assumption.
Qed.

Lemma NoDup_snoc : forall {A} (l : list A) a, NoDup l -> ~ In a l -> NoDup (l ++ [a]).
Proof.
  intros A l a ND Hn. induction l as [|x r IH]; simpl.
  - constructor; [intros []|constructor].
  - inversion ND; subst. constructor.
    + rewrite in_app_iff. intros [H|[H|[]]]; [contradiction|]. subst. apply Hn. left. reflexivity.
    + apply IH; [assumption|]. intro H. apply Hn. right. assumption.
Qed.

Lemma task_ok_app : forall ss x t, task_ok ss t -> task_ok (ss ++ [x]) t.
Proof.
  intros ss x t H. unfold task_ok in *. destruct (t_ref t) as [g|sid|sid]; [assumption| |].
  - destruct H as [st [A B]]. exists st. split; [|assumption].
    rewrite nth_error_app1; [assumption|]. apply nth_error_Some. congruence.
  - destruct H as [st [A B]]. exists st. split; [|assumption].
    rewrite nth_error_app1; [assumption|]. apply nth_error_Some. congruence.
Qed.

(* updating wait state sid with f that keeps the task-identifying fields; tasks RWait sid must stay Flagged *)
Lemma task_ok_upd : forall ss sid f t, task_ok ss t ->
  (forall st, s_tevent (f st) = s_tevent st /\ s_parent (f st) = s_parent st) ->
  (t_ref t = RWait sid -> forall st, nth_error ss sid = Some st -> s_ph st = Flagged -> s_ph (f st) = Flagged) ->
  task_ok (upd_nth sid f ss) t.
Proof.
  intros ss sid f t H Hf Hw. unfold task_ok in *. destruct (t_ref t) as [g|s|s] eqn:R; [assumption| |].
  - destruct H as [st [A [B C]]]. rewrite nth_error_upd_nth. destruct (Nat.eqb sid s) eqn:E.
    + apply Nat.eqb_eq in E. subst s. rewrite A. simpl. exists (f st). split; [reflexivity|].
      destruct (Hf st) as [F1 F2]. rewrite F1, F2. split; [|assumption]. apply (Hw eq_refl st A B).
    + exists st. auto.
  - destruct H as [st [A C]]. rewrite nth_error_upd_nth. destruct (Nat.eqb sid s) eqn:E.
    + apply Nat.eqb_eq in E. subst s. rewrite A. simpl. exists (f st). split; [reflexivity|].
      destruct (Hf st) as [F1 F2]. rewrite F1, F2. assumption.
    + exists st. auto.
Qed.

(* ------------------------------------------------------------------ task-set operations *)

Lemma IC_reg_gen : forall w t g, IC w -> t_ref t = RGen g -> t_parent t = None -> IC (reg_task t w).
Proof.
  intros w t g [A [B [C [D E]]]] R P. unfold reg_task. destruct (existsb (task_eqb t) (tasks w)) eqn:X.
  - exact (conj A (conj B (conj C (conj D E)))).
  - assert (Hn : ~ In t (tasks w)). { intro H. apply existsb_task in H. congruence. }
    unfold IC, IC3. simpl. split; [assumption|]. split; [assumption|]. split; [|split].
    + intros sid st Hs. apply (sid_ok_ext (ths w) (tasks w)); [auto|tauto|].
      rewrite count_rt_app. unfold count_rt at 2. simpl. unfold is_rt. rewrite R. simpl. lia.
    + apply NoDup_snoc; assumption.
    + intros u Hu. apply in_app_iff in Hu. destruct Hu as [Hu|[Hu|[]]]; [auto|]. subst u.
      unfold task_ok. rewrite R. assumption.
Qed.

Lemma IC_unreg_gen : forall w t g, IC w -> t_ref t = RGen g -> IC (unreg_task t w).
Proof.
  intros w t g [A [B [C [D E]]]] R. unfold IC, IC3, unreg_task. simpl.
  split; [assumption|]. split; [assumption|]. split; [|split].
  - intros sid st Hs. apply (sid_ok_ext (ths w) (tasks w)); [auto|tauto|].
    apply count_rt_unreg_other. unfold is_rt. rewrite R. reflexivity.
  - apply NoDup_filter. assumption.
  - intros u Hu. apply In_unreg in Hu. apply E. tauto.
Qed.

(* ------------------------------------------------------------------ install *)

Lemma In_install : forall nm obj tmo cv tev par w h,
  In h (ths (install nm obj tmo cv tev par w)) <->
  In h (ths w) \/ h = THEv (length (wsts w)) \/ h = THDone (length (wsts w)) \/ (h = THTick (length (wsts w)) /\ 0 <= tmo).
Proof.
  intros. unfold install. destruct (0 <=? tmo) eqn:E; simpl.
  - apply Z.leb_le in E. rewrite !in_app_iff. simpl. intuition (subst; auto).
  - apply Z.leb_gt in E. rewrite !in_app_iff. simpl. intuition (subst; auto). lia.
Qed.

Lemma install_wsts : forall nm obj tmo cv tev par w,
  wsts (install nm obj tmo cv tev par w) = wsts w ++ [new_wst nm obj tmo cv tev par].
Proof. intros. unfold install. destruct (0 <=? tmo); reflexivity. Qed.
Lemma install_tasks : forall nm obj tmo cv tev par w, tasks (install nm obj tmo cv tev par w) = tasks w.
Proof. intros. unfold install. destruct (0 <=? tmo); reflexivity. Qed.
Lemma install_bad : forall nm obj tmo cv tev par w, bad (install nm obj tmo cv tev par w) = bad w.
Proof. intros. unfold install. destruct (0 <=? tmo); reflexivity. Qed.

Lemma install_NoDup : forall nm obj tmo cv tev par w,
  NoDup (ths w) -> (forall h, In h (ths w) -> (sid_of h < length (wsts w))%nat) ->
  NoDup (ths (install nm obj tmo cv tev par w)).
Proof.
  intros nm obj tmo cv tev par w ND R. unfold install.
  assert (F : forall h, sid_of h = length (wsts w) -> ~ In h (ths w)).
  { intros h Hs Hin. apply R in Hin. lia. }
  assert (N2 : NoDup ((ths w ++ [THEv (length (wsts w))]) ++ [THDone (length (wsts w))])).
  { apply NoDup_snoc; [apply NoDup_snoc; [assumption|apply F; reflexivity]|].
    rewrite in_app_iff. intros [H|[H|[]]]; [revert H; apply F; reflexivity|discriminate]. }
  destruct (0 <=? tmo); simpl; [|exact N2].
  apply NoDup_snoc; [exact N2|].
  rewrite !in_app_iff. intros [[H|[H|[]]]|[H|[]]]; try discriminate. revert H. apply F. reflexivity.
Qed.

Lemma IC_install : forall nm obj tmo cv tev par w, IC w -> IC (install nm obj tmo cv tev par w).
Proof.
  intros nm obj tmo cv tev par w [A [B [C [D E]]]]. unfold IC, IC3.
  rewrite install_wsts, install_tasks.
  split; [apply install_NoDup; assumption|].
  split.
  { intros h Hh. apply In_install in Hh. rewrite app_length. simpl.
    destruct Hh as [Hh|[Hh|[Hh|[Hh _]]]]; [apply B in Hh; lia|subst; simpl; lia..]. }
  split.
  { intros sid st Hs. apply nth_error_snoc in Hs. destruct Hs as [[Hs Hl]|[Hl Hs]].
    - apply (sid_ok_ext (ths w) (tasks w)); [auto| |reflexivity].
      intros h Hh. rewrite In_install. split; [|auto].
      intros [H|[H|[H|[H _]]]]; [assumption|subst h; simpl in Hh; lia..].
    - subst sid st.
      assert (F : forall h, sid_of h = length (wsts w) -> ~ In h (ths w)).
      { intros h Hs Hin. apply B in Hin. lia. }
      assert (Z0 : count_rt (length (wsts w)) (tasks w) = O).
      { apply count_rt_zero. intros t Ht. destruct (is_rt (length (wsts w)) t) eqn:X; [|reflexivity].
        exfalso. unfold is_rt in X. apply tref_eqb_eq in X. specialize (E t Ht). unfold task_ok in E.
        rewrite X in E. destruct E as [st [E1 _]].
        assert (nth_error (wsts w) (length (wsts w)) <> None) by congruence.
        apply nth_error_Some in H. lia. }
      constructor; simpl.
      + rewrite In_install. tauto.
      + rewrite In_install. split; [discriminate|tauto].
      + rewrite In_install. split.
        * intros [H|[H|[H|[H H']]]]; [exfalso; revert H; apply F; reflexivity|discriminate..|tauto].
        * tauto.
      + auto.
      + discriminate.
      + unfold wst_time_ok. simpl. split; [auto|]. intros. lia.
      + rewrite Z0. reflexivity.
      + rewrite Z0. lia.
      + discriminate. }
  split; [assumption|].
  intros t Ht. apply task_ok_app. auto.
Qed.

(* ------------------------------------------------------------------ a step that concerns one wait state *)

Lemma IC_local : forall hs ss ts hs' ts' sid f st,
  IC3 hs ss ts -> nth_error ss sid = Some st ->
  NoDup hs' -> (forall h, In h hs' -> In h hs) -> (forall h, sid_of h <> sid -> In h hs -> In h hs') ->
  sid_ok hs' ts' sid (f st) ->
  (forall sid', sid' <> sid -> count_rt sid' ts' = count_rt sid' ts) ->
  NoDup ts' -> (forall t, In t ts' -> task_ok (upd_nth sid f ss) t) ->
  IC3 hs' (upd_nth sid f ss) ts'.
Proof.
  intros hs ss ts hs' ts' sid f st [A [B [C [D E]]]] Hs ND Hsub Hoth Hok Hcnt NDt Htok.
  split; [assumption|]. split.
  { intros h Hh. rewrite length_upd_nth. auto. }
  split.
  { intros s2 st2 H2. rewrite nth_error_upd_nth in H2. destruct (Nat.eqb sid s2) eqn:X.
    - apply Nat.eqb_eq in X. subst s2. rewrite Hs in H2. simpl in H2. inversion H2. subst. assumption.
    - apply Nat.eqb_neq in X. apply (sid_ok_ext hs ts); [auto| |auto].
      intros h Hh. split; [auto|]. intro. apply Hoth; [congruence|assumption]. }
  split; assumption.
Qed.

Lemma NoDup_del : forall h l, NoDup l -> NoDup (filter (fun u => negb (th_eqb h u)) l).
Proof. intros. apply NoDup_filter. assumption. Qed.

(* _on_event *)
Lemma on_event_Inv : forall tok w sid, IC w -> Inv (on_event tok w sid).
Proof.
  intros tok w sid H. unfold on_event. destruct (bad w) eqn:Bw; [left; assumption|].
  destruct (nth_error (wsts w) sid) as [st|] eqn:Hs; [|left; reflexivity].
  destruct (negb (s_run st) && obj_ok (s_obj st) tok); [|right; assumption].
  unfold rem_th_k. destruct (has_th (THEv sid) w) eqn:Hh; [|left; reflexivity].
  apply has_th_In in Hh. right.
  change (IC3 (filter (fun u => negb (th_eqb (THEv sid) u)) (ths w)) (upd_nth sid (wst_seen tok) (wsts w)) (tasks w)).
  pose proof H as [A [B [C [D E]]]]. pose proof (C sid st Hs) as [O1 O2 O3 O4 O5 O6 O7 O8 O9].
  assert (Ph : s_ph st = Armed) by (apply O1; assumption).
  apply (IC_local (ths w) (wsts w) (tasks w) _ _ sid (wst_seen tok) st); auto.
  - apply NoDup_del. assumption.
  - intros h Hin. apply In_del in Hin. tauto.
  - intros h Hn Hin. apply In_del. split; [assumption|]. intro. subst h. simpl in Hn. congruence.
  - constructor; unfold wst_time_ok, wst_seen; cbn [s_ph s_run s_event s_timeout s_timedout s_resumes s_ticks s_tmo0].
    + rewrite In_del. split; [intros [_ X]; congruence|discriminate].
    + rewrite In_del. split; [discriminate|]. intros _. split; [|discriminate]. apply O2. rewrite Ph. discriminate.
    + rewrite In_del. rewrite O3. rewrite Ph. split.
      * intros [[_ X] _]. split; [right; reflexivity|assumption].
      * intros [_ X]. split; [split; [left; reflexivity|assumption]|discriminate].
    + discriminate.
    + intro X. apply O5 in X. destruct X as [X _]. congruence.
    + exact O6.
    + rewrite Ph in O7. exact O7.
    + exact O8.
    + reflexivity.
  - intros t Ht. apply task_ok_upd; [auto|intro; split; reflexivity|].
    intros _ st0 Hs0 F. rewrite Hs in Hs0. inversion Hs0. subst. congruence.
Qed.

Ltac wcbn := unfold wst_time_ok, wst_seen, wst_phase, wst_resumed, wst_tick, wst_timeout, wst_thrown;
             cbn [s_ph s_run s_event s_timeout s_timedout s_resumes s_ticks s_tmo0 s_tevent s_parent].

Lemma count_rt_snoc_other : forall sid t l, is_rt sid t = false -> count_rt sid (l ++ [t]) = count_rt sid l.
Proof. intros. rewrite count_rt_app. unfold count_rt at 2. simpl. rewrite H. simpl. lia. Qed.

(* _on_done, for a wait whose <name>_done handler is installed *)
Lemma on_done_Inv : forall tok w sid, IC w -> In (THDone sid) (ths w) -> Inv (on_done tok w sid).
Proof.
  intros tok w sid H Hd. unfold on_done. destruct (bad w) eqn:Bw; [left; assumption|].
  destruct (nth_error (wsts w) sid) as [st|] eqn:Hs; [|left; reflexivity].
  destruct (onat_eqb (s_event st) (Some tok)) eqn:Ev; [|right; assumption].
  apply onat_eqb_eq in Ev.
  pose proof H as [A [B [C [D E]]]]. pose proof (C sid st Hs) as [O1 O2 O3 O4 O5 O6 O7 O8 O9].
  assert (Pd : s_ph st <> Dead) by (apply O2; assumption).
  assert (Pa : s_ph st <> Armed). { intro X. apply O4 in X. destruct X as [_ X]. congruence. }
  set (t := mk_task (s_tevent st) (RWait sid) (Some (s_parent st))).
  assert (Rt : forall s, is_rt s t = false) by reflexivity.
  (* the world after registerTask and flag *)
  set (ts' := tasks (reg_task t w)).
  assert (Hts : NoDup ts' /\ (forall u, In u ts' <-> In u (tasks w) \/ u = t) /\ (forall s, count_rt s ts' = count_rt s (tasks w))).
  { unfold ts', reg_task. destruct (existsb (task_eqb t) (tasks w)) eqn:X.
    - apply existsb_task in X. split; [assumption|]. split; [|reflexivity]. intro u. split; [auto|]. intros [U|U]; [assumption|subst; assumption].
    - simpl. split; [apply NoDup_snoc; [assumption|intro Y; apply existsb_task in Y; congruence]|].
      split; [|intro s; apply count_rt_snoc_other; apply Rt].
      intro u. rewrite in_app_iff. simpl. intuition. }
  destruct Hts as [T1 [T2 T3]].
  assert (Tok : forall u, In u ts' -> task_ok (upd_nth sid (wst_phase Flagged) (wsts w)) u).
  { intros u Hu. apply T2 in Hu. destruct Hu as [Hu|Hu].
    - apply task_ok_upd; [auto|intro; split; reflexivity|]. intros _ st0 _ _. reflexivity.
    - subst u. unfold task_ok. simpl. exists (wst_phase Flagged st). rewrite nth_error_upd_nth, Nat.eqb_refl, Hs. simpl. auto. }
  destruct (0 <=? s_timeout st) eqn:Tm.
  - apply Z.leb_le in Tm. unfold rem_th_k.
    destruct (has_th (THTick sid) (mod_wst sid (wst_phase Flagged) (reg_task t w))) eqn:Hh; [|left; reflexivity].
    apply has_th_In in Hh. right.
    replace (ths (mod_wst sid (wst_phase Flagged) (reg_task t w))) with (ths w) in Hh
      by (unfold reg_task; destruct (existsb (task_eqb t) (tasks w)); reflexivity).
    change (IC3 (filter (fun u => negb (th_eqb (THTick sid) u)) (ths (reg_task t w)))
                (upd_nth sid (wst_phase Flagged) (wsts (reg_task t w))) ts').
    replace (ths (reg_task t w)) with (ths w) by (unfold reg_task; destruct (existsb (task_eqb t) (tasks w)); reflexivity).
    replace (wsts (reg_task t w)) with (wsts w) by (unfold reg_task; destruct (existsb (task_eqb t) (tasks w)); reflexivity).
    apply (IC_local (ths w) (wsts w) (tasks w) _ _ sid (wst_phase Flagged) st); auto.
    + apply NoDup_del. assumption.
    + intros h Hin. apply In_del in Hin. tauto.
    + intros h Hn Hin. apply In_del. split; [assumption|]. intro. subst h. simpl in Hn. congruence.
    + constructor; wcbn.
      * rewrite In_del. split; [intros [X _]; apply O1 in X; contradiction|discriminate].
      * rewrite In_del. split; [discriminate|]. intros _. split; [assumption|discriminate].
      * rewrite In_del. split; [intros [_ X]; congruence|]. intros [[X|X] _]; discriminate.
      * discriminate.
      * intro X. apply O5 in X. tauto.
      * exact O6.
      * rewrite T3. destruct (s_ph st); try contradiction; exact O7.
      * rewrite T3. exact O8.
      * discriminate.
  - apply Z.leb_gt in Tm. right.
    change (IC3 (ths (reg_task t w)) (upd_nth sid (wst_phase Flagged) (wsts (reg_task t w))) ts').
    replace (ths (reg_task t w)) with (ths w) by (unfold reg_task; destruct (existsb (task_eqb t) (tasks w)); reflexivity).
    replace (wsts (reg_task t w)) with (wsts w) by (unfold reg_task; destruct (existsb (task_eqb t) (tasks w)); reflexivity).
    apply (IC_local (ths w) (wsts w) (tasks w) _ _ sid (wst_phase Flagged) st); auto.
    constructor; wcbn.
    * split; [intro X; apply O1 in X; contradiction|discriminate].
    * split; [discriminate|]. intros _. assumption.
    * split; [intro X; apply O3 in X; lia|]. intros [[X|X] _]; discriminate.
    * discriminate.
    * intro X. apply O5 in X. tauto.
    * exact O6.
    * rewrite T3. destruct (s_ph st); try contradiction; exact O7.
    * rewrite T3. exact O8.
    * discriminate.
Qed.

Lemma on_done_keeps_done : forall tok w sid s, In (THDone s) (ths w) -> In (THDone s) (ths (on_done tok w sid)).
Proof.
  intros tok w sid s H. unfold on_done. destruct (bad w); [assumption|].
  destruct (nth_error (wsts w) sid) as [st|]; [|assumption].
  destruct (onat_eqb (s_event st) (Some tok)); [|assumption].
  cbv zeta. set (t := mk_task _ _ _).
  assert (X : ths (reg_task t w) = ths w)
    by (unfold reg_task; destruct (existsb (task_eqb t) (tasks w)); reflexivity).
  destruct (0 <=? s_timeout st).
  - unfold rem_th_k. destruct (has_th _ _).
    + change (In (THDone s) (filter (fun u => negb (th_eqb (THTick sid) u)) (ths (reg_task t w)))).
      rewrite X. apply In_del. split; [assumption|discriminate].
    + change (In (THDone s) (ths (reg_task t w))). rewrite X. assumption.
  - change (In (THDone s) (ths (reg_task t w))). rewrite X. assumption.
Qed.

(* _on_tick *)
Lemma on_tick_fire : forall w sid st hs1,
  IC w -> nth_error (wsts w) sid = Some st -> s_timeout st = 0 ->
  NoDup hs1 -> (forall h, In h hs1 -> In h (ths w)) -> (forall h, sid_of h <> sid -> In h (ths w) -> In h hs1) ->
  ~ In (THEv sid) hs1 -> In (THDone sid) hs1 -> In (THTick sid) hs1 ->
  IC3 (filter (fun u => negb (th_eqb (THTick sid) u)) (filter (fun u => negb (th_eqb (THDone sid) u)) hs1))
      (upd_nth sid wst_timeout (wsts w))
      (tasks (reg_task (mk_task (s_tevent st) (RTimeout sid) (Some (s_parent st))) w)).
Proof.
  intros w sid st hs1 H Hs T0 ND Hsub Hoth Nev Hd Ht.
  pose proof H as [A [B [C [D E]]]]. pose proof (C sid st Hs) as [O1 O2 O3 O4 O5 O6 O7 O8 O9].
  set (t := mk_task (s_tevent st) (RTimeout sid) (Some (s_parent st))).
  assert (Ph : s_ph st = Armed \/ s_ph st = Seen). { apply Hsub in Ht. apply O3 in Ht. tauto. }
  assert (Al : alive (s_ph st) = 1%nat) by (destruct Ph as [X|X]; rewrite X; reflexivity).
  assert (R0 : s_resumes st = O /\ count_rt sid (tasks w) = O) by lia. destruct R0 as [R0 C0].
  assert (Rt : is_rt sid t = true). { unfold is_rt, t. simpl. apply Nat.eqb_refl. }
  assert (Hn : ~ In t (tasks w)).
  { intro X. assert (0 < count_rt sid (tasks w))%nat; [|lia].
    unfold count_rt. clear -X Rt. induction (tasks w) as [|x r IH]; [destruct X|]. simpl.
    destruct X as [X|X]; [subst; rewrite Rt; simpl; lia|]. destruct (is_rt sid x); simpl; [lia|auto]. }
  assert (Tk : tasks (reg_task t w) = tasks w ++ [t]).
  { unfold reg_task. destruct (existsb (task_eqb t) (tasks w)) eqn:X; [|reflexivity].
    apply existsb_task in X. contradiction. }
  rewrite Tk.
  apply (IC_local (ths w) (wsts w) (tasks w) _ _ sid wst_timeout st); auto.
  - apply NoDup_del. apply NoDup_del. assumption.
  - intros h Hin. apply In_del in Hin. destruct Hin as [Hin _]. apply In_del in Hin. apply Hsub. tauto.
  - intros h Hn' Hin. apply In_del. split; [apply In_del; split; [auto|]|]; intro; subst h; simpl in Hn'; congruence.
  - constructor; wcbn.
    + rewrite !In_del. split; [tauto|discriminate].
    + rewrite !In_del. split; [tauto|]. intro X. exfalso. apply X. reflexivity.
    + rewrite !In_del. split; [tauto|]. intros [[X|X] _]; discriminate.
    + discriminate.
    + auto.
    + unfold wst_time_ok in O6. destruct (s_timedout st) eqn:TO.
      * destruct (O5 eq_refl) as [X _]. destruct Ph; congruence.
      * destruct O6 as [P1 P2]. destruct (Z_lt_ge_dec (s_tmo0 st) 0) as [L|L]; [specialize (P1 L); lia|].
        assert (0 <= s_tmo0 st) by lia. specialize (P2 H0). lia.
    + rewrite count_rt_app. unfold count_rt at 2. simpl. rewrite Rt. simpl. lia.
    + reflexivity.
    + discriminate.
  - intros s' Hne. apply count_rt_snoc_other. apply (is_rt_other sid); [assumption|congruence].
  - apply NoDup_snoc; assumption.
  - intros u Hu. apply in_app_iff in Hu. destruct Hu as [Hu|[Hu|[]]].
    + apply task_ok_upd; [auto|intro; split; reflexivity|].
      intros _ st0 Hs0 F. rewrite Hs in Hs0. inversion Hs0. subst. destruct Ph; congruence.
    + subst u. unfold task_ok. simpl. exists (wst_timeout st).
      rewrite nth_error_upd_nth, Nat.eqb_refl, Hs. simpl. auto.
Qed.

Lemma reg_task_ths : forall t w, ths (reg_task t w) = ths w.
Proof. intros. unfold reg_task. destruct (existsb _ _); reflexivity. Qed.
Lemma reg_task_wsts : forall t w, wsts (reg_task t w) = wsts w.
Proof. intros. unfold reg_task. destruct (existsb _ _); reflexivity. Qed.
Lemma reg_task_bad : forall t w, bad (reg_task t w) = bad w.
Proof. intros. unfold reg_task. destruct (existsb _ _); reflexivity. Qed.

Lemma on_tick_Inv : forall w sid, IC w -> Inv (on_tick w sid).
Proof.
  intros w sid H. unfold on_tick. destruct (bad w) eqn:Bw; [left; assumption|].
  destruct (nth_error (wsts w) sid) as [st|] eqn:Hs; [|left; reflexivity].
  pose proof H as [A [B [C [D E]]]]. pose proof (C sid st Hs) as [O1 O2 O3 O4 O5 O6 O7 O8 O9].
  destruct (s_timeout st =? 0) eqn:T0.
  - apply Z.eqb_eq in T0. cbv zeta. set (t := mk_task (s_tevent st) (RTimeout sid) (Some (s_parent st))).
    destruct (s_run st) eqn:Rn.
    + unfold rem_th_k.
      destruct (has_th (THDone sid) (reg_task t w)) eqn:H1; [|left; reflexivity].
      destruct (has_th (THTick sid) (del_th (THDone sid) (reg_task t w))) eqn:H2; [|left; reflexivity].
      apply has_th_In in H1. apply has_th_In in H2. rewrite reg_task_ths in H1.
      change (In (THTick sid) (filter (fun u => negb (th_eqb (THDone sid) u)) (ths (reg_task t w)))) in H2.
      rewrite reg_task_ths in H2. apply In_del in H2. destruct H2 as [H2 _].
      right.
      change (IC3 (filter (fun u => negb (th_eqb (THTick sid) u)) (filter (fun u => negb (th_eqb (THDone sid) u)) (ths (reg_task t w))))
                  (upd_nth sid wst_timeout (wsts (reg_task t w))) (tasks (reg_task t w))).
      rewrite reg_task_ths, reg_task_wsts. apply on_tick_fire; auto.
      intro X. apply O1 in X. apply O4 in X. destruct X. congruence.
    + unfold rem_th_k.
      destruct (has_th (THEv sid) (reg_task t w)) eqn:H0; [|left; reflexivity].
      destruct (has_th (THDone sid) (del_th (THEv sid) (reg_task t w))) eqn:H1; [|left; reflexivity].
      destruct (has_th (THTick sid) (del_th (THDone sid) (del_th (THEv sid) (reg_task t w)))) eqn:H2; [|left; reflexivity].
      apply has_th_In in H0. apply has_th_In in H1. apply has_th_In in H2. rewrite reg_task_ths in H0.
      change (In (THDone sid) (filter (fun u => negb (th_eqb (THEv sid) u)) (ths (reg_task t w)))) in H1.
      change (In (THTick sid) (filter (fun u => negb (th_eqb (THDone sid) u))
                 (filter (fun u => negb (th_eqb (THEv sid) u)) (ths (reg_task t w))))) in H2.
      rewrite reg_task_ths in H1, H2. apply In_del in H2. destruct H2 as [H2 _].
      right.
      change (IC3 (filter (fun u => negb (th_eqb (THTick sid) u)) (filter (fun u => negb (th_eqb (THDone sid) u))
                     (filter (fun u => negb (th_eqb (THEv sid) u)) (ths (reg_task t w)))))
                  (upd_nth sid wst_timeout (wsts (reg_task t w))) (tasks (reg_task t w))).
      rewrite reg_task_ths, reg_task_wsts. apply on_tick_fire; auto.
      * apply NoDup_del. assumption.
      * intros h X. apply In_del in X. tauto.
      * intros h Hn X. apply In_del. split; [assumption|]. intro. subst h. simpl in Hn. congruence.
      * rewrite In_del. intros [_ X]. apply X. reflexivity.
  - apply Z.eqb_neq in T0. destruct (0 <? s_timeout st) eqn:T1; [|right; assumption].
    apply Z.ltb_lt in T1. right.
    change (IC3 (ths w) (upd_nth sid wst_tick (wsts w)) (tasks w)).
    apply (IC_local (ths w) (wsts w) (tasks w) _ _ sid wst_tick st); auto.
    + constructor; wcbn; auto.
      * rewrite O3. intuition lia.
      * intro X. apply O5 in X. lia.
      * unfold wst_time_ok in O6. destruct (s_timedout st) eqn:TO; [destruct (O5 eq_refl); lia|].
        destruct O6 as [P1 P2]. split; intro L; [specialize (P1 L); lia|specialize (P2 L); lia].
    + intros u Hu. apply task_ok_upd; [auto|intro; split; reflexivity|]. intros _ st0 _ F. exact F.
Qed.

(* ------------------------------------------------------------------ processTask *)

Lemma IC_quiet : forall f, quiet f -> forall w, IC w -> IC (f w).
Proof.
  intros f Q w H. destruct (Q w) as [T _]. unfold IC in *. unfold triple in T. inversion T. rewrite H1, H2, H3. assumption.
Qed.

Lemma IC_mod_evt : forall tok f w, IC w -> IC (mod_evt tok f w).
Proof. intros tok f w H. exact H. Qed.
Lemma IC_event_done : forall tok err w, IC w -> IC (event_done tok err w).
Proof. intros tok err w H. exact (IC_quiet _ (event_done_quiet tok err) w H). Qed.

Lemma continue_parent_IC : forall tev p how w, IC w -> IC (continue_parent tev p how w).
Proof.
  intros tev p how w H. unfold continue_parent.
  pose proof (IC_quiet _ (gen_resume_quiet p how) w H) as H1. cbv beta in H1.
  destruct (gen_resume p how w) as [w1 r]. simpl in H1.
  destruct r.
  - apply (IC_reg_gen _ _ p); [|reflexivity|reflexivity]. apply IC_mod_evt. assumption.
  - apply IC_install. assumption.
  - apply (IC_reg_gen _ _ p); [|reflexivity|reflexivity]. apply IC_mod_evt. assumption.
  - apply IC_event_done. apply IC_mod_evt. assumption.
Qed.

Lemma unreg_task_ths : forall t w, ths (unreg_task t w) = ths w. Proof. reflexivity. Qed.

Lemma ptask_body_Inv : forall t w, IC w -> In t (tasks w) -> Inv (ptask_body t w).
Proof.
  intros t w H Hin. unfold ptask_body.
  pose proof H as [A [B [C [D E]]]]. pose proof (E t Hin) as Tok. unfold task_ok in Tok.
  destruct (t_ref t) as [g|sid|sid] eqn:R.
  - (* the handler generator itself *)
    pose proof (IC_quiet _ (gen_resume_quiet g RNext) w H) as H1. cbv beta in H1.
    destruct (gen_resume g RNext w) as [w1 r]. simpl in H1. right.
    destruct r.
    + apply IC_mod_evt. assumption.
    + apply IC_install. apply (IC_unreg_gen _ _ g); [|reflexivity]. apply IC_mod_evt. assumption.
    + assert (IC (unreg_task t (mod_evt (t_ev t) (add_wait (-1)) w1))).
      { apply (IC_unreg_gen _ _ g); [|assumption]. apply IC_mod_evt. assumption. }
      destruct (t_parent t).
      * apply (IC_reg_gen _ _ n); [assumption|reflexivity|reflexivity].
      * apply IC_event_done. assumption.
    + apply IC_event_done. apply IC_mod_evt. apply (IC_unreg_gen _ _ g); assumption.
  - (* the wait generator, registered by _on_done *)
    destruct Tok as [st [Hs [Ph Tq]]]. rewrite Hs.
    pose proof (C sid st Hs) as [O1 O2 O3 O4 O5 O6 O7 O8 O9].
    assert (Hd : In (THDone sid) (ths w)). { apply O2. rewrite Ph. discriminate. }
    apply has_th_In in Hd. rewrite Hd.
    destruct (match s_event st with Some e => Some e | None => s_callval st end) as [e|]; [|left; reflexivity].
    rewrite Tq at 1. simpl t_parent. right.
    apply continue_parent_IC.
    change (IC3 (filter (fun u => negb (th_eqb (THDone sid) u)) (ths w)) (upd_nth sid wst_resumed (wsts w))
                (filter (fun u => negb (task_eqb t u)) (tasks w))).
    assert (Rt : forall s, is_rt s t = false). { intro s. unfold is_rt. rewrite R. reflexivity. }
    rewrite Ph in O7. simpl in O7.
    apply (IC_local (ths w) (wsts w) (tasks w) _ _ sid wst_resumed st); auto.
    + apply NoDup_del. assumption.
    + intros h X. apply In_del in X. tauto.
    + intros h Hn X. apply In_del. split; [assumption|]. intro. subst h. simpl in Hn. congruence.
    + constructor; wcbn.
      * rewrite In_del. split; [intros [X _]; apply O1 in X; congruence|discriminate].
      * rewrite In_del. split; [intros [_ X] _; apply X; reflexivity|]. intro X. exfalso. apply X. reflexivity.
      * rewrite In_del. split; [intros [X _]; apply O3 in X; destruct X as [[X|X] _]; congruence|]. intros [[X|X] _]; discriminate.
      * discriminate.
      * intro X. apply O5 in X. destruct X. congruence.
      * exact O6.
      * rewrite count_rt_unreg_other by apply Rt. unfold alive. lia.
      * rewrite count_rt_unreg_other by apply Rt. exact O8.
      * discriminate.
    + intros s' _. apply count_rt_unreg_other. apply Rt.
    + apply NoDup_filter. assumption.
    + intros u Hu. apply In_unreg in Hu. destruct Hu as [Hu Hne].
      pose proof (E u Hu) as Uok. unfold task_ok in *.
      destruct (t_ref u) as [g'|s'|s'] eqn:Ru; [assumption| |].
      * destruct Uok as [st' [Hs' [Ph' Uq]]]. destruct (Nat.eq_dec s' sid) as [X|X].
        -- subst s'. rewrite Hs in Hs'. inversion Hs'. subst st'. exfalso. apply Hne. congruence.
        -- exists st'. rewrite nth_error_upd_nth. apply Nat.eqb_neq in X. rewrite Nat.eqb_sym, X. auto.
      * destruct Uok as [st' [Hs' Uq]]. rewrite nth_error_upd_nth. destruct (Nat.eqb sid s') eqn:X.
        -- apply Nat.eqb_eq in X. subst s'. rewrite Hs'. simpl. exists (wst_resumed st'). auto.
        -- exists st'. auto.
  - (* the pending TimeoutError *)
    destruct Tok as [st [Hs Tq]].
    rewrite Tq at 1. simpl t_parent. right. apply continue_parent_IC.
    change (IC3 (ths w) (upd_nth sid wst_thrown (wsts w)) (filter (fun u => negb (task_eqb t u)) (tasks w))).
    pose proof (C sid st Hs) as [O1 O2 O3 O4 O5 O6 O7 O8 O9].
    assert (Rt : is_rt sid t = true). { unfold is_rt. rewrite R. simpl. apply Nat.eqb_refl. }
    assert (Uq : forall u, In u (tasks w) -> is_rt sid u = true -> u = t).
    { intros u Hu Ru. unfold is_rt in Ru. apply tref_eqb_eq in Ru. pose proof (E u Hu) as Uok. unfold task_ok in Uok.
      rewrite Ru in Uok. destruct Uok as [st' [Hs' Uq]]. rewrite Hs in Hs'. inversion Hs'. subst st'. congruence. }
    assert (C1 : (1 <= count_rt sid (tasks w))%nat).
    { unfold count_rt. clear -Hin Rt. induction (tasks w) as [|x r IH]; [destruct Hin|]. simpl.
      destruct Hin as [X|X]; [subst; rewrite Rt; simpl; lia|]. destruct (is_rt sid x); simpl; [lia|auto]. }
    apply (IC_local (ths w) (wsts w) (tasks w) _ _ sid wst_thrown st); auto.
    + constructor; wcbn; auto.
      * rewrite (count_rt_unreg_self sid t) by assumption. lia.
    + intros s' Hne. apply count_rt_unreg_other. apply (is_rt_other sid); [assumption|congruence].
    + apply NoDup_filter. assumption.
    + intros u Hu. apply In_unreg in Hu. destruct Hu as [Hu Hne].
      apply task_ok_upd; [auto|intro; split; reflexivity|]. intros _ st0 _ F. exact F.
Qed.

(* processing one task removes no other task from the set *)
Lemma quiet_tasks : forall f, quiet f -> forall w, tasks (f w) = tasks w.
Proof. intros f Q w. destruct (Q w) as [T _]. unfold triple in T. inversion T. reflexivity. Qed.

Lemma In_reg_task : forall t u w, In u (tasks w) -> In u (tasks (reg_task t w)).
Proof. intros t u w H. unfold reg_task. destruct (existsb _ _); [assumption|]. simpl. apply in_app_iff. auto. Qed.

Lemma continue_parent_tasks : forall tev p how w u, In u (tasks w) -> In u (tasks (continue_parent tev p how w)).
Proof.
  intros tev p how w u H. unfold continue_parent.
  pose proof (quiet_tasks _ (gen_resume_quiet p how) w) as T. cbv beta in T.
  destruct (gen_resume p how w) as [w1 r]. simpl in T. rewrite <- T in H.
  destruct r; try (apply In_reg_task; exact H); [rewrite install_tasks|rewrite (quiet_tasks _ (event_done_quiet _ _))]; exact H.
Qed.

Lemma ptask_keeps : forall t u w, In u (tasks w) -> u <> t ->
  (forall g, t_ref t = RGen g -> t_parent t = None) -> In u (tasks (ptask t w)).
Proof.
  intros t u w H Hne Hp. unfold ptask. destruct (bad w); [assumption|]. unfold ptask_body.
  destruct (t_ref t) as [g|sid|sid] eqn:R.
  - pose proof (quiet_tasks _ (gen_resume_quiet g RNext) w) as T. cbv beta in T.
    destruct (gen_resume g RNext w) as [w1 r]. simpl in T. rewrite <- T in H.
    assert (Tq : mk_task (t_ev t) (RGen g) None = t).
    { pose proof (Hp g eq_refl) as Pn. destruct t as [e r' p']. simpl in *. subst. reflexivity. }
    destruct r.
    + exact H.
    + rewrite install_tasks. rewrite Tq. simpl. apply In_unreg. auto.
    + assert (X : In u (tasks (unreg_task t (mod_evt (t_ev t) (add_wait (-1)) w1)))) by (simpl; apply In_unreg; auto).
      destruct (t_parent t); [apply In_reg_task; exact X|].
      rewrite (quiet_tasks _ (event_done_quiet _ _)). exact X.
    + rewrite (quiet_tasks _ (event_done_quiet _ _)). simpl. apply In_unreg. auto.
  - destruct (nth_error (wsts w) sid) as [st|]; [|exact H].
    destruct (has_th (THDone sid) w).
    + destruct (match s_event st with Some e => Some e | None => s_callval st end) as [e|]; [|exact H].
      destruct (t_parent t); [|exact H].
      apply continue_parent_tasks. simpl. apply In_unreg. auto.
    + simpl. apply In_unreg. auto.
  - destruct (t_parent t).
    + apply continue_parent_tasks. simpl. apply In_unreg. auto.
    + simpl. apply In_unreg. auto.
Qed.

Lemma ptask_Inv : forall t w, Inv w -> (bad w = false -> In t (tasks w)) -> Inv (ptask t w).
Proof.
  intros t w [Hb|Hi] Hin; unfold ptask.
  - rewrite Hb. left. assumption.
  - destruct (bad w) eqn:Bw; [left; assumption|]. apply ptask_body_Inv; auto.
Qed.

Lemma fold_ptask_Inv : forall l w, Inv w -> NoDup l -> (bad w = false -> forall u, In u l -> In u (tasks w)) ->
  Inv (fold_left (fun w t => ptask t w) l w).
Proof.
  induction l as [|t r IH]; intros w Hi ND Hin; simpl; [assumption|].
  inversion ND as [|? ? Hnt NDr]; subst.
  apply IH; [apply ptask_Inv; [assumption|intro Bw; apply Hin; [assumption|left; reflexivity]]|assumption|].
  intros Bw' u Hu.
  destruct (bad w) eqn:Bw.
  - unfold ptask in Bw'. rewrite Bw in Bw'. congruence.
  - destruct Hi as [Hb|Hi]; [congruence|].
    apply ptask_keeps; [apply Hin; [reflexivity|right; assumption]|intro; subst; contradiction|].
    intros g R. destruct Hi as [_ [_ [_ [_ E]]]].
    assert (In t (tasks w)) by (apply Hin; [reflexivity|left; reflexivity]).
    specialize (E t H). unfold task_ok in E. rewrite R in E. exact E.
Qed.

(* the schedule only permutes *)
Lemma pick_spec : forall w k l t r, pick w k l = Some (t, r) ->
  In t l /\ (forall u, In u r -> In u l) /\ (NoDup l -> NoDup r /\ ~ In t r).
Proof.
  intros w k l. induction l as [|x l' IH]; intros t r H; simpl in H; [discriminate|].
  destruct (key_eqb (tkey w x) k).
  - inversion H; subst. split; [left; reflexivity|]. split; [intros; right; assumption|].
    intro ND. inversion ND; subst. auto.
  - destruct (pick w k l') as [[u r']|] eqn:P; [|discriminate]. inversion H; subst.
    destruct (IH t r' eq_refl) as [A [B C]]. split; [right; assumption|]. split.
    + intros u [Hu|Hu]; [left; assumption|right; apply B; assumption].
    + intro ND. inversion ND; subst. destruct (C H3) as [C1 C2]. split.
      * constructor; [intro X; apply H2; apply B; assumption|assumption].
      * intros [X|X]; [subst; contradiction|contradiction].
Qed.

Lemma order_by_spec : forall w s l, NoDup l -> NoDup (order_by w s l) /\ (forall u, In u (order_by w s l) -> In u l).
Proof.
  intros w s. induction s as [|k s' IH]; intros l ND; simpl; [auto|].
  destruct (pick w k l) as [[t r]|] eqn:P; [|apply IH; assumption].
  destruct (pick_spec _ _ _ _ _ P) as [A [B C]]. destruct (C ND) as [C1 C2].
  destruct (IH r C1) as [I1 I2]. split.
  - constructor; [intro X; apply C2; apply I2; assumption|assumption].
  - intros u [Hu|Hu]; [subst; assumption|apply B; apply I2; assumption].
Qed.

(* ------------------------------------------------------------------ _dispatcher, tick, run *)

Lemma run_handlers_IC : forall hs tok hi w err, IC w -> IC (fst (run_handlers tok hi hs (w, err))).
Proof.
  induction hs as [|h r IH]; intros tok hi w err H; simpl; [assumption|].
  destruct h as [v raises|c sts].
  - destruct raises; apply IH; apply IC_mod_evt; exact H.
  - apply IH. apply (IC_reg_gen _ _ (length (gens w))); [|reflexivity|reflexivity].
    apply IC_mod_evt. exact H.
Qed.

Lemma fold_Inv : forall {A} (f : world -> A -> world) l w,
  (forall w a, IC w -> Inv (f w a)) -> (forall w a, bad w = true -> f w a = w) ->
  Inv w -> Inv (fold_left f l w).
Proof.
  intros A f l. induction l as [|a r IH]; intros w Hs Hb Hi; simpl; [assumption|].
  apply IH; [assumption|assumption|]. destruct Hi as [B|I]; [rewrite Hb by assumption; left; assumption|auto].
Qed.

Lemma on_event_bad : forall tok w sid, bad w = true -> on_event tok w sid = w.
Proof. intros. unfold on_event. rewrite H. reflexivity. Qed.
Lemma on_done_bad : forall tok w sid, bad w = true -> on_done tok w sid = w.
Proof. intros. unfold on_done. rewrite H. reflexivity. Qed.
Lemma on_tick_bad : forall w sid, bad w = true -> on_tick w sid = w.
Proof. intros. unfold on_tick. rewrite H. reflexivity. Qed.

Lemma fold_on_done_Inv : forall tok l w, Inv w -> (forall s, In s l -> In (THDone s) (ths w)) ->
  Inv (fold_left (on_done tok) l w).
Proof.
  intros tok l. induction l as [|a r IH]; intros w Hi Hd; simpl; [assumption|].
  apply IH.
  - destruct Hi as [B|I]; [rewrite on_done_bad by assumption; left; assumption|].
    apply on_done_Inv; [assumption|apply Hd; left; reflexivity].
  - intros s Hs. apply on_done_keeps_done. apply Hd. right. assumption.
Qed.

Lemma done_sids_In : forall w nm s, In s (done_sids w nm) -> In (THDone s) (ths w).
Proof.
  intros w nm s. unfold done_sids. rewrite in_flat_map. intros [h [Hh Hs]].
  destruct h as [x|x|x]; try destruct Hs.
  destruct (onat_eqb (name_of_sid w x) (Some nm)); [|destruct Hs].
  destruct Hs as [Hs|[]]. subst. assumption.
Qed.

Lemma dispatch_Inv : forall p w q, Inv w -> Inv (dispatch p w q).
Proof.
  intros p w q Hi. unfold dispatch. destruct (bad w) eqn:Bw; [left; assumption|].
  destruct Hi as [B|I]; [congruence|].
  destruct q as [tok|tok|tok|].
  - destruct (nth_error (evs w) tok) as [e|]; [|left; reflexivity].
    pose proof (run_handlers_IC (handlers_of p (e_name e)) tok O (add_log (LDisp tok) (mod_evt tok set_dispatched w)) false) as R.
    destruct (run_handlers tok O (handlers_of p (e_name e)) (add_log (LDisp tok) (mod_evt tok set_dispatched w), false)) as [w1 err].
    simpl in R. apply (quiet_Inv _ (event_done_quiet tok err)).
    apply fold_Inv; [intros; apply on_event_Inv; assumption|intros; apply on_event_bad; assumption|].
    right. apply R. exact I.
  - destruct (nth_error (evs w) tok) as [e|]; [|left; reflexivity].
    apply fold_on_done_Inv; [right; assumption|]. intros s Hs. apply (done_sids_In _ _ _ Hs).
  - destruct (nth_error (evs w) tok) as [e|]; [|left; reflexivity]. right. exact I.
  - apply fold_Inv; [intros; apply on_tick_Inv; assumption|intros; apply on_tick_bad; assumption|right; assumption].
Qed.

Lemma dispatch_bad : forall p w q, bad w = true -> dispatch p w q = w.
Proof. intros. unfold dispatch. rewrite H. reflexivity. Qed.

Lemma fold_ptask_bad : forall l w, bad w = true -> fold_left (fun w t => ptask t w) l w = w.
Proof.
  induction l as [|t r IH]; intros w B; simpl; [reflexivity|].
  unfold ptask at 2. rewrite B. apply IH. assumption.
Qed.

Lemma tick_Inv : forall p g sch t w, Inv w -> Inv (tick p g sch t w).
Proof.
  intros p g sch t w Hi. unfold tick.
  set (w0 := add_log (LTick t) w).
  assert (I0 : Inv w0) by (apply (quiet_Inv _ (quiet_add_log _)); assumption).
  assert (I1 : Inv (fold_left (fun w t => ptask t w) (order_by w0 sch (tasks w0)) w0)).
  { destruct I0 as [B|I].
    - rewrite fold_ptask_bad by assumption. left. assumption.
    - destruct (order_by_spec w0 sch (tasks w0)) as [N1 N2]; [destruct I as [_ [_ [_ [D _]]]]; exact D|].
      apply fold_ptask_Inv; [right; assumption|assumption|]. intros _ u Hu. apply N2. assumption. }
  set (w1 := fold_left (fun w t => ptask t w) (order_by w0 sch (tasks w0)) w0) in *.
  assert (I2 : Inv (if g then push QGenEv w1 else w1)).
  { destruct g; [apply (quiet_Inv _ (quiet_push _)); assumption|assumption]. }
  set (w2 := if g then push QGenEv w1 else w1) in *.
  apply fold_Inv; [intros; apply dispatch_Inv; right; assumption|intros; apply dispatch_bad; assumption|].
  apply (quiet_Inv _ (quiet_set_queue [])). assumption.
Qed.

Lemma fire_roots_Inv : forall roots t w, Inv w -> Inv (fire_roots roots t w).
Proof.
  intros roots t. unfold fire_roots. induction roots as [|r rs IH]; intros w Hi; simpl; [assumption|].
  apply IH. destruct (Nat.eqb (fst r) t); [|assumption].
  apply (quiet_Inv _ (fire_user_quiet (snd r) O O)). assumption.
Qed.

Lemma run_from_Inv : forall p g scheds roots n t w, Inv w -> Inv (run_from p g scheds roots t n w).
Proof.
  intros p g scheds roots n. induction n as [|n IH]; intros t w Hi; simpl; [assumption|].
  apply IH. apply tick_Inv. apply fire_roots_Inv. assumption.
Qed.

Lemma IC_init : IC init.
Proof.
  unfold IC, IC3, init. simpl. split; [constructor|]. split; [intros h []|]. split.
  - intros sid st H. destruct sid; discriminate.
  - split; [constructor|intros t []].
Qed.

Theorem run_Inv : forall p g scheds roots n, Inv (run p g scheds roots n).
Proof. intros. unfold run. apply run_from_Inv. right. apply IC_init. Qed.

(* ------------------------------------------------------------------ what the invariant says about a run *)

Definition wants (h : th) (st : wst) : Prop :=
  match h with
  | THEv _ => s_ph st = Armed
  | THDone _ => s_ph st <> Dead
  | THTick _ => (s_ph st = Armed \/ s_ph st = Seen) /\ 0 <= s_timeout st
  end.

Lemma run_IC : forall p g scheds roots n, bad (run p g scheds roots n) = false -> IC (run p g scheds roots n).
Proof. intros p g scheds roots n B. destruct (run_Inv p g scheds roots n) as [X|X]; [congruence|assumption]. Qed.

Lemma residue_spec : forall p g scheds roots n, let w := run p g scheds roots n in bad w = false ->
  NoDup (ths w) /\
  forall h, In h (ths w) <-> exists st, nth_error (wsts w) (sid_of h) = Some st /\ wants h st.
Proof.
  intros p g scheds roots n w B. destruct (run_IC _ _ _ _ _ B) as [A [R [C _]]]. fold w in A, R, C.
  split; [assumption|]. intro h. split.
  - intro Hin. pose proof (R h Hin) as L. apply nth_error_Some in L.
    destruct (nth_error (wsts w) (sid_of h)) as [st|] eqn:E; [|congruence]. exists st. split; [reflexivity|].
    destruct (C _ _ E) as [O1 O2 O3 _ _ _ _ _ _]. destruct h; simpl in *; [apply O1|apply O2|apply O3]; assumption.
  - intros [st [E W]]. destruct (C _ _ E) as [O1 O2 O3 _ _ _ _ _ _]. destruct h; simpl in *; [apply O1|apply O2|apply O3]; assumption.
Qed.

Lemma no_residue_all_dead : forall p g scheds roots n, let w := run p g scheds roots n in bad w = false ->
  (forall sid st, nth_error (wsts w) sid = Some st -> s_ph st = Dead) ->
  ths w = [] /\ forall t, In t (tasks w) -> forall sid, t_ref t <> RWait sid.
Proof.
  intros p g scheds roots n w B Hd. split.
  - destruct (residue_spec p g scheds roots n B) as [_ S]. fold w in S.
    destruct (ths w) as [|h r] eqn:E; [reflexivity|]. exfalso.
    destruct (proj1 (S h) (or_introl eq_refl)) as [st [Hs W]]. pose proof (Hd _ _ Hs) as D.
    destruct h; simpl in W; [congruence|congruence|destruct W as [[X|X] _]; congruence].
  - intros t Ht sid R. destruct (run_IC _ _ _ _ _ B) as [_ [_ [_ [_ E]]]]. fold w in E.
    specialize (E t Ht). unfold task_ok in E. rewrite R in E. destruct E as [st [Hs [Ph _]]].
    rewrite (Hd _ _ Hs) in Ph. discriminate.
Qed.

Lemma resume_accounting : forall p g scheds roots n sid st, let w := run p g scheds roots n in bad w = false ->
  nth_error (wsts w) sid = Some st ->
  (s_resumes st + alive (s_ph st) + count_rt sid (tasks w) = 1)%nat.
Proof.
  intros p g scheds roots n sid st w B Hs. destruct (run_IC _ _ _ _ _ B) as [_ [_ [C _]]].
  destruct (C _ _ Hs). assumption.
Qed.

Lemma resume_at_most_once : forall p g scheds roots n sid st, let w := run p g scheds roots n in bad w = false ->
  nth_error (wsts w) sid = Some st ->
  (s_resumes st <= 1)%nat /\ (s_resumes st = 1%nat -> s_ph st = Dead /\ count_rt sid (tasks w) = O).
Proof.
  intros p g scheds roots n sid st w B Hs. pose proof (resume_accounting p g scheds roots n sid st B Hs) as A.
  fold w in A. split; [lia|]. intro R. split; [|lia]. destruct (s_ph st); simpl in A; try lia. reflexivity.
Qed.

Lemma timeout_not_early : forall p g scheds roots n sid st, let w := run p g scheds roots n in bad w = false ->
  nth_error (wsts w) sid = Some st ->
  (s_timedout st = true \/ (0 < count_rt sid (tasks w))%nat) ->
  Z.of_nat (s_ticks st) = s_tmo0 st + 1 /\ s_ph st = Dead.
Proof.
  intros p g scheds roots n sid st w B Hs H. destruct (run_IC _ _ _ _ _ B) as [_ [_ [C _]]].
  destruct (C _ _ Hs) as [_ _ _ _ O5 O6 _ O8 _].
  assert (T : s_timedout st = true) by (destruct H; auto).
  unfold wst_time_ok in O6. rewrite T in O6. split; [assumption|apply O5; assumption].
Qed.

Lemma live_countdown : forall p g scheds roots n sid st, let w := run p g scheds roots n in bad w = false ->
  nth_error (wsts w) sid = Some st -> s_timedout st = false -> 0 <= s_tmo0 st ->
  0 <= s_timeout st /\ s_timeout st + Z.of_nat (s_ticks st) = s_tmo0 st.
Proof.
  intros p g scheds roots n sid st w B Hs T L. destruct (run_IC _ _ _ _ _ B) as [_ [_ [C _]]].
  destruct (C _ _ Hs) as [_ _ _ _ _ O6 _ _ _]. unfold wst_time_ok in O6. rewrite T in O6. apply O6. assumption.
Qed.

Lemma wait_task_flagged : forall p g scheds roots n t sid, let w := run p g scheds roots n in bad w = false ->
  In t (tasks w) -> t_ref t = RWait sid ->
  exists st, nth_error (wsts w) sid = Some st /\ s_ph st = Flagged /\ In (THDone sid) (ths w) /\
             ~ In (THEv sid) (ths w) /\ ~ In (THTick sid) (ths w).
Proof.
  intros p g scheds roots n t sid w B Ht R. destruct (run_IC _ _ _ _ _ B) as [_ [_ [C [_ E]]]]. fold w in C, E.
  specialize (E t Ht). unfold task_ok in E. rewrite R in E. destruct E as [st [Hs [Ph _]]].
  exists st. destruct (C _ _ Hs) as [O1 O2 O3 _ _ _ _ _ _]. repeat split; try assumption.
  - apply O2. rewrite Ph. discriminate.
  - intro X. apply O1 in X. congruence.
  - intro X. apply O3 in X. destruct X as [[X|X] _]; congruence.
Qed.

(* ------------------------------------------------------------------ witnesses *)

(* non-vacuity: a call that returns, a call that times out, a callee whose generator handler raises after its
   first yield (the caller is resumed with the error), and a handler that raises right after being resumed *)
Definition prog_ok : program :=
  [ [HGen true [SCall 1%nat (-1); SYield (Some 7)]]; [HPlain (Some 5) false; HGen true [SYield (Some 9)]] ].
Definition prog_tmo : program :=
  [ [HGen true [SCall 1%nat 1; SYield (Some 7)]]; [HGen true [SYield None; SYield None; SYield None; SYield None]] ].
Definition prog_genraise : program :=
  [ [HGen true [SCall 1%nat (-1); SYield (Some 7)]]; [HGen true [SYield (Some 9); SRaise]] ].
Definition prog_raise_resumed : program :=
  [ [HGen true [SCall 1%nat (-1); SYield (Some 7)]]; [HGen true [SCall 2%nat (-1); SRaise]]; [HPlain (Some 5) false] ].

(* ================================================================== second invariant: the machinery never crashes *)

Definition qtok_ok (n : nat) (q : qitem) : Prop :=
  match q with QGenEv => True | QUser t | QDone t | QSucc t => (t < n)%nat end.
Definition owning (st : wst) : bool := Nat.eqb (s_resumes st) 0.
Definition is_gen (r : tref) : bool := match r with RGen _ => true | _ => false end.
Definition gen_for (tok : nat) (t : task) : bool := Nat.eqb (t_ev t) tok && is_gen (t_ref t).
Definition cnt_gen (tok : nat) (ts : list task) : nat := length (filter (gen_for tok) ts).
Definition owns (tok : nat) (s : wst) : bool := Nat.eqb (s_tevent s) tok && owning s.
Definition cnt_own (tok : nat) (ss : list wst) : nat := length (filter (owns tok) ss).
Definition udq (q : qitem) : bool := match q with QUser _ | QDone _ => true | _ => false end.
Definition b2n (b : bool) : nat := if b then 1%nat else 0%nat.

(* handler entries of the log and the event instance they belong to *)
Definition htok (x : lent) : option nat :=
  match x with
  | LPlain t _ | LStep t _ _ | LRes t _ _ _ _ _ | LTmo t _ _ | LTmoUncaught t _ _ | LEnd t _ => Some t
  | _ => None
  end.
Fixpoint ord_ok (l : list lent) : Prop :=       (* newest first *)
  match l with
  | [] => True
  | x :: r => (forall tok hi k e vals err, In (LRes tok hi k e vals err) r -> htok x <> Some e) /\ ord_ok r
  end.

Section Fields.
Variable X : list qitem.
Variable n : nat.                      (* number of event instances *)
Variables (es : list evt) (gs : list gen) (ss : list wst) (ts : list task) (q : list qitem) (lg : list lent).

Definition F_q : Prop := forall x, In x (X ++ q) -> qtok_ok n x.
Definition F_gi : Prop := forall g gn, nth_error gs g = Some gn -> g_rest gn = None -> g_atcall gn = false.
Definition F_task : Prop := forall t, In t ts -> (t_ev t < n)%nat /\
  forall g, t_ref t = RGen g -> exists gn, nth_error gs g = Some gn /\ g_tok gn = t_ev t /\ g_atcall gn = false.
Definition F_wst : Prop := forall sid st, nth_error ss sid = Some st ->
  (s_tevent st < n)%nat /\ (forall e, s_event st = Some e -> (e < n)%nat) /\
  (forall e, s_callval st = Some e -> (e < n)%nat).
Definition F_own : Prop := forall sid st, nth_error ss sid = Some st -> owning st = true ->
  (exists gn, nth_error gs (s_parent st) = Some gn /\ g_tok gn = s_tevent st /\ g_atcall gn = true) /\
  (forall t, In t ts -> t_ref t <> RGen (s_parent st)) /\
  (forall sid' st', sid' <> sid -> nth_error ss sid' = Some st' -> owning st' = true -> s_parent st' <> s_parent st).
Definition F_cnt : Prop := forall tok ev, nth_error es tok = Some ev ->
  e_waiting ev = Z.of_nat (cnt_gen tok ts) + 2 * Z.of_nat (cnt_own tok ss).
Definition gate_ok (ev : evt) : Prop :=
  (e_dispatched ev = false -> e_gate ev = O /\ e_waiting ev = 0) /\
  ((1 <= e_gate ev)%nat -> e_waiting ev = 0 /\ e_dispatched ev = true).
Definition F_gate : Prop := forall tok ev, nth_error es tok = Some ev -> gate_ok ev.
Definition F_quser : Prop := forall tok ev, In (QUser tok) (X ++ q) -> nth_error es tok = Some ev -> e_dispatched ev = false.
Definition F_qdone : Prop := forall tok ev, In (QDone tok) (X ++ q) -> nth_error es tok = Some ev -> (1 <= e_gate ev)%nat.
Definition F_qnodup : Prop := NoDup (filter udq (X ++ q)).
Definition F_flag : Prop := forall sid st, nth_error ss sid = Some st -> s_ph st = Flagged ->
  exists e ev, s_event st = Some e /\ nth_error es e = Some ev /\ (1 <= e_gate ev)%nat /\ ~ In (QDone e) (X ++ q).
Definition F_res : Prop := forall tok hi k e vals err, In (LRes tok hi k e vals err) lg ->
  exists ev, nth_error es e = Some ev /\ (1 <= e_gate ev)%nat /\ e_vals ev = vals /\ e_errors ev = err.
Definition F_ord : Prop := ord_ok lg.
End Fields.

Definition EXc (X : list qitem) (es : list evt) (gs : list gen) (ss : list wst) (ts : list task) (q : list qitem) (lg : list lent) : Prop :=
  F_q X (length es) q /\ F_gi gs /\ F_task (length es) gs ts /\ F_wst (length es) ss /\ F_own gs ss ts /\ F_cnt es ss ts /\
  F_gate es /\ F_quser X es q /\ F_qdone X es q /\ F_qnodup X q /\ F_flag X es ss q /\ F_res es lg /\ F_ord lg.

Definition EX (X : list qitem) (w : world) : Prop :=
  EXc X (evs w) (gens w) (wsts w) (tasks w) (queue w) (wlog w).

(* ---------------------------------------------------------------- counting lemmas *)

Lemma filter_len_snoc : forall {A} (P : A -> bool) l x,
  length (filter P (l ++ [x])) = (length (filter P l) + b2n (P x))%nat.
Proof. intros. rewrite filter_app, app_length. simpl. destruct (P x); simpl; lia. Qed.

Lemma filter_len_upd : forall {A} (P : A -> bool) (f : A -> A) l i x, nth_error l i = Some x ->
  (length (filter P (upd_nth i f l)) + b2n (P x) = length (filter P l) + b2n (P (f x)))%nat.
Proof.
  intros A P f l. induction l as [|y r IH]; intros i x H; destruct i; simpl in *; try discriminate.
  - inversion H; subst. destruct (P x), (P (f x)); simpl; lia.
  - specialize (IH i x H). destruct (P y); simpl; lia.
Qed.

Lemma filter_len_remove : forall (P : task -> bool) l t, NoDup l -> In t l ->
  (length (filter P (filter (fun u => negb (task_eqb t u)) l)) + b2n (P t) = length (filter P l))%nat.
Proof.
  intros P l t ND. induction l as [|y r IH]; intro Hin; [destruct Hin|]. inversion ND; subst. simpl.
  destruct (task_eqb t y) eqn:E.
  - apply task_eqb_eq in E. subst y. simpl.
    assert (Hr : filter (fun u => negb (task_eqb t u)) r = r).
    { clear -H1. induction r as [|z r IH]; simpl; [reflexivity|].
      destruct (task_eqb t z) eqn:E; [apply task_eqb_eq in E; subst; exfalso; apply H1; left; reflexivity|].
      simpl. rewrite IH; [reflexivity|]. intro. apply H1. right. assumption. }
    rewrite Hr. destruct (P t); simpl; lia.
  - destruct Hin as [Hin|Hin]; [subst; assert (task_eqb t t = true) by (apply task_eqb_eq; reflexivity); congruence|].
    specialize (IH H2 Hin). simpl. destruct (P y); simpl; lia.
Qed.

Lemma filter_len_remove_absent : forall (P : task -> bool) l t, ~ In t l ->
  filter (fun u => negb (task_eqb t u)) l = l.
Proof.
  intros P l t. induction l as [|z r IH]; intro H; simpl; [reflexivity|].
  destruct (task_eqb t z) eqn:E; [apply task_eqb_eq in E; subst; exfalso; apply H; left; reflexivity|].
  simpl. rewrite IH; [reflexivity|]. intro. apply H. right. assumption.
Qed.

Lemma nth_error_app_old : forall {A} (l m : list A) i x, nth_error l i = Some x -> nth_error (l ++ m) i = Some x.
Proof. intros. rewrite nth_error_app1; [assumption|]. apply nth_error_Some. congruence. Qed.

Lemma nth_error_lt : forall {A} (l : list A) i x, nth_error l i = Some x -> (i < length l)%nat.
Proof. intros. apply nth_error_Some. congruence. Qed.

Lemma nth_error_upd_same : forall {A} (f : A -> A) l i x, nth_error l i = Some x -> nth_error (upd_nth i f l) i = Some (f x).
Proof. intros. rewrite nth_error_upd_nth, Nat.eqb_refl, H. reflexivity. Qed.

Lemma nth_error_upd_other : forall {A} (f : A -> A) l i j, i <> j -> nth_error (upd_nth i f l) j = nth_error l j.
Proof. intros. rewrite nth_error_upd_nth. apply Nat.eqb_neq in H. rewrite H. reflexivity. Qed.

Lemma nth_error_upd_inv : forall {A} (f : A -> A) l i j y, nth_error (upd_nth i f l) j = Some y ->
  (i = j /\ exists x, nth_error l j = Some x /\ y = f x) \/ (i <> j /\ nth_error l j = Some y).
Proof.
  intros A f l i j y H. rewrite nth_error_upd_nth in H. destruct (Nat.eqb i j) eqn:E.
  - apply Nat.eqb_eq in E. left. split; [assumption|]. destruct (nth_error l j); simpl in H; [|discriminate].
    inversion H. eauto.
  - apply Nat.eqb_neq in E. right. auto.
Qed.

(* ---------------------------------------------------------------- what resuming a generator does *)

Definition ext_of (w w' : world) (nms : list nat) (ls : list lent) : Prop :=
  ths w' = ths w /\ wsts w' = wsts w /\ tasks w' = tasks w /\
  evs w' = evs w ++ map new_evt nms /\
  queue w' = queue w ++ map QUser (seq (length (evs w)) (length nms)) /\
  wlog w' = ls ++ wlog w.

Definition not_res (x : lent) : Prop := forall t h k e v er, x <> LRes t h k e v er.

Lemma ext_refl : forall w, ext_of w w [] [].
Proof. intro w. unfold ext_of. simpl. rewrite !app_nil_r. auto 10. Qed.

Lemma ext_trans_fire : forall w nm b h w' nms ls,
  ext_of (fst (fire_user nm b h w)) w' nms ls ->
  ext_of w w' (nm :: nms) (ls ++ [LFire (length (evs w)) nm b h]).
Proof.
  intros w nm b h w' nms ls [A [B [C [D [E F]]]]]. unfold ext_of. simpl in *.
  repeat split; try assumption.
  - rewrite D. rewrite <- app_assoc. reflexivity.
  - rewrite E. rewrite app_length. simpl. rewrite <- app_assoc. simpl.
    replace (length (evs w) + 1)%nat with (S (length (evs w))) by lia. reflexivity.
  - rewrite F. rewrite <- app_assoc. reflexivity.
Qed.

Lemma ext_log : forall w w' nms ls x, ext_of (add_log x w) w' nms ls -> ext_of w w' nms (ls ++ [x]).
Proof.
  intros w w' nms ls x [A [B [C [D [E F]]]]]. unfold ext_of. simpl in *. repeat split; try assumption.
  rewrite F. rewrite <- app_assoc. reflexivity.
Qed.

Lemma ext_len : forall w w' nms ls, ext_of w w' nms ls -> (length (evs w) <= length (evs w'))%nat.
Proof. intros w w' nms ls [_ [_ [_ [D _]]]]. rewrite D, app_length. lia. Qed.

Lemma run_steps_spec : forall sts tok hi k w w' r k' rest,
  run_steps tok hi k sts w = (w', r, k', rest) ->
  exists nms ls, ext_of w w' nms ls /\ gens w' = gens w /\ bad w' = bad w /\
    (forall x, In x ls -> (htok x = None \/ htok x = Some tok) /\ not_res x) /\
    (forall nm obj tmo cv, r = GWait nm obj tmo cv ->
       (forall t, obj = Some t -> (t < length (evs w'))%nat) /\ (forall t, cv = Some t -> (t < length (evs w'))%nat)) /\
    (rest = None -> is_wait r = false).
Proof.
  induction sts as [|s sts IH]; intros tok hi k w w' r k' rest H; simpl in H.
  - injection H as Hw Hr Hk Hrest. subst w' r k' rest.
    exists [], [LEnd tok hi]. split; [apply ext_log with (ls := []); apply ext_refl|].
    split; [reflexivity|]. split; [reflexivity|]. split.
    + intros x [Hx|[]]; subst; split; [simpl; auto|intros ? ? ? ? ? ?; discriminate].
    + split; [discriminate|reflexivity].
  - set (w0 := add_log (LStep tok hi k) w) in *.
    assert (Lstep : forall x, In x [LStep tok hi k] -> (htok x = None \/ htok x = Some tok) /\ not_res x).
    { intros x [Hx|[]]; subst; split; [simpl; auto|intros ? ? ? ? ? ?; discriminate]. }
    assert (Lfire : forall h x, In x ([LFire (length (evs w0)) h tok 1] ++ [LStep tok hi k]) \/
                                In x ([LFire (length (evs w0)) h tok 2] ++ [LStep tok hi k]) \/
                                In x ([LFire (length (evs w0)) h tok 3] ++ [LStep tok hi k]) ->
                                (htok x = None \/ htok x = Some tok) /\ not_res x).
    { intros h x [Hx|[Hx|Hx]]; destruct Hx as [Hx|[Hx|[]]]; subst; split; try (simpl; auto; fail); intros ? ? ? ? ? ?; discriminate. }
    destruct s as [v|nm tmo|nm|nm tmo fire| |nm].
    + injection H as Hw Hr Hk Hrest. subst w' r k' rest.
      exists [], [LStep tok hi k]. split; [apply ext_log with (ls := []); apply ext_refl|].
      split; [reflexivity|]. split; [reflexivity|]. split; [exact Lstep|]. split; discriminate.
    + injection H as Hw Hr Hk Hrest. subst w' r k' rest.
      exists [nm], ([LFire (length (evs w0)) nm tok 1] ++ [LStep tok hi k]).
      split. { apply ext_log. apply (ext_trans_fire w0 nm tok 1 _ [] []). apply ext_refl. }
      split; [reflexivity|]. split; [reflexivity|].
      split. { intros x Hx. apply (Lfire nm). auto. }
      split; [|discriminate].
      intros nm' obj tmo' cv Hr. inversion Hr; subst obj cv. simpl. rewrite app_length. simpl.
      split; intros t Ht; inversion Ht; lia.
    + injection H as Hw Hr Hk Hrest. subst w' r k' rest.
      exists [nm], ([LFire (length (evs w0)) nm tok 2] ++ [LStep tok hi k]).
      split. { apply ext_log. apply (ext_trans_fire w0 nm tok 2 _ [] []). apply ext_refl. }
      split; [reflexivity|]. split; [reflexivity|].
      split. { intros x Hx. apply (Lfire nm). auto. }
      split; [|discriminate].
      intros nm' obj tmo' cv Hr. inversion Hr; subst obj cv. simpl. rewrite app_length. simpl.
      split; intros t Ht; inversion Ht; lia.
    + destruct fire.
      * injection H as Hw Hr Hk Hrest. subst w' r k' rest.
        exists [nm], ([LFire (length (evs w0)) nm tok 3] ++ [LStep tok hi k]).
        split. { apply ext_log. apply (ext_trans_fire w0 nm tok 3 _ [] []). apply ext_refl. }
        split; [reflexivity|]. split; [reflexivity|].
        split. { intros x Hx. apply (Lfire nm). auto. }
        split; [|discriminate].
        intros nm' obj tmo' cv Hr. inversion Hr; subst. split; intros t Ht; discriminate.
      * injection H as Hw Hr Hk Hrest. subst w' r k' rest.
        exists [], [LStep tok hi k]. split; [apply ext_log with (ls := []); apply ext_refl|].
        split; [reflexivity|]. split; [reflexivity|]. split; [exact Lstep|]. split; [|discriminate].
        intros nm' obj tmo' cv Hr. inversion Hr; subst. split; intros t Ht; discriminate.
    + injection H as Hw Hr Hk Hrest. subst w' r k' rest.
      exists [], [LStep tok hi k]. split; [apply ext_log with (ls := []); apply ext_refl|].
      split; [reflexivity|]. split; [reflexivity|]. split; [exact Lstep|]. split; [discriminate|reflexivity].
    + specialize (IH tok hi (S k) (fst (fire_user nm tok 0 w0)) w' r k' rest H).
      destruct IH as [nms [ls [E [G [B [L [W R]]]]]]].
      exists (nm :: nms), ((ls ++ [LFire (length (evs w0)) nm tok 0]) ++ [LStep tok hi k]).
      split. { apply ext_log. apply ext_trans_fire. exact E. }
      split; [exact G|]. split; [exact B|]. split; [|split; assumption].
      intros x Hx. apply in_app_iff in Hx. destruct Hx as [Hx|Hx]; [|apply Lstep; assumption].
      apply in_app_iff in Hx. destruct Hx as [Hx|[Hx|[]]]; [apply L; assumption|].
      subst x. split; [simpl; auto|intros ? ? ? ? ? ?; discriminate].
Qed.

Definition proto_ok (how : rkind) (gn : gen) : Prop :=
  g_rest gn = None \/ match how with RNext => g_atcall gn = false | _ => g_atcall gn = true end.

Lemma upd_nth_id : forall {A} (l : list A) i, upd_nth i (fun x => x) l = l.
Proof. intros A l. induction l as [|x r IH]; intros [|i]; simpl; try reflexivity. rewrite IH. reflexivity. Qed.

Lemma gen_resume_spec : forall gid how w w1 r gn, gen_resume gid how w = (w1, r) ->
  nth_error (gens w) gid = Some gn ->
  exists nms ls f, ext_of w w1 nms ls /\ gens w1 = upd_nth gid f (gens w) /\
    g_tok (f gn) = g_tok gn /\
    ((g_rest gn = None -> g_atcall gn = false) ->
       g_atcall (f gn) = is_wait r /\ (g_rest (f gn) = None -> g_atcall (f gn) = false)) /\
    (forall x, In x ls -> htok x = None \/ htok x = Some (g_tok gn)) /\
    (forall t h k e v er, In (LRes t h k e v er) ls ->
       how = RSend e /\ exists ev, nth_error (evs w) e = Some ev /\ v = e_vals ev /\ er = e_errors ev) /\
    (forall nm obj tmo cv, r = GWait nm obj tmo cv ->
       (forall t, obj = Some t -> (t < length (evs w1))%nat) /\ (forall t, cv = Some t -> (t < length (evs w1))%nat)) /\
    (proto_ok how gn -> (forall e, how = RSend e -> (e < length (evs w))%nat) -> bad w1 = bad w).
Proof.
  intros gid how w w1 r gn H Hg. unfold gen_resume in H. rewrite Hg in H.
  destruct (g_rest gn) as [sts|] eqn:Rest.
  2:{ injection H as Hw Hr. subst w1 r. exists [], [], (fun x => x).
      split; [apply ext_refl|]. split; [rewrite upd_nth_id; reflexivity|]. split; [reflexivity|].
      split. { intro A. specialize (A eq_refl). split; [rewrite A; destruct how; reflexivity|auto]. }
      split; [intros x []|]. split; [intros ? ? ? ? ? ? []|]. split; [|reflexivity].
      intros nm obj tmo cv Hr. destruct how; discriminate. }
  set (w0 := match how with
             | RNext => if g_atcall gn then set_bad w else w
             | RSend _ => if g_atcall gn then w else set_bad w
             | RThrow => if g_atcall gn then w else set_bad w end) in *.
  assert (E0 : ext_of w w0 [] [] /\ gens w0 = gens w /\ (proto_ok how gn -> bad w0 = bad w)).
  { unfold w0. destruct how; destruct (g_atcall gn) eqn:AC;
      (split; [unfold ext_of; simpl; rewrite ?app_nil_r; repeat split; reflexivity|]; split; [reflexivity|]);
      intros [P|P]; try congruence; reflexivity. }
  destruct E0 as [E0 [G0 B0]].
  (* the common tail: run the steps from a world wp that extends w by lp *)
  assert (Tail : forall wp lp, ext_of w wp [] lp -> gens wp = gens w ->
            (forall x, In x lp -> htok x = None \/ htok x = Some (g_tok gn)) ->
            forall w2 r2 k2 rest2, run_steps (g_tok gn) (g_hi gn) (g_k gn) sts wp = (w2, r2, k2, rest2) ->
            exists nms ls, ext_of w (mod_gen gid (fun _ => {| g_tok := g_tok gn; g_hi := g_hi gn; g_catch := g_catch gn; g_k := S k2;
                                       g_cur := k2; g_atcall := is_wait r2; g_rest := rest2 |}) w2) nms (ls ++ lp) /\
              gens w2 = gens w /\ bad w2 = bad wp /\
              (forall x, In x (ls ++ lp) -> htok x = None \/ htok x = Some (g_tok gn)) /\
              (forall x, In x ls -> not_res x) /\
              (forall nm obj tmo cv, r2 = GWait nm obj tmo cv ->
                 (forall t, obj = Some t -> (t < length (evs w2))%nat) /\ (forall t, cv = Some t -> (t < length (evs w2))%nat)) /\
              (rest2 = None -> is_wait r2 = false)).
  { intros wp lp Ep Gp Lp w2 r2 k2 rest2 Hrun.
    destruct (run_steps_spec _ _ _ _ _ _ _ _ _ Hrun) as [nms [ls [E [G [B [L [Wt R]]]]]]].
    exists nms, ls. destruct Ep as [p1 [p2 [p3 [p4 [p5 p6]]]]]. destruct E as [e1 [e2 [e3 [e4 [e5 e6]]]]].
    simpl in p4, p5. rewrite app_nil_r in p4, p5.
    split. { unfold ext_of. simpl. split; [congruence|]. split; [congruence|]. split; [congruence|].
             split; [rewrite e4, p4; reflexivity|]. split; [rewrite e5, p4, p5; reflexivity|].
             rewrite e6, p6, app_assoc. reflexivity. }
    split; [congruence|]. split; [assumption|]. split.
    { intros x Hx. apply in_app_iff in Hx. destruct Hx as [Hx|Hx]; [apply L; assumption|apply Lp; assumption]. }
    split; [intros x Hx; apply L; assumption|]. split; assumption. }
  destruct how as [|e|].
  - destruct (run_steps (g_tok gn) (g_hi gn) (g_k gn) sts w0) as [[[w2 r2] k2] rest2] eqn:Run.
    injection H as Hw Hr. subst w1 r.
    destruct (Tail w0 [] E0 G0 (fun x (F : In x []) => match F with end) _ _ _ _ Run) as [nms [ls [E [G [B [L [NR [Wt R]]]]]]]].
    rewrite app_nil_r in *.
    exists nms, ls, (fun _ => {| g_tok := g_tok gn; g_hi := g_hi gn; g_catch := g_catch gn; g_k := S k2;
                                 g_cur := k2; g_atcall := is_wait r2; g_rest := rest2 |}).
    split; [exact E|]. split; [simpl; rewrite G; reflexivity|]. split; [reflexivity|].
    split; [intros _; simpl; split; [reflexivity|exact R]|]. split; [exact L|].
    split. { intros t h k e v er Hin. exfalso. apply (NR _ Hin t h k e v er). reflexivity. }
    split; [exact Wt|]. intros P _. simpl. rewrite B. apply B0. exact P.
  - destruct (nth_error (evs w0) e) as [ev|] eqn:Ee.
    + set (x0 := LRes (g_tok gn) (g_hi gn) (g_cur gn) e (e_vals ev) (e_errors ev)) in *.
      destruct (run_steps (g_tok gn) (g_hi gn) (g_k gn) sts (add_log x0 w0)) as [[[w2 r2] k2] rest2] eqn:Run.
      injection H as Hw Hr. subst w1 r.
      assert (Ep : ext_of w (add_log x0 w0) [] [x0]).
      { destruct E0 as [p1 [p2 [p3 [p4 [p5 p6]]]]]. unfold ext_of. simpl in *. repeat split; try assumption. rewrite p6. reflexivity. }
      assert (Lp : forall x, In x [x0] -> htok x = None \/ htok x = Some (g_tok gn)).
      { intros x [Hx|[]]. subst x. right. reflexivity. }
      destruct (Tail _ [x0] Ep G0 Lp _ _ _ _ Run) as [nms [ls [E [G [B [L [NR [Wt R]]]]]]]].
      exists nms, (ls ++ [x0]), (fun _ => {| g_tok := g_tok gn; g_hi := g_hi gn; g_catch := g_catch gn; g_k := S k2;
                                   g_cur := k2; g_atcall := is_wait r2; g_rest := rest2 |}).
      split; [exact E|]. split; [simpl; rewrite G; reflexivity|]. split; [reflexivity|].
      split; [intros _; simpl; split; [reflexivity|exact R]|]. split; [exact L|].
      split. { intros t h k e' v er Hin. apply in_app_iff in Hin. destruct Hin as [Hin|[Hin|[]]].
               - exfalso. apply (NR _ Hin t h k e' v er). reflexivity.
               - unfold x0 in Hin. inversion Hin; subst. split; [reflexivity|]. exists ev. split; [|auto].
                 destruct E0 as [_ [_ [_ [p4 _]]]]. simpl in p4. rewrite app_nil_r in p4. rewrite <- p4. exact Ee. }
      split; [exact Wt|]. intros P _. simpl. rewrite B. simpl. apply B0. exact P.
    + destruct (run_steps (g_tok gn) (g_hi gn) (g_k gn) sts (set_bad w0)) as [[[w2 r2] k2] rest2] eqn:Run.
      injection H as Hw Hr. subst w1 r.
      assert (Ep : ext_of w (set_bad w0) [] []).
      { destruct E0 as [p1 [p2 [p3 [p4 [p5 p6]]]]]. unfold ext_of. simpl in *. repeat split; assumption. }
      destruct (Tail _ [] Ep G0 (fun x (F : In x []) => match F with end) _ _ _ _ Run) as [nms [ls [E [G [B [L [NR [Wt R]]]]]]]].
      rewrite app_nil_r in *.
      exists nms, ls, (fun _ => {| g_tok := g_tok gn; g_hi := g_hi gn; g_catch := g_catch gn; g_k := S k2;
                                   g_cur := k2; g_atcall := is_wait r2; g_rest := rest2 |}).
      split; [exact E|]. split; [simpl; rewrite G; reflexivity|]. split; [reflexivity|].
      split; [intros _; simpl; split; [reflexivity|exact R]|]. split; [exact L|].
      split. { intros t h k e' v er Hin. exfalso. apply (NR _ Hin t h k e' v er). reflexivity. }
      split; [exact Wt|]. intros _ Rg. exfalso. specialize (Rg e eq_refl).
      destruct E0 as [_ [_ [_ [p4 _]]]]. simpl in p4. rewrite app_nil_r in p4. rewrite p4 in Ee.
      apply nth_error_None in Ee. lia.
  - destruct (g_catch gn).
    + set (x0 := LTmo (g_tok gn) (g_hi gn) (g_cur gn)) in *.
      destruct (run_steps (g_tok gn) (g_hi gn) (g_k gn) sts (add_log x0 w0)) as [[[w2 r2] k2] rest2] eqn:Run.
      injection H as Hw Hr. subst w1 r.
      assert (Ep : ext_of w (add_log x0 w0) [] [x0]).
      { destruct E0 as [p1 [p2 [p3 [p4 [p5 p6]]]]]. unfold ext_of. simpl in *. repeat split; try assumption. rewrite p6. reflexivity. }
      assert (Lp : forall x, In x [x0] -> htok x = None \/ htok x = Some (g_tok gn)).
      { intros x [Hx|[]]. subst x. right. reflexivity. }
      destruct (Tail _ [x0] Ep G0 Lp _ _ _ _ Run) as [nms [ls [E [G [B [L [NR [Wt R]]]]]]]].
      exists nms, (ls ++ [x0]), (fun _ => {| g_tok := g_tok gn; g_hi := g_hi gn; g_catch := true; g_k := S k2;
                                   g_cur := k2; g_atcall := is_wait r2; g_rest := rest2 |}).
      split; [exact E|]. split; [simpl; rewrite G; reflexivity|]. split; [reflexivity|].
      split; [intros _; simpl; split; [reflexivity|exact R]|]. split; [exact L|].
      split. { intros t h k e' v er Hin. apply in_app_iff in Hin. destruct Hin as [Hin|[Hin|[]]].
               - exfalso. apply (NR _ Hin t h k e' v er). reflexivity.
               - discriminate. }
      split; [exact Wt|]. intros P _. simpl. rewrite B. simpl. apply B0. exact P.
    + injection H as Hw Hr. subst w1 r.
      exists [], [LTmoUncaught (g_tok gn) (g_hi gn) (g_cur gn)], gen_finish.
      split. { destruct E0 as [p1 [p2 [p3 [p4 [p5 p6]]]]]. unfold ext_of. simpl in *. repeat split; try assumption. rewrite p6. reflexivity. }
      split; [simpl; rewrite G0; reflexivity|]. split; [reflexivity|].
      split; [intros _; simpl; auto|].
      split. { intros x [Hx|[]]. subst x. right. reflexivity. }
      split. { intros t h k e' v er [Hin|[]]. discriminate. }
      split; [intros; discriminate|]. intros P _. simpl. apply B0. exact P.
Qed.

(* ---------------------------------------------------------------- field-wise transfer lemmas *)

Lemma cnt_gen_zero : forall tok ts, (forall t, In t ts -> t_ev t <> tok) -> cnt_gen tok ts = O.
Proof.
  intros tok ts H. unfold cnt_gen. induction ts as [|x r IH]; simpl; [reflexivity|].
  unfold gen_for at 1. destruct (Nat.eqb (t_ev x) tok) eqn:E.
  - apply Nat.eqb_eq in E. exfalso. apply (H x); [left; reflexivity|assumption].
  - simpl. apply IH. intros t Ht. apply H. right. assumption.
Qed.
Lemma cnt_own_zero : forall tok ss, (forall s, In s ss -> s_tevent s <> tok) -> cnt_own tok ss = O.
Proof.
  intros tok ss H. unfold cnt_own. induction ss as [|x r IH]; simpl; [reflexivity|].
  unfold owns at 1. destruct (Nat.eqb (s_tevent x) tok) eqn:E.
  - apply Nat.eqb_eq in E. exfalso. apply (H x); [left; reflexivity|assumption].
  - simpl. apply IH. intros t Ht. apply H. right. assumption.
Qed.

Lemma nth_error_news : forall es nms i ev, nth_error (es ++ map new_evt nms) i = Some ev ->
  nth_error es i = Some ev \/ ((length es <= i)%nat /\ exists nm, ev = new_evt nm).
Proof.
  intros es nms i ev H. destruct (Nat.lt_ge_cases i (length es)) as [L|L].
  - left. rewrite nth_error_app1 in H by assumption. assumption.
  - right. split; [assumption|]. rewrite nth_error_app2 in H by assumption.
    apply nth_error_In in H. apply in_map_iff in H. destruct H as [nm [H _]]. eauto.
Qed.

Lemma In_seq_users : forall x a n, In x (map QUser (seq a n)) -> exists t, x = QUser t /\ (a <= t < a + n)%nat.
Proof. intros x a n H. apply in_map_iff in H. destruct H as [t [E H]]. apply in_seq in H. eauto. Qed.

Lemma filter_udq_users : forall a n, filter udq (map QUser (seq a n)) = map QUser (seq a n).
Proof. intros a n. revert a. induction n; intro a; simpl; [reflexivity|]. rewrite IHn. reflexivity. Qed.

Lemma NoDup_app_intro : forall {A} (l m : list A), NoDup l -> NoDup m -> (forall x, In x l -> ~ In x m) -> NoDup (l ++ m).
Proof.
  intros A l m Hl Hm Hd. induction l as [|x r IH]; simpl; [assumption|]. inversion Hl; subst. constructor.
  - rewrite in_app_iff. intros [H|H]; [contradiction|]. apply (Hd x); [left; reflexivity|assumption].
  - apply IH; [assumption|]. intros y Hy. apply Hd. right. assumption.
Qed.

Lemma NoDup_map_inj : forall {A B} (f : A -> B) l, (forall x y, f x = f y -> x = y) -> NoDup l -> NoDup (map f l).
Proof.
  intros A B f l Hinj H. induction H; simpl; constructor; [|assumption].
  intro Hin. apply in_map_iff in Hin. destruct Hin as [y [E Hy]]. apply Hinj in E. subst. contradiction.
Qed.

(* ordering of the log: adding entries of an event instance that has not passed its gate *)
Lemma ord_ext : forall es t0 ev0 ls lg, F_ord lg -> F_res es lg ->
  (ls = [] \/ (nth_error es t0 = Some ev0 /\ e_gate ev0 = O)) ->
  (forall x, In x ls -> htok x = None \/ htok x = Some t0) ->
  (forall t h k e v er, In (LRes t h k e v er) ls -> exists ev, nth_error es e = Some ev /\ (1 <= e_gate ev)%nat) ->
  F_ord (ls ++ lg).
Proof.
  intros es t0 ev0 ls lg Ho Hr HG Hl Hres. unfold F_ord in *. induction ls as [|x r IH]; simpl; [assumption|].
  destruct HG as [HG|[H0 G0]]; [discriminate|].
  split.
  - intros tok hi k e vals err Hin Hx.
    assert (Ge : exists ev, nth_error es e = Some ev /\ (1 <= e_gate ev)%nat).
    { apply in_app_iff in Hin. destruct Hin as [Hin|Hin].
      - apply (Hres tok hi k e vals err). right. assumption.
      - destruct (Hr _ _ _ _ _ _ Hin) as [ev [A [B _]]]. eauto. }
    destruct Ge as [ev [A B]]. destruct (Hl x (or_introl eq_refl)) as [N|N]; [congruence|].
    rewrite N in Hx. inversion Hx. subst e. rewrite H0 in A. inversion A. subst. lia.
  - destruct r as [|y r']; [simpl; assumption|]. apply IH; [right; auto|intros z Hz; apply Hl; right; assumption|].
    intros t h k e v er Hin. apply (Hres t h k e v er). right. assumption.
Qed.

(* Stage A: events appended, QUser entries pushed, log entries of the active instance t0 added *)
Lemma EX_ext : forall X es gs ss ts q lg nms ls t0 ev0,
  EXc X es gs ss ts q lg ->
  (ls = [] \/ (nth_error es t0 = Some ev0 /\ e_gate ev0 = O)) ->
  (forall x, In x ls -> htok x = None \/ htok x = Some t0) ->
  (forall t h k e v er, In (LRes t h k e v er) ls ->
     exists ev, nth_error es e = Some ev /\ (1 <= e_gate ev)%nat /\ e_vals ev = v /\ e_errors ev = er) ->
  EXc X (es ++ map new_evt nms) gs ss ts (q ++ map QUser (seq (length es) (length nms))) (ls ++ lg).
Proof.
  intros X es gs ss ts q lg nms ls t0 ev0 [Hq [Hgi [Htask [Hwst [Hown [Hcnt [Hgate [Hqu [Hqd [Hnd [Hfl [Hres Hord]]]]]]]]]]]] HG Hl Hlr.
  assert (Len : length (es ++ map new_evt nms) = (length es + length nms)%nat) by (rewrite app_length, map_length; reflexivity).
  assert (Pend : forall x, In x (X ++ q ++ map QUser (seq (length es) (length nms))) ->
                 In x (X ++ q) \/ exists t, x = QUser t /\ (length es <= t < length es + length nms)%nat).
  { intros x Hx. rewrite app_assoc in Hx. apply in_app_iff in Hx. destruct Hx as [Hx|Hx]; [left; assumption|].
    right. apply In_seq_users. assumption. }
  unfold EXc. rewrite Len. repeat match goal with |- _ /\ _ => split end.
  - intros x Hx. apply Pend in Hx. destruct Hx as [Hx|[t [E R]]].
    + specialize (Hq x Hx). destruct x; simpl in *; lia.
    + subst x. simpl. lia.
  - assumption.
  - intros t Ht. destruct (Htask t Ht) as [A B]. split; [lia|assumption].
  - intros sid st Hs. destruct (Hwst sid st Hs) as [A [B C]]. split; [lia|].
    split; intros e He; [specialize (B e He)|specialize (C e He)]; lia.
  - assumption.
  - intros tok ev Hev. apply nth_error_news in Hev. destruct Hev as [Hev|[L [nm E]]]; [exact (Hcnt _ _ Hev)|].
    subst ev. simpl. rewrite cnt_gen_zero, cnt_own_zero; [reflexivity| |].
    + intros s Hs. apply In_nth_error in Hs. destruct Hs as [sid Hs]. destruct (Hwst sid s Hs) as [A _]. lia.
    + intros t Ht. destruct (Htask t Ht) as [A _]. lia.
  - intros tok ev Hev. apply nth_error_news in Hev. destruct Hev as [Hev|[L [nm E]]]; [exact (Hgate _ _ Hev)|].
    subst ev. unfold gate_ok. simpl. split; [auto|lia].
  - intros tok ev Hin Hev. apply nth_error_news in Hev. destruct Hev as [Hev|[L [nm E]]].
    + apply Pend in Hin. destruct Hin as [Hin|[t [E R]]]; [eauto|]. inversion E; subst t.
      apply nth_error_lt in Hev. lia.
    + subst ev. reflexivity.
  - intros tok ev Hin Hev. apply Pend in Hin. destruct Hin as [Hin|[t [E R]]]; [|discriminate].
    apply nth_error_news in Hev. destruct Hev as [Hev|[L [nm E]]]; [eauto|].
    specialize (Hq _ Hin). simpl in Hq. lia.
  - unfold F_qnodup in *. rewrite app_assoc, filter_app, filter_udq_users.
    apply NoDup_app_intro; [assumption| |].
    + apply NoDup_map_inj; [intros x y E; inversion E; reflexivity|apply seq_NoDup].
    + intros x Hx Hx'. apply filter_In in Hx. destruct Hx as [Hx _]. apply In_seq_users in Hx'.
      destruct Hx' as [t [E R]]. subst x. specialize (Hq _ Hx). simpl in Hq. lia.
  - intros sid st Hs Ph. destruct (Hfl sid st Hs Ph) as [e [ev [A [B [C D]]]]]. exists e, ev.
    split; [assumption|]. split; [apply nth_error_app_old; assumption|]. split; [assumption|].
    intro Hin. apply Pend in Hin. destruct Hin as [Hin|[t [E R]]]; [contradiction|discriminate].
  - intros tok hi k e vals err Hin. apply in_app_iff in Hin. destruct Hin as [Hin|Hin].
    + destruct (Hlr _ _ _ _ _ _ Hin) as [ev [A B]]. exists ev. split; [apply nth_error_app_old; assumption|assumption].
    + destruct (Hres _ _ _ _ _ _ Hin) as [ev [A B]]. exists ev. split; [apply nth_error_app_old; assumption|assumption].
  - apply (ord_ext es t0 ev0); try assumption.
    intros t h k e v er Hin. destruct (Hlr _ _ _ _ _ _ Hin) as [ev [A [B _]]]. eauto.
Qed.

(* ---------------------------------------------------------------- events updated at one index *)

Section EvtUpd.
Variables (X : list qitem) (es : list evt) (tev : nat) (F : evt -> evt) (ev0 : evt).
Hypothesis H0 : nth_error es tev = Some ev0.

Lemma upd_evt_inv : forall tok ev, nth_error (upd_nth tev F es) tok = Some ev ->
  (tok = tev /\ ev = F ev0) \/ (tok <> tev /\ nth_error es tok = Some ev).
Proof.
  intros tok ev H. apply nth_error_upd_inv in H. destruct H as [[E [x [A B]]]|[E A]].
  - left. subst tok. rewrite H0 in A. inversion A. subst. auto.
  - right. auto.
Qed.

Lemma F_gate_upd : F_gate es -> gate_ok (F ev0) -> F_gate (upd_nth tev F es).
Proof. intros H G tok ev Hev. apply upd_evt_inv in Hev. destruct Hev as [[A B]|[A B]]; [subst; assumption|eauto]. Qed.

Lemma F_quser_upd : forall q, F_quser X es q -> (e_dispatched (F ev0) = true -> e_dispatched ev0 = true \/ ~ In (QUser tev) (X ++ q)) ->
  F_quser X (upd_nth tev F es) q.
Proof.
  intros q H G tok ev Hin Hev. apply upd_evt_inv in Hev. destruct Hev as [[A B]|[A B]]; [|eauto].
  subst. destruct (e_dispatched (F ev0)) eqn:D; [|reflexivity]. destruct (G eq_refl) as [G1|G1]; [|contradiction].
  rewrite (H tev ev0 Hin H0) in G1. discriminate.
Qed.

Lemma F_qdone_upd : forall q, F_qdone X es q -> (e_gate ev0 <= e_gate (F ev0))%nat -> F_qdone X (upd_nth tev F es) q.
Proof.
  intros q H G tok ev Hin Hev. apply upd_evt_inv in Hev. destruct Hev as [[A B]|[A B]]; [|eauto].
  subst. specialize (H tev ev0 Hin H0). lia.
Qed.

Lemma F_flag_upd : forall ss q, F_flag X es ss q -> (e_gate ev0 <= e_gate (F ev0))%nat -> F_flag X (upd_nth tev F es) ss q.
Proof.
  intros ss q H G sid st Hs Ph. destruct (H sid st Hs Ph) as [e [ev [A [B [C D]]]]].
  destruct (Nat.eq_dec e tev) as [E|E].
  - subst e. rewrite H0 in B. inversion B. subst ev. exists tev, (F ev0).
    split; [assumption|]. split; [apply nth_error_upd_same; assumption|]. split; [lia|assumption].
  - exists e, ev. split; [assumption|]. split; [rewrite nth_error_upd_other by congruence; assumption|auto].
Qed.

Lemma F_res_upd : forall lg, F_res es lg ->
  ((1 <= e_gate ev0)%nat -> (1 <= e_gate (F ev0))%nat /\ e_vals (F ev0) = e_vals ev0 /\ e_errors (F ev0) = e_errors ev0) ->
  F_res (upd_nth tev F es) lg.
Proof.
  intros lg H G tok hi k e vals err Hin. destruct (H _ _ _ _ _ _ Hin) as [ev [A [B [C D]]]].
  destruct (Nat.eq_dec e tev) as [E|E].
  - subst e. rewrite H0 in A. inversion A. subst ev. destruct (G B) as [G1 [G2 G3]].
    exists (F ev0). split; [apply nth_error_upd_same; assumption|]. split; [assumption|]. split; congruence.
  - exists ev. split; [rewrite nth_error_upd_other by congruence; assumption|auto].
Qed.

Lemma F_cnt_upd : forall ss ts ss' ts', F_cnt es ss ts ->
  (forall tok, tok <> tev -> cnt_gen tok ts' = cnt_gen tok ts /\ cnt_own tok ss' = cnt_own tok ss) ->
  e_waiting (F ev0) = Z.of_nat (cnt_gen tev ts') + 2 * Z.of_nat (cnt_own tev ss') ->
  F_cnt (upd_nth tev F es) ss' ts'.
Proof.
  intros ss ts ss' ts' H Ho Ht tok ev Hev. apply upd_evt_inv in Hev. destruct Hev as [[A B]|[A B]].
  - subst. assumption.
  - destruct (Ho tok A) as [C1 C2]. rewrite C1, C2. apply H. assumption.
Qed.
End EvtUpd.

(* ---------------------------------------------------------------- counts under the changes processTask makes *)

Lemma cnt_gen_remove : forall tok ts t, NoDup ts -> In t ts ->
  (cnt_gen tok (filter (fun u => negb (task_eqb t u)) ts) + b2n (gen_for tok t) = cnt_gen tok ts)%nat.
Proof. intros. unfold cnt_gen. apply filter_len_remove; assumption. Qed.
Lemma cnt_gen_snoc : forall tok ts t, cnt_gen tok (ts ++ [t]) = (cnt_gen tok ts + b2n (gen_for tok t))%nat.
Proof. intros. unfold cnt_gen. apply filter_len_snoc. Qed.
Lemma cnt_own_snoc : forall tok ss s, cnt_own tok (ss ++ [s]) = (cnt_own tok ss + b2n (owns tok s))%nat.
Proof. intros. unfold cnt_own. apply filter_len_snoc. Qed.
Lemma cnt_own_upd : forall tok ss sid f st, nth_error ss sid = Some st ->
  (cnt_own tok (upd_nth sid f ss) + b2n (owns tok st) = cnt_own tok ss + b2n (owns tok (f st)))%nat.
Proof. intros. unfold cnt_own. apply filter_len_upd. assumption. Qed.

Lemma gen_for_gen : forall tok tev g p, gen_for tok (mk_task tev (RGen g) p) = Nat.eqb tev tok.
Proof. intros. unfold gen_for. simpl. rewrite andb_true_r. reflexivity. Qed.
Lemma gen_for_other : forall tok t, is_gen (t_ref t) = false -> gen_for tok t = false.
Proof. intros. unfold gen_for. rewrite H. apply andb_false_r. Qed.

Definition vals_only (F : evt -> evt) : Prop :=
  forall ev, e_waiting (F ev) = e_waiting ev /\ e_gate (F ev) = e_gate ev /\ e_dispatched (F ev) = e_dispatched ev.

Lemma vals_only_oval : forall v, vals_only (add_oval v).
Proof. intros [v|] ev; simpl; auto. Qed.
Lemma vals_only_err : vals_only add_err.
Proof. intro ev; simpl; auto. Qed.
Lemma vals_only_alert : vals_only set_alert.
Proof. intro ev; simpl; auto. Qed.

Lemma F_gi_upd : forall gs g f gn, F_gi gs -> nth_error gs g = Some gn ->
  (g_rest (f gn) = None -> g_atcall (f gn) = false) -> F_gi (upd_nth g f gs).
Proof.
  intros gs g f gn H Hg Hf g0 gn0 H0 R. apply nth_error_upd_inv in H0. destruct H0 as [[E [x [A B]]]|[E A]].
  - subst g0. rewrite Hg in A. inversion A. subst. auto.
  - eauto.
Qed.

(* events whose only change is in value / alert; generators other than g untouched, g keeps "not at a call" *)
Lemma EX_vals : forall X es gs ss ts q lg tev F ev0,
  EXc X es gs ss ts q lg -> nth_error es tev = Some ev0 -> vals_only F ->
  (e_gate ev0 = O \/ (e_vals (F ev0) = e_vals ev0 /\ e_errors (F ev0) = e_errors ev0)) ->
  EXc X (upd_nth tev F es) gs ss ts q lg.
Proof.
  intros X es gs ss ts q lg tev F ev0 [Hq [Hgi [Htask [Hwst [Hown [Hcnt [Hgate [Hqu [Hqd [Hnd [Hfl [Hres Hord]]]]]]]]]]]] H0 VO G.
  destruct (VO ev0) as [V1 [V2 V3]].
  unfold EXc. rewrite length_upd_nth. repeat match goal with |- _ /\ _ => split end; try assumption.
  - apply (F_cnt_upd es tev F ev0 H0 ss ts); [assumption|auto|]. rewrite V1. apply Hcnt. assumption.
  - apply (F_gate_upd es tev F ev0 H0); [assumption|]. specialize (Hgate tev ev0 H0). unfold gate_ok in *. rewrite V1, V2, V3. assumption.
  - apply (F_quser_upd X es tev F ev0 H0); [assumption|]. rewrite V3. auto.
  - apply (F_qdone_upd X es tev F ev0 H0); [assumption|lia].
  - apply (F_flag_upd X es tev F ev0 H0); [assumption|lia].
  - apply (F_res_upd es tev F ev0 H0); [assumption|]. intro L. destruct G as [G|[G1 G2]]; [lia|]. split; [lia|auto].
Qed.

(* the generator g is stepped and stays the object of its own RGen task *)
Lemma EX_gen_same : forall X es gs ss ts q lg g f gn t,
  EXc X es gs ss ts q lg -> In t ts -> t_ref t = RGen g -> nth_error gs g = Some gn ->
  g_tok (f gn) = g_tok gn -> g_atcall (f gn) = false ->
  EXc X es (upd_nth g f gs) ss ts q lg.
Proof.
  intros X es gs ss ts q lg g f gn t [Hq [Hgi [Htask [Hwst [Hown [Hcnt [Hgate [Hqu [Hqd [Hnd [Hfl [Hres Hord]]]]]]]]]]]] Hin R Hg F1 F2.
  unfold EXc. repeat match goal with |- _ /\ _ => split end; try assumption.
  - apply (F_gi_upd gs g f gn); auto.
  - intros u Hu. destruct (Htask u Hu) as [A B]. split; [assumption|]. intros g0 R0. destruct (B g0 R0) as [gn0 [C [D E]]].
    destruct (Nat.eq_dec g0 g) as [Eg|Eg].
    + subst g0. rewrite Hg in C. inversion C. subst gn0. exists (f gn). split; [apply nth_error_upd_same; assumption|]. split; congruence.
    + exists gn0. split; [rewrite nth_error_upd_other by congruence; assumption|auto].
  - intros sid st Hs Ow. destruct (Hown sid st Hs Ow) as [[gn0 [A [B C]]] [D E]].
    split; [|split; assumption]. exists gn0. split; [|auto].
    rewrite nth_error_upd_other; [assumption|]. intro Eg. apply (D t Hin). congruence.
Qed.

Lemma active_gate : forall es ss ts tev ev0, F_cnt es ss ts -> F_gate es -> nth_error es tev = Some ev0 ->
  (0 < cnt_gen tev ts + cnt_own tev ss)%nat -> e_dispatched ev0 = true /\ e_gate ev0 = O.
Proof.
  intros es ss ts tev ev0 Hc Hg H0 P. specialize (Hc tev ev0 H0). destruct (Hg tev ev0 H0) as [G1 G2].
  split.
  - destruct (e_dispatched ev0); [reflexivity|]. destruct (G1 eq_refl). lia.
  - destruct (e_gate ev0) eqn:E; [reflexivity|]. assert (L : (1 <= S n)%nat) by lia. destruct (G2 L). lia.
Qed.

Lemma gate_ok_active : forall ev d, e_dispatched ev = true -> e_gate ev = O -> gate_ok (add_wait d ev).
Proof. intros ev d D G. unfold gate_ok. simpl. rewrite D, G. split; [discriminate|lia]. Qed.

Lemma cnt_pos_gen : forall tev ts t, In t ts -> gen_for tev t = true -> (0 < cnt_gen tev ts)%nat.
Proof.
  intros tev ts t Hin G. unfold cnt_gen. induction ts as [|x r IH]; [destruct Hin|]. simpl.
  destruct Hin as [E|Hin]; [subst; rewrite G; simpl; lia|]. destruct (gen_for tev x); simpl; [lia|auto].
Qed.

(* the events of the standard shape "waiting changes, nothing else" *)
Lemma evt_fields_wait : forall X es ss q lg tev d ev0,
  nth_error es tev = Some ev0 -> e_dispatched ev0 = true -> e_gate ev0 = O ->
  F_gate es -> F_quser X es q -> F_qdone X es q -> F_flag X es ss q -> F_res es lg ->
  F_gate (upd_nth tev (add_wait d) es) /\ F_quser X (upd_nth tev (add_wait d) es) q /\
  F_qdone X (upd_nth tev (add_wait d) es) q /\ F_flag X (upd_nth tev (add_wait d) es) ss q /\
  F_res (upd_nth tev (add_wait d) es) lg.
Proof.
  intros X es ss q lg tev d ev0 H0 D G Hgate Hqu Hqd Hfl Hres.
  split; [apply (F_gate_upd es tev _ ev0 H0); [assumption|apply gate_ok_active; assumption]|].
  split; [apply (F_quser_upd X es tev _ ev0 H0); [assumption|simpl; auto]|].
  split; [apply (F_qdone_upd X es tev _ ev0 H0); [assumption|simpl; lia]|].
  split; [apply (F_flag_upd X es tev _ ev0 H0); [assumption|simpl; lia]|].
  apply (F_res_upd es tev _ ev0 H0); [assumption|]. intro L. lia.
Qed.

(* L3: a handler generator ends: its task is removed and one waitingHandlers count released *)
Lemma EX_task_done : forall X es gs ss ts q lg t tev g ev0,
  EXc X es gs ss ts q lg -> NoDup ts -> In t ts -> t_ref t = RGen g -> t_ev t = tev ->
  nth_error es tev = Some ev0 ->
  EXc X (upd_nth tev (add_wait (-1)) es) gs ss (filter (fun u => negb (task_eqb t u)) ts) q lg.
Proof.
  intros X es gs ss ts q lg t tev g ev0 [Hq [Hgi [Htask [Hwst [Hown [Hcnt [Hgate [Hqu [Hqd [Hnd [Hfl [Hres Hord]]]]]]]]]]]] ND Hin R Te H0.
  assert (Gf : gen_for tev t = true). { unfold gen_for. rewrite Te, Nat.eqb_refl, R. reflexivity. }
  destruct (active_gate es ss ts tev ev0 Hcnt Hgate H0) as [D G]. { pose proof (cnt_pos_gen tev ts t Hin Gf). lia. }
  destruct (evt_fields_wait X es ss q lg tev (-1) ev0 H0 D G Hgate Hqu Hqd Hfl Hres) as [P1 [P2 [P3 [P4 P5]]]].
  unfold EXc. rewrite length_upd_nth. repeat match goal with |- _ /\ _ => split end; try assumption.
  - intros u Hu. apply In_unreg in Hu. apply Htask. tauto.
  - intros sid st Hs Ow. destruct (Hown sid st Hs Ow) as [A [B C]]. split; [assumption|]. split; [|assumption].
    intros u Hu. apply In_unreg in Hu. apply B. tauto.
  - apply (F_cnt_upd es tev _ ev0 H0 ss ts); [assumption| |].
    + intros tok Ne. split; [|reflexivity]. pose proof (cnt_gen_remove tok ts t ND Hin) as C.
      assert (gen_for tok t = false). { unfold gen_for. rewrite Te. apply Nat.eqb_neq in Ne. rewrite Nat.eqb_sym, Ne. reflexivity. }
      rewrite H in C. simpl in C. lia.
    + unfold add_wait; cbn [e_waiting]. rewrite (Hcnt tev ev0 H0). pose proof (cnt_gen_remove tev ts t ND Hin) as C. rewrite Gf in C. simpl in C. lia.
Qed.

(* L7: a task that is not a handler generator (wait generator, pending TimeoutError) leaves the set *)
Lemma EX_remove_nongen : forall X es gs ss ts q lg t,
  EXc X es gs ss ts q lg -> is_gen (t_ref t) = false ->
  EXc X es gs ss (filter (fun u => negb (task_eqb t u)) ts) q lg.
Proof.
  intros X es gs ss ts q lg t [Hq [Hgi [Htask [Hwst [Hown [Hcnt [Hgate [Hqu [Hqd [Hnd [Hfl [Hres Hord]]]]]]]]]]]] Ng.
  unfold EXc. repeat match goal with |- _ /\ _ => split end; try assumption.
  - intros u Hu. apply In_unreg in Hu. apply Htask. tauto.
  - intros sid st Hs Ow. destruct (Hown sid st Hs Ow) as [A [B C]]. split; [assumption|]. split; [|assumption].
    intros u Hu. apply In_unreg in Hu. apply B. tauto.
  - intros tok ev Hev. rewrite (Hcnt tok ev Hev). f_equal. f_equal. unfold cnt_gen.
    clear -Ng. induction ts as [|x r IH]; simpl; [reflexivity|]. destruct (task_eqb t x) eqn:E; simpl.
    + apply task_eqb_eq in E. subst x. rewrite (gen_for_other tok t Ng). assumption.
    + destruct (gen_for tok x); simpl; congruence.
Qed.

(* L11: such a task enters the set *)
Lemma EX_add_nongen : forall X es gs ss ts q lg t,
  EXc X es gs ss ts q lg -> is_gen (t_ref t) = false -> (t_ev t < length es)%nat ->
  EXc X es gs ss (ts ++ [t]) q lg.
Proof.
  intros X es gs ss ts q lg t [Hq [Hgi [Htask [Hwst [Hown [Hcnt [Hgate [Hqu [Hqd [Hnd [Hfl [Hres Hord]]]]]]]]]]]] Ng Rg.
  unfold EXc. repeat match goal with |- _ /\ _ => split end; try assumption.
  - intros u Hu. apply in_app_iff in Hu. destruct Hu as [Hu|[Hu|[]]]; [auto|]. subst u. split; [assumption|].
    intros g R. rewrite R in Ng. discriminate.
  - intros sid st Hs Ow. destruct (Hown sid st Hs Ow) as [A [B C]]. split; [assumption|]. split; [|assumption].
    intros u Hu. apply in_app_iff in Hu. destruct Hu as [Hu|[Hu|[]]]; [auto|]. subst u. intro R. rewrite R in Ng. discriminate.
  - intros tok ev Hev. rewrite (Hcnt tok ev Hev), cnt_gen_snoc, (gen_for_other tok t Ng). simpl. f_equal. f_equal. lia.
Qed.

Lemma F_flag_snoc : forall X es ss q nw, F_flag X es ss q -> s_ph nw <> Flagged -> F_flag X es (ss ++ [nw]) q.
Proof.
  intros X es ss q nw H N sid st Hs Ph. apply nth_error_snoc in Hs. destruct Hs as [[Hs _]|[_ E]]; [eauto|]. subst. contradiction.
Qed.

Lemma F_flag_upd_wst : forall X es ss q sid R st, F_flag X es ss q -> nth_error ss sid = Some st ->
  s_ph (R st) <> Flagged -> F_flag X es (upd_nth sid R ss) q.
Proof.
  intros X es ss q sid R st H Hs N s2 st2 H2 Ph. apply nth_error_upd_inv in H2. destruct H2 as [[E [x [A B]]]|[E A]].
  - subst s2. rewrite Hs in A. inversion A. subst. contradiction.
  - eauto.
Qed.

Definition keeps_ids (R : wst -> wst) : Prop :=
  forall st, s_tevent (R st) = s_tevent st /\ s_parent (R st) = s_parent st /\ s_event (R st) = s_event st /\ s_callval (R st) = s_callval st.

Lemma F_wst_upd : forall n ss sid R, F_wst n ss -> keeps_ids R -> F_wst n (upd_nth sid R ss).
Proof.
  intros n ss sid R H K s2 st2 H2. apply nth_error_upd_inv in H2. destruct H2 as [[E [x [A B]]]|[E A]]; [|eauto].
  subst. destruct (K x) as [K1 [K2 [K3 K4]]]. rewrite K1, K3, K4. eauto.
Qed.

Lemma F_wst_snoc : forall n ss nw, F_wst n ss -> (s_tevent nw < n)%nat -> (forall e, s_event nw = Some e -> (e < n)%nat) ->
  (forall e, s_callval nw = Some e -> (e < n)%nat) -> F_wst n (ss ++ [nw]).
Proof.
  intros n ss nw H A B C sid st Hs. apply nth_error_snoc in Hs. destruct Hs as [[Hs _]|[_ E]]; [eauto|]. subst. auto.
Qed.

(* L4: a handler generator yields a call/wait: its task leaves, an owning wait appears, one more count *)
Lemma EX_gen_to_wait : forall X es gs ss ts q lg t tev g gn f ev0 nw,
  EXc X es gs ss ts q lg -> NoDup ts -> In t ts -> t_ref t = RGen g -> t_ev t = tev ->
  (forall u, In u ts -> t_ref u = RGen g -> u = t) ->
  nth_error gs g = Some gn -> g_tok (f gn) = g_tok gn -> g_atcall (f gn) = true ->
  (g_rest (f gn) = None -> g_atcall (f gn) = false) ->
  nth_error es tev = Some ev0 ->
  s_tevent nw = tev -> s_parent nw = g -> s_resumes nw = O -> s_ph nw = Armed -> s_event nw = None ->
  (forall e, s_callval nw = Some e -> (e < length es)%nat) ->
  EXc X (upd_nth tev (add_wait 1) es) (upd_nth g f gs) (ss ++ [nw]) (filter (fun u => negb (task_eqb t u)) ts) q lg.
Proof.
  intros X es gs ss ts q lg t tev g gn f ev0 nw [Hq [Hgi [Htask [Hwst [Hown [Hcnt [Hgate [Hqu [Hqd [Hnd [Hfl [Hres Hord]]]]]]]]]]]]
    ND Hin R Te U Hg F1 F2 F3 H0 N1 N2 N3 N4 N5 N6.
  assert (Gf : gen_for tev t = true). { unfold gen_for. rewrite Te, Nat.eqb_refl, R. reflexivity. }
  destruct (active_gate es ss ts tev ev0 Hcnt Hgate H0) as [D G]. { pose proof (cnt_pos_gen tev ts t Hin Gf). lia. }
  destruct (evt_fields_wait X es ss q lg tev 1 ev0 H0 D G Hgate Hqu Hqd Hfl Hres) as [P1 [P2 [P3 [P4 P5]]]].
  destruct (Htask t Hin) as [Tr Tg]. destruct (Tg g R) as [gn' [Tg1 [Tg2 Tg3]]]. rewrite Hg in Tg1. inversion Tg1. subst gn'.
  assert (Own_ne : forall sid st, nth_error ss sid = Some st -> owning st = true -> s_parent st <> g).
  { intros sid st Hs Ow E. destruct (Hown sid st Hs Ow) as [_ [B _]]. apply (B t Hin). congruence. }
  assert (Onw : owning nw = true) by (unfold owning; rewrite N3; reflexivity).
  unfold EXc. rewrite length_upd_nth. repeat match goal with |- _ /\ _ => split end; try assumption.
  - apply (F_gi_upd gs g f gn); assumption.
  - intros u Hu. apply In_unreg in Hu. destruct Hu as [Hu Ne]. destruct (Htask u Hu) as [A B]. split; [assumption|].
    intros g0 R0. destruct (B g0 R0) as [gn0 [C1 C2]]. exists gn0. split; [|assumption].
    rewrite nth_error_upd_other; [assumption|]. intro E. subst g0. apply Ne. apply U; assumption.
  - apply F_wst_snoc; [assumption|lia| |assumption]. intros e He. rewrite N5 in He. discriminate.
  - intros sid st Hs Ow. apply nth_error_snoc in Hs. destruct Hs as [[Hs Hl]|[Hl E]].
    + destruct (Hown sid st Hs Ow) as [[gn0 [A1 A2]] [B C]]. split; [|split].
      * exists gn0. split; [|assumption]. rewrite nth_error_upd_other; [assumption|]. intro E. apply (Own_ne sid st Hs Ow). auto.
      * intros u Hu. apply In_unreg in Hu. apply B. tauto.
      * intros sid' st' Ne Hs' Ow'. apply nth_error_snoc in Hs'. destruct Hs' as [[Hs' _]|[_ E]]; [eauto|].
        subst st'. rewrite N2. intro E. apply (Own_ne sid st Hs Ow). auto.
    + subst st sid. split; [|split].
      * exists (f gn). rewrite N2. split; [apply nth_error_upd_same; assumption|]. split; [congruence|assumption].
      * intros u Hu. apply In_unreg in Hu. destruct Hu as [Hu Ne]. rewrite N2. intro E. apply Ne. apply U; assumption.
      * intros sid' st' Ne Hs' Ow'. apply nth_error_snoc in Hs'. destruct Hs' as [[Hs' _]|[E _]]; [|congruence].
        rewrite N2. apply (Own_ne sid' st' Hs' Ow').
  - apply (F_cnt_upd es tev _ ev0 H0 ss ts); [assumption| |].
    + intros tok Ne. pose proof (cnt_gen_remove tok ts t ND Hin) as C.
      assert (Gz : gen_for tok t = false). { unfold gen_for. rewrite Te. apply Nat.eqb_neq in Ne. rewrite Nat.eqb_sym, Ne. reflexivity. }
      rewrite Gz in C. simpl in C. split; [lia|]. rewrite cnt_own_snoc.
      assert (Oz : owns tok nw = false). { unfold owns. rewrite N1. apply Nat.eqb_neq in Ne. rewrite Nat.eqb_sym, Ne. reflexivity. }
      rewrite Oz. simpl. lia.
    + unfold add_wait; cbn [e_waiting]. rewrite (Hcnt tev ev0 H0). pose proof (cnt_gen_remove tev ts t ND Hin) as C. rewrite Gf in C.
      rewrite cnt_own_snoc. assert (Oz : owns tev nw = true). { unfold owns. rewrite N1, Nat.eqb_refl, Onw. reflexivity. }
      rewrite Oz. unfold b2n in *. lia.
  - apply F_flag_snoc; [assumption|]. rewrite N4. discriminate.
Qed.

(* L5: the generator suspended in an owning wait is stepped and suspends in a call again *)
Lemma EX_gen_owned_same : forall X es gs ss ts q lg sid st g gn f,
  EXc X es gs ss ts q lg -> nth_error ss sid = Some st -> owning st = true -> s_parent st = g ->
  nth_error gs g = Some gn -> g_tok (f gn) = g_tok gn -> g_atcall (f gn) = true ->
  (g_rest (f gn) = None -> g_atcall (f gn) = false) ->
  EXc X es (upd_nth g f gs) ss ts q lg.
Proof.
  intros X es gs ss ts q lg sid st g gn f [Hq [Hgi [Htask [Hwst [Hown [Hcnt [Hgate [Hqu [Hqd [Hnd [Hfl [Hres Hord]]]]]]]]]]]] Hs Ow Pg Hg F1 F2 F3.
  destruct (Hown sid st Hs Ow) as [[gn0 [A1 [A2 A3]]] [B C]]. rewrite Pg, Hg in A1. inversion A1. subst gn0.
  unfold EXc. repeat match goal with |- _ /\ _ => split end; try assumption.
  - apply (F_gi_upd gs g f gn); assumption.
  - intros u Hu. destruct (Htask u Hu) as [T1 T2]. split; [assumption|]. intros g0 R0. destruct (T2 g0 R0) as [gn0 [C1 C2]].
    exists gn0. split; [|assumption]. rewrite nth_error_upd_other; [assumption|]. intro E. subst g0. apply (B u Hu). congruence.
  - intros sid' st' Hs' Ow'. destruct (Hown sid' st' Hs' Ow') as [[gn0 [D1 [D2 D3]]] [D4 D5]]. split; [|split; assumption].
    destruct (Nat.eq_dec sid' sid) as [E|E].
    + subst sid'. rewrite Hs in Hs'. inversion Hs'. subst st'. exists (f gn). rewrite Pg.
      split; [apply nth_error_upd_same; assumption|]. split; [congruence|assumption].
    + exists gn0. split; [|auto]. rewrite nth_error_upd_other; [assumption|]. rewrite <- Pg. intro E'. apply (C sid' st' E Hs' Ow'). auto.
Qed.

Lemma owning_false_upd : forall ss sid R st sid' st', nth_error ss sid = Some st -> owning (R st) = false ->
  nth_error (upd_nth sid R ss) sid' = Some st' -> owning st' = true -> sid' <> sid /\ nth_error ss sid' = Some st'.
Proof.
  intros ss sid R st sid' st' Hs Of H Ow. apply nth_error_upd_inv in H. destruct H as [[E [x [A B]]]|[E A]].
  - subst. rewrite Hs in A. inversion A. subst. congruence.
  - auto.
Qed.

(* L6: the owning wait sid is consumed and its handler immediately suspends in a new wait *)
Lemma EX_swap_wait : forall X es gs ss ts q lg sid st R nw,
  EXc X es gs ss ts q lg -> nth_error ss sid = Some st -> owning st = true ->
  keeps_ids R -> owning (R st) = false -> s_ph (R st) <> Flagged ->
  s_tevent nw = s_tevent st -> s_parent nw = s_parent st -> s_resumes nw = O -> s_ph nw = Armed -> s_event nw = None ->
  (forall e, s_callval nw = Some e -> (e < length es)%nat) ->
  EXc X es gs (upd_nth sid R ss ++ [nw]) ts q lg.
Proof.
  intros X es gs ss ts q lg sid st R nw [Hq [Hgi [Htask [Hwst [Hown [Hcnt [Hgate [Hqu [Hqd [Hnd [Hfl [Hres Hord]]]]]]]]]]]]
    Hs Ow K Of Nf N1 N2 N3 N4 N5 N6.
  destruct (Hown sid st Hs Ow) as [[gn [A1 [A2 A3]]] [B C]]. destruct (Hwst sid st Hs) as [W1 _].
  assert (Onw : owning nw = true) by (unfold owning; rewrite N3; reflexivity).
  unfold EXc. repeat match goal with |- _ /\ _ => split end; try assumption.
  - apply F_wst_snoc; [apply F_wst_upd; assumption|lia| |assumption]. intros e He. rewrite N5 in He. discriminate.
  - intros s1 st1 H1 O1. apply nth_error_snoc in H1. destruct H1 as [[H1 L1]|[L1 E1]].
    + destruct (owning_false_upd ss sid R st s1 st1 Hs Of H1 O1) as [Ne H1']. destruct (Hown s1 st1 H1' O1) as [D1 [D2 D3]].
      split; [assumption|]. split; [assumption|]. intros s2 st2 Ne2 H2 O2. apply nth_error_snoc in H2. destruct H2 as [[H2 _]|[_ E2]].
      * destruct (owning_false_upd ss sid R st s2 st2 Hs Of H2 O2) as [_ H2']. eauto.
      * subst st2. rewrite N2. intro E. apply (C s1 st1 Ne H1' O1). auto.
    + subst st1 s1. split; [|split].
      * exists gn. rewrite N2, N1. auto.
      * rewrite N2. assumption.
      * intros s2 st2 Ne2 H2 O2. apply nth_error_snoc in H2. destruct H2 as [[H2 L2]|[E2 _]]; [|congruence].
        destruct (owning_false_upd ss sid R st s2 st2 Hs Of H2 O2) as [Ne H2']. rewrite N2. apply (C s2 st2 Ne H2' O2).
  - intros tok ev Hev. rewrite (Hcnt tok ev Hev). f_equal. f_equal. f_equal. rewrite cnt_own_snoc.
    pose proof (cnt_own_upd tok ss sid R st Hs) as U.
    assert (O1 : owns tok (R st) = false). { unfold owns. rewrite Of. apply andb_false_r. }
    assert (O2 : owns tok nw = owns tok st). { unfold owns. rewrite N1, Onw, Ow. reflexivity. }
    rewrite O1 in U. rewrite O2. unfold b2n in *. destruct (owns tok st); lia.
  - apply F_flag_snoc; [apply (F_flag_upd_wst X es ss q sid R st); assumption|]. rewrite N4. discriminate.
Qed.

(* L8: the owning wait sid is consumed and its handler goes on as an ordinary task *)
Lemma EX_wait_to_gen : forall X es gs ss ts q lg sid st R g gn f ev0 tev,
  EXc X es gs ss ts q lg -> nth_error ss sid = Some st -> owning st = true -> s_parent st = g -> s_tevent st = tev ->
  keeps_ids R -> owning (R st) = false -> s_ph (R st) <> Flagged ->
  nth_error gs g = Some gn -> g_tok (f gn) = g_tok gn -> g_atcall (f gn) = false ->
  nth_error es tev = Some ev0 ->
  EXc X (upd_nth tev (add_wait (-1)) es) (upd_nth g f gs) (upd_nth sid R ss) (ts ++ [mk_task tev (RGen g) None]) q lg.
Proof.
  intros X es gs ss ts q lg sid st R g gn f ev0 tev [Hq [Hgi [Htask [Hwst [Hown [Hcnt [Hgate [Hqu [Hqd [Hnd [Hfl [Hres Hord]]]]]]]]]]]]
    Hs Ow Pg Te K Of Nf Hg F1 F2 H0.
  destruct (Hown sid st Hs Ow) as [[gn0 [A1 [A2 A3]]] [B C]]. rewrite Pg, Hg in A1. inversion A1. subst gn0.
  assert (Ot : owns tev st = true). { unfold owns. rewrite Te, Nat.eqb_refl, Ow. reflexivity. }
  assert (Pos : (0 < cnt_own tev ss)%nat).
  { unfold cnt_own. clear -Hs Ot. revert sid Hs. induction ss as [|x r IH]; intros [|sid] Hs; simpl in *; try discriminate.
    - inversion Hs. subst. rewrite Ot. simpl. lia.
    - specialize (IH sid Hs). destruct (owns tev x); simpl; lia. }
  destruct (active_gate es ss ts tev ev0 Hcnt Hgate H0) as [D G]; [lia|].
  destruct (evt_fields_wait X es ss q lg tev (-1) ev0 H0 D G Hgate Hqu Hqd Hfl Hres) as [P1 [P2 [P3 [P4 P5]]]].
  destruct (Hwst sid st Hs) as [W1 _].
  unfold EXc. rewrite length_upd_nth. repeat match goal with |- _ /\ _ => split end; try assumption.
  - apply (F_gi_upd gs g f gn); [assumption|assumption|auto].
  - intros u Hu. apply in_app_iff in Hu. destruct Hu as [Hu|[Hu|[]]].
    + destruct (Htask u Hu) as [T1 T2]. split; [assumption|]. intros g0 R0. destruct (T2 g0 R0) as [gn0 [C1 C2]].
      exists gn0. split; [|assumption]. rewrite nth_error_upd_other; [assumption|]. intro E. subst g0. apply (B u Hu). congruence.
    + subst u. simpl. split; [lia|]. intros g0 R0. inversion R0. subst g0. exists (f gn).
      split; [apply nth_error_upd_same; assumption|]. split; [congruence|assumption].
  - apply F_wst_upd; assumption.
  - intros s1 st1 H1 O1. destruct (owning_false_upd ss sid R st s1 st1 Hs Of H1 O1) as [Ne H1'].
    destruct (Hown s1 st1 H1' O1) as [[gn1 [D1 D2]] [D3 D4]].
    assert (Pne : s_parent st1 <> g). { rewrite <- Pg. intro E. apply (C s1 st1 Ne H1' O1). auto. }
    split; [|split].
    + exists gn1. split; [|assumption]. rewrite nth_error_upd_other; [assumption|congruence].
    + intros u Hu. apply in_app_iff in Hu. destruct Hu as [Hu|[Hu|[]]]; [auto|]. subst u. simpl. congruence.
    + intros s2 st2 Ne2 H2 O2. destruct (owning_false_upd ss sid R st s2 st2 Hs Of H2 O2) as [_ H2']. eauto.
  - apply (F_cnt_upd es tev _ ev0 H0 ss ts); [assumption| |].
    + intros tok Ne. rewrite cnt_gen_snoc, gen_for_gen. apply Nat.eqb_neq in Ne. rewrite Nat.eqb_sym, Ne. simpl.
      split; [lia|]. pose proof (cnt_own_upd tok ss sid R st Hs) as U.
      assert (O1 : owns tok (R st) = false). { unfold owns. rewrite Of. apply andb_false_r. }
      assert (O2 : owns tok st = false). { unfold owns. rewrite Te, Nat.eqb_sym, Ne. reflexivity. }
      rewrite O1, O2 in U. simpl in U. lia.
    + unfold add_wait; cbn [e_waiting]. rewrite (Hcnt tev ev0 H0), cnt_gen_snoc, gen_for_gen, Nat.eqb_refl.
      pose proof (cnt_own_upd tev ss sid R st Hs) as U.
      assert (O1 : owns tev (R st) = false). { unfold owns. rewrite Of. apply andb_false_r. }
      rewrite O1, Ot in U. unfold b2n in *. lia.
  - apply (F_flag_upd_wst X _ ss q sid R st); assumption.
Qed.

(* L9: the owning wait sid is consumed and its handler raises while being resumed *)
Lemma EX_wait_raise : forall X es gs ss ts q lg sid st R g gn f ev0 tev,
  EXc X es gs ss ts q lg -> nth_error ss sid = Some st -> owning st = true -> s_parent st = g -> s_tevent st = tev ->
  keeps_ids R -> owning (R st) = false -> s_ph (R st) <> Flagged ->
  nth_error gs g = Some gn -> g_tok (f gn) = g_tok gn -> g_atcall (f gn) = false ->
  nth_error es tev = Some ev0 ->
  EXc X (upd_nth tev (add_wait (-2)) es) (upd_nth g f gs) (upd_nth sid R ss) ts q lg.
Proof.
  intros X es gs ss ts q lg sid st R g gn f ev0 tev [Hq [Hgi [Htask [Hwst [Hown [Hcnt [Hgate [Hqu [Hqd [Hnd [Hfl [Hres Hord]]]]]]]]]]]]
    Hs Ow Pg Te K Of Nf Hg F1 F2 H0.
  destruct (Hown sid st Hs Ow) as [[gn0 [A1 [A2 A3]]] [B C]]. rewrite Pg, Hg in A1. inversion A1. subst gn0.
  assert (Ot : owns tev st = true). { unfold owns. rewrite Te, Nat.eqb_refl, Ow. reflexivity. }
  assert (Pos : (0 < cnt_own tev ss)%nat).
  { unfold cnt_own. clear -Hs Ot. revert sid Hs. induction ss as [|x r IH]; intros [|sid] Hs; simpl in *; try discriminate.
    - inversion Hs. subst. rewrite Ot. simpl. lia.
    - specialize (IH sid Hs). destruct (owns tev x); simpl; lia. }
  destruct (active_gate es ss ts tev ev0 Hcnt Hgate H0) as [D G]; [lia|].
  destruct (evt_fields_wait X es ss q lg tev (-2) ev0 H0 D G Hgate Hqu Hqd Hfl Hres) as [P1 [P2 [P3 [P4 P5]]]].
  unfold EXc. rewrite length_upd_nth. repeat match goal with |- _ /\ _ => split end; try assumption.
  - apply (F_gi_upd gs g f gn); [assumption|assumption|auto].
  - intros u Hu. destruct (Htask u Hu) as [T1 T2]. split; [assumption|]. intros g0 R0. destruct (T2 g0 R0) as [gn0 [C1 C2]].
    exists gn0. split; [|assumption]. rewrite nth_error_upd_other; [assumption|]. intro E. subst g0. apply (B u Hu). congruence.
  - apply F_wst_upd; assumption.
  - intros s1 st1 H1 O1. destruct (owning_false_upd ss sid R st s1 st1 Hs Of H1 O1) as [Ne H1'].
    destruct (Hown s1 st1 H1' O1) as [[gn1 [D1 D2]] [D3 D4]].
    assert (Pne : s_parent st1 <> g). { rewrite <- Pg. intro E. apply (C s1 st1 Ne H1' O1). auto. }
    split; [|split].
    + exists gn1. split; [|assumption]. rewrite nth_error_upd_other; [assumption|congruence].
    + assumption.
    + intros s2 st2 Ne2 H2 O2. destruct (owning_false_upd ss sid R st s2 st2 Hs Of H2 O2) as [_ H2']. eauto.
  - apply (F_cnt_upd es tev _ ev0 H0 ss ts); [assumption| |].
    + intros tok Ne. split; [reflexivity|]. pose proof (cnt_own_upd tok ss sid R st Hs) as U.
      assert (O1 : owns tok (R st) = false). { unfold owns. rewrite Of. apply andb_false_r. }
      assert (O2 : owns tok st = false). { unfold owns. rewrite Te. apply Nat.eqb_neq in Ne. rewrite Nat.eqb_sym, Ne. reflexivity. }
      rewrite O1, O2 in U. simpl in U. lia.
    + unfold add_wait; cbn [e_waiting]. rewrite (Hcnt tev ev0 H0).
      pose proof (cnt_own_upd tev ss sid R st Hs) as U.
      assert (O1 : owns tev (R st) = false). { unfold owns. rewrite Of. apply andb_false_r. }
      rewrite O1, Ot in U. unfold b2n in *. lia.
  - apply (F_flag_upd_wst X _ ss q sid R st); assumption.
Qed.

(* L10: an event passes its gate: gate counter, <name>_done for waiters, <name>_success *)
Lemma EX_gate_pass : forall X es gs ss ts q lg tok ev0 (a b : bool),
  EXc X es gs ss ts q lg -> nth_error es tok = Some ev0 ->
  e_waiting ev0 = 0 -> e_gate ev0 = O -> e_dispatched ev0 = true ->
  EXc X (upd_nth tok inc_gate es) gs ss ts
      (q ++ (if a then [QDone tok] else []) ++ (if b then [QSucc tok] else [])) lg.
Proof.
  intros X es gs ss ts q lg tok ev0 a b [Hq [Hgi [Htask [Hwst [Hown [Hcnt [Hgate [Hqu [Hqd [Hnd [Hfl [Hres Hord]]]]]]]]]]]] H0 W G D.
  set (qs := (if a then [QDone tok] else []) ++ (if b then [QSucc tok] else [])).
  assert (Qs : forall x, In x qs -> x = QDone tok \/ x = QSucc tok).
  { intros x Hx. unfold qs in Hx. apply in_app_iff in Hx. destruct a, b; simpl in Hx; intuition. }
  assert (Pend : forall x, In x (X ++ q ++ qs) -> In x (X ++ q) \/ In x qs).
  { intros x Hx. rewrite app_assoc in Hx. apply in_app_iff in Hx. assumption. }
  assert (NotIn : ~ In (QDone tok) (X ++ q)). { intro Hin. specialize (Hqd tok ev0 Hin H0). lia. }
  unfold EXc. rewrite length_upd_nth. repeat match goal with |- _ /\ _ => split end; try assumption.
  - intros x Hx. apply Pend in Hx. destruct Hx as [Hx|Hx]; [auto|]. apply nth_error_lt in H0.
    destruct (Qs x Hx); subst; simpl; assumption.
  - apply (F_cnt_upd es tok inc_gate ev0 H0 ss ts); [assumption|auto|]. simpl. apply Hcnt. assumption.
  - apply (F_gate_upd es tok inc_gate ev0 H0); [assumption|]. unfold gate_ok. simpl. rewrite D, W. split; [discriminate|auto].
  - intros t ev Hin Hev. apply Pend in Hin. destruct Hin as [Hin|Hin]; [|destruct (Qs _ Hin); discriminate].
    revert t ev Hin Hev. apply (F_quser_upd X es tok inc_gate ev0 H0); [assumption|]. simpl. auto.
  - intros t ev Hin Hev. apply Pend in Hin. destruct Hin as [Hin|Hin].
    + revert t ev Hin Hev. apply (F_qdone_upd X es tok inc_gate ev0 H0); [assumption|simpl; lia].
    + destruct (Qs _ Hin) as [E|E]; [|discriminate]. inversion E. subst t.
      rewrite (nth_error_upd_same inc_gate es tok ev0 H0) in Hev. inversion Hev. subst. simpl. lia.
  - unfold F_qnodup in *. rewrite app_assoc, filter_app.
    assert (Fq : filter udq qs = if a then [QDone tok] else []). { unfold qs. destruct a, b; reflexivity. }
    rewrite Fq. destruct a; [|rewrite app_nil_r; assumption].
    apply NoDup_snoc; [assumption|]. intro Hin. apply filter_In in Hin. tauto.
  - intros sid st Hs Ph. destruct (Hfl sid st Hs Ph) as [e [ev [A [B [C E]]]]].
    assert (Ne : e <> tok). { intro. subst e. rewrite H0 in B. inversion B. subst. lia. }
    exists e, ev. split; [assumption|]. split; [rewrite nth_error_upd_other by congruence; assumption|]. split; [assumption|].
    intro Hin. apply Pend in Hin. destruct Hin as [Hin|Hin]; [contradiction|]. destruct (Qs _ Hin) as [Q|Q]; inversion Q. congruence.
  - apply (F_res_upd es tok inc_gate ev0 H0); [assumption|]. intro L. lia.
Qed.

(* wait-state updates that keep identity, ownership and do not flag *)
Lemma EX_wst_plain : forall X es gs ss ts q lg sid R st,
  EXc X es gs ss ts q lg -> nth_error ss sid = Some st -> keeps_ids R -> owning (R st) = owning st ->
  (s_ph (R st) = Flagged -> s_ph st = Flagged) ->
  EXc X es gs (upd_nth sid R ss) ts q lg.
Proof.
  intros X es gs ss ts q lg sid R st [Hq [Hgi [Htask [Hwst [Hown [Hcnt [Hgate [Hqu [Hqd [Hnd [Hfl [Hres Hord]]]]]]]]]]]] Hs K Oe Fl.
  destruct (K st) as [K1 [K2 [K3 K4]]].
  assert (Back : forall s1 st1, nth_error (upd_nth sid R ss) s1 = Some st1 -> owning st1 = true ->
            exists st0, nth_error ss s1 = Some st0 /\ owning st0 = true /\ s_parent st1 = s_parent st0 /\ s_tevent st1 = s_tevent st0).
  { intros s1 st1 H1 O1. apply nth_error_upd_inv in H1. destruct H1 as [[E [x [A B]]]|[E A]].
    - subst s1 st1. rewrite Hs in A. inversion A. subst x. exists st. rewrite <- Oe. auto.
    - exists st1. auto. }
  unfold EXc. repeat match goal with |- _ /\ _ => split end; try assumption.
  - apply F_wst_upd; assumption.
  - intros s1 st1 H1 O1. destruct (Back s1 st1 H1 O1) as [st0 [B1 [B2 [B3 B4]]]].
    destruct (Hown s1 st0 B1 B2) as [[gn [D1 D2]] [D3 D4]]. rewrite B3, B4. split; [eauto|]. split; [assumption|].
    intros s2 st2 Ne H2 O2. destruct (Back s2 st2 H2 O2) as [st3 [C1 [C2 [C3 C4]]]]. rewrite C3. eauto.
  - intros tok ev Hev. rewrite (Hcnt tok ev Hev). f_equal. f_equal. f_equal.
    pose proof (cnt_own_upd tok ss sid R st Hs) as U.
    assert (owns tok (R st) = owns tok st) by (unfold owns; rewrite K1, Oe; reflexivity). rewrite H in U. lia.
  - intros s1 st1 H1 Ph. apply nth_error_upd_inv in H1. destruct H1 as [[E [x [A B]]]|[E A]]; [|eauto].
    subst s1 st1. rewrite Hs in A. inversion A. subst x. destruct (Hfl sid st Hs (Fl Ph)) as [e [ev [A1 A2]]].
    exists e, ev. rewrite K3. auto.
Qed.

(* _on_event: the wait has seen its event *)
Lemma EX_wst_seen : forall X es gs ss ts q lg sid st tok,
  EXc X es gs ss ts q lg -> nth_error ss sid = Some st -> (tok < length es)%nat ->
  EXc X es gs (upd_nth sid (wst_seen tok) ss) ts q lg.
Proof.
  intros X es gs ss ts q lg sid st tok [Hq [Hgi [Htask [Hwst [Hown [Hcnt [Hgate [Hqu [Hqd [Hnd [Hfl [Hres Hord]]]]]]]]]]]] Hs Rg.
  assert (Back : forall s1 st1, nth_error (upd_nth sid (wst_seen tok) ss) s1 = Some st1 -> owning st1 = true ->
            exists st0, nth_error ss s1 = Some st0 /\ owning st0 = true /\ s_parent st1 = s_parent st0 /\ s_tevent st1 = s_tevent st0).
  { intros s1 st1 H1 O1. apply nth_error_upd_inv in H1. destruct H1 as [[E [x [A B]]]|[E A]].
    - subst s1 st1. rewrite Hs in A. inversion A. subst x. exists st. auto.
    - exists st1. auto. }
  unfold EXc. repeat match goal with |- _ /\ _ => split end; try assumption.
  - intros s1 st1 H1. apply nth_error_upd_inv in H1. destruct H1 as [[E [x [A B]]]|[E A]]; [|eauto].
    subst s1 st1. rewrite Hs in A. inversion A. subst x. destruct (Hwst sid st Hs) as [W1 [W2 W3]]. simpl.
    split; [assumption|]. split; [|assumption]. intros e He. inversion He. subst. assumption.
  - intros s1 st1 H1 O1. destruct (Back s1 st1 H1 O1) as [st0 [B1 [B2 [B3 B4]]]].
    destruct (Hown s1 st0 B1 B2) as [[gn [D1 D2]] [D3 D4]]. rewrite B3, B4. split; [eauto|]. split; [assumption|].
    intros s2 st2 Ne H2 O2. destruct (Back s2 st2 H2 O2) as [st3 [C1 [C2 [C3 C4]]]]. rewrite C3. eauto.
  - intros t ev Hev. rewrite (Hcnt t ev Hev). f_equal. f_equal. f_equal.
    pose proof (cnt_own_upd t ss sid (wst_seen tok) st Hs) as U.
    assert (owns t (wst_seen tok st) = owns t st) by reflexivity. rewrite H in U. lia.
  - apply (F_flag_upd_wst X es ss q sid (wst_seen tok) st); [assumption|assumption|discriminate].
Qed.

(* _on_done: the wait is flagged; its <name>_done event has just been taken from the pending items *)
Lemma EX_wst_flag : forall X es gs ss ts q lg sid st tok ev,
  EXc X es gs ss ts q lg -> nth_error ss sid = Some st -> s_event st = Some tok ->
  nth_error es tok = Some ev -> (1 <= e_gate ev)%nat -> ~ In (QDone tok) (X ++ q) ->
  EXc X es gs (upd_nth sid (wst_phase Flagged) ss) ts q lg.
Proof.
  intros X es gs ss ts q lg sid st tok ev H Hs Ev He G Ni.
  pose proof H as [Hq [Hgi [Htask [Hwst [Hown [Hcnt [Hgate [Hqu [Hqd [Hnd [Hfl [Hres Hord]]]]]]]]]]]].
  assert (P : EXc X es gs (upd_nth sid (wst_phase Flagged) ss) ts q lg \/ True) by auto.
  unfold EXc. repeat match goal with |- _ /\ _ => split end; try assumption.
  - apply F_wst_upd; [assumption|]. intro s. simpl. auto.
  - assert (Back : forall s1 st1, nth_error (upd_nth sid (wst_phase Flagged) ss) s1 = Some st1 -> owning st1 = true ->
            exists st0, nth_error ss s1 = Some st0 /\ owning st0 = true /\ s_parent st1 = s_parent st0 /\ s_tevent st1 = s_tevent st0).
    { intros s1 st1 H1 O1. apply nth_error_upd_inv in H1. destruct H1 as [[E [x [A B]]]|[E A]].
      - subst s1 st1. rewrite Hs in A. inversion A. subst x. exists st. auto.
      - exists st1. auto. }
    intros s1 st1 H1 O1. destruct (Back s1 st1 H1 O1) as [st0 [B1 [B2 [B3 B4]]]].
    destruct (Hown s1 st0 B1 B2) as [[gn [D1 D2]] [D3 D4]]. rewrite B3, B4. split; [eauto|]. split; [assumption|].
    intros s2 st2 Ne H2 O2. destruct (Back s2 st2 H2 O2) as [st3 [C1 [C2 [C3 C4]]]]. rewrite C3. eauto.
  - intros t ev' Hev. rewrite (Hcnt t ev' Hev). f_equal. f_equal. f_equal.
    pose proof (cnt_own_upd t ss sid (wst_phase Flagged) st Hs) as U.
    assert (owns t (wst_phase Flagged st) = owns t st) by reflexivity. rewrite H0 in U. lia.
  - intros s1 st1 H1 Ph. apply nth_error_upd_inv in H1. destruct H1 as [[E [x [A B]]]|[E A]]; [|eauto].
    subst s1 st1. rewrite Hs in A. inversion A. subst x. exists tok, ev. simpl. auto.
Qed.

Lemma upd_nth_comp : forall {A} (f g : A -> A) l i, upd_nth i f (upd_nth i g l) = upd_nth i (fun x => f (g x)) l.
Proof. intros A f g l. induction l as [|x r IH]; intros [|i]; simpl; try reflexivity. rewrite IH. reflexivity. Qed.

Definition Full (X : list qitem) (w : world) : Prop := bad w = false /\ IC w /\ EX X w.

(* install: projections *)
Lemma install_evs : forall nm obj tmo cv tev par w, evs (install nm obj tmo cv tev par w) = evs w.
Proof. intros. unfold install. destruct (0 <=? tmo); reflexivity. Qed.
Lemma install_gens : forall nm obj tmo cv tev par w, gens (install nm obj tmo cv tev par w) = gens w.
Proof. intros. unfold install. destruct (0 <=? tmo); reflexivity. Qed.
Lemma install_queue : forall nm obj tmo cv tev par w, queue (install nm obj tmo cv tev par w) = queue w.
Proof. intros. unfold install. destruct (0 <=? tmo); reflexivity. Qed.
Lemma install_wlog : forall nm obj tmo cv tev par w, wlog (install nm obj tmo cv tev par w) = wlog w.
Proof. intros. unfold install. destruct (0 <=? tmo); reflexivity. Qed.

Lemma reg_task_new : forall t w, ~ In t (tasks w) -> tasks (reg_task t w) = tasks w ++ [t].
Proof.
  intros t w H. unfold reg_task. destruct (existsb (task_eqb t) (tasks w)) eqn:E; [|reflexivity].
  apply existsb_task in E. contradiction.
Qed.
Lemma reg_task_evs : forall t w, evs (reg_task t w) = evs w. Proof. intros. unfold reg_task. destruct (existsb _ _); reflexivity. Qed.
Lemma reg_task_gens : forall t w, gens (reg_task t w) = gens w. Proof. intros. unfold reg_task. destruct (existsb _ _); reflexivity. Qed.
Lemma reg_task_queue : forall t w, queue (reg_task t w) = queue w. Proof. intros. unfold reg_task. destruct (existsb _ _); reflexivity. Qed.
Lemma reg_task_wlog : forall t w, wlog (reg_task t w) = wlog w. Proof. intros. unfold reg_task. destruct (existsb _ _); reflexivity. Qed.

(* _eventDone on the world *)
Lemma event_done_EX : forall X w tok err ev, EX X w -> nth_error (evs w) tok = Some ev ->
  (e_waiting ev = 0 -> e_gate ev = O /\ e_dispatched ev = true) ->
  EX X (event_done tok err w) /\ bad (event_done tok err w) = bad w.
Proof.
  intros X w tok err ev H H0 G. unfold event_done. rewrite H0.
  destruct (e_waiting ev =? 0) eqn:W; [|auto]. apply Z.eqb_eq in W. destruct (G W) as [G1 G2].
  pose proof (EX_gate_pass X _ _ _ _ _ _ tok ev (e_alert ev) (negb (err || e_errors ev)) H H0 W G1 G2) as P.
  split.
  - unfold EX. destruct (e_alert ev); destruct (err || e_errors ev); simpl in *; rewrite ?app_nil_r in P; try rewrite <- app_assoc; exact P.
  - destruct (e_alert ev); destruct (err || e_errors ev); reflexivity.
Qed.

Lemma cnt_own_pos : forall tev ss sid st, nth_error ss sid = Some st -> owns tev st = true -> (0 < cnt_own tev ss)%nat.
Proof.
  intros tev ss. unfold cnt_own. induction ss as [|x r IH]; intros [|sid] st Hs Ot; simpl in *; try discriminate.
  - inversion Hs. subst. rewrite Ot. simpl. lia.
  - specialize (IH sid st Hs Ot). destruct (owns tev x); simpl; lia.
Qed.

(* what processTask does after the waiting handler p has been handed the result / the TimeoutError *)
Lemma cont_EX : forall X w w0 sid st R t how tev p,
  EX X w ->
  nth_error (wsts w) sid = Some st -> owning st = true -> s_parent st = p -> s_tevent st = tev ->
  keeps_ids R -> owning (R st) = false -> s_ph (R st) <> Flagged -> is_gen (t_ref t) = false ->
  evs w0 = evs w -> gens w0 = gens w -> wsts w0 = upd_nth sid R (wsts w) ->
  tasks w0 = filter (fun u => negb (task_eqb t u)) (tasks w) -> queue w0 = queue w -> wlog w0 = wlog w -> bad w0 = false ->
  (how = RThrow \/ exists e ev, how = RSend e /\ nth_error (evs w) e = Some ev /\ (1 <= e_gate ev)%nat) ->
  bad (continue_parent tev p how w0) = false /\ EX X (continue_parent tev p how w0).
Proof.
  intros X w w0 sid st R t how tev p HX Hs Ow Pg Te K Of Nf Ng E1 E2 E3 E4 E5 E6 B0 Hhow.
  pose proof HX as [Hq [Hgi [Htask [Hwst [Hown [Hcnt [Hgate [Hqu [Hqd [Hnd [Hfl [Hres Hord]]]]]]]]]]]].
  destruct (Hown sid st Hs Ow) as [[gn [A1 [A2 A3]]] [NoG Uq]]. rewrite Pg in A1, NoG. rewrite Te in A2.
  destruct (Hwst sid st Hs) as [W1 _]. rewrite Te in W1.
  destruct (nth_error (evs w) tev) as [ev0|] eqn:H0; [|apply nth_error_None in H0; lia].
  assert (Ot : owns tev st = true). { unfold owns. rewrite Te, Nat.eqb_refl, Ow. reflexivity. }
  destruct (active_gate _ _ _ tev ev0 Hcnt Hgate H0) as [D G]. { pose proof (cnt_own_pos tev _ sid st Hs Ot). lia. }
  unfold continue_parent. destruct (gen_resume p how w0) as [w1 r] eqn:GR.
  assert (A1' : nth_error (gens w0) p = Some gn) by (rewrite E2; exact A1).
  destruct (gen_resume_spec p how w0 w1 r gn GR A1') as [nms [ls [f [Ext [Gs [F1 [F2 [L1 [L2 [Wt Bd]]]]]]]]]].
  destruct (F2 (Hgi p gn A1)) as [F2a F2b].
  assert (B1 : bad w1 = false).
  { rewrite Bd; [assumption| |].
    - right. destruct Hhow as [Hh|[e [ev [Hh _]]]]; subst how; exact A3.
    - intros e He. destruct Hhow as [Hh|[e' [ev [Hh [Hev _]]]]]; [congruence|]. rewrite He in Hh. inversion Hh. subst e'.
      rewrite E1. apply nth_error_lt in Hev. assumption. }
  destruct Ext as [_ [X2 [X3 [X4 [X5 X6]]]]]. rewrite E1 in X4, X5. rewrite E3 in X2. rewrite E4 in X3. rewrite E5 in X5. rewrite E6 in X6. rewrite E2 in Gs.
  set (esA := evs w ++ map new_evt nms) in *.
  assert (PA : EXc X esA (gens w) (wsts w) (tasks w) (queue w ++ map QUser (seq (length (evs w)) (length nms))) (ls ++ wlog w)).
  { apply (EX_ext X _ _ _ _ _ _ nms ls tev ev0 HX (or_intror (conj H0 G))).
    - intros x Hx. rewrite <- A2. apply L1. assumption.
    - intros t' h k e v er Hin. destruct (L2 _ _ _ _ _ _ Hin) as [Hh [ev' [Hev' [V1 V2]]]].
      destruct Hhow as [Hh'|[e' [ev [Hh' [Hev G']]]]]; [congruence|]. rewrite Hh in Hh'. inversion Hh'. subst e'.
      rewrite E1, Hev in Hev'. inversion Hev'. subst ev'. exists ev. auto. }
  assert (H0A : nth_error esA tev = Some ev0) by (apply nth_error_app_old; assumption).
  pose proof (EX_remove_nongen X _ _ _ _ _ _ t PA Ng) as PB.
  assert (LenA : length esA = length (evs w1)) by (rewrite X4; reflexivity).
  destruct r as [v|nm obj tmo cv| |].
  - (* plain yield *)
    pose proof (EX_wait_to_gen X _ _ _ _ _ _ sid st R p gn f ev0 tev PB Hs Ow Pg Te K Of Nf A1 F1 F2a H0A) as P1.
    assert (H0B : nth_error (upd_nth tev (add_wait (-1)) esA) tev = Some (add_wait (-1) ev0)) by (apply nth_error_upd_same; assumption).
    pose proof (EX_vals X _ _ _ _ _ _ tev (add_oval v) _ P1 H0B (vals_only_oval v) (or_introl G)) as P2.
    rewrite upd_nth_comp in P2.
    assert (Nin : ~ In (mk_task tev (RGen p) None) (tasks (mod_evt tev (fun e => add_oval v (add_wait (-1) e)) w1))).
    { simpl. rewrite X3. intro Hin. apply In_unreg in Hin. destruct Hin as [Hin _]. apply (NoG _ Hin). reflexivity. }
    split; [rewrite reg_task_bad; exact B1|].
    unfold EX. rewrite reg_task_evs, reg_task_gens, reg_task_wsts, (reg_task_new _ _ Nin), reg_task_queue, reg_task_wlog.
    simpl. rewrite X4, Gs, X2, X3, X5, X6. exact P2.
  - (* another call/wait *)
    assert (Fw : g_atcall (f gn) = true) by exact F2a.
    pose proof (EX_gen_owned_same X _ _ _ _ _ _ sid st p gn f PB Hs Ow Pg A1 F1 Fw F2b) as P1.
    destruct (Wt nm obj tmo cv eq_refl) as [Wo Wc].
    pose proof (EX_swap_wait X _ _ _ _ _ _ sid st R (new_wst nm obj tmo cv tev p) P1 Hs Ow K Of Nf) as P2.
    split; [rewrite install_bad; exact B1|].
    unfold EX. rewrite install_evs, install_gens, install_wsts, install_tasks, install_queue, install_wlog.
    rewrite X4, Gs, X2, X3, X5, X6. apply P2; simpl; try reflexivity; try congruence.
    intros e He. rewrite LenA. apply Wc. assumption.
  - (* returns *)
    pose proof (EX_wait_to_gen X _ _ _ _ _ _ sid st R p gn f ev0 tev PB Hs Ow Pg Te K Of Nf A1 F1 F2a H0A) as P1.
    assert (Nin : ~ In (mk_task tev (RGen p) None) (tasks (mod_evt tev (add_wait (-1)) w1))).
    { simpl. rewrite X3. intro Hin. apply In_unreg in Hin. destruct Hin as [Hin _]. apply (NoG _ Hin). reflexivity. }
    split; [rewrite reg_task_bad; exact B1|].
    unfold EX. rewrite reg_task_evs, reg_task_gens, reg_task_wsts, (reg_task_new _ _ Nin), reg_task_queue, reg_task_wlog.
    simpl. rewrite X4, Gs, X2, X3, X5, X6. exact P1.
  - (* raises *)
    pose proof (EX_vals X _ _ _ _ _ _ tev add_err ev0 PB H0A vals_only_err (or_introl G)) as P0.
    assert (H0B : nth_error (upd_nth tev add_err esA) tev = Some (add_err ev0)) by (apply nth_error_upd_same; assumption).
    pose proof (EX_wait_raise X _ _ _ _ _ _ sid st R p gn f (add_err ev0) tev P0 Hs Ow Pg Te K Of Nf A1 F1 F2a H0B) as P1.
    rewrite upd_nth_comp in P1.
    set (w2 := mod_evt tev (fun e => add_wait (-2) (add_err e)) w1).
    assert (P2 : EX X w2). { unfold EX, w2. simpl. rewrite X4, Gs, X2, X3, X5, X6. exact P1. }
    assert (H2 : nth_error (evs w2) tev = Some (add_wait (-2) (add_err ev0))).
    { unfold w2. simpl. rewrite X4. apply (nth_error_upd_same (fun e => add_wait (-2) (add_err e))). exact H0A. }
    destruct (event_done_EX X w2 tev true _ P2 H2) as [P3 B3]; [simpl; auto|].
    split; [rewrite B3; exact B1|exact P3].
Qed.

Lemma keeps_resumed : keeps_ids wst_resumed. Proof. intro s. simpl. auto. Qed.
Lemma keeps_thrown : keeps_ids wst_thrown. Proof. intro s. simpl. auto. Qed.

Lemma task_ext : forall a b : task, t_ev a = t_ev b -> t_ref a = t_ref b -> t_parent a = t_parent b -> a = b.
Proof. intros [e r p] [e2 r2 p2]. simpl. intros. subst. reflexivity. Qed.

Lemma Full_of : forall X w, bad w = false -> Inv w -> EX X w -> Full X w.
Proof. intros X w B [I|I] E; [congruence|]. split; [assumption|]. split; assumption. Qed.

Lemma ptask_body_EX : forall X t w, Full X w -> In t (tasks w) ->
  bad (ptask_body t w) = false /\ EX X (ptask_body t w).
Proof.
  intros X t w [B0 [HI HX]] Hin.
  pose proof HX as [Hq [Hgi [Htask [Hwst [Hown [Hcnt [Hgate [Hqu [Hqd [Hnd [Hfl [Hres Hord]]]]]]]]]]]].
  pose proof HI as [I1 [I2 [I3 [I4 I5]]]]. pose proof (I5 t Hin) as Tok. unfold task_ok in Tok.
  unfold ptask_body. destruct (t_ref t) as [g|sid|sid] eqn:R.
  - (* the handler generator itself *)
    destruct (Htask t Hin) as [Tr Tg]. destruct (Tg g R) as [gn [Hg [Gt Ga]]]. set (tev := t_ev t) in *.
    assert (Teq : mk_task tev (RGen g) None = t). { apply task_ext; simpl; [reflexivity|congruence|congruence]. }
    destruct (nth_error (evs w) tev) as [ev0|] eqn:H0; [|apply nth_error_None in H0; lia].
    assert (Gf : gen_for tev t = true). { unfold gen_for. fold tev. rewrite Nat.eqb_refl, R. reflexivity. }
    destruct (active_gate _ _ _ tev ev0 Hcnt Hgate H0) as [D G]. { pose proof (cnt_pos_gen tev _ t Hin Gf). lia. }
    destruct (gen_resume g RNext w) as [w1 r] eqn:GR.
    destruct (gen_resume_spec g RNext w w1 r gn GR Hg) as [nms [ls [f [Ext [Gs [F1 [F2 [L1 [L2 [Wt Bd]]]]]]]]]].
    destruct (F2 (Hgi g gn Hg)) as [F2a F2b].
    assert (B1 : bad w1 = false). { rewrite Bd; [assumption|right; exact Ga|intros e He; discriminate]. }
    destruct Ext as [_ [X2 [X3 [X4 [X5 X6]]]]].
    set (esA := evs w ++ map new_evt nms) in *.
    assert (PA : EXc X esA (gens w) (wsts w) (tasks w) (queue w ++ map QUser (seq (length (evs w)) (length nms))) (ls ++ wlog w)).
    { apply (EX_ext X _ _ _ _ _ _ nms ls tev ev0 HX (or_intror (conj H0 G))).
      - intros x Hx. rewrite <- Gt. apply L1. assumption.
      - intros t' h k e v er Hin'. destruct (L2 _ _ _ _ _ _ Hin') as [Hh _]. discriminate. }
    assert (H0A : nth_error esA tev = Some ev0) by (apply nth_error_app_old; assumption).
    assert (LenA : length esA = length (evs w1)) by (rewrite X4; reflexivity).
    assert (Uq : forall u, In u (tasks w) -> t_ref u = RGen g -> u = t).
    { intros u Hu Ru. destruct (Htask u Hu) as [_ Ug]. destruct (Ug g Ru) as [gn' [Hg' [Gt' _]]]. rewrite Hg in Hg'. inversion Hg'. subst gn'.
      pose proof (I5 u Hu) as Uok. unfold task_ok in Uok. rewrite Ru in Uok.
      apply task_ext; [unfold tev in Gt; congruence|congruence|congruence]. }
    destruct r as [v|nm obj tmo cv| |].
    + assert (Fa : g_atcall (f gn) = false) by exact F2a.
      pose proof (EX_gen_same X _ _ _ _ _ _ g f gn t PA Hin R Hg F1 Fa) as P1.
      pose proof (EX_vals X _ _ _ _ _ _ tev (add_oval v) ev0 P1 H0A (vals_only_oval v) (or_introl G)) as P2.
      split; [exact B1|]. unfold EX. simpl. rewrite X4, Gs, X2, X3, X5, X6. exact P2.
    + assert (Fa : g_atcall (f gn) = true) by exact F2a.
      destruct (Wt nm obj tmo cv eq_refl) as [Wo Wc].
      pose proof (EX_gen_to_wait X _ _ _ _ _ _ t tev g gn f ev0 (new_wst nm obj tmo cv tev g) PA I4 Hin R eq_refl Uq Hg F1 Fa F2b H0A) as P1.
      split; [rewrite install_bad; exact B1|].
      unfold EX. rewrite install_evs, install_gens, install_wsts, install_tasks, install_queue, install_wlog. simpl.
      rewrite Teq, X4, Gs, X2, X3, X5, X6. apply P1; simpl; try reflexivity.
      intros e He. rewrite LenA. apply Wc. assumption.
    + assert (Fa : g_atcall (f gn) = false) by exact F2a.
      pose proof (EX_gen_same X _ _ _ _ _ _ g f gn t PA Hin R Hg F1 Fa) as P1.
      pose proof (EX_task_done X _ _ _ _ _ _ t tev g ev0 P1 I4 Hin R eq_refl H0A) as P2.
      rewrite Tok.
      set (w2 := unreg_task t (mod_evt tev (add_wait (-1)) w1)).
      assert (P3 : EX X w2). { unfold EX, w2. simpl. rewrite X4, Gs, X2, X3, X5, X6. exact P2. }
      assert (H2 : nth_error (evs w2) tev = Some (add_wait (-1) ev0)).
      { unfold w2. simpl. rewrite X4. apply nth_error_upd_same. exact H0A. }
      destruct (event_done_EX X w2 tev false _ P3 H2) as [P4 B4]; [simpl; auto|].
      split; [rewrite B4; exact B1|exact P4].
    + assert (Fa : g_atcall (f gn) = false) by exact F2a.
      pose proof (EX_gen_same X _ _ _ _ _ _ g f gn t PA Hin R Hg F1 Fa) as P1.
      pose proof (EX_vals X _ _ _ _ _ _ tev add_err ev0 P1 H0A vals_only_err (or_introl G)) as P2.
      assert (H0B : nth_error (upd_nth tev add_err esA) tev = Some (add_err ev0)) by (apply nth_error_upd_same; assumption).
      pose proof (EX_task_done X _ _ _ _ _ _ t tev g (add_err ev0) P2 I4 Hin R eq_refl H0B) as P3.
      rewrite upd_nth_comp in P3. rewrite Tok.
      set (w2 := mod_evt tev (fun e => add_wait (-1) (add_err e)) (unreg_task t w1)).
      assert (P4 : EX X w2). { unfold EX, w2. simpl. rewrite X4, Gs, X2, X3, X5, X6. exact P3. }
      assert (H2 : nth_error (evs w2) tev = Some (add_wait (-1) (add_err ev0))).
      { unfold w2. simpl. rewrite X4. apply (nth_error_upd_same (fun e => add_wait (-1) (add_err e))). exact H0A. }
      destruct (event_done_EX X w2 tev true _ P4 H2) as [P5 B5]; [simpl; auto|].
      split; [rewrite B5; exact B1|exact P5].
  - (* the wait generator, registered by _on_done *)
    destruct Tok as [st [Hs [Ph Tq]]]. rewrite Hs.
    pose proof (I3 sid st Hs) as [O1 O2 O3 O4 O5 O6 O7 O8].
    assert (Hd : In (THDone sid) (ths w)). { apply O2. rewrite Ph. discriminate. }
    apply has_th_In in Hd. rewrite Hd.
    destruct (Hfl sid st Hs Ph) as [e [ev [Ev [He [Ge _]]]]]. rewrite Ev.
    assert (Tp : t_parent t = Some (s_parent st)) by (rewrite Tq; reflexivity). rewrite Tp.
    assert (Ow : owning st = true). { unfold owning. rewrite Ph in O7. simpl in O7. apply Nat.eqb_eq. lia. }
    replace (t_ev t) with (s_tevent st) by (rewrite Tq; reflexivity).
    apply (cont_EX X w _ sid st wst_resumed t (RSend e) (s_tevent st) (s_parent st) HX Hs Ow eq_refl eq_refl keeps_resumed);
      try reflexivity; try assumption.
    + simpl. discriminate.
    + rewrite R. reflexivity.
    + right. exists e, ev. auto.
  - (* the pending TimeoutError *)
    destruct Tok as [st [Hs Tq]]. assert (Tp : t_parent t = Some (s_parent st)) by (rewrite Tq; reflexivity). rewrite Tp.
    pose proof (I3 sid st Hs) as [O1 O2 O3 O4 O5 O6 O7 O8].
    assert (Rt : is_rt sid t = true). { unfold is_rt. rewrite R. simpl. apply Nat.eqb_refl. }
    assert (C1 : (1 <= count_rt sid (tasks w))%nat).
    { unfold count_rt. clear -Hin Rt. induction (tasks w) as [|x r IH]; [destruct Hin|]. simpl.
      destruct Hin as [E|E]; [subst; rewrite Rt; simpl; lia|]. destruct (is_rt sid x); simpl; [lia|auto]. }
    assert (Ow : owning st = true). { unfold owning. apply Nat.eqb_eq. lia. }
    assert (Pd : s_ph st = Dead). { destruct (s_ph st); simpl in O7; try lia. reflexivity. }
    replace (t_ev t) with (s_tevent st) by (rewrite Tq; reflexivity).
    apply (cont_EX X w _ sid st wst_thrown t RThrow (s_tevent st) (s_parent st) HX Hs Ow eq_refl eq_refl keeps_thrown);
      try reflexivity; try assumption.
    + simpl. rewrite Pd. discriminate.
    + rewrite R. reflexivity.
    + left. reflexivity.
Qed.

Lemma ptask_full : forall X t w, Full X w -> In t (tasks w) -> Full X (ptask t w).
Proof.
  intros X t w HF Hin. pose proof HF as [B [I E]]. unfold ptask. rewrite B.
  destruct (ptask_body_EX X t w HF Hin) as [B' E']. apply Full_of; [assumption| |assumption].
  apply ptask_body_Inv; assumption.
Qed.

Lemma fold_ptask_full : forall l X w, Full X w -> NoDup l -> (forall u, In u l -> In u (tasks w)) ->
  Full X (fold_left (fun w t => ptask t w) l w).
Proof.
  induction l as [|t r IH]; intros X w HF ND Hin; simpl; [assumption|].
  inversion ND as [|? ? Hnt NDr]; subst.
  apply IH; [apply ptask_full; [assumption|apply Hin; left; reflexivity]|assumption|].
  intros u Hu. apply ptask_keeps; [apply Hin; right; assumption|intro; subst; contradiction|].
  intros g R. destruct HF as [_ [[_ [_ [_ [_ E]]]] _]].
  assert (In t (tasks w)) by (apply Hin; left; reflexivity).
  specialize (E t H). unfold task_ok in E. rewrite R in E. exact E.
Qed.

(* the head of the pending items is taken *)
Lemma EX_pop : forall x X es gs ss ts q lg, EXc (x :: X) es gs ss ts q lg -> EXc X es gs ss ts q lg.
Proof.
  intros x X es gs ss ts q lg [Hq [Hgi [Htask [Hwst [Hown [Hcnt [Hgate [Hqu [Hqd [Hnd [Hfl [Hres Hord]]]]]]]]]]]].
  unfold EXc. repeat match goal with |- _ /\ _ => split end; try assumption.
  - intros y Hy. apply Hq. right. assumption.
  - intros tok ev Hin. apply Hqu. right. assumption.
  - intros tok ev Hin. apply Hqd. right. assumption.
  - unfold F_qnodup in *. simpl in Hnd. destruct (udq x); [inversion Hnd; assumption|assumption].
  - intros sid st Hs Ph. destruct (Hfl sid st Hs Ph) as [e [ev [A [B [C D]]]]]. exists e, ev. repeat split; try assumption.
    intro Hin. apply D. right. assumption.
Qed.

Lemma pop_notin : forall x X q, udq x = true -> F_qnodup (x :: X) q -> ~ In x (X ++ q).
Proof.
  intros x X q U H Hin. unfold F_qnodup in H. simpl in H. rewrite U in H. inversion H; subst.
  apply H2. apply filter_In. auto.
Qed.

Lemma EX_set_dispatched : forall X es gs ss ts q lg tok ev0,
  EXc X es gs ss ts q lg -> nth_error es tok = Some ev0 -> e_dispatched ev0 = false -> ~ In (QUser tok) (X ++ q) ->
  EXc X (upd_nth tok set_dispatched es) gs ss ts q lg.
Proof.
  intros X es gs ss ts q lg tok ev0 [Hq [Hgi [Htask [Hwst [Hown [Hcnt [Hgate [Hqu [Hqd [Hnd [Hfl [Hres Hord]]]]]]]]]]]] H0 D Ni.
  destruct (Hgate tok ev0 H0) as [G1 _]. destruct (G1 D) as [G W].
  unfold EXc. rewrite length_upd_nth. repeat match goal with |- _ /\ _ => split end; try assumption.
  - apply (F_cnt_upd es tok _ ev0 H0 ss ts); [assumption|auto|]. simpl. apply Hcnt. assumption.
  - apply (F_gate_upd es tok _ ev0 H0); [assumption|]. unfold gate_ok. simpl. rewrite G. split; [discriminate|lia].
  - apply (F_quser_upd X es tok _ ev0 H0); [assumption|]. auto.
  - apply (F_qdone_upd X es tok _ ev0 H0); [assumption|simpl; lia].
  - apply (F_flag_upd X es tok _ ev0 H0); [assumption|simpl; lia].
  - apply (F_res_upd es tok _ ev0 H0); [assumption|]. intro L. lia.
Qed.

(* one log entry that is not a resumption *)
Lemma EX_log1 : forall X es gs ss ts q lg x,
  EXc X es gs ss ts q lg -> not_res x ->
  (htok x = None \/ exists t0 ev0, htok x = Some t0 /\ nth_error es t0 = Some ev0 /\ e_gate ev0 = O) ->
  EXc X es gs ss ts q (x :: lg).
Proof.
  intros X es gs ss ts q lg x H NR Hh.
  pose proof H as [Hq [Hgi [Htask [Hwst [Hown [Hcnt [Hgate [Hqu [Hqd [Hnd [Hfl [Hres Hord]]]]]]]]]]]].
  unfold EXc. repeat match goal with |- _ /\ _ => split end; try assumption.
  - intros tok hi k e vals err [Hin|Hin]; [exfalso; apply (NR tok hi k e vals err); auto|eauto].
  - unfold F_ord in *. simpl. split; [|assumption]. intros tok hi k e vals err Hin Hx.
    destruct Hh as [Hh|[t0 [ev0 [Hh [H0 G]]]]]; [congruence|]. rewrite Hh in Hx. inversion Hx. subst t0.
    destruct (Hres _ _ _ _ _ _ Hin) as [ev [A [B _]]]. rewrite H0 in A. inversion A. subst. lia.
Qed.

(* a generator handler is invoked: new generator, its task, one count *)
Lemma EX_new_gen : forall X es gs ss ts q lg tok ev0 gnew,
  EXc X es gs ss ts q lg -> nth_error es tok = Some ev0 -> e_dispatched ev0 = true -> e_gate ev0 = O ->
  g_tok gnew = tok -> g_atcall gnew = false -> g_rest gnew <> None ->
  EXc X (upd_nth tok (add_wait 1) es) (gs ++ [gnew]) ss (ts ++ [mk_task tok (RGen (length gs)) None]) q lg.
Proof.
  intros X es gs ss ts q lg tok ev0 gnew [Hq [Hgi [Htask [Hwst [Hown [Hcnt [Hgate [Hqu [Hqd [Hnd [Hfl [Hres Hord]]]]]]]]]]]] H0 D G N1 N2 N3.
  destruct (evt_fields_wait X es ss q lg tok 1 ev0 H0 D G Hgate Hqu Hqd Hfl Hres) as [P1 [P2 [P3 [P4 P5]]]].
  unfold EXc. rewrite length_upd_nth. repeat match goal with |- _ /\ _ => split end; try assumption.
  - intros g gn Hg Rn. apply nth_error_snoc in Hg. destruct Hg as [[Hg _]|[_ E]]; [eauto|]. subst. contradiction.
  - intros u Hu. apply in_app_iff in Hu. destruct Hu as [Hu|[Hu|[]]].
    + destruct (Htask u Hu) as [A B]. split; [assumption|]. intros g R. destruct (B g R) as [gn [C1 C2]].
      exists gn. split; [apply nth_error_app_old; assumption|assumption].
    + subst u. simpl. split; [apply nth_error_lt in H0; assumption|]. intros g R. inversion R. subst g.
      exists gnew. split; [rewrite nth_error_app2 by lia; rewrite Nat.sub_diag; reflexivity|auto].
  - intros sid st Hs Ow. destruct (Hown sid st Hs Ow) as [[gn [A1 A2]] [B C]]. split; [|split; [|assumption]].
    + exists gn. split; [apply nth_error_app_old; assumption|assumption].
    + intros u Hu. apply in_app_iff in Hu. destruct Hu as [Hu|[Hu|[]]]; [auto|]. subst u. simpl. intro E. inversion E.
      apply nth_error_lt in A1. lia.
  - apply (F_cnt_upd es tok _ ev0 H0 ss ts); [assumption| |].
    + intros t Ne. rewrite cnt_gen_snoc, gen_for_gen. apply Nat.eqb_neq in Ne. rewrite Nat.eqb_sym, Ne. simpl. split; [lia|reflexivity].
    + unfold add_wait; cbn [e_waiting]. rewrite (Hcnt tok ev0 H0), cnt_gen_snoc, gen_for_gen, Nat.eqb_refl. unfold b2n. lia.
Qed.

Lemma EX_reg_nongen : forall X w t, EX X w -> is_gen (t_ref t) = false -> (t_ev t < length (evs w))%nat -> EX X (reg_task t w).
Proof.
  intros X w t H Ng Rg. unfold EX, reg_task. destruct (existsb (task_eqb t) (tasks w)); [exact H|]. simpl.
  apply EX_add_nongen; assumption.
Qed.

(* ---------------------------------------------------------------- the handlers of the dispatched event *)

Definition disp_ok (tok : nat) (w : world) : Prop :=
  exists ev, nth_error (evs w) tok = Some ev /\ e_dispatched ev = true /\ e_gate ev = O.

Lemma run_handlers_EX : forall hs hi X tok w err,
  bad w = false -> EX X w -> disp_ok tok w ->
  let w' := fst (run_handlers tok hi hs (w, err)) in
  bad w' = false /\ EX X w' /\ disp_ok tok w' /\ ths w' = ths w /\ wsts w' = wsts w.
Proof.
  induction hs as [|h r IH]; intros hi X tok w err B HX [ev0 [H0 [D G]]]; simpl.
  - split; [assumption|]. split; [assumption|]. split; [exists ev0; auto|auto].
  - destruct h as [v raises|c sts].
    + assert (P1 : EX X (add_log (LPlain tok hi) w)).
      { unfold EX. simpl. apply EX_log1; [exact HX|intros ? ? ? ? ? ?; discriminate|]. right. exists tok, ev0. auto. }
      destruct raises.
      * assert (P2 : EX X (mod_evt tok add_err (add_log (LPlain tok hi) w))).
        { unfold EX. simpl. apply (EX_vals X _ _ _ _ _ _ tok add_err ev0 P1 H0 vals_only_err (or_introl G)). }
        destruct (IH (S hi) X tok (mod_evt tok add_err (add_log (LPlain tok hi) w)) true B P2) as [A1 [A2 [A3 [A4 A5]]]].
        { exists (add_err ev0). split; [simpl; apply nth_error_upd_same; assumption|auto]. }
        auto.
      * assert (P2 : EX X (mod_evt tok (add_oval (option_map (tokval tok) v)) (add_log (LPlain tok hi) w))).
        { unfold EX. simpl. apply (EX_vals X _ _ _ _ _ _ tok _ ev0 P1 H0 (vals_only_oval _) (or_introl G)). }
        destruct (IH (S hi) X tok (mod_evt tok (add_oval (option_map (tokval tok) v)) (add_log (LPlain tok hi) w)) err B P2) as [A1 [A2 [A3 [A4 A5]]]].
        { exists (add_oval (option_map (tokval tok) v) ev0). split; [simpl; apply nth_error_upd_same; assumption|].
          destruct (vals_only_oval (option_map (tokval tok) v) ev0) as [_ [V2 V3]]. rewrite V2, V3. auto. }
        auto.
    + set (gnew := {| g_tok := tok; g_hi := hi; g_catch := c; g_k := O; g_cur := O; g_atcall := false; g_rest := Some sts |}).
      set (tn := mk_task tok (RGen (length (gens w))) None).
      set (w1 := mod_evt tok (add_wait 1) (set_gens w (gens w ++ [gnew]))).
      assert (Nin : ~ In tn (tasks w1)).
      { simpl. intro Hin. destruct HX as [_ [_ [Htask _]]]. destruct (Htask tn Hin) as [_ T]. destruct (T _ eq_refl) as [gn [Hg _]].
        apply nth_error_lt in Hg. lia. }
      assert (P2 : EX X (reg_task tn w1)).
      { unfold EX. rewrite reg_task_evs, reg_task_gens, reg_task_wsts, (reg_task_new _ _ Nin), reg_task_queue, reg_task_wlog. simpl.
        apply (EX_new_gen X _ _ _ _ _ _ tok ev0 gnew HX H0 D G); [reflexivity|reflexivity|discriminate]. }
      destruct (IH (S hi) X tok (reg_task tn w1) err) as [A1 [A2 [A3 [A4 A5]]]].
      * rewrite reg_task_bad. exact B.
      * exact P2.
      * exists (add_wait 1 ev0). rewrite reg_task_evs. split; [simpl; apply nth_error_upd_same; assumption|auto].
      * rewrite reg_task_ths, reg_task_wsts in *. auto.
Qed.

(* ---------------------------------------------------------------- _on_event *)

Lemma on_event_full : forall X tok w sid ev0, Full X w -> In (THEv sid) (ths w) -> nth_error (evs w) tok = Some ev0 ->
  Full X (on_event tok w sid) /\
  (exists ev', nth_error (evs (on_event tok w sid)) tok = Some ev' /\ e_dispatched ev' = e_dispatched ev0 /\
               e_gate ev' = e_gate ev0 /\ e_waiting ev' = e_waiting ev0) /\
  (forall s, s <> sid -> In (THEv s) (ths w) -> In (THEv s) (ths (on_event tok w sid))).
Proof.
  intros X tok w sid ev0 [B [HI HX]] Hin H0.
  pose proof (on_event_Inv tok w sid HI) as HInv. revert HInv.
  unfold on_event. rewrite B.
  pose proof HI as [_ [I2 _]]. specialize (I2 _ Hin). simpl in I2.
  destruct (nth_error (wsts w) sid) as [st|] eqn:Hs; [|apply nth_error_None in Hs; lia].
  destruct (negb (s_run st) && obj_ok (s_obj st) tok).
  - unfold rem_th_k. apply has_th_In in Hin. rewrite Hin. intro HInv. split; [|split].
    + apply Full_of; [exact B|exact HInv|].
      unfold EX. simpl.
      pose proof (EX_wst_seen X _ _ _ _ _ _ sid st tok HX Hs (nth_error_lt _ _ _ H0)) as P1.
      apply (EX_vals X _ _ _ _ _ _ tok set_alert ev0 P1 H0 vals_only_alert). right. auto.
    + exists (set_alert ev0). simpl. split; [apply nth_error_upd_same; assumption|auto].
    + intros s Ne Hs'. change (In (THEv s) (filter (fun u => negb (th_eqb (THEv sid) u)) (ths w))).
      apply In_del. split; [assumption|]. intro E. inversion E. contradiction.
  - intro HInv. split; [split; [assumption|split; assumption]|]. split; [exists ev0; auto|auto].
Qed.

Lemma fold_on_event_full : forall X tok sids w ev0, Full X w -> NoDup sids ->
  (forall s, In s sids -> In (THEv s) (ths w)) -> nth_error (evs w) tok = Some ev0 ->
  Full X (fold_left (on_event tok) sids w) /\
  exists ev', nth_error (evs (fold_left (on_event tok) sids w)) tok = Some ev' /\ e_dispatched ev' = e_dispatched ev0 /\
              e_gate ev' = e_gate ev0 /\ e_waiting ev' = e_waiting ev0.
Proof.
  intros X tok sids. induction sids as [|s r IH]; intros w ev0 HF ND Hin H0; simpl.
  - split; [assumption|]. exists ev0. auto.
  - inversion ND as [|? ? Hns NDr]; subst.
    destruct (on_event_full X tok w s ev0 HF (Hin s (or_introl eq_refl)) H0) as [F1 [[ev1 [E1 [E2 [E3 E4]]]] Fr]].
    destruct (IH (on_event tok w s) ev1 F1 NDr) as [G1 [ev2 [G2 [G3 [G4 G5]]]]].
    + intros s' Hs'. apply Fr; [intro; subst; contradiction|]. apply Hin. right. assumption.
    + exact E1.
    + split; [exact G1|]. exists ev2. split; [exact G2|]. split; [congruence|]. split; congruence.
Qed.

Lemma sids_NoDup : forall (sel : th -> list nat) l,
  (forall h s, In s (sel h) -> sel h = [s]) -> (forall h h' s, In s (sel h) -> In s (sel h') -> h = h') ->
  NoDup l -> NoDup (flat_map sel l).
Proof.
  intros sel l One Inj ND. induction ND as [|h r Hn ND IH]; simpl; [constructor|].
  destruct (sel h) as [|s r'] eqn:E; [exact IH|].
  assert (sel h = [s]) by (apply One; rewrite E; left; reflexivity). rewrite E in H. inversion H. subst r'. simpl.
  constructor; [|exact IH]. intro Hin. apply in_flat_map in Hin. destruct Hin as [h' [Hh' Hs]].
  assert (h = h') by (apply (Inj h h' s); [rewrite E; left; reflexivity|assumption]). subst h'. contradiction.
Qed.

Lemma ev_sids_spec : forall w nm, NoDup (ths w) ->
  NoDup (ev_sids w nm) /\ forall s, In s (ev_sids w nm) -> In (THEv s) (ths w).
Proof.
  intros w nm ND. split.
  - apply sids_NoDup; [| |assumption].
    + intros h s Hs. destruct h as [x|x|x]; try destruct Hs. destruct (onat_eqb _ _); [|destruct Hs]. destruct Hs as [E|[]]. subst. reflexivity.
    + intros h h' s Hs Hs'. destruct h as [x|x|x]; try destruct Hs; destruct h' as [y|y|y]; try destruct Hs'.
      destruct (onat_eqb (name_of_sid w x) _); [|destruct Hs]. destruct (onat_eqb (name_of_sid w y) _); [|destruct Hs'].
      destruct Hs as [E|[]]. destruct Hs' as [E'|[]]. congruence.
  - intros s Hs. unfold ev_sids in Hs. apply in_flat_map in Hs. destruct Hs as [h [Hh Hs]].
    destruct h as [x|x|x]; try destruct Hs. destruct (onat_eqb _ _); [|destruct Hs]. destruct Hs as [E|[]]. subst. assumption.
Qed.

(* ---------------------------------------------------------------- _on_done *)

Lemma on_done_full : forall X tok w sid ev, Full X w -> In (THDone sid) (ths w) ->
  (forall st, nth_error (wsts w) sid = Some st -> s_event st = Some tok -> s_ph st <> Flagged) ->
  nth_error (evs w) tok = Some ev -> (1 <= e_gate ev)%nat -> ~ In (QDone tok) (X ++ queue w) ->
  Full X (on_done tok w sid) /\ evs (on_done tok w sid) = evs w /\ queue (on_done tok w sid) = queue w /\
  (forall s, s <> sid -> nth_error (wsts (on_done tok w sid)) s = nth_error (wsts w) s).
Proof.
  intros X tok w sid ev [B [HI HX]] Hin Nf He Ge Ni.
  pose proof (on_done_Inv tok w sid HI Hin) as HInv. revert HInv.
  unfold on_done. rewrite B.
  pose proof HI as [_ [I2 [I3 _]]]. specialize (I2 _ Hin). simpl in I2.
  destruct (nth_error (wsts w) sid) as [st|] eqn:Hs; [|apply nth_error_None in Hs; lia].
  destruct (onat_eqb (s_event st) (Some tok)) eqn:Ev.
  2:{ intro HInv. split; [split; [assumption|split; assumption]|auto]. }
  apply onat_eqb_eq in Ev. cbv zeta.
  set (t := mk_task (s_tevent st) (RWait sid) (Some (s_parent st))).
  pose proof (I3 sid st Hs) as [O1 O2 O3 O4 O5 O6 O7 O8 O9].
  assert (Ph : s_ph st = Seen).
  { specialize (Nf st eq_refl Ev). assert (s_ph st <> Dead) by (apply O2; assumption).
    assert (s_ph st <> Armed) by (intro A; apply O4 in A; destruct A; congruence). destruct (s_ph st); congruence. }
  assert (P1 : EX X (mod_wst sid (wst_phase Flagged) (reg_task t w))).
  { pose proof HX as [_ [_ [_ [Hwst _]]]]. destruct (Hwst sid st Hs) as [W1 _].
    assert (P0 : EX X (reg_task t w)). { apply EX_reg_nongen; [exact HX|reflexivity|exact W1]. }
    unfold EX. simpl. rewrite reg_task_evs, reg_task_gens, reg_task_wsts, reg_task_queue, reg_task_wlog.
    unfold EX in P0. rewrite reg_task_evs, reg_task_gens, reg_task_wsts, reg_task_queue, reg_task_wlog in P0.
    apply (EX_wst_flag X _ _ _ _ _ _ sid st tok ev P0 Hs Ev He Ge Ni). }
  assert (Fr : forall s, s <> sid -> nth_error (upd_nth sid (wst_phase Flagged) (wsts (reg_task t w))) s = nth_error (wsts w) s).
  { intros s Ne. rewrite reg_task_wsts. apply nth_error_upd_other. congruence. }
  destruct (0 <=? s_timeout st) eqn:Tm.
  - apply Z.leb_le in Tm. unfold rem_th_k.
    assert (Ht : In (THTick sid) (ths (mod_wst sid (wst_phase Flagged) (reg_task t w)))).
    { simpl. rewrite reg_task_ths. apply O3. rewrite Ph. auto. }
    apply has_th_In in Ht. rewrite Ht. intro HInv.
    split; [apply Full_of; [simpl; rewrite reg_task_bad; exact B|exact HInv|exact P1]|].
    split; [simpl; apply reg_task_evs|]. split; [simpl; apply reg_task_queue|]. exact Fr.
  - intro HInv. split; [apply Full_of; [simpl; rewrite reg_task_bad; exact B|exact HInv|exact P1]|].
    split; [simpl; apply reg_task_evs|]. split; [simpl; apply reg_task_queue|]. exact Fr.
Qed.

Lemma fold_on_done_full : forall X tok sids w ev, Full X w -> NoDup sids ->
  (forall s, In s sids -> In (THDone s) (ths w)) ->
  (forall s st, In s sids -> nth_error (wsts w) s = Some st -> s_event st = Some tok -> s_ph st <> Flagged) ->
  nth_error (evs w) tok = Some ev -> (1 <= e_gate ev)%nat -> ~ In (QDone tok) (X ++ queue w) ->
  Full X (fold_left (on_done tok) sids w).
Proof.
  intros X tok sids. induction sids as [|s r IH]; intros w ev HF ND Hd Nf He Ge Ni; simpl; [assumption|].
  inversion ND as [|? ? Hns NDr]; subst.
  destruct (on_done_full X tok w s ev HF (Hd s (or_introl eq_refl))) as [F1 [E1 [E2 Fr]]]; try assumption.
  { intros st Hs. apply (Nf s st); [left; reflexivity|assumption]. }
  apply (IH _ ev); try assumption.
  - intros s' Hs'. apply on_done_keeps_done. apply Hd. right. assumption.
  - intros s' st Hs' Hst. rewrite Fr in Hst by (intro; subst; contradiction). apply (Nf s' st); [right; assumption|assumption].
  - rewrite E1. assumption.
  - rewrite E2. assumption.
Qed.

Lemma done_sids_spec : forall w nm, NoDup (ths w) ->
  NoDup (done_sids w nm) /\ forall s, In s (done_sids w nm) -> In (THDone s) (ths w).
Proof.
  intros w nm ND. split.
  - apply sids_NoDup; [| |assumption].
    + intros h s Hs. destruct h as [x|x|x]; try destruct Hs. destruct (onat_eqb _ _); [|destruct Hs]. destruct Hs as [E|[]]. subst. reflexivity.
    + intros h h' s Hs Hs'. destruct h as [x|x|x]; try destruct Hs; destruct h' as [y|y|y]; try destruct Hs'.
      destruct (onat_eqb (name_of_sid w x) _); [|destruct Hs]. destruct (onat_eqb (name_of_sid w y) _); [|destruct Hs'].
      destruct Hs as [E|[]]. destruct Hs' as [E'|[]]. congruence.
  - intros s Hs. apply (done_sids_In w nm s Hs).
Qed.

(* ---------------------------------------------------------------- _on_tick *)

Lemma keeps_timeout : keeps_ids wst_timeout. Proof. intro s. simpl. auto. Qed.
Lemma keeps_tick : keeps_ids wst_tick. Proof. intro s. simpl. auto. Qed.

Lemma on_tick_full : forall X w sid, Full X w -> In (THTick sid) (ths w) ->
  Full X (on_tick w sid) /\ (forall s, s <> sid -> In (THTick s) (ths w) -> In (THTick s) (ths (on_tick w sid))).
Proof.
  intros X w sid [B [HI HX]] Hin.
  pose proof (on_tick_Inv w sid HI) as HInv. revert HInv.
  unfold on_tick. rewrite B.
  pose proof HI as [_ [I2 [I3 _]]]. specialize (I2 _ Hin). simpl in I2.
  destruct (nth_error (wsts w) sid) as [st|] eqn:Hs; [|apply nth_error_None in Hs; lia].
  pose proof (I3 sid st Hs) as [O1 O2 O3 O4 O5 O6 O7 O8 O9].
  destruct (proj1 O3 Hin) as [Ph Tm].
  assert (Hd : In (THDone sid) (ths w)). { apply O2. destruct Ph as [P|P]; rewrite P; discriminate. }
  destruct (s_timeout st =? 0) eqn:T0.
  - cbv zeta. set (t := mk_task (s_tevent st) (RTimeout sid) (Some (s_parent st))).
    assert (P0 : EX X (reg_task t w)).
    { pose proof HX as [_ [_ [_ [Hwst _]]]]. destruct (Hwst sid st Hs) as [W1 _].
      apply EX_reg_nongen; [exact HX|reflexivity|exact W1]. }
    assert (PF : forall w', evs w' = evs w -> gens w' = gens w -> wsts w' = wsts w -> tasks w' = tasks (reg_task t w) ->
                   queue w' = queue w -> wlog w' = wlog w -> EX X (mod_wst sid wst_timeout w')).
    { intros w' e1 e2 e3 e4 e5 e6. unfold EX. simpl. rewrite e1, e2, e3, e4, e5, e6.
      unfold EX in P0. rewrite reg_task_evs, reg_task_gens, reg_task_wsts, reg_task_queue, reg_task_wlog in P0.
      apply (EX_wst_plain X _ _ _ _ _ _ sid wst_timeout st P0 Hs keeps_timeout); [reflexivity|]. simpl. discriminate. }
    destruct (s_run st) eqn:Rn.
    + unfold rem_th_k.
      assert (H1 : has_th (THDone sid) (reg_task t w) = true) by (apply has_th_In; rewrite reg_task_ths; exact Hd).
      rewrite H1.
      assert (H2 : has_th (THTick sid) (del_th (THDone sid) (reg_task t w)) = true).
      { apply has_th_In. change (In (THTick sid) (filter (fun u => negb (th_eqb (THDone sid) u)) (ths (reg_task t w)))).
        rewrite reg_task_ths. apply In_del. split; [assumption|discriminate]. }
      rewrite H2. intro HInv. split.
      * apply Full_of; [simpl; rewrite reg_task_bad; exact B|exact HInv|].
        apply PF; simpl; auto using reg_task_evs, reg_task_gens, reg_task_wsts, reg_task_queue, reg_task_wlog.
      * intros s Ne Hs'.
        change (In (THTick s) (filter (fun u => negb (th_eqb (THTick sid) u)) (filter (fun u => negb (th_eqb (THDone sid) u)) (ths (reg_task t w))))).
        rewrite reg_task_ths. apply In_del. split; [apply In_del; split; [assumption|discriminate]|]. intro E. inversion E. contradiction.
    + assert (Pa : s_ph st = Armed). { destruct Ph as [P|P]; [assumption|]. apply O9 in P. congruence. }
      assert (He : In (THEv sid) (ths w)) by (apply O1; assumption).
      unfold rem_th_k.
      assert (H0 : has_th (THEv sid) (reg_task t w) = true) by (apply has_th_In; rewrite reg_task_ths; exact He).
      rewrite H0.
      assert (H1 : has_th (THDone sid) (del_th (THEv sid) (reg_task t w)) = true).
      { apply has_th_In. change (In (THDone sid) (filter (fun u => negb (th_eqb (THEv sid) u)) (ths (reg_task t w)))).
        rewrite reg_task_ths. apply In_del. split; [assumption|discriminate]. }
      rewrite H1.
      assert (H2 : has_th (THTick sid) (del_th (THDone sid) (del_th (THEv sid) (reg_task t w))) = true).
      { apply has_th_In.
        change (In (THTick sid) (filter (fun u => negb (th_eqb (THDone sid) u)) (filter (fun u => negb (th_eqb (THEv sid) u)) (ths (reg_task t w))))).
        rewrite reg_task_ths. apply In_del. split; [apply In_del; split; [assumption|discriminate]|discriminate]. }
      rewrite H2. intro HInv. split.
      * apply Full_of; [simpl; rewrite reg_task_bad; exact B|exact HInv|].
        apply PF; simpl; auto using reg_task_evs, reg_task_gens, reg_task_wsts, reg_task_queue, reg_task_wlog.
      * intros s Ne Hs'.
        change (In (THTick s) (filter (fun u => negb (th_eqb (THTick sid) u)) (filter (fun u => negb (th_eqb (THDone sid) u))
                  (filter (fun u => negb (th_eqb (THEv sid) u)) (ths (reg_task t w)))))).
        rewrite reg_task_ths. apply In_del. split; [apply In_del; split; [apply In_del; split; [assumption|discriminate]|discriminate]|].
        intro E. inversion E. contradiction.
  - destruct (0 <? s_timeout st) eqn:T1.
    + intro HInv. split; [|intros s Ne Hs'; exact Hs'].
      apply Full_of; [exact B|exact HInv|]. unfold EX. simpl.
      apply (EX_wst_plain X _ _ _ _ _ _ sid wst_tick st HX Hs keeps_tick); [reflexivity|]. simpl. auto.
    + intro HInv. split; [split; [assumption|split; assumption]|auto].
Qed.

Lemma fold_on_tick_full : forall X sids w, Full X w -> NoDup sids -> (forall s, In s sids -> In (THTick s) (ths w)) ->
  Full X (fold_left on_tick sids w).
Proof.
  intros X sids. induction sids as [|s r IH]; intros w HF ND Hin; simpl; [assumption|].
  inversion ND as [|? ? Hns NDr]; subst.
  destruct (on_tick_full X w s HF (Hin s (or_introl eq_refl))) as [F1 Fr].
  apply IH; [assumption|assumption|]. intros s' Hs'. apply Fr; [intro; subst; contradiction|apply Hin; right; assumption].
Qed.

Lemma tick_sids_spec : forall w, NoDup (ths w) -> NoDup (tick_sids w) /\ forall s, In s (tick_sids w) -> In (THTick s) (ths w).
Proof.
  intros w ND. split.
  - apply sids_NoDup; [| |assumption].
    + intros h s Hs. destruct h as [x|x|x]; try destruct Hs. subst. reflexivity. destruct H.
    + intros h h' s Hs Hs'. destruct h as [x|x|x]; try destruct Hs; destruct h' as [y|y|y]; try destruct Hs'; try congruence; try contradiction.
  - intros s Hs. unfold tick_sids in Hs. apply in_flat_map in Hs. destruct Hs as [h [Hh Hs]].
    destruct h as [x|x|x]; try destruct Hs. subst. assumption. destruct H.
Qed.

Lemma EX_push_gen : forall X es gs ss ts q lg, EXc X es gs ss ts q lg -> EXc X es gs ss ts (q ++ [QGenEv]) lg.
Proof.
  intros X es gs ss ts q lg [Hq [Hgi [Htask [Hwst [Hown [Hcnt [Hgate [Hqu [Hqd [Hnd [Hfl [Hres Hord]]]]]]]]]]]].
  assert (Pend : forall x, In x (X ++ q ++ [QGenEv]) -> In x (X ++ q) \/ x = QGenEv).
  { intros x Hx. rewrite app_assoc in Hx. apply in_app_iff in Hx. destruct Hx as [Hx|[Hx|[]]]; auto. }
  unfold EXc. repeat match goal with |- _ /\ _ => split end; try assumption.
  - intros x Hx. apply Pend in Hx. destruct Hx as [Hx|Hx]; [auto|subst; exact I].
  - intros tok ev Hin. apply Pend in Hin. destruct Hin as [Hin|Hin]; [eauto|discriminate].
  - intros tok ev Hin. apply Pend in Hin. destruct Hin as [Hin|Hin]; [eauto|discriminate].
  - unfold F_qnodup in *. rewrite app_assoc, filter_app. simpl. rewrite app_nil_r. assumption.
  - intros sid st Hs Ph. destruct (Hfl sid st Hs Ph) as [e [ev [A [B [C D]]]]]. exists e, ev. repeat split; try assumption.
    intro Hin. apply Pend in Hin. destruct Hin as [Hin|Hin]; [contradiction|discriminate].
Qed.

Lemma EXc_pend_eq : forall X q X' q' es gs ss ts lg, X ++ q = X' ++ q' ->
  EXc X es gs ss ts q lg -> EXc X' es gs ss ts q' lg.
Proof.
  intros X q X' q' es gs ss ts lg E. unfold EXc, F_q, F_quser, F_qdone, F_qnodup, F_flag. rewrite E. auto.
Qed.

Lemma dispatch_full : forall p q0 rest w, Full (q0 :: rest) w -> Full rest (dispatch p w q0).
Proof.
  intros p q0 rest w [B [HI HX]].
  pose proof HX as [Hq [Hgi [Htask [Hwst [Hown [Hcnt [Hgate [Hqu [Hqd [Hnd [Hfl [Hres Hord]]]]]]]]]]]].
  pose proof (EX_pop _ _ _ _ _ _ _ _ HX) as HP. pose proof HI as [I1 _].
  unfold dispatch. rewrite B. destruct q0 as [tok|tok|tok|].
  - (* a user event *)
    assert (Rg : (tok < length (evs w))%nat) by (apply (Hq (QUser tok)); left; reflexivity).
    destruct (nth_error (evs w) tok) as [ev|] eqn:H0; [|apply nth_error_None in H0; lia].
    assert (D : e_dispatched ev = false) by (apply (Hqu tok ev); [left; reflexivity|assumption]).
    destruct (Hgate tok ev H0) as [G1 _]. destruct (G1 D) as [G W].
    assert (Ni : ~ In (QUser tok) (rest ++ queue w)) by (apply pop_notin; [reflexivity|assumption]).
    set (w1 := add_log (LDisp tok) (mod_evt tok set_dispatched w)).
    assert (P1 : EX rest w1).
    { unfold EX, w1. simpl. apply EX_log1; [|intros ? ? ? ? ? ?; discriminate|left; reflexivity].
      apply (EX_set_dispatched rest _ _ _ _ _ _ tok ev HP H0 D Ni). }
    assert (D1 : disp_ok tok w1).
    { exists (set_dispatched ev). unfold w1. simpl. split; [apply nth_error_upd_same; assumption|auto]. }
    pose proof (run_handlers_EX (handlers_of p (e_name ev)) O rest tok w1 false B P1 D1) as RH.
    pose proof (run_handlers_IC (handlers_of p (e_name ev)) tok O w1 false HI) as RI.
    destruct (run_handlers tok O (handlers_of p (e_name ev)) (w1, false)) as [w2 err]. simpl in RH, RI.
    destruct RH as [B2 [P2 [[ev2 [H2 [D2 G2]]] [T2 S2]]]].
    destruct (ev_sids_spec w (e_name ev) I1) as [ND Hsids].
    assert (F2 : Full rest w2) by (split; [assumption|split; assumption]).
    destruct (fold_on_event_full rest tok (ev_sids w (e_name ev)) w2 ev2 F2 ND) as [F3 [ev3 [H3 [D3 [G3 W3]]]]].
    { intros s Hs. rewrite T2. apply Hsids. assumption. }
    { exact H2. }
    destruct F3 as [B3 [I3 P3]].
    destruct (event_done_EX rest _ tok err ev3 P3 H3) as [P4 B4]. { intros _. split; congruence. }
    apply Full_of; [rewrite B4; exact B3| |exact P4].
    apply (quiet_Inv _ (event_done_quiet tok err)). right. exact I3.
  - (* <name>_done *)
    assert (Rg : (tok < length (evs w))%nat) by (apply (Hq (QDone tok)); left; reflexivity).
    destruct (nth_error (evs w) tok) as [ev|] eqn:H0; [|apply nth_error_None in H0; lia].
    assert (Ge : (1 <= e_gate ev)%nat) by (apply (Hqd tok ev); [left; reflexivity|assumption]).
    assert (Ni : ~ In (QDone tok) (rest ++ queue w)) by (apply pop_notin; [reflexivity|assumption]).
    destruct (done_sids_spec w (e_name ev) I1) as [ND Hsids].
    apply (fold_on_done_full rest tok _ w ev); try assumption.
    + split; [assumption|split; assumption].
    + intros s st _ Hs Ev Ph. destruct (Hfl s st Hs Ph) as [e [ev' [A [_ [_ Nq]]]]]. rewrite Ev in A. inversion A. subst e.
      apply Nq. left. reflexivity.
  - (* <name>_success *)
    assert (Rg : (tok < length (evs w))%nat) by (apply (Hq (QSucc tok)); left; reflexivity).
    destruct (nth_error (evs w) tok) as [ev|] eqn:H0; [|apply nth_error_None in H0; lia].
    split; [exact B|]. split; [exact HI|].
    unfold EX. simpl. apply EX_log1; [exact HP|intros ? ? ? ? ? ?; discriminate|left; reflexivity].
  - (* generate_events *)
    destruct (tick_sids_spec w I1) as [ND Hsids].
    apply fold_on_tick_full; [split; [assumption|split; assumption]|assumption|assumption].
Qed.

Lemma fold_dispatch_full : forall p batch w, Full batch w -> Full [] (fold_left (dispatch p) batch w).
Proof.
  intros p batch. induction batch as [|q0 rest IH]; intros w HF; simpl; [assumption|].
  apply IH. apply dispatch_full. assumption.
Qed.

Lemma tick_full : forall p g sch t w, Full [] w -> Full [] (tick p g sch t w).
Proof.
  intros p g sch t w [B [HI HX]]. unfold tick.
  set (w0 := add_log (LTick t) w).
  assert (F0 : Full [] w0).
  { split; [exact B|]. split; [exact HI|]. unfold EX, w0. simpl.
    apply EX_log1; [exact HX|intros ? ? ? ? ? ?; discriminate|left; reflexivity]. }
  destruct (order_by_spec w0 sch (tasks w0)) as [N1 N2]; [destruct HI as [_ [_ [_ [D _]]]]; exact D|].
  pose proof (fold_ptask_full _ [] w0 F0 N1 N2) as F1.
  set (w1 := fold_left (fun w t => ptask t w) (order_by w0 sch (tasks w0)) w0) in *.
  set (w2 := if g then push QGenEv w1 else w1).
  assert (F2 : Full [] w2).
  { unfold w2. destruct g; [|exact F1]. destruct F1 as [B1 [I1 P1]]. split; [exact B1|]. split; [exact I1|].
    unfold EX. simpl. apply EX_push_gen. exact P1. }
  apply fold_dispatch_full. destruct F2 as [B2 [I2 P2]]. split; [exact B2|]. split; [exact I2|].
  unfold EX in *. simpl in *. apply (EXc_pend_eq [] (queue w2)); [rewrite app_nil_r; reflexivity|exact P2].
Qed.

Lemma fire_user_full : forall nm w, Full [] w -> Full [] (fst (fire_user nm O O w)).
Proof.
  intros nm w [B [HI HX]]. split; [exact B|]. split; [exact HI|].
  unfold EX. simpl. apply EX_log1; [|intros ? ? ? ? ? ?; discriminate|left; reflexivity].
  pose proof (EX_ext [] _ _ _ _ _ _ [nm] [] O (new_evt O) HX (or_introl eq_refl)) as P. simpl in P.
  apply P; intros; contradiction.
Qed.

Lemma fire_roots_full : forall roots t w, Full [] w -> Full [] (fire_roots roots t w).
Proof.
  intros roots t. unfold fire_roots. induction roots as [|r rs IH]; intros w HF; simpl; [assumption|].
  apply IH. destruct (Nat.eqb (fst r) t); [|assumption]. apply fire_user_full. assumption.
Qed.

Lemma run_from_full : forall p g scheds roots n t w, Full [] w -> Full [] (run_from p g scheds roots t n w).
Proof.
  intros p g scheds roots n. induction n as [|n IH]; intros t w HF; simpl; [assumption|].
  apply IH. apply tick_full. apply fire_roots_full. assumption.
Qed.

Lemma EX_init : EX [] init.
Proof.
  unfold EX, init, EXc. simpl. repeat match goal with |- _ /\ _ => split end.
  - intros x [].
  - intros g gn H. destruct g; discriminate.
  - intros t [].
  - intros sid st H. destruct sid; discriminate.
  - intros sid st H. destruct sid; discriminate.
  - intros tok ev H. destruct tok as [|tok]; [|destruct tok; discriminate]. inversion H. subst. reflexivity.
  - intros tok ev H. destruct tok as [|tok]; [|destruct tok; discriminate]. inversion H. subst. unfold gate_ok. simpl. split; [auto|lia].
  - intros tok ev [].
  - intros tok ev [].
  - constructor.
  - intros sid st H. destruct sid; discriminate.
  - intros tok hi k e vals err [].
  - exact I.
Qed.

Theorem run_full : forall p g scheds roots n, Full [] (run p g scheds roots n).
Proof.
  intros. unfold run. apply run_from_full. split; [reflexivity|]. split; [apply IC_init|apply EX_init].
Qed.

Theorem run_no_crash : forall p g scheds roots n, bad (run p g scheds roots n) = false.
Proof. intros. destruct (run_full p g scheds roots n) as [B _]. exact B. Qed.

(* ---------------------------------------------------------------- consequences for the log *)

Lemma ord_ok_split : forall a tok hi k e vals err b, ord_ok (a ++ LRes tok hi k e vals err :: b) ->
  forall x, In x a -> htok x <> Some e.
Proof.
  induction a as [|y r IH]; intros tok hi k e vals err b H x Hx; [destruct Hx|]. simpl in H. destruct H as [H1 H2].
  destruct Hx as [E|Hx].
  - subst y. apply (H1 tok hi k e vals err). apply in_app_iff. right. left. reflexivity.
  - apply (IH tok hi k e vals err b H2 x Hx).
Qed.

(* the value and error flag delivered at a resumption are those of the event instance e, which has passed its
   gate and keeps them to the end of the run *)
Lemma resume_value : forall p g scheds roots n tok hi k e vals err, let w := run p g scheds roots n in
  In (LRes tok hi k e vals err) (wlog w) ->
  exists ev, nth_error (evs w) e = Some ev /\ e_vals ev = vals /\ e_errors ev = err /\
             (1 <= e_gate ev)%nat /\ e_dispatched ev = true /\ e_waiting ev = 0.
Proof.
  intros p g scheds roots n tok hi k e vals err w Hin.
  destruct (run_full p g scheds roots n) as [_ [_ HX]]. fold w in HX.
  destruct HX as [_ [_ [_ [_ [_ [_ [Hgate [_ [_ [_ [_ [Hres _]]]]]]]]]]]].
  destruct (Hres _ _ _ _ _ _ Hin) as [ev [A [B [C D]]]]. exists ev. destruct (Hgate e ev A) as [_ G2]. destruct (G2 B).
  repeat split; assumption.
Qed.

(* after the entry that resumes a caller with the result of e, no handler of e makes a step any more;
   e has been dispatched, holds no waitingHandlers count, and none of its handlers is a task or suspended in a wait *)
Lemma resume_after_finish : forall p g scheds roots n l1 l2 tok hi k e vals err, let w := run p g scheds roots n in
  rev (wlog w) = l1 ++ LRes tok hi k e vals err :: l2 ->
  (forall x, In x l2 -> htok x <> Some e) /\
  (forall t, In t (tasks w) -> t_ev t = e -> is_gen (t_ref t) = false) /\
  (forall sid st, nth_error (wsts w) sid = Some st -> s_tevent st = e -> s_resumes st <> O).
Proof.
  intros p g scheds roots n l1 l2 tok hi k e vals err w Hsplit.
  destruct (run_full p g scheds roots n) as [_ [_ HX]]. fold w in HX.
  assert (Hin : In (LRes tok hi k e vals err) (wlog w)).
  { apply in_rev. rewrite Hsplit. apply in_app_iff. right. left. reflexivity. }
  destruct (resume_value p g scheds roots n tok hi k e vals err Hin) as [ev [A [_ [_ [G [D W]]]]]]. fold w in A.
  destruct HX as [_ [_ [_ [_ [_ [Hcnt [_ [_ [_ [_ [_ [_ Hord]]]]]]]]]]]].
  split; [|split].
  - assert (E : wlog w = rev l2 ++ LRes tok hi k e vals err :: rev l1).
    { rewrite <- (rev_involutive (wlog w)), Hsplit, rev_app_distr. simpl. rewrite <- app_assoc. reflexivity. }
    unfold F_ord in Hord. rewrite E in Hord. intros x Hx. apply (ord_ok_split _ _ _ _ _ _ _ _ Hord). apply in_rev in Hx. exact Hx.
  - specialize (Hcnt e ev A). rewrite W in Hcnt.
    intros t Ht Te. destruct (is_gen (t_ref t)) eqn:Ig; [|reflexivity]. exfalso.
    assert (gen_for e t = true) by (unfold gen_for; rewrite Te, Nat.eqb_refl, Ig; reflexivity).
    pose proof (cnt_pos_gen e _ t Ht H). lia.
  - specialize (Hcnt e ev A). rewrite W in Hcnt.
    intros sid st Hs Te R0.
    assert (owns e st = true) by (unfold owns, owning; rewrite Te, Nat.eqb_refl, R0; reflexivity).
    pose proof (cnt_own_pos e _ sid st Hs H). lia.
Qed.

(* ---------------------------------------------------------------- the earlier results without the no-crash hypothesis *)

Lemma residue_spec_nc : forall p g scheds roots n, let w := run p g scheds roots n in
  NoDup (ths w) /\ forall h, In h (ths w) <-> exists st, nth_error (wsts w) (sid_of h) = Some st /\ wants h st.
Proof. intros. apply residue_spec. apply run_no_crash. Qed.

Lemma no_residue_all_dead_nc : forall p g scheds roots n, let w := run p g scheds roots n in
  (forall sid st, nth_error (wsts w) sid = Some st -> s_ph st = Dead) ->
  ths w = [] /\ forall t, In t (tasks w) -> forall sid, t_ref t <> RWait sid.
Proof. intros p g scheds roots n w. apply no_residue_all_dead. apply run_no_crash. Qed.

Lemma resume_accounting_nc : forall p g scheds roots n sid st, let w := run p g scheds roots n in
  nth_error (wsts w) sid = Some st -> (s_resumes st + alive (s_ph st) + count_rt sid (tasks w) = 1)%nat.
Proof. intros p g scheds roots n sid st w. apply resume_accounting. apply run_no_crash. Qed.

Lemma resume_at_most_once_nc : forall p g scheds roots n sid st, let w := run p g scheds roots n in
  nth_error (wsts w) sid = Some st ->
  (s_resumes st <= 1)%nat /\ (s_resumes st = 1%nat -> s_ph st = Dead /\ count_rt sid (tasks w) = O).
Proof. intros p g scheds roots n sid st w. apply resume_at_most_once. apply run_no_crash. Qed.

Lemma timeout_not_early_nc : forall p g scheds roots n sid st, let w := run p g scheds roots n in
  nth_error (wsts w) sid = Some st -> (s_timedout st = true \/ (0 < count_rt sid (tasks w))%nat) ->
  Z.of_nat (s_ticks st) = s_tmo0 st + 1 /\ s_ph st = Dead.
Proof. intros p g scheds roots n sid st w. apply timeout_not_early. apply run_no_crash. Qed.

Lemma live_countdown_nc : forall p g scheds roots n sid st, let w := run p g scheds roots n in
  nth_error (wsts w) sid = Some st -> s_timedout st = false -> 0 <= s_tmo0 st ->
  0 <= s_timeout st /\ s_timeout st + Z.of_nat (s_ticks st) = s_tmo0 st.
Proof. intros p g scheds roots n sid st w. apply live_countdown. apply run_no_crash. Qed.

Lemma wait_task_flagged_nc : forall p g scheds roots n t sid, let w := run p g scheds roots n in
  In t (tasks w) -> t_ref t = RWait sid ->
  exists st, nth_error (wsts w) sid = Some st /\ s_ph st = Flagged /\ In (THDone sid) (ths w) /\
             ~ In (THEv sid) (ths w) /\ ~ In (THTick sid) (ths w).
Proof. intros p g scheds roots n t sid w. apply wait_task_flagged. apply run_no_crash. Qed.

(* ================================================================== third invariant: what a quiet world looks like *)

Section LFields.
Variables excp exco : option nat.     (* the event instance whose QUser / QDone item is being dispatched right now *)
Variables (X : list qitem) (es : list evt) (ss : list wst) (ts : list task) (q : list qitem).

Definition L_fl : Prop := forall sid st, nth_error ss sid = Some st -> s_ph st = Flagged ->
  In (mk_task (s_tevent st) (RWait sid) (Some (s_parent st))) ts.
Definition L_p : Prop := forall sid st e, nth_error ss sid = Some st -> s_ph st = Armed -> s_obj st = Some e ->
  Some e <> excp -> In (QUser e) (X ++ q).
Definition L_o : Prop := forall sid st e ev, nth_error ss sid = Some st -> s_ph st = Seen -> s_event st = Some e ->
  Some e <> exco -> nth_error es e = Some ev -> 0 < e_waiting ev \/ In (QDone e) (X ++ q).
Definition L_m : Prop := forall sid st e, nth_error ss sid = Some st -> s_event st = Some e ->
  exists ev, nth_error es e = Some ev /\ e_name ev = s_name st /\ e_alert ev = true.
Definition L_m2 : Prop := forall sid st e, nth_error ss sid = Some st -> s_obj st = Some e ->
  exists ev, nth_error es e = Some ev /\ e_name ev = s_name st.
Definition L_v : Prop := forall sid st e sid' st', nth_error ss sid = Some st -> s_event st = Some e ->
  nth_error ss sid' = Some st' -> s_tevent st' = e -> (sid < sid')%nat.
Definition L_z : Prop := forall sid st, nth_error ss sid = Some st ->
  exists ev, nth_error es (s_tevent st) = Some ev /\ e_dispatched ev = true.
Definition L_se : Prop := forall sid st, nth_error ss sid = Some st -> s_ph st = Seen -> s_event st <> None.
Definition ELc : Prop := L_fl /\ L_p /\ L_o /\ L_m /\ L_m2 /\ L_v /\ L_z /\ L_se.
End LFields.

Definition EL (excp exco : option nat) (X : list qitem) (w : world) : Prop :=
  ELc excp exco X (evs w) (wsts w) (tasks w) (queue w).

Ltac elsplit := unfold ELc; repeat match goal with |- _ /\ _ => split end; try assumption.

(* E1: events appended, items pushed *)
Lemma EL_ext : forall xp xo X es ss ts q news qs, ELc xp xo X es ss ts q -> ELc xp xo X (es ++ news) ss ts (q ++ qs).
Proof.
  intros xp xo X es ss ts q news qs [Hfl [Hp [Ho [Hm [Hm2 [Hv [Hz Hse]]]]]]].
  assert (Sub : forall x, In x (X ++ q) -> In x (X ++ q ++ qs)).
  { intros x Hx. rewrite app_assoc. apply in_app_iff. left. assumption. }
  elsplit.
  - intros sid st e Hs Ph Ob Ne. apply Sub. eauto.
  - intros sid st e ev Hs Ph Ev Ne Hev. destruct (Hm sid st e Hs Ev) as [ev0 [A _]].
    rewrite (nth_error_app_old es news e ev0 A) in Hev. inversion Hev. subst ev0.
    destruct (Ho sid st e ev Hs Ph Ev Ne A) as [L|L]; [left; assumption|right; apply Sub; assumption].
  - intros sid st e Hs Ev. destruct (Hm sid st e Hs Ev) as [ev [A B]]. exists ev. split; [apply nth_error_app_old; assumption|assumption].
  - intros sid st e Hs Ob. destruct (Hm2 sid st e Hs Ob) as [ev [A B]]. exists ev. split; [apply nth_error_app_old; assumption|assumption].
  - intros sid st Hs. destruct (Hz sid st Hs) as [ev [A B]]. exists ev. split; [apply nth_error_app_old; assumption|assumption].
Qed.

(* E2: one event record updated *)
Lemma EL_evt : forall xp xo X es ss ts q tev F ev0, ELc xp xo X es ss ts q -> nth_error es tev = Some ev0 ->
  e_name (F ev0) = e_name ev0 -> (e_alert ev0 = true -> e_alert (F ev0) = true) ->
  (e_dispatched ev0 = true -> e_dispatched (F ev0) = true) ->
  (xo = Some tev \/ (0 < e_waiting ev0 -> 0 < e_waiting (F ev0))) ->
  ELc xp xo X (upd_nth tev F es) ss ts q.
Proof.
  intros xp xo X es ss ts q tev F ev0 [Hfl [Hp [Ho [Hm [Hm2 [Hv [Hz Hse]]]]]]] H0 Fn Fa Fd Fw.
  assert (Look : forall e ev, nth_error es e = Some ev -> exists ev', nth_error (upd_nth tev F es) e = Some ev' /\
            e_name ev' = e_name ev /\ (e_alert ev = true -> e_alert ev' = true) /\ (e_dispatched ev = true -> e_dispatched ev' = true)).
  { intros e ev He. destruct (Nat.eq_dec e tev) as [E|E].
    - subst e. rewrite H0 in He. inversion He. subst ev. exists (F ev0). split; [apply nth_error_upd_same; assumption|auto].
    - exists ev. split; [rewrite nth_error_upd_other by congruence; assumption|auto]. }
  elsplit.
  - intros sid st e ev Hs Ph Ev Ne Hev. destruct (Nat.eq_dec e tev) as [E|E].
    + subst e. rewrite (nth_error_upd_same F es tev ev0 H0) in Hev. inversion Hev. subst ev.
      destruct Fw as [Fw|Fw]; [congruence|]. destruct (Ho sid st tev ev0 Hs Ph Ev Ne H0) as [L|L]; [left; auto|right; assumption].
    + rewrite nth_error_upd_other in Hev by congruence. eauto.
  - intros sid st e Hs Ev. destruct (Hm sid st e Hs Ev) as [ev [A [B C]]]. destruct (Look e ev A) as [ev' [A' [B' [C' _]]]].
    exists ev'. split; [assumption|]. split; [congruence|auto].
  - intros sid st e Hs Ob. destruct (Hm2 sid st e Hs Ob) as [ev [A B]]. destruct (Look e ev A) as [ev' [A' [B' _]]].
    exists ev'. split; [assumption|congruence].
  - intros sid st Hs. destruct (Hz sid st Hs) as [ev [A B]]. destruct (Look _ ev A) as [ev' [A' [_ [_ D']]]]. exists ev'. auto.
Qed.

(* E3/E4: the task set *)
Lemma EL_tasks : forall xp xo X es ss ts ts' q, ELc xp xo X es ss ts q ->
  (forall sid st, nth_error ss sid = Some st -> s_ph st = Flagged ->
     In (mk_task (s_tevent st) (RWait sid) (Some (s_parent st))) ts -> In (mk_task (s_tevent st) (RWait sid) (Some (s_parent st))) ts') ->
  ELc xp xo X es ss ts' q.
Proof.
  intros xp xo X es ss ts ts' q [Hfl [Hp [Ho [Hm [Hm2 [Hv [Hz Hse]]]]]]] Sub. elsplit.
  intros sid st Hs Ph. apply (Sub sid st Hs Ph). apply Hfl; assumption.
Qed.

Definition keeps_all (R : wst -> wst) : Prop :=
  forall st, s_tevent (R st) = s_tevent st /\ s_parent (R st) = s_parent st /\ s_event (R st) = s_event st /\
             s_obj (R st) = s_obj st /\ s_name (R st) = s_name st.

(* E5: a wait state changes phase without becoming armed / seen / flagged *)
Lemma EL_wst_upd : forall xp xo X es ss ts q sid R st, ELc xp xo X es ss ts q -> nth_error ss sid = Some st -> keeps_all R ->
  (s_ph (R st) = Flagged -> s_ph st = Flagged) -> (s_ph (R st) = Armed -> s_ph st = Armed) -> (s_ph (R st) = Seen -> s_ph st = Seen) ->
  ELc xp xo X es (upd_nth sid R ss) ts q.
Proof.
  intros xp xo X es ss ts q sid R st [Hfl [Hp [Ho [Hm [Hm2 [Hv [Hz Hse]]]]]]] Hs K P1 P2 P3.
  destruct (K st) as [K1 [K2 [K3 [K4 K5]]]].
  assert (Back : forall s1 st1, nth_error (upd_nth sid R ss) s1 = Some st1 ->
     exists st0, nth_error ss s1 = Some st0 /\ s_tevent st1 = s_tevent st0 /\ s_parent st1 = s_parent st0 /\ s_event st1 = s_event st0 /\
                 s_obj st1 = s_obj st0 /\ s_name st1 = s_name st0 /\
                 (s_ph st1 = Flagged -> s_ph st0 = Flagged) /\ (s_ph st1 = Armed -> s_ph st0 = Armed) /\ (s_ph st1 = Seen -> s_ph st0 = Seen)).
  { intros s1 st1 H1. apply nth_error_upd_inv in H1. destruct H1 as [[E [x [A B]]]|[E A]].
    - subst s1 st1. rewrite Hs in A. inversion A. subst x. exists st. auto 12.
    - exists st1. auto 12. }
  elsplit.
  - intros s1 st1 H1 Ph. destruct (Back s1 st1 H1) as [st0 [B0 [B1 [B2 [B3 [B4 [B5 [B6 [B7 B8]]]]]]]]]. rewrite B1, B2. apply Hfl; auto.
  - intros s1 st1 e H1 Ph Ob Ne. destruct (Back s1 st1 H1) as [st0 [B0 [B1 [B2 [B3 [B4 [B5 [B6 [B7 B8]]]]]]]]]. apply (Hp s1 st0 e); auto. congruence.
  - intros s1 st1 e ev H1 Ph Ev Ne Hev. destruct (Back s1 st1 H1) as [st0 [B0 [B1 [B2 [B3 [B4 [B5 [B6 [B7 B8]]]]]]]]]. apply (Ho s1 st0 e ev); auto. congruence.
  - intros s1 st1 e H1 Ev. destruct (Back s1 st1 H1) as [st0 [B0 [B1 [B2 [B3 [B4 [B5 _]]]]]]]. rewrite B5. apply (Hm s1 st0 e); auto. congruence.
  - intros s1 st1 e H1 Ob. destruct (Back s1 st1 H1) as [st0 [B0 [B1 [B2 [B3 [B4 [B5 _]]]]]]]. rewrite B5. apply (Hm2 s1 st0 e); auto. congruence.
  - intros s1 st1 e s2 st2 H1 Ev H2 Te. destruct (Back s1 st1 H1) as [st0 [B0 [B1 [B2 [B3 _]]]]]. destruct (Back s2 st2 H2) as [st3 [C0 [C1 _]]].
    apply (Hv s1 st0 e s2 st3); auto; congruence.
  - intros s1 st1 H1. destruct (Back s1 st1 H1) as [st0 [B0 [B1 _]]]. rewrite B1. eauto.
  - intros s1 st1 H1 Ph. destruct (Back s1 st1 H1) as [st0 [B0 [B1 [B2 [B3 [B4 [B5 [B6 [B7 B8]]]]]]]]]. rewrite B3. eauto.
Qed.

(* E6: _on_event *)
Lemma EL_wst_seen : forall xp X es ss ts q sid st tok ev, ELc xp (Some tok) X es ss ts q -> nth_error ss sid = Some st ->
  nth_error es tok = Some ev -> e_name ev = s_name st -> e_alert ev = true ->
  (forall s' st', nth_error ss s' = Some st' -> s_tevent st' <> tok) ->
  ELc xp (Some tok) X es (upd_nth sid (wst_seen tok) ss) ts q.
Proof.
  intros xp X es ss ts q sid st tok ev [Hfl [Hp [Ho [Hm [Hm2 [Hv [Hz Hse]]]]]]] Hs He Nm Al NoT.
  assert (Back : forall s1 st1, nth_error (upd_nth sid (wst_seen tok) ss) s1 = Some st1 ->
     (s1 = sid /\ st1 = wst_seen tok st) \/ (s1 <> sid /\ nth_error ss s1 = Some st1)).
  { intros s1 st1 H1. apply nth_error_upd_inv in H1. destruct H1 as [[E [x [A B]]]|[E A]].
    - left. subst. rewrite Hs in A. inversion A. auto.
    - right. auto. }
  elsplit.
  - intros s1 st1 H1 Ph. destruct (Back s1 st1 H1) as [[E1 E2]|[E1 E2]]; [subst; discriminate|auto].
  - intros s1 st1 e H1 Ph Ob Ne. destruct (Back s1 st1 H1) as [[E1 E2]|[E1 E2]]; [subst; discriminate|eauto].
  - intros s1 st1 e ev' H1 Ph Ev Ne Hev. destruct (Back s1 st1 H1) as [[E1 E2]|[E1 E2]]; [subst; simpl in Ev; congruence|eauto].
  - intros s1 st1 e H1 Ev. destruct (Back s1 st1 H1) as [[E1 E2]|[E1 E2]]; [|eauto].
    subst. simpl in Ev. inversion Ev; subst. exists ev. auto.
  - intros s1 st1 e H1 Ob. destruct (Back s1 st1 H1) as [[E1 E2]|[E1 E2]]; [subst; simpl in *; eauto|eauto].
  - intros s1 st1 e s2 st2 H1 Ev H2 Te.
    assert (T2 : exists st3, nth_error ss s2 = Some st3 /\ s_tevent st3 = e).
    { destruct (Back s2 st2 H2) as [[E1 E2]|[E1 E2]]; [subst; exists st; auto|exists st2; auto]. }
    destruct T2 as [st3 [T2 T3]].
    destruct (Back s1 st1 H1) as [[E1 E2]|[E1 E2]].
    + subst s1 st1. simpl in Ev. exfalso. apply (NoT s2 st3 T2). congruence.
    + apply (Hv s1 st1 e s2 st3); auto.
  - intros s1 st1 H1. destruct (Back s1 st1 H1) as [[E1 E2]|[E1 E2]]; [subst; simpl; eauto|eauto].
  - intros s1 st1 H1 Ph. destruct (Back s1 st1 H1) as [[E1 E2]|[E1 E2]]; [subst; simpl; discriminate|eauto].
Qed.

(* E7: _on_done *)
Lemma EL_wst_flag : forall xp xo X es ss ts q sid st, ELc xp xo X es ss ts q -> nth_error ss sid = Some st ->
  In (mk_task (s_tevent st) (RWait sid) (Some (s_parent st))) ts ->
  ELc xp xo X es (upd_nth sid (wst_phase Flagged) ss) ts q.
Proof.
  intros xp xo X es ss ts q sid st [Hfl [Hp [Ho [Hm [Hm2 [Hv [Hz Hse]]]]]]] Hs Hin.
  assert (Back : forall s1 st1, nth_error (upd_nth sid (wst_phase Flagged) ss) s1 = Some st1 ->
     (s1 = sid /\ st1 = wst_phase Flagged st) \/ (s1 <> sid /\ nth_error ss s1 = Some st1)).
  { intros s1 st1 H1. apply nth_error_upd_inv in H1. destruct H1 as [[E [x [A B]]]|[E A]].
    - left. subst. rewrite Hs in A. inversion A. auto.
    - right. auto. }
  elsplit.
  - intros s1 st1 H1 Ph. destruct (Back s1 st1 H1) as [[E1 E2]|[E1 E2]]; [subst; simpl; assumption|auto].
  - intros s1 st1 e H1 Ph Ob Ne. destruct (Back s1 st1 H1) as [[E1 E2]|[E1 E2]]; [subst; discriminate|eauto].
  - intros s1 st1 e ev' H1 Ph Ev Ne Hev. destruct (Back s1 st1 H1) as [[E1 E2]|[E1 E2]]; [subst; discriminate|eauto].
  - intros s1 st1 e H1 Ev. destruct (Back s1 st1 H1) as [[E1 E2]|[E1 E2]]; [subst; simpl in *; eauto|eauto].
  - intros s1 st1 e H1 Ob. destruct (Back s1 st1 H1) as [[E1 E2]|[E1 E2]]; [subst; simpl in *; eauto|eauto].
  - intros s1 st1 e s2 st2 H1 Ev H2 Te.
    assert (T1 : exists st0, nth_error ss s1 = Some st0 /\ s_event st0 = Some e).
    { destruct (Back s1 st1 H1) as [[E1 E2]|[E1 E2]]; [subst; exists st; auto|exists st1; auto]. }
    assert (T2 : exists st3, nth_error ss s2 = Some st3 /\ s_tevent st3 = e).
    { destruct (Back s2 st2 H2) as [[E1 E2]|[E1 E2]]; [subst; exists st; auto|exists st2; auto]. }
    destruct T1 as [st0 [A1 A2]]. destruct T2 as [st3 [A3 A4]]. apply (Hv s1 st0 e s2 st3); auto.
  - intros s1 st1 H1. destruct (Back s1 st1 H1) as [[E1 E2]|[E1 E2]]; [subst; simpl; eauto|eauto].
  - intros s1 st1 H1 Ph. destruct (Back s1 st1 H1) as [[E1 E2]|[E1 E2]]; [subst; discriminate|eauto].
Qed.

(* E8: a new wait is installed *)
Lemma EL_wst_new : forall xp xo X es ss ts q nw, ELc xp xo X es ss ts q ->
  s_ph nw = Armed -> s_event nw = None ->
  (forall e, s_obj nw = Some e -> In (QUser e) (X ++ q) /\ exists ev, nth_error es e = Some ev /\ e_name ev = s_name nw) ->
  (exists ev, nth_error es (s_tevent nw) = Some ev /\ e_dispatched ev = true) ->
  ELc xp xo X es (ss ++ [nw]) ts q.
Proof.
  intros xp xo X es ss ts q nw [Hfl [Hp [Ho [Hm [Hm2 [Hv [Hz Hse]]]]]]] N1 N2 N3 N4.
  elsplit.
  - intros s1 st1 H1 Ph. apply nth_error_snoc in H1. destruct H1 as [[H1 _]|[_ E]]; [auto|subst; congruence].
  - intros s1 st1 e H1 Ph Ob Ne. apply nth_error_snoc in H1. destruct H1 as [[H1 _]|[_ E]]; [eauto|]. subst. apply N3. assumption.
  - intros s1 st1 e ev H1 Ph Ev Ne Hev. apply nth_error_snoc in H1. destruct H1 as [[H1 _]|[_ E]]; [eauto|subst; congruence].
  - intros s1 st1 e H1 Ev. apply nth_error_snoc in H1. destruct H1 as [[H1 _]|[_ E]]; [eauto|subst; congruence].
  - intros s1 st1 e H1 Ob. apply nth_error_snoc in H1. destruct H1 as [[H1 _]|[_ E]]; [eauto|]. subst. apply N3. assumption.
  - intros s1 st1 e s2 st2 H1 Ev H2 Te. apply nth_error_snoc in H1. destruct H1 as [[H1 L1]|[_ E]]; [|subst; congruence].
    apply nth_error_snoc in H2. destruct H2 as [[H2 _]|[L2 _]]; [eauto|lia].
  - intros s1 st1 H1. apply nth_error_snoc in H1. destruct H1 as [[H1 _]|[_ E]]; [eauto|subst; assumption].
  - intros s1 st1 H1 Ph. apply nth_error_snoc in H1. destruct H1 as [[H1 _]|[_ E]]; [eauto|subst; congruence].
Qed.

(* E9: the head of the pending items is taken *)
Definition pexc (x : qitem) : option nat := match x with QUser t => Some t | _ => None end.
Definition oexc (x : qitem) : option nat := match x with QDone t => Some t | _ => None end.

Lemma EL_pop : forall x X es ss ts q, ELc None None (x :: X) es ss ts q -> ELc (pexc x) (oexc x) X es ss ts q.
Proof.
  intros x X es ss ts q [Hfl [Hp [Ho [Hm [Hm2 [Hv [Hz Hse]]]]]]]. elsplit.
  - intros sid st e Hs Ph Ob Ne. assert (N : Some e <> None) by discriminate.
    destruct (Hp sid st e Hs Ph Ob N) as [E|E]; [|assumption]. subst x. simpl in Ne. congruence.
  - intros sid st e ev Hs Ph Ev Ne Hev. assert (N : Some e <> None) by discriminate.
    destruct (Ho sid st e ev Hs Ph Ev N Hev) as [L|[E|E]]; [left; assumption| |right; assumption]. subst x. simpl in Ne. congruence.
Qed.

(* weaken the exceptions *)
Lemma EL_weaken : forall xp xo xp' xo' X es ss ts q, ELc xp xo X es ss ts q ->
  (xp = None \/ xp = xp') -> (xo = None \/ xo = xo') -> ELc xp' xo' X es ss ts q.
Proof.
  intros xp xo xp' xo' X es ss ts q [Hfl [Hp [Ho [Hm [Hm2 [Hv [Hz Hse]]]]]]] A B. elsplit.
  - intros sid st e Hs Ph Ob Ne. apply (Hp sid st e); auto. destruct A; subst; [discriminate|assumption].
  - intros sid st e ev Hs Ph Ev Ne Hev. apply (Ho sid st e ev); auto. destruct B; subst; [discriminate|assumption].
Qed.

(* E11: the exceptions are discharged *)
Lemma EL_close : forall xp xo X es ss ts q, ELc xp xo X es ss ts q ->
  (forall sid st e, xp = Some e -> nth_error ss sid = Some st -> s_ph st = Armed -> s_obj st = Some e -> In (QUser e) (X ++ q)) ->
  (forall sid st e ev, xo = Some e -> nth_error ss sid = Some st -> s_ph st = Seen -> s_event st = Some e -> nth_error es e = Some ev ->
     0 < e_waiting ev \/ In (QDone e) (X ++ q)) ->
  ELc None None X es ss ts q.
Proof.
  intros xp xo X es ss ts q [Hfl [Hp [Ho [Hm [Hm2 [Hv [Hz Hse]]]]]]] A B. elsplit.
  - intros sid st e Hs Ph Ob _. destruct xp as [e'|]; [destruct (Nat.eq_dec e e') as [E|E]|].
    + subst. eapply A; eauto.
    + apply (Hp sid st e); auto. congruence.
    + apply (Hp sid st e); auto. discriminate.
  - intros sid st e ev Hs Ph Ev _ Hev. destruct xo as [e'|]; [destruct (Nat.eq_dec e e') as [E|E]|].
    + subst. eapply B; eauto.
    + apply (Ho sid st e ev); auto. congruence.
    + apply (Ho sid st e ev); auto. discriminate.
Qed.

Lemma run_steps_wait : forall sts tok hi k w w' nm obj tmo cv k' rest,
  run_steps tok hi k sts w = (w', GWait nm obj tmo cv, k', rest) ->
  forall t, obj = Some t -> In (QUser t) (queue w') /\ nth_error (evs w') t = Some (new_evt nm).
Proof.
  induction sts as [|s sts IH]; intros tok hi k w w' nm obj tmo cv k' rest H t Ht; simpl in H; [discriminate|].
  destruct s as [v|nm0 tmo0|nm0|nm0 tmo0 fire| |nm0]; try discriminate.
  - subst obj. inversion H; subst. simpl. split.
    + apply in_app_iff. right. left. reflexivity.
    + rewrite nth_error_app2 by lia. rewrite Nat.sub_diag. reflexivity.
  - subst obj. inversion H; subst. simpl. split.
    + apply in_app_iff. right. left. reflexivity.
    + rewrite nth_error_app2 by lia. rewrite Nat.sub_diag. reflexivity.
  - destruct fire; inversion H; subst; discriminate.
  - eapply IH; eauto.
Qed.

Lemma gen_resume_wait : forall gid how w w1 nm obj tmo cv, gen_resume gid how w = (w1, GWait nm obj tmo cv) ->
  forall t, obj = Some t -> In (QUser t) (queue w1) /\ nth_error (evs w1) t = Some (new_evt nm).
Proof.
  intros gid how w w1 nm obj tmo cv H t Ht. unfold gen_resume in H.
  destruct (nth_error (gens w) gid) as [gn|]; [|discriminate].
  destruct (g_rest gn) as [sts|]; [|destruct how; discriminate].
  set (w0 := match how with
             | RNext => if g_atcall gn then set_bad w else w
             | RSend _ => if g_atcall gn then w else set_bad w
             | RThrow => if g_atcall gn then w else set_bad w end) in *.
  destruct how as [|e|].
  - destruct (run_steps (g_tok gn) (g_hi gn) (g_k gn) sts w0) as [[[w2 r2] k2] rest2] eqn:Run.
    injection H as Hw Hr. subst w1 r2. exact (run_steps_wait _ _ _ _ _ _ _ _ _ _ _ _ Run t Ht).
  - destruct (nth_error (evs w0) e) as [ev|].
    + destruct (run_steps (g_tok gn) (g_hi gn) (g_k gn) sts _) as [[[w2 r2] k2] rest2] eqn:Run.
      injection H as Hw Hr. subst w1 r2. exact (run_steps_wait _ _ _ _ _ _ _ _ _ _ _ _ Run t Ht).
    + destruct (run_steps (g_tok gn) (g_hi gn) (g_k gn) sts _) as [[[w2 r2] k2] rest2] eqn:Run.
      injection H as Hw Hr. subst w1 r2. exact (run_steps_wait _ _ _ _ _ _ _ _ _ _ _ _ Run t Ht).
  - destruct (g_catch gn); [|discriminate].
    destruct (run_steps (g_tok gn) (g_hi gn) (g_k gn) sts _) as [[[w2 r2] k2] rest2] eqn:Run.
    injection H as Hw Hr. subst w1 r2. exact (run_steps_wait _ _ _ _ _ _ _ _ _ _ _ _ Run t Ht).
Qed.

Lemma EL_close_o : forall xp xo X es ss ts q, ELc xp xo X es ss ts q ->
  (forall sid st e ev, xo = Some e -> nth_error ss sid = Some st -> s_ph st = Seen -> s_event st = Some e -> nth_error es e = Some ev ->
     0 < e_waiting ev \/ In (QDone e) (X ++ q)) ->
  ELc xp None X es ss ts q.
Proof.
  intros xp xo X es ss ts q [Hfl [Hp [Ho [Hm [Hm2 [Hv [Hz Hse]]]]]]] B. elsplit.
  intros sid st e ev Hs Ph Ev _ Hev. destruct xo as [e'|]; [destruct (Nat.eq_dec e e') as [E|E]|].
  - subst. eapply B; eauto.
  - apply (Ho sid st e ev); auto. congruence.
  - apply (Ho sid st e ev); auto. discriminate.
Qed.

Lemma EL_close_p : forall xp xo X es ss ts q, ELc xp xo X es ss ts q ->
  (forall sid st e, xp = Some e -> nth_error ss sid = Some st -> s_ph st = Armed -> s_obj st = Some e -> In (QUser e) (X ++ q)) ->
  ELc None xo X es ss ts q.
Proof.
  intros xp xo X es ss ts q [Hfl [Hp [Ho [Hm [Hm2 [Hv [Hz Hse]]]]]]] A. elsplit.
  intros sid st e Hs Ph Ob _. destruct xp as [e'|]; [destruct (Nat.eq_dec e e') as [E|E]|].
  - subst. eapply A; eauto.
  - apply (Hp sid st e); auto. congruence.
  - apply (Hp sid st e); auto. discriminate.
Qed.

Lemma waiting_nonneg : forall X w tok ev, EX X w -> nth_error (evs w) tok = Some ev -> 0 <= e_waiting ev.
Proof. intros X w tok ev [_ [_ [_ [_ [_ [Hcnt _]]]]]] H. rewrite (Hcnt tok ev H). lia. Qed.

(* _eventDone discharges the exception for its event *)
Lemma event_done_waiting : forall w tok err ev, nth_error (evs w) tok = Some ev ->
  exists ev', nth_error (evs (event_done tok err w)) tok = Some ev' /\ e_waiting ev' = e_waiting ev.
Proof.
  intros w tok err ev H0. unfold event_done. rewrite H0. destruct (e_waiting ev =? 0); [|eauto].
  exists (inc_gate ev). split; [|reflexivity].
  destruct (e_alert ev); destruct (err || e_errors ev); simpl; apply nth_error_upd_same; assumption.
Qed.

Lemma event_done_EL : forall xp X w tok err ev, 0 <= e_waiting ev -> EL xp (Some tok) X w -> nth_error (evs w) tok = Some ev ->
  EL xp None X (event_done tok err w).
Proof.
  intros xp X w tok err ev NN HL H0.
  unfold event_done. rewrite H0. destruct (e_waiting ev =? 0) eqn:W.
  - apply Z.eqb_eq in W.
    set (qs := (if e_alert ev then [QDone tok] else []) ++ (if err || e_errors ev then [] else [QSucc tok])).
    assert (P : ELc xp (Some tok) X (upd_nth tok inc_gate (evs w)) (wsts w) (tasks w) (queue w ++ qs)).
    { pose proof (EL_evt xp (Some tok) X _ _ _ _ tok inc_gate ev HL H0 eq_refl (fun a => a) (fun a => a) (or_introl eq_refl)) as P1.
      pose proof (EL_ext _ _ _ _ _ _ _ [] qs P1) as P2. rewrite app_nil_r in P2. exact P2. }
    assert (P' : ELc xp None X (upd_nth tok inc_gate (evs w)) (wsts w) (tasks w) (queue w ++ qs)).
    { apply (EL_close_o _ _ _ _ _ _ _ P). intros sid st e ev' E Hs Ph Ev Hev. inversion E. subst e.
      destruct HL as [_ [_ [_ [Hm _]]]]. destruct (Hm sid st tok Hs Ev) as [ev0 [A [_ Al]]]. rewrite H0 in A. inversion A. subst ev0.
      right. rewrite app_assoc. apply in_app_iff. right. unfold qs. rewrite Al. left. reflexivity. }
    unfold EL. unfold qs in P'. destruct (e_alert ev); destruct (err || e_errors ev); simpl in *; rewrite ?app_nil_r in P'; try rewrite <- app_assoc; exact P'.
  - apply Z.eqb_neq in W. apply (EL_close_o _ _ _ _ _ _ _ HL). intros sid st e ev' E Hs Ph Ev Hev. inversion E. subst e.
    rewrite H0 in Hev. inversion Hev. subst ev'. left. lia.
Qed.

Lemma keeps_all_resumed : keeps_all wst_resumed. Proof. intro s. simpl. auto. Qed.
Lemma keeps_all_thrown : keeps_all wst_thrown. Proof. intro s. simpl. auto. Qed.
Lemma keeps_all_timeout : keeps_all wst_timeout. Proof. intro s. simpl. auto. Qed.
Lemma keeps_all_tick : keeps_all wst_tick. Proof. intro s. simpl. auto. Qed.

Lemma pos_of_task : forall X w tev ev t, EX X w -> nth_error (evs w) tev = Some ev -> In t (tasks w) -> gen_for tev t = true ->
  0 < e_waiting ev.
Proof.
  intros X w tev ev t [_ [_ [_ [_ [_ [Hcnt _]]]]]] H Hin G. rewrite (Hcnt tev ev H). pose proof (cnt_pos_gen tev _ t Hin G). lia.
Qed.

Lemma cont_EL : forall X w w0 sid st R t how tev p,
  EX X w -> EL None None X w ->
  nth_error (wsts w) sid = Some st -> owning st = true -> s_parent st = p -> s_tevent st = tev ->
  keeps_all R -> s_ph (R st) = Dead ->
  (forall s st', nth_error (wsts w) s = Some st' -> s <> sid -> mk_task (s_tevent st') (RWait s) (Some (s_parent st')) <> t) ->
  evs w0 = evs w -> gens w0 = gens w -> wsts w0 = upd_nth sid R (wsts w) ->
  tasks w0 = filter (fun u => negb (task_eqb t u)) (tasks w) -> queue w0 = queue w ->
  EX X (continue_parent tev p how w0) ->
  EL None None X (continue_parent tev p how w0).
Proof.
  intros X w w0 sid st R t how tev p HX HL Hs Ow Pg Te K Pd Nt E1 E2 E3 E4 E5 HXf.
  pose proof HX as [Hq [Hgi [Htask [Hwst [Hown [Hcnt [Hgate _]]]]]]].
  destruct (Hown sid st Hs Ow) as [[gn [A1 [A2 A3]]] [NoG Uq]]. rewrite Pg in A1, NoG. rewrite Te in A2.
  destruct (Hwst sid st Hs) as [W1 _]. rewrite Te in W1.
  destruct (nth_error (evs w) tev) as [ev0|] eqn:H0; [|apply nth_error_None in H0; lia].
  revert HXf. unfold continue_parent. destruct (gen_resume p how w0) as [w1 r] eqn:GR. intro HXf.
  assert (A1' : nth_error (gens w0) p = Some gn) by (rewrite E2; exact A1).
  destruct (gen_resume_spec p how w0 w1 r gn GR A1') as [nms [ls [f [Ext _]]]].
  destruct Ext as [_ [X2 [X3 [X4 [X5 X6]]]]]. rewrite E1 in X4, X5. rewrite E3 in X2. rewrite E4 in X3. rewrite E5 in X5.
  set (esA := evs w ++ map new_evt nms) in *. set (qA := queue w ++ map QUser (seq (length (evs w)) (length nms))) in *.
  assert (H0A : nth_error esA tev = Some ev0) by (apply nth_error_app_old; assumption).
  (* extension, the wait consumed, its task removed *)
  pose proof (EL_ext None None X _ _ _ _ (map new_evt nms) (map QUser (seq (length (evs w)) (length nms))) HL) as PA.
  fold esA qA in PA.
  assert (PB : ELc None None X esA (upd_nth sid R (wsts w)) (tasks w) qA).
  { apply (EL_wst_upd None None X esA _ _ qA sid R st PA Hs K); rewrite Pd; discriminate. }
  assert (PC : ELc None None X esA (upd_nth sid R (wsts w)) (filter (fun u => negb (task_eqb t u)) (tasks w)) qA).
  { apply (EL_tasks _ _ _ _ _ _ _ _ PB). intros s st' Hs' Ph Hin. apply In_unreg. split; [assumption|].
    apply nth_error_upd_inv in Hs'. destruct Hs' as [[E [x [A B]]]|[E A]].
    - subst s st'. rewrite Hs in A. inversion A. subst x. rewrite Pd in Ph. discriminate.
    - apply (Nt s st' A). congruence. }
  assert (Zt : exists ev, nth_error esA tev = Some ev /\ e_dispatched ev = true).
  { destruct HL as [_ [_ [_ [_ [_ [_ [Hz _]]]]]]]. destruct (Hz sid st Hs) as [ev [B1 B2]]. rewrite Te in B1. exists ev.
    split; [apply nth_error_app_old; assumption|assumption]. }
  destruct r as [v|nm obj tmo cv| |].
  - (* plain yield: the handler goes on as a task *)
    set (Fv := fun e => add_oval v (add_wait (-1) e)).
    assert (P1 : ELc None (Some tev) X (upd_nth tev Fv esA) (upd_nth sid R (wsts w))
                   (filter (fun u => negb (task_eqb t u)) (tasks w)) qA).
    { apply (EL_evt None (Some tev) X esA _ _ qA tev Fv ev0); auto.
      - apply (EL_weaken None None _ _ _ _ _ _ _ PC); auto.
      - unfold Fv. destruct v; reflexivity.
      - unfold Fv. destruct v; simpl; auto.
      - unfold Fv. destruct v; simpl; auto. }
    set (tn := mk_task tev (RGen p) None).
    assert (Nin : ~ In tn (tasks (mod_evt tev Fv w1))).
    { simpl. rewrite X3. intro Hin. apply In_unreg in Hin. destruct Hin as [Hin _]. apply (NoG _ Hin). reflexivity. }
    assert (Tk : tasks (reg_task tn (mod_evt tev Fv w1)) = filter (fun u => negb (task_eqb t u)) (tasks w) ++ [tn]).
    { rewrite (reg_task_new _ _ Nin). simpl. rewrite X3. reflexivity. }
    assert (P2 : ELc None (Some tev) X (upd_nth tev Fv esA) (upd_nth sid R (wsts w))
                   (filter (fun u => negb (task_eqb t u)) (tasks w) ++ [tn]) qA).
    { apply (EL_tasks _ _ _ _ _ _ _ _ P1). intros. apply in_app_iff. left. assumption. }
    unfold EL. rewrite reg_task_evs, reg_task_wsts, Tk, reg_task_queue. simpl. rewrite X4, X2, X5.
    apply (EL_close_o _ _ _ _ _ _ _ P2). intros s st' e ev' E Hs' Ph Ev Hev. inversion E. subst e. left.
    apply (pos_of_task X (reg_task tn (mod_evt tev Fv w1)) tev ev' tn HXf).
    + rewrite reg_task_evs. simpl. rewrite X4. exact Hev.
    + rewrite Tk. apply in_app_iff. right. left. reflexivity.
    + unfold tn. rewrite gen_for_gen. apply Nat.eqb_refl.
  - (* another call/wait *)
    destruct Zt as [evz [Z1 Z2]].
    assert (P1 : ELc None None X esA (upd_nth sid R (wsts w) ++ [new_wst nm obj tmo cv tev p])
                   (filter (fun u => negb (task_eqb t u)) (tasks w)) qA).
    { apply (EL_wst_new None None X esA _ _ qA _ PC); simpl; try reflexivity.
      - intros e Ob. destruct (gen_resume_wait p how w0 w1 nm obj tmo cv GR e Ob) as [G1 G2]. rewrite X5 in G1. rewrite X4 in G2.
        split; [apply in_app_iff; right; exact G1|]. exists (new_evt nm). auto.
      - exists evz. auto. }
    unfold EL. rewrite install_evs, install_wsts, install_tasks, install_queue. rewrite X4, X2, X3, X5. exact P1.
  - (* returns: one more step as a task *)
    assert (P1 : ELc None (Some tev) X (upd_nth tev (add_wait (-1)) esA) (upd_nth sid R (wsts w))
                   (filter (fun u => negb (task_eqb t u)) (tasks w)) qA).
    { apply (EL_evt None (Some tev) X esA _ _ qA tev (add_wait (-1)) ev0); auto.
      apply (EL_weaken None None _ _ _ _ _ _ _ PC); auto. }
    set (tn := mk_task tev (RGen p) None).
    assert (Nin : ~ In tn (tasks (mod_evt tev (add_wait (-1)) w1))).
    { simpl. rewrite X3. intro Hin. apply In_unreg in Hin. destruct Hin as [Hin _]. apply (NoG _ Hin). reflexivity. }
    assert (Tk : tasks (reg_task tn (mod_evt tev (add_wait (-1)) w1)) = filter (fun u => negb (task_eqb t u)) (tasks w) ++ [tn]).
    { rewrite (reg_task_new _ _ Nin). simpl. rewrite X3. reflexivity. }
    assert (P2 : ELc None (Some tev) X (upd_nth tev (add_wait (-1)) esA) (upd_nth sid R (wsts w))
                   (filter (fun u => negb (task_eqb t u)) (tasks w) ++ [tn]) qA).
    { apply (EL_tasks _ _ _ _ _ _ _ _ P1). intros. apply in_app_iff. left. assumption. }
    unfold EL. rewrite reg_task_evs, reg_task_wsts, Tk, reg_task_queue. simpl. rewrite X4, X2, X5.
    apply (EL_close_o _ _ _ _ _ _ _ P2). intros s st' e ev' E Hs' Ph Ev Hev. inversion E. subst e. left.
    apply (pos_of_task X (reg_task tn (mod_evt tev (add_wait (-1)) w1)) tev ev' tn HXf).
    + rewrite reg_task_evs. simpl. rewrite X4. exact Hev.
    + rewrite Tk. apply in_app_iff. right. left. reflexivity.
    + unfold tn. rewrite gen_for_gen. apply Nat.eqb_refl.
  - (* raises *)
    set (Fr := fun e => add_wait (-2) (add_err e)).
    set (w2 := mod_evt tev Fr w1).
    assert (P1 : EL None (Some tev) X w2).
    { unfold EL, w2. simpl. rewrite X4, X2, X3, X5.
      apply (EL_evt None (Some tev) X esA _ _ qA tev Fr ev0); auto.
      apply (EL_weaken None None _ _ _ _ _ _ _ PC); auto. }
    assert (H2 : nth_error (evs w2) tev = Some (Fr ev0)).
    { unfold w2. simpl. rewrite X4. apply nth_error_upd_same. exact H0A. }
    destruct (event_done_waiting w2 tev true _ H2) as [ev' [H3 W3]].
    apply (event_done_EL None X w2 tev true (Fr ev0)); [|exact P1|exact H2].
    rewrite <- W3. apply (waiting_nonneg X _ tev ev' HXf H3).
Qed.

Lemma ptask_body_EL : forall X t w, Full X w -> EL None None X w -> In t (tasks w) -> EL None None X (ptask_body t w).
Proof.
  intros X t w HF HL Hin. destruct (ptask_body_EX X t w HF Hin) as [_ HXf]. destruct HF as [B0 [HI HX]].
  pose proof HX as [Hq [Hgi [Htask [Hwst [Hown [Hcnt [Hgate _]]]]]]].
  pose proof HI as [I1 [I2 [I3 [I4 I5]]]]. pose proof (I5 t Hin) as Tok. unfold task_ok in Tok.
  revert HXf. unfold ptask_body. destruct (t_ref t) as [g|sid|sid] eqn:R.
  - destruct (Htask t Hin) as [Tr Tg]. destruct (Tg g R) as [gn [Hg [Gt Ga]]]. set (tev := t_ev t) in *.
    assert (Teq : mk_task tev (RGen g) None = t). { apply task_ext; simpl; [reflexivity|congruence|congruence]. }
    destruct (nth_error (evs w) tev) as [ev0|] eqn:H0; [|apply nth_error_None in H0; lia].
    assert (Gf : gen_for tev t = true). { unfold gen_for. fold tev. rewrite Nat.eqb_refl, R. reflexivity. }
    destruct (active_gate _ _ _ tev ev0 Hcnt Hgate H0) as [D G]. { pose proof (cnt_pos_gen tev _ t Hin Gf). lia. }
    destruct (gen_resume g RNext w) as [w1 r] eqn:GR.
    destruct (gen_resume_spec g RNext w w1 r gn GR Hg) as [nms [ls [f [Ext _]]]].
    destruct Ext as [_ [X2 [X3 [X4 [X5 X6]]]]].
    set (esA := evs w ++ map new_evt nms) in *. set (qA := queue w ++ map QUser (seq (length (evs w)) (length nms))) in *.
    assert (H0A : nth_error esA tev = Some ev0) by (apply nth_error_app_old; assumption).
    pose proof (EL_ext None None X _ _ _ _ (map new_evt nms) (map QUser (seq (length (evs w)) (length nms))) HL) as PA.
    fold esA qA in PA.
    assert (Rm : forall ts', (forall u, In u (tasks w) -> u <> t -> In u ts') ->
              forall xo es', ELc None xo X es' (wsts w) (tasks w) qA -> ELc None xo X es' (wsts w) ts' qA).
    { intros ts' Sub xo es' P. apply (EL_tasks _ _ _ _ _ _ _ _ P). intros s st' Hs' Ph Hi. apply Sub; [assumption|].
      intro E. rewrite <- E in R. discriminate. }
    destruct r as [v|nm obj tmo cv| |]; intro HXf.
    + unfold EL. simpl. rewrite X4, X2, X3, X5.
      apply (EL_evt None None X esA _ _ qA tev (add_oval v) ev0 PA H0A); try (destruct v; reflexivity); try (destruct v; simpl; auto).
    + unfold EL. rewrite install_evs, install_wsts, install_tasks, install_queue. simpl. rewrite Teq, X4, X2, X3, X5.
      apply (EL_wst_new None None X _ _ _ qA); simpl; try reflexivity.
      * apply Rm; [intros u Hu Ne; apply In_unreg; auto|].
        apply (EL_evt None None X esA _ _ qA tev (add_wait 1) ev0 PA H0A); auto. right. simpl. lia.
      * intros e Ob. destruct (gen_resume_wait g RNext w w1 nm obj tmo cv GR e Ob) as [G1 G2]. rewrite X5 in G1. rewrite X4 in G2.
        split; [apply in_app_iff; right; exact G1|]. exists (new_evt nm).
        split; [|reflexivity]. rewrite nth_error_upd_other; [exact G2|]. intro E. subst e. fold esA in G2. rewrite H0A in G2.
        inversion G2. subst ev0. simpl in D. discriminate.
      * exists (add_wait 1 ev0). split; [apply nth_error_upd_same; assumption|assumption].
    + rewrite Tok in *.
      set (w2 := unreg_task t (mod_evt tev (add_wait (-1)) w1)) in *.
      assert (P1 : EL None (Some tev) X w2).
      { unfold EL, w2. simpl. rewrite X4, X2, X3, X5. apply Rm; [intros u Hu Ne; apply In_unreg; auto|].
        apply (EL_evt None (Some tev) X esA _ _ qA tev (add_wait (-1)) ev0); auto. apply (EL_weaken None None _ _ _ _ _ _ _ PA); auto. }
      assert (H2 : nth_error (evs w2) tev = Some (add_wait (-1) ev0)).
      { unfold w2. simpl. rewrite X4. apply nth_error_upd_same. exact H0A. }
      destruct (event_done_waiting w2 tev false _ H2) as [ev' [H3 W3]].
      apply (event_done_EL None X w2 tev false (add_wait (-1) ev0)); [|exact P1|exact H2]. rewrite <- W3. apply (waiting_nonneg X _ tev ev' HXf H3).
    + set (d := match t_parent t with Some _ => -2 | None => -1 end) in *.
      set (w2 := mod_evt tev (fun e => add_wait d (add_err e)) (unreg_task t w1)) in *.
      assert (P1 : EL None (Some tev) X w2).
      { unfold EL, w2. simpl. rewrite X4, X2, X3, X5. apply Rm; [intros u Hu Ne; apply In_unreg; auto|].
        apply (EL_evt None (Some tev) X esA _ _ qA tev (fun e => add_wait d (add_err e)) ev0); auto.
        apply (EL_weaken None None _ _ _ _ _ _ _ PA); auto. }
      assert (H2 : nth_error (evs w2) tev = Some (add_wait d (add_err ev0))).
      { unfold w2. simpl. rewrite X4. apply (nth_error_upd_same (fun e => add_wait d (add_err e))). exact H0A. }
      destruct (event_done_waiting w2 tev true _ H2) as [ev' [H3 W3]].
      apply (event_done_EL None X w2 tev true (add_wait d (add_err ev0))); [|exact P1|exact H2]. rewrite <- W3. apply (waiting_nonneg X _ tev ev' HXf H3).
  - destruct Tok as [st [Hs [Ph Tq]]]. rewrite Hs.
    pose proof (I3 sid st Hs) as [O1 O2 O3 O4 O5 O6 O7 O8 O9].
    assert (Hd : In (THDone sid) (ths w)). { apply O2. rewrite Ph. discriminate. }
    apply has_th_In in Hd. rewrite Hd.
    pose proof HX as [_ [_ [_ [_ [_ [_ [_ [_ [_ [_ [Hfl _]]]]]]]]]]].
    destruct (Hfl sid st Hs Ph) as [e [ev [Ev _]]]. rewrite Ev.
    assert (Tp : t_parent t = Some (s_parent st)) by (rewrite Tq; reflexivity). rewrite Tp.
    assert (Ow : owning st = true). { unfold owning. rewrite Ph in O7. simpl in O7. apply Nat.eqb_eq. lia. }
    replace (t_ev t) with (s_tevent st) by (rewrite Tq; reflexivity).
    intro HXf.
    apply (cont_EL X w _ sid st wst_resumed t (RSend e) (s_tevent st) (s_parent st)); try reflexivity; try assumption.
    + apply keeps_all_resumed.
    + intros s st' Hs' Ne E. rewrite Tq in E. inversion E. contradiction.
  - destruct Tok as [st [Hs Tq]]. assert (Tp : t_parent t = Some (s_parent st)) by (rewrite Tq; reflexivity). rewrite Tp.
    pose proof (I3 sid st Hs) as [O1 O2 O3 O4 O5 O6 O7 O8 O9].
    assert (Rt : is_rt sid t = true). { unfold is_rt. rewrite R. simpl. apply Nat.eqb_refl. }
    assert (C1 : (1 <= count_rt sid (tasks w))%nat).
    { unfold count_rt. clear -Hin Rt. induction (tasks w) as [|x r IH]; [destruct Hin|]. simpl.
      destruct Hin as [E|E]; [subst; rewrite Rt; simpl; lia|]. destruct (is_rt sid x); simpl; [lia|auto]. }
    assert (Ow : owning st = true). { unfold owning. apply Nat.eqb_eq. lia. }
    assert (Pd : s_ph st = Dead). { destruct (s_ph st); simpl in O7; try lia. reflexivity. }
    replace (t_ev t) with (s_tevent st) by (rewrite Tq; reflexivity).
    intro HXf.
    apply (cont_EL X w _ sid st wst_thrown t RThrow (s_tevent st) (s_parent st)); try reflexivity; try assumption.
    + apply keeps_all_thrown.
    + intros s st' Hs' Ne E. rewrite Tq in E. inversion E.
Qed.

Lemma ptask_EL : forall X t w, Full X w -> EL None None X w -> In t (tasks w) -> EL None None X (ptask t w).
Proof.
  intros X t w HF HL Hin. unfold ptask. destruct HF as [B R]. rewrite B. apply ptask_body_EL; [split; assumption|assumption|assumption].
Qed.

Lemma fold_ptask_EL : forall l X w, Full X w -> EL None None X w -> NoDup l -> (forall u, In u l -> In u (tasks w)) ->
  EL None None X (fold_left (fun w t => ptask t w) l w).
Proof.
  induction l as [|t r IH]; intros X w HF HL ND Hin; simpl; [assumption|].
  inversion ND as [|? ? Hnt NDr]; subst.
  assert (Ht : In t (tasks w)) by (apply Hin; left; reflexivity).
  apply IH; [apply ptask_full; assumption|apply ptask_EL; assumption|assumption|].
  intros u Hu. apply ptask_keeps; [apply Hin; right; assumption|intro; subst; contradiction|].
  intros g R. destruct HF as [_ [[_ [_ [_ [_ E]]]] _]]. specialize (E t Ht). unfold task_ok in E. rewrite R in E. exact E.
Qed.

Lemma run_handlers_EL : forall hs hi xp X tok w err,
  EL xp (Some tok) X w -> (exists ev, nth_error (evs w) tok = Some ev) ->
  EL xp (Some tok) X (fst (run_handlers tok hi hs (w, err))).
Proof.
  induction hs as [|h r IH]; intros hi xp X tok w err HL [ev0 H0]; simpl; [assumption|].
  destruct h as [v raises|c sts].
  - destruct raises.
    + apply IH.
      * unfold EL. simpl. apply (EL_evt xp (Some tok) X _ _ _ _ tok add_err ev0 HL H0); auto.
      * exists (add_err ev0). simpl. apply nth_error_upd_same. assumption.
    + apply IH.
      * unfold EL. simpl. apply (EL_evt xp (Some tok) X _ _ _ _ tok _ ev0 HL H0); auto; destruct (option_map (tokval tok) v); simpl; auto.
      * eexists. simpl. apply nth_error_upd_same. eassumption.
  - apply IH.
    + unfold EL. rewrite reg_task_evs, reg_task_wsts, reg_task_queue. simpl.
      apply (EL_tasks xp (Some tok) X _ _ (tasks w)).
      * apply (EL_evt xp (Some tok) X _ _ _ _ tok (add_wait 1) ev0 HL H0); auto.
      * intros sid st Hs Ph Hin. unfold reg_task. destruct (existsb _ _); [exact Hin|]. simpl. apply in_app_iff. left. exact Hin.
    + exists (add_wait 1 ev0). rewrite reg_task_evs. simpl. apply nth_error_upd_same. assumption.
Qed.

(* _on_event *)
Lemma on_event_EL : forall xp X tok w sid ev nm, Full X w -> EL xp (Some tok) X w -> In (THEv sid) (ths w) ->
  nth_error (evs w) tok = Some ev -> e_name ev = nm ->
  (forall st, nth_error (wsts w) sid = Some st -> s_name st = nm) ->
  (forall s' st', nth_error (wsts w) s' = Some st' -> s_tevent st' <> tok) ->
  EL xp (Some tok) X (on_event tok w sid) /\
  (forall s st, s <> sid -> nth_error (wsts (on_event tok w sid)) s = Some st -> nth_error (wsts w) s = Some st) /\
  (forall s st, nth_error (wsts (on_event tok w sid)) s = Some st ->
     exists st0, nth_error (wsts w) s = Some st0 /\ s_tevent st = s_tevent st0 /\ s_name st = s_name st0) /\
  (forall st, nth_error (wsts (on_event tok w sid)) sid = Some st -> s_ph st = Armed -> s_obj st <> Some tok).
Proof.
  intros xp X tok w sid ev nm [B [HI HX]] HL Hin H0 Nm Hnm NoT.
  unfold on_event. rewrite B.
  pose proof HI as [_ [I2 [I3 _]]]. specialize (I2 _ Hin). simpl in I2.
  destruct (nth_error (wsts w) sid) as [st|] eqn:Hs; [|apply nth_error_None in Hs; lia].
  pose proof (I3 sid st Hs) as [O1 O2 O3 O4 O5 O6 O7 O8 O9].
  assert (Pa : s_ph st = Armed) by (apply O1; assumption). destruct (O4 Pa) as [Rn _].
  destruct (negb (s_run st) && obj_ok (s_obj st) tok) eqn:Gd.
  - unfold rem_th_k. apply has_th_In in Hin. rewrite Hin. split; [|split; [|split]].
    + unfold EL. simpl.
      pose proof (EL_evt xp (Some tok) X _ _ _ _ tok set_alert ev HL H0 eq_refl (fun _ => eq_refl) (fun a => a) (or_introl eq_refl)) as P1.
      apply (EL_wst_seen xp X _ _ _ _ sid st tok (set_alert ev) P1 Hs); auto.
      * apply nth_error_upd_same. assumption.
      * simpl. rewrite Nm. symmetry. apply Hnm. reflexivity.
    + intros s st' Ne Hs'. simpl in Hs'. rewrite nth_error_upd_other in Hs' by congruence. exact Hs'.
    + intros s st' Hs'. simpl in Hs'. apply nth_error_upd_inv in Hs'. destruct Hs' as [[E [x [A C]]]|[E A]].
      * subst. rewrite Hs in A. inversion A. subst x. exists st. auto.
      * exists st'. auto.
    + intros st' Hs' Ph. simpl in Hs'. rewrite (nth_error_upd_same (wst_seen tok) _ _ _ Hs) in Hs'. inversion Hs'. subst st'. discriminate.
  - split; [assumption|]. split; [auto|]. split; [eauto|].
    intros st' Hs' Ph Ob. rewrite Hs in Hs'. inversion Hs'. subst st'. rewrite Rn, Ob in Gd. simpl in Gd. rewrite Nat.eqb_refl in Gd. discriminate.
Qed.

Lemma fold_on_event_EL : forall xp X tok nm sids w ev0, Full X w -> EL xp (Some tok) X w -> NoDup sids ->
  (forall s, In s sids -> In (THEv s) (ths w)) -> nth_error (evs w) tok = Some ev0 -> e_name ev0 = nm ->
  (forall s st, In s sids -> nth_error (wsts w) s = Some st -> s_name st = nm) ->
  (forall s' st', nth_error (wsts w) s' = Some st' -> s_tevent st' <> tok) ->
  (forall s st, nth_error (wsts w) s = Some st -> s_ph st = Armed -> s_obj st = Some tok -> In s sids) ->
  let w' := fold_left (on_event tok) sids w in
  EL xp (Some tok) X w' /\
  (forall s st, nth_error (wsts w') s = Some st -> s_ph st = Armed -> s_obj st <> Some tok).
Proof.
  intros xp X tok nm sids. induction sids as [|s r IH]; intros w ev0 HF HL ND Hin H0 Nm Hnm NoT Harm; simpl.
  - split; [assumption|]. intros s st Hs Ph Ob. apply (Harm s st Hs Ph Ob).
  - inversion ND as [|? ? Hns NDr]; subst.
    destruct (on_event_full X tok w s ev0 HF (Hin s (or_introl eq_refl)) H0) as [F1 [[ev1 [E1 [E2 [E3 E4]]]] Fr]].
    destruct (on_event_EL xp X tok w s ev0 (e_name ev0) HF HL (Hin s (or_introl eq_refl)) H0 eq_refl) as [L1 [Fo [Fn Fs]]].
    { intros st Hs. apply (Hnm s st); [left; reflexivity|assumption]. }
    { exact NoT. }
    assert (Nm1 : e_name ev1 = e_name ev0).
    { destruct L1 as [_ [_ [_ [_ _]]]]. revert E1. unfold on_event. destruct HF as [B _]. rewrite B.
      destruct (nth_error (wsts w) s) as [st|]; [|simpl; intro E; rewrite H0 in E; inversion E; reflexivity].
      destruct (negb (s_run st) && obj_ok (s_obj st) tok); [|intro E; rewrite H0 in E; inversion E; reflexivity].
      unfold rem_th_k. destruct (has_th (THEv s) w); simpl; intro E.
      - rewrite (nth_error_upd_same set_alert _ _ _ H0) in E. inversion E. reflexivity.
      - rewrite H0 in E. inversion E. reflexivity. }
    apply (IH (on_event tok w s) ev1); try assumption.
    + intros s' Hs'. apply Fr; [intro; subst; contradiction|]. apply Hin. right. assumption.
    + intros s' st Hs' Hst. destruct (Fn s' st Hst) as [st0 [A [_ C]]]. rewrite C. apply (Hnm s' st0); [right; assumption|assumption].
    + intros s' st' Hs'. destruct (Fn s' st' Hs') as [st0 [A [Bt _]]]. rewrite Bt. apply (NoT s' st0 A).
    + intros s' st Hs' Ph Ob. destruct (Nat.eq_dec s' s) as [E|E].
      * subst s'. exfalso. apply (Fs st Hs' Ph). exact Ob.
      * pose proof (Fo s' st E Hs') as Hold. destruct (Harm s' st Hold Ph Ob) as [E'|E']; [congruence|assumption].
Qed.

Lemma ev_sids_names : forall w nm s, In s (ev_sids w nm) -> name_of_sid w s = Some nm.
Proof.
  intros w nm s Hs. unfold ev_sids in Hs. apply in_flat_map in Hs. destruct Hs as [h [Hh Hs]].
  destruct h as [x|x|x]; try destruct Hs. destruct (onat_eqb (name_of_sid w x) (Some nm)) eqn:E; [|destruct Hs].
  destruct Hs as [E'|[]]. subst. apply onat_eqb_eq. assumption.
Qed.

Lemma ev_sids_complete : forall w nm s, In (THEv s) (ths w) -> name_of_sid w s = Some nm -> In s (ev_sids w nm).
Proof.
  intros w nm s Hin Hn. unfold ev_sids. apply in_flat_map. exists (THEv s). split; [assumption|].
  rewrite Hn. assert (onat_eqb (Some nm) (Some nm) = true) by (apply onat_eqb_eq; reflexivity). rewrite H. left. reflexivity.
Qed.

(* _on_done *)
Lemma on_done_EL : forall xp xo X tok w sid, Full X w -> EL xp xo X w -> In (THDone sid) (ths w) ->
  EL xp xo X (on_done tok w sid) /\
  (forall st, nth_error (wsts (on_done tok w sid)) sid = Some st -> s_ph st = Seen -> s_event st <> Some tok).
Proof.
  intros xp xo X tok w sid [B [HI HX]] HL Hin. unfold on_done. rewrite B.
  pose proof HI as [_ [I2 _]]. specialize (I2 _ Hin). simpl in I2.
  destruct (nth_error (wsts w) sid) as [st|] eqn:Hs; [|apply nth_error_None in Hs; lia].
  destruct (onat_eqb (s_event st) (Some tok)) eqn:Ev.
  2:{ split; [assumption|]. intros st' Hs' Ph E. rewrite Hs in Hs'. inversion Hs'. subst st'.
      assert (onat_eqb (s_event st) (Some tok) = true) by (apply onat_eqb_eq; assumption). congruence. }
  cbv zeta. set (t := mk_task (s_tevent st) (RWait sid) (Some (s_parent st))).
  assert (P1 : ELc xp xo X (evs w) (upd_nth sid (wst_phase Flagged) (wsts w)) (tasks (reg_task t w)) (queue w)).
  { apply (EL_wst_flag xp xo X _ _ _ _ sid st); [|assumption|].
    - apply (EL_tasks _ _ _ _ _ (tasks w)); [exact HL|]. intros s st' Hs' Ph Hi. apply In_reg_task. exact Hi.
    - unfold reg_task. destruct (existsb (task_eqb t) (tasks w)) eqn:E; [apply existsb_task in E; exact E|].
      simpl. apply in_app_iff. right. left. reflexivity. }
  assert (Fs : forall st', nth_error (upd_nth sid (wst_phase Flagged) (wsts (reg_task t w))) sid = Some st' -> s_ph st' = Seen -> s_event st' <> Some tok).
  { intros st' Hs' Ph. rewrite reg_task_wsts in Hs'. rewrite (nth_error_upd_same _ _ _ _ Hs) in Hs'. inversion Hs'. subst st'. discriminate. }
  destruct (0 <=? s_timeout st).
  - unfold rem_th_k. destruct (has_th _ _).
    + split; [|exact Fs]. unfold EL. simpl. rewrite reg_task_evs, reg_task_wsts, reg_task_queue. exact P1.
    + split; [|exact Fs]. unfold EL. simpl. rewrite reg_task_evs, reg_task_wsts, reg_task_queue. exact P1.
  - split; [|exact Fs]. unfold EL. simpl. rewrite reg_task_evs, reg_task_wsts, reg_task_queue. exact P1.
Qed.

Lemma fold_on_done_EL : forall xp X tok sids w ev, Full X w -> EL xp (Some tok) X w -> NoDup sids ->
  (forall s, In s sids -> In (THDone s) (ths w)) ->
  (forall s st, In s sids -> nth_error (wsts w) s = Some st -> s_event st = Some tok -> s_ph st <> Flagged) ->
  nth_error (evs w) tok = Some ev -> (1 <= e_gate ev)%nat -> ~ In (QDone tok) (X ++ queue w) ->
  (forall s st, nth_error (wsts w) s = Some st -> s_ph st = Seen -> s_event st = Some tok -> In s sids) ->
  let w' := fold_left (on_done tok) sids w in
  EL xp (Some tok) X w' /\ (forall s st, nth_error (wsts w') s = Some st -> s_ph st = Seen -> s_event st <> Some tok).
Proof.
  intros xp X tok sids. induction sids as [|s r IH]; intros w ev HF HL ND Hd Nf He Ge Ni Hseen; simpl.
  - split; [assumption|]. intros s st Hs Ph Ev. apply (Hseen s st Hs Ph Ev).
  - inversion ND as [|? ? Hns NDr]; subst.
    destruct (on_done_full X tok w s ev HF (Hd s (or_introl eq_refl))) as [F1 [E1 [E2 Fr]]]; try assumption.
    { intros st Hs. apply (Nf s st); [left; reflexivity|assumption]. }
    destruct (on_done_EL xp (Some tok) X tok w s HF HL (Hd s (or_introl eq_refl))) as [L1 Fs].
    apply (IH _ ev); try assumption.
    + intros s' Hs'. apply on_done_keeps_done. apply Hd. right. assumption.
    + intros s' st Hs' Hst. rewrite Fr in Hst by (intro; subst; contradiction). apply (Nf s' st); [right; assumption|assumption].
    + rewrite E1. assumption.
    + rewrite E2. assumption.
    + intros s' st Hs' Ph Ev. destruct (Nat.eq_dec s' s) as [E|E].
      * subst s'. exfalso. apply (Fs st Hs' Ph). exact Ev.
      * rewrite Fr in Hs' by assumption. destruct (Hseen s' st Hs' Ph Ev) as [E'|E']; [congruence|assumption].
Qed.

Lemma done_sids_complete : forall w nm s, In (THDone s) (ths w) -> name_of_sid w s = Some nm -> In s (done_sids w nm).
Proof.
  intros w nm s Hin Hn. unfold done_sids. apply in_flat_map. exists (THDone s). split; [assumption|].
  rewrite Hn. assert (onat_eqb (Some nm) (Some nm) = true) by (apply onat_eqb_eq; reflexivity). rewrite H. left. reflexivity.
Qed.

(* _on_tick *)
Lemma on_tick_EL : forall xp xo X w sid, Full X w -> EL xp xo X w -> In (THTick sid) (ths w) -> EL xp xo X (on_tick w sid).
Proof.
  intros xp xo X w sid [B [HI HX]] HL Hin. unfold on_tick. rewrite B.
  pose proof HI as [_ [I2 _]]. specialize (I2 _ Hin). simpl in I2.
  destruct (nth_error (wsts w) sid) as [st|] eqn:Hs; [|apply nth_error_None in Hs; lia].
  destruct (s_timeout st =? 0).
  - cbv zeta. set (t := mk_task (s_tevent st) (RTimeout sid) (Some (s_parent st))).
    assert (P0 : ELc xp xo X (evs w) (wsts w) (tasks (reg_task t w)) (queue w)).
    { apply (EL_tasks _ _ _ _ _ (tasks w)); [exact HL|]. intros s st' Hs' Ph Hi. apply In_reg_task. exact Hi. }
    assert (PF : forall w', evs w' = evs w -> wsts w' = wsts w -> tasks w' = tasks (reg_task t w) -> queue w' = queue w ->
                   EL xp xo X (mod_wst sid wst_timeout w')).
    { intros w' e1 e2 e3 e4. unfold EL. simpl. rewrite e1, e2, e3, e4.
      apply (EL_wst_upd xp xo X _ _ _ _ sid wst_timeout st P0 Hs keeps_all_timeout); simpl; discriminate. }
    assert (PB : forall w', evs w' = evs w -> wsts w' = wsts w -> tasks w' = tasks (reg_task t w) -> queue w' = queue w ->
                   EL xp xo X (set_bad w')).
    { intros w' e1 e2 e3 e4. unfold EL. simpl. rewrite e1, e2, e3, e4. exact P0. }
    destruct (s_run st); unfold rem_th_k;
      repeat match goal with |- context [if has_th ?h ?w0 then _ else _] => destruct (has_th h w0) end;
      first [apply PF | apply PB]; simpl; auto using reg_task_evs, reg_task_wsts, reg_task_queue.
  - destruct (0 <? s_timeout st); [|assumption]. unfold EL. simpl.
    apply (EL_wst_upd xp xo X _ _ _ _ sid wst_tick st HL Hs keeps_all_tick); simpl; auto.
Qed.

Lemma fold_on_tick_EL : forall xp xo X sids w, Full X w -> EL xp xo X w -> NoDup sids -> (forall s, In s sids -> In (THTick s) (ths w)) ->
  EL xp xo X (fold_left on_tick sids w).
Proof.
  intros xp xo X sids. induction sids as [|s r IH]; intros w HF HL ND Hin; simpl; [assumption|].
  inversion ND as [|? ? Hns NDr]; subst.
  destruct (on_tick_full X w s HF (Hin s (or_introl eq_refl))) as [F1 Fr].
  apply IH; [assumption|apply on_tick_EL; [assumption|assumption|apply Hin; left; reflexivity]|assumption|].
  intros s' Hs'. apply Fr; [intro; subst; contradiction|apply Hin; right; assumption].
Qed.

Lemma run_handlers_name : forall hs hi tok w err ev, nth_error (evs w) tok = Some ev ->
  exists ev', nth_error (evs (fst (run_handlers tok hi hs (w, err)))) tok = Some ev' /\ e_name ev' = e_name ev.
Proof.
  induction hs as [|h r IH]; intros hi tok w err ev H0; simpl; [eauto|].
  destruct h as [v raises|c sts].
  - destruct raises.
    + destruct (IH (S hi) tok (mod_evt tok add_err (add_log (LPlain tok hi) w)) true (add_err ev)) as [ev' [A B]];
        [simpl; apply nth_error_upd_same; assumption|]. eauto.
    + destruct (IH (S hi) tok (mod_evt tok (add_oval (option_map (tokval tok) v)) (add_log (LPlain tok hi) w)) err
                   (add_oval (option_map (tokval tok) v) ev)) as [ev' [A B]];
        [simpl; apply nth_error_upd_same; assumption|]. exists ev'. split; [assumption|]. rewrite B. destruct (option_map (tokval tok) v); reflexivity.
  - match goal with |- context [run_handlers tok (S hi) r (?w1, err)] =>
      destruct (IH (S hi) tok w1 err (add_wait 1 ev)) as [ev' [A B]] end.
    + rewrite reg_task_evs. simpl. apply nth_error_upd_same. assumption.
    + eauto.
Qed.

Lemma event_done_wsts : forall tok err w, wsts (event_done tok err w) = wsts w.
Proof. intros. destruct (event_done_quiet tok err w) as [T _]. unfold triple in T. inversion T. reflexivity. Qed.

Lemma name_of_sid_wsts : forall w w' s, wsts w' = wsts w -> name_of_sid w' s = name_of_sid w s.
Proof. intros. unfold name_of_sid. rewrite H. reflexivity. Qed.

Lemma dispatch_EL : forall p q0 rest w, Full (q0 :: rest) w -> EL None None (q0 :: rest) w -> EL None None rest (dispatch p w q0).
Proof.
  intros p q0 rest w HF HL. pose proof (dispatch_full p q0 rest w HF) as HFin. revert HFin.
  destruct HF as [B [HI HX]].
  pose proof HX as [Hq [Hgi [Htask [Hwst [Hown [Hcnt [Hgate [Hqu [Hqd [Hnd [Hfl [Hres Hord]]]]]]]]]]]].
  pose proof (EX_pop _ _ _ _ _ _ _ _ HX) as HP. pose proof HI as [I1 [_ [I3 _]]].
  pose proof (EL_pop q0 rest _ _ _ _ HL) as LP.
  unfold dispatch. rewrite B. destruct q0 as [tok|tok|tok|]; simpl in LP.
  - assert (Rg : (tok < length (evs w))%nat) by (apply (Hq (QUser tok)); left; reflexivity).
    destruct (nth_error (evs w) tok) as [ev|] eqn:H0; [|apply nth_error_None in H0; lia].
    assert (D : e_dispatched ev = false) by (apply (Hqu tok ev); [left; reflexivity|assumption]).
    destruct (Hgate tok ev H0) as [G1 _]. destruct (G1 D) as [G W].
    assert (Ni : ~ In (QUser tok) (rest ++ queue w)) by (apply pop_notin; [reflexivity|assumption]).
    set (w1 := add_log (LDisp tok) (mod_evt tok set_dispatched w)).
    assert (P1 : EX rest w1).
    { unfold EX, w1. simpl. apply EX_log1; [|intros ? ? ? ? ? ?; discriminate|left; reflexivity].
      apply (EX_set_dispatched rest _ _ _ _ _ _ tok ev HP H0 D Ni). }
    assert (D1 : disp_ok tok w1).
    { exists (set_dispatched ev). unfold w1. simpl. split; [apply nth_error_upd_same; assumption|auto]. }
    assert (L1 : EL (Some tok) (Some tok) rest w1).
    { unfold EL, w1. simpl. apply (EL_evt (Some tok) (Some tok) rest _ _ _ _ tok set_dispatched ev); auto.
      apply (EL_weaken (Some tok) None _ _ _ _ _ _ _ LP); auto. }
    assert (H1 : nth_error (evs w1) tok = Some (set_dispatched ev)) by (unfold w1; simpl; apply nth_error_upd_same; assumption).
    pose proof (run_handlers_EX (handlers_of p (e_name ev)) O rest tok w1 false B P1 D1) as RH.
    pose proof (run_handlers_IC (handlers_of p (e_name ev)) tok O w1 false HI) as RI.
    pose proof (run_handlers_EL (handlers_of p (e_name ev)) O (Some tok) rest tok w1 false L1 (ex_intro _ _ H1)) as RL.
    pose proof (run_handlers_name (handlers_of p (e_name ev)) O tok w1 false _ H1) as RN.
    destruct (run_handlers tok O (handlers_of p (e_name ev)) (w1, false)) as [w2 err]. simpl in RH, RI, RL, RN.
    destruct RH as [B2 [P2 [_ [T2 S2]]]]. destruct RN as [ev2 [H2 N2]]. simpl in N2.
    destruct (ev_sids_spec w (e_name ev) I1) as [ND Hsids].
    assert (F2 : Full rest w2) by (split; [assumption|split; assumption]).
    destruct (fold_on_event_full rest tok (ev_sids w (e_name ev)) w2 ev2 F2 ND) as [F3 [ev3 [H3 _]]].
    { intros s Hs. rewrite T2. apply Hsids. assumption. }
    { exact H2. }
    destruct LP as [_ [_ [_ [_ [Lm2 [_ [Lz _]]]]]]].
    destruct (fold_on_event_EL (Some tok) rest tok (e_name ev) (ev_sids w (e_name ev)) w2 ev2 F2 RL ND) as [L3 NoArm].
    { intros s Hs. rewrite T2. apply Hsids. assumption. }
    { exact H2. }
    { exact N2. }
    { intros s st Hs Hst. apply ev_sids_names in Hs. unfold name_of_sid in Hs. rewrite S2 in Hst. simpl in Hst. rewrite Hst in Hs. inversion Hs. reflexivity. }
    { intros s' st' Hs' E. rewrite S2 in Hs'. simpl in Hs'. destruct (Lz s' st' Hs') as [ev' [A1 A2]]. rewrite E, H0 in A1. inversion A1. subst. congruence. }
    { intros s st Hs Ph Ob. rewrite S2 in Hs. simpl in Hs. apply ev_sids_complete.
      - apply (I3 s st Hs). assumption.
      - destruct (Lm2 s st tok Hs Ob) as [ev' [A1 A2]]. rewrite H0 in A1. inversion A1. subst ev'. unfold name_of_sid. rewrite Hs. congruence. }
    intro HFin.
    assert (NN : 0 <= e_waiting ev3) by (destruct F3 as [_ [_ P3]]; apply (waiting_nonneg rest _ tok ev3 P3 H3)).
    pose proof (event_done_EL (Some tok) rest _ tok err ev3 NN L3 H3) as L4.
    apply (EL_close_p _ _ _ _ _ _ _ L4). intros sid st e E Hs Ph Ob. inversion E. subst e. exfalso.
    rewrite event_done_wsts in Hs. apply (NoArm sid st Hs Ph). exact Ob.
  - assert (Rg : (tok < length (evs w))%nat) by (apply (Hq (QDone tok)); left; reflexivity).
    destruct (nth_error (evs w) tok) as [ev|] eqn:H0; [|apply nth_error_None in H0; lia].
    assert (Ge : (1 <= e_gate ev)%nat) by (apply (Hqd tok ev); [left; reflexivity|assumption]).
    assert (Ni : ~ In (QDone tok) (rest ++ queue w)) by (apply pop_notin; [reflexivity|assumption]).
    destruct (done_sids_spec w (e_name ev) I1) as [ND Hsids].
    pose proof LP as [_ [_ [_ [Lm _]]]].
    destruct (fold_on_done_EL None rest tok (done_sids w (e_name ev)) w ev) as [L3 NoSeen]; try assumption.
    + split; [assumption|split; assumption].
    + intros s st _ Hs Ev Ph. destruct (Hfl s st Hs Ph) as [e [ev' [A [_ [_ Nq]]]]]. rewrite Ev in A. inversion A. subst e.
      apply Nq. left. reflexivity.
    + intros s st Hs Ph Ev. apply done_sids_complete.
      * apply (I3 s st Hs). rewrite Ph. discriminate.
      * destruct (Lm s st tok Hs Ev) as [ev' [A1 [A2 _]]]. rewrite H0 in A1. inversion A1. subst ev'. unfold name_of_sid. rewrite Hs. congruence.
    + intros _. apply (EL_close_o _ _ _ _ _ _ _ L3). intros sid st e ev' E Hs Ph Ev. inversion E. subst e. exfalso. apply (NoSeen sid st Hs Ph Ev).
  - assert (Rg : (tok < length (evs w))%nat) by (apply (Hq (QSucc tok)); left; reflexivity).
    destruct (nth_error (evs w) tok) as [ev|] eqn:H0; [|apply nth_error_None in H0; lia]. intros _. exact LP.
  - destruct (tick_sids_spec w I1) as [ND Hsids]. intros _.
    apply fold_on_tick_EL; [split; [assumption|split; assumption]|exact LP|assumption|assumption].
Qed.

Lemma ELc_pend_eq : forall xp xo X q X' q' es ss ts, X ++ q = X' ++ q' -> ELc xp xo X es ss ts q -> ELc xp xo X' es ss ts q'.
Proof. intros xp xo X q X' q' es ss ts E. unfold ELc, L_p, L_o. rewrite E. auto. Qed.

Lemma fold_dispatch_EL : forall p batch w, Full batch w -> EL None None batch w -> EL None None [] (fold_left (dispatch p) batch w).
Proof.
  intros p batch. induction batch as [|q0 rest IH]; intros w HF HL; simpl; [assumption|].
  apply IH; [apply dispatch_full; assumption|apply dispatch_EL; assumption].
Qed.

Lemma tick_EL : forall p g sch t w, Full [] w -> EL None None [] w -> EL None None [] (tick p g sch t w).
Proof.
  intros p g sch t w HF HL. pose proof HF as [B [HI HX]]. unfold tick.
  set (w0 := add_log (LTick t) w).
  assert (F0 : Full [] w0).
  { split; [exact B|]. split; [exact HI|]. unfold EX, w0. simpl.
    apply EX_log1; [exact HX|intros ? ? ? ? ? ?; discriminate|left; reflexivity]. }
  assert (L0 : EL None None [] w0) by exact HL.
  destruct (order_by_spec w0 sch (tasks w0)) as [N1 N2]; [destruct HI as [_ [_ [_ [D _]]]]; exact D|].
  pose proof (fold_ptask_full _ [] w0 F0 N1 N2) as F1.
  pose proof (fold_ptask_EL _ [] w0 F0 L0 N1 N2) as L1.
  set (w1 := fold_left (fun w t => ptask t w) (order_by w0 sch (tasks w0)) w0) in *.
  set (w2 := if g then push QGenEv w1 else w1).
  assert (F2 : Full [] w2).
  { unfold w2. destruct g; [|exact F1]. destruct F1 as [B1 [I1 P1]]. split; [exact B1|]. split; [exact I1|].
    unfold EX. simpl. apply EX_push_gen. exact P1. }
  assert (L2 : EL None None [] w2).
  { unfold w2. destruct g; [|exact L1]. unfold EL. simpl.
    pose proof (EL_ext None None [] _ _ _ _ [] [QGenEv] L1) as P. rewrite app_nil_r in P. exact P. }
  apply fold_dispatch_EL.
  - destruct F2 as [B2 [I2 P2]]. split; [exact B2|]. split; [exact I2|].
    unfold EX in *. simpl in *. apply (EXc_pend_eq [] (queue w2)); [rewrite app_nil_r; reflexivity|exact P2].
  - unfold EL in *. simpl in *. apply (ELc_pend_eq None None [] (queue w2)); [rewrite app_nil_r; reflexivity|exact L2].
Qed.

Lemma fire_roots_EL : forall roots t w, Full [] w -> EL None None [] w ->
  Full [] (fire_roots roots t w) /\ EL None None [] (fire_roots roots t w).
Proof.
  intros roots t. unfold fire_roots. induction roots as [|r rs IH]; intros w HF HL; simpl; [auto|].
  destruct (Nat.eqb (fst r) t); [|apply IH; assumption].
  apply IH; [apply fire_user_full; assumption|]. unfold EL. simpl.
  apply (EL_ext None None [] _ _ _ _ [new_evt (snd r)] [QUser (length (evs w))] HL).
Qed.

Lemma run_from_EL : forall p g scheds roots n t w, Full [] w -> EL None None [] w ->
  EL None None [] (run_from p g scheds roots t n w).
Proof.
  intros p g scheds roots n. induction n as [|n IH]; intros t w HF HL; simpl; [assumption|].
  destruct (fire_roots_EL roots t w HF HL) as [F1 L1].
  apply IH; [apply tick_full; assumption|apply tick_EL; assumption].
Qed.

Lemma EL_init : EL None None [] init.
Proof.
  unfold EL, init, ELc. simpl. repeat match goal with |- _ /\ _ => split end;
    try (intros sid st; intros; destruct sid; discriminate).
Qed.

Lemma run_EL : forall p g scheds roots n, EL None None [] (run p g scheds roots n).
Proof. intros. unfold run. apply run_from_EL; [split; [reflexivity|split; [apply IC_init|apply EX_init]]|apply EL_init]. Qed.

(* ---------------------------------------------------------------- a quiet world *)

Lemma cnt_own_witness : forall tok ss, (0 < cnt_own tok ss)%nat -> exists sid st, nth_error ss sid = Some st /\ owns tok st = true.
Proof.
  intros tok ss. unfold cnt_own. induction ss as [|x r IH]; simpl; [lia|].
  destruct (owns tok x) eqn:E.
  - intros _. exists O, x. auto.
  - intro H. destruct (IH H) as [sid [st [A B]]]. exists (S sid), st. auto.
Qed.

Lemma cnt_gen_nil : forall tok, cnt_gen tok [] = O. Proof. reflexivity. Qed.

(* if the run has gone quiet (no queued event, no task) then every wait that is still live waits, by name, for an
   event that was never dispatched to it; if there is no such wait, every call/wait has resumed its caller exactly once *)
Theorem quiescent_all_resumed : forall p g scheds roots n, let w := run p g scheds roots n in
  queue w = [] -> tasks w = [] ->
  (forall sid st, nth_error (wsts w) sid = Some st -> s_ph st = Armed -> s_obj st <> None) ->
  forall sid st, nth_error (wsts w) sid = Some st -> s_ph st = Dead /\ s_resumes st = 1%nat.
Proof.
  intros p g scheds roots n w Q T NoName.
  destruct (run_full p g scheds roots n) as [_ [HI HX]]. fold w in HI, HX.
  pose proof (run_EL p g scheds roots n) as HL. fold w in HL.
  destruct HL as [Lfl [Lp [Lo [Lm [Lm2 [Lv [Lz Lse]]]]]]]. rewrite Q in Lp, Lo. rewrite T in Lfl. simpl in Lp, Lo.
  destruct HX as [_ [_ [_ [_ [_ [Hcnt _]]]]]]. rewrite T in Hcnt.
  destruct HI as [_ [_ [I3 _]]]. rewrite T in I3.
  assert (Dead_all : forall k sid st, (length (wsts w) - sid <= k)%nat -> nth_error (wsts w) sid = Some st -> s_ph st = Dead).
  { induction k as [|k IH]; intros sid st Hk Hs.
    - apply nth_error_lt in Hs. lia.
    - destruct (s_ph st) eqn:Ph; [| | |reflexivity]; exfalso.
      + destruct (s_obj st) as [e|] eqn:Ob; [|apply (NoName sid st Hs Ph Ob)].
        apply (Lp sid st e Hs Ph Ob). discriminate.
      + destruct (I3 sid st Hs) as [_ _ _ _ _ _ _ _ O9]. 
        destruct (s_event st) as [e|] eqn:Ev.
        * destruct (Lm sid st e Hs Ev) as [ev [He _]].
          destruct (Lo sid st e ev Hs Ph Ev) as [W|[]]; [discriminate|assumption|].
          rewrite (Hcnt e ev He), cnt_gen_nil in W.
          destruct (cnt_own_witness e (wsts w)) as [s' [st' [Hs' Ow]]]; [lia|].
          unfold owns in Ow. apply andb_prop in Ow. destruct Ow as [Te Ow]. apply Nat.eqb_eq in Te.
          pose proof (Lv sid st e s' st' Hs Ev Hs' Te) as Lt.
          assert (Pd : s_ph st' = Dead). { apply (IH s' st'); [apply nth_error_lt in Hs'; lia|assumption]. }
          destruct (I3 s' st' Hs') as [_ _ _ _ _ _ O7 _ _]. rewrite Pd in O7. simpl in O7. unfold count_rt in O7. simpl in O7.
          unfold owning in Ow. apply Nat.eqb_eq in Ow. lia.
        * apply (Lse sid st Hs Ph Ev).
      + apply (Lfl sid st Hs Ph). }
  intros sid st Hs. assert (Pd : s_ph st = Dead) by (apply (Dead_all (length (wsts w)) sid st); [lia|assumption]).
  split; [assumption|]. destruct (I3 sid st Hs) as [_ _ _ _ _ _ O7 _ _]. rewrite Pd in O7. simpl in O7. unfold count_rt in O7. simpl in O7. lia.
Qed.
