(* Proofs about Model/KTasks.v (C06). *)
From Coq Require Import List ZArith Bool Arith Lia.
From Circ Require Import Model.KTasks.
Import ListNotations.
Open Scope Z_scope.

(* witness of the open finding: callee generator handler raises after its first yield *)
Definition prog_genraise : program :=
  [ [HGen true [SCall 1%nat (-1); SYield (Some 7)]]; [HGen true [SYield (Some 9); SRaise]] ].

Lemma genraise_residue :
  let w := run prog_genraise false [O] [(O, O)] 12 in
  tasks w = [] /\ queue w = [] /\ ths w = [THDone O] /\ bad w = false.
Proof. vm_compute. repeat split. Qed.
