From Coq Require Import List Arith Bool Lia.
From Circ Require Import Model.ClassHandlers.
Import ListNotations.

(* the documented semantics: a handler definition d of class number i of the MRO
   (0 = the instance's class) is in force iff no more derived class redefines the same
   attribute as a handler with override=True *)
Definition overridden_above (mro : list klass) (i : nat) (a : nat) : Prop :=
  exists j k d', j < i /\ nth_error mro j = Some k /\ In d' k /\ m_attr d' = a /\
                 m_handler d' = true /\ m_override d' = true.

Definition in_force (mro : list klass) (d : mdef) : Prop :=
  exists i k, nth_error mro i = Some k /\ In d k /\ m_handler d = true /\ ~ overridden_above mro i (m_attr d).

Lemma mem_In x l : mem x l = true <-> In x l.
Proof. unfold mem. rewrite existsb_exists. split.
  - intros (y & Hy & E). apply Nat.eqb_eq in E. now subst.
  - intros H. exists x. split; [exact H|apply Nat.eqb_refl]. Qed.

(* ---- aliases: characterisation with an explicit offset ---- *)
Lemma aliases_spec mro : forall first ov d,
  In d (aliases first ov mro) <->
  exists i k, nth_error mro i = Some k /\ In d k /\ m_handler d = true /\
    (i = 0 -> first = false) /\ ~ In (m_attr d) ov /\
    ~ (exists j k' d', j < i /\ nth_error mro j = Some k' /\ In d' k' /\ m_attr d' = m_attr d /\
                       m_handler d' = true /\ m_override d' = true).
Proof.
  induction mro as [|k r IH]; intros first ov d; cbn [aliases].
  - split; [contradiction|]. intros (i & k & H & _). destruct i; discriminate H.
  - rewrite in_app_iff, filter_In, IH. split.
    + intros [[Hd Hc]|(i & k' & Hn & Hd & Hh & _ & Hov & Hno)].
      * apply andb_true_iff in Hc as [Hc Hm]. apply andb_true_iff in Hc as [Hh Hf].
        apply negb_true_iff in Hf, Hm.
        exists 0, k. repeat split; auto.
        -- intros M. apply mem_In in M. congruence.
        -- intros (j & _ & _ & Hj & _). lia.
      * exists (S i), k'. repeat split; auto.
        -- discriminate.
        -- intros M. apply Hov. apply in_app_iff. now right.
        -- intros (j & k'' & d' & Hj & Hnj & Hd' & Ha & Hh' & Ho').
           destruct j as [|j].
           ++ cbn in Hnj. injection Hnj as <-. apply Hov. apply in_app_iff. left.
              apply in_map_iff. exists d'. split; [exact Ha|]. apply filter_In. split; [exact Hd'|].
              now rewrite Hh', Ho'.
           ++ apply Hno. exists j, k'', d'. repeat split; auto. lia.
    + intros (i & k' & Hn & Hd & Hh & Hf & Hov & Hno). destruct i as [|i].
      * cbn in Hn. injection Hn as <-. left. split; [exact Hd|].
        rewrite Hh, (Hf eq_refl). cbn. apply negb_true_iff.
        destruct (mem (m_attr d) ov) eqn:M; [|reflexivity]. apply mem_In in M. contradiction.
      * right. exists i, k'. cbn in Hn. repeat split; auto.
        -- intros M. apply in_app_iff in M as [M|M]; [|contradiction].
           apply in_map_iff in M as (d' & Ha & Hd'). apply filter_In in Hd' as [Hd' Hc].
           apply andb_true_iff in Hc as [Hh' Ho'].
           apply Hno. exists 0, k, d'. repeat split; auto. lia.
        -- intros (j & k'' & d' & Hj & Hnj & Hd' & Ha & Hh' & Ho').
           apply Hno. exists (S j), k'', d'. repeat split; auto. lia.
Qed.

(* ---- attribute lookup ---- *)
Lemma lookup_attr_spec mro : forall a d, lookup_attr a mro = Some d ->
  exists i k, nth_error mro i = Some k /\ In d k /\ m_attr d = a /\
    forall j k' d', j < i -> nth_error mro j = Some k' -> In d' k' -> m_attr d' <> a.
Proof.
  induction mro as [|k r IH]; intros a d H; cbn [lookup_attr] in H; [discriminate|].
  destruct (find (fun d0 => Nat.eqb (m_attr d0) a) k) as [d0|] eqn:F.
  - injection H as <-. apply find_some in F as [F1 F2]. apply Nat.eqb_eq in F2.
    exists 0, k. repeat split; auto. intros j k' d' Hj. lia.
  - destruct (IH a d H) as (i & k' & Hn & Hd & Ha & Hno). exists (S i), k'. repeat split; auto.
    intros j k'' d' Hj Hnj Hd'. destruct j as [|j].
    + cbn in Hnj. injection Hnj as <-. intros E. apply (find_none _ _ F) in Hd'.
      apply Nat.eqb_neq in Hd'. contradiction.
    + apply (Hno j k'' d'); auto. lia.
Qed.

Lemma dedup_In d l : (exists d', In d' (dedup l) /\ m_fid d' = m_fid d) <-> (exists d', In d' l /\ m_fid d' = m_fid d).
Proof.
  induction l as [|x r IH]; [tauto|]. cbn [dedup].
  destruct (existsb (fun y => Nat.eqb (m_fid y) (m_fid x)) r) eqn:E.
  - rewrite IH. split; intros (d' & H & Ed).
    + exists d'. split; [now right|exact Ed].
    + destruct H as [<-|H]; [|exists d'; auto].
      apply existsb_exists in E as (y & Hy & Ey). apply Nat.eqb_eq in Ey. exists y. split; [exact Hy|congruence].
  - split; intros (d' & H & Ed).
    + destruct H as [<-|H]; [exists x; split; [now left|exact Ed]|].
      destruct IH as [IH _]. destruct (IH (ex_intro _ d' (conj H Ed))) as (d'' & H'' & E'').
      exists d''. split; [now right|exact E''].
    + destruct H as [<-|H]; [exists x; split; [now left|exact Ed]|].
      destruct IH as [_ IH]. destruct (IH (ex_intro _ d' (conj H Ed))) as (d'' & H'' & E'').
      exists d''. split; [now right|exact E''].
Qed.

Lemma dedup_incl d l : In d (dedup l) -> In d l.
Proof.
  induction l as [|x r IH]; intros H; [contradiction|]. cbn [dedup] in H.
  destruct (existsb (fun y => Nat.eqb (m_fid y) (m_fid x)) r).
  - right. now apply IH.
  - destruct H as [<-|H]; [now left|right; now apply IH].
Qed.

(* Every function collected is in force, and every definition in force is collected
   (identified by its function id), for MROs of any depth. *)
Theorem collect_sound mro d : In d (collect mro) -> in_force mro d.
Proof.
  unfold collect. intros H.
  assert (H' : In d (resolved mro ++ aliases true [] mro)) by now apply dedup_incl.
  apply in_app_iff in H' as [H'|H'].
  - unfold resolved in H'. apply in_flat_map in H' as (k & _ & H'). apply in_flat_map in H' as (d0 & _ & H').
    destruct (lookup_attr (m_attr d0) mro) as [d'|] eqn:L; [|contradiction].
    destruct (m_handler d') eqn:Hh; [|contradiction]. destruct H' as [<-|[]].
    destruct (lookup_attr_spec mro _ _ L) as (i & k' & Hn & Hd & Ha & Hno).
    exists i, k'. repeat split; auto. intros (j & k'' & d'' & Hj & Hnj & Hd'' & Ha'' & _).
    apply (Hno j k'' d'' Hj Hnj Hd''). congruence.
  - apply aliases_spec in H' as (i & k & Hn & Hd & Hh & _ & _ & Hno).
    exists i, k. repeat split; auto.
Qed.

Definition uniq_attrs (mro : list klass) := Forall (fun k => NoDup (map m_attr k)) mro.

Lemma find_first k a d : NoDup (map m_attr k) -> In d k -> m_attr d = a ->
  find (fun d0 => Nat.eqb (m_attr d0) a) k = Some d.
Proof.
  induction k as [|x r IH]; intros N H E; [contradiction|]. cbn [find map] in *.
  inversion N as [|? ? Hx Nr]; subst. destruct H as [->|H].
  - now rewrite Nat.eqb_refl.
  - destruct (Nat.eqb_spec (m_attr x) (m_attr d)) as [E|NE]; [|now apply IH].
    exfalso. apply Hx. rewrite E. now apply in_map.
Qed.

Theorem collect_complete mro d : uniq_attrs mro -> in_force mro d ->
  exists d', In d' (collect mro) /\ m_fid d' = m_fid d.
Proof.
  intros U (i & k & Hn & Hd & Hh & Hno). unfold collect. apply dedup_In.
  exists d. split; [|reflexivity]. apply in_app_iff. destruct i as [|i].
  - (* defined in the instance's own class: found by attribute lookup *)
    left. unfold resolved. destruct mro as [|k0 r]; [discriminate|]. cbn in Hn. injection Hn as ->.
    apply in_flat_map. exists k. split; [now left|]. apply in_flat_map. exists d. split; [exact Hd|].
    cbn [lookup_attr]. inversion U as [|? ? Uk _]; subst.
    rewrite (find_first k (m_attr d) d Uk Hd eq_refl), Hh. now left.
  - right. apply aliases_spec. exists (S i), k. split; [exact Hn|]. split; [exact Hd|]. split; [exact Hh|].
    split; [discriminate|]. split; [intros []|].
    intros (j & k' & d' & Hj & Hnj & Hd' & Ha & Hh' & Ho'). apply Hno. exists j, k', d'. repeat split; auto.
Qed.
