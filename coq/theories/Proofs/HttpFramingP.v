From Coq Require Import List NArith ZArith Arith Bool Lia ZifyBool.
From Circ Require Import Model.HttpFraming.
Import ListNotations.
Open Scope N_scope.

(* ---------- generic facts about the delimiter search ---------- *)
Lemma is_prefix_spec d : forall x, is_prefix d x = true -> x = d ++ skipn (length d) x.
Proof.
  induction d as [|a d IH]; intros x H; [reflexivity|].
  destruct x as [|b x]; [discriminate|]. cbn in H. apply andb_true_iff in H as [E H].
  apply N.eqb_eq in E. subst b. cbn. f_equal. now apply IH.
Qed.

Lemma is_prefix_app d : forall x b, is_prefix d x = true -> is_prefix d (x ++ b) = true.
Proof.
  induction d as [|a d IH]; intros x b H; [reflexivity|].
  destruct x as [|c x]; [discriminate|]. cbn in *. apply andb_true_iff in H as [E H].
  rewrite E. cbn. now apply IH.
Qed.

Lemma is_prefix_refl d r : is_prefix d (d ++ r) = true.
Proof. induction d as [|a d IH]; [reflexivity|]. cbn. now rewrite N.eqb_refl. Qed.

Lemma skipn_prefix_app d : forall x b, is_prefix d x = true ->
  skipn (length d) (x ++ b) = skipn (length d) x ++ b.
Proof.
  induction d as [|a d IH]; intros x b H; [reflexivity|].
  destruct x as [|c x]; [discriminate|]. cbn in *. apply andb_true_iff in H as [_ H]. now apply IH.
Qed.

Lemma is_prefix_app_inv d : forall x b, is_prefix d (x ++ b) = true -> (length d <= length x)%nat ->
  is_prefix d x = true.
Proof.
  induction d as [|e d IH]; intros x b H L; [reflexivity|].
  destruct x as [|c x]; [cbn in L; lia|]. cbn in *.
  apply andb_true_iff in H as [E H]. rewrite E. cbn. apply (IH x b H). lia.
Qed.

Lemma split_on_length d : forall x l r, split_on d x = Some (l, r) -> (length d <= length x)%nat.
Proof.
  induction x as [|a t IH]; intros l r H.
  - cbn in H. destruct d; [cbn; lia|discriminate].
  - cbn [split_on] in H. destruct (is_prefix d (a :: t)) eqn:P.
    + apply is_prefix_spec in P. rewrite P. rewrite app_length. lia.
    + destruct (split_on d t) as [[l' r']|] eqn:S; [|discriminate].
      specialize (IH _ _ eq_refl). cbn [length]. lia.
Qed.

(* L1: a delimiter found stays found, at the same place, when more bytes arrive *)
Lemma split_on_app d : d <> [] -> forall x l r b, split_on d x = Some (l, r) -> split_on d (x ++ b) = Some (l, r ++ b).
Proof.
  intros Hd. induction x as [|a t IH]; intros l r b H.
  - cbn in H. destruct d; [contradiction|discriminate].
  - cbn [split_on] in H. cbn [app split_on].
    destruct (is_prefix d (a :: t)) eqn:P.
    + inversion H; subst. change (a :: t ++ b) with ((a :: t) ++ b).
      rewrite (is_prefix_app d (a :: t) b P), (skipn_prefix_app d (a :: t) b P). reflexivity.
    + destruct (split_on d t) as [[l' r']|] eqn:S; [|discriminate]. inversion H; subst.
      rewrite (IH l' r b eq_refl).
      destruct (is_prefix d (a :: t ++ b)) eqn:P2; [|reflexivity].
      exfalso. apply split_on_length in S.
      change (a :: t ++ b) with ((a :: t) ++ b) in P2.
      rewrite (is_prefix_app_inv d (a :: t) b P2) in P; [discriminate|cbn [length]; lia].
Qed.

(* L2: what a successful search means *)
Lemma split_on_spec d : forall x l r, split_on d x = Some (l, r) -> x = l ++ d ++ r.
Proof.
  induction x as [|a t IH]; intros l r H.
  - cbn in H. destruct d; [|discriminate]. inversion H. reflexivity.
  - cbn [split_on] in H. destruct (is_prefix d (a :: t)) eqn:P.
    + inversion H; subst. cbn [app]. now apply is_prefix_spec.
    + destruct (split_on d t) as [[l' r']|] eqn:S; [|discriminate]. inversion H; subst.
      cbn [app]. f_equal. now apply IH.
Qed.

(* L3: nothing is found in a prefix that ends before the first occurrence ends *)
Lemma split_on_prefix_none d : d <> [] -> forall p q l r, split_on d (p ++ q) = Some (l, r) ->
  (length p < length l + length d)%nat -> split_on d p = None.
Proof.
  intros Hd p q l r H L. destruct (split_on d p) as [[l' r']|] eqn:S; [|reflexivity]. exfalso.
  pose proof (split_on_app d Hd p l' r' q S) as H2. rewrite H in H2. inversion H2; subst.
  apply split_on_spec in S. subst p. rewrite !app_length in L. lia.
Qed.

Lemma CRLF_ne : CRLF <> []. Proof. discriminate. Qed.
Lemma CRLF2_ne : CRLF2 <> []. Proof. discriminate. Qed.

(* ---------- chunked bodies ---------- *)
Lemma chunk1_take_app x d r b : chunk1 x = CTake d r -> chunk1 (x ++ b) = CTake d (r ++ b).
Proof.
  unfold chunk1. destruct (split_on CRLF x) as [[line rest]|] eqn:S; [|discriminate].
  rewrite (split_on_app CRLF CRLF_ne x line rest b S).
  destruct (chunk_size line) as [n|]; [|discriminate].
  destruct (n =? 0) eqn:Z.
  - destruct (_ || _); discriminate.
  - destruct (N.of_nat (length rest) <? n + 2) eqn:Lt; [discriminate|].
    intros H. inversion H; subst. rewrite app_length.
    assert (L : (N.to_nat n + 2 <= length rest)%nat) by lia.
    replace (N.of_nat (length rest + length b) <? n + 2) with false by lia.
    rewrite firstn_app, skipn_app.
    replace (N.to_nat n - length rest)%nat with 0%nat by lia.
    replace (N.to_nat n + 2 - length rest)%nat with 0%nat by lia.
    cbn [firstn skipn]. now rewrite app_nil_r.
Qed.

Lemma chunk1_take_shrinks x d r : chunk1 x = CTake d r -> (length r < length x)%nat.
Proof.
  unfold chunk1. destruct (split_on CRLF x) as [[line rest]|] eqn:S; [|discriminate].
  apply split_on_spec in S. subst x.
  destruct (chunk_size line) as [n|]; [|discriminate].
  destruct (n =? 0); [destruct (_ || _); discriminate|].
  destruct (_ <? _); [discriminate|]. intros H. inversion H; subst.
  rewrite !app_length, skipn_length. cbn. lia.
Qed.

(* states in which the parser is still waiting for bytes of the current message and will not raise *)
Definition splittable (s : pstate) : Prop :=
  match s with
  | PFirst _ | PHead _ _ _ | PChunk _ _ _ _ => True
  | PBody _ _ _ (Some _) _ => True
  | _ => False
  end.

Section Laws.
Variable kind_resp : bool.
Variable parse_fl : list N -> option bool.
Variable parse_hd : list N -> option (option Z * bool).

Notation feed := (feed kind_resp parse_fl parse_hd).
Notation heads := (heads kind_resp parse_hd).
Notation body_step := (body_step kind_resp).
Notation run := (run kind_resp parse_fl parse_hd).

Lemma chunk_adv_fuel fl blk : forall f1 f2 body x, (length x < f1)%nat -> (length x < f2)%nat ->
  chunk_adv f1 fl blk body x = chunk_adv f2 fl blk body x.
Proof.
  induction f1 as [|f1 IH]; intros f2 body x L1 L2; [lia|].
  destruct f2 as [|f2]; [lia|]. cbn [chunk_adv].
  destruct (chunk1 x) as [| |d r] eqn:C; try reflexivity.
  apply chunk1_take_shrinks in C. apply IH; lia.
Qed.

Lemma chunk_adv_never_out fl blk : forall f body x, (length x < f)%nat -> chunk_adv f fl blk body x <> POutOfFuel.
Proof.
  induction f as [|f IH]; intros body x L; [lia|]. cbn [chunk_adv].
  destruct (chunk1 x) as [| |d r] eqn:C; try discriminate.
  apply chunk1_take_shrinks in C. apply IH. lia.
Qed.

Lemma chunk_adv_take f fl blk body x d r : chunk1 x = CTake d r ->
  chunk_adv (S f) fl blk body x = chunk_adv f fl blk (body ++ d) r.
Proof. intros C. cbn [chunk_adv]. now rewrite C. Qed.

(* consuming complete chunks early or late is the same *)
Lemma chunk_adv_law fl blk b : forall f body x fl' blk' body' x', (length x < f)%nat ->
  chunk_adv f fl blk body x = PChunk fl' blk' body' x' ->
  fl' = fl /\ blk' = blk /\
  chunk_adv (S (length (x' ++ b))) fl blk body' (x' ++ b) = chunk_adv (S (length (x ++ b))) fl blk body (x ++ b).
Proof.
  induction f as [|f IH]; intros body x fl' blk' body' x' L H; [lia|].
  cbn [chunk_adv] in H. destruct (chunk1 x) as [| |d r] eqn:C.
  - inversion H; subst. auto.
  - discriminate.
  - pose proof (chunk1_take_shrinks _ _ _ C) as Sh.
    destruct (IH (body ++ d) r fl' blk' body' x') as (E1 & E2 & E3); [lia|exact H|].
    split; [exact E1|split; [exact E2|]]. rewrite E3.
    rewrite (chunk_adv_take (length (x ++ b)) fl blk body (x ++ b) d (r ++ b) (chunk1_take_app x d r b C)).
    apply chunk_adv_fuel; rewrite !app_length; lia.
Qed.

Lemma chunk_adv_shape fl blk : forall f body x s, chunk_adv f fl blk body x = s -> splittable s ->
  exists body' x', s = PChunk fl blk body' x'.
Proof.
  induction f as [|f IH]; intros body x s H Sp; cbn [chunk_adv] in H.
  - subst s. contradiction.
  - destruct (chunk1 x) as [| |d r].
    + subst s. eauto.
    + subst s. contradiction.
    + eapply IH; eauto.
Qed.

(* ---------- the split law ---------- *)

Lemma list_eqb_eq a : forall b, list_eqb a b = true <-> a = b.
Proof.
  induction a as [|x a IH]; intros [|y b]; cbn; split; intros H; try reflexivity; try discriminate.
  - apply andb_true_iff in H as [E H]. apply N.eqb_eq in E. apply IH in H. now subst.
  - inversion H; subst. rewrite N.eqb_refl. cbn. now apply IH.
Qed.

Lemma body_step_law fl blk clen rest body a b : b <> [] ->
  splittable (body_step fl blk clen rest body a) ->
  feed (body_step fl blk clen rest body a) b = body_step fl blk clen rest body (a ++ b).
Proof.
  intros Hb. unfold body_step.
  assert (Hab : a ++ b <> []) by (destruct a; [exact Hb|discriminate]).
  destruct a as [|x a].
  - destruct clen as [n|].
    + destruct rest as [z|]; cbn [splittable]; [|contradiction].
      cbn [length]. replace (z - Z.of_nat 0)%Z with z by lia.
      destruct (z <=? 0)%Z eqn:Z0; cbn [splittable]; [contradiction|]. intros _.
      cbn [feed app]. unfold HttpFraming.body_step. destruct b as [|y b]; [contradiction|].
      rewrite app_nil_r. reflexivity.
    + destruct kind_resp eqn:K; cbn [splittable]; [|contradiction].
      destruct rest as [z|]; [|contradiction]. intros _. cbn [feed app].
      unfold HttpFraming.body_step. reflexivity.
  - destruct rest as [z|]; cbn [splittable]; [|contradiction].
    destruct (z - Z.of_nat (length (x :: a)) <=? 0)%Z eqn:Z0; cbn [splittable]; [contradiction|]. intros _.
    cbn [feed]. unfold HttpFraming.body_step. destruct b as [|y b]; [contradiction|].
    cbn [app]. rewrite <- app_assoc. cbn [app].
    replace (z - Z.of_nat (length (x :: a)) - Z.of_nat (length (y :: b)))%Z
      with (z - Z.of_nat (length (x :: a ++ y :: b)))%Z by (cbn [length]; rewrite app_length; cbn [length]; lia).
    reflexivity.
Qed.

Lemma heads_law fl i x b : b <> [] -> splittable (heads fl i x) ->
  feed (heads fl i x) b = heads fl i (x ++ b).
Proof.
  intros Hb. unfold heads.
  destruct (list_eqb x CRLF) eqn:E.
  - (* no header fields: request -> done; response -> the crash-next state: both not splittable *)
    destruct (kind_resp && i); cbn [splittable]; [contradiction|].
    unfold HttpFraming.body_step. destruct kind_resp; cbn [splittable]; contradiction.
  - destruct (split_on CRLF2 x) as [[blk r]|] eqn:Sx.
    + assert (E2 : list_eqb (x ++ b) CRLF = false).
      { destruct (list_eqb (x ++ b) CRLF) eqn:E2; [|reflexivity]. apply list_eqb_eq in E2.
        apply split_on_length in Sx. apply (f_equal (@length N)) in E2. rewrite app_length in E2. cbn in *. lia. }
      rewrite E2, (split_on_app CRLF2 CRLF2_ne x blk r b Sx).
      destruct (parse_hd blk) as [[[n|] [|]]|]; cbn [splittable]; try contradiction.
      * apply body_step_law; exact Hb.
      * apply body_step_law; exact Hb.
      * intros Sp. destruct (chunk_adv_shape fl blk _ _ _ _ eq_refl Sp) as (body' & x' & E3).
        rewrite E3. cbn [feed].
        destruct (chunk_adv_law fl blk b (S (length r)) [] r fl blk body' x') as (_ & _ & E4); [lia|exact E3|].
        exact E4.
      * apply body_step_law; exact Hb.
    + intros _. cbn [feed]. unfold heads. reflexivity.
Qed.

(* THE SPLIT LAW: as long as the message is not complete after [a], delivering [a] and then [b]
   is the same as delivering [a ++ b] *)
Theorem feed_split s a b : a <> [] -> b <> [] -> splittable (feed s a) ->
  feed (feed s a) b = feed s (a ++ b).
Proof.
  intros Ha Hb. destruct s as [buf|fl i buf|fl blk clen rest body|fl blk body buf|fl blk body|e| |];
    cbn [feed splittable]; try contradiction.
  - rewrite app_assoc. destruct (split_on CRLF (buf ++ a)) as [[l r]|] eqn:Sx.
    + rewrite (split_on_app CRLF CRLF_ne _ l r b Sx).
      destruct (parse_fl l) as [i|]; cbn [splittable]; [|contradiction].
      apply heads_law; exact Hb.
    + intros _. cbn [feed]. reflexivity.
  - rewrite app_assoc. apply heads_law; exact Hb.
  - apply body_step_law; exact Hb.
  - intros Sp. destruct (chunk_adv_shape fl blk _ _ _ _ eq_refl Sp) as (body' & x' & E3).
    rewrite E3. cbn [feed]. rewrite app_assoc.
    destruct (chunk_adv_law fl blk b (S (length (buf ++ a))) body (buf ++ a) fl blk body' x') as (_ & _ & E4);
      [lia|exact E3|]. exact E4.
Qed.

(* all segmentations: if no proper prefix of the reads already completes (or breaks) the message,
   the reads give what their concatenation gives *)
Definition nonempty (c : list N) : Prop := c <> [].

Theorem run_segmentation : forall cs s, cs <> [] -> Forall nonempty cs ->
  (forall p q, cs = p ++ q -> p <> [] -> q <> [] -> splittable (feed s (concat p))) ->
  run s cs = feed s (concat cs).
Proof.
  induction cs as [|c cs IH]; intros s Hne Hall Hpre; [contradiction|].
  inversion Hall as [|? ? Hc Hcs]; subst.
  destruct cs as [|c2 cs].
  - cbn. now rewrite app_nil_r.
  - change (run s (c :: c2 :: cs)) with (run (feed s c) (c2 :: cs)).
    assert (Sp1 : splittable (feed s c)).
    { specialize (Hpre [c] (c2 :: cs) eq_refl). cbn in Hpre. rewrite app_nil_r in Hpre. apply Hpre; discriminate. }
    rewrite IH; [|discriminate|exact Hcs|].
    + cbn [concat]. inversion Hcs; subst.
      apply feed_split; [exact Hc| |exact Sp1].
      cbn [concat]. unfold nonempty in *. destruct c2; [contradiction|discriminate].
    + intros p q E Hp Hq.
      assert (Hcp : concat p <> []).
      { destruct p as [|p0 p]; [contradiction|]. cbn [app] in E. inversion E; subst. inversion Hcs; subst.
        cbn [concat]. unfold nonempty in *. destruct p0; [contradiction|discriminate]. }
      rewrite (feed_split s c (concat p) Hc Hcp Sp1).
      specialize (Hpre (c :: p) q). cbn [app concat] in Hpre. apply Hpre; [now rewrite E|discriminate|exact Hq].
Qed.
End Laws.
