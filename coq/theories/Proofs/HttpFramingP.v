From Coq Require Import List NArith ZArith Arith Bool Lia ZifyBool.
From Circ Require Import Model.HttpFraming.
Import ListNotations.
Open Scope N_scope.

(* ---------- generic facts about the delimiter search ---------- *)
Lemma is_prefix_spec d : forall x, is_prefix d x = true -> x = d ++ skipn (length d) x.
Proof.
  induction d as [|a d IH]; intros x H; [reflexivity|].
  destruct x as [|b x]; [discriminate|]. cbn in H. apply andb_true_iff in H as [E H].
  apply N.eqb_eq in E. subst b. cbn. f_equal. now apply IH.
Qed.

Lemma is_prefix_app d : forall x b, is_prefix d x = true -> is_prefix d (x ++ b) = true.
Proof.
  induction d as [|a d IH]; intros x b H; [reflexivity|].
  destruct x as [|c x]; [discriminate|]. cbn in *. apply andb_true_iff in H as [E H].
  rewrite E. cbn. now apply IH.
Qed.

Lemma is_prefix_refl d r : is_prefix d (d ++ r) = true.
Proof. induction d as [|a d IH]; [reflexivity|]. cbn. now rewrite N.eqb_refl. Qed.

Lemma skipn_prefix_app d : forall x b, is_prefix d x = true ->
  skipn (length d) (x ++ b) = skipn (length d) x ++ b.
Proof.
  induction d as [|a d IH]; intros x b H; [reflexivity|].
  destruct x as [|c x]; [discriminate|]. cbn in *. apply andb_true_iff in H as [_ H]. now apply IH.
Qed.

Lemma is_prefix_app_inv d : forall x b, is_prefix d (x ++ b) = true -> (length d <= length x)%nat ->
  is_prefix d x = true.
Proof.
  induction d as [|e d IH]; intros x b H L; [reflexivity|].
  destruct x as [|c x]; [cbn in L; lia|]. cbn in *.
  apply andb_true_iff in H as [E H]. rewrite E. cbn. apply (IH x b H). lia.
Qed.

Lemma split_on_length d : forall x l r, split_on d x = Some (l, r) -> (length d <= length x)%nat.
Proof.
  induction x as [|a t IH]; intros l r H.
  - cbn in H. destruct d; [cbn; lia|discriminate].
  - cbn [split_on] in H. destruct (is_prefix d (a :: t)) eqn:P.
    + apply is_prefix_spec in P. rewrite P. rewrite app_length. lia.
    + destruct (split_on d t) as [[l' r']|] eqn:S; [|discriminate].
      specialize (IH _ _ eq_refl). cbn [length]. lia.
Qed.

(* L1: a delimiter found stays found, at the same place, when more bytes arrive *)
Lemma split_on_app d : d <> [] -> forall x l r b, split_on d x = Some (l, r) -> split_on d (x ++ b) = Some (l, r ++ b).
Proof.
  intros Hd. induction x as [|a t IH]; intros l r b H.
  - cbn in H. destruct d; [contradiction|discriminate].
  - cbn [split_on] in H. cbn [app split_on].
    destruct (is_prefix d (a :: t)) eqn:P.
    + inversion H; subst. change (a :: t ++ b) with ((a :: t) ++ b).
      rewrite (is_prefix_app d (a :: t) b P), (skipn_prefix_app d (a :: t) b P). reflexivity.
    + destruct (split_on d t) as [[l' r']|] eqn:S; [|discriminate]. inversion H; subst.
      rewrite (IH l' r b eq_refl).
      destruct (is_prefix d (a :: t ++ b)) eqn:P2; [|reflexivity].
      exfalso. apply split_on_length in S.
      change (a :: t ++ b) with ((a :: t) ++ b) in P2.
      rewrite (is_prefix_app_inv d (a :: t) b P2) in P; [discriminate|cbn [length]; lia].
Qed.

(* L2: what a successful search means *)
Lemma split_on_spec d : forall x l r, split_on d x = Some (l, r) -> x = l ++ d ++ r.
Proof.
  induction x as [|a t IH]; intros l r H.
  - cbn in H. destruct d; [|discriminate]. inversion H. reflexivity.
  - cbn [split_on] in H. destruct (is_prefix d (a :: t)) eqn:P.
    + inversion H; subst. cbn [app]. now apply is_prefix_spec.
    + destruct (split_on d t) as [[l' r']|] eqn:S; [|discriminate]. inversion H; subst.
      cbn [app]. f_equal. now apply IH.
Qed.

(* L3: nothing is found in a prefix that ends before the first occurrence ends *)
Lemma split_on_prefix_none d : d <> [] -> forall p q l r, split_on d (p ++ q) = Some (l, r) ->
  (length p < length l + length d)%nat -> split_on d p = None.
Proof.
  intros Hd p q l r H L. destruct (split_on d p) as [[l' r']|] eqn:S; [|reflexivity]. exfalso.
  pose proof (split_on_app d Hd p l' r' q S) as H2. rewrite H in H2. inversion H2; subst.
  apply split_on_spec in S. subst p. rewrite !app_length in L. lia.
Qed.

Lemma CRLF_ne : CRLF <> []. Proof. discriminate. Qed.
Lemma CRLF2_ne : CRLF2 <> []. Proof. discriminate. Qed.

(* ---------- chunked bodies ---------- *)
Lemma chunk1_take_app x d r b : chunk1 x = CTake d r -> chunk1 (x ++ b) = CTake d (r ++ b).
Proof.
  unfold chunk1. destruct (split_on CRLF x) as [[line rest]|] eqn:S; [|discriminate].
  rewrite (split_on_app CRLF CRLF_ne x line rest b S).
  destruct (chunk_size line) as [n|]; [|discriminate].
  destruct (n =? 0) eqn:Z.
  - destruct (_ || _); discriminate.
  - destruct (N.of_nat (length rest) <? n + 2) eqn:Lt; [discriminate|].
    intros H. inversion H; subst. rewrite app_length.
    assert (L : (N.to_nat n + 2 <= length rest)%nat) by lia.
    replace (N.of_nat (length rest + length b) <? n + 2) with false by lia.
    rewrite firstn_app, skipn_app.
    replace (N.to_nat n - length rest)%nat with 0%nat by lia.
    replace (N.to_nat n + 2 - length rest)%nat with 0%nat by lia.
    cbn [firstn skipn]. now rewrite app_nil_r.
Qed.

Lemma chunk1_take_shrinks x d r : chunk1 x = CTake d r -> (length r < length x)%nat.
Proof.
  unfold chunk1. destruct (split_on CRLF x) as [[line rest]|] eqn:S; [|discriminate].
  apply split_on_spec in S. subst x.
  destruct (chunk_size line) as [n|]; [|discriminate].
  destruct (n =? 0); [destruct (_ || _); discriminate|].
  destruct (_ <? _); [discriminate|]. intros H. inversion H; subst.
  rewrite !app_length, skipn_length. cbn. lia.
Qed.

(* states in which the parser is still waiting for bytes of the current message and will not raise *)
Definition splittable (s : pstate) : Prop :=
  match s with
  | PFirst _ | PHead _ _ _ | PChunk _ _ _ _ => True
  | PBody _ _ _ (Some _) _ => True
  | _ => False
  end.

Section Laws.
Variable kind_resp : bool.
Variable parse_fl : list N -> option bool.
Variable parse_hd : list N -> option (option Z * bool).

Notation feed := (feed kind_resp parse_fl parse_hd).
Notation heads := (heads kind_resp parse_hd).
Notation body_step := (body_step kind_resp).
Notation run := (run kind_resp parse_fl parse_hd).

Lemma chunk_adv_fuel fl blk : forall f1 f2 body x, (length x < f1)%nat -> (length x < f2)%nat ->
  chunk_adv f1 fl blk body x = chunk_adv f2 fl blk body x.
Proof.
  induction f1 as [|f1 IH]; intros f2 body x L1 L2; [lia|].
  destruct f2 as [|f2]; [lia|]. cbn [chunk_adv].
  destruct (chunk1 x) as [| |d r] eqn:C; try reflexivity.
  apply chunk1_take_shrinks in C. apply IH; lia.
Qed.

Lemma chunk_adv_never_out fl blk : forall f body x, (length x < f)%nat -> chunk_adv f fl blk body x <> POutOfFuel.
Proof.
  induction f as [|f IH]; intros body x L; [lia|]. cbn [chunk_adv].
  destruct (chunk1 x) as [| |d r] eqn:C; try discriminate.
  apply chunk1_take_shrinks in C. apply IH. lia.
Qed.

Lemma chunk_adv_take f fl blk body x d r : chunk1 x = CTake d r ->
  chunk_adv (S f) fl blk body x = chunk_adv f fl blk (body ++ d) r.
Proof. intros C. cbn [chunk_adv]. now rewrite C. Qed.

(* consuming complete chunks early or late is the same *)
Lemma chunk_adv_law fl blk b : forall f body x fl' blk' body' x', (length x < f)%nat ->
  chunk_adv f fl blk body x = PChunk fl' blk' body' x' ->
  fl' = fl /\ blk' = blk /\
  chunk_adv (S (length (x' ++ b))) fl blk body' (x' ++ b) = chunk_adv (S (length (x ++ b))) fl blk body (x ++ b).
Proof.
  induction f as [|f IH]; intros body x fl' blk' body' x' L H; [lia|].
  cbn [chunk_adv] in H. destruct (chunk1 x) as [| |d r] eqn:C.
  - inversion H; subst. auto.
  - discriminate.
  - pose proof (chunk1_take_shrinks _ _ _ C) as Sh.
    destruct (IH (body ++ d) r fl' blk' body' x') as (E1 & E2 & E3); [lia|exact H|].
    split; [exact E1|split; [exact E2|]]. rewrite E3.
    rewrite (chunk_adv_take (length (x ++ b)) fl blk body (x ++ b) d (r ++ b) (chunk1_take_app x d r b C)).
    apply chunk_adv_fuel; rewrite !app_length; lia.
Qed.

Lemma chunk_adv_shape fl blk : forall f body x s, chunk_adv f fl blk body x = s -> splittable s ->
  exists body' x', s = PChunk fl blk body' x'.
Proof.
  induction f as [|f IH]; intros body x s H Sp; cbn [chunk_adv] in H.
  - subst s. contradiction.
  - destruct (chunk1 x) as [| |d r].
    + subst s. eauto.
    + subst s. contradiction.
    + eapply IH; eauto.
Qed.

(* ---------- the split law ---------- *)

Lemma list_eqb_eq a : forall b, list_eqb a b = true <-> a = b.
Proof.
  induction a as [|x a IH]; intros [|y b]; cbn; split; intros H; try reflexivity; try discriminate.
  - apply andb_true_iff in H as [E H]. apply N.eqb_eq in E. apply IH in H. now subst.
  - inversion H; subst. rewrite N.eqb_refl. cbn. now apply IH.
Qed.

Lemma body_step_law fl blk clen rest body a b : b <> [] ->
  splittable (body_step fl blk clen rest body a) ->
  feed (body_step fl blk clen rest body a) b = body_step fl blk clen rest body (a ++ b).
Proof.
  intros Hb. unfold body_step.
  assert (Hab : a ++ b <> []) by (destruct a; [exact Hb|discriminate]).
  destruct a as [|x a].
  - destruct clen as [n|].
    + destruct rest as [z|]; cbn [splittable]; [|contradiction].
      cbn [length]. replace (z - Z.of_nat 0)%Z with z by lia.
      destruct (z <=? 0)%Z eqn:Z0; cbn [splittable]; [contradiction|]. intros _.
      cbn [feed app]. unfold HttpFraming.body_step. destruct b as [|y b]; [contradiction|].
      rewrite app_nil_r. reflexivity.
    + destruct kind_resp eqn:K; cbn [splittable]; [|contradiction].
      destruct rest as [z|]; [|contradiction]. intros _. cbn [feed app].
      unfold HttpFraming.body_step. reflexivity.
  - destruct rest as [z|]; cbn [splittable]; [|contradiction].
    destruct (z - Z.of_nat (length (x :: a)) <=? 0)%Z eqn:Z0; cbn [splittable]; [contradiction|]. intros _.
    cbn [feed]. unfold HttpFraming.body_step. destruct b as [|y b]; [contradiction|].
    cbn [app]. rewrite <- app_assoc. cbn [app].
    replace (z - Z.of_nat (length (x :: a)) - Z.of_nat (length (y :: b)))%Z
      with (z - Z.of_nat (length (x :: a ++ y :: b)))%Z by (cbn [length]; rewrite app_length; cbn [length]; lia).
    reflexivity.
Qed.

Lemma heads_law fl i x b : b <> [] -> splittable (heads fl i x) ->
  feed (heads fl i x) b = heads fl i (x ++ b).
Proof.
  intros Hb. unfold heads.
  destruct (is_prefix CRLF x) eqn:E.
  - (* empty header section *)
    rewrite (is_prefix_app CRLF x b E).
    change 2%nat with (length CRLF). rewrite (skipn_prefix_app CRLF x b E).
    destruct (skipn (length CRLF) x) as [|c r] eqn:R.
    + destruct (kind_resp && i) eqn:K; cbn [andb splittable]; [contradiction|].
      destruct b as [|y b]; [contradiction|]. cbn [app andb].
      apply (body_step_law fl [] None (Some maxsize) [] [] (y :: b)). discriminate.
    + cbn [app]. rewrite !andb_false_r. apply body_step_law; exact Hb.
  - destruct (is_prefix CRLF (x ++ b)) eqn:E2.
    + (* the empty line completed by b: x is [] or [CR], nothing found in x *)
      destruct (split_on CRLF2 x) as [[blk r]|] eqn:Sx.
      * exfalso. apply split_on_length in Sx.
        rewrite (is_prefix_app_inv CRLF x b E2) in E; [discriminate|cbn in *; lia].
      * intros _. cbn [feed]. unfold heads. rewrite E2. reflexivity.
    + destruct (split_on CRLF2 x) as [[blk r]|] eqn:Sx.
      * rewrite (split_on_app CRLF2 CRLF2_ne x blk r b Sx).
        destruct (parse_hd blk) as [[[n|] [|]]|]; cbn [splittable]; try contradiction.
        -- apply body_step_law; exact Hb.
        -- apply body_step_law; exact Hb.
        -- intros Sp. destruct (chunk_adv_shape fl blk _ _ _ _ eq_refl Sp) as (body' & x' & E3).
           rewrite E3. cbn [feed].
           destruct (chunk_adv_law fl blk b (S (length r)) [] r fl blk body' x') as (_ & _ & E4); [lia|exact E3|].
           exact E4.
        -- apply body_step_law; exact Hb.
      * intros _. cbn [feed]. unfold heads. rewrite E2. reflexivity.
Qed.

(* THE SPLIT LAW: as long as the message is not complete after [a], delivering [a] and then [b]
   is the same as delivering [a ++ b] *)
Theorem feed_split s a b : a <> [] -> b <> [] -> splittable (feed s a) ->
  feed (feed s a) b = feed s (a ++ b).
Proof.
  intros Ha Hb. destruct s as [buf|fl i buf|fl blk clen rest body|fl blk body buf|fl blk body|e| |];
    cbn [feed splittable]; try contradiction.
  - rewrite app_assoc. destruct (split_on CRLF (buf ++ a)) as [[l r]|] eqn:Sx.
    + rewrite (split_on_app CRLF CRLF_ne _ l r b Sx).
      destruct (parse_fl l) as [i|]; cbn [splittable]; [|contradiction].
      apply heads_law; exact Hb.
    + intros _. cbn [feed]. reflexivity.
  - rewrite app_assoc. apply heads_law; exact Hb.
  - apply body_step_law; exact Hb.
  - intros Sp. destruct (chunk_adv_shape fl blk _ _ _ _ eq_refl Sp) as (body' & x' & E3).
    rewrite E3. cbn [feed]. rewrite app_assoc.
    destruct (chunk_adv_law fl blk b (S (length (buf ++ a))) body (buf ++ a) fl blk body' x') as (_ & _ & E4);
      [lia|exact E3|]. exact E4.
Qed.

(* all segmentations: if no proper prefix of the reads already completes (or breaks) the message,
   the reads give what their concatenation gives *)
Definition nonempty (c : list N) : Prop := c <> [].

Theorem run_segmentation : forall cs s, cs <> [] -> Forall nonempty cs ->
  (forall p q, cs = p ++ q -> p <> [] -> q <> [] -> splittable (feed s (concat p))) ->
  run s cs = feed s (concat cs).
Proof.
  induction cs as [|c cs IH]; intros s Hne Hall Hpre; [contradiction|].
  inversion Hall as [|? ? Hc Hcs]; subst.
  destruct cs as [|c2 cs].
  - cbn. now rewrite app_nil_r.
  - change (run s (c :: c2 :: cs)) with (run (feed s c) (c2 :: cs)).
    assert (Sp1 : splittable (feed s c)).
    { specialize (Hpre [c] (c2 :: cs) eq_refl). cbn in Hpre. rewrite app_nil_r in Hpre. apply Hpre; discriminate. }
    rewrite IH; [|discriminate|exact Hcs|].
    + cbn [concat]. inversion Hcs; subst.
      apply feed_split; [exact Hc| |exact Sp1].
      cbn [concat]. unfold nonempty in *. destruct c2; [contradiction|discriminate].
    + intros p q E Hp Hq.
      assert (Hcp : concat p <> []).
      { destruct p as [|p0 p]; [contradiction|]. cbn [app] in E. inversion E; subst. inversion Hcs; subst.
        cbn [concat]. unfold nonempty in *. destruct p0; [contradiction|discriminate]. }
      rewrite (feed_split s c (concat p) Hc Hcp Sp1).
      specialize (Hpre (c :: p) q). cbn [app concat] in Hpre. apply Hpre; [now rewrite E|discriminate|exact Hq].
Qed.
End Laws.

(* ================= well-formed messages ================= *)

(* the parser is waiting for more bytes of the current message, and so are the components around it *)
Definition waiting (s : pstate) : Prop :=
  match s with
  | PFirst _ | PHead _ _ _ | PChunk _ _ _ _ => True
  | PBody _ _ (Some _) (Some _) _ => True
  | _ => False
  end.

Lemma waiting_splittable s : waiting s -> splittable s.
Proof. destruct s as [| | ? ? [?|] [?|] ?| | | | |]; cbn; auto. Qed.

(* ---- chunked transfer coding: grammar of a well-formed chunk stream ---- *)
Record chunk := { c_line : list N; c_data : list N }.

(* size line (hex size, optional extensions) without CRLF inside, announcing exactly the data that follow *)
Definition wf_chunk (c : chunk) : Prop :=
  split_on CRLF (c_line c ++ CRLF) = Some (c_line c, []) /\
  chunk_size (c_line c) = Some (N.of_nat (length (c_data c))) /\
  c_data c <> [].
Definition chunk_bytes (c : chunk) : list N := c_line c ++ CRLF ++ c_data c ++ CRLF.

(* last chunk line zl (size 0) and the trailer section T: either just CRLF, or trailer fields ended by an
   empty line (T's first CRLFCRLF is its end, and T does not start with CRLF) *)
Definition wf_last (zl T : list N) : Prop :=
  split_on CRLF (zl ++ CRLF) = Some (zl, []) /\
  chunk_size zl = Some 0 /\
  (T = CRLF \/ (is_prefix CRLF T = false /\ exists tr, T = tr ++ CRLF2 /\ split_on CRLF2 T = Some (tr, []))).

Definition chunked_bytes (cks : list chunk) (zl T : list N) : list N :=
  concat (map chunk_bytes cks) ++ zl ++ CRLF ++ T.
Definition chunked_body (cks : list chunk) : list N := concat (map c_data cks).

Lemma line_prefix_none l p w : split_on CRLF (l ++ CRLF) = Some (l, []) -> l ++ CRLF = p ++ w -> w <> [] ->
  split_on CRLF p = None.
Proof.
  intros Hl E Hw. apply (split_on_prefix_none CRLF CRLF_ne p w l []); [now rewrite <- E|].
  apply (f_equal (@length N)) in E. rewrite !app_length in E. cbn in *.
  destruct w; [contradiction|cbn in E; lia].
Qed.

Lemma line_found l r : split_on CRLF (l ++ CRLF) = Some (l, []) -> split_on CRLF ((l ++ CRLF) ++ r) = Some (l, r).
Proof. intros Hl. apply (split_on_app CRLF CRLF_ne _ _ _ r Hl). Qed.

Lemma chunk1_wait_in_chunk c p w : wf_chunk c -> chunk_bytes c = p ++ w -> w <> [] -> chunk1 p = CWait.
Proof.
  intros (Hl & Hs & Hd) E Hw. unfold chunk_bytes in E.
  change (c_line c ++ CRLF ++ c_data c ++ CRLF) with (c_line c ++ CRLF ++ (c_data c ++ CRLF)) in E.
  rewrite app_assoc in E. apply app_eq_app in E as [l [[E1 E2]|[E1 E2]]].
  - destruct l as [|x l].
    + rewrite app_nil_r in E1. subst p. unfold chunk1.
      rewrite <- (app_nil_r (c_line c ++ CRLF)), (line_found _ [] Hl), Hs.
      destruct (N.of_nat (length (c_data c)) =? 0) eqn:Z0.
      { destruct (c_data c); [contradiction|cbn in Z0; lia]. }
      cbn [length]. replace (N.of_nat 0 <? N.of_nat (length (c_data c)) + 2) with true by lia. reflexivity.
    + unfold chunk1. rewrite (line_prefix_none _ p (x :: l) Hl E1); [reflexivity|discriminate].
  - subst p. unfold chunk1. rewrite (line_found _ l Hl), Hs.
    destruct (N.of_nat (length (c_data c)) =? 0) eqn:Z0.
    { destruct (c_data c); [contradiction|cbn in Z0; lia]. }
    apply (f_equal (@length N)) in E2. rewrite !app_length in E2. cbn in E2.
    replace (N.of_nat (length l) <? N.of_nat (length (c_data c)) + 2) with true; [reflexivity|].
    destruct w; [contradiction|cbn in E2; lia].
Qed.

Lemma chunk1_take_whole c r : wf_chunk c -> chunk1 (chunk_bytes c ++ r) = CTake (c_data c) r.
Proof.
  intros (Hl & Hs & Hd). unfold chunk_bytes, chunk1.
  replace ((c_line c ++ CRLF ++ c_data c ++ CRLF) ++ r) with ((c_line c ++ CRLF) ++ (c_data c ++ CRLF ++ r))
    by (rewrite <- !app_assoc; reflexivity).
  rewrite (line_found _ _ Hl), Hs.
  destruct (N.of_nat (length (c_data c)) =? 0) eqn:Z0.
  { destruct (c_data c); [contradiction|cbn in Z0; lia]. }
  destruct (N.of_nat (length (c_data c ++ CRLF ++ r)) <? N.of_nat (length (c_data c)) + 2) eqn:Lt.
  { rewrite !app_length in Lt. cbn [length CRLF] in Lt. lia. }
  rewrite Nat2N.id. rewrite firstn_app, Nat.sub_diag, firstn_all. cbn [firstn]. rewrite app_nil_r.
  rewrite skipn_app. replace (length (c_data c) + 2 - length (c_data c))%nat with 2%nat by lia.
  rewrite skipn_all2 by lia. reflexivity.
Qed.

Lemma last_wait zl T p w : wf_last zl T -> zl ++ CRLF ++ T = p ++ w -> w <> [] -> chunk1 p = CWait.
Proof.
  intros (Hl & Hs & HT) E Hw. rewrite app_assoc in E. apply app_eq_app in E as [l [[E1 E2]|[E1 E2]]].
  - destruct l as [|x l].
    + rewrite app_nil_r in E1. subst p. unfold chunk1.
      rewrite <- (app_nil_r (zl ++ CRLF)), (line_found _ [] Hl), Hs. reflexivity.
    + unfold chunk1. rewrite (line_prefix_none _ p (x :: l) Hl E1); [reflexivity|discriminate].
  - subst p. unfold chunk1. rewrite (line_found _ l Hl), Hs. cbn [N.eqb].
    destruct HT as [HT|(H0 & tr & HT & HS)].
    + subst T. destruct l as [|a [|b l]].
      * reflexivity.
      * cbn in E2. inversion E2; subst. reflexivity.
      * cbn in E2. inversion E2 as [[Ea Eb El]]. destruct l; [|discriminate].
        cbn in El. subst w. contradiction.
    + destruct (is_prefix CRLF l) eqn:P.
      { rewrite E2, (is_prefix_app CRLF l w P) in H0. discriminate. }
      cbn [orb]. rewrite (split_on_prefix_none CRLF2 CRLF2_ne l w tr []); [reflexivity|now rewrite <- E2|].
      rewrite E2 in HT. apply (f_equal (@length N)) in HT. rewrite !app_length in HT. cbn in *.
      destruct w; [contradiction|cbn in HT; lia].
Qed.

Lemma last_done zl T : wf_last zl T -> chunk1 (zl ++ CRLF ++ T) = CDone.
Proof.
  intros (Hl & Hs & HT). unfold chunk1. rewrite app_assoc, (line_found _ T Hl), Hs. cbn [N.eqb].
  destruct HT as [HT|(H0 & tr & HT & HS)].
  - subst T. reflexivity.
  - rewrite HS, orb_true_r. reflexivity.
Qed.

Lemma chunked_prefix fl blk cks zl T : Forall wf_chunk cks -> wf_last zl T ->
  forall f body0 p w, chunked_bytes cks zl T = p ++ w -> w <> [] -> (length p < f)%nat ->
  exists body' x', chunk_adv f fl blk body0 p = PChunk fl blk body' x'.
Proof.
  intros Hc Hl. induction Hc as [|c cks Hc Hcs IH]; intros f body0 p w E Hw Lf.
  - unfold chunked_bytes in E. cbn [map concat app] in E.
    destruct f as [|f]; [lia|]. cbn [chunk_adv]. rewrite (last_wait zl T p w Hl E Hw). eauto.
  - unfold chunked_bytes in E. cbn [map concat] in E. rewrite <- app_assoc in E.
    fold (chunked_bytes cks zl T) in E.
    destruct f as [|f]; [lia|]. cbn [chunk_adv].
    apply app_eq_app in E as [l [[E1 E2]|[E1 E2]]].
    + destruct l as [|x l].
      * rewrite app_nil_r in E1. subst p. cbn [app] in E2. subst w.
        rewrite <- (app_nil_r (chunk_bytes c)), (chunk1_take_whole c [] Hc).
        apply (IH f (body0 ++ c_data c) [] (chunked_bytes cks zl T)); [reflexivity|exact Hw|].
        unfold chunk_bytes in Lf. rewrite !app_length in Lf. cbn in *. lia.
      * rewrite (chunk1_wait_in_chunk c p (x :: l) Hc E1); [eauto|discriminate].
    + subst p. rewrite (chunk1_take_whole c l Hc).
      apply (IH f (body0 ++ c_data c) l w E2 Hw).
      unfold chunk_bytes in Lf. rewrite !app_length in Lf. cbn in *. lia.
Qed.

Lemma chunked_done fl blk cks zl T : Forall wf_chunk cks -> wf_last zl T ->
  forall f body0, (length (chunked_bytes cks zl T) < f)%nat ->
  chunk_adv f fl blk body0 (chunked_bytes cks zl T) = PDone fl blk (body0 ++ chunked_body cks).
Proof.
  intros Hc Hl. induction Hc as [|c cks Hc Hcs IH]; intros f body0 Lf.
  - unfold chunked_bytes, chunked_body in *. cbn [map concat app] in *.
    destruct f as [|f]; [lia|]. cbn [chunk_adv]. rewrite (last_done zl T Hl), app_nil_r. reflexivity.
  - unfold chunked_bytes, chunked_body in *. cbn [map concat] in *. rewrite <- app_assoc in *.
    destruct f as [|f]; [lia|]. cbn [chunk_adv]. rewrite (chunk1_take_whole c _ Hc).
    rewrite IH; [now rewrite app_assoc|].
    assert (Lc : (0 < length (chunk_bytes c))%nat) by (unfold chunk_bytes; rewrite !app_length; cbn; lia). rewrite app_length in Lf. lia.
Qed.

Section WF.
Variable kind_resp : bool.
Variable parse_fl : list N -> option bool.
Variable parse_hd : list N -> option (option Z * bool).

Notation feed := (feed kind_resp parse_fl parse_hd).
Notation heads := (heads kind_resp parse_hd).
Notation body_step := (body_step kind_resp).
Notation run := (run kind_resp parse_fl parse_hd).

(* the header section HS as sent (everything between the first line's CRLF and the body), the block blk
   handed to the header parser, the framing information it yields, and hl = "no header field at all":
   - fields: HS = blk CRLF CRLF, whose only CRLFCRLF is the final one and which does not start with CRLF
     (blk may contain any line structure, in particular obs-fold continuation lines: see header_block_wf);
   - empty : HS = CRLF *)
Inductive wf_hsec (HS blk : list N) (clen : option Z) (chunked hl : bool) : Prop :=
| hs_fields : HS = blk ++ CRLF2 -> split_on CRLF2 HS = Some (blk, []) -> is_prefix CRLF HS = false ->
              parse_hd blk = Some (clen, chunked) -> hl = false -> wf_hsec HS blk clen chunked hl
| hs_empty : HS = CRLF -> blk = [] -> clen = None -> chunked = false -> hl = true ->
             wf_hsec HS blk clen chunked hl.

(* first line L (no CRLF inside, accepted by the first-line parser) + header section *)
Record wf_head (L HS blk : list N) (i204 : bool) (clen : option Z) (chunked hl : bool) : Prop := {
  wf_L : split_on CRLF (L ++ CRLF) = Some (L, []);
  wf_fl : parse_fl L = Some i204;
  wf_HS : wf_hsec HS blk clen chunked hl }.

(* the body B as sent and the decoded body, for messages that are complete by themselves *)
Definition wf_body (i204 hl : bool) (clen : option Z) (chunked : bool) (B body : list N) : Prop :=
  match clen with
  | Some n => Z.of_nat (length B) = n /\ body = B
  | None => if chunked
            then exists cks zl T, Forall wf_chunk cks /\ wf_last zl T /\
                                  B = chunked_bytes cks zl T /\ body = chunked_body cks
            else B = [] /\ body = [] /\
                 (kind_resp = false \/ (hl = true /\ i204 = true))   (* request without body; 204 without fields *)
  end.

Definition msg_bytes (L HS B : list N) : list N := L ++ CRLF ++ HS ++ B.

(* state right after the header section, r = the bytes that followed it in the same buffer *)
Definition enter (L blk : list N) (i204 hl : bool) (clen : option Z) (chunked : bool) (r : list N) : pstate :=
  if hl && (kind_resp && i204) && (match r with [] => true | _ => false end) then PDone L [] []
  else match clen with
       | Some n => body_step L blk (Some n) (Some n) [] r
       | None => if chunked then chunk_adv (S (length r)) L blk [] r
                 else body_step L blk None (Some maxsize) [] r
       end.

Section Head.
Variables (L HS blk : list N) (i204 : bool) (clen : option Z) (chunked hl : bool).
Hypothesis WH : wf_head L HS blk i204 clen chunked hl.

Lemma HS_nonempty : HS <> [].
Proof. destruct (wf_HS _ _ _ _ _ _ _ WH) as [E _ _ _ _|E _ _ _ _]; subst HS; [destruct blk|]; discriminate. Qed.

Lemma feed_first_prefix p w : L ++ CRLF = p ++ w -> w <> [] -> feed (PFirst []) p = PFirst p.
Proof.
  intros E Hw. cbn [HttpFraming.feed app]. now rewrite (line_prefix_none L p w (wf_L _ _ _ _ _ _ _ WH) E Hw).
Qed.

Lemma feed_head_prefix x w : HS = x ++ w -> w <> [] ->
  feed (PFirst []) (L ++ CRLF ++ x) = PHead L i204 x.
Proof.
  intros E Hw. cbn [HttpFraming.feed app]. rewrite app_assoc, (line_found L x (wf_L _ _ _ _ _ _ _ WH)).
  rewrite (wf_fl _ _ _ _ _ _ _ WH). unfold HttpFraming.heads.
  assert (Lw : (0 < length w)%nat) by (destruct w; [contradiction|cbn; lia]).
  destruct (wf_HS _ _ _ _ _ _ _ WH) as [E1 E2 E3 _ _|E1 _ _ _ _].
  - destruct (is_prefix CRLF x) eqn:Ex.
    + rewrite E, (is_prefix_app CRLF x w Ex) in E3. discriminate.
    + rewrite (split_on_prefix_none CRLF2 CRLF2_ne x w blk []); [reflexivity|now rewrite <- E|].
      rewrite E1 in E. apply (f_equal (@length N)) in E. rewrite !app_length in E. cbn in *. lia.
  - rewrite E1 in E. destruct x as [|a [|b x]].
    + reflexivity.
    + cbn in E. inversion E; subst. reflexivity.
    + cbn in E. inversion E as [[Ea Eb Ex]]. destruct x; [|discriminate]. cbn in Ex. subst w. contradiction.
Qed.

Lemma feed_head_done r : feed (PFirst []) (L ++ CRLF ++ HS ++ r) = enter L blk i204 hl clen chunked r.
Proof.
  cbn [HttpFraming.feed app]. rewrite app_assoc, (line_found L _ (wf_L _ _ _ _ _ _ _ WH)).
  rewrite (wf_fl _ _ _ _ _ _ _ WH). unfold HttpFraming.heads, enter.
  destruct (wf_HS _ _ _ _ _ _ _ WH) as [E1 E2 E3 E4 E5|E1 E2 E3 E4 E5].
  - destruct (is_prefix CRLF (HS ++ r)) eqn:Ex.
    + rewrite (is_prefix_app_inv CRLF HS r Ex) in E3; [discriminate|].
      apply split_on_length in E2. cbn in *. lia.
    + rewrite (split_on_app CRLF2 CRLF2_ne _ _ _ r E2), E4. subst hl. cbn [app andb].
      destruct clen as [n|]; [reflexivity|]. destruct chunked; reflexivity.
  - subst HS blk clen chunked hl. cbn [app is_prefix CRLF]. rewrite !N.eqb_refl. cbn [andb skipn].
    reflexivity.
Qed.

(* every proper prefix of the message leaves a state satisfying P, if the pre-body phases and the states
   entered after the header section do *)
Lemma msg_prefix_P (P : pstate -> Prop) B :
  (forall b, P (PFirst b)) -> (forall fl i b, P (PHead fl i b)) ->
  (forall b1 w, B = b1 ++ w -> w <> [] -> P (enter L blk i204 hl clen chunked b1)) ->
  forall p w, w <> [] -> msg_bytes L HS B = p ++ w -> P (feed (PFirst []) p).
Proof.
  intros P1 P2 Hpre p w Hw E. unfold msg_bytes in E. rewrite app_assoc in E.
  apply app_eq_app in E as [l [[E1 E2]|[E1 E2]]].
  - destruct l as [|x l].
    + rewrite app_nil_r in E1. subst p.
      rewrite <- (app_nil_r (L ++ CRLF)), <- app_assoc.
      rewrite (feed_head_prefix [] HS); [apply P2|reflexivity|apply HS_nonempty].
    + rewrite (feed_first_prefix p (x :: l) E1); [apply P1|discriminate].
  - subst p. rewrite <- app_assoc. apply app_eq_app in E2 as [l2 [[E3 E4]|[E3 E4]]].
    + destruct l2 as [|x l2].
      * rewrite app_nil_r in E3. subst l. cbn [app] in E4. subst w.
        rewrite <- (app_nil_r HS). rewrite feed_head_done. apply (Hpre [] B eq_refl Hw).
      * rewrite (feed_head_prefix l (x :: l2) E3); [apply P2|discriminate].
    + subst l. rewrite feed_head_done. apply (Hpre l2 w E4 Hw).
Qed.

Lemma hl_cases : hl = false \/ (hl = true /\ clen = None /\ chunked = false /\ blk = []).
Proof. destruct (wf_HS _ _ _ _ _ _ _ WH) as [_ _ _ _ E|_ E1 E2 E3 E4]; auto. Qed.

Lemma enter_prefix B body : wf_body i204 hl clen chunked B body ->
  forall b1 w, B = b1 ++ w -> w <> [] -> waiting (enter L blk i204 hl clen chunked b1).
Proof.
  unfold wf_body, enter. intros WB b1 w E Hw. pose proof hl_cases as HC.
  assert (Lw : (0 < length w)%nat) by (destruct w; [contradiction|cbn; lia]).
  destruct clen as [n|].
  - assert (Hh : hl = false) by (destruct HC as [?|(_ & ? & _)]; [assumption|discriminate]).
    rewrite Hh. cbn [andb]. destruct WB as [Hn _]. subst B. rewrite app_length in Hn.
    unfold HttpFraming.body_step. destruct b1 as [|x b1].
    + cbn [length]. replace (n - Z.of_nat 0 <=? 0)%Z with false by (cbn in Hn; lia). exact I.
    + replace (n - Z.of_nat (length (x :: b1)) <=? 0)%Z with false by lia. exact I.
  - destruct chunked.
    + assert (Hh : hl = false) by (destruct HC as [?|(_ & _ & ? & _)]; [assumption|discriminate]).
      rewrite Hh. cbn [andb]. destruct WB as (cks & zl & T & Hc & Hl & EB & _). subst B.
      destruct (chunked_prefix L blk cks zl T Hc Hl (S (length b1)) [] b1 w E Hw) as (b' & x' & E2); [lia|].
      rewrite E2. exact I.
    + destruct WB as (EB & _). subst B. destruct b1; [|discriminate]. cbn in E. subst w. contradiction.
Qed.

Lemma enter_done B body : wf_body i204 hl clen chunked B body ->
  enter L blk i204 hl clen chunked B = PDone L blk body.
Proof.
  unfold wf_body, enter. intros WB. pose proof hl_cases as HC. destruct clen as [n|].
  - assert (Hh : hl = false) by (destruct HC as [?|(_ & ? & _)]; [assumption|discriminate]).
    rewrite Hh. cbn [andb]. destruct WB as [Hn Eb]. subst body. unfold HttpFraming.body_step. destruct B as [|x B].
    + cbn in Hn. subst n. reflexivity.
    + replace (n - Z.of_nat (length (x :: B)) <=? 0)%Z with true by lia. reflexivity.
  - destruct chunked.
    + assert (Hh : hl = false) by (destruct HC as [?|(_ & _ & ? & _)]; [assumption|discriminate]).
      rewrite Hh. cbn [andb]. destruct WB as (cks & zl & T & Hc & Hl & EB & Eb). subst B body.
      rewrite (chunked_done L blk cks zl T Hc Hl); [reflexivity|lia].
    + destruct WB as (EB & Eb & K). subst B body. rewrite andb_true_r.
      destruct (hl && (kind_resp && i204)) eqn:C.
      * apply andb_true_iff in C as [Hh _]. destruct HC as [HC|(_ & _ & _ & HC)]; [congruence|]. now rewrite HC.
      * unfold HttpFraming.body_step. destruct K as [K|[K1 K2]].
        -- now rewrite K.
        -- subst hl i204. cbn in C. rewrite andb_true_r in C. now rewrite C.
Qed.

(* THE MESSAGE THEOREM: every segmentation of a well-formed message into non-empty reads ends in the same
   completed state, carrying the first line, the header block and the decoded body *)
Theorem message_segmentation B body : wf_body i204 hl clen chunked B body ->
  forall cs, Forall nonempty cs -> concat cs = msg_bytes L HS B ->
  run (PFirst []) cs = PDone L blk body.
Proof.
  intros WB cs Hall E.
  assert (Hne : cs <> []).
  { intros ->. cbn in E. unfold msg_bytes in E. destruct L; discriminate. }
  rewrite (run_segmentation kind_resp parse_fl parse_hd cs (PFirst []) Hne Hall).
  - rewrite E. unfold msg_bytes. rewrite feed_head_done. now apply enter_done.
  - intros p q Ec Hp Hq. apply waiting_splittable.
    apply (msg_prefix_P waiting B (fun _ => I) (fun _ _ _ => I) (enter_prefix B body WB) (concat p) (concat q)).
    + subst cs. apply Forall_app in Hall as [_ Hq2]. destruct q as [|q0 q]; [contradiction|].
      inversion Hq2; subst. cbn [concat]. unfold nonempty in *. destruct q0; [contradiction|discriminate].
    + rewrite <- E, Ec, concat_app. reflexivity.
Qed.

Lemma concat_nonempty (q : list (list N)) : Forall nonempty q -> q <> [] -> concat q <> [].
Proof.
  intros Hq Hne. destruct q as [|q0 q]; [contradiction|]. inversion Hq; subst.
  cbn [concat]. unfold nonempty in *. destruct q0; [contradiction|discriminate].
Qed.

(* states reached by the proper prefixes of a segmentation, for any predicate implied as above *)
Lemma prefix_runs_P (P : pstate -> Prop) B : (forall s, P s -> splittable s) ->
  (forall b, P (PFirst b)) -> (forall fl i b, P (PHead fl i b)) ->
  (forall b1 w, B = b1 ++ w -> w <> [] -> P (enter L blk i204 hl clen chunked b1)) ->
  forall p q, Forall nonempty (p ++ q) -> p <> [] -> q <> [] -> concat (p ++ q) = msg_bytes L HS B ->
  P (run (PFirst []) p).
Proof.
  intros PS P1 P2 Hpre p q Hall Hp Hq E.
  assert (Wt : forall p' q', p' ++ q' = p ++ q -> q' <> [] -> P (feed (PFirst []) (concat p'))).
  { intros p' q' Epq Hq'. apply (msg_prefix_P P B P1 P2 Hpre (concat p') (concat q')).
    - rewrite <- Epq in Hall. apply Forall_app in Hall as [_ Hq2]. now apply concat_nonempty.
    - rewrite <- E, <- Epq, concat_app. reflexivity. }
  apply Forall_app in Hall as [Hp2 _].
  rewrite (run_segmentation kind_resp parse_fl parse_hd p (PFirst []) Hp Hp2).
  - apply (Wt p q eq_refl Hq).
  - intros p1 p2 Ep Hp1 Hp2'. apply PS. apply (Wt p1 (p2 ++ q)).
    + now rewrite Ep, app_assoc.
    + destruct p2; [contradiction|discriminate].
Qed.

Lemma message_prefix_waiting B body : wf_body i204 hl clen chunked B body ->
  forall p q, Forall nonempty (p ++ q) -> p <> [] -> q <> [] -> concat (p ++ q) = msg_bytes L HS B ->
  waiting (run (PFirst []) p).
Proof.
  intros WB. apply (prefix_runs_P waiting B waiting_splittable (fun _ => I) (fun _ _ _ => I) (enter_prefix B body WB)).
Qed.

(* ---- messages delimited by the end of the connection: responses without Content-Length that are not
   chunked (any status, 204/304 included; header section with fields or empty). They never complete by
   themselves: the state after the bytes received so far is the same for every segmentation ---- *)
Definition until_close_state (B : list N) : pstate :=
  PBody L blk None (Some (maxsize - Z.of_nat (length B))%Z) B.

Lemma enter_until_close r : kind_resp = true -> clen = None -> chunked = false -> hl && i204 = false ->
  (Z.of_nat (length r) < maxsize)%Z ->
  enter L blk i204 hl clen chunked r = until_close_state r.
Proof.
  intros K -> -> Hh Lr. unfold enter, until_close_state. rewrite K. cbn [andb].
  replace (hl && i204 && match r with [] => true | _ :: _ => false end) with false by (now rewrite Hh).
  unfold HttpFraming.body_step. destruct r as [|x r].
  - cbn [length]. replace (maxsize - Z.of_nat 0)%Z with maxsize by lia. reflexivity.
  - replace (maxsize - Z.of_nat (length (x :: r)) <=? 0)%Z with false by lia. reflexivity.
Qed.

Theorem until_close_segmentation B : kind_resp = true -> clen = None -> chunked = false -> hl && i204 = false ->
  (Z.of_nat (length B) < maxsize)%Z ->
  forall cs, Forall nonempty cs -> concat cs = msg_bytes L HS B ->
  run (PFirst []) cs = until_close_state B /\
  (forall p q, cs = p ++ q -> p <> [] -> q <> [] -> splittable (run (PFirst []) p)).
Proof.
  intros K Ec Ech Hh LB cs Hall E.
  assert (Hne : cs <> []).
  { intros ->. cbn in E. unfold msg_bytes in E. destruct L; discriminate. }
  assert (Hpre : forall b1 w, B = b1 ++ w -> w <> [] -> splittable (enter L blk i204 hl clen chunked b1)).
  { intros b1 w EB Hw. rewrite enter_until_close; auto; [exact I|].
    subst B. rewrite app_length in LB. lia. }
  split.
  - rewrite (run_segmentation kind_resp parse_fl parse_hd cs (PFirst []) Hne Hall).
    + rewrite E. unfold msg_bytes. rewrite feed_head_done. now apply enter_until_close.
    + intros p q Ecs Hp Hq.
      apply (msg_prefix_P splittable B (fun _ => I) (fun _ _ _ => I) Hpre (concat p) (concat q)).
      * subst cs. apply Forall_app in Hall as [_ Hq2]. now apply concat_nonempty.
      * rewrite <- E, Ecs, concat_app. reflexivity.
  - intros p q Ecs Hp Hq. subst cs.
    apply (prefix_runs_P splittable B (fun s H => H) (fun _ => I) (fun _ _ _ => I) Hpre p q Hall Hp Hq E).
Qed.
End Head.
End WF.

(* ---- header blocks made of lines: obs-fold continuation lines are just lines that start with SP / HT ---- *)
Definition clean_line (l : list N) : Prop := l <> [] /\ Forall (fun c => c <> CR /\ c <> LF) l.
Fixpoint join_lines (ls : list (list N)) : list N :=
  match ls with
  | [] => []
  | [l] => l
  | l :: r => l ++ CRLF ++ join_lines r
  end.

Lemma split2_clean_app l x : Forall (fun c => c <> CR /\ c <> LF) l ->
  split_on CRLF2 (l ++ x) = match split_on CRLF2 x with Some (a, r) => Some (l ++ a, r) | None => None end.
Proof.
  induction 1 as [|c l [Hc _] _ IH]; cbn [app].
  - destruct (split_on CRLF2 x) as [[a r]|]; reflexivity.
  - cbn [split_on]. replace (is_prefix CRLF2 (c :: l ++ x)) with false.
    + rewrite IH. destruct (split_on CRLF2 x) as [[a r]|]; reflexivity.
    + unfold CRLF2. cbn [is_prefix]. destruct (N.eqb_spec CR c) as [E|_]; [exfalso; apply Hc; now rewrite <- E|reflexivity].
Qed.

Lemma split_on_cons d a t : is_prefix d (a :: t) = false ->
  split_on d (a :: t) = match split_on d t with Some (l, r) => Some (a :: l, r) | None => None end.
Proof. intros H. cbn [split_on]. now rewrite H. Qed.

Lemma split2_crlf_line c l x : c <> CR -> c <> LF ->
  split_on CRLF2 (CRLF ++ c :: l ++ x) =
  match split_on CRLF2 (c :: l ++ x) with Some (a, r) => Some (CRLF ++ a, r) | None => None end.
Proof.
  intros H1 H2. cbn [CRLF app].
  assert (E1 : is_prefix CRLF2 (CR :: LF :: c :: l ++ x) = false).
  { unfold CRLF2. cbn [is_prefix]. rewrite !N.eqb_refl. cbn [andb].
    destruct (N.eqb_spec CR c) as [E|_]; [exfalso; apply H1; now rewrite <- E|reflexivity]. }
  assert (E2 : is_prefix CRLF2 (LF :: c :: l ++ x) = false) by reflexivity.
  rewrite (split_on_cons _ _ _ E1), (split_on_cons _ _ _ E2).
  destruct (split_on CRLF2 (c :: l ++ x)) as [[a r]|]; reflexivity.
Qed.

(* any non-empty list of non-empty lines without CR / LF inside, joined by CRLF, is a header block in the
   sense of wf_hsec: followed by CRLF CRLF its only CRLFCRLF is the final one, and it does not start with CRLF *)
Theorem header_block_wf ls : ls <> [] -> Forall clean_line ls ->
  split_on CRLF2 (join_lines ls ++ CRLF2) = Some (join_lines ls, []) /\
  is_prefix CRLF (join_lines ls ++ CRLF2) = false.
Proof.
  intros Hne Hall. split.
  - induction Hall as [|l r [Hl Hc] Hr IH]; [contradiction|].
    destruct r as [|l2 r].
    + cbn [join_lines]. rewrite (split2_clean_app l CRLF2 Hc). cbn. now rewrite app_nil_r.
    + change (join_lines (l :: l2 :: r)) with (l ++ CRLF ++ join_lines (l2 :: r)).
      rewrite <- !app_assoc. rewrite (split2_clean_app l _ Hc).
      inversion Hr as [|? ? [Hl2 Hc2] _]; subst.
      assert (J : exists c t, join_lines (l2 :: r) = c :: t /\ c <> CR /\ c <> LF).
      { destruct l2 as [|c l2]; [contradiction|]. inversion Hc2 as [|? ? [A B] _]; subst.
        destruct r; cbn [join_lines app]; eauto. }
      destruct J as (c & t & Ej & A & B).
      specialize (IH ltac:(discriminate)). rewrite Ej in *. cbn [app] in IH |- *.
      rewrite (split2_crlf_line c t CRLF2 A B). cbn [app] in *. rewrite IH. cbn [app]. reflexivity.
  - destruct ls as [|l r]; [contradiction|]. inversion Hall as [|? ? [Hl Hc] _]; subst.
    destruct l as [|c l]; [contradiction|]. inversion Hc as [|? ? [A B] _]; subst.
    assert (E : exists t, join_lines ((c :: l) :: r) ++ CRLF2 = c :: t) by (destruct r; cbn; eauto).
    destruct E as [t ->]. unfold CRLF. cbn [is_prefix].
    destruct (N.eqb_spec CR c) as [E|_]; [exfalso; apply A; now rewrite <- E|reflexivity].
Qed.

(* ================= the components around the parser ================= *)
Record message := { m_L : list N; m_HS : list N; m_blk : list N; m_B : list N; m_body : list N }.

Section Conn.
Variable kind_resp : bool.
Variable parse_fl : list N -> option bool.
Variable parse_hd : list N -> option (option Z * bool).
Variable emit : pstate -> option (list event).

Notation feed := (feed kind_resp parse_fl parse_hd).
Notation run := (run kind_resp parse_fl parse_hd).
Notation conn_run := (conn_run kind_resp parse_fl parse_hd emit).
Notation conn_read := (conn_read kind_resp parse_fl parse_hd emit).

Lemma conn_run_app a : forall s b,
  conn_run s (a ++ b) = let '(s1, e1) := conn_run s a in let '(s2, e2) := conn_run s1 b in (s2, e1 ++ e2).
Proof.
  induction a as [|d a IH]; intros s b.
  - cbn. destruct (conn_run s b). reflexivity.
  - cbn [app HttpFraming.conn_run]. destruct (conn_read s d) as [s1 e1]. rewrite IH.
    destruct (conn_run s1 a) as [s2 e2]. destruct (conn_run s2 b) as [s3 e3]. now rewrite app_assoc.
Qed.

(* reads after which the component fires nothing and keeps its parser *)
Lemma conn_run_quiet (Q : pstate -> Prop) : (forall s, Q s -> emit s = None /\ s <> PCrash) ->
  forall cs s, (forall p q, cs = p ++ q -> p <> [] -> Q (run s p)) -> conn_run s cs = (run s cs, []).
Proof.
  intros HQ. induction cs as [|c cs IH]; intros s Hq; [reflexivity|].
  cbn [HttpFraming.conn_run]. unfold HttpFraming.conn_read.
  destruct (HQ (feed s c)) as [E1 E2]. { apply (Hq [c] cs eq_refl). discriminate. }
  rewrite E1. rewrite (IH (feed s c)).
  - cbn. destruct (feed s c); try reflexivity. contradiction.
  - intros p q E Hp. apply (Hq (c :: p) q); [now rewrite E|discriminate].
Qed.

Hypothesis emit_wait : forall s, waiting s -> emit s = None.
Hypothesis emit_done : forall fl blk body, emit (PDone fl blk body) = Some [EMsg fl blk body].

Lemma conn_run_single : forall cs s fl blk body, cs <> [] ->
  (forall p q, cs = p ++ q -> p <> [] -> q <> [] -> waiting (run s p)) ->
  run s cs = PDone fl blk body ->
  conn_run s cs = (PFirst [], [EMsg fl blk body]).
Proof.
  induction cs as [|c cs IH]; intros s fl blk body Hne Hw Hd; [contradiction|].
  destruct cs as [|c2 cs].
  - cbn in Hd. cbn. unfold HttpFraming.conn_read. rewrite Hd, emit_done. reflexivity.
  - assert (W : waiting (feed s c)).
    { apply (Hw [c] (c2 :: cs) eq_refl); discriminate. }
    change (conn_run s (c :: c2 :: cs)) with
      (let '(s1, e1) := conn_read s c in let '(s2, e2) := conn_run s1 (c2 :: cs) in (s2, e1 ++ e2)).
    unfold HttpFraming.conn_read at 1. rewrite (emit_wait _ W).
    assert (E0 : match feed s c with PCrash => [ECrash] | _ => [] end = []).
    { destruct (feed s c); try reflexivity. contradiction. }
    rewrite E0. rewrite (IH (feed s c) fl blk body); [reflexivity|discriminate| |exact Hd].
    intros p q E Hp Hq. apply (Hw (c :: p) q); [now rewrite E|discriminate|exact Hq].
Qed.

Definition wf_message (m : message) : Prop :=
  exists i hl clen ch, wf_head parse_fl parse_hd (m_L m) (m_HS m) (m_blk m) i clen ch hl /\
                       wf_body kind_resp i hl clen ch (m_B m) (m_body m).
Definition message_bytes (m : message) : list N := msg_bytes (m_L m) (m_HS m) (m_B m).
Definition message_event (m : message) : event := EMsg (m_L m) (m_blk m) (m_body m).

(* a sequence of well-formed messages on one connection, each cut into reads in any way (no read spans
   two messages): exactly one event per message, carrying exactly that message, and the connection is
   back in its initial state after each *)
Theorem keepalive_segmentation : forall ms css, Forall wf_message ms ->
  Forall2 (fun m cs => Forall nonempty cs /\ concat cs = message_bytes m) ms css ->
  conn_run (PFirst []) (concat css) = (PFirst [], map message_event ms).
Proof.
  intros ms css Hwf H2. induction H2 as [|m cs ms css [Hne Hc] H2 IH].
  - reflexivity.
  - inversion Hwf as [|? ? (i & hl & clen & ch & WH & WB) Hwf']; subst.
    cbn [concat map]. rewrite conn_run_app.
    assert (Hcs : cs <> []).
    { intros ->. cbn in Hc. unfold message_bytes, msg_bytes in Hc. destruct (m_L m); discriminate. }
    rewrite (conn_run_single cs (PFirst []) (m_L m) (m_blk m) (m_body m) Hcs).
    + rewrite (IH Hwf'). reflexivity.
    + intros p q E Hp Hq. subst cs.
      apply (message_prefix_waiting kind_resp parse_fl parse_hd _ _ _ _ _ _ _ WH (m_B m) (m_body m) WB p q Hne Hp Hq Hc).
    + apply (message_segmentation kind_resp parse_fl parse_hd _ _ _ _ _ _ _ WH (m_B m) (m_body m) WB cs Hne Hc).
Qed.
End Conn.

Lemma srv_emit_wait s : waiting s -> srv_emit s = None.
Proof. destruct s as [| | ? ? [?|] [?|] ?| | | | |]; cbn; intros H; try reflexivity; contradiction. Qed.
Lemma cli_emit_wait s : waiting s -> cli_emit s = None.
Proof. destruct s as [| | ? ? [?|] [?|] ?| | | | |]; cbn; intros H; try reflexivity; contradiction. Qed.
Lemma cli_emit_splittable s : splittable s -> cli_emit s = None /\ s <> PCrash.
Proof. destruct s as [| | ? ? ? [?|] ?| | | | |]; cbn; intros H; try contradiction; split; try reflexivity; discriminate. Qed.

Theorem server_keepalive parse_fl parse_hd ms css :
  Forall (wf_message false parse_fl parse_hd) ms ->
  Forall2 (fun m cs => Forall nonempty cs /\ concat cs = message_bytes m) ms css ->
  conn_run false parse_fl parse_hd srv_emit (PFirst []) (concat css) = (PFirst [], map message_event ms).
Proof. apply keepalive_segmentation; [exact srv_emit_wait|reflexivity]. Qed.

Theorem client_keepalive parse_fl parse_hd ms css :
  Forall (wf_message true parse_fl parse_hd) ms ->
  Forall2 (fun m cs => Forall nonempty cs /\ concat cs = message_bytes m) ms css ->
  conn_run true parse_fl parse_hd cli_emit (PFirst []) (concat css) = (PFirst [], map message_event ms).
Proof. apply keepalive_segmentation; [exact cli_emit_wait|reflexivity]. Qed.

(* client, response delimited by the end of the connection (no Content-Length, not chunked; any status,
   header fields or none), preceded by any keep-alive sequence of complete responses: whatever the
   segmentation, one response event per complete response, NO event for the last one (nothing in
   protocols/http.py or web/client.py ever signals the end of the connection to the parser), and the same
   parser state holding the bytes received so far *)
Theorem client_until_close parse_fl parse_hd ms css L HS blk i204 hl B cs :
  Forall (wf_message true parse_fl parse_hd) ms ->
  Forall2 (fun m cs => Forall nonempty cs /\ concat cs = message_bytes m) ms css ->
  wf_head parse_fl parse_hd L HS blk i204 None false hl -> hl && i204 = false ->
  (Z.of_nat (length B) < maxsize)%Z ->
  Forall nonempty cs -> concat cs = msg_bytes L HS B ->
  conn_run true parse_fl parse_hd cli_emit (PFirst []) (concat css ++ cs)
  = (PBody L blk None (Some (maxsize - Z.of_nat (length B))%Z) B, map message_event ms).
Proof.
  intros Hms H2 WH Hh LB Hall E.
  rewrite conn_run_app, (client_keepalive parse_fl parse_hd ms css Hms H2).
  destruct (until_close_segmentation true parse_fl parse_hd _ _ _ _ _ _ _ WH B eq_refl eq_refl eq_refl Hh LB cs Hall E)
    as [Hrun Hpre].
  rewrite (conn_run_quiet true parse_fl parse_hd cli_emit splittable cli_emit_splittable cs (PFirst [])).
  - rewrite Hrun, app_nil_r. reflexivity.
  - intros p q Ecs Hp. destruct q as [|q0 q].
    + rewrite app_nil_r in Ecs. subst p. rewrite Hrun. exact I.
    + apply (Hpre p (q0 :: q) Ecs Hp). discriminate.
Qed.

(* the special case the property names: 204 / 304 (or any status) without Content-Length and without body *)
Corollary client_nobody parse_fl parse_hd ms css L HS blk i204 hl cs :
  Forall (wf_message true parse_fl parse_hd) ms ->
  Forall2 (fun m cs => Forall nonempty cs /\ concat cs = message_bytes m) ms css ->
  wf_head parse_fl parse_hd L HS blk i204 None false hl -> hl && i204 = false ->
  Forall nonempty cs -> concat cs = msg_bytes L HS [] ->
  conn_run true parse_fl parse_hd cli_emit (PFirst []) (concat css ++ cs)
  = (PBody L blk None (Some maxsize) [], map message_event ms).
Proof.
  intros Hms H2 WH Hh Hall E.
  rewrite (client_until_close parse_fl parse_hd ms css L HS blk i204 hl [] cs Hms H2 WH Hh); auto.
  reflexivity.
Qed.

(* ================= example data for the non-vacuity Examples of Props/C13.v ================= *)
Definition ex_L : list N := [80;79;83;84;32;47;32;72;84;84;80;47;49;46;49].    (* POST / HTTP/1.1 *)
Definition ex_fl (l : list N) : option bool := if list_eqb l ex_L then Some false else None.
(* "Host: x" , "X-F: a" , " b" (a continuation line), "TE: c" *)
Definition ex_lines : list (list N) := [[72;111;115;116;58;32;120]; [88;45;70;58;32;97]; [32;98]; [84;69;58;32;99]].
Definition ex_H : list N := join_lines ex_lines.
Definition ex_hd (l : list N) : option (option Z * bool) := if list_eqb l ex_H then Some (None, true) else None.
Definition ex_cks : list chunk := [ {| c_line := [51;59;120]; c_data := [97;13;10] |};    (* "3;x" "a CR LF" *)
                                    {| c_line := [48;49];     c_data := [98] |} ].          (* "01" "b" *)
Definition ex_B : list N := chunked_bytes ex_cks [48] [84;58;118;13;10;13;10].             (* "0" "T:v CRLF CRLF" *)

Lemma ex_lines_clean : ex_lines <> [] /\ Forall clean_line ex_lines.
Proof.
  split; [discriminate|]. repeat constructor; try discriminate.
Qed.

Lemma ex_wf_head : wf_head ex_fl ex_hd ex_L (ex_H ++ CRLF2) ex_H false None true false.
Proof.
  destruct (header_block_wf ex_lines (proj1 ex_lines_clean) (proj2 ex_lines_clean)) as [A B].
  constructor; [vm_compute; reflexivity|vm_compute; reflexivity|].
  apply hs_fields; [reflexivity|exact A|exact B|vm_compute; reflexivity|reflexivity].
Qed.
Lemma ex_wf_body : wf_body false false false None true ex_B [97;13;10;98].
Proof.
  exists ex_cks, [48], [84;58;118;13;10;13;10]. repeat split; try (vm_compute; reflexivity).
  - repeat constructor; try (vm_compute; reflexivity); discriminate.
  - right. split; [reflexivity|]. exists [84;58;118]. split; vm_compute; reflexivity.
Qed.
(* a request and a 204 response without any header field *)
Lemma ex_wf_head_empty kind : wf_head (fun _ => Some kind) (fun _ => None) [71] CRLF [] kind None false true.
Proof. constructor; [reflexivity|reflexivity|]. apply hs_empty; reflexivity. Qed.
