(* Proofs about Model/Ranges.v: get_ranges never raises and returns only slices inside the
   file; the Range arm of serve_file sends exactly those bytes. *)
From Coq Require Import List ZArith NArith Bool Lia ZifyBool.
From Circ Require Import Model.StaticPath Model.Ranges.
Import ListNotations.
Open Scope Z_scope.

Definition ok (cl : Z) (p : Z * Z) : Prop := 0 <= fst p /\ fst p < snd p /\ snd p <= cl.

(* ---------- int() ---------- *)

Lemma fold_digits_nonneg : forall s acc, 0 <= acc -> all_digits s = true ->
  0 <= fold_left (fun a c => 10 * a + (Z.of_N c - 48)) s acc.
Proof.
  unfold all_digits.
  induction s as [|c s IH]; intros acc Ha Hd; cbn [fold_left forallb] in *; [assumption|].
  apply andb_true_iff in Hd as [Hc Hs]. apply IH; [|assumption].
  unfold is_digit in Hc. apply andb_true_iff in Hc as [H1 H2]. apply N.leb_le in H1, H2. lia.
Qed.

Lemma int_of_digits : forall s, s <> [] -> all_digits s = true ->
  exists z, int_of s = Some z /\ 0 <= z.
Proof.
  intros s Hn Hd. unfold int_of. destruct s as [|c s]; [congruence|].
  rewrite Hd. eexists. split; [reflexivity|]. apply fold_digits_nonneg; [lia|assumption].
Qed.

Lemma isnil_false : forall (A : Type) (l : list A), isnil l = false -> l <> [].
Proof. intros A l H E. subst. discriminate. Qed.

Lemma parse_spec_digits : forall b s e, parse_spec b = Some (s, e) ->
  all_digits s = true /\ all_digits e = true.
Proof.
  intros b s e H. unfold parse_spec in H.
  destruct (partition_at DASH b) as [[l r]|]; [|discriminate].
  destruct (all_digits (strip_ws l) && all_digits (strip_ws r)) eqn:E; [|discriminate].
  inversion H; subst. apply andb_true_iff in E. assumption.
Qed.

(* ---------- the loop ---------- *)

Lemma pair_eqb_eq : forall a b, pair_eqb a b = true <-> a = b.
Proof.
  intros [a1 a2] [b1 b2]. unfold pair_eqb. simpl. split; intro H.
  - apply andb_true_iff in H as [H1 H2]. f_equal; lia.
  - inversion H; subst. lia.
Qed.

Lemma add_unique_ok : forall cl x acc, ok cl x -> Forall (ok cl) acc -> Forall (ok cl) (add_unique x acc).
Proof.
  intros cl x acc Hx Ha. unfold add_unique. destruct (existsb (pair_eqb x) acc); [assumption|].
  apply Forall_app. split; [assumption|constructor; [assumption|constructor]].
Qed.

Lemma add_unique_nodup : forall x acc, NoDup acc -> NoDup (add_unique x acc).
Proof.
  intros x acc Ha. unfold add_unique. destruct (existsb (pair_eqb x) acc) eqn:E; [assumption|].
  assert (~ In x acc) as Hn.
  { intro Hin. assert (existsb (pair_eqb x) acc = true) as X; [|congruence].
    apply existsb_exists. exists x. split; [assumption|apply pair_eqb_eq; reflexivity]. }
  clear E. induction acc as [|y acc IH]; simpl.
  - constructor; [intros []|constructor].
  - inversion Ha; subst. constructor.
    + rewrite in_app_iff. intros [H|[H|[]]]; [contradiction|]. subst. apply Hn. left. reflexivity.
    + apply IH; [assumption|]. intro. apply Hn. right. assumption.
Qed.

Lemma ranges_loop_sound : forall cl specs acc, 0 <= cl ->
  Forall (ok cl) acc -> NoDup acc ->
  match ranges_loop cl specs acc with
  | RCrash => False
  | RList l => Forall (ok cl) l /\ NoDup l
  | _ => True
  end.
Proof.
  intros cl specs. induction specs as [|b rest IH]; intros acc Hcl Ha Hn; simpl.
  - split; assumption.
  - destruct (parse_spec b) as [[s e]|] eqn:Ep; [|exact I].
    destruct (parse_spec_digits _ _ _ Ep) as [Hs He].
    destruct (isnil s) eqn:Es; simpl.
    + destruct (isnil e) eqn:Ee; [exact I|].
      destruct (int_of_digits e (isnil_false _ _ Ee) He) as [n [-> Hn0]].
      destruct ((n =? 0) || (cl =? 0)) eqn:Ez; [apply IH; assumption|].
      apply IH; [assumption| |apply add_unique_nodup; assumption].
      apply add_unique_ok; [|assumption]. unfold ok. simpl. lia.
    + destruct (int_of_digits s (isnil_false _ _ Es) Hs) as [start [-> Hs0]].
      assert (exists stop, (if isnil e then Some (cl - 1) else int_of e) = Some stop) as [stop ->].
      { destruct (isnil e) eqn:Ee; [eexists; reflexivity|].
        destruct (int_of_digits e (isnil_false _ _ Ee) He) as [z [-> _]]. eexists; reflexivity. }
      destruct (start >=? cl) eqn:E1; [apply IH; assumption|].
      destruct (stop <? start) eqn:E2; [exact I|].
      apply IH; [assumption| |apply add_unique_nodup; assumption].
      apply add_unique_ok; [|assumption]. unfold ok. simpl. lia.
Qed.

Theorem get_ranges_sound : forall hv cl, 0 <= cl ->
  match get_ranges hv cl with
  | RCrash => False
  | RList l => Forall (ok cl) l /\ NoDup l
  | _ => True
  end.
Proof.
  intros hv cl Hcl. unfold get_ranges.
  destruct hv as [[|c h]|]; try exact I.
  cbv zeta. set (unit := fst (split_unit (c :: h))). set (rest := snd (split_unit (c :: h))).
  destruct (negb (str_eqb (map lower_ascii (strip_ws unit)) BYTES)); [exact I|].
  pose proof (ranges_loop_sound cl (split_on COMMA rest) [] Hcl (Forall_nil _) (NoDup_nil _)) as H.
  destruct (ranges_loop cl (split_on COMMA rest) []) as [|l| |]; try exact I; [|contradiction].
  destruct ((1 <? Z.of_nat (length l)) && too_spread (map (fun x => snd x - fst x) l)); [exact I|assumption].
Qed.

(* ---------- serve_file's Range arm ---------- *)

Definition slice (content : list N) (a b : Z) : list N :=
  firstn (Z.to_nat (b - a)) (skipn (Z.to_nat a) content).

Lemma slice_length : forall content a b, 0 <= a -> a <= b -> b <= Z.of_nat (length content) ->
  Z.of_nat (length (slice content a b)) = b - a.
Proof.
  intros content a b H1 H2 H3. unfold slice. rewrite firstn_length, skipn_length. lia.
Qed.

Lemma seek_read_ok : forall content a b, ok (Z.of_nat (length content)) (a, b) ->
  seek_read content a (b - a) = Some (slice content a b).
Proof.
  intros content a b (H1 & H2 & H3). simpl in *. unfold seek_read.
  destruct (a <? 0) eqn:E1; [lia|]. destruct (b - a <? 0) eqn:E2; [lia|]. reflexivity.
Qed.

Definition part_ok (content : list N) (p : Z * Z * list N) : Prop :=
  let '(a, b, body) := p in
  ok (Z.of_nat (length content)) (a, b) /\ body = slice content a b /\ Z.of_nat (length body) = b - a.

Lemma read_parts_ok : forall content l, Forall (ok (Z.of_nat (length content))) l ->
  exists ps, read_parts content l = Some ps /\ Forall (part_ok content) ps /\ map fst ps = l.
Proof.
  intros content l. induction l as [|[a b] r IH]; intros H; simpl.
  - exists []. repeat split; constructor.
  - inversion H as [|? ? Hab Hr]; subst. rewrite (seek_read_ok _ _ _ Hab).
    destruct (IH Hr) as [ps [-> [Hps Hm]]].
    exists ((a, b, slice content a b) :: ps). split; [reflexivity|]. split.
    + constructor; [|assumption]. simpl. split; [assumption|]. split; [reflexivity|].
      destruct Hab as (H1 & H2 & H3). simpl in *. apply slice_length; lia.
    + simpl. rewrite Hm. reflexivity.
Qed.

Theorem serve_range_sound : forall proto11 hv content,
  let len := Z.of_nat (length content) in
  match serve_range proto11 hv content with
  | Err500 => False
  | Full n => n = len
  | R416 n => n = len
  | Partial a b n body => n = len /\ part_ok content (a, b, body)
  | Multi n ps => n = len /\ Forall (part_ok content) ps /\ (2 <= length ps)%nat /\ NoDup (map fst ps)
  end.
Proof.
  intros proto11 hv content len. unfold serve_range. fold len.
  destruct (negb proto11); [reflexivity|].
  pose proof (get_ranges_sound hv len ltac:(lia)) as H.
  destruct (get_ranges hv len) as [|l| |]; try reflexivity; [|contradiction].
  destruct H as [Hok Hnd].
  destruct l as [|[a b] l]; [reflexivity|].
  destruct l as [|q l].
  - inversion Hok as [|? ? Hab _]; subst. rewrite (seek_read_ok _ _ _ Hab).
    split; [reflexivity|]. simpl. split; [assumption|]. split; [reflexivity|].
    destruct Hab as (H1 & H2 & H3). simpl in *. apply slice_length; lia.
  - destruct (read_parts_ok content _ Hok) as [ps [-> [Hps Hm]]].
    split; [reflexivity|]. split; [assumption|]. split.
    + rewrite <- (map_length fst ps), Hm. simpl. lia.
    + rewrite Hm. assumption.
Qed.
