(* Proofs about Model/Ranges.v: get_ranges never raises and returns only slices inside the
   file; the Range arm of serve_file sends exactly those bytes. *)
From Coq Require Import List ZArith NArith Bool Lia ZifyBool.
From Circ Require Import Model.StaticPath Model.Ranges Proofs.StaticPathP.
Import ListNotations.
Open Scope Z_scope.

Definition ok (cl : Z) (p : Z * Z) : Prop := 0 <= fst p /\ fst p < snd p /\ snd p <= cl.

(* ---------- int() ---------- *)

Lemma fold_digits_nonneg : forall s acc, 0 <= acc -> all_digits s = true ->
  0 <= fold_left (fun a c => 10 * a + (Z.of_N c - 48)) s acc.
Proof.
  unfold all_digits.
  induction s as [|c s IH]; intros acc Ha Hd; cbn [fold_left forallb] in *; [assumption|].
  apply andb_true_iff in Hd as [Hc Hs]. apply IH; [|assumption].
  unfold is_digit in Hc. apply andb_true_iff in Hc as [H1 H2]. apply N.leb_le in H1, H2. lia.
Qed.

Lemma int_of_digits : forall s, s <> [] -> all_digits s = true ->
  exists z, int_of s = Some z /\ 0 <= z.
Proof.
  intros s Hn Hd. unfold int_of. destruct s as [|c s]; [congruence|].
  rewrite Hd. eexists. split; [reflexivity|]. apply fold_digits_nonneg; [lia|assumption].
Qed.

Lemma isnil_false : forall (A : Type) (l : list A), isnil l = false -> l <> [].
Proof. intros A l H E. subst. discriminate. Qed.

Lemma parse_spec_digits : forall b s e, parse_spec b = Some (s, e) ->
  all_digits s = true /\ all_digits e = true.
Proof.
  intros b s e H. unfold parse_spec in H.
  destruct (partition_at DASH (strip_ws b)) as [[l r]|]; [|discriminate].
  destruct (all_digits l && all_digits r) eqn:E; [|discriminate].
  inversion H; subst. apply andb_true_iff in E. assumption.
Qed.

(* ---------- the loop ---------- *)

Lemma pair_eqb_eq : forall a b, pair_eqb a b = true <-> a = b.
Proof.
  intros [a1 a2] [b1 b2]. unfold pair_eqb. simpl. split; intro H.
  - apply andb_true_iff in H as [H1 H2]. f_equal; lia.
  - inversion H; subst. lia.
Qed.

Lemma add_unique_ok : forall cl x acc, ok cl x -> Forall (ok cl) acc -> Forall (ok cl) (add_unique x acc).
Proof.
  intros cl x acc Hx Ha. unfold add_unique. destruct (existsb (pair_eqb x) acc); [assumption|].
  apply Forall_app. split; [assumption|constructor; [assumption|constructor]].
Qed.

Lemma add_unique_nodup : forall x acc, NoDup acc -> NoDup (add_unique x acc).
Proof.
  intros x acc Ha. unfold add_unique. destruct (existsb (pair_eqb x) acc) eqn:E; [assumption|].
  assert (~ In x acc) as Hn.
  { intro Hin. assert (existsb (pair_eqb x) acc = true) as X; [|congruence].
    apply existsb_exists. exists x. split; [assumption|apply pair_eqb_eq; reflexivity]. }
  clear E. induction acc as [|y acc IH]; simpl.
  - constructor; [intros []|constructor].
  - inversion Ha; subst. constructor.
    + rewrite in_app_iff. intros [H|[H|[]]]; [contradiction|]. subst. apply Hn. left. reflexivity.
    + apply IH; [assumption|]. intro. apply Hn. right. assumption.
Qed.

Lemma ranges_loop_sound : forall cl specs acc, 0 <= cl ->
  Forall (ok cl) acc -> NoDup acc ->
  match ranges_loop cl specs acc with
  | RCrash => False
  | RList l => Forall (ok cl) l /\ NoDup l
  | _ => True
  end.
Proof.
  intros cl specs. induction specs as [|b rest IH]; intros acc Hcl Ha Hn; simpl.
  - split; assumption.
  - destruct (parse_spec b) as [[s e]|] eqn:Ep; [|exact I].
    destruct (parse_spec_digits _ _ _ Ep) as [Hs He].
    destruct (isnil s) eqn:Es; simpl.
    + destruct (isnil e) eqn:Ee; [exact I|].
      destruct (int_of_digits e (isnil_false _ _ Ee) He) as [n [-> Hn0]].
      destruct ((n =? 0) || (cl =? 0)) eqn:Ez; [apply IH; assumption|].
      apply IH; [assumption| |apply add_unique_nodup; assumption].
      apply add_unique_ok; [|assumption]. unfold ok. simpl. lia.
    + destruct (int_of_digits s (isnil_false _ _ Es) Hs) as [start [-> Hs0]].
      assert (exists stop, (if isnil e then Some (cl - 1) else int_of e) = Some stop) as [stop ->].
      { destruct (isnil e) eqn:Ee; [eexists; reflexivity|].
        destruct (int_of_digits e (isnil_false _ _ Ee) He) as [z [-> _]]. eexists; reflexivity. }
      destruct (start >=? cl) eqn:E1; [apply IH; assumption|].
      destruct (stop <? start) eqn:E2; [exact I|].
      apply IH; [assumption| |apply add_unique_nodup; assumption].
      apply add_unique_ok; [|assumption]. unfold ok. simpl. lia.
Qed.

Theorem get_ranges_sound : forall hv cl, 0 <= cl ->
  match get_ranges hv cl with
  | RCrash => False
  | RList l => Forall (ok cl) l /\ NoDup l
  | _ => True
  end.
Proof.
  intros hv cl Hcl. unfold get_ranges.
  destruct hv as [[|c h]|]; try exact I.
  cbv zeta. set (unit := fst (split_unit (c :: h))). set (rest := snd (split_unit (c :: h))).
  destruct (negb (str_eqb (map lower_ascii (strip_ws unit)) BYTES)); [exact I|].
  pose proof (ranges_loop_sound cl (split_on COMMA rest) [] Hcl (Forall_nil _) (NoDup_nil _)) as H.
  destruct (ranges_loop cl (split_on COMMA rest) []) as [|l| |]; try exact I; [|contradiction].
  destruct ((1 <? Z.of_nat (length l)) && too_spread (map (fun x => snd x - fst x) l)); [exact I|assumption].
Qed.

(* ---------- serve_file's Range arm ---------- *)

Definition slice (content : list N) (a b : Z) : list N :=
  firstn (Z.to_nat (b - a)) (skipn (Z.to_nat a) content).

Lemma slice_length : forall content a b, 0 <= a -> a <= b -> b <= Z.of_nat (length content) ->
  Z.of_nat (length (slice content a b)) = b - a.
Proof.
  intros content a b H1 H2 H3. unfold slice. rewrite firstn_length, skipn_length. lia.
Qed.

Lemma seek_read_ok : forall content a b, ok (Z.of_nat (length content)) (a, b) ->
  seek_read content a (b - a) = Some (slice content a b).
Proof.
  intros content a b (H1 & H2 & H3). simpl in *. unfold seek_read.
  destruct (a <? 0) eqn:E1; [lia|]. destruct (b - a <? 0) eqn:E2; [lia|]. reflexivity.
Qed.

Definition part_ok (content : list N) (p : Z * Z * list N) : Prop :=
  let '(a, b, body) := p in
  ok (Z.of_nat (length content)) (a, b) /\ body = slice content a b /\ Z.of_nat (length body) = b - a.

Lemma read_parts_ok : forall content l, Forall (ok (Z.of_nat (length content))) l ->
  exists ps, read_parts content l = Some ps /\ Forall (part_ok content) ps /\ map fst ps = l.
Proof.
  intros content l. induction l as [|[a b] r IH]; intros H; simpl.
  - exists []. repeat split; constructor.
  - inversion H as [|? ? Hab Hr]; subst. rewrite (seek_read_ok _ _ _ Hab).
    destruct (IH Hr) as [ps [-> [Hps Hm]]].
    exists ((a, b, slice content a b) :: ps). split; [reflexivity|]. split.
    + constructor; [|assumption]. simpl. split; [assumption|]. split; [reflexivity|].
      destruct Hab as (H1 & H2 & H3). simpl in *. apply slice_length; lia.
    + simpl. rewrite Hm. reflexivity.
Qed.

Theorem serve_range_sound : forall proto11 hv content,
  let len := Z.of_nat (length content) in
  match serve_range proto11 hv content with
  | Err500 => False
  | Full n => n = len
  | R416 n => n = len
  | Partial a b n body => n = len /\ part_ok content (a, b, body)
  | Multi n ps => n = len /\ Forall (part_ok content) ps /\ (2 <= length ps)%nat /\ NoDup (map fst ps)
  end.
Proof.
  intros proto11 hv content len. unfold serve_range. fold len.
  destruct (negb proto11); [reflexivity|].
  pose proof (get_ranges_sound hv len ltac:(lia)) as H.
  destruct (get_ranges hv len) as [|l| |]; try reflexivity; [|contradiction].
  destruct H as [Hok Hnd].
  destruct l as [|[a b] l]; [reflexivity|].
  destruct l as [|q l].
  - inversion Hok as [|? ? Hab _]; subst. rewrite (seek_read_ok _ _ _ Hab).
    split; [reflexivity|]. simpl. split; [assumption|]. split; [reflexivity|].
    destruct Hab as (H1 & H2 & H3). simpl in *. apply slice_length; lia.
  - destruct (read_parts_ok content _ Hok) as [ps [-> [Hps Hm]]].
    split; [reflexivity|]. split; [assumption|]. split.
    + rewrite <- (map_length fst ps), Hm. simpl. lia.
    + rewrite Hm. assumption.
Qed.

(* ---------- exactness: a well-formed single spec yields exactly the requested slice ---------- *)

Lemma digit_facts : forall c, is_digit c = true ->
  is_ws c = false /\ (c =? DASH)%N = false /\ (c =? COMMA)%N = false /\ (c =? EQ)%N = false.
Proof.
  intros c H. unfold is_digit in H. apply andb_true_iff in H as [H1 H2].
  apply N.leb_le in H1, H2. unfold is_ws, DASH, COMMA, EQ.
  repeat split;
    repeat match goal with
           | |- (_ || _)%bool = false => apply orb_false_iff; split
           | |- (_ && _)%bool = false => apply andb_false_iff
           end;
    try (apply N.eqb_neq; lia);
    try (left; apply N.leb_gt; lia); try (right; apply N.leb_gt; lia).
Qed.

Lemma partition_digits : forall d ds rest, all_digits ds = true ->
  (forall c, is_digit c = true -> (c =? d)%N = false) ->
  partition_at d (ds ++ d :: rest) = Some (ds, rest).
Proof.
  intros d ds rest H Hd. induction ds as [|c ds IH]; simpl.
  - rewrite N.eqb_refl. reflexivity.
  - simpl in H. apply andb_true_iff in H as [Hc Hs]. rewrite (Hd c Hc), (IH Hs). reflexivity.
Qed.

Lemma split_no_delim : forall d s, (forall c, In c s -> (c =? d)%N = false) -> split_on d s = [s].
Proof.
  intros d s H. apply split_on_id. intro I. apply H in I. rewrite N.eqb_refl in I. discriminate.
Qed.

Lemma strip_ws_nows : forall s, (forall c, In c s -> is_ws c = false) -> strip_ws s = s.
Proof.
  intros s H. unfold strip_ws.
  assert (forall l, (forall c, In c l -> is_ws c = false) -> lstrip_ws l = l) as X.
  { intros l Hl. destruct l as [|c t]; [reflexivity|]. simpl. rewrite Hl by (left; reflexivity). reflexivity. }
  rewrite (X s H). rewrite X; [apply rev_involutive|].
  intros c I. apply H. apply in_rev. exact I.
Qed.

Lemma all_digits_forall : forall s, all_digits s = true -> forall c, In c s -> is_digit c = true.
Proof. intros s H. apply forallb_forall. exact H. Qed.

(* a spec "ds-de" built from digit strings is its own stripped form *)
Lemma spec_shape : forall ds de, all_digits ds = true -> all_digits de = true ->
  let b := ds ++ DASH :: de in
  split_on COMMA b = [b] /\ parse_spec b = Some (ds, de).
Proof.
  intros ds de Hs He b.
  assert (forall c, In c b -> is_digit c = true \/ c = DASH) as Hb.
  { intros c I. unfold b in I. apply in_app_or in I as [I|[I|I]].
    - left. exact (all_digits_forall ds Hs c I).
    - right. symmetry. exact I.
    - left. exact (all_digits_forall de He c I). }
  split.
  - apply split_no_delim. intros c I. destruct (Hb c I) as [D| ->]; [apply digit_facts; exact D|reflexivity].
  - unfold parse_spec. rewrite strip_ws_nows.
    + unfold b. rewrite partition_digits; [rewrite Hs, He; reflexivity|assumption|].
      intros c D. apply digit_facts. exact D.
    + intros c I. destruct (Hb c I) as [D| ->]; [apply digit_facts; exact D|reflexivity].
Qed.

Lemma header_shape : forall rest,
  split_unit (BYTES ++ EQ :: rest) = (BYTES, rest) /\
  str_eqb (map lower_ascii (strip_ws BYTES)) BYTES = true.
Proof. intros. split; reflexivity. Qed.

Lemma get_ranges_one_spec : forall ds de cl,
  all_digits ds = true -> all_digits de = true ->
  get_ranges (Some (BYTES ++ EQ :: ds ++ DASH :: de)) cl =
  match ranges_loop cl [ds ++ DASH :: de] [] with
  | RList l => RList l
  | r => r
  end.
Proof.
  intros ds de cl Hs He. unfold get_ranges.
  change (BYTES ++ EQ :: ds ++ DASH :: de) with (98%N :: ([121; 116; 101; 115]%N ++ EQ :: ds ++ DASH :: de)).
  cbv zeta.
  change (98%N :: ([121; 116; 101; 115]%N ++ EQ :: ds ++ DASH :: de)) with (BYTES ++ EQ :: ds ++ DASH :: de).
  destruct (header_shape (ds ++ DASH :: de)) as [-> E]. simpl fst. simpl snd. rewrite E. simpl negb. cbv iota.
  destruct (spec_shape ds de Hs He) as [-> Hp].
  simpl ranges_loop. rewrite Hp.
  destruct (isnil ds); simpl.
  - destruct (isnil de); [reflexivity|]. destruct (int_of de) as [n|]; [|reflexivity].
    destruct ((n =? 0) || (cl =? 0)); reflexivity.
  - destruct (int_of ds) as [a|]; [|reflexivity].
    destruct (if isnil de then Some (cl - 1) else int_of de) as [b|]; [|reflexivity].
    destruct (a >=? cl); [reflexivity|]. destruct (b <? a); reflexivity.
Qed.

(* "bytes=a-b": bytes a..min(b, len-1) *)
Theorem range_closed_exact : forall ds de a b cl,
  all_digits ds = true -> all_digits de = true ->
  int_of ds = Some a -> int_of de = Some b -> a <= b -> a < cl ->
  get_ranges (Some (BYTES ++ EQ :: ds ++ DASH :: de)) cl = RList [(a, Z.min b (cl - 1) + 1)].
Proof.
  intros ds de a b cl Hs He Ha Hb Hab Hcl.
  rewrite get_ranges_one_spec by assumption.
  destruct (spec_shape ds de Hs He) as [_ Hp]. simpl ranges_loop. rewrite Hp.
  assert (isnil ds = false) as N1 by (destruct ds; [discriminate|reflexivity]).
  assert (isnil de = false) as N2 by (destruct de; [discriminate|reflexivity]).
  rewrite N1, N2, Ha, Hb. simpl negb. cbv iota.
  destruct (a >=? cl) eqn:E1; [lia|]. destruct (b <? a) eqn:E2; [lia|]. reflexivity.
Qed.

(* "bytes=a-": from a to the end *)
Theorem range_open_exact : forall ds a cl,
  all_digits ds = true -> int_of ds = Some a -> a < cl ->
  get_ranges (Some (BYTES ++ EQ :: ds ++ [DASH])) cl = RList [(a, cl)].
Proof.
  intros ds a cl Hs Ha Hcl.
  rewrite (get_ranges_one_spec ds [] cl Hs eq_refl).
  destruct (spec_shape ds [] Hs eq_refl) as [_ Hp]. simpl ranges_loop. rewrite Hp.
  assert (isnil ds = false) as N1 by (destruct ds; [discriminate|reflexivity]).
  rewrite N1, Ha. simpl.
  destruct (a >=? cl) eqn:E1; [lia|]. destruct (cl - 1 <? a) eqn:E2; [lia|].
  unfold add_unique. simpl. repeat f_equal. lia.
Qed.

(* "bytes=-n": the last n bytes (the whole file when n exceeds its length) *)
Theorem range_suffix_exact : forall de n cl,
  all_digits de = true -> int_of de = Some n -> 0 < n -> 0 < cl ->
  get_ranges (Some (BYTES ++ EQ :: DASH :: de)) cl = RList [(Z.max (cl - n) 0, cl)].
Proof.
  intros de n cl He Hn Hn0 Hcl.
  pose proof (get_ranges_one_spec [] de cl eq_refl He) as G.
  change ([] ++ DASH :: de) with (DASH :: de) in G. rewrite G. clear G.
  destruct (spec_shape [] de eq_refl He) as [_ Hp]. simpl ranges_loop.
  change ([] ++ DASH :: de) with (DASH :: de) in Hp. rewrite Hp.
  assert (isnil de = false) as N2 by (destruct de; [discriminate|reflexivity]).
  simpl. rewrite N2, Hn.
  destruct ((n =? 0) || (cl =? 0)) eqn:E; [lia|]. reflexivity.
Qed.

(* an unsatisfiable first position is answered with the empty list (416), a reversed spec and a
   non-numeric spec make the header void *)
Theorem range_beyond_416 : forall ds de a cl,
  all_digits ds = true -> all_digits de = true -> int_of ds = Some a -> cl <= a ->
  get_ranges (Some (BYTES ++ EQ :: ds ++ DASH :: de)) cl = RList [].
Proof.
  intros ds de a cl Hs He Ha Hcl.
  rewrite get_ranges_one_spec by assumption.
  destruct (spec_shape ds de Hs He) as [_ Hp]. simpl ranges_loop. rewrite Hp.
  assert (isnil ds = false) as N1 by (destruct ds; [discriminate|reflexivity]).
  rewrite N1, Ha. simpl negb. cbv iota.
  assert (exists stop, (if isnil de then Some (cl - 1) else int_of de) = Some stop) as [stop ->].
  { destruct (isnil de) eqn:Ee; [eexists; reflexivity|].
    destruct (int_of_digits de (isnil_false _ _ Ee) He) as [z [-> _]]. eexists; reflexivity. }
  destruct (a >=? cl) eqn:E1; [reflexivity|lia].
Qed.

(* ---------- exactness for whole headers: several specs, optional white space ---------- *)

(* a byte-range-spec as it may be spelled: ws* digits* '-' digits* ws* *)
Record tspec := { w1 : str; sd : str; ed : str; w2 : str }.
Definition wf_tspec (t : tspec) : Prop :=
  forallb is_ws (w1 t) = true /\ all_digits (sd t) = true /\ all_digits (ed t) = true /\ forallb is_ws (w2 t) = true.
Definition render (t : tspec) : str := w1 t ++ (sd t ++ DASH :: ed t) ++ w2 t.

Fixpoint join_comma (l : list str) : str :=
  match l with
  | [] => []
  | [a] => a
  | a :: r => a ++ COMMA :: join_comma r
  end.

(* what RFC 7233 makes of one spec against a file of cl bytes *)
Inductive verdict := VSkip | VInvalid | VSlice (p : Z * Z).
Definition classify (cl : Z) (t : tspec) : verdict :=
  match int_of (sd t), int_of (ed t) with
  | Some a, Some b => if a >=? cl then VSkip                      (* unsatisfiable *)
                      else if b <? a then VInvalid                 (* last < first *)
                      else VSlice (a, Z.min b (cl - 1) + 1)
  | Some a, None => if a >=? cl then VSkip else VSlice (a, cl)
  | None, Some n => if (n =? 0) || (cl =? 0) then VSkip else VSlice (Z.max (cl - n) 0, cl)
  | None, None => VInvalid                                        (* "-" *)
  end.

Fixpoint sem_loop (cl : Z) (ts : list tspec) (acc : list (Z * Z)) : ranges :=
  match ts with
  | [] => RList acc
  | t :: r => match classify cl t with
              | VSkip => sem_loop cl r acc
              | VInvalid => RIgnore
              | VSlice p => sem_loop cl r (add_unique p acc)
              end
  end.

(* the "Issue #59" rejection of wildly different range lengths *)
Definition finish (r : ranges) : ranges :=
  match r with
  | RList l => if (1 <? Z.of_nat (length l)) && too_spread (map (fun x => snd x - fst x) l) then RUnsat else RList l
  | r => r
  end.

Lemma ws_facts : forall c, is_ws c = true ->
  (c =? COMMA)%N = false /\ (c =? DASH)%N = false /\ is_digit c = false.
Proof.
  intros c H. repeat split.
  - destruct (c =? COMMA)%N eqn:E; [|reflexivity]. apply N.eqb_eq in E. subst. discriminate.
  - destruct (c =? DASH)%N eqn:E; [|reflexivity]. apply N.eqb_eq in E. subst. discriminate.
  - destruct (is_digit c) eqn:E; [|reflexivity]. apply digit_facts in E. destruct E as [E _]. congruence.
Qed.

Lemma lstrip_ws_app : forall w x, forallb is_ws w = true -> lstrip_ws (w ++ x) = lstrip_ws x.
Proof.
  induction w as [|c w IH]; intros x H; simpl in *; [reflexivity|].
  apply andb_true_iff in H as [Hc Hw]. rewrite Hc. apply IH. assumption.
Qed.

Lemma forallb_rev : forall (f : N -> bool) l, forallb f l = true -> forallb f (rev l) = true.
Proof.
  intros f l H. apply forallb_forall. intros x I. apply in_rev in I.
  rewrite forallb_forall in H. apply H. assumption.
Qed.

Lemma strip_ws_core : forall w1 core w2, forallb is_ws w1 = true -> forallb is_ws w2 = true ->
  core <> [] -> (forall c, In c core -> is_ws c = false) ->
  strip_ws (w1 ++ core ++ w2) = core.
Proof.
  intros w1 core w2 H1 H2 Hn Hc. unfold strip_ws.
  assert (forall x y, x <> [] -> (forall c, In c x -> is_ws c = false) -> lstrip_ws (x ++ y) = x ++ y) as X.
  { intros x y Hx Hxc. destruct x as [|c x]; [congruence|]. simpl. rewrite Hxc by (left; reflexivity). reflexivity. }
  rewrite lstrip_ws_app by assumption. rewrite X by assumption.
  rewrite rev_app_distr. rewrite lstrip_ws_app by (apply forallb_rev; assumption).
  rewrite <- (app_nil_r (rev core)). rewrite X.
  - rewrite app_nil_r. apply rev_involutive.
  - intro E. apply Hn. rewrite <- (rev_involutive core), E. reflexivity.
  - intros c I. apply Hc. apply in_rev. assumption.
Qed.

Lemma parse_render : forall t, wf_tspec t -> parse_spec (render t) = Some (sd t, ed t).
Proof.
  intros t (H1 & Hs & He & H2). unfold parse_spec, render.
  rewrite strip_ws_core; try assumption.
  - rewrite partition_digits; [rewrite Hs, He; reflexivity|assumption|].
    intros c D. apply digit_facts. exact D.
  - destruct (sd t); discriminate.
  - intros c I. apply in_app_or in I as [I|[I|I]].
    + apply digit_facts. exact (all_digits_forall _ Hs c I).
    + subst. reflexivity.
    + apply digit_facts. exact (all_digits_forall _ He c I).
Qed.

Lemma render_no_comma : forall t, wf_tspec t -> ~ In COMMA (render t).
Proof.
  intros t (H1 & Hs & He & H2) I. unfold render in I.
  assert (forall w, forallb is_ws w = true -> ~ In COMMA w) as W.
  { intros w Hw J. rewrite forallb_forall in Hw. apply Hw in J. discriminate. }
  assert (forall s, all_digits s = true -> ~ In COMMA s) as D.
  { intros s Hd J. apply (all_digits_forall _ Hd) in J. discriminate. }
  apply in_app_or in I as [I|I]; [exact (W _ H1 I)|].
  apply in_app_or in I as [I|I]; [|exact (W _ H2 I)].
  apply in_app_or in I as [I|[I|I]]; [exact (D _ Hs I)|discriminate|exact (D _ He I)].
Qed.

Lemma split_join_comma : forall l, Forall (fun s => ~ In COMMA s) l -> l <> [] ->
  split_on COMMA (join_comma l) = l.
Proof.
  induction l as [|a r IH]; intros H Hn; [congruence|].
  inversion H as [|? ? Ha Hr]; subst.
  destruct r as [|b r]; [apply split_on_id; exact Ha|].
  change (join_comma (a :: b :: r)) with (a ++ COMMA :: join_comma (b :: r)).
  rewrite split_on_app, (split_on_id COMMA a Ha), IH by (assumption || discriminate). reflexivity.
Qed.

Lemma partition_notin : forall d a b, ~ In d a -> partition_at d (a ++ d :: b) = Some (a, b).
Proof.
  intros d a b H. induction a as [|c a IH]; simpl.
  - rewrite N.eqb_refl. reflexivity.
  - destruct (c =? d)%N eqn:E.
    + apply N.eqb_eq in E. subst. exfalso. apply H. left. reflexivity.
    + rewrite IH; [reflexivity|]. intro. apply H. right. assumption.
Qed.

Lemma int_of_nil_iff : forall s, all_digits s = true -> (isnil s = true <-> int_of s = None).
Proof.
  intros s H. destruct s as [|c s]; split; intro X; try reflexivity; try discriminate X.
  destruct (int_of_digits (c :: s) ltac:(discriminate) H) as [z [E _]]. rewrite E in X. discriminate X.
Qed.

Lemma loop_render : forall cl ts acc, Forall wf_tspec ts ->
  ranges_loop cl (map render ts) acc = sem_loop cl ts acc.
Proof.
  intros cl ts. induction ts as [|t r IH]; intros acc H; [reflexivity|].
  inversion H as [|? ? Ht Hr]; subst. simpl map. simpl ranges_loop. simpl sem_loop.
  rewrite (parse_render t Ht). destruct Ht as (_ & Hs & He & _). unfold classify.
  destruct (isnil (sd t)) eqn:Es.
  - apply (int_of_nil_iff _ Hs) in Es as Es'. rewrite Es'. simpl negb. cbv iota.
    destruct (isnil (ed t)) eqn:Ee.
    + apply (int_of_nil_iff _ He) in Ee. rewrite Ee. reflexivity.
    + destruct (int_of_digits (ed t) (isnil_false _ _ Ee) He) as [n [-> _]].
      destruct ((n =? 0) || (cl =? 0)); apply IH; assumption.
  - destruct (int_of_digits (sd t) (isnil_false _ _ Es) Hs) as [a [-> _]]. simpl negb. cbv iota.
    destruct (isnil (ed t)) eqn:Ee.
    + apply (int_of_nil_iff _ He) in Ee as Ee'. rewrite Ee'.
      destruct (a >=? cl) eqn:E1; [apply IH; assumption|].
      destruct (cl - 1 <? a) eqn:E2; [lia|].
      replace (Z.min (cl - 1) (cl - 1) + 1) with cl by lia. apply IH; assumption.
    + destruct (int_of_digits (ed t) (isnil_false _ _ Ee) He) as [b [-> _]].
      destruct (a >=? cl); [apply IH; assumption|].
      destruct (b <? a); [reflexivity|apply IH; assumption].
Qed.

(* get_ranges on a whole header = the per-spec reading, left to right *)
Theorem range_multi_exact : forall unit ts cl,
  str_eqb (map lower_ascii (strip_ws unit)) BYTES = true -> ~ In EQ unit ->
  ts <> [] -> Forall wf_tspec ts ->
  get_ranges (Some (unit ++ EQ :: join_comma (map render ts))) cl = finish (sem_loop cl ts []).
Proof.
  intros unit ts cl Hu He Hn Hw. unfold get_ranges.
  destruct (unit ++ EQ :: join_comma (map render ts)) as [|c h] eqn:Eh.
  { destruct unit; discriminate. }
  rewrite <- Eh. clear Eh c h. cbv zeta.
  unfold split_unit. rewrite (partition_notin EQ unit _ He). simpl fst. simpl snd.
  rewrite Hu. simpl negb. cbv iota.
  rewrite split_join_comma.
  - rewrite loop_render by assumption. unfold finish.
    destruct (sem_loop cl ts []); reflexivity.
  - apply Forall_forall. intros s I. apply in_map_iff in I as [t [<- It]].
    apply render_no_comma. rewrite Forall_forall in Hw. apply Hw. assumption.
  - destruct ts; [congruence|discriminate].
Qed.

(* ... and that reading is: void as soon as one spec is invalid, else the satisfiable slices
   in request order, first occurrences only *)
Definition is_invalid (cl : Z) (t : tspec) : bool :=
  match classify cl t with VInvalid => true | _ => false end.
Definition slices (cl : Z) (ts : list tspec) : list (Z * Z) :=
  flat_map (fun t => match classify cl t with VSlice p => [p] | _ => [] end) ts.
Definition dedup_from (acc l : list (Z * Z)) : list (Z * Z) := fold_left (fun a p => add_unique p a) l acc.

Theorem sem_loop_spec : forall cl ts acc,
  sem_loop cl ts acc = if existsb (is_invalid cl) ts then RIgnore else RList (dedup_from acc (slices cl ts)).
Proof.
  intros cl ts. induction ts as [|t r IH]; intros acc; [reflexivity|].
  simpl. unfold is_invalid at 1. destruct (classify cl t) as [| |p]; simpl; [apply IH|reflexivity|apply IH].
Qed.

Lemma add_unique_in : forall x p acc, In x (add_unique p acc) <-> In x acc \/ x = p.
Proof.
  intros x p acc. unfold add_unique. destruct (existsb (pair_eqb p) acc) eqn:E.
  - split; [auto|]. intros [H| ->]; [assumption|].
    apply existsb_exists in E as [y [Hy Ey]]. apply pair_eqb_eq in Ey. subst. assumption.
  - rewrite in_app_iff. simpl. split; intros [H|H]; auto. destruct H; [subst; auto|contradiction].
Qed.

Theorem dedup_spec : forall l acc, NoDup acc ->
  NoDup (dedup_from acc l) /\ forall x, In x (dedup_from acc l) <-> In x acc \/ In x l.
Proof.
  induction l as [|p l IH]; intros acc Hn; simpl.
  - split; [assumption|]. intros x. tauto.
  - destruct (IH (add_unique p acc) (add_unique_nodup p acc Hn)) as [H1 H2].
    split; [assumption|]. intros x. rewrite H2, add_unique_in. intuition (subst; auto).
Qed.
