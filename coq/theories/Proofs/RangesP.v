(* Proofs about Model/Ranges.v: get_ranges never raises and returns only slices inside the
   file; the Range arm of serve_file sends exactly those bytes. *)
From Coq Require Import List ZArith NArith Bool Lia ZifyBool.
From Circ Require Import Model.StaticPath Model.Ranges Proofs.StaticPathP.
Import ListNotations.
Open Scope Z_scope.

Definition ok (cl : Z) (p : Z * Z) : Prop := 0 <= fst p /\ fst p < snd p /\ snd p <= cl.

(* ---------- int() ---------- *)

Lemma fold_digits_nonneg : forall s acc, 0 <= acc -> all_digits s = true ->
  0 <= fold_left (fun a c => 10 * a + (Z.of_N c - 48)) s acc.
Proof.
  unfold all_digits.
  induction s as [|c s IH]; intros acc Ha Hd; cbn [fold_left forallb] in *; [assumption|].
  apply andb_true_iff in Hd as [Hc Hs]. apply IH; [|assumption].
  unfold is_digit in Hc. apply andb_true_iff in Hc as [H1 H2]. apply N.leb_le in H1, H2. lia.
Qed.

Lemma int_of_digits : forall s, s <> [] -> all_digits s = true ->
  exists z, int_of s = Some z /\ 0 <= z.
Proof.
  intros s Hn Hd. unfold int_of. destruct s as [|c s]; [congruence|].
  rewrite Hd. eexists. split; [reflexivity|]. apply fold_digits_nonneg; [lia|assumption].
Qed.

Lemma isnil_false : forall (A : Type) (l : list A), isnil l = false -> l <> [].
Proof. intros A l H E. subst. discriminate. Qed.

Lemma parse_spec_digits : forall b s e, parse_spec b = Some (s, e) ->
  all_digits s = true /\ all_digits e = true.
Proof.
  intros b s e H. unfold parse_spec in H.
  destruct (partition_at DASH (strip_ws b)) as [[l r]|]; [|discriminate].
  destruct (all_digits l && all_digits r) eqn:E; [|discriminate].
  inversion H; subst. apply andb_true_iff in E. assumption.
Qed.

(* ---------- the loop ---------- *)

Lemma pair_eqb_eq : forall a b, pair_eqb a b = true <-> a = b.
Proof.
  intros [a1 a2] [b1 b2]. unfold pair_eqb. simpl. split; intro H.
  - apply andb_true_iff in H as [H1 H2]. f_equal; lia.
  - inversion H; subst. lia.
Qed.

Lemma add_unique_ok : forall cl x acc, ok cl x -> Forall (ok cl) acc -> Forall (ok cl) (add_unique x acc).
Proof.
  intros cl x acc Hx Ha. unfold add_unique. destruct (existsb (pair_eqb x) acc); [assumption|].
  apply Forall_app. split; [assumption|constructor; [assumption|constructor]].
Qed.

Lemma add_unique_nodup : forall x acc, NoDup acc -> NoDup (add_unique x acc).
Proof.
  intros x acc Ha. unfold add_unique. destruct (existsb (pair_eqb x) acc) eqn:E; [assumption|].
  assert (~ In x acc) as Hn.
  { intro Hin. assert (existsb (pair_eqb x) acc = true) as X; [|congruence].
    apply existsb_exists. exists x. split; [assumption|apply pair_eqb_eq; reflexivity]. }
  clear E. induction acc as [|y acc IH]; simpl.
  - constructor; [intros []|constructor].
  - inversion Ha; subst. constructor.
    + rewrite in_app_iff. intros [H|[H|[]]]; [contradiction|]. subst. apply Hn. left. reflexivity.
    + apply IH; [assumption|]. intro. apply Hn. right. assumption.
Qed.

Lemma ranges_loop_sound : forall cl specs acc, 0 <= cl ->
  Forall (ok cl) acc -> NoDup acc ->
  match ranges_loop cl specs acc with
  | RCrash => False
  | RList l => Forall (ok cl) l /\ NoDup l
  | _ => True
  end.
Proof.
  intros cl specs. induction specs as [|b rest IH]; intros acc Hcl Ha Hn; simpl.
  - split; assumption.
  - destruct (parse_spec b) as [[s e]|] eqn:Ep; [|exact I].
    destruct (parse_spec_digits _ _ _ Ep) as [Hs He].
    destruct (isnil s) eqn:Es; simpl.
    + destruct (isnil e) eqn:Ee; [exact I|].
      destruct (int_of_digits e (isnil_false _ _ Ee) He) as [n [-> Hn0]].
      destruct ((n =? 0) || (cl =? 0)) eqn:Ez; [apply IH; assumption|].
      apply IH; [assumption| |apply add_unique_nodup; assumption].
      apply add_unique_ok; [|assumption]. unfold ok. simpl. lia.
    + destruct (int_of_digits s (isnil_false _ _ Es) Hs) as [start [-> Hs0]].
      assert (exists stop, (if isnil e then Some (cl - 1) else int_of e) = Some stop) as [stop ->].
      { destruct (isnil e) eqn:Ee; [eexists; reflexivity|].
        destruct (int_of_digits e (isnil_false _ _ Ee) He) as [z [-> _]]. eexists; reflexivity. }
      destruct (start >=? cl) eqn:E1; [apply IH; assumption|].
      destruct (stop <? start) eqn:E2; [exact I|].
      apply IH; [assumption| |apply add_unique_nodup; assumption].
      apply add_unique_ok; [|assumption]. unfold ok. simpl. lia.
Qed.

Theorem get_ranges_sound : forall hv cl, 0 <= cl ->
  match get_ranges hv cl with
  | RCrash => False
  | RList l => Forall (ok cl) l /\ NoDup l
  | _ => True
  end.
Proof.
  intros hv cl Hcl. unfold get_ranges.
  destruct hv as [[|c h]|]; try exact I.
  cbv zeta. set (unit := fst (split_unit (c :: h))). set (rest := snd (split_unit (c :: h))).
  destruct (negb (str_eqb (map lower_ascii (strip_ws unit)) BYTES)); [exact I|].
  pose proof (ranges_loop_sound cl (split_on COMMA rest) [] Hcl (Forall_nil _) (NoDup_nil _)) as H.
  destruct (ranges_loop cl (split_on COMMA rest) []) as [|l| |]; try exact I; [|contradiction].
  destruct ((1 <? Z.of_nat (length l)) && too_spread (map (fun x => snd x - fst x) l)); [exact I|assumption].
Qed.

(* ---------- serve_file's Range arm ---------- *)

Definition slice (content : list N) (a b : Z) : list N :=
  firstn (Z.to_nat (b - a)) (skipn (Z.to_nat a) content).

Lemma slice_length : forall content a b, 0 <= a -> a <= b -> b <= Z.of_nat (length content) ->
  Z.of_nat (length (slice content a b)) = b - a.
Proof.
  intros content a b H1 H2 H3. unfold slice. rewrite firstn_length, skipn_length. lia.
Qed.

Lemma seek_read_ok : forall content a b, ok (Z.of_nat (length content)) (a, b) ->
  seek_read content a (b - a) = Some (slice content a b).
Proof.
  intros content a b (H1 & H2 & H3). simpl in *. unfold seek_read.
  destruct (a <? 0) eqn:E1; [lia|]. destruct (b - a <? 0) eqn:E2; [lia|]. reflexivity.
Qed.

Definition part_ok (content : list N) (p : Z * Z * list N) : Prop :=
  let '(a, b, body) := p in
  ok (Z.of_nat (length content)) (a, b) /\ body = slice content a b /\ Z.of_nat (length body) = b - a.

Lemma read_parts_ok : forall content l, Forall (ok (Z.of_nat (length content))) l ->
  exists ps, read_parts content l = Some ps /\ Forall (part_ok content) ps /\ map fst ps = l.
Proof.
  intros content l. induction l as [|[a b] r IH]; intros H; simpl.
  - exists []. repeat split; constructor.
  - inversion H as [|? ? Hab Hr]; subst. rewrite (seek_read_ok _ _ _ Hab).
    destruct (IH Hr) as [ps [-> [Hps Hm]]].
    exists ((a, b, slice content a b) :: ps). split; [reflexivity|]. split.
    + constructor; [|assumption]. simpl. split; [assumption|]. split; [reflexivity|].
      destruct Hab as (H1 & H2 & H3). simpl in *. apply slice_length; lia.
    + simpl. rewrite Hm. reflexivity.
Qed.

Theorem serve_range_sound : forall proto11 hv content,
  let len := Z.of_nat (length content) in
  match serve_range proto11 hv content with
  | Err500 => False
  | Full n => n = len
  | R416 n => n = len
  | Partial a b n body => n = len /\ part_ok content (a, b, body)
  | Multi n ps => n = len /\ Forall (part_ok content) ps /\ (2 <= length ps)%nat /\ NoDup (map fst ps)
  end.
Proof.
  intros proto11 hv content len. unfold serve_range. fold len.
  destruct (negb proto11); [reflexivity|].
  pose proof (get_ranges_sound hv len ltac:(lia)) as H.
  destruct (get_ranges hv len) as [|l| |]; try reflexivity; [|contradiction].
  destruct H as [Hok Hnd].
  destruct l as [|[a b] l]; [reflexivity|].
  destruct l as [|q l].
  - inversion Hok as [|? ? Hab _]; subst. rewrite (seek_read_ok _ _ _ Hab).
    split; [reflexivity|]. simpl. split; [assumption|]. split; [reflexivity|].
    destruct Hab as (H1 & H2 & H3). simpl in *. apply slice_length; lia.
  - destruct (read_parts_ok content _ Hok) as [ps [-> [Hps Hm]]].
    split; [reflexivity|]. split; [assumption|]. split.
    + rewrite <- (map_length fst ps), Hm. simpl. lia.
    + rewrite Hm. assumption.
Qed.

(* ---------- exactness: a well-formed single spec yields exactly the requested slice ---------- *)

Lemma digit_facts : forall c, is_digit c = true ->
  is_ws c = false /\ (c =? DASH)%N = false /\ (c =? COMMA)%N = false /\ (c =? EQ)%N = false.
Proof.
  intros c H. unfold is_digit in H. apply andb_true_iff in H as [H1 H2].
  apply N.leb_le in H1, H2. unfold is_ws, DASH, COMMA, EQ.
  repeat split;
    repeat match goal with
           | |- (_ || _)%bool = false => apply orb_false_iff; split
           | |- (_ && _)%bool = false => apply andb_false_iff
           end;
    try (apply N.eqb_neq; lia);
    try (left; apply N.leb_gt; lia); try (right; apply N.leb_gt; lia).
Qed.

Lemma partition_digits : forall d ds rest, all_digits ds = true ->
  (forall c, is_digit c = true -> (c =? d)%N = false) ->
  partition_at d (ds ++ d :: rest) = Some (ds, rest).
Proof.
  intros d ds rest H Hd. induction ds as [|c ds IH]; simpl.
  - rewrite N.eqb_refl. reflexivity.
  - simpl in H. apply andb_true_iff in H as [Hc Hs]. rewrite (Hd c Hc), (IH Hs). reflexivity.
Qed.

Lemma split_no_delim : forall d s, (forall c, In c s -> (c =? d)%N = false) -> split_on d s = [s].
Proof.
  intros d s H. apply split_on_id. intro I. apply H in I. rewrite N.eqb_refl in I. discriminate.
Qed.

Lemma strip_ws_nows : forall s, (forall c, In c s -> is_ws c = false) -> strip_ws s = s.
Proof.
  intros s H. unfold strip_ws.
  assert (forall l, (forall c, In c l -> is_ws c = false) -> lstrip_ws l = l) as X.
  { intros l Hl. destruct l as [|c t]; [reflexivity|]. simpl. rewrite Hl by (left; reflexivity). reflexivity. }
  rewrite (X s H). rewrite X; [apply rev_involutive|].
  intros c I. apply H. apply in_rev. exact I.
Qed.

Lemma all_digits_forall : forall s, all_digits s = true -> forall c, In c s -> is_digit c = true.
Proof. intros s H. apply forallb_forall. exact H. Qed.

(* a spec "ds-de" built from digit strings is its own stripped form *)
Lemma spec_shape : forall ds de, all_digits ds = true -> all_digits de = true ->
  let b := ds ++ DASH :: de in
  split_on COMMA b = [b] /\ parse_spec b = Some (ds, de).
Proof.
  intros ds de Hs He b.
  assert (forall c, In c b -> is_digit c = true \/ c = DASH) as Hb.
  { intros c I. unfold b in I. apply in_app_or in I as [I|[I|I]].
    - left. exact (all_digits_forall ds Hs c I).
    - right. symmetry. exact I.
    - left. exact (all_digits_forall de He c I). }
  split.
  - apply split_no_delim. intros c I. destruct (Hb c I) as [D| ->]; [apply digit_facts; exact D|reflexivity].
  - unfold parse_spec. rewrite strip_ws_nows.
    + unfold b. rewrite partition_digits; [rewrite Hs, He; reflexivity|assumption|].
      intros c D. apply digit_facts. exact D.
    + intros c I. destruct (Hb c I) as [D| ->]; [apply digit_facts; exact D|reflexivity].
Qed.

Lemma header_shape : forall rest,
  split_unit (BYTES ++ EQ :: rest) = (BYTES, rest) /\
  str_eqb (map lower_ascii (strip_ws BYTES)) BYTES = true.
Proof. intros. split; reflexivity. Qed.

Lemma get_ranges_one_spec : forall ds de cl,
  all_digits ds = true -> all_digits de = true ->
  get_ranges (Some (BYTES ++ EQ :: ds ++ DASH :: de)) cl =
  match ranges_loop cl [ds ++ DASH :: de] [] with
  | RList l => RList l
  | r => r
  end.
Proof.
  intros ds de cl Hs He. unfold get_ranges.
  change (BYTES ++ EQ :: ds ++ DASH :: de) with (98%N :: ([121; 116; 101; 115]%N ++ EQ :: ds ++ DASH :: de)).
  cbv zeta.
  change (98%N :: ([121; 116; 101; 115]%N ++ EQ :: ds ++ DASH :: de)) with (BYTES ++ EQ :: ds ++ DASH :: de).
  destruct (header_shape (ds ++ DASH :: de)) as [-> E]. simpl fst. simpl snd. rewrite E. simpl negb. cbv iota.
  destruct (spec_shape ds de Hs He) as [-> Hp].
  simpl ranges_loop. rewrite Hp.
  destruct (isnil ds); simpl.
  - destruct (isnil de); [reflexivity|]. destruct (int_of de) as [n|]; [|reflexivity].
    destruct ((n =? 0) || (cl =? 0)); reflexivity.
  - destruct (int_of ds) as [a|]; [|reflexivity].
    destruct (if isnil de then Some (cl - 1) else int_of de) as [b|]; [|reflexivity].
    destruct (a >=? cl); [reflexivity|]. destruct (b <? a); reflexivity.
Qed.

(* "bytes=a-b": bytes a..min(b, len-1) *)
Theorem range_closed_exact : forall ds de a b cl,
  all_digits ds = true -> all_digits de = true ->
  int_of ds = Some a -> int_of de = Some b -> a <= b -> a < cl ->
  get_ranges (Some (BYTES ++ EQ :: ds ++ DASH :: de)) cl = RList [(a, Z.min b (cl - 1) + 1)].
Proof.
  intros ds de a b cl Hs He Ha Hb Hab Hcl.
  rewrite get_ranges_one_spec by assumption.
  destruct (spec_shape ds de Hs He) as [_ Hp]. simpl ranges_loop. rewrite Hp.
  assert (isnil ds = false) as N1 by (destruct ds; [discriminate|reflexivity]).
  assert (isnil de = false) as N2 by (destruct de; [discriminate|reflexivity]).
  rewrite N1, N2, Ha, Hb. simpl negb. cbv iota.
  destruct (a >=? cl) eqn:E1; [lia|]. destruct (b <? a) eqn:E2; [lia|]. reflexivity.
Qed.

(* "bytes=a-": from a to the end *)
Theorem range_open_exact : forall ds a cl,
  all_digits ds = true -> int_of ds = Some a -> a < cl ->
  get_ranges (Some (BYTES ++ EQ :: ds ++ [DASH])) cl = RList [(a, cl)].
Proof.
  intros ds a cl Hs Ha Hcl.
  rewrite (get_ranges_one_spec ds [] cl Hs eq_refl).
  destruct (spec_shape ds [] Hs eq_refl) as [_ Hp]. simpl ranges_loop. rewrite Hp.
  assert (isnil ds = false) as N1 by (destruct ds; [discriminate|reflexivity]).
  rewrite N1, Ha. simpl.
  destruct (a >=? cl) eqn:E1; [lia|]. destruct (cl - 1 <? a) eqn:E2; [lia|].
  unfold add_unique. simpl. repeat f_equal. lia.
Qed.

(* "bytes=-n": the last n bytes (the whole file when n exceeds its length) *)
Theorem range_suffix_exact : forall de n cl,
  all_digits de = true -> int_of de = Some n -> 0 < n -> 0 < cl ->
  get_ranges (Some (BYTES ++ EQ :: DASH :: de)) cl = RList [(Z.max (cl - n) 0, cl)].
Proof.
  intros de n cl He Hn Hn0 Hcl.
  pose proof (get_ranges_one_spec [] de cl eq_refl He) as G.
  change ([] ++ DASH :: de) with (DASH :: de) in G. rewrite G. clear G.
  destruct (spec_shape [] de eq_refl He) as [_ Hp]. simpl ranges_loop.
  change ([] ++ DASH :: de) with (DASH :: de) in Hp. rewrite Hp.
  assert (isnil de = false) as N2 by (destruct de; [discriminate|reflexivity]).
  simpl. rewrite N2, Hn.
  destruct ((n =? 0) || (cl =? 0)) eqn:E; [lia|]. reflexivity.
Qed.

(* an unsatisfiable first position is answered with the empty list (416), a reversed spec and a
   non-numeric spec make the header void *)
Theorem range_beyond_416 : forall ds de a cl,
  all_digits ds = true -> all_digits de = true -> int_of ds = Some a -> cl <= a ->
  get_ranges (Some (BYTES ++ EQ :: ds ++ DASH :: de)) cl = RList [].
Proof.
  intros ds de a cl Hs He Ha Hcl.
  rewrite get_ranges_one_spec by assumption.
  destruct (spec_shape ds de Hs He) as [_ Hp]. simpl ranges_loop. rewrite Hp.
  assert (isnil ds = false) as N1 by (destruct ds; [discriminate|reflexivity]).
  rewrite N1, Ha. simpl negb. cbv iota.
  assert (exists stop, (if isnil de then Some (cl - 1) else int_of de) = Some stop) as [stop ->].
  { destruct (isnil de) eqn:Ee; [eexists; reflexivity|].
    destruct (int_of_digits de (isnil_false _ _ Ee) He) as [z [-> _]]. eexists; reflexivity. }
  destruct (a >=? cl) eqn:E1; [reflexivity|lia].
Qed.
