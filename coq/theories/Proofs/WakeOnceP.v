(* C03 — exactly once and per-thread order in the protocol model (Model/Wake.v). *)
From Coq Require Import List Arith Bool Lia FinFun.
From Circ Require Import Model.Wake Proofs.WakeInvP.
Import ListNotations.

(* the events of firing thread i in a list *)
Definition of_thread (i : nat) (e : ev) : bool := match e with EvF t _ => Nat.eqb t i | _ => false end.
Definition proj (i : nat) (l : list ev) : list ev := filter (of_thread i) l.
Definition Q (s : state) : list (nat * ev) := hp s ++ dq s.

Lemma proj_app i a b : proj i (a ++ b) = proj i a ++ proj i b.
Proof. apply filter_app. Qed.

Lemma ev_eqb_eq a b : ev_eqb a b = true -> a = b.
Proof.
  destruct a, b; simpl; try discriminate; intros H.
  - apply Nat.eqb_eq in H. congruence.
  - apply andb_true_iff in H. destruct H as [H1 H2]. apply Nat.eqb_eq in H1. apply Nat.eqb_eq in H2. congruence.
  - apply Nat.eqb_eq in H. congruence.
Qed.

Lemma remove_ev_spec e l k r : remove_ev e l = Some (k, r) ->
  exists h1 h2, l = h1 ++ (k, e) :: h2 /\ r = h1 ++ h2.
Proof.
  revert k r. induction l as [|[k0 e0] l IH]; intros k r H; simpl in H; [discriminate|].
  destruct (ev_eqb e e0) eqn:E.
  - inversion H; subst. apply ev_eqb_eq in E. subst. exists [], r. auto.
  - destruct (remove_ev e l) as [[k' r']|]; [|discriminate]. inversion H; subst.
    destruct (IH _ _ eq_refl) as [h1 [h2 [A B]]]. subst. exists ((k0, e0) :: h1), h2. auto.
Qed.

(* keys of the entries of thread i increase strictly along the list *)
Fixpoint thr_sorted (i : nat) (l : list (nat * ev)) : Prop :=
  match l with
  | [] => True
  | (k, e) :: r =>
      (of_thread i e = true -> forall k' e', In (k', e') r -> of_thread i e' = true -> k < k') /\ thr_sorted i r
  end.

Lemma thr_sorted_snoc i l k e :
  thr_sorted i l ->
  (of_thread i e = true -> forall k' e', In (k', e') l -> of_thread i e' = true -> k' < k) ->
  thr_sorted i (l ++ [(k, e)]).
Proof.
  induction l as [|[k0 e0] l IH]; intros Hs Hn; simpl.
  - split; [intros _ k' e' []|exact I].
  - destruct Hs as [H1 H2]. split.
    + intros Ht k' e' Hin Ht'. apply in_app_or in Hin. destruct Hin as [Hin|[Hin|[]]].
      * eapply H1; eauto.
      * inversion Hin; subst. apply (Hn Ht' k0 e0); [left; reflexivity | exact Ht].
    + apply IH; [exact H2|]. intros Ht k' e' Hin Ht'. apply (Hn Ht k' e'); [right; exact Hin | exact Ht'].
Qed.

Lemma thr_sorted_remove i h1 x h2 : thr_sorted i (h1 ++ x :: h2) -> thr_sorted i (h1 ++ h2).
Proof.
  induction h1 as [|[k0 e0] h1 IH]; simpl.
  - destruct x. intros [_ H]. exact H.
  - intros [H1 H2]. split; [|apply IH; exact H2].
    intros Ht k' e' Hin Ht'. eapply H1; eauto. apply in_app_or in Hin. apply in_or_app.
    destruct Hin; [left|right; right]; assumption.
Qed.

Lemma thr_sorted_first i h1 k e h2 :
  thr_sorted i (h1 ++ (k, e) :: h2) -> of_thread i e = true ->
  (forall p, In p h1 -> k <= fst p) -> proj i (map snd h1) = [].
Proof.
  induction h1 as [|[k0 e0] h1 IH]; simpl; intros Hs Ht Hmin; [reflexivity|].
  destruct Hs as [H1 H2].
  destruct (of_thread i e0) eqn:E0.
  - exfalso. assert (k0 < k) by (eapply H1; eauto; apply in_or_app; right; left; reflexivity).
    assert (k <= k0) by (apply (Hmin (k0, e0)); left; reflexivity). lia.
  - apply IH; auto.
Qed.

Definition EKc (d : list ev) (q : list (nat * ev)) (c : nat) (f : nat -> fth) : Prop :=
  (forall i, proj i (d ++ map snd q) = map (EvF i) (seq 0 (fapp (f i)))) /\
  (forall k e, In (k, e) q -> k <= c) /\
  (forall i h, fp (f i) = FApp h -> forall k e, In (k, e) q -> of_thread i e = true -> k < c) /\
  (forall i, thr_sorted i q).

Definition EK (s : state) : Prop := EKc (disp s) (hp s ++ dq s) (ctr s) (fts s).

Lemma EK_init m : EK (init m).
Proof. repeat split; simpl; intros; try reflexivity; try contradiction; try discriminate. Qed.

(* a counter increment; program points may change, nobody appends *)
Lemma ek_count d q c f f' : EKc d q c f -> (forall i, fapp (f' i) = fapp (f i)) -> EKc d q (S c) f'.
Proof.
  intros (E & K1 & K2 & K3) Hf. repeat split; auto.
  - intros i. rewrite Hf. apply E.
  - intros k e Hin. specialize (K1 _ _ Hin). lia.
  - intros i h _ k e Hin _. specialize (K1 _ _ Hin). lia.
Qed.

(* program points change, nobody reaches FApp, nobody appends *)
Lemma ek_pc d q c f f' : EKc d q c f -> (forall i, fapp (f' i) = fapp (f i)) ->
  (forall i h, fp (f' i) = FApp h -> fp (f i) = FApp h) -> EKc d q c f'.
Proof.
  intros (E & K1 & K2 & K3) Hf Hp. repeat split; auto.
  - intros i. rewrite Hf. apply E.
  - intros i h Hi. eapply K2. eapply Hp. exact Hi.
Qed.

Lemma proj_other i e l : of_thread i e = false -> proj i (l ++ [e]) = proj i l.
Proof. intros H. rewrite proj_app. simpl. rewrite H. apply app_nil_r. Qed.

(* the loop thread appends one of its own events *)
Lemma ek_snoc_own d q c f e : EKc d q c f -> (forall i, of_thread i e = false) -> EKc d (q ++ [(c, e)]) c f.
Proof.
  intros (E & K1 & K2 & K3) He. repeat split.
  - intros i. rewrite map_app, app_assoc. simpl. rewrite proj_other by apply He. apply E.
  - intros k e' Hin. apply in_app_or in Hin. destruct Hin as [Hin|[Hin|[]]]; [eauto|inversion Hin; lia].
  - intros i h Hi k e' Hin Ht. apply in_app_or in Hin. destruct Hin as [Hin|[Hin|[]]]; [eauto|].
    inversion Hin; subst. rewrite He in Ht. discriminate.
  - intros i. apply thr_sorted_snoc; [apply K3|]. rewrite He. discriminate.
Qed.

(* firing thread i, at FApp, appends its next event *)
Lemma ek_snoc_foreign d q c f i h p' :
  EKc d q c f -> fp (f i) = FApp h -> (forall h', p' <> FApp h') ->
  EKc d (q ++ [(c, EvF i (fapp (f i)))]) c
      (upd f i {| fp := p'; fapp := S (fapp (f i)); fret := fret (f i) |}).
Proof.
  intros (E & K1 & K2 & K3) Hi Hp'. repeat split.
  - intros j. rewrite map_app, app_assoc. simpl. unfold upd. destruct (Nat.eqb_spec j i).
    + subst j. cbn [fapp]. rewrite seq_S, map_app, proj_app, E. simpl. rewrite Nat.eqb_refl. reflexivity.
    + rewrite proj_other; [apply E|]. simpl. apply Nat.eqb_neq. congruence.
  - intros k e' Hin. apply in_app_or in Hin. destruct Hin as [Hin|[Hin|[]]]; [eauto|inversion Hin; lia].
  - intros j h0 Hj k e' Hin Ht. unfold upd in Hj. destruct (Nat.eqb_spec j i).
    + subst. simpl in Hj. exfalso. eapply Hp'. exact Hj.
    + apply in_app_or in Hin. destruct Hin as [Hin|[Hin|[]]]; [eauto|].
      inversion Hin; subst. simpl in Ht. apply Nat.eqb_eq in Ht. congruence.
  - intros j. apply thr_sorted_snoc; [apply K3|]. simpl. intros Ht k' e' Hin Ht'.
    apply Nat.eqb_eq in Ht. subst j. eapply K2; eauto.
Qed.

(* the loop hands the entry with the smallest key of the heap part to the dispatcher *)
Lemma ek_call d (hq dq0 : list (nat * ev)) c f e k r :
  EKc d (hq ++ dq0) c f -> remove_ev e hq = Some (k, r) -> forallb (fun p => Nat.leb k (fst p)) r = true ->
  EKc (d ++ [e]) (r ++ dq0) c f.
Proof.
  intros (E & K1 & K2 & K3) Hr Hmin. destruct (remove_ev_spec _ _ _ _ Hr) as [h1 [h2 [A B]]]. subst hq r.
  assert (Hsub : forall x, In x ((h1 ++ h2) ++ dq0) -> In x ((h1 ++ (k, e) :: h2) ++ dq0)).
  { intros x Hx. apply in_app_or in Hx. apply in_or_app. destruct Hx as [Hx|Hx]; [left|right; exact Hx].
    apply in_app_or in Hx. apply in_or_app. destruct Hx; [left|right; right]; assumption. }
  repeat split.
  - intros i. rewrite <- E. rewrite <- !app_assoc. rewrite !proj_app. f_equal.
    rewrite !map_app, !proj_app. simpl.
    destruct (of_thread i e) eqn:Ht.
    + assert (H0 : proj i (map snd h1) = []).
      { eapply thr_sorted_first with (h2 := h2 ++ dq0); [rewrite app_comm_cons, app_assoc; apply K3 | exact Ht |].
        intros p Hp. rewrite forallb_forall in Hmin. apply Nat.leb_le. apply Hmin. apply in_or_app. left. exact Hp. }
      rewrite H0. simpl. reflexivity.
    + simpl. reflexivity.
  - intros k' e' Hin. eauto.
  - intros i h Hi k' e' Hin. eauto.
  - intros i. rewrite <- app_assoc. eapply thr_sorted_remove. rewrite app_comm_cons, app_assoc. apply K3.
Qed.

Lemma Q_move (h : list (nat * ev)) x r : (h ++ [x]) ++ r = h ++ x :: r.
Proof. rewrite <- app_assoc. reflexivity. Qed.

Lemma EK_lstep a s s' : EK s -> lstep a s = Some s' -> EK s'.
Proof.
  intros HE H. unfold EK in *.
  lstep_cases H; simpl;
    first [ exact HE
          | apply ek_count with (f := fts s); [exact HE | reflexivity]
          | rewrite app_assoc; apply ek_snoc_own; [exact HE | reflexivity]
          | rewrite Q_move; exact HE
          | eapply ek_call; eassumption ].
Qed.

Lemma EK_fstep i0 a s s' : EK s -> fstep i0 a s = Some s' -> EK s'.
Proof.
  intros HE H. unfold EK in *.
  fstep_cases H; simpl;
    first [ exact HE
          | rewrite app_assoc; eapply ek_snoc_foreign; [exact HE | eassumption | intros; discriminate]
          | apply ek_count with (f := fts s); [exact HE |];
            intros j; unfold upd; destruct (Nat.eqb_spec j i0); subst; reflexivity
          | apply ek_pc with (f := fts s); [exact HE | |];
            intros j; unfold upd; destruct (Nat.eqb_spec j i0); subst; simpl; try reflexivity;
            try congruence; intros; try discriminate; try assumption ].
Qed.

Lemma EK_step s ta s' : EK s -> step s ta = Some s' -> EK s'.
Proof.
  destruct ta as [[|i] a]; simpl; [apply EK_lstep | apply EK_fstep].
Qed.

Lemma EK_reachable m s : reachable m s -> EK s.
Proof.
  apply reachable_ind'; [apply EK_init | intros; eapply EK_step; eassumption].
Qed.

(* The events of firing thread i that have been handed to the dispatcher, followed by those still in the
   queue, are exactly its events 0, 1, ..., fapp-1 in firing order: none lost, none duplicated, and they are
   dispatched in the order in which the thread fired them. *)
Theorem exactly_once_in_order : forall m s, reachable m s -> forall i,
  proj i (disp s ++ pending s) = map (EvF i) (seq 0 (fapp (fts s i))).
Proof.
  intros m s Hr i. destruct (EK_reachable _ _ Hr) as [E _]. unfold pending. rewrite <- map_app. apply E.
Qed.

Lemma firstn_seq0 n m : n <= m -> firstn n (seq 0 m) = seq 0 n.
Proof.
  intros H. replace m with (n + (m - n)) by lia. rewrite seq_app, firstn_app, seq_length, Nat.sub_diag.
  simpl. rewrite app_nil_r. rewrite <- (seq_length n 0) at 1. apply firstn_all.
Qed.

Lemma NoDup_map_seq i n : NoDup (map (EvF i) (seq 0 n)).
Proof.
  apply Injective_map_NoDup; [|apply seq_NoDup]. intros a b H. congruence.
Qed.

Theorem dispatched_once : forall m s, reachable m s -> forall i,
  NoDup (proj i (disp s)) /\
  exists n, n <= fapp (fts s i) /\ proj i (disp s) = map (EvF i) (seq 0 n).
Proof.
  intros m s Hr i. pose proof (exactly_once_in_order m s Hr i) as H. rewrite proj_app in H.
  assert (Hpre : exists n, n <= fapp (fts s i) /\ proj i (disp s) = map (EvF i) (seq 0 n)).
  { remember (proj i (disp s)) as a. remember (proj i (pending s)) as b. clear - H.
    exists (length a). assert (HL : length a + length b = fapp (fts s i)).
    { rewrite <- app_length, H, map_length, seq_length. reflexivity. }
    split; [lia|].
    assert (Ha : a = firstn (length a) (a ++ b)).
    { rewrite firstn_app, firstn_all, Nat.sub_diag. simpl. rewrite app_nil_r. reflexivity. }
    rewrite Ha at 1. rewrite H, firstn_map, firstn_seq0 by lia. reflexivity. }
  split; [|exact Hpre]. destruct Hpre as [n [_ Hn]]. rewrite Hn. apply NoDup_map_seq.
Qed.
