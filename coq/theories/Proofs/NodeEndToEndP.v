(* C19: composition of the per-packet / per-party results into one statement about the two-party system
   (Model/NodeProto.v: exec over schedules) for every honest schedule with arbitrary chunking. *)
From Coq Require Import List NArith ZArith Bool Lia Permutation.
From Circ Require Import Model.NodeProto Proofs.NodeProtoP.
Import ListNotations.

Definition DELIM : list N := [TILDE; TILDE; TILDE].
Definition isobj (j : json) : Prop := match j with JObj _ => True | _ => False end.

(* what is assumed about json.dumps / json.loads (the same laws as the premises of C19_framing, for the
   texts of JSON objects): [ser] is the text json.dumps returns *)
Record json_laws (dumps : json -> option (list N)) (loads : list N -> option (option json))
                 (ser : json -> list N) : Prop := {
  L_dumps : forall j, dumps j = Some (ser j);
  L_rt : forall j, isobj j -> loads (escape (ser j)) = Some (Some j);
  L_pre : forall j q r, isobj j -> escape (ser j) = q ++ r -> r <> [] -> loads q = Some None;
  L_ext : forall j t t', isobj j -> DELIM = t ++ t' -> t <> [] -> t' <> [] ->
                         loads (escape (ser j) ++ t) = Some None;
  L_del : forall t t', DELIM = t ++ t' -> t' <> [] -> loads t = Some None
}.

Section E2E.
  Variable excl : list (list N).
  Variable dumps : json -> option (list N).
  Variable loads : list N -> option (option json).
  Variables fw_send fw_recv : event -> bool.
  Variable handler : event -> hres.
  Variable b_chan : json.
  Variable ser : json -> list N.
  Hypothesis laws : json_laws dumps loads ser.

  Definition enc (j : json) : list N := escape (ser j).
  Notation prs := (parse loads).
  Notation FInv := (Inv json prs enc TILDE [TILDE; TILDE] isobj).
  Notation frm := (frames json DELIM enc).

  (* ---- the framing lemmas, instantiated *)
  Lemma P_rt : forall p, isobj p -> prs (enc p) = Some p.
  Proof. intros p H. unfold parse, enc. rewrite (L_rt _ _ _ laws p H). reflexivity. Qed.
  Lemma P_clean : forall p, isobj p -> ~ In TILDE (enc p).
  Proof. intros p _. apply escape_no_tilde. Qed.
  Lemma P_pre : forall p q r, isobj p -> enc p = q ++ r -> r <> [] -> prs q = None.
  Proof. intros p q r H H1 H2. unfold parse. rewrite (L_pre _ _ _ laws p q r H H1 H2). reflexivity. Qed.
  Lemma P_ext : forall p t t', isobj p -> TILDE :: [TILDE; TILDE] = t ++ t' -> t <> [] -> t' <> [] ->
    prs (enc p ++ t) = None.
  Proof. intros p t t' H H1 H2 H3. unfold parse, enc. rewrite (L_ext _ _ _ laws p t t' H H1 H2 H3). reflexivity. Qed.
  Lemma P_del : forall t t', TILDE :: [TILDE; TILDE] = t ++ t' -> t' <> [] -> prs t = None.
  Proof. intros t t' H1 H2. unfold parse. rewrite (L_del _ _ _ laws t t' H1 H2). reflexivity. Qed.

  Definition f_step := step_inv json prs enc TILDE [TILDE; TILDE] isobj P_rt P_clean P_pre P_ext P_del.
  Definition f_extend := Inv_extend json prs enc TILDE [TILDE; TILDE] isobj P_rt.
  Definition f_end := Inv_end json prs enc TILDE [TILDE; TILDE] isobj.

  Lemma packet_eq : forall j, packet dumps DELIM j = Some (enc j ++ DELIM).
  Proof. intros j. unfold packet. rewrite (L_dumps _ _ _ laws j). reflexivity. Qed.

  (* ---- the callee on one honest call packet, completely *)
  Definition ev1 (e : event) : event :=      (* the event load_event builds from dump_event e *)
    {| ename := ename e; eargs := eargs e; ekwargs := ekwargs e; esuccess := esuccess e;
       efailure := efailure e; enotify := enotify e; echannels := echannels e;
       eattrs := apply_meta excl (dump_meta_ev excl e) [] |}.
  Definition ev2 (e : event) : event :=      (* the event that is dispatched *)
    {| ename := ename e; eargs := eargs e; ekwargs := ekwargs e; esuccess := true;
       efailure := efailure e; enotify := enotify e;
       echannels := match echannels e with [] => [b_chan] | l => l end;
       eattrs := apply_meta excl (dump_meta_ev excl e) [] |}.
  (* what the peer answers: class of the answer (order on the wire within one read), value, error flag *)
  Definition kind (e : event) : nat :=
    if fw_recv (ev1 e) then match handler (ev2 e) with HRaise true | HValLate _ => 3 | HRaise false => 2 | _ => 1 end else 0.
  Definition oval (e : event) : json :=
    if fw_recv (ev1 e) then match handler (ev2 e) with HVal r | HValLate r => r | HRaise _ => JERR | HNone => JNull end
    else JNull.
  Definition oerr (e : event) : bool :=
    if fw_recv (ev1 e) then match handler (ev2 e) with HRaise _ => true | _ => false end else false.
  Definition logof (e : event) : list event :=
    if fw_recv (ev1 e) then match handler (ev2 e) with HNone => [] | _ => [ev2 e] end else [].
  Definition cpkt (j : nat) (e : event) : json := event_data excl e (JInt (Z.of_nat j)).
  Definition rpkt (j : nat) (e : event) : json :=
    value_data excl (JInt (Z.of_nat j)) (JBool (oerr e)) (oval e) (ev1 e).

  Notation bpacket := (b_packet excl dumps DELIM fw_recv handler b_chan).
  Notation bpackets := (b_packets excl dumps DELIM fw_recv handler b_chan).

  Lemma b_packet_honest : forall j e, wf_event e ->
    bpacket (cpkt j e) = (logof e, [(kind e, enc (rpkt j e) ++ DELIM)], false, false).
  Proof.
    intros j e Hwf. unfold NodeProto.b_packet, cpkt.
    change (is_miss (event_data excl e (JInt (Z.of_nat j)))) with false. cbv iota.
    change (is_value (event_data excl e (JInt (Z.of_nat j)))) with (@None (list (list N * json))).
    cbv iota. rewrite (serial excl e _ Hwf). fold (ev1 e).
    unfold logof, kind, rpkt, oval, oerr.
    destruct (fw_recv (ev1 e)) eqn:Hf.
    - change {| ename := ename (ev1 e); eargs := eargs (ev1 e); ekwargs := ekwargs (ev1 e); esuccess := true;
                efailure := efailure (ev1 e); enotify := enotify (ev1 e);
                echannels := match echannels (ev1 e) with [] => [b_chan] | l => l end;
                eattrs := eattrs (ev1 e) |} with (ev2 e).
      cbv zeta. cbn [no_reply]. rewrite packet_eq.
      destruct (handler (ev2 e)) as [|r|r|[|]]; reflexivity.
    - rewrite packet_eq. reflexivity.
  Qed.

  (* ---- a batch of honest call packets *)
  Definition cp (je : nat * event) : json := cpkt (fst je) (snd je).
  Definition rp (je : nat * event) : json := rpkt (fst je) (snd je).
  Definition rid (x : nat * event) : nat := fst x.
  Definition pk (k : nat) (la : list (nat * event)) : list (nat * event) :=
    filter (fun je => Nat.eqb (kind (snd je)) k) la.
  Definition newR (la : list (nat * event)) := pk 0 la ++ pk 1 la ++ pk 2 la ++ pk 3 la.

  Lemma frm_cons : forall p ps, frm (p :: ps) = enc p ++ DELIM ++ frm ps.
  Proof. intros. unfold frames. simpl. rewrite <- app_assoc. reflexivity. Qed.

  Lemma b_packets_honest : forall la, Forall (fun je => wf_event (snd je)) la ->
    bpackets (map cp la) =
    (flat_map (fun je => logof (snd je)) la, map (fun je => (kind (snd je), enc (rp je) ++ DELIM)) la, false, false).
  Proof.
    induction la as [|[j e] la IH]; intros Hwf; [reflexivity|].
    inversion Hwf as [|? ? He Hla]; subst. simpl in He.
    cbn [map NodeProto.b_packets]. unfold cp at 1. cbn [fst snd].
    rewrite (b_packet_honest j e He). cbv iota. rewrite (IH Hla). reflexivity.
  Qed.

  Lemma pick_frames : forall k la,
    pick k (map (fun je => (kind (snd je), enc (rp je) ++ DELIM)) la) = frm (map rp (pk k la)).
  Proof.
    intros k la. unfold pick, pk. induction la as [|je la IH]; [reflexivity|].
    cbn [map filter fst]. destruct (Nat.eqb (kind (snd je)) k); [|exact IH].
    cbn [map concat snd]. rewrite IH, frm_cons, <- app_assoc. reflexivity.
  Qed.

  Lemma kind_le : forall e, kind e = 0 \/ kind e = 1 \/ kind e = 2 \/ kind e = 3.
  Proof.
    intros e. unfold kind. destruct (fw_recv (ev1 e)); [|auto].
    destruct (handler (ev2 e)) as [|r|r|[|]]; auto.
  Qed.

  Lemma perm_new : forall la, Permutation (newR la) la.
  Proof.
    induction la as [|je la IH]; [constructor|]. unfold newR, pk in *. cbn [filter].
    destruct (kind_le (snd je)) as [H|[H|[H|H]]]; rewrite H; cbn [Nat.eqb app].
    - constructor. exact IH.
    - apply Permutation_sym, Permutation_cons_app, Permutation_sym. exact IH.
    - apply Permutation_sym. rewrite app_assoc. apply Permutation_cons_app.
      rewrite <- app_assoc. apply Permutation_sym. exact IH.
    - apply Permutation_sym. rewrite 2 app_assoc. apply Permutation_cons_app.
      rewrite <- 2 app_assoc. apply Permutation_sym. exact IH.
  Qed.

  Lemma in_new : forall la je, In je (newR la) <-> In je la.
  Proof.
    intros la je. split; intros H.
    - apply (Permutation_in _ (perm_new la) H).
    - apply (Permutation_in _ (Permutation_sym (perm_new la)) H).
  Qed.

  Lemma NoDup_new : forall la, NoDup (map fst la) -> NoDup (map rid (newR la)).
  Proof.
    intros la H. apply (Permutation_NoDup (Permutation_sym (Permutation_map fst (perm_new la)))). exact H.
  Qed.

  (* ---- the caller's bookkeeping as a list of entries, one per send, in order *)
  Inductive status := Rej | NoRes (j : nat) | Wait (j : nat) | Fin (j : nat).
  Record ent := { en_e : event; en_m : smode; en_s : status }.

  Definition meta_of (e : event) := filter (fun p => allowed excl (fst p)) (dump_meta excl (ev1 e)).
  Definition final (e : event) : call := set_value call0 (oval e) (JBool (oerr e)) (meta_of e).
  Definition rej_call (m : smode) : call :=
    {| c_fin := match m with MNoResApi => false | _ => true end; c_res := false; c_val := JNull; c_err := None |}.
  Definition call_of (en : ent) : call :=
    match en_s en with
    | Rej => rej_call (en_m en)
    | NoRes _ | Wait _ => call0
    | Fin _ => final (en_e en)
    end.
  Fixpoint pend_of (k : nat) (ents : list ent) : list (Z * nat) :=
    match ents with
    | [] => []
    | en :: r => match en_s en with Wait j => [(Z.of_nat j, k)] | _ => [] end ++ pend_of (S k) r
    end.
  Definition acc1 (en : ent) : list (nat * event) :=
    match en_s en with Rej => [] | NoRes j | Wait j | Fin j => [(j, en_e en)] end.
  Definition acc (ents : list ent) := flat_map acc1 ents.
  Definition wait1 (en : ent) : list nat := match en_s en with Wait j => [j] | _ => [] end.
  Definition waits (ents : list ent) := flat_map wait1 ents.
  Definition mark (j : nat) (en : ent) : ent :=
    match en_s en with
    | Wait j' => if Nat.eqb j' j then {| en_e := en_e en; en_m := en_m en; en_s := Fin j |} else en
    | _ => en
    end.
  Definition marks (ra : list (nat * event)) (ents : list ent) : list ent :=
    fold_left (fun es x => map (mark (rid x)) es) ra ents.

  Lemma mark_noop : forall j ents, ~ In j (waits ents) -> map (mark j) ents = ents.
  Proof.
    intros j ents. induction ents as [|en r IH]; intros H; [reflexivity|].
    cbn [map]. unfold waits in H. cbn [flat_map] in H. fold (waits r) in H.
    rewrite IH by (intros Hi; apply H; apply in_or_app; right; exact Hi). f_equal.
    unfold mark. destruct (en_s en) eqn:E; try reflexivity.
    destruct (Nat.eqb j0 j) eqn:Ej; [|reflexivity]. apply Nat.eqb_eq in Ej. subst.
    exfalso. apply H. apply in_or_app. left. unfold wait1. rewrite E. left. reflexivity.
  Qed.

  Lemma waits_mark : forall j ents,
    waits (map (mark j) ents) = filter (fun x => negb (Nat.eqb x j)) (waits ents).
  Proof.
    intros j ents. induction ents as [|en r IH]; [reflexivity|].
    unfold waits in *. cbn [map flat_map]. rewrite filter_app, IH. f_equal.
    unfold mark, wait1. destruct (en_s en) eqn:E; try (rewrite E; reflexivity).
    destruct (Nat.eqb j0 j) eqn:Ej; cbn [en_s filter]; [rewrite Ej; reflexivity|rewrite E; cbn [filter]; rewrite Ej; reflexivity].
  Qed.

  Lemma acc_mark : forall j ents, acc (map (mark j) ents) = acc ents.
  Proof.
    intros j ents. induction ents as [|en r IH]; [reflexivity|].
    unfold acc in *. cbn [map flat_map]. rewrite IH. f_equal.
    unfold mark, acc1. destruct (en_s en) eqn:E; try (rewrite E; reflexivity).
    destruct (Nat.eqb j0 j) eqn:Ej; cbn [en_s en_e]; [|rewrite E; reflexivity].
    apply Nat.eqb_eq in Ej. subst. reflexivity.
  Qed.

  Lemma in_mark_wait : forall j ents en j', In en (map (mark j) ents) -> en_s en = Wait j' ->
    In en ents /\ j' <> j.
  Proof.
    intros j ents en j' Hin Hs. apply in_map_iff in Hin. destruct Hin as [en0 [Hm Hin0]].
    unfold mark in Hm. destruct (en_s en0) eqn:E; try (subst en; auto; rewrite E in Hs; discriminate).
    destruct (Nat.eqb j0 j) eqn:Ej.
    - subst en. cbn in Hs. discriminate.
    - subst en. rewrite E in Hs. inversion Hs; subst. split; [exact Hin0|]. apply Nat.eqb_neq. exact Ej.
  Qed.

  Lemma zget_notin_waits : forall j ents k, ~ In j (waits ents) -> zget (Z.of_nat j) (pend_of k ents) = None.
  Proof.
    intros j ents. induction ents as [|en r IH]; intros k H; [reflexivity|].
    unfold waits in H. cbn [flat_map] in H. fold (waits r) in H.
    cbn [pend_of]. unfold wait1 in H. destruct (en_s en) eqn:E; cbn [app];
      try (apply IH; intros Hi; apply H; apply in_or_app; right; exact Hi).
    cbn [zget]. destruct (Z.eqb (Z.of_nat j) (Z.of_nat j0)) eqn:Ez.
    - apply Z.eqb_eq, Nat2Z.inj in Ez. subst. exfalso. apply H. left. reflexivity.
    - apply IH. intros Hi. apply H. right. exact Hi.
  Qed.

  (* a reply for a waiting id is routed to the position of its entry and turns it into Fin *)
  Lemma route : forall j f ents k, NoDup (waits ents) -> In j (waits ents) ->
    (forall en, In en ents -> en_s en = Wait j -> f call0 = final (en_e en)) ->
    exists i, zget (Z.of_nat j) (pend_of k ents) = Some (k + i) /\
              upd i f (map call_of ents) = map call_of (map (mark j) ents).
  Proof.
    intros j f ents. induction ents as [|en r IH]; intros k Hnd Hin Hf; [destruct Hin|].
    unfold waits in Hnd, Hin. cbn [flat_map] in Hnd, Hin. fold (waits r) in Hnd, Hin.
    cbn [pend_of map]. unfold wait1 in Hnd, Hin. destruct (en_s en) eqn:E; cbn [app] in *.
    1,2,4: destruct (IH (S k) Hnd Hin (fun en' H' => Hf en' (or_intror H'))) as [i [Hz Hu]];
           exists (S i); split; [rewrite Hz; f_equal; lia|];
           cbn [upd]; rewrite Hu; f_equal; unfold mark; rewrite E; reflexivity.
    inversion Hnd as [|? ? Hni Hnd']; subst.
    destruct (Nat.eq_dec j0 j) as [->|Hne].
    - exists 0. cbn [zget]. rewrite Z.eqb_refl. split; [f_equal; lia|].
      cbn [upd]. rewrite (mark_noop j r Hni). f_equal.
      unfold call_of at 1. rewrite E. rewrite (Hf en (or_introl eq_refl) E).
      unfold mark. rewrite E, Nat.eqb_refl. reflexivity.
    - destruct Hin as [Hin|Hin]; [contradiction|].
      destruct (IH (S k) Hnd' Hin (fun en' H' => Hf en' (or_intror H'))) as [i [Hz Hu]].
      exists (S i). cbn [zget].
      assert (Ez : Z.eqb (Z.of_nat j) (Z.of_nat j0) = false).
      { apply Z.eqb_neq. intros H. apply Nat2Z.inj in H. congruence. }
      rewrite Ez. split; [rewrite Hz; f_equal; lia|].
      cbn [upd]. rewrite Hu. f_equal. unfold mark. rewrite E.
      destruct (Nat.eqb j0 j) eqn:Ej; [apply Nat.eqb_eq in Ej; contradiction|reflexivity].
  Qed.

  Lemma zget_mark : forall j j' ents k, j <> j' ->
    zget (Z.of_nat j) (pend_of k (map (mark j') ents)) = zget (Z.of_nat j) (pend_of k ents).
  Proof.
    intros j j' ents. induction ents as [|en r IH]; intros k Hne; [reflexivity|].
    cbn [map pend_of]. unfold mark at 1. destruct (en_s en) eqn:E; try (rewrite E; cbn [app]; apply IH; exact Hne).
    destruct (Nat.eqb j0 j') eqn:Ej.
    - cbn [en_s app]. apply Nat.eqb_eq in Ej. subst j0. cbn [zget].
      assert (Ez : Z.eqb (Z.of_nat j) (Z.of_nat j') = false).
      { apply Z.eqb_neq. intros H. apply Nat2Z.inj in H. congruence. }
      rewrite Ez. apply IH. exact Hne.
    - rewrite E. cbn [app zget]. rewrite IH by exact Hne. reflexivity.
  Qed.

  Notation apacket := (a_packet excl).
  Notation apackets := (a_packets excl).

  Lemma a_batch : forall ra pend ents, NoDup (map rid ra) -> NoDup (waits ents) ->
    (forall x, In x ra -> zget (Z.of_nat (rid x)) pend = zget (Z.of_nat (rid x)) (pend_of 0 ents)) ->
    (forall x en, In x ra -> In en ents -> en_s en = Wait (rid x) -> en_e en = snd x) ->
    apackets pend (map call_of ents) (map rp ra) = (map call_of (marks ra ents), false, false).
  Proof.
    induction ra as [|[j e] ra IH]; intros pend ents Hnd Hw Hz He; [reflexivity|].
    inversion Hnd as [|? ? Hni Hnd']; subst.
    cbn [map NodeProto.a_packets marks fold_left]. fold (marks ra (map (mark j) ents)).
    unfold rp at 1, rpkt. cbn [fst snd].
    assert (Hstep : apacket pend (map call_of ents)
                      (value_data excl (JInt (Z.of_nat j)) (JBool (oerr e)) (oval e) (ev1 e))
                    = (map call_of (map (mark j) ents), false, false)).
    { specialize (Hz (j, e) (or_introl eq_refl)). cbn [rid fst] in Hz.
      destruct (in_dec Nat.eq_dec j (waits ents)) as [Hin|Hnin].
      - destruct (route j (fun c => set_value c (oval e) (JBool (oerr e)) (meta_of e)) ents 0 Hw Hin) as [i [Hzi Hu]].
        { intros en Hen Hs. rewrite (He (j, e) en (or_introl eq_refl) Hen Hs). reflexivity. }
        rewrite <- Hz in Hzi. cbn [Nat.add] in Hzi.
        rewrite (result_routing excl pend _ _ i (oval e) (JBool (oerr e)) (ev1 e) Hzi eq_refl).
        unfold meta_of in Hu. rewrite Hu. reflexivity.
      - rewrite (zget_notin_waits j ents 0 Hnin) in Hz.
        rewrite (unregistered_reply_ignored excl pend _ _ (oval e) (JBool (oerr e)) (ev1 e) Hz eq_refl).
        rewrite (mark_noop j ents Hnin). reflexivity. }
    rewrite Hstep. cbv iota.
    rewrite (IH pend (map (mark j) ents)); [reflexivity|exact Hnd'| | |].
    - rewrite waits_mark. apply NoDup_filter. exact Hw.
    - intros x Hx. rewrite (Hz x (or_intror Hx)). symmetry. apply zget_mark.
      intros Heq. apply Hni. cbn [rid fst]. rewrite <- Heq. apply (in_map rid). exact Hx.
    - intros x en Hx Hen Hs. destruct (in_mark_wait j ents en (rid x) Hen Hs) as [Hen0 _].
      apply (He x en (or_intror Hx) Hen0 Hs).
  Qed.

  (* between two reads the finished calls leave the table *)
  Definition evo (en en' : ent) : Prop :=
    en' = en \/ exists j, en_s en = Wait j /\ en_s en' = Fin j.

  Lemma final_fin : forall e, c_fin (final e) = true.
  Proof. reflexivity. Qed.

  Lemma filter_pend : forall ents ents', Forall2 evo ents ents' -> forall k pre, length pre = k ->
    filter (fun p => negb (finished (pre ++ map call_of ents') p)) (pend_of k ents) = pend_of k ents'.
  Proof.
    intros ents ents' H. induction H as [|en en' r r' Hev Hr IH]; intros k pre Hk; [reflexivity|].
    cbn [map pend_of].
    assert (Hnth : nth_error (pre ++ call_of en' :: map call_of r') k = Some (call_of en')).
    { rewrite nth_error_app2 by lia. rewrite Hk, Nat.sub_diag. reflexivity. }
    assert (Hrest : filter (fun p => negb (finished (pre ++ call_of en' :: map call_of r') p)) (pend_of (S k) r)
                    = pend_of (S k) r').
    { replace (pre ++ call_of en' :: map call_of r') with ((pre ++ [call_of en']) ++ map call_of r')
        by (rewrite <- app_assoc; reflexivity).
      apply IH. rewrite app_length. simpl. lia. }
    rewrite filter_app, Hrest. f_equal.
    destruct Hev as [->|(j & Hs & Hs')].
    - destruct (en_s en) eqn:E; try reflexivity.
      cbn [filter]. unfold finished. cbn [snd]. rewrite Hnth. unfold call_of. rewrite E. reflexivity.
    - rewrite Hs, Hs'. cbn [filter]. unfold finished. cbn [snd]. rewrite Hnth.
      unfold call_of. rewrite Hs'. rewrite final_fin. reflexivity.
  Qed.

  Lemma evo_mark : forall j ents es, Forall2 evo ents es -> Forall2 evo ents (map (mark j) es).
  Proof.
    intros j ents es H. induction H as [|en en' r r' Hev Hr IH]; [constructor|].
    cbn [map]. constructor; [|exact IH].
    destruct Hev as [->|(j0 & Hs & Hs')].
    - unfold mark. destruct (en_s en) eqn:E; try (left; reflexivity).
      destruct (Nat.eqb j0 j) eqn:Ej; [|left; reflexivity].
      right. exists j0. apply Nat.eqb_eq in Ej. subst. split; [exact E|reflexivity].
    - right. exists j0. split; [exact Hs|]. unfold mark. rewrite Hs'. exact Hs'.
  Qed.

  Lemma evo_marks : forall ra ents es, Forall2 evo ents es -> Forall2 evo ents (marks ra es).
  Proof.
    induction ra as [|x ra IH]; intros ents es H; [exact H|].
    cbn [marks fold_left]. apply IH. apply evo_mark. exact H.
  Qed.

  Lemma evo_refl : forall ents, Forall2 evo ents ents.
  Proof. induction ents; constructor; [left; reflexivity|assumption]. Qed.

  (* ---- small facts about entries *)
  Lemma uniq_fst : forall (A : Type) (l : list (nat * A)) a b, NoDup (map fst l) ->
    In a l -> In b l -> fst a = fst b -> a = b.
  Proof.
    intros A l. induction l as [|c l IH]; intros a b Hnd Ha Hb Hab; [destruct Ha|].
    inversion Hnd as [|? ? Hni Hnd']; subst.
    destruct Ha as [<-|Ha]; destruct Hb as [<-|Hb]; try reflexivity.
    - exfalso. apply Hni. rewrite Hab. apply in_map. exact Hb.
    - exfalso. apply Hni. rewrite <- Hab. apply in_map. exact Ha.
    - apply IH; assumption.
  Qed.

  Lemma pend_of_app : forall a b k, pend_of k (a ++ b) = pend_of k a ++ pend_of (k + length a) b.
  Proof.
    induction a as [|en a IH]; intros b k; [simpl; rewrite Nat.add_0_r; reflexivity|].
    cbn [app pend_of length]. rewrite IH, <- app_assoc. rewrite Nat.add_succ_r. reflexivity.
  Qed.

  Lemma acc_app : forall a b, acc (a ++ b) = acc a ++ acc b.
  Proof. intros. unfold acc. apply flat_map_app. Qed.

  Lemma in_acc_wait : forall ents en j, In en ents -> en_s en = Wait j -> In (j, en_e en) (acc ents).
  Proof.
    intros ents en j Hin Hs. apply in_flat_map. exists en. split; [exact Hin|].
    unfold acc1. rewrite Hs. left. reflexivity.
  Qed.

  Lemma in_waits : forall ents j, In j (waits ents) <-> exists en, In en ents /\ en_s en = Wait j.
  Proof.
    intros ents j. unfold waits. rewrite in_flat_map. split; intros [en [Hin H]]; exists en; split; try exact Hin.
    - unfold wait1 in H. destruct (en_s en) eqn:E; cbn in H; try contradiction. destruct H as [<-|[]]. reflexivity.
    - unfold wait1. rewrite H. left. reflexivity.
  Qed.

  Lemma NoDup_waits : forall ents, NoDup (map fst (acc ents)) -> NoDup (waits ents).
  Proof.
    induction ents as [|en r IH]; intros H; [constructor|].
    unfold acc, waits in *. cbn [flat_map] in *. rewrite map_app in H.
    unfold acc1, wait1 in *. destruct (en_s en) eqn:E; cbn [app map] in *;
      try (apply IH; try exact H; inversion H; assumption).
    inversion H as [|? ? Hni Hnd]; subst. constructor; [|apply IH; exact Hnd].
    intros Hi. apply Hni. fold (waits r) in Hi. apply in_waits in Hi. destruct Hi as [en' [Hin Hs]].
    change j with (fst (j, en_e en')). apply in_map. apply (in_acc_wait r en' j Hin Hs).
  Qed.

  (* ---- the invariant of the two-party system *)
  Definition went (en : ent) : Prop :=
    wf_event (en_e en) /\
    match en_s en with
    | Rej => fw_send (en_e en) = false
    | NoRes _ => fw_send (en_e en) = true /\ en_m en <> MCall
    | Wait _ => fw_send (en_e en) = true /\ en_m en = MCall
    | Fin _ => fw_send (en_e en) = true /\ en_m en = MCall
    end.

  Record GI (ents : list ent) (done todo : list (nat * event)) (R : list (nat * event)) (s : st)
    : Prop := {
    g_nid : a_nid s = Z.of_nat (length (acc ents));
    g_calls : a_calls s = map call_of ents;
    g_pend : a_pend s = pend_of 0 ents;
    g_bad : bad s = false;
    g_went : Forall went ents;
    g_ids : map fst (acc ents) = seq 0 (length (acc ents));
    g_split : acc ents = done ++ todo;
    g_ab : FInv (b_buf s) (wab s) (map cp todo);
    g_log : b_log s = flat_map (fun je => logof (snd je)) done;
    g_ba : FInv (a_buf s) (wba s) (map rp R);
    g_rnd : NoDup (map rid R);
    g_rin : forall x, In x R -> In x done;
    g_wait : forall en j, In en ents -> en_s en = Wait j -> In (j, en_e en) done -> In (j, en_e en) R
  }.

  Definition sig (en : ent) : event * smode := (en_e en, en_m en).

  Lemma isobj_cp : forall l, Forall isobj (map cp l).
  Proof. intros l. apply Forall_forall. intros x H. apply in_map_iff in H. destruct H as [y [<- _]]. exact I. Qed.
  Lemma isobj_rp : forall l, Forall isobj (map rp l).
  Proof. intros l. apply Forall_forall. intros x H. apply in_map_iff in H. destruct H as [y [<- _]]. exact I. Qed.

  Notation asend := (a_send excl dumps DELIM fw_send).

  Lemma gi_send : forall ents done todo R s e m, GI ents done todo R s -> wf_event e ->
    exists ents' todo', GI ents' done todo' R (asend s e m) /\ map sig ents' = map sig ents ++ [(e, m)].
  Proof.
    intros ents done todo R s e m G Hwf. destruct G.
    unfold NodeProto.a_send. destruct (fw_send e) eqn:Hf.
    - (* accepted: a fresh id *)
      rewrite packet_eq. set (j := length (acc ents)).
      set (en := {| en_e := e; en_m := m; en_s := match m with MCall => Wait j | _ => NoRes j end |}).
      assert (Hacc : acc (ents ++ [en]) = acc ents ++ [(j, e)]).
      { rewrite acc_app. f_equal. unfold acc. cbn [flat_map]. rewrite app_nil_r. unfold acc1, en. cbn [en_s en_e].
        destruct m; reflexivity. }
      exists (ents ++ [en]), (todo ++ [(j, e)]). split; [|rewrite map_app; reflexivity].
      constructor; cbn [a_nid a_calls a_pend bad b_buf wab b_log a_buf wba].
      + rewrite Hacc, app_length, g_nid0. cbn [length]. lia.
      + rewrite g_calls0, map_app. f_equal. unfold call_of, en. cbn [map en_s]. destruct m; reflexivity.
      + rewrite pend_of_app, g_pend0. cbn [Nat.add]. rewrite g_calls0, map_length, g_nid0.
        unfold en. cbn [pend_of en_s]. destruct m; cbn [app]; rewrite ?app_nil_r; reflexivity.
      + exact g_bad0.
      + apply Forall_app. split; [exact g_went0|]. constructor; [|constructor].
        split; [exact Hwf|]. unfold en. cbn [en_s en_e en_m]. destruct m; repeat split; try exact Hf; discriminate.
      + rewrite Hacc, map_app, app_length, g_ids0. cbn [map length fst].
        rewrite Nat.add_1_r, seq_S. reflexivity.
      + rewrite Hacc, g_split0, app_assoc. reflexivity.
      + rewrite map_app. cbn [map].
        replace (enc (event_data excl e (JInt (a_nid s))) ++ DELIM) with (frm [cp (j, e)]).
        * apply f_extend; [repeat constructor|exact g_ab0].
        * unfold frames. cbn [map concat]. rewrite app_nil_r. unfold cp, cpkt. cbn [fst snd].
          rewrite g_nid0. reflexivity.
      + exact g_log0.
      + exact g_ba0.
      + exact g_rnd0.
      + exact g_rin0.
      + intros en' j' Hin Hs Hd. apply in_app_or in Hin. destruct Hin as [Hin|[<-|[]]].
        * apply (g_wait0 en' j' Hin Hs Hd).
        * (* the new entry: its id is not yet among the processed ones *)
          exfalso. unfold en in Hs. cbn [en_s] in Hs.
          assert (Hj : j' = j) by (destruct m; inversion Hs; reflexivity). subst j'.
          assert (Hin : In j (map fst (acc ents))).
          { rewrite g_split0, map_app. apply in_or_app. left. change j with (fst (j, en_e en)). apply in_map. exact Hd. }
          rewrite g_ids0 in Hin. apply in_seq in Hin. unfold j in Hin. lia.
    - (* rejected by the send firewall: no bytes, no id *)
      set (en := {| en_e := e; en_m := m; en_s := Rej |}).
      assert (Hacc : acc (ents ++ [en]) = acc ents).
      { rewrite acc_app. unfold acc at 2. cbn [flat_map]. rewrite !app_nil_r. reflexivity. }
      exists (ents ++ [en]), todo. split; [|rewrite map_app; reflexivity].
      constructor; cbn [a_nid a_calls a_pend bad b_buf wab b_log a_buf wba]; try assumption.
      + rewrite Hacc. exact g_nid0.
      + rewrite g_calls0, map_app. reflexivity.
      + rewrite pend_of_app, g_pend0. cbn [pend_of en_s en app]. rewrite app_nil_r. reflexivity.
      + apply Forall_app. split; [exact g_went0|]. constructor; [|constructor]. split; [exact Hwf|exact Hf].
      + rewrite Hacc. exact g_ids0.
      + rewrite Hacc. exact g_split0.
      + intros en' j' Hin Hs Hd. apply in_app_or in Hin. destruct Hin as [Hin|[<-|[]]].
        * apply (g_wait0 en' j' Hin Hs Hd).
        * discriminate Hs.
  Qed.

  Lemma frm_app : forall a b, frm (a ++ b) = frm a ++ frm b.
  Proof. intros a b. unfold frames. rewrite map_app, concat_app. reflexivity. Qed.

  Lemma NoDup_app_intro : forall (A : Type) (a b : list A), NoDup a -> NoDup b ->
    (forall x, In x a -> ~ In x b) -> NoDup (a ++ b).
  Proof.
    intros A a b Ha Hb Hd. induction Ha as [|x a Hni Ha IH]; [exact Hb|].
    cbn [app]. constructor.
    - intros Hi. apply in_app_or in Hi. destruct Hi as [Hi|Hi]; [contradiction|].
      apply (Hd x (or_introl eq_refl) Hi).
    - apply IH. intros y Hy. apply Hd. right. exact Hy.
  Qed.

  Lemma NoDup_app_right : forall (A : Type) (a b : list A), NoDup (a ++ b) -> NoDup b.
  Proof. intros A a b. induction a as [|x a IH]; intros H; [exact H|]. inversion H; subst. apply IH. assumption. Qed.
  Lemma NoDup_app_left : forall (A : Type) (a b : list A), NoDup (a ++ b) -> NoDup a.
  Proof.
    intros A a b. induction a as [|x a IH]; intros H; [constructor|]. inversion H as [|? ? Hni Hnd]; subst.
    constructor; [intros Hi; apply Hni; apply in_or_app; left; exact Hi|apply IH; exact Hnd].
  Qed.

  Lemma wf_acc : forall ents, Forall went ents -> Forall (fun je => wf_event (snd je)) (acc ents).
  Proof.
    intros ents H. apply Forall_forall. intros je Hin. apply in_flat_map in Hin.
    destruct Hin as [en [Hen Hje]]. rewrite Forall_forall in H. destruct (H en Hen) as [Hwf _].
    unfold acc1 in Hje. destruct (en_s en); cbn in Hje; try contradiction; destruct Hje as [<-|[]]; exact Hwf.
  Qed.

  Notation bread := (b_read excl dumps loads DELIM fw_recv handler b_chan).
  Notation aread := (a_read excl loads DELIM).

  Lemma gi_ab : forall ents done todo R s d rest, GI ents done todo R s -> wab s = d ++ rest ->
    exists done' todo' R',
      GI ents done' todo' R'
         (bread {| a_nid := a_nid s; a_issued := a_issued s; a_nores := a_nores s; a_pend := a_pend s;
                   a_calls := a_calls s; a_buf := a_buf s; b_buf := b_buf s; b_log := b_log s;
                   wab := rest; wba := wba s; bad := bad s |} d).
  Proof.
    intros ents done todo R s d rest G Hw. destruct G. rewrite Hw in g_ab0.
    destruct (f_step _ _ _ _ g_ab0) as (out & buf' & exp' & Hfeed & Hsplit & Hinv).
    apply map_eq_app in Hsplit. destruct Hsplit as (la & lb & Htodo & Hla & Hlb). subst todo out exp'.
    assert (Hwfla : Forall (fun je => wf_event (snd je)) la).
    { pose proof (wf_acc ents g_went0) as H. rewrite g_split0 in H.
      apply Forall_app in H. destruct H as [_ H]. apply Forall_app in H. tauto. }
    assert (Hnd : NoDup (map fst (done ++ la ++ lb))).
    { rewrite <- g_split0, g_ids0. apply seq_NoDup. }
    unfold NodeProto.b_read. cbn [b_buf a_nid a_issued a_nores a_pend a_calls a_buf b_log wab wba bad].
    change (feed json prs [TILDE; TILDE; TILDE] (b_buf s) d) with (feed json prs DELIM (b_buf s) d) in Hfeed.
    rewrite Hfeed. rewrite (b_packets_honest la Hwfla). rewrite !pick_frames.
    exists (done ++ la), lb, (R ++ newR la).
    constructor; cbn [a_nid a_calls a_pend bad b_buf wab b_log a_buf wba]; try assumption.
    - rewrite g_bad0. reflexivity.
    - rewrite g_split0, app_assoc. reflexivity.
    - rewrite flat_map_app, g_log0. reflexivity.
    - rewrite <- !frm_app, <- !map_app. fold (newR la). rewrite (map_app rp R (newR la)).
      apply f_extend; [apply isobj_rp|exact g_ba0].
    - rewrite map_app. apply NoDup_app_intro; [exact g_rnd0| |].
      + apply NoDup_new. rewrite !map_app in Hnd. apply NoDup_app_right in Hnd.
        apply NoDup_app_left in Hnd. exact Hnd.
      + intros j Hj Hj'. apply in_map_iff in Hj. destruct Hj as [x [<- Hx]].
        apply in_map_iff in Hj'. destruct Hj' as [y [Hy Hin]].
        pose proof (g_rin0 x Hx) as Hxd. apply (proj1 (in_new la y)) in Hin.
        assert (E : x = y).
        { apply (uniq_fst _ (done ++ la ++ lb)); [exact Hnd| | |symmetry; exact Hy];
            apply in_or_app; [left; exact Hxd|right; apply in_or_app; left; exact Hin]. }
        subst y. rewrite map_app in Hnd. clear -Hnd Hxd Hin.
        induction done as [|c done IH]; [destruct Hxd|]. cbn [map app] in Hnd. inversion Hnd as [|? ? Hni Hnd']; subst.
        destruct Hxd as [->|Hxd]; [|apply IH; assumption].
        apply Hni. apply in_or_app. right. rewrite map_app. apply in_or_app. left. apply in_map. exact Hin.
    - intros x Hx. apply in_app_or in Hx. apply in_or_app. destruct Hx as [Hx|Hx].
      + left. apply (g_rin0 x Hx).
      + right. apply (proj1 (in_new la x)). exact Hx.
    - intros en j Hen Hs Hd. apply in_or_app. apply in_app_or in Hd. destruct Hd as [Hd|Hd].
      + left. apply (g_wait0 en j Hen Hs Hd).
      + right. apply (proj2 (in_new la _)). exact Hd.
  Qed.

  Lemma acc_marks : forall ra ents, acc (marks ra ents) = acc ents.
  Proof.
    induction ra as [|x ra IH]; intros ents; [reflexivity|].
    cbn [marks fold_left]. fold (marks ra (map (mark (rid x)) ents)). rewrite IH. apply acc_mark.
  Qed.

  Lemma sig_marks : forall ra ents, map sig (marks ra ents) = map sig ents.
  Proof.
    induction ra as [|x ra IH]; intros ents; [reflexivity|].
    cbn [marks fold_left]. fold (marks ra (map (mark (rid x)) ents)). rewrite IH.
    rewrite map_map. apply map_ext. intros en. unfold mark, sig.
    destruct (en_s en); try reflexivity. destruct (Nat.eqb j (rid x)); reflexivity.
  Qed.

  Lemma in_marks_wait : forall ra ents en j, In en (marks ra ents) -> en_s en = Wait j ->
    In en ents /\ ~ In j (map rid ra).
  Proof.
    induction ra as [|x ra IH]; intros ents en j Hin Hs; [split; [exact Hin|intros []]|].
    cbn [marks fold_left] in Hin. fold (marks ra (map (mark (rid x)) ents)) in Hin.
    destruct (IH _ en j Hin Hs) as [Hin' Hni].
    destruct (in_mark_wait _ _ _ _ Hin' Hs) as [Hin0 Hne].
    split; [exact Hin0|]. intros [Hx|Hx]; [congruence|contradiction].
  Qed.

  Lemma went_mark : forall j ents, Forall went ents -> Forall went (map (mark j) ents).
  Proof.
    intros j ents H. rewrite Forall_forall in *. intros en' Hin.
    apply in_map_iff in Hin. destruct Hin as [en [<- Hen]]. specialize (H en Hen).
    unfold mark. destruct (en_s en) eqn:E; try exact H.
    destruct (Nat.eqb j0 j) eqn:Ej; [|exact H].
    unfold went in *. rewrite E in H. cbn [en_e en_m en_s]. exact H.
  Qed.

  Lemma went_marks : forall ra ents, Forall went ents -> Forall went (marks ra ents).
  Proof.
    induction ra as [|x ra IH]; intros ents H; [exact H|].
    cbn [marks fold_left]. fold (marks ra (map (mark (rid x)) ents)). apply IH. apply went_mark. exact H.
  Qed.

  Lemma gi_ba : forall ents done todo R s d rest, GI ents done todo R s -> wba s = d ++ rest ->
    exists ents' R',
      GI ents' done todo R'
         (aread {| a_nid := a_nid s; a_issued := a_issued s; a_nores := a_nores s; a_pend := a_pend s;
                   a_calls := a_calls s; a_buf := a_buf s; b_buf := b_buf s; b_log := b_log s;
                   wab := wab s; wba := rest; bad := bad s |} d)
      /\ map sig ents' = map sig ents.
  Proof.
    intros ents done todo R s d rest G Hw. destruct G. rewrite Hw in g_ba0.
    destruct (f_step _ _ _ _ g_ba0) as (out & buf' & exp' & Hfeed & Hsplit & Hinv).
    apply map_eq_app in Hsplit. destruct Hsplit as (ra & rb & HR & Hra & Hrb). subst R out exp'.
    change (feed json prs [TILDE; TILDE; TILDE] (a_buf s) d) with (feed json prs DELIM (a_buf s) d) in Hfeed.
    assert (Hndacc : NoDup (map fst (acc ents))) by (rewrite g_ids0; apply seq_NoDup).
    assert (Hpay : forall x en, In x ra -> In en ents -> en_s en = Wait (rid x) -> en_e en = snd x).
    { intros x en Hx Hen Hs.
      pose proof (g_rin0 x (in_or_app _ _ _ (or_introl Hx))) as Hd.
      assert (E : (rid x, en_e en) = x).
      { apply (uniq_fst _ (acc ents)); [exact Hndacc|apply (in_acc_wait ents en _ Hen Hs)| |reflexivity].
        rewrite g_split0. apply in_or_app. left. exact Hd. }
      rewrite <- E. reflexivity. }
    rewrite map_app in g_rnd0.
    unfold NodeProto.a_read. cbn [b_buf a_nid a_issued a_nores a_pend a_calls a_buf b_log wab wba bad].
    rewrite Hfeed, g_pend0, g_calls0.
    rewrite (a_batch ra (pend_of 0 ents) ents (NoDup_app_left _ _ _ g_rnd0) (NoDup_waits ents Hndacc)
               (fun x _ => eq_refl) Hpay).
    exists (marks ra ents), rb. split; [|apply sig_marks].
    constructor; cbn [a_nid a_calls a_pend bad b_buf wab b_log a_buf wba]; try assumption.
    - rewrite acc_marks. exact g_nid0.
    - reflexivity.
    - apply (filter_pend ents (marks ra ents) (evo_marks ra ents ents (evo_refl ents)) 0 [] eq_refl).
    - rewrite g_bad0. reflexivity.
    - apply went_marks. exact g_went0.
    - rewrite acc_marks. exact g_ids0.
    - rewrite acc_marks. exact g_split0.
    - apply (NoDup_app_right _ _ _ g_rnd0).
    - intros x Hx. apply g_rin0. apply in_or_app. right. exact Hx.
    - intros en j Hen Hs Hd. destruct (in_marks_wait ra ents en j Hen Hs) as [Hen0 Hni].
      pose proof (g_wait0 en j Hen0 Hs Hd) as Hin. apply in_app_or in Hin.
      destruct Hin as [Hin|Hin]; [|exact Hin].
      exfalso. apply Hni. change j with (rid (j, en_e en)). apply in_map. exact Hin.
  Qed.

  (* ---- schedules *)
  Notation stp := (step excl dumps loads DELIM fw_send fw_recv handler b_chan).

  (* honest: sends of well-formed events and deliveries of any size; nothing is injected on the wires *)
  Definition honest_op (o : op) : Prop :=
    match o with OSend e _ => wf_event e | OInjAB _ | OInjBA _ => False | _ => True end.
  Definition sends_of (ops : list op) : list (event * smode) :=
    flat_map (fun o => match o with OSend e m => [(e, m)] | _ => [] end) ops.

  Lemma take_split : forall n (l : list N), fst (take n l) ++ snd (take n l) = l.
  Proof. intros n l. unfold take. destruct n; cbn [fst snd]; [apply app_nil_r|apply firstn_skipn]. Qed.

  Lemma take_packet_split : forall l, fst (take_packet DELIM l) ++ snd (take_packet DELIM l) = l.
  Proof.
    intros l. unfold take_packet. destruct (split DELIM l) as [|h [|h2 t]]; cbn [fst snd];
      try apply app_nil_r. apply firstn_skipn.
  Qed.

  Lemma gi_step : forall ents done todo R s o, GI ents done todo R s -> honest_op o ->
    exists ents' done' todo' R', GI ents' done' todo' R' (stp s o) /\
                                 map sig ents' = map sig ents ++ sends_of [o].
  Proof.
    intros ents done todo R s o G Ho. destruct o as [e m|b|b|n|n| |]; cbn [NodeProto.step].
    - destruct (gi_send ents done todo R s e m G Ho) as (ents' & todo' & G' & Hs).
      exists ents', done, todo', R. split; [exact G'|]. rewrite Hs. reflexivity.
    - destruct Ho.
    - destruct Ho.
    - pose proof (take_split n (wab s)) as Hs. destruct (take n (wab s)) as [d rest]. cbn [fst snd] in Hs.
      destruct d as [|d0 d].
      + exists ents, done, todo, R. split; [exact G|cbn; rewrite app_nil_r; reflexivity].
      + destruct (gi_ab ents done todo R s (d0 :: d) rest G (eq_sym Hs)) as (done' & todo' & R' & G').
        exists ents, done', todo', R'. split; [exact G'|cbn; rewrite app_nil_r; reflexivity].
    - pose proof (take_split n (wba s)) as Hs. destruct (take n (wba s)) as [d rest]. cbn [fst snd] in Hs.
      destruct d as [|d0 d].
      + exists ents, done, todo, R. split; [exact G|cbn; rewrite app_nil_r; reflexivity].
      + destruct (gi_ba ents done todo R s (d0 :: d) rest G (eq_sym Hs)) as (ents' & R' & G' & Hsig).
        exists ents', done, todo, R'. split; [exact G'|cbn; rewrite app_nil_r; exact Hsig].
    - pose proof (take_packet_split (wab s)) as Hs. destruct (take_packet DELIM (wab s)) as [d rest].
      cbn [fst snd] in Hs. destruct d as [|d0 d].
      + exists ents, done, todo, R. split; [exact G|cbn; rewrite app_nil_r; reflexivity].
      + destruct (gi_ab ents done todo R s (d0 :: d) rest G (eq_sym Hs)) as (done' & todo' & R' & G').
        exists ents, done', todo', R'. split; [exact G'|cbn; rewrite app_nil_r; reflexivity].
    - pose proof (take_packet_split (wba s)) as Hs. destruct (take_packet DELIM (wba s)) as [d rest].
      cbn [fst snd] in Hs. destruct d as [|d0 d].
      + exists ents, done, todo, R. split; [exact G|cbn; rewrite app_nil_r; reflexivity].
      + destruct (gi_ba ents done todo R s (d0 :: d) rest G (eq_sym Hs)) as (ents' & R' & G' & Hsig).
        exists ents', done, todo, R'. split; [exact G'|cbn; rewrite app_nil_r; exact Hsig].
  Qed.

  Lemma gi_run : forall ops ents done todo R s, GI ents done todo R s -> Forall honest_op ops ->
    exists ents' done' todo' R', GI ents' done' todo' R' (fold_left stp ops s) /\
                                 map sig ents' = map sig ents ++ sends_of ops.
  Proof.
    induction ops as [|o ops IH]; intros ents done todo R s G H.
    - exists ents, done, todo, R. split; [exact G|cbn; rewrite app_nil_r; reflexivity].
    - inversion H as [|? ? Ho Hops]; subst. cbn [fold_left].
      destruct (gi_step ents done todo R s o G Ho) as (e1 & d1 & t1 & R1 & G1 & S1).
      destruct (IH e1 d1 t1 R1 _ G1 Hops) as (e2 & d2 & t2 & R2 & G2 & S2).
      exists e2, d2, t2, R2. split; [exact G2|].
      rewrite S2, S1, <- app_assoc. f_equal. unfold sends_of. cbn [flat_map]. rewrite app_nil_r. reflexivity.
  Qed.

  Lemma gi_init : GI [] [] [] [] st0.
  Proof.
    constructor; cbn; try reflexivity; try (left; auto; fail); try (constructor; fail).
    - intros x [].
    - intros en j [].
  Qed.

  (* what the caller's entry for a send must finally hold *)
  Definition exp1 (em : event * smode) : call :=
    let '(e, m) := em in
    if fw_send e then match m with MCall => final e | _ => call0 end else rej_call m.

  Lemma log_acc : forall ents, Forall went ents ->
    flat_map (fun je => logof (snd je)) (acc ents) =
    flat_map logof (filter fw_send (map fst (map sig ents))).
  Proof.
    induction ents as [|en r IH]; intros H; [reflexivity|]. inversion H as [|? ? Hen Hr]; subst.
    unfold acc. cbn [flat_map map]. fold (acc r). rewrite flat_map_app, (IH Hr).
    cbn [filter]. change (fst (sig en)) with (en_e en). destruct Hen as [_ Hen]. unfold acc1.
    destruct (en_s en); cbn [flat_map snd app].
    - rewrite Hen. reflexivity.
    - destruct Hen as [-> _]. cbn [flat_map]. rewrite app_nil_r. reflexivity.
    - destruct Hen as [-> _]. cbn [flat_map]. rewrite app_nil_r. reflexivity.
    - destruct Hen as [-> _]. cbn [flat_map]. rewrite app_nil_r. reflexivity.
  Qed.

  Theorem end_to_end : forall ops, Forall honest_op ops ->
    let s := exec excl dumps loads DELIM fw_send fw_recv handler b_chan ops in
    wab s = [] -> wba s = [] ->
    b_log s = flat_map logof (filter fw_send (map fst (sends_of ops)))
    /\ a_calls s = map exp1 (sends_of ops)
    /\ a_buf s = [] /\ b_buf s = [] /\ bad s = false.
  Proof.
    intros ops H s Hab Hba. subst s. unfold exec in *.
    destruct (gi_run ops [] [] [] [] st0 gi_init H) as (ents & done & todo & R & G & Hsig).
    cbn [map app] in Hsig. destruct G. rewrite Hab in g_ab0. rewrite Hba in g_ba0.
    destruct (f_end _ _ g_ab0) as [Hbb Htodo]. destruct (f_end _ _ g_ba0) as [Hbuf HR].
    apply map_eq_nil in Htodo. apply map_eq_nil in HR. subst todo R. rewrite app_nil_r in g_split0.
    split; [|split; [|auto]].
    - rewrite g_log0, <- g_split0, <- Hsig. apply log_acc. exact g_went0.
    - rewrite g_calls0, <- Hsig, map_map. apply map_ext_in. intros en Hen.
      rewrite Forall_forall in g_went0. destruct (g_went0 en Hen) as [_ Hw].
      unfold call_of, exp1, sig. destruct (en_s en) eqn:E.
      + rewrite Hw. reflexivity.
      + destruct Hw as [-> Hm]. destruct (en_m en); [congruence|reflexivity|reflexivity].
      + destruct Hw as [-> ->]. exfalso. apply (g_wait0 en j Hen E).
        rewrite <- g_split0. apply (in_acc_wait ents en j Hen E).
      + destruct Hw as (-> & ->). reflexivity.
  Qed.

  (* reading aids for [exp1] / [logof] *)
  Lemma exp1_call : forall e, fw_send e = true ->
    exp1 (e, MCall) = final e /\ c_fin (final e) = true /\ c_val (final e) = oval e.
  Proof. intros e Hf. unfold exp1. rewrite Hf. auto. Qed.
  Lemma final_err : forall e, get k_errors (meta_of e) = None -> c_err (final e) = Some (JBool (oerr e)).
  Proof. intros e H. unfold final, set_value. cbn [c_err]. rewrite H. reflexivity. Qed.
  Lemma oval_val : forall e r, fw_recv (ev1 e) = true -> handler (ev2 e) = HVal r \/ handler (ev2 e) = HValLate r ->
    oval e = r /\ oerr e = false.
  Proof. intros e r Hf [Hh|Hh]; unfold oval, oerr; rewrite Hf, Hh; auto. Qed.
  Lemma oval_raise : forall e late, fw_recv (ev1 e) = true -> handler (ev2 e) = HRaise late ->
    oval e = JERR /\ oerr e = true.
  Proof. intros e late Hf Hh. unfold oval, oerr. rewrite Hf, Hh. auto. Qed.
  Lemma oval_null : forall e, fw_recv (ev1 e) = false \/ handler (ev2 e) = HNone -> oval e = JNull /\ oerr e = false.
  Proof.
    intros e [Hf|Hh]; unfold oval, oerr; [rewrite Hf; auto|].
    destruct (fw_recv (ev1 e)); [rewrite Hh|]; auto.
  Qed.
  Lemma exp1_nores : forall e m, fw_send e = true -> m <> MCall -> exp1 (e, m) = call0.
  Proof. intros e m Hf Hm. unfold exp1. rewrite Hf. destruct m; [congruence|reflexivity|reflexivity]. Qed.
  Lemma exp1_rej : forall e m, fw_send e = false -> exp1 (e, m) = rej_call m.
  Proof. intros e m Hf. unfold exp1. rewrite Hf. reflexivity. Qed.
  Lemma logof_run : forall e, fw_recv (ev1 e) = true -> handler (ev2 e) <> HNone -> logof e = [ev2 e].
  Proof. intros e Hf Hh. unfold logof. rewrite Hf. destruct (handler (ev2 e)); [congruence|reflexivity|reflexivity|reflexivity]. Qed.
  Lemma logof_blocked : forall e, fw_recv (ev1 e) = false -> logof e = [].
  Proof. intros e Hf. unfold logof. rewrite Hf. reflexivity. Qed.
End E2E.

(* an honest schedule whose channels are empty at the end (the toy oracles of NodeProtoP.Ex) *)
Lemma e2e_schedule_ex :
  Forall honest_op [OSend Ex.e0 MCall; OAB 2; OAB 0; OBA 2; OBA 0]
  /\ wab (Ex.final (fun _ => HVal Ex.result) 2) = []
  /\ wba (Ex.final (fun _ => HVal Ex.result) 2) = [].
Proof.
  split; [|vm_compute; auto].
  constructor; [exact (proj1 Ex.e0_wf)|]. repeat constructor.
Qed.
