(* C18: totality of the independent description of a stream.  Every byte
   stream IS  line_1 t_1 ... line_n t_n tail  (t_i in {LF, CRLF}) for some
   well-formed lines and an LF-free tail, so [lines_exact] speaks about every
   stream, and the lines emitted plus their terminators plus the held tail
   are exactly the bytes received (nothing lost, nothing invented, nothing
   reordered). *)
From Coq Require Import List NArith Arith Bool Lia.
From Circ Require Import Model.Line Proofs.LineP.
Import ListNotations.
Open Scope N_scope.

Lemma not_ends_cr_nil : ~ ends_cr [].
Proof. intros [l' H]. destruct l'; discriminate H. Qed.

Lemma ends_cr_cons c d l : ends_cr (c :: d :: l) -> ends_cr (d :: l).
Proof.
  intros [l' H]. destruct l' as [|x l'']; [discriminate H|].
  cbn [app] in H. injection H as _ H. exists l''. exact H.
Qed.

Lemma ends_cr_single c : ends_cr [c] -> c = CR.
Proof.
  intros [l' H]. destruct l' as [|x l'']; cbn [app] in H.
  - now injection H.
  - injection H as _ H. destruct l''; discriminate H.
Qed.

(* every stream decomposes *)
Theorem stream_decomposes (s : list N) :
  exists ls tail, wf_lines ls /\ noLF tail /\ s = join_lines ls tail.
Proof.
  induction s as [|c s IH].
  - exists [], []. split; [exact I|split; [constructor|reflexivity]].
  - destruct IH as (ls & tail & W & T & E).
    destruct (c =? LF) eqn:EL.
    + apply N.eqb_eq in EL. subst c.
      exists (([], false) :: ls), tail. split; [|split; [exact T|]].
      * cbn [wf_lines]. split; [constructor|split; [intros _; exact not_ends_cr_nil|exact W]].
      * cbn [join_lines app]. now rewrite E.
    + destruct ls as [|[l crlf] r].
      * exists [], (c :: tail). split; [exact I|split].
        -- constructor; assumption.
        -- cbn [join_lines] in *. now rewrite E.
      * cbn [wf_lines] in W. destruct W as (Hl & Hc & Hr).
        destruct crlf.
        -- exists ((c :: l, true) :: r), tail. split; [|split; [exact T|]].
           ++ cbn [wf_lines]. split; [constructor; assumption|split; [discriminate|exact Hr]].
           ++ cbn [join_lines app] in *. now rewrite E.
        -- destruct l as [|d l'].
           ++ destruct (c =? CR) eqn:EC.
              ** apply N.eqb_eq in EC. subst c.
                 exists (([], true) :: r), tail. split; [|split; [exact T|]].
                 --- cbn [wf_lines]. split; [constructor|split; [discriminate|exact Hr]].
                 --- cbn [join_lines app] in *. now rewrite E.
              ** exists (([c], false) :: r), tail. split; [|split; [exact T|]].
                 --- cbn [wf_lines]. split; [constructor; [assumption|constructor]|split; [|exact Hr]].
                     intros _ HE. apply ends_cr_single in HE. subst c.
                     rewrite N.eqb_refl in EC. discriminate EC.
                 --- cbn [join_lines app] in *. now rewrite E.
           ++ exists ((c :: d :: l', false) :: r), tail. split; [|split; [exact T|]].
              ** cbn [wf_lines]. split; [constructor; assumption|split; [|exact Hr]].
                 intros _ HE. apply ends_cr_cons in HE. now apply Hc.
              ** cbn [join_lines app] in *. now rewrite E.
Qed.

(* conservation: for every cut of every stream, the emitted lines (with the
   terminator each one had) followed by the held tail are the bytes received *)
Theorem lines_conserve (chunks : list (list N)) :
  exists ls tail, wf_lines ls /\ noLF tail /\
    run [] chunks = (map fst ls, tail) /\ concat chunks = join_lines ls tail.
Proof.
  destruct (stream_decomposes (concat chunks)) as (ls & tail & W & T & E).
  exists ls, tail. repeat split; try assumption.
  now apply lines_exact.
Qed.

(* the decomposition is unique: two well-formed descriptions of one stream agree
   on the lines and on the tail (so "the lines contained in the stream" is
   well defined independently of the splitter) *)
Theorem decomposition_unique ls1 t1 ls2 t2 :
  wf_lines ls1 -> noLF t1 -> wf_lines ls2 -> noLF t2 ->
  join_lines ls1 t1 = join_lines ls2 t2 -> map fst ls1 = map fst ls2 /\ t1 = t2.
Proof.
  intros W1 T1 W2 T2 E.
  pose proof (pieces_join ls1 t1 W1 T1) as P1.
  pose proof (pieces_join ls2 t2 W2 T2) as P2.
  rewrite E in P1. rewrite P1 in P2.
  apply app_inj_tail in P2. exact P2.
Qed.

(* server mode: the same conservation per socket, under every interleaving of
   the reads of all sockets *)
Theorem server_conserve (k : nat) (evs : list (nat * list N)) :
  exists ls tail, wf_lines ls /\ noLF tail /\
    projl k (fst (run_srv empty_bufs evs)) = map fst ls /\
    snd (run_srv empty_bufs evs) k = tail /\
    concat (proj k evs) = join_lines ls tail.
Proof.
  destruct (lines_conserve (proj k evs)) as (ls & tail & W & T & R & E).
  exists ls, tail.
  pose proof (server_isolation k evs) as S. rewrite R in S.
  injection S as S1 S2.
  split; [exact W|split; [exact T|split; [exact S1|split; [exact S2|exact E]]]].
Qed.
