(* C03 — progress: once every fire() has returned, the loop thread alone dispatches every queued foreign
   event within an explicit number of its own steps, never stepping out of a blocked wait (no timeout). *)
From Coq Require Import List Arith Bool Lia.
From Circ Require Import Model.Wake Proofs.WakeInvP Proofs.WakeP Proofs.WakeOnceP.
Import ListNotations.

(* ------------------------------------------------------------------ queue shape *)
Fixpoint nondec (l : list (nat * ev)) : Prop :=
  match l with
  | [] => True
  | (k, _) :: r => (forall p, In p r -> k <= fst p) /\ nondec r
  end.

Lemma nondec_snoc l c e : nondec l -> (forall p, In p l -> fst p <= c) -> nondec (l ++ [(c, e)]).
Proof.
  induction l as [|[k0 e0] l IH]; simpl; intros Hn Hc.
  - split; [intros p []|exact I].
  - destruct Hn as [H1 H2]. split.
    + intros p Hp. apply in_app_or in Hp. destruct Hp as [Hp|[Hp|[]]]; [auto|subst p; simpl].
      apply (Hc (k0, e0)). left. reflexivity.
    + apply IH; auto.
Qed.

Lemma nondec_remove h1 x h2 : nondec (h1 ++ x :: h2) -> nondec (h1 ++ h2).
Proof.
  induction h1 as [|[k0 e0] h1 IH]; simpl.
  - destruct x. intros [_ H]. exact H.
  - intros [H1 H2]. split; [|apply IH; exact H2].
    intros p Hp. apply H1. apply in_app_or in Hp. apply in_or_app.
    destruct Hp; [left|right; right]; assumption.
Qed.

Definition hb (s : state) : Prop :=
  match lp s with
  | LMove k => 1 <= k /\ k <= length (dq s) /\ length (hp s) + k = batch s
  | LSnap => dq s <> [] /\ hp s = [] /\ batch s = 0
  | LIdle | LCnt => hp s = [] /\ batch s = 0
  | LBatch => batch s = length (hp s) /\ batch s <> 0
  | _ => batch s = length (hp s)
  end.

Definition PI (s : state) : Prop :=
  hb s /\ nondec (hp s ++ dq s) /\ (forall p, In p (hp s ++ dq s) -> fst p <= ctr s).

Lemma PI_init m : PI (init m).
Proof. repeat split; simpl; auto; intros p []. Qed.

Lemma in_snoc_q {A} (h d : list A) x p : In p (h ++ d ++ [x]) -> In p (h ++ d) \/ p = x.
Proof.
  rewrite app_assoc. intros H. apply in_app_or in H. destruct H as [H|[H|[]]]; auto.
Qed.

Lemma remove_ev_len e l k r : remove_ev e l = Some (k, r) -> length l = S (length r).
Proof.
  intros H. destruct (remove_ev_spec _ _ _ _ H) as [h1 [h2 [A B]]]. subst. rewrite !app_length. simpl. lia.
Qed.
Lemma remove_ev_in e l k r (d : list (nat * ev)) p : remove_ev e l = Some (k, r) -> In p (r ++ d) -> In p (l ++ d).
Proof.
  intros H Hp. destruct (remove_ev_spec _ _ _ _ H) as [h1 [h2 [A B]]]. subst.
  apply in_app_or in Hp. apply in_or_app. destruct Hp as [Hp|Hp]; [left|right; exact Hp].
  apply in_app_or in Hp. apply in_or_app. destruct Hp; [left|right; right]; assumption.
Qed.
Lemma remove_ev_nondec e l k r d : remove_ev e l = Some (k, r) -> nondec (l ++ d) -> nondec (r ++ d).
Proof.
  intros H Hn. destruct (remove_ev_spec _ _ _ _ H) as [h1 [h2 [A B]]]. subst.
  rewrite <- app_assoc in *. simpl in Hn. eapply nondec_remove. exact Hn.
Qed.

Lemma PI_lstep a s s' : PI s -> lstep a s = Some s' -> PI s'.
Proof.
  intros (HB & ND & K1) H. unfold PI, hb in *.
  lstep_cases H; simpl; rw_pc; simpl in *;
    try (repeat split; auto; try lia; try congruence;
         try (intros p Hp; specialize (K1 p Hp); lia); fail).
  all: (split; [|split]).
  (* the batch bookkeeping *)
  all: try (destruct (batch s) eqn:Eb; simpl;
            [ destruct (hp s); simpl in *; [auto|discriminate] | split; [assumption|congruence] ]).
  all: try (repeat split; try tauto; try lia;
            try (intro Hx; apply app_eq_nil in Hx; destruct Hx; discriminate);
            try (destruct (dq s); simpl in *; try tauto; try discriminate; lia);
            try (destruct HB as (A & B & C); rewrite ?app_length, ?B in *; simpl in *; lia); fail).
  all: try (destruct HB as [A B];
            match goal with Hr : remove_ev _ _ = Some _ |- _ => apply remove_ev_len in Hr end; lia).
  (* keys nondecreasing *)
  all: try assumption.
  all: try (rewrite app_assoc; apply nondec_snoc; assumption).
  all: try (rewrite Q_move; assumption).
  all: try (eapply remove_ev_nondec; eassumption).
  (* keys bounded by the counter *)
  all: try (intros q Hq; apply in_snoc_q in Hq; destruct Hq as [Hq|Hq]; [auto|subst q; simpl; lia]).
  all: try (rewrite Q_move; assumption).
  all: try (intros q Hq; apply K1; eapply remove_ev_in; eassumption).
  all: intros q Hq; specialize (K1 q Hq); lia.
Qed.

Lemma PI_fstep i a s s' : PI s -> fstep i a s = Some s' -> PI s'.
Proof.
  intros (HB & ND & K1) H. unfold PI, hb in *.
  fstep_cases H; simpl;
    try (repeat split; auto; fail).
  all: (split; [|split]).
  all: try assumption.
  all: try (intros q Hq; specialize (K1 q Hq); lia).
  all: try (rewrite app_assoc; apply nondec_snoc; assumption).
  all: try (intros q Hq; apply in_snoc_q in Hq; destruct Hq as [Hq|Hq]; [auto|subst q; simpl; lia]).
  all: destruct (lp s); auto; rewrite ?app_length; simpl; try lia;
       try (destruct HB as (A & B & C); repeat split; auto; try lia;
            intro Hx; apply app_eq_nil in Hx; destruct Hx; discriminate).
Qed.

Lemma PI_reachable m s : reachable m s -> PI s.
Proof.
  apply reachable_ind'; [apply PI_init|].
  intros s0 [[|i] a] s1 HP Hs; unfold step in Hs; simpl in Hs; [eapply PI_lstep | eapply PI_fstep]; eassumption.
Qed.

(* ------------------------------------------------------------------ the loop thread's own next step *)
Definition rlabel (r : rpc) : lbl :=
  match r with RAcq => AAcq | RTest => ARdTl | RWrite => ARWrite | RHd => ARHd | RGet => ARGet
             | RSig => ASig | RRel => ARel end.

(* what the loop thread does next when left alone (it fires generate_events, runs no plain handler,
   takes the oldest entry of the heap; a wait / select returns what the wake object says) *)
Definition lnext (s : state) : lbl :=
  match lp s with
  | LIdle => ACount
  | LCnt => AAppG Neg
  | LSnap => ASnap
  | LMove _ => AMove
  | LBatch => ACall (match hp s with (_, e) :: _ => e | [] => EvO 0 end)
  | LOSet _ => ASetH
  | LODisp _ => AClr
  | LGAcq _ => AAcq
  | LGSet _ => ASetH
  | LGTest => AArmTest
  | LGRed r | LTimer r | WAfter r => rlabel r
  | LGRel => ARel
  | LH => ASetHd HWake
  | WAcq => AAcq
  | WTest => ARdTl
  | WClear => AClear
  | WRel => ARel
  | WTestPos => ARdTl
  | WRdTl => ARdTl
  | WWaitT _ | WWaitU => AWait (flag s)
  | WTestNeg => ARdTl
  | PRead => ARdTl
  | PSel _ => ASelect (watched s) (watched s && (0 <? pipe s))
  | PDrain => APipeRd
  | LClr => AClr
  end.

Definition fpend (s : state) : list ev := filter is_foreign (pending s).
Definition all_idle (s : state) : Prop := forall i, fp (fts s i) = FIdle.

(* ------------------------------------------------------------------ the measure *)
Definition KK : nat := 40.
Definition rr (r : rpc) : nat :=
  match r with RAcq => 7 | RTest => 6 | RWrite => 5 | RHd => 4 | RGet => 3 | RSig => 2 | RRel => 1 end.
Definition rank (p : lpc) : nat :=
  match p with
  | LClr => 1 | WTestNeg => 2 | WWaitU => 3 | WAfter r => 3 + rr r
  | WWaitT _ => 11 | WRdTl => 12 | WTestPos => 13 | WRel => 14 | WClear => 15 | WTest => 16 | WAcq => 17
  | PDrain => 2 | PSel _ => 3 | PRead => 4
  | LH => 18 | LTimer r => 18 + rr r | LGRel => 26 | LGRed r => 26 + rr r
  | LGTest => 34 | LGSet _ => 35 | LGAcq _ => 36
  | LODisp _ => 1 | LOSet _ => 2
  | _ => 0
  end.
(* cost of one more tick, charged only while a foreign event is still in the deque *)
Definition tickf (l : list (nat * ev)) : nat :=
  if existsb (fun p => is_foreign (snd p)) l then 4 + (KK + 1) * (length l + 1) else 0.

Definition measure (s : state) : nat :=
  KK * length (hp s) +
  match lp s with
  | LIdle => 3 + (KK + 1) * (length (dq s) + 1)
  | LCnt => 2 + (KK + 1) * (length (dq s) + 1)
  | LSnap => 1 + (KK + 1) * length (dq s)
  | LMove k => (KK + 1) * k + tickf (skipn k (dq s))
  | p => rank p + tickf (dq s)
  end.

Lemma rank_lt p : rank p < KK.
Proof. destruct p; simpl; unfold KK; try lia; destruct r; simpl; lia. Qed.

(* ------------------------------------------------------------------ facts used by the step lemma *)
Lemma lock_idle s : I0 s -> all_idle s ->
  lock s = match lheld (lp s) with O => None | S n => Some (0, n) end.
Proof.
  intros H0 Hi. pose proof (H0 0) as A. unfold held, lockd in A.
  destruct (lock s) as [[o d]|] eqn:E.
  - destruct o.
    + simpl in A. rewrite A. reflexivity.
    + exfalso. pose proof (H0 (S o)) as B. unfold held, lockd in B. rewrite E, (Hi o), Nat.eqb_refl in B.
      simpl in B. discriminate.
  - rewrite A. reflexivity.
Qed.

Lemma fpend_in s : fpend s <> [] -> exists i k, In (EvF i k) (pending s).
Proof.
  unfold fpend. destruct (filter is_foreign (pending s)) as [|e l] eqn:E; [congruence|]. intros _.
  assert (Hin : In e (filter is_foreign (pending s))) by (rewrite E; left; reflexivity).
  apply filter_In in Hin. destruct Hin as [Hin Hf]. destruct e; try discriminate. eauto.
Qed.

Lemma idle_returned m s i k : reachable m s -> all_idle s -> In (EvF i k) (pending s) -> returned s (EvF i k) = true.
Proof.
  intros Hr Hi Hin. simpl. apply Nat.ltb_lt.
  pose proof (ir s (Inv_reachable _ _ Hr) i) as A. rewrite (Hi i) in A.
  pose proof (exactly_once_in_order m s Hr i) as E.
  assert (Hp : In (EvF i k) (proj i (disp s ++ pending s))).
  { unfold proj. apply filter_In. split; [apply in_or_app; right; exact Hin|]. simpl. apply Nat.eqb_refl. }
  rewrite E in Hp. apply in_map_iff in Hp. destruct Hp as [x [Hx Hs]]. inversion Hx; subst.
  apply in_seq in Hs. lia.
Qed.

Lemma not_blocked m s : reachable m s -> all_idle s -> fpend s <> [] -> blocked s = false.
Proof.
  intros Hr Hi Hf. destruct (blocked s) eqn:B; [|reflexivity]. exfalso.
  destruct (fpend_in _ Hf) as [i [k Hin]].
  pose proof (no_lost_wakeup m s Hr B _ Hin) as R. rewrite (idle_returned m s i k Hr Hi Hin) in R. discriminate.
Qed.

Lemma armed_zero m s : reachable m s -> all_idle s -> fpend s <> [] -> armed (lp s) = true -> tlc s = Zero.
Proof.
  intros Hr Hi Hf Ha. destruct (fpend_in _ Hf) as [i [k Hin]].
  destruct (j1 s (Inv_reachable _ _ Hr) Ha i k Hin) as [Z|[_ P]]; [exact Z|].
  rewrite (Hi i) in P. discriminate.
Qed.

Lemma ev_eqb_refl e : ev_eqb e e = true.
Proof. destruct e; simpl; rewrite ?Nat.eqb_refl; reflexivity. Qed.

Lemma tickf_nil_fpend (h d : list (nat * ev)) : existsb (fun p => is_foreign (snd p)) d = false -> h = [] ->
  filter is_foreign (map snd h ++ map snd d) = [].
Proof.
  intros He ->. simpl. induction d as [|[k e] d IH]; simpl in *; [reflexivity|].
  apply orb_false_elim in He. destruct He as [A B]. rewrite A. auto.
Qed.

Lemma nondec_head_min k e r (d : list (nat * ev)) :
  nondec (((k, e) :: r) ++ d) -> forallb (fun p => Nat.leb k (fst p)) r = true.
Proof.
  simpl. intros [H _]. apply forallb_forall. intros p Hp. apply Nat.leb_le. apply H. apply in_or_app. left. exact Hp.
Qed.

Ltac break_goal_match :=
  repeat match goal with
         | |- context [match ?x with _ => _ end] =>
             match x with
             | context [match _ with _ => _ end] => fail 1
             | _ => destruct x eqn:?; simpl
             end
         end.

Lemma canon_step m s : reachable m s -> all_idle s -> fpend s <> [] ->
  match lstep (lnext s) s with
  | Some s' => measure s' < measure s \/ fpend s' = []
  | None => False
  end.
Proof.
  intros Hr Hi Hf.
  pose proof (Inv_reachable _ _ Hr) as HI. destruct (PI_reachable _ _ Hr) as (HB & ND & K1).
  pose proof (lock_idle s (i0 s HI) Hi) as HL.
  pose proof (armed_zero m s Hr Hi Hf) as HZ. pose proof (not_blocked m s Hr Hi Hf) as HNB.
  unfold hb in HB. unfold blocked in HNB. unfold tlc in HZ.
  unfold lnext, lstep, red_step, acquire, release.
  destruct (lp s) eqn:E; simpl in *; rewrite ?HL, ?Bool.eqb_reflx; simpl.
  (* LBatch: the oldest heap entry is minimal *)
  all: try (match goal with E0 : lp _ = LBatch |- _ => idtac end;
            destruct HB as [HB1 HB2]; destruct (hp s) as [|[k e] r] eqn:Eh; [simpl in HB1; congruence|];
            rewrite HB1; simpl; rewrite ev_eqb_refl;
            rewrite (nondec_head_min k e r (dq s) ND);
            left; unfold measure; simpl; rewrite E, Eh; simpl;
            destruct e; simpl; unfold KK; lia).
  (* end of an event: back to the batch or to the next tick *)
  all: try (match goal with |- context [after_event] => idtac end;
            unfold after_event; simpl; destruct (batch s) eqn:Eb;
            [ symmetry in HB; apply length_zero_iff_nil in HB;
              destruct (existsb (fun p => is_foreign (snd p)) (dq s)) eqn:Ex;
              [ left; unfold measure; simpl; rewrite E, HB; unfold tickf; rewrite Ex; simpl; unfold KK; lia
              | right; unfold fpend, pending; simpl; apply tickf_nil_fpend; assumption ]
            | left; unfold measure; simpl; rewrite E; simpl; unfold KK; lia ]).
  all: try (destruct r; simpl; rewrite ?HL; simpl).
  all: break_goal_match.
  all: try (left; unfold measure; simpl; rewrite ?E; simpl; rewrite ?app_length; simpl; unfold KK; lia).
  all: try (exfalso; simpl in *; lia).
  all: try (exfalso; rewrite (HZ eq_refl) in *; discriminate).
  all: try (exfalso; destruct HB as (A & B & C); destruct (dq s); simpl in *; try tauto; try discriminate; lia).
  all: try (exfalso; apply Nat.eqb_neq in HNB; apply Nat.ltb_ge in Heqb; lia).
  all: try (exfalso; discriminate (HZ eq_refl)).
  all: try (match goal with Hn : length (dq ?st) = S ?n |- _ => replace (S n) with (length (dq st)) by lia end;
            left; unfold measure; cbn [lp hp dq set_lp set_batch]; rewrite E, skipn_all;
            unfold tickf; cbn [existsb length]; unfold KK; lia).
  all: try (match goal with Hd : dq ?st = _ |- _ => left; unfold measure; simpl; rewrite E, Hd end;
            simpl; rewrite ?app_length; simpl; unfold KK; lia).
Qed.

(* ------------------------------------------------------------------ running the loop thread alone *)
Definition drained (s : state) : bool := match fpend s with [] => true | _ => false end.

(* at most n steps of the loop thread, no other thread moves; it refuses to leave a blocked wait
   (= it never uses a Timeout transition) and stops as soon as no foreign event is queued *)
Fixpoint lrun (n : nat) (s : state) : option state :=
  if drained s then Some s
  else match n with
       | O => None
       | S n' =>
           if blocked s then None
           else match lstep (lnext s) s with
                | Some s' => lrun n' s'
                | None => None
                end
       end.

Lemma lstep_fts a s s' : lstep a s = Some s' -> fts s' = fts s.
Proof. intros H. lstep_cases H; reflexivity. Qed.

Lemma reachable_step m s ta s' : reachable m s -> step s ta = Some s' -> reachable m s'.
Proof.
  intros [tr Htr] Hs. exists (tr ++ [ta]). rewrite run_app, Htr. simpl. rewrite Hs. reflexivity.
Qed.

Lemma lrun_ok : forall n m s, reachable m s -> all_idle s -> measure s < n ->
  exists s', lrun n s = Some s' /\ fpend s' = [] /\ fts s' = fts s /\ reachable m s'.
Proof.
  induction n as [|n IH]; intros m s Hr Hi Hm; [lia|].
  simpl. unfold drained. destruct (fpend s) as [|e l] eqn:Ef.
  - exists s. auto.
  - assert (Hf : fpend s <> []) by (rewrite Ef; discriminate).
    rewrite (not_blocked m s Hr Hi Hf).
    pose proof (canon_step m s Hr Hi Hf) as Hc.
    destruct (lstep (lnext s) s) as [s1|] eqn:E1; [|contradiction].
    assert (Hr1 : reachable m s1) by (eapply reachable_step with (ta := (0, lnext s)); [exact Hr|exact E1]).
    pose proof (lstep_fts _ _ _ E1) as Hfts.
    assert (Hi1 : all_idle s1) by (intros i; rewrite Hfts; apply Hi).
    destruct Hc as [Hlt|Hd].
    + destruct (IH m s1 Hr1 Hi1 ltac:(lia)) as [s' (A & B & C & D)].
      exists s'. repeat split; auto. congruence.
    + exists s1. repeat split; auto. destruct n; simpl; unfold drained; rewrite Hd; reflexivity.
Qed.

(* From every reachable state in which every firing thread is outside fire(), the loop thread alone
   reaches a state without queued foreign events in at most [measure s + 1] of its own steps, never
   stepping out of a blocked wait. *)
Theorem progress : forall m s, reachable m s -> all_idle s ->
  exists s', lrun (S (measure s)) s = Some s' /\ fpend s' = [] /\ fts s' = fts s /\ reachable m s'.
Proof. intros m s Hr Hi. apply lrun_ok; auto. Qed.

(* every foreign event that was queued has then been handed to the dispatcher, in firing order *)
Theorem progress_dispatched : forall m s, reachable m s -> all_idle s ->
  exists s', lrun (S (measure s)) s = Some s' /\
             forall i, proj i (disp s') = map (EvF i) (seq 0 (fapp (fts s i))).
Proof.
  intros m s Hr Hi. destruct (progress m s Hr Hi) as [s' (A & B & C & D)]. exists s'. split; [exact A|].
  intros i. rewrite <- C. rewrite <- (exactly_once_in_order m s' D i). rewrite proj_app.
  assert (Hp : proj i (pending s') = []).
  { unfold fpend in B. unfold proj. clear - B. induction (pending s') as [|e l IH]; simpl in *; [reflexivity|].
    destruct e; simpl in *; try discriminate; auto. }
  rewrite Hp, app_nil_r. reflexivity.
Qed.

(* the same run as a trace of the transition system: only loop-thread actions, at most measure+1 of them *)
Lemma lrun_trace : forall n s s', lrun n s = Some s' ->
  exists tr, length tr <= n /\ run s (map (fun a => (0, a)) tr) = Some s'.
Proof.
  induction n as [|n IH]; intros s s' H; simpl in H.
  - destruct (drained s); [|discriminate]. inversion H; subst. exists []. simpl. auto.
  - destruct (drained s).
    + inversion H; subst. exists []. simpl. split; [lia|reflexivity].
    + destruct (blocked s); [discriminate|].
      destruct (lstep (lnext s) s) as [s1|] eqn:E; [|discriminate].
      destruct (IH _ _ H) as [tr [Hl Hrun]]. exists (lnext s :: tr). split; [simpl; lia|].
      simpl. unfold step. simpl. rewrite E. exact Hrun.
Qed.

Theorem progress_trace : forall m s, reachable m s -> all_idle s ->
  exists tr s', length tr <= S (measure s) /\ run s (map (fun a => (0, a)) tr) = Some s' /\ fpend s' = [].
Proof.
  intros m s Hr Hi. destruct (progress m s Hr Hi) as [s' (A & B & _)].
  destruct (lrun_trace _ _ _ A) as [tr [Hl Hrun]]. exists tr, s'. auto.
Qed.
