From Coq Require Import List NArith Bool Lia.
From Circ Require Import Model.Irc.
Import ListNotations.
Open Scope N_scope.

Definition clean (s : list N) := Forall (fun c => forbidden c = false) s.

Lemma clean_app a b : clean a -> clean b -> clean (a ++ b).
Proof. intros; apply Forall_app; split; assumption. Qed.

Lemma existsb_false_Forall {A} (f : A -> bool) l :
  existsb f l = false -> Forall (fun x => f x = false) l.
Proof. induction l as [|x l IH]; cbn; intros H; [constructor|].
  apply orb_false_iff in H as [H1 H2]. constructor; auto. Qed.

Lemma clean_join sep l : clean sep -> Forall clean l -> clean (join sep l).
Proof.
  intros Hs H. induction H as [|x l Hx Hl IH]; [constructor|].
  destruct l as [|y r]; [exact Hx|].
  change (join sep (x :: y :: r)) with (x ++ sep ++ join sep (y :: r)).
  apply clean_app; [exact Hx|apply clean_app; [exact Hs|exact IH]].
Qed.

Lemma clean_mark_last l : Forall clean l -> Forall clean (mark_last l).
Proof.
  induction 1 as [|x l Hx Hl IH]; [constructor|].
  destruct l as [|y r].
  - cbn [mark_last]. destruct (mem SP x && negb (starts_colon x)).
    + constructor; [|constructor]. constructor; [reflexivity|exact Hx].
    + constructor; [exact Hx|constructor].
  - change (mark_last (x :: y :: r)) with (x :: mark_last (y :: r)). constructor; auto.
Qed.

(* Every accepted message serialises to  body ++ CR LF  where body contains
   no CR, LF or NUL: exactly one line, nothing injected. *)
Theorem one_line m b : to_str m = Some b ->
  exists body, b = body ++ [13; 10] /\ clean body.
Proof.
  unfold to_str. destruct (check_args m) eqn:C; [|discriminate]. intros [= <-].
  unfold check_args in C. apply andb_prop in C as [C C3]. clear C.
  apply negb_true_iff in C3. apply existsb_false_Forall in C3.
  apply Forall_app in C3 as [Hh Ha].
  assert (Hh' : Forall clean (head_parts m)).
  { eapply Forall_impl; [|exact Hh]. intros s Hs. now apply existsb_false_Forall. }
  assert (Ha' : Forall clean (args m)).
  { eapply Forall_impl; [|exact Ha]. intros s Hs. now apply existsb_false_Forall. }
  unfold head_parts in Hh'. inversion Hh' as [|? ? Hc Hp]; subst.
  exists ((match prefix m with Some p => COLON :: p ++ [SP] | None => [] end)
          ++ command m ++ [SP] ++ join [SP] (mark_last (args m))).
  split; [now rewrite <- !app_assoc|].
  apply clean_app.
  - destruct (prefix m) as [p|]; [|constructor].
    inversion Hp; subst. constructor; [reflexivity|]. apply clean_app; [assumption|].
    constructor; [reflexivity|constructor].
  - apply clean_app; [exact Hc|]. apply clean_app; [constructor; [reflexivity|constructor]|].
    apply clean_join; [constructor; [reflexivity|constructor]|]. now apply clean_mark_last.
Qed.

(* connection with the line protocol: the serialised message is split by the
   Line model into exactly that one line with an empty tail *)
From Circ Require Import Model.Line Proofs.LineP.

Lemma clean_noLF s : clean s -> noLF s.
Proof. apply Forall_impl. intros c H. unfold forbidden in H.
  apply orb_false_iff in H as [H _]. apply orb_false_iff in H as [_ H]. exact H. Qed.

Lemma clean_not_ends_cr s : clean s -> ~ ends_cr s.
Proof. intros H [l' ->]. apply Forall_app in H as [_ H]. inversion H as [|? ? Hc _]; subst. discriminate Hc. Qed.

Theorem one_line_protocol m b : to_str m = Some b ->
  exists body, run [] [b] = ([body], []) /\ b = body ++ [13; 10].
Proof.
  intros H. destruct (one_line m b H) as (body & -> & Hc). exists body. split; [|reflexivity].
  apply (lines_exact [(body, true)] [] [body ++ [13; 10]]).
  - cbn. repeat split; [now apply clean_noLF|discriminate].
  - constructor.
  - cbn. now rewrite app_nil_r.
Qed.
