(* C08 — proofs about Model/KLoop.v: one inductive invariant of the loop state relative to the trace
   produced since run() was entered, preserved by every layer (acts, handlers, dispatcher, flush, tasks,
   tick at every nesting depth), then the run() theorems. *)
From Coq Require Import List ZArith Bool Arith Lia.
From Circ Require Import Model.KLoop.
Import ListNotations.

(* ---- projections of a trace *)
Definition firedK (d : list tr) : list evk :=
  flat_map (fun x => match x with TFire k => [k] | _ => [] end) d.
Definition dispK (d : list tr) : list evk :=
  flat_map (fun x => match x with TDisp k => [k] | _ => [] end) d.
Definition reqs (d : list tr) : list (option Z) :=
  flat_map (fun x => match x with TReq c => [c] | _ => [] end) d.
Definition cnt (k : evk) (l : list evk) : nat := length (filter (evk_eqb k) l).

Lemma firedK_app a b : firedK (a ++ b) = firedK a ++ firedK b.
Proof. apply flat_map_app. Qed.
Lemma dispK_app a b : dispK (a ++ b) = dispK a ++ dispK b.
Proof. apply flat_map_app. Qed.
Lemma reqs_app a b : reqs (a ++ b) = reqs a ++ reqs b.
Proof. apply flat_map_app. Qed.
Lemma cnt_app k a b : cnt k (a ++ b) = cnt k a + cnt k b.
Proof. unfold cnt. rewrite filter_app, app_length. reflexivity. Qed.

(* a manager at rest: not running, nothing queued *)
Definition at_rest (s : st) : Prop :=
  running s = false /\ executing s = false /\ fifo s = [] /\ heap s = [] /\ batch s = 0 /\ bad s = false.
(* ... and no pre-empted stopping thread left over from an earlier run *)
Definition idle (s : st) : Prop := at_rest s /\ pend s = None.

Definition is_early (p : option (bool * option Z)) : bool :=
  match p with Some (true, _) => true | _ => false end.

(* ---- the invariant; t0 = trace when run() was entered *)
Definition Inv (t0 : list tr) (s : st) : Prop :=
  exists d, trace s = t0 ++ d /\
    batch s = length (heap s) /\
    firedK d = dispK d ++ heap s ++ fifo s /\
    cnt KStarted (firedK d) = 1 /\
    (if running s
     then cnt KStopped (firedK d) = 0 /\ reqs d = [] /\ pend s = None
     else cnt KStopped (firedK d) = (if is_early (pend s) then 0 else 1) /\
          exists c r, reqs d = c :: r /\ xcode s = c).

Definition mono (s s' : st) : Prop := running s = false -> running s' = false.
Definition good (f : st -> st) : Prop := forall t0 s, Inv t0 s -> Inv t0 (f s) /\ mono s (f s).

Lemma mono_refl s : mono s s. Proof. red; auto. Qed.
Lemma mono_trans a b c : mono a b -> mono b c -> mono a c. Proof. unfold mono; auto. Qed.

(* steps that touch none of the fields / trace entries the invariant reads *)
Definition quiet (x : tr) : Prop :=
  match x with TFire _ | TDisp _ | TReq _ => False | _ => True end.

Lemma inv_logt t0 x s : quiet x -> Inv t0 s -> Inv t0 (logt x s).
Proof.
  intros Hq (d & Ht & Hb & Hf & Hs & Hr). exists (d ++ [x]).
  unfold logt; simpl. rewrite Ht, app_assoc. split; [reflexivity|].
  rewrite firedK_app, dispK_app, reqs_app.
  assert (firedK [x] = [] /\ dispK [x] = [] /\ reqs [x] = []) as (E1 & E2 & E3)
    by (destruct x; simpl in Hq; try contradiction; auto).
  rewrite E1, E2, E3, !app_nil_r. auto.
Qed.

Lemma inv_fire t0 k s : k <> KStarted -> k <> KStopped -> Inv t0 s -> Inv t0 (fire k s).
Proof.
  intros N1 N2 (d & Ht & Hb & Hf & Hs & Hr). exists (d ++ [TFire k]).
  unfold fire, logt; simpl. rewrite Ht, app_assoc. split; [reflexivity|].
  rewrite firedK_app, dispK_app, reqs_app. simpl. rewrite !app_nil_r.
  split; [exact Hb|]. split; [rewrite Hf, !app_assoc; reflexivity|].
  rewrite !cnt_app.
  assert (cnt KStarted [k] = 0) as E1 by (destruct k; try reflexivity; congruence).
  assert (cnt KStopped [k] = 0) as E2 by (destruct k; try reflexivity; congruence).
  rewrite E1, E2, !Nat.add_0_r. auto.
Qed.

Lemma inv_req_running t0 c s : Inv t0 s -> running s = true ->
  Inv t0 (fire KStopped (set_xcode c (set_running false (logt (TReq c) s)))).
Proof.
  intros (d & Ht & Hb & Hf & Hs & Hr) R. rewrite R in Hr. destruct Hr as (H0 & Hq & Hp).
  exists (d ++ [TReq c; TFire KStopped]).
  unfold fire, logt; simpl. rewrite Ht, <- !app_assoc. split; [reflexivity|].
  rewrite firedK_app, dispK_app, reqs_app. simpl. rewrite !app_nil_r.
  split; [exact Hb|]. split; [rewrite Hf, !app_assoc; reflexivity|].
  rewrite !cnt_app, H0, Hs, Hq, Hp. simpl. split; [reflexivity|]. split; [reflexivity|].
  exists c, []. auto.
Qed.

(* the second thread's stop(c) pre-empted: before its fire(stopped) (early) or right after it (late) *)
Lemma inv_stop_early t0 c s : Inv t0 s -> running s = true ->
  Inv t0 (set_pend (Some (true, c)) (logt TEarly (set_xcode c (set_running false (logt (TReq c) s))))).
Proof.
  intros (d & Ht & Hb & Hf & Hs & Hr) R. rewrite R in Hr. destruct Hr as (H0 & Hq & Hp).
  exists (d ++ [TReq c; TEarly]).
  unfold logt; simpl. rewrite Ht, <- !app_assoc. split; [reflexivity|].
  rewrite firedK_app, dispK_app, reqs_app. simpl. rewrite !app_nil_r.
  split; [exact Hb|]. split; [exact Hf|].
  rewrite Hq. simpl. split; [exact Hs|]. split; [exact H0|]. exists c, []. auto.
Qed.

Lemma inv_stop_late t0 c s : Inv t0 s -> running s = true ->
  Inv t0 (set_pend (Some (false, c)) (logt TLate (fire KStopped (set_xcode c (set_running false (logt (TReq c) s)))))).
Proof.
  intros (d & Ht & Hb & Hf & Hs & Hr) R. rewrite R in Hr. destruct Hr as (H0 & Hq & Hp).
  exists (d ++ [TReq c; TFire KStopped; TLate]).
  unfold fire, logt; simpl. rewrite Ht, <- !app_assoc. split; [reflexivity|].
  rewrite firedK_app, dispK_app, reqs_app. simpl. rewrite !app_nil_r.
  split; [exact Hb|]. split; [rewrite Hf, !app_assoc; reflexivity|].
  rewrite !cnt_app, H0, Hs, Hq. simpl. split; [reflexivity|]. split; [reflexivity|].
  exists c, []. auto.
Qed.

Lemma inv_req_idle t0 c s : Inv t0 s -> running s = false -> Inv t0 (logt (TReq c) s).
Proof.
  intros (d & Ht & Hb & Hf & Hs & Hr) R. rewrite R in Hr. destruct Hr as (H1 & c0 & r & Hq & Hx).
  exists (d ++ [TReq c]). unfold logt; simpl. rewrite Ht, app_assoc. split; [reflexivity|].
  rewrite firedK_app, dispK_app, reqs_app. simpl. rewrite !app_nil_r.
  rewrite R. repeat split; auto. exists c0, (r ++ [c]). rewrite Hq. auto.
Qed.

(* fields the invariant does not read *)
Lemma inv_set_tasks t0 v s : Inv t0 s -> Inv t0 (set_tasks v s). Proof. exact (fun H => H). Qed.
Lemma inv_set_nextg t0 v s : Inv t0 s -> Inv t0 (set_nextg v s). Proof. exact (fun H => H). Qed.
Lemma inv_set_sched t0 v s : Inv t0 s -> Inv t0 (set_sched v s). Proof. exact (fun H => H). Qed.
Lemma inv_set_ext t0 v s : Inv t0 s -> Inv t0 (set_ext v s). Proof. exact (fun H => H). Qed.
Lemma inv_set_mid t0 v s : Inv t0 s -> Inv t0 (set_mid v s). Proof. exact (fun H => H). Qed.
Lemma inv_set_bad t0 s : Inv t0 s -> Inv t0 (set_bad s). Proof. exact (fun H => H). Qed.
Lemma inv_set_executing t0 v s : Inv t0 s -> Inv t0 (set_executing v s). Proof. exact (fun H => H). Qed.

Lemma good_set_bad : good set_bad.
Proof. intros t0 s H. split; [exact H | red; auto]. Qed.

Section Layers.
Variable P : prog.
Variable ticker : st -> st.
Hypothesis Htk : good ticker.

Lemma ticker3 t0 s : Inv t0 s -> Inv t0 (ticker (ticker (ticker s))) /\ mono s (ticker (ticker (ticker s))).
Proof.
  intros H. destruct (Htk t0 s H) as (H1 & M1). destruct (Htk t0 _ H1) as (H2 & M2).
  destruct (Htk t0 _ H2) as (H3 & M3). split; [exact H3|]. eauto using mono_trans.
Qed.

Lemma req_stop_good t0 c s : Inv t0 s ->
  Inv t0 (fst (req_stop ticker c s)) /\ mono s (fst (req_stop ticker c s)) /\
  (snd (req_stop ticker c s) = true -> running (fst (req_stop ticker c s)) = false).
Proof.
  intros H. unfold req_stop, stop.
  destruct (running s) eqn:R.
  - assert (running (logt (TReq c) s) = true) as R' by exact R. rewrite R'. simpl negb. cbv iota.
    pose proof (inv_req_running t0 c s H R) as H1.
    set (s1 := fire KStopped (set_xcode c (set_running false (logt (TReq c) s)))) in *.
    assert (running s1 = false) as R1 by reflexivity.
    destruct (executing s1).
    + simpl. split; [exact H1|]. split; [red; auto|auto].
    + simpl. destruct (ticker3 t0 s1 H1) as (H3 & M3). split; [exact H3|].
      split; [red; intros; apply M3; exact R1| intros _; apply M3; exact R1].
  - assert (running (logt (TReq c) s) = false) as R' by exact R. rewrite R'. simpl.
    split; [apply inv_req_idle; assumption|]. split; [red; auto|discriminate].
Qed.

Lemma stop_idle c s : running s = false -> stop ticker c s = (s, false).
Proof. intros R. unfold stop. rewrite R. reflexivity. Qed.

Lemma t2_raise_good t0 c b s : Inv t0 s -> Inv t0 (t2_raise c b s) /\ running (t2_raise c b s) = running s.
Proof.
  intros H. unfold t2_raise. destruct b; [|auto]. destruct c; [|auto].
  split; [apply inv_logt; simpl; auto | reflexivity].
Qed.

(* an abort by XStopped means the manager is not running any more; bodies abort in no other way *)
Definition stopped_abort (e : option exn) (s : st) : Prop :=
  match e with None => True | Some (XStopped _) => running s = false | Some _ => False end.

Lemma exec_act_good t0 a s : Inv t0 s ->
  Inv t0 (fst (exec_act ticker a s)) /\ mono s (fst (exec_act ticker a s)) /\
  stopped_abort (snd (exec_act ticker a s)) (fst (exec_act ticker a s)).
Proof.
  intros H. destruct a as [thr n | thr c | thr c]; simpl.
  3: { split; [apply inv_logt; [exact I | exact H]|]. split; [red; auto | exact I]. }
  - split; [apply inv_fire; congruence || assumption|]. split; [red; auto | exact I].
  - destruct (req_stop_good t0 c s H) as (H1 & M1 & S1).
    destruct (req_stop ticker c s) as (s', raised) eqn:E. simpl in *.
    destruct thr; simpl.
    + destruct (t2_raise_good t0 c raised s' H1) as (H2 & R2).
      split; [exact H2|]. split; [red; intros; rewrite R2; auto | exact I].
    + split; [exact H1|]. split; [exact M1|].
      destruct raised; [|exact I]. destruct c; [simpl; auto | exact I].
Qed.

Lemma exec_acts_good t0 l : forall s, Inv t0 s ->
  Inv t0 (fst (exec_acts ticker l s)) /\ mono s (fst (exec_acts ticker l s)) /\
  stopped_abort (snd (exec_acts ticker l s)) (fst (exec_acts ticker l s)).
Proof.
  induction l as [|a r IH]; intros s H; simpl.
  - split; [exact H|]. split; [red; auto | exact I].
  - destruct (exec_act_good t0 a s H) as (H1 & M1 & S1).
    destruct (exec_act ticker a s) as (s1, e) eqn:E. simpl in *.
    destruct e as [x|].
    + simpl. auto.
    + destruct (IH s1 H1) as (H2 & M2 & S2). split; [exact H2|]. split; [eauto using mono_trans | exact S2].
Qed.

Lemma on_stop_exn_good t0 x s : Inv t0 s -> (forall z, x = XStopped z -> running s = false) ->
  Inv t0 (on_stop_exn ticker x s) /\ mono s (on_stop_exn ticker x s).
Proof.
  intros H Hx. destruct x; simpl.
  - rewrite (stop_idle (Some c) s (Hx c eq_refl)). simpl. split; [exact H | red; auto].
  - destruct (req_stop_good t0 c s H) as (H1 & M1 & _). auto.
  - destruct (req_stop_good t0 None s H) as (H1 & M1 & _). auto.
  - split; [exact H | red; auto].
Qed.

Lemma on_exn_good t0 x s : Inv t0 s -> (forall z, x = XStopped z -> running s = false) ->
  Inv t0 (on_exn ticker x s) /\ mono s (on_exn ticker x s).
Proof.
  intros H Hx. destruct x; try (apply on_stop_exn_good; assumption).
  simpl. split; [apply inv_fire; congruence || assumption | red; auto].
Qed.

Lemma end_of_not_stopped r x : end_of r = Some x -> forall z, x = XStopped z -> False.
Proof. destruct r; simpl; intros E z Hz; inversion E; subst; discriminate. Qed.

Lemma run_handler_good t0 k i b s : Inv t0 s ->
  Inv t0 (run_handler ticker k i b s) /\ mono s (run_handler ticker k i b s).
Proof.
  intros H. destruct b as [acts r | segs]; simpl.
  - assert (Inv t0 (logt (TH k i) s)) as H0 by (apply inv_logt; simpl; auto).
    destruct (exec_acts_good t0 acts _ H0) as (H1 & M1 & S1).
    destruct (exec_acts ticker acts (logt (TH k i) s)) as (s1, e) eqn:E. simpl in *.
    assert (mono s s1) as M by (red; intros R; apply M1; exact R).
    destruct e as [x|].
    + destruct (on_exn_good t0 x s1 H1) as (H2 & M2).
      { intros z ->. exact S1. }
      split; [exact H2 | eauto using mono_trans].
    + destruct (end_of r) as [x|] eqn:Er.
      * destruct (on_exn_good t0 x s1 H1) as (H2 & M2).
        { intros z Hz. exfalso. eapply end_of_not_stopped; eauto. }
        split; [exact H2 | eauto using mono_trans].
      * auto.
  - split; [|red; auto]. apply inv_logt; simpl; auto.
Qed.

Lemma run_handlers_good t0 k bs : forall i s, Inv t0 s ->
  Inv t0 (run_handlers ticker k i bs s) /\ mono s (run_handlers ticker k i bs s).
Proof.
  induction bs as [|b r IH]; intros i s H; simpl.
  - split; [exact H | red; auto].
  - destruct (run_handler_good t0 k i b s H) as (H1 & M1).
    destruct (IH (S i) _ H1) as (H2 & M2). split; [exact H2 | eauto using mono_trans].
Qed.

Lemma do_xact_good t0 tm x s : Inv t0 s ->
  Inv t0 (fst (do_xact false ticker tm x s)) /\ mono s (fst (do_xact false ticker tm x s)).
Proof.
  intros H.
  assert (Inv t0 (fst (let '(s', raised) := req_stop ticker match x with XStop _ c => c | _ => None end s in
                       (t2_raise match x with XStop _ c => c | _ => None end raised s', running s))) /\
          mono s (fst (let '(s', raised) := req_stop ticker match x with XStop _ c => c | _ => None end s in
                       (t2_raise match x with XStop _ c => c | _ => None end raised s', running s)))) as J.
  { set (c := match x with XStop _ c => c | _ => None end).
    destruct (req_stop_good t0 c s H) as (H1 & M1 & _).
    destruct (req_stop ticker c s) as (s', raised). simpl in *.
    destruct (t2_raise_good t0 c raised s' H1) as (H2 & R2).
    split; [exact H2 | red; intros; rewrite R2; auto]. }
  destruct x as [| n | m c | c]; simpl.
  4: { split; [apply inv_logt; [exact I | exact H] | red; auto]. }
  - split; [exact H | red; auto].
  - split; [apply inv_fire; congruence || assumption | red; auto].
  - simpl in J. destruct (running s && executing s) eqn:L; [|exact J].
    apply andb_true_iff in L. destruct L as (R & _).
    destruct m.
    + exact J.
    + destruct tm; [|exact J]. cbn [fst]. split; [apply inv_stop_early; assumption | red; auto].
    + cbn [fst]. split; [apply inv_stop_late; assumption | red; auto].
Qed.

Lemma idle_wait_good t0 xs : forall s, Inv t0 s ->
  Inv t0 (idle_wait false ticker xs s) /\ mono s (idle_wait false ticker xs s).
Proof.
  induction xs as [|x r IH]; intros s H; simpl.
  - assert (Inv t0 (logt (TWait true) (set_ext [] s))) as H0 by (apply inv_logt; simpl; auto).
    destruct (running s) eqn:R.
    + destruct (req_stop_good t0 None _ H0) as (H1 & M1 & _). split; [exact H1|].
      red; intros R0. apply M1. exact R0.
    + split; [exact H0 | red; auto].
  - assert (Inv t0 (logt (TWait true) (set_ext r s))) as H0 by (apply inv_logt; simpl; auto).
    destruct (do_xact_good t0 false x _ H0) as (H1 & M1).
    destruct (do_xact false ticker false x (logt (TWait true) (set_ext r s))) as (s', woke). simpl in *.
    assert (mono s s') as M by (red; intros R; apply M1; exact R).
    destruct woke; [auto|]. destruct (IH s' H1) as (H2 & M2). split; [exact H2 | eauto using mono_trans].
Qed.

Lemma timed_wait_good t0 s : Inv t0 s -> Inv t0 (timed_wait false ticker s) /\ mono s (timed_wait false ticker s).
Proof.
  intros H. unfold timed_wait.
  assert (Inv t0 (logt (TWait false) s)) as H0 by (apply inv_logt; simpl; auto).
  destruct (ext (logt (TWait false) s)) as [|x r].
  - split; [exact H0 | red; auto].
  - destruct (do_xact_good t0 true x (set_ext r (logt (TWait false) s)) H0) as (H1 & M1).
    split; [exact H1 | red; intros R; apply M1; exact R].
Qed.

(* the pop of dispatchEvents followed by the dispatcher's entry *)
Lemma inv_pop t0 s k h b : Inv t0 s -> batch s = S b -> heap s = k :: h ->
  Inv t0 (logt (TDisp k) (set_heap h (set_batch b s))).
Proof.
  intros (d & Ht & Hb & Hf & Hs & Hr) Eb Eh. exists (d ++ [TDisp k]).
  unfold logt; simpl. rewrite Ht, app_assoc. split; [reflexivity|].
  rewrite firedK_app, dispK_app, reqs_app. simpl. rewrite !app_nil_r.
  rewrite Eh in *. simpl in *. split; [lia|].
  split; [rewrite Hf, <- !app_assoc; reflexivity|]. auto.
Qed.

Lemma dispatch_good t0 s k h b : Inv t0 s -> batch s = S b -> heap s = k :: h ->
  Inv t0 (dispatch false false P ticker k (set_heap h (set_batch b s))) /\
  mono s (dispatch false false P ticker k (set_heap h (set_batch b s))).
Proof.
  intros H Eb Eh. pose proof (inv_pop t0 s k h b H Eb Eh) as H0.
  unfold dispatch. set (s0 := logt (TDisp k) (set_heap h (set_batch b s))) in *.
  assert (mono s s0) as M0 by (red; auto).
  assert (forall s', Inv t0 s' /\ mono s0 s' -> Inv t0 s' /\ mono s s') as W
    by (intros s' (A & B); split; [exact A | eauto using mono_trans]).
  destruct k; try (apply W; apply run_handlers_good; exact H0).
  destruct ((0 <? batch s0) || (0 <? qlen s0) || (negb false && negb (running s0))).
  - auto.
  - destruct (tasks s0).
    + apply W. apply idle_wait_good. exact H0.
    + apply W. apply timed_wait_good. exact H0.
Qed.

Lemma floop_good t0 n : forall s, Inv t0 s -> Inv t0 (floop false false P ticker n s) /\ mono s (floop false false P ticker n s).
Proof.
  induction n as [|n IH]; intros s H; simpl.
  - destruct (batch s =? 0); split; auto using mono_refl. red; auto.
  - destruct (batch s) as [|b] eqn:Eb; [split; auto using mono_refl|].
    destruct (heap s) as [|k h] eqn:Eh; [split; [exact H | red; auto]|].
    destruct (dispatch_good t0 s k h b H Eb Eh) as (H1 & M1).
    destruct (IH _ H1) as (H2 & M2). split; [exact H2 | eauto using mono_trans].
Qed.

Lemma inv_load t0 s : Inv t0 s -> batch s = 0 ->
  Inv t0 (set_batch (length (fifo s)) (set_heap (heap s ++ fifo s) (set_fifo [] s))).
Proof.
  intros (d & Ht & Hb & Hf & Hs & Hr) E0. exists d. simpl.
  assert (heap s = []) as Eh by (destruct (heap s); [reflexivity | simpl in Hb; lia]).
  rewrite Eh in *. simpl in *. rewrite app_nil_r. auto.
Qed.

Lemma flush_good : good (flush false false P ticker).
Proof.
  intros t0 s H. unfold flush. destruct (batch s =? 0) eqn:E.
  - apply Nat.eqb_eq in E. pose proof (inv_load t0 s H E) as H1.
    destruct (floop_good t0 (batch (set_batch (length (fifo s)) (set_heap (heap s ++ fifo s) (set_fifo [] s)))) _ H1) as (H2 & M2).
    split; [exact H2 | red; intros R; apply M2; exact R].
  - apply floop_good. exact H.
Qed.

Lemma on_exn_task_good t0 g j x s : Inv t0 s -> (forall z, x = XStopped z -> running s = false) ->
  Inv t0 (on_exn_task ticker g j x s) /\ mono s (on_exn_task ticker g j x s).
Proof.
  intros H Hx. unfold on_exn_task.
  destruct x; try (apply (on_stop_exn_good t0 _ (update_task g j [] s)); [exact H | exact Hx]).
  split; [apply inv_fire; congruence || exact H | red; auto].
Qed.

Lemma proc_task_good t0 t s : Inv t0 s -> Inv t0 (proc_task ticker t s) /\ mono s (proc_task ticker t s).
Proof.
  intros H. destruct t as ((g, j), sg). unfold proc_task.
  destruct sg as [|(acts, r) rest]; [split; [exact H | red; auto]|].
  assert (Inv t0 (logt (TG g j) s)) as H0 by (apply inv_logt; simpl; auto).
  destruct (exec_acts_good t0 acts _ H0) as (H1 & M1 & S1).
  destruct (exec_acts ticker acts (logt (TG g j) s)) as (s1, e) eqn:E. cbn [fst snd] in *.
  assert (mono s s1) as M by (red; intros R; apply M1; exact R).
  assert (forall s', Inv t0 s' /\ mono s1 s' -> Inv t0 s' /\ mono s s') as W
    by (intros s' (A & B); split; [exact A | eauto using mono_trans]).
  destruct e as [x|].
  - apply W. apply on_exn_task_good; [exact H1 | intros z ->; exact S1].
  - destruct r.
    + split; [exact H1 | exact M].
    + split; [exact H1 | exact M].
    + apply W. apply on_exn_task_good; [exact H1 | discriminate].
    + apply W. apply on_exn_task_good; [exact H1 | discriminate].
    + apply W. apply on_exn_task_good; [exact H1 | discriminate].
Qed.

Lemma proc_gids_good t0 l : forall s, Inv t0 s -> Inv t0 (proc_gids ticker l s) /\ mono s (proc_gids ticker l s).
Proof.
  induction l as [|g r IH]; intros s H; simpl.
  - split; [exact H | red; auto].
  - assert (Inv t0 (proc_gid ticker g s) /\ mono s (proc_gid ticker g s)) as (H1 & M1).
    { unfold proc_gid. destruct (find_task g (tasks s)); [apply proc_task_good; exact H | split; [exact H | red; auto]]. }
    destruct (IH _ H1) as (H2 & M2). split; [exact H2 | eauto using mono_trans].
Qed.

Lemma tick_good : good (tick false false P ticker).
Proof.
  intros t0 s H. unfold tick.
  assert (Inv t0 (logt TTick s)) as H0 by (apply inv_logt; simpl; auto).
  set (s0 := logt TTick s) in *.
  assert (mono s s0) as M0 by (red; auto).
  destruct (match sched s0 with [] => ([], s0) | e :: r => (e, set_sched r s0) end) as (e, s0') eqn:Es.
  assert (Inv t0 s0' /\ mono s0 s0') as (H0' & M0').
  { destruct (sched s0); inversion Es; subst; split; auto; red; auto. }
  destruct (proc_gids_good t0 (order e (map gid_of (tasks s0'))) s0' H0') as (H1 & M1).
  set (s1 := proc_gids ticker (order e (map gid_of (tasks s0'))) s0') in *.
  set (gef := fun s1 : st =>
         let '(m, s1') := match mid s1 with [] => (None, s1) | m :: r => (m, set_mid r s1) end in
         let s1'' := match m with
                     | None => s1'
                     | Some c => let '(s', raised) := req_stop ticker c s1' in t2_raise c raised s'
                     end in
         fire KGE s1'').
  assert (Inv t0 (gef s1) /\ mono s1 (gef s1)) as (Hg & Mg).
  { unfold gef.
    destruct (match mid s1 with [] => (None, s1) | m :: r => (m, set_mid r s1) end) as (m, s1') eqn:Em.
    assert (Inv t0 s1' /\ running s1' = running s1) as (H1' & R1').
    { destruct (mid s1); inversion Em; subst; split; auto. }
    destruct m as [c|].
    - destruct (req_stop_good t0 c s1' H1') as (Ha & Ma & _).
      destruct (req_stop ticker c s1') as (s', raised). cbn [fst] in *.
      destruct (t2_raise_good t0 c raised s' Ha) as (Hb & Rb).
      split; [apply inv_fire; congruence || exact Hb|].
      red; intros R. change (running (t2_raise c raised s') = false). rewrite Rb. apply Ma. rewrite R1'. exact R.
    - split; [apply inv_fire; congruence || exact H1'|]. red; intros R. change (running s1' = false). rewrite R1'. exact R. }
  assert (Inv t0 (if running s1 then gef s1 else s1) /\ mono s1 (if running s1 then gef s1 else s1)) as (H2 & M2).
  { destruct (running s1); split; auto; red; auto. }
  pose (s2 := if running s1 then gef s1 else s1).
  change (Inv t0 (if 0 <? qlen s2 then flush false false P ticker s2 else s2) /\
          mono s (if 0 <? qlen s2 then flush false false P ticker s2 else s2)).
  fold s2 in H2, M2.
  assert (mono s s2) as M by eauto using mono_trans.
  destruct (0 <? qlen s2).
  - destruct (flush_good t0 s2 H2) as (H3 & M3). split; [exact H3 | eauto using mono_trans].
  - auto.
Qed.

End Layers.

Lemma tickd_good P d : good (tickd false false P d).
Proof. induction d; simpl; [exact good_set_bad | apply tick_good; assumption]. Qed.

(* ---- the loops of run() *)
Lemma main_loop_spec P d t0 fuel : forall s s', Inv t0 s -> main_loop false false P d fuel s = Some s' ->
  Inv t0 s' /\ running s' = false /\ qlen s' = 0.
Proof.
  induction fuel as [|f IH]; intros s s' H E; simpl in E; [discriminate|].
  destruct (running s || (0 <? qlen s)) eqn:C.
  - eapply IH; [|exact E]. apply tickd_good. exact H.
  - inversion E; subst. apply orb_false_iff in C. destruct C as (R & Q).
    apply Nat.ltb_ge in Q. split; [exact H|]. split; [exact R | lia].
Qed.

Lemma drain_spec P d t0 fuel : forall s s', Inv t0 s -> running s = false -> drain false false P d fuel s = Some s' ->
  Inv t0 s' /\ running s' = false /\ qlen s' = 0.
Proof.
  induction fuel as [|f IH]; intros s s' H R E; simpl in E; [discriminate|].
  destruct (0 <? qlen s) eqn:C.
  - destruct (flush_good P (tickd false false P d) (tickd_good P d) t0 s H) as (H1 & M1).
    eapply IH; [exact H1 | apply M1; exact R | exact E].
  - inversion E; subst. apply Nat.ltb_ge in C. split; [exact H|]. split; [exact R | lia].
Qed.

Lemma inv_start t0 s : idle s -> trace s = t0 ->
  Inv t0 (fire KStarted (set_executing true (set_xcode None (set_running true s)))).
Proof.
  intros ((R & X & F & Hh & B & _) & Pn) Ht. exists [TFire KStarted].
  unfold fire, logt; simpl. rewrite Ht, F, Hh, B, Pn. simpl. repeat split; reflexivity.
Qed.

(* everything the property says about one run(), from one use of the invariant.  The count of `stopped` is
   exact: 1, except when a second thread's stop was pre-empted before its fire(stopped) and is still parked when
   run() returns (pend s1 = Some (true, _)) -- then `stopped` has not even been queued: 0 *)
Theorem run_spec : forall P d fuel s0 s1 out, idle s0 -> run false false P d fuel s0 = Some (s1, out) ->
  exists delta, trace s1 = trace s0 ++ delta /\
    firedK delta = dispK delta /\
    cnt KStarted (firedK delta) = 1 /\
    cnt KStopped (firedK delta) = (if is_early (pend s1) then 0 else 1) /\
    (exists r, reqs delta = out :: r) /\
    at_rest s1.
Proof.
  intros P d fuel s0 s1 out Hi E. unfold run in E.
  pose proof (inv_start (trace s0) s0 Hi eq_refl) as H1.
  set (sa := fire KStarted (set_executing true (set_xcode None (set_running true s0)))) in *.
  destruct (main_loop false false P d fuel sa) as [s2|] eqn:E2; [|discriminate].
  destruct (main_loop_spec P d _ _ _ _ H1 E2) as (H2 & R2 & Q2).
  pose proof (tickd_good P d) as G.
  destruct (G _ _ H2) as (H3a & M3a). destruct (G _ _ H3a) as (H3b & M3b).
  destruct (G _ _ H3b) as (H3c & M3c). destruct (G _ _ H3c) as (H3 & M3d).
  set (s3 := tickd false false P d (tickd false false P d (tickd false false P d (tickd false false P d s2)))) in *.
  assert (running s3 = false) as R3 by (apply M3d, M3c, M3b, M3a; exact R2).
  destruct (drain false false P d fuel s3) as [s4|] eqn:E4; [|discriminate].
  destruct (drain_spec P d _ _ _ _ H3 R3 E4) as (H4 & R4 & Q4).
  destruct (bad s4) eqn:B4; [discriminate|]. inversion E; subst. clear E.
  destruct H4 as (dl & Ht & Hb & Hf & Hs & Hr). rewrite R4 in Hr. destruct Hr as (Hst & c & r & Hq & Hx).
  unfold qlen in Q4.
  assert (fifo s4 = [] /\ heap s4 = []) as (F4 & Hp4).
  { destruct (fifo s4); destruct (heap s4); simpl in Q4; try lia; auto. }
  rewrite F4, Hp4 in *. simpl in Hb. rewrite !app_nil_r in Hf.
  exists dl. simpl. split; [exact Ht|]. split; [exact Hf|]. split; [exact Hs|]. split; [exact Hst|].
  split; [exists r; rewrite Hq, Hx; reflexivity|].
  unfold at_rest; simpl. repeat split; assumption || reflexivity.
Qed.

(* ---- the statements of Props/C08.v *)
Lemma started_once : forall P d fuel s0 s1 out, idle s0 -> run false false P d fuel s0 = Some (s1, out) ->
  exists delta, trace s1 = trace s0 ++ delta /\ cnt KStarted (dispK delta) = 1.
Proof.
  intros P d fuel s0 s1 out Hi E. destruct (run_spec P d fuel s0 s1 out Hi E) as (dl & Ht & Hf & Hs & Hst & Hq & Hid).
  exists dl. rewrite <- Hf. auto.
Qed.

(* partial: exactly the complement of the open finding C08-early-return-race *)
Lemma stopped_once_partial : forall P d fuel s0 s1 out, idle s0 -> run false false P d fuel s0 = Some (s1, out) ->
  is_early (pend s1) = false ->
  exists delta, trace s1 = trace s0 ++ delta /\ cnt KStopped (dispK delta) = 1.
Proof.
  intros P d fuel s0 s1 out Hi E He. destruct (run_spec P d fuel s0 s1 out Hi E) as (dl & Ht & Hf & Hs & Hst & Hq & Hid).
  exists dl. rewrite <- Hf. rewrite He in Hst. auto.
Qed.

(* never more than once, whatever the schedule *)
Lemma stopped_at_most_once : forall P d fuel s0 s1 out, idle s0 -> run false false P d fuel s0 = Some (s1, out) ->
  exists delta, trace s1 = trace s0 ++ delta /\ cnt KStopped (dispK delta) <= 1.
Proof.
  intros P d fuel s0 s1 out Hi E. destruct (run_spec P d fuel s0 s1 out Hi E) as (dl & Ht & Hf & Hs & Hst & Hq & Hid).
  exists dl. rewrite <- Hf. split; [exact Ht|]. rewrite Hst. destruct (is_early (pend s1)); lia.
Qed.

(* the full statement is refuted: stop(5) from a second thread, pre-empted between `_exit_code = 5` and
   fire(stopped) while the loop is in its timed idle wait (a generator task is pending): run() raises
   SystemExit(5) and `stopped` has not been dispatched (it has not even been queued) *)
Lemma stopped_before_return_refuted : exists P d fuel s0 s1 out delta,
  idle s0 /\ run false false P d fuel s0 = Some (s1, out) /\
  trace s1 = trace s0 ++ delta /\ cnt KStopped (dispK delta) = 0 /\ out = Some 5%Z.
Proof.
  exists (prog_of [(KStarted, [BGen [([], RYield); ([], RYield); ([], RYield)]])]), 3, 50,
         (init [] [XStop PEarly (Some 5%Z)]).
  eexists. eexists. eexists.
  split; [repeat split|].
  split; [vm_compute; reflexivity|].
  split; [simpl; reflexivity|].
  vm_compute. split; reflexivity.
Qed.

Lemma drained : forall P d fuel s0 s1 out, idle s0 -> run false false P d fuel s0 = Some (s1, out) ->
  fifo s1 = [] /\ heap s1 = [] /\ batch s1 = 0 /\
  exists delta, trace s1 = trace s0 ++ delta /\ dispK delta = firedK delta.
Proof.
  intros P d fuel s0 s1 out Hi E. destruct (run_spec P d fuel s0 s1 out Hi E) as (dl & Ht & Hf & Hs & Hst & Hq & Hid).
  destruct Hid as (_ & _ & F & Hh & B & _). repeat split; auto. exists dl. auto.
Qed.

Lemma exit_code : forall P d fuel s0 s1 out, idle s0 -> run false false P d fuel s0 = Some (s1, out) ->
  exists delta r, trace s1 = trace s0 ++ delta /\ reqs delta = out :: r.
Proof.
  intros P d fuel s0 s1 out Hi E. destruct (run_spec P d fuel s0 s1 out Hi E) as (dl & Ht & Hf & Hs & Hst & (r & Hq) & Hid).
  exists dl, r. auto.
Qed.

Lemma idle_stop : forall (tk : st -> st) c s, running s = false -> stop tk c s = (s, false).
Proof. intros tk c s H. unfold stop. rewrite H. reflexivity. Qed.

(* at rest again when run() returns; idle (all theorems apply to the next run) unless a pre-empted stopping
   thread is still parked -- its remainder (finish_late) runs outside run() *)
Lemma rerun : forall P d fuel s0 s1 out, idle s0 -> run false false P d fuel s0 = Some (s1, out) ->
  at_rest s1 /\ (pend s1 = None -> idle s1).
Proof.
  intros P d fuel s0 s1 out Hi E. destruct (run_spec P d fuel s0 s1 out Hi E) as (dl & Ht & Hf & Hs & Hst & Hq & Hid).
  split; [exact Hid | intros Hp; split; assumption].
Qed.

(* ---- the order `_running = False; fire(stopped); _exit_code = code` is refuted: a second thread calls
   stop(3) while the loop idles and is pre-empted right after the wake-up; run() returns normally *)
Lemma exit_code_legacy_refuted : exists P d fuel s0 s1 delta r c,
  idle s0 /\ run true false P d fuel s0 = Some (s1, None) /\
  trace s1 = trace s0 ++ delta /\ reqs delta = Some c :: r.
Proof.
  exists (prog_of []), 3, 50, (init [] [XStop PLate (Some 3%Z)]).
  eexists. eexists. eexists. eexists.
  split; [repeat split|].
  split; [vm_compute; reflexivity|].
  split; [simpl; reflexivity|].
  vm_compute. reflexivity.
Qed.

(* the same schedule with the order of the code: the code reaches the caller *)
Lemma exit_code_late_example :
  option_map snd (run false false (prog_of []) 3 50 (init [] [XStop PLate (Some 3%Z)])) = Some (Some 3%Z).
Proof. vm_compute. reflexivity. Qed.

(* ---- the `or not self._running` clause of the dispatcher's wait decision: a generate_events dispatched while
   the manager is not running never waits (nobody would wake it: tick() fires no further generate_events and a
   stop() on a stopped manager fires nothing) *)
Lemma ge_not_running_never_waits : forall lg P tk s, running s = false ->
  dispatch lg false P tk KGE s = logt (TDisp KGE) s.
Proof.
  intros lg P tk s R. unfold dispatch.
  assert (running (logt (TDisp KGE) s) = false) as R' by exact R.
  rewrite R'. simpl. rewrite !orb_true_r. reflexivity.
Qed.

(* a second thread's whole stop() lands in tick() between `if self._running` and fire(generate_events): the batch
   is [started; stopped; generate_events], generate_events comes last with an empty queue.  With the clause run()
   returns (started, stopped, generate_events dispatched once each); without it the loop enters the unbounded
   wait on a stopped manager ([idle_wait] finds nobody who could wake it: bad) and run does not return *)
Lemma ge_clause_example :
  option_map (fun r => dispK (trace (fst r))) (run false false (prog_of []) 3 50 (set_mid [Some None] (init [] [])))
  = Some [KStarted; KStopped; KGE].
Proof. vm_compute. reflexivity. Qed.

Lemma ge_clause_dropped_refuted : exists P d s0,
  idle s0 /\ run false true P d 50 s0 = None /\ run false true P d 400 s0 = None /\
  run false false P d 50 s0 <> None.
Proof.
  exists (prog_of []), 3, (set_mid [Some None] (init [] [])).
  split; [repeat split|]. split; [vm_compute; reflexivity|]. split; [vm_compute; reflexivity|].
  vm_compute. discriminate.
Qed.

(* ---- stop() on a registered child component (a manager that never ran) while the root runs: C08_idle_stop
   applied to the child's own state; the root's loop state is untouched, nothing is raised into the handler *)
Lemma child_stop_no_effect : forall tk thr c s,
  exec_act tk (AStopChild thr c) s = (logt (TChildStop c) s, None).
Proof.
  intros tk thr c s. unfold exec_act. rewrite (idle_stop tk c never_run eq_refl). reflexivity.
Qed.

Lemma child_stop_second_thread_no_effect : forall lg tk tm c s,
  do_xact lg tk tm (XStopChild c) s = (logt (TChildStop c) s, false).
Proof.
  intros lg tk tm c s. unfold do_xact. rewrite (idle_stop tk c never_run eq_refl). reflexivity.
Qed.

Lemma child_stop_example :
  option_map (fun r => (dispK (trace (fst r)), snd r))
    (run false false (prog_of [(KStarted, [BPlain [AFire false 0] RRet]);
                               (KUser 0, [BPlain [AStopChild false (Some 4%Z); AFire false 1] RRet]);
                               (KUser 1, [BPlain [AStopChild true None; AStop false (Some 6%Z)] RRet])])
         3 50 (init [] []))
  = Some ([KStarted; KGE; KUser 0; KGE; KUser 1; KGE; KStopped], Some 6%Z).
Proof. vm_compute. reflexivity. Qed.
