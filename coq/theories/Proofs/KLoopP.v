(* C08 — proofs about Model/KLoop.v *)
From Coq Require Import List ZArith Bool Arith Lia.
From Circ Require Import Model.KLoop.
Import ListNotations.

Lemma idle_stop : forall (tk : st -> st) c s, running s = false -> stop tk c s = (s, false).
Proof. intros tk c s H. unfold stop. rewrite H. reflexivity. Qed.
