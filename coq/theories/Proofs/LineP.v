From Coq Require Import List NArith Arith Bool Lia.
From Circ Require Import Model.Line.
Import ListNotations.
Open Scope N_scope.

Definition noLF (l : list N) := Forall (fun c => (c =? LF) = false) l.

Lemma pieces_nonempty cur s : pieces cur s <> [].
Proof. revert cur; induction s as [|c t IH]; intros cur; cbn [pieces]; [discriminate|].
  destruct (c =? LF); [discriminate|apply IH]. Qed.

(* prefix without LF is absorbed into the accumulator *)
Lemma pieces_noLF_app x : noLF x -> forall cur s, pieces cur (x ++ s) = pieces (rev x ++ cur) s.
Proof.
  induction 1 as [|c x Hc Hx IH]; intros cur s; [reflexivity|].
  cbn [app pieces rev]. rewrite Hc, IH, <- app_assoc. reflexivity.
Qed.

Lemma last_pieces_noLF s : forall cur, noLF (rev cur) -> noLF (last (pieces cur s) []).
Proof.
  induction s as [|c t IH]; intros cur H; cbn [pieces].
  - exact H.
  - destruct (c =? LF) eqn:E.
    + pose proof (pieces_nonempty [] t) as NE.
      destruct (pieces [] t) eqn:P; [contradiction|]. rewrite <- P.
      change (last (strip_cr (rev cur) :: pieces [] t) []) with
        (match pieces [] t with [] => strip_cr (rev cur) | _ :: _ => last (pieces [] t) [] end).
      rewrite P. rewrite <- P. apply IH. constructor.
    + apply IH. cbn [rev]. apply Forall_app; split; [exact H|]. constructor; [exact E|constructor].
Qed.

Lemma removelast_cons {A} (x : A) l : l <> [] -> removelast (x :: l) = x :: removelast l.
Proof. destruct l; [contradiction|reflexivity]. Qed.
Lemma last_cons {A} (x : A) l d : l <> [] -> last (x :: l) d = last l d.
Proof. destruct l; [contradiction|reflexivity]. Qed.

(* the streaming law: scanning a ++ b equals scanning a, keeping its last
   (unterminated) piece, and re-scanning that piece followed by b *)
Lemma pieces_app a : forall cur b, noLF (rev cur) ->
  pieces cur (a ++ b) =
  removelast (pieces cur a) ++ pieces [] (last (pieces cur a) [] ++ b).
Proof.
  induction a as [|c t IH]; intros cur b H.
  - cbn [app pieces removelast last].
    rewrite (pieces_noLF_app (rev cur) H [] b), rev_involutive, app_nil_r. reflexivity.
  - cbn [app pieces]. destruct (c =? LF) eqn:E.
    + rewrite removelast_cons, last_cons by apply pieces_nonempty.
      cbn [app]. f_equal. apply IH. constructor.
    + apply IH. cbn [rev]. apply Forall_app; split; [exact H|]. constructor; [exact E|constructor].
Qed.

Lemma resplit_app a b :
  resplit (a ++ b) = removelast (resplit a) ++ resplit (last (resplit a) [] ++ b).
Proof. unfold resplit. apply pieces_app. constructor. Qed.

Lemma resplit_nonempty s : resplit s <> [].
Proof. apply pieces_nonempty. Qed.

Lemma removelast_app_ne {A} (l l' : list A) : l' <> [] -> removelast (l ++ l') = l ++ removelast l'.
Proof. apply removelast_app. Qed.
Lemma last_app_ne {A} (l l' : list A) d : l' <> [] -> last (l ++ l') d = last l' d.
Proof. intros H. induction l as [|x l IH]; [reflexivity|].
  cbn [app]. rewrite last_cons; [exact IH|]. destruct l; [exact H|discriminate]. Qed.

Definition held (buf : list N) := noLF buf.

Lemma resplit_noLF buf : noLF buf -> resplit buf = [buf].
Proof. intros H. unfold resplit.
  rewrite <- (app_nil_r buf) at 1. rewrite (pieces_noLF_app buf H [] []).
  cbn [pieces]. now rewrite app_nil_r, rev_involutive. Qed.

Lemma run_spec chunks : forall buf, held buf ->
  run buf chunks = (removelast (resplit (buf ++ concat chunks)),
                    last (resplit (buf ++ concat chunks)) []).
Proof.
  induction chunks as [|d ds IH]; intros buf H.
  - cbn [run concat]. rewrite app_nil_r, (resplit_noLF _ H). reflexivity.
  - cbn [run concat]. unfold feed, split_lines. cbn beta iota zeta.
    assert (Hh : held (last (resplit (buf ++ d)) [])).
    { unfold resplit. apply last_pieces_noLF. constructor. }
    rewrite (IH _ Hh). rewrite app_assoc, (resplit_app (buf ++ d) (concat ds)).
    rewrite removelast_app_ne, last_app_ne by apply resplit_nonempty. reflexivity.
Qed.

Theorem lines_segmentation chunks :
  run [] chunks = (removelast (resplit (concat chunks)), last (resplit (concat chunks)) []).
Proof. apply (run_spec chunks []). constructor. Qed.

(* any two segmentations of the same stream give the same lines and tail *)
Corollary lines_segmentation_eq cs1 cs2 :
  concat cs1 = concat cs2 -> run [] cs1 = run [] cs2.
Proof. intros H. now rewrite !lines_segmentation, H. Qed.

(* the held tail never contains a terminator, emitted lines neither contain LF *)
Lemma tail_held chunks : held (snd (run [] chunks)).
Proof. rewrite lines_segmentation. cbn [snd]. apply last_pieces_noLF. constructor. Qed.

(* ---- what the emitted lines are, stated independently: the stream is
   line_1 term_1 ... line_n term_n tail with term_i in {LF, CRLF} ---- *)
Fixpoint join_lines (ls : list (list N * bool)) (tail : list N) : list N :=
  match ls with
  | [] => tail
  | (l, crlf) :: r => l ++ (if crlf then [CR; LF] else [LF]) ++ join_lines r tail
  end.

Definition ends_cr (l : list N) := exists l', l = l' ++ [CR].

Lemma strip_cr_app_cr l : strip_cr (l ++ [CR]) = l.
Proof. induction l as [|c t IH]; [reflexivity|].
  cbn [app]. destruct t; cbn [app strip_cr] in *; [reflexivity|]. now rewrite IH. Qed.

Lemma strip_cr_id l : ~ ends_cr l -> strip_cr l = l.
Proof. induction l as [|c t IH]; intros H; [reflexivity|].
  destruct t as [|d t'].
  - cbn. destruct (c =? CR) eqn:E; [|reflexivity]. exfalso. apply H. exists []. apply N.eqb_eq in E. now subst.
  - change (strip_cr (c :: d :: t')) with (c :: strip_cr (d :: t')). f_equal. apply IH.
    intros [l' Hl]. apply H. exists (c :: l'). cbn. now rewrite Hl.
Qed.

(* well-formed description of a stream: no LF inside lines or tail; an
   LF-terminated line does not end in CR (otherwise it is a CRLF line) *)
Fixpoint wf_lines (ls : list (list N * bool)) : Prop :=
  match ls with
  | [] => True
  | (l, crlf) :: r => noLF l /\ (crlf = false -> ~ ends_cr l) /\ wf_lines r
  end.

Lemma pieces_join ls tail : wf_lines ls -> noLF tail ->
  resplit (join_lines ls tail) = map fst ls ++ [tail].
Proof.
  unfold resplit. induction ls as [|[l crlf] r IH]; intros W T; cbn [join_lines map fst app].
  - apply (resplit_noLF tail T).
  - destruct W as (Hl & Hc & Hr). destruct crlf.
    + rewrite (pieces_noLF_app l Hl), app_nil_r. cbn [app pieces].
      change (CR =? LF) with false. cbn iota. change (LF =? LF) with true. cbn iota.
      cbn [rev]. rewrite rev_involutive, strip_cr_app_cr. f_equal. now apply IH.
    + rewrite (pieces_noLF_app l Hl), app_nil_r. cbn [app pieces].
      change (LF =? LF) with true. cbn iota. rewrite rev_involutive, strip_cr_id by now apply Hc.
      f_equal. now apply IH.
Qed.

Theorem lines_exact ls tail chunks : wf_lines ls -> noLF tail ->
  concat chunks = join_lines ls tail ->
  run [] chunks = (map fst ls, tail).
Proof.
  intros W T E. rewrite lines_segmentation, E, (pieces_join ls tail W T).
  rewrite removelast_last, last_last. reflexivity.
Qed.

(* ---- server mode: sockets do not interfere ---- *)
Definition proj (k : nat) (evs : list (nat * list N)) : list (list N) :=
  map snd (filter (fun e => Nat.eqb (fst e) k) evs).
Definition projl (k : nat) (out : list (nat * list N)) : list (list N) :=
  map snd (filter (fun e => Nat.eqb (fst e) k) out).

Lemma filter_map_same k (ls : list (list N)) :
  filter (fun e : nat * list N => Nat.eqb (fst e) k) (map (fun l => (k, l)) ls) = map (fun l => (k, l)) ls.
Proof. induction ls as [|l r IH]; [reflexivity|]. cbn. rewrite Nat.eqb_refl. now rewrite IH. Qed.
Lemma filter_map_other k j (ls : list (list N)) : j <> k ->
  filter (fun e : nat * list N => Nat.eqb (fst e) k) (map (fun l => (j, l)) ls) = [].
Proof. intros H. induction ls as [|l r IH]; [reflexivity|]. cbn.
  destruct (Nat.eqb_spec j k); [contradiction|exact IH]. Qed.

Lemma run_srv_proj k evs : forall m,
  (projl k (fst (run_srv m evs)), snd (run_srv m evs) k) = run (m k) (proj k evs).
Proof.
  induction evs as [|[j d] r IH]; intros m; [reflexivity|].
  cbn [run_srv]. unfold feed_srv.
  destruct (split_lines d (m j)) as [ls b] eqn:S.
  specialize (IH (upd m j b)).
  destruct (run_srv (upd m j b) r) as [ls' m2] eqn:R.
  cbn [fst snd] in *.
  unfold projl, proj in *. cbn [filter fst]. rewrite filter_app, map_app.
  destruct (Nat.eqb_spec j k) as [->|NE].
  - rewrite filter_map_same, map_map. cbn [snd map run]. unfold feed. rewrite S.
    unfold upd in IH at 1. rewrite Nat.eqb_refl in IH.
    rewrite <- IH. rewrite map_id. reflexivity.
  - rewrite (filter_map_other k j ls NE). cbn [map app].
    unfold upd in IH at 1. destruct (Nat.eqb_spec k j); [congruence|]. exact IH.
Qed.

Theorem server_isolation k evs :
  (projl k (fst (run_srv empty_bufs evs)), snd (run_srv empty_bufs evs) k) = run [] (proj k evs).
Proof. apply (run_srv_proj k evs empty_bufs). Qed.
