(* Proofs about Model/Effects.v: one inductive invariant [Inv] of the transition system
   [step], established for [start roots] and preserved by every micro-operation of the
   dispatcher, of the cause-chain walk and of a task step; the C05 theorems are corollaries. *)
From Coq Require Import List ZArith Bool Arith Lia.
From Circ Require Import Model.Effects.
Import ListNotations.

(* ------------------------------------------------------------------ small tools *)

Lemma upd_eq : forall A (f : nat -> A) i v, upd f i v i = v.
Proof. intros. unfold upd. rewrite Nat.eqb_refl. reflexivity. Qed.
Lemma upd_neq : forall A (f : nat -> A) i v j, j <> i -> upd f i v j = f j.
Proof. intros. unfold upd. destruct (Nat.eqb_spec j i); congruence. Qed.

Ltac upd_tac :=
  repeat match goal with
  | H : context [upd _ ?i _ ?i] |- _ => rewrite upd_eq in H
  | |- context [upd _ ?i _ ?i] => rewrite upd_eq
  | H : context [upd _ ?i _ ?j] |- _ => rewrite upd_neq in H by lia
  | |- context [upd _ ?i _ ?j] => rewrite upd_neq by lia
  end.

Ltac updcase j i := unfold upd in *; destruct (Nat.eqb_spec j i); subst; simpl in *.

Lemma cnt_ext : forall f g n, (forall i, i < n -> f i = g i) -> cnt f n = cnt g n.
Proof.
  induction n as [|n IH]; intros H; simpl; [reflexivity|].
  rewrite IH by (intros; apply H; lia). rewrite (H n) by lia. reflexivity.
Qed.

Lemma cnt_zero : forall f n, (forall i, i < n -> f i = false) -> cnt f n = 0.
Proof.
  induction n as [|n IH]; intros H; simpl; [reflexivity|].
  rewrite IH by (intros; apply H; lia). rewrite (H n) by lia. reflexivity.
Qed.

Lemma cnt_zero_inv : forall f n, cnt f n = 0 -> forall i, i < n -> f i = false.
Proof.
  induction n as [|n IH]; intros H i Hi; [lia|]. simpl in H.
  destruct (f n) eqn:E; [lia|].
  destruct (Nat.eq_dec i n); [subst; exact E|]. apply IH; lia.
Qed.

Lemma cnt_pos_ex : forall f n, 0 < cnt f n -> exists i, i < n /\ f i = true.
Proof.
  induction n as [|n IH]; simpl; intros H; [lia|].
  destruct (f n) eqn:E; [exists n; split; [lia|exact E]|].
  destruct IH as [i [Hi Hf]]; [lia|]. exists i; split; [lia|exact Hf].
Qed.

(* g differs from f exactly at j, where f is true and g false *)
Lemma cnt_drop : forall f g n j, j < n -> f j = true -> g j = false ->
  (forall i, i < n -> i <> j -> g i = f i) -> S (cnt g n) = cnt f n.
Proof.
  induction n as [|n IH]; intros j Hj Hf Hg H; [lia|]. simpl.
  destruct (Nat.eq_dec j n) as [->|Hne].
  - rewrite Hf, Hg. rewrite (cnt_ext g f n) by (intros; apply H; lia). lia.
  - rewrite (H n) by lia. rewrite <- (IH j) by (auto; try lia; intros; apply H; lia). lia.
Qed.

(* number of tasks of event e *)
Fixpoint tcount (e : nat) (ts : list task) : nat :=
  match ts with [] => 0 | t :: r => (if Nat.eqb (tev t) e then 1 else 0) + tcount e r end.

Lemma tcount_app : forall e a b, tcount e (a ++ b) = tcount e a + tcount e b.
Proof. induction a; simpl; intros; [reflexivity|]. rewrite IHa. lia. Qed.

Lemma tcount_zero : forall e ts, tcount e ts = 0 -> forall t, In t ts -> tev t <> e.
Proof.
  induction ts as [|a r IH]; simpl; intros H t Ht; [contradiction|].
  destruct (Nat.eqb_spec (tev a) e); [lia|]. destruct Ht as [<-|Ht]; [assumption|]. apply IH; [lia|assumption].
Qed.

Lemma tcount_in : forall e ts t, In t ts -> tev t = e -> 0 < tcount e ts.
Proof.
  induction ts as [|a r IH]; simpl; intros t Ht He; [contradiction|].
  destruct Ht as [->|Ht]; [rewrite He, Nat.eqb_refl; lia|]. specialize (IH t Ht He). lia.
Qed.

Lemma tcount_remove : forall e ts p t, nth_error ts p = Some t ->
  tcount e ts = (if Nat.eqb (tev t) e then 1 else 0) + tcount e (remove_nth p ts).
Proof.
  induction ts as [|a r IH]; intros [|p] t H; simpl in *; try discriminate.
  - inversion H; subst. reflexivity.
  - rewrite (IH p t H). lia.
Qed.

Lemma tcount_replace : forall e ts p t t', nth_error ts p = Some t -> tev t' = tev t ->
  tcount e (replace_nth p t' ts) = tcount e ts.
Proof.
  induction ts as [|a r IH]; intros [|p] t t' H He; simpl in *; try discriminate.
  - inversion H; subst. rewrite He. reflexivity.
  - rewrite (IH p t t' H He). reflexivity.
Qed.

Lemma in_remove_nth : forall A (l : list A) p x, In x (remove_nth p l) -> In x l.
Proof.
  induction l as [|a r IH]; intros [|p] x H; simpl in *; auto.
  destruct H as [->|H]; [left; reflexivity|right; eapply IH; exact H].
Qed.

Lemma in_replace_nth : forall A (l : list A) p v x, In x (replace_nth p v l) -> x = v \/ In x l.
Proof.
  induction l as [|a r IH]; intros [|p] v x H; simpl in *; auto.
  - destruct H as [->|H]; auto.
  - destruct H as [->|H]; auto. destruct (IH p v x H); auto.
Qed.

Lemma fc_count_notin : forall e l, ~ In (LFC e) l -> fc_count e l = 0.
Proof.
  induction l as [|a r IH]; simpl; intros H; [reflexivity|].
  destruct a; try (apply IH; tauto).
  destruct (Nat.eqb_spec e0 e); [subst; exfalso; apply H; left; reflexivity|]. simpl. apply IH; tauto.
Qed.

(* gdesc only looks at allocated ids *)
Lemma gdesc_stable : forall (g g' : nat -> option nat) n,
  (forall d h, g d = Some h -> d < n /\ h < d) ->
  (forall d, d < n -> g' d = g d) ->
  forall a d, d < n -> gdesc g' a d -> gdesc g a d.
Proof.
  intros g g' n Hlt Hsame a d Hd H. induction H as [|d h Hg Hd' IH]; [constructor|].
  rewrite Hsame in Hg by assumption. destruct (Hlt _ _ Hg) as [_ Hh].
  eapply gd_step; [exact Hg|]. apply IH. lia.
Qed.

Lemma cnt_childb_upd : forall ca d v e n, n <= d ->
  cnt (childb (upd ca d v) e) n = cnt (childb ca e) n.
Proof.
  intros. apply cnt_ext. intros i Hi. unfold childb. rewrite upd_neq by lia. reflexivity.
Qed.

Definition opt_is (x : option nat) (e : nat) : bool :=
  match x with Some y => Nat.eqb y e | None => false end.

(* ------------------------------------------------------------------ the invariant
   x   : the event (if any) whose effects counter is one too high because the cause-chain walk
         is about to decrement it;
   cur : the event (if any) whose handlers are being run (dispatch or task step in progress) *)
Record Inv (x cur : option nat) (s : st) : Prop := {
  i_cause_lt : forall d c, cause s d = Some c -> d < next s /\ c <= d;
  i_cause_live : forall d c, cause s d = Some c -> c <> d -> cause s c <> None;
  i_count : forall e, cause s e <> None ->
      effects s e = Z.of_nat (selfc (phase s) e + cnt (childb (cause s) e) (next s) + (if opt_is x e then 1 else 0));
  i_pos : forall e, cause s e <> None -> (1 <= effects s e)%Z;
  i_gpar_lt : forall d h, gpar s d = Some h -> d < next s /\ h < d;
  i_gpar_phase : forall d h, gpar s d = Some h -> phase s h <> PQueued;
  i_trk_live : forall e, cause s e <> None -> trk s e = true;
  i_trk_alloc : forall e, trk s e = true -> e < next s;
  i_rel_fin : forall e, trk s e = true -> cause s e = None -> phase s e = PFin;
  i_trk_kids : forall d h, gpar s d = Some h -> trk s h = true -> trk s d = true;
  i_cause_shape : forall d c, cause s d = Some c -> c <> d -> gpar s d = Some c;
  i_self_cause : forall d h, cause s d = Some d -> gpar s d = Some h -> trk s h = false;
  i_compl : forall e, e < next s -> ev_canc (spec s e) = false -> compl s e = ev_compl (spec s e);
  i_disp_trk : forall e, e < next s -> phase s e <> PQueued -> ev_canc (spec s e) = false ->
      ev_compl (spec s e) = true -> trk s e = true;
  i_q : forall e, In e (queue s) -> e < next s /\ phase s e = PQueued;
  i_q_nodup : NoDup (queue s);
  i_qd : forall e, e < next s -> phase s e = PQueued -> In e (queue s);
  i_task : forall t, In t (tasks s) -> tev t < next s /\ phase s (tev t) = PActive;
  i_wait : forall e, waiting s e = tcount e (tasks s);
  i_active : forall e, phase s e = PActive -> cur = Some e \/ 0 < waiting s e;
  i_cur : forall e, cur = Some e -> e < next s /\ phase s e = PActive;
  i_fc : forall e, In (LFC e) (log s) -> trk s e = true /\ cause s e = None;
  i_fc_conv : forall e, trk s e = true -> cause s e = None -> ev_canc (spec s e) = false ->
      ev_compl (spec s e) = true -> In (LFC e) (log s);
  i_fc_once : forall e, fc_count e (log s) <= 1;
  i_log_alloc : forall y d, In y (log s) -> hentry y d -> d < next s;
  i_order : forall l1 l2 e y d, log s = l2 ++ LFC e :: l1 -> In y l2 -> hentry y d ->
      ~ gdesc (gpar s) e d;
  i_oof : oof s = false
}.

Lemma inv_init : Inv None None init.
Proof.
  constructor; simpl; intros; try discriminate; try contradiction; try congruence; try lia.
  - constructor.
  - destruct l2; discriminate.
Qed.

(* derived: once <e>_complete has been fired, the whole closure of e has finished *)
Lemma closure_released : forall x cur s, Inv x cur s ->
  forall e d, trk s e = true -> cause s e = None -> gdesc (gpar s) e d ->
  trk s d = true /\ cause s d = None.
Proof.
  intros x cur s I e d Ht Hc H. induction H as [|d h Hg _ IH]; [auto|].
  destruct IH as [Hth Hch].
  assert (Htd : trk s d = true) by (eapply i_trk_kids; eauto).
  split; [exact Htd|].
  destruct (cause s d) as [c|] eqn:Ec; [exfalso|reflexivity].
  destruct (Nat.eq_dec c d) as [->|Hne].
  - pose proof (i_self_cause _ _ _ I _ _ Ec Hg). congruence.
  - pose proof (i_cause_shape _ _ _ I _ _ Ec Hne) as Hg'. rewrite Hg in Hg'. inversion Hg'; subst.
    apply (i_cause_live _ _ _ I _ _ Ec Hne). exact Hch.
Qed.

Lemma closure_fin : forall x cur s, Inv x cur s ->
  forall e d, In (LFC e) (log s) -> gdesc (gpar s) e d -> phase s d = PFin.
Proof.
  intros x cur s I e d Hfc Hd. destruct (i_fc _ _ _ I _ Hfc) as [Ht Hc].
  destruct (closure_released _ _ _ I _ _ Ht Hc Hd) as [Htd Hcd].
  eapply i_rel_fin; eauto.
Qed.

(* ------------------------------------------------------------------ logging a non-complete entry *)
Lemma inv_add_log : forall x cur s y, Inv x cur s ->
  (forall e, y <> LFC e) -> (forall d, hentry y d -> d < next s /\ phase s d <> PFin) ->
  Inv x cur (add_log y s).
Proof.
  intros x cur s y I Hn Hh.
  constructor; simpl; try (destruct I; assumption).
  - intros e [He|He]; [exfalso; eapply Hn; eauto|]. eapply i_fc; eauto.
  - intros. right. eapply i_fc_conv; eauto.
  - intros e. pose proof (i_fc_once _ _ _ I e). destruct y; simpl; auto. exfalso; eapply Hn; eauto.
  - intros y' d [<-|Hy] Hd; [|eapply i_log_alloc; eauto].
    apply Hh in Hd. tauto.
  - intros l1 l2 e y' d Hl Hy Hd Hg. destruct l2 as [|z l2]; simpl in Hl.
    + inversion Hl. eapply Hn; eauto.
    + inversion Hl; subst z. destruct Hy as [<-|Hy].
      * apply Hh in Hd. destruct Hd as [_ Hp].
        assert (In (LFC e) (log s)) by (rewrite H1; apply in_or_app; right; left; reflexivity).
        pose proof (closure_fin _ _ _ I _ _ H Hg). congruence.
      * eapply i_order; eauto.
Qed.

Lemma fire_add_log : forall h k sp y s, fire h k sp (add_log y s) = add_log y (fire h k sp s).
Proof.
  intros. destruct h as [h|]; unfold fire, link; simpl; [|reflexivity].
  destruct (upd (cause s) (next s) None h); reflexivity.
Qed.
