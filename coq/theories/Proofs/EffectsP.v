(* Proofs about Model/Effects.v: one inductive invariant [Inv] of the transition system
   [step], established for [start roots] and preserved by every micro-operation of the
   dispatcher, of the cause-chain walk and of a task step; the C05 theorems are corollaries. *)
From Coq Require Import List ZArith Bool Arith Lia.
From Circ Require Import Model.Effects.
Import ListNotations.

(* ------------------------------------------------------------------ small tools *)

Lemma upd_eq : forall A (f : nat -> A) i v, upd f i v i = v.
Proof. intros. unfold upd. rewrite Nat.eqb_refl. reflexivity. Qed.
Lemma upd_neq : forall A (f : nat -> A) i v j, j <> i -> upd f i v j = f j.
Proof. intros. unfold upd. destruct (Nat.eqb_spec j i); congruence. Qed.

Ltac upd_tac :=
  repeat match goal with
  | H : context [upd _ ?i _ ?i] |- _ => rewrite upd_eq in H
  | |- context [upd _ ?i _ ?i] => rewrite upd_eq
  | H : context [upd _ ?i _ ?j] |- _ => rewrite upd_neq in H by lia
  | |- context [upd _ ?i _ ?j] => rewrite upd_neq by lia
  end.

Ltac updcase j i := unfold upd in *; destruct (Nat.eqb_spec j i); subst; simpl in *.

Lemma cnt_ext : forall f g n, (forall i, i < n -> f i = g i) -> cnt f n = cnt g n.
Proof.
  induction n as [|n IH]; intros H; simpl; [reflexivity|].
  rewrite IH by (intros; apply H; lia). rewrite (H n) by lia. reflexivity.
Qed.

Lemma cnt_zero : forall f n, (forall i, i < n -> f i = false) -> cnt f n = 0.
Proof.
  induction n as [|n IH]; intros H; simpl; [reflexivity|].
  rewrite IH by (intros; apply H; lia). rewrite (H n) by lia. reflexivity.
Qed.

Lemma cnt_zero_inv : forall f n, cnt f n = 0 -> forall i, i < n -> f i = false.
Proof.
  induction n as [|n IH]; intros H i Hi; [lia|]. simpl in H.
  destruct (f n) eqn:E; [lia|].
  destruct (Nat.eq_dec i n); [subst; exact E|]. apply IH; lia.
Qed.

Lemma cnt_pos_ex : forall f n, 0 < cnt f n -> exists i, i < n /\ f i = true.
Proof.
  induction n as [|n IH]; simpl; intros H; [lia|].
  destruct (f n) eqn:E; [exists n; split; [lia|exact E]|].
  destruct IH as [i [Hi Hf]]; [lia|]. exists i; split; [lia|exact Hf].
Qed.

(* g differs from f exactly at j, where f is true and g false *)
Lemma cnt_drop : forall f g n j, j < n -> f j = true -> g j = false ->
  (forall i, i < n -> i <> j -> g i = f i) -> S (cnt g n) = cnt f n.
Proof.
  induction n as [|n IH]; intros j Hj Hf Hg H; [lia|]. simpl.
  destruct (Nat.eq_dec j n) as [->|Hne].
  - rewrite Hf, Hg. rewrite (cnt_ext g f n) by (intros; apply H; lia). lia.
  - rewrite (H n) by lia. rewrite <- (IH j) by (auto; try lia; intros; apply H; lia). lia.
Qed.

(* waitingHandlers units held by a task: a call in progress counts for the suspended handler
   and for the call *)
Definition tw (t : task) : nat := match tmode t with TResume => 2 | _ => 1 end.
Fixpoint tload (e : nat) (ts : list task) : nat :=
  match ts with [] => 0 | t :: r => (if Nat.eqb (tev t) e then tw t else 0) + tload e r end.

Lemma tw_pos : forall t, 1 <= tw t.
Proof. intros t. unfold tw. destruct (tmode t); lia. Qed.

Lemma tload_app : forall e a b, tload e (a ++ b) = tload e a + tload e b.
Proof. induction a; simpl; intros; [reflexivity|]. rewrite IHa. lia. Qed.

Lemma tload_zero : forall e ts, tload e ts = 0 -> forall t, In t ts -> tev t <> e.
Proof.
  induction ts as [|a r IH]; simpl; intros H t Ht; [contradiction|].
  destruct (Nat.eqb_spec (tev a) e); [pose proof (tw_pos a); lia|].
  destruct Ht as [<-|Ht]; [assumption|]. apply IH; [lia|assumption].
Qed.

Lemma tload_in : forall e ts t, In t ts -> tev t = e -> tw t <= tload e ts.
Proof.
  induction ts as [|a r IH]; simpl; intros t Ht He; [contradiction|].
  destruct Ht as [->|Ht]; [rewrite He, Nat.eqb_refl; lia|]. specialize (IH t Ht He). lia.
Qed.

Lemma tload_remove : forall e ts p t, nth_error ts p = Some t ->
  tload e ts = (if Nat.eqb (tev t) e then tw t else 0) + tload e (remove_nth p ts).
Proof.
  induction ts as [|a r IH]; intros [|p] t H; simpl in *; try discriminate.
  - inversion H; subst. reflexivity.
  - rewrite (IH p t H). lia.
Qed.

Lemma tload_replace : forall e ts p t t', nth_error ts p = Some t ->
  tload e (replace_nth p t' ts) + (if Nat.eqb (tev t) e then tw t else 0) =
  tload e ts + (if Nat.eqb (tev t') e then tw t' else 0).
Proof.
  induction ts as [|a r IH]; intros [|p] t t' H; simpl in *; try discriminate.
  - inversion H; subst. lia.
  - pose proof (IH p t t' H). lia.
Qed.

Lemma tload_filter : forall e (f : waiter -> bool) ws,
  tload e (map wtask (filter f ws)) + tload e (map wtask (filter (fun w => negb (f w)) ws)) =
  tload e (map wtask ws).
Proof.
  induction ws as [|w r IH]; simpl; [reflexivity|]. destruct (f w); simpl; lia.
Qed.

Lemma in_remove_nth : forall A (l : list A) p x, In x (remove_nth p l) -> In x l.
Proof.
  induction l as [|a r IH]; intros [|p] x H; simpl in *; auto.
  destruct H as [->|H]; [left; reflexivity|right; eapply IH; exact H].
Qed.

Lemma in_replace_nth : forall A (l : list A) p v x, In x (replace_nth p v l) -> x = v \/ In x l.
Proof.
  induction l as [|a r IH]; intros [|p] v x H; simpl in *; auto.
  - destruct H as [->|H]; auto.
  - destruct H as [->|H]; auto. destruct (IH p v x H); auto.
Qed.

Lemma fc_count_notin : forall e l, ~ In (LFC e) l -> fc_count e l = 0.
Proof.
  induction l as [|a r IH]; simpl; intros H; [reflexivity|].
  destruct a; try (apply IH; tauto).
  destruct (Nat.eqb_spec e0 e); [subst; exfalso; apply H; left; reflexivity|]. simpl. apply IH; tauto.
Qed.

(* gdesc only looks at allocated ids *)
Lemma gdesc_stable : forall (g g' : nat -> option nat) n,
  (forall d h, g d = Some h -> d < n /\ h < d) ->
  (forall d, d < n -> g' d = g d) ->
  forall a d, d < n -> gdesc g' a d -> gdesc g a d.
Proof.
  intros g g' n Hlt Hsame a d Hd H. induction H as [|d h Hg Hd' IH]; [constructor|].
  rewrite Hsame in Hg by assumption. destruct (Hlt _ _ Hg) as [_ Hh].
  eapply gd_step; [exact Hg|]. apply IH. lia.
Qed.

Lemma cnt_childb_upd : forall ca d v e n, n <= d ->
  cnt (childb (upd ca d v) e) n = cnt (childb ca e) n.
Proof.
  intros. apply cnt_ext. intros i Hi. unfold childb. rewrite upd_neq by lia. reflexivity.
Qed.

(* where the cause-chain walk stands:
   MDec e : the counter of e is one too high (about to be decremented)
   MRel e : e has just been decremented to 0 and is about to lose its cause attribute
   MLog e : same, and <e>_complete has already been fired *)
Inductive mark := MNone | MDec (e : nat) | MRel (e : nat) | MLog (e : nat).
Definition is_dec (m : mark) (e : nat) : bool :=
  match m with MDec y => Nat.eqb y e | _ => false end.

(* ------------------------------------------------------------------ the invariant
   m   : where the cause-chain walk stands (see [mark]); MNone between walks;
   cur : the event (if any) whose handlers are being run (dispatch or task step in progress) *)
Record Inv (m : mark) (cur : option nat) (s : st) : Prop := {
  i_cause_lt : forall d c, cause s d = Some c -> d < next s /\ c <= d;
  i_cause_live : forall d c, cause s d = Some c -> c <> d -> cause s c <> None;
  i_count : forall e, cause s e <> None ->
      effects s e = Z.of_nat (selfc (phase s) e + cnt (childb (cause s) e) (next s) + (if is_dec m e then 1 else 0));
  i_pos : forall e, cause s e <> None -> (1 <= effects s e)%Z \/ m = MRel e \/ m = MLog e;
  i_rel0 : forall e, m = MRel e \/ m = MLog e -> e < next s /\ effects s e = 0%Z;
  i_logged : forall e, m = MLog e -> In (LFC e) (log s);
  i_gpar_lt : forall d h, gpar s d = Some h -> d < next s /\ h < d;
  i_gpar_phase : forall d h, gpar s d = Some h -> phase s h <> PQueued;
  i_trk_live : forall e, cause s e <> None -> trk s e = true;
  i_trk_alloc : forall e, trk s e = true -> e < next s;
  i_rel_fin : forall e, trk s e = true -> cause s e = None -> phase s e = PFin;
  i_trk_kids : forall d h, gpar s d = Some h -> trk s h = true -> trk s d = true;
  i_cause_shape : forall d c, cause s d = Some c -> c <> d -> gpar s d = Some c;
  i_self_cause : forall d h, cause s d = Some d -> gpar s d = Some h -> trk s h = false;
  i_compl : forall e, e < next s -> ev_canc (spec s e) = false -> compl s e = ev_compl (spec s e);
  i_disp_trk : forall e, e < next s -> phase s e <> PQueued -> ev_canc (spec s e) = false ->
      ev_compl (spec s e) = true -> trk s e = true;
  i_q : forall e, In e (queue s) -> e < next s /\ phase s e = PQueued;
  i_q_nodup : NoDup (queue s);
  i_qd : forall e, e < next s -> phase s e = PQueued -> In e (queue s);
  i_task : forall t, In t (tasks s) -> tev t < next s /\ phase s (tev t) = PActive;
  i_waiter : forall w, In w (waiters s) -> tev (wtask w) < next s /\ phase s (tev (wtask w)) = PActive;
  i_wait : forall e, waiting s e = tload e (tasks s) + tload e (map wtask (waiters s));
  i_active : forall e, phase s e = PActive -> cur = Some e \/ 0 < waiting s e;
  i_cur : forall e, cur = Some e -> e < next s /\ phase s e = PActive;
  i_fc : forall e, In (LFC e) (log s) -> trk s e = true /\ (cause s e = None \/ m = MLog e);
  i_fc_conv : forall e, trk s e = true -> cause s e = None -> ev_canc (spec s e) = false ->
      ev_compl (spec s e) = true -> In (LFC e) (log s);
  i_fc_once : forall e, fc_count e (log s) <= 1;
  i_log_alloc : forall y d, In y (log s) -> hentry y d -> d < next s;
  i_order : forall l1 l2 e y d, log s = l2 ++ LFC e :: l1 -> In y l2 -> hentry y d ->
      ~ gdesc (gpar s) e d;
  i_oof : oof s = false
}.

Lemma inv_init : Inv MNone None init.
Proof.
  constructor; simpl; intros; try discriminate; try contradiction; try congruence; try lia.
  - destruct H; discriminate.
  - constructor.
  - destruct l2; discriminate.
Qed.

(* derived: once <e>_complete has been fired, the whole closure of e has finished *)
Lemma closure_released : forall m cur s, Inv m cur s ->
  forall e d, trk s e = true -> cause s e = None -> gdesc (gpar s) e d ->
  trk s d = true /\ cause s d = None.
Proof.
  intros m cur s I e d Ht Hc H. induction H as [|d h Hg _ IH]; [auto|].
  destruct IH as [Hth Hch].
  assert (Htd : trk s d = true) by (eapply i_trk_kids; eauto).
  split; [exact Htd|].
  destruct (cause s d) as [c|] eqn:Ec; [exfalso|reflexivity].
  destruct (Nat.eq_dec c d) as [->|Hne].
  - pose proof (i_self_cause _ _ _ I _ _ Ec Hg). congruence.
  - pose proof (i_cause_shape _ _ _ I _ _ Ec Hne) as Hg'. rewrite Hg in Hg'. inversion Hg'; subst.
    apply (i_cause_live _ _ _ I _ _ Ec Hne). exact Hch.
Qed.

Lemma closure_fin : forall cur s, Inv MNone cur s ->
  forall e d, In (LFC e) (log s) -> gdesc (gpar s) e d -> phase s d = PFin.
Proof.
  intros cur s I e d Hfc Hd. destruct (i_fc _ _ _ I _ Hfc) as [Ht [Hc|Hc]]; [|discriminate].
  destruct (closure_released _ _ _ I _ _ Ht Hc Hd) as [Htd Hcd].
  eapply i_rel_fin; eauto.
Qed.

(* ------------------------------------------------------------------ logging a non-complete entry *)
Lemma inv_add_log : forall cur s y, Inv MNone cur s ->
  (forall e, y <> LFC e) -> (forall d, hentry y d -> d < next s /\ phase s d <> PFin) ->
  Inv MNone cur (add_log y s).
Proof.
  intros cur s y I Hn Hh.
  constructor; simpl; try (destruct I; assumption).
  - intros; discriminate.
  - intros e [He|He]; [exfalso; eapply Hn; eauto|]. eapply i_fc; eauto.
  - intros. right. eapply i_fc_conv; eauto.
  - intros e. pose proof (i_fc_once _ _ _ I e). destruct y; simpl; auto. exfalso; eapply Hn; eauto.
  - intros y' d [<-|Hy] Hd; [|eapply i_log_alloc; eauto].
    apply Hh in Hd. tauto.
  - intros l1 l2 e y' d Hl Hy Hd Hg. destruct l2 as [|z l2]; simpl in Hl.
    + inversion Hl. eapply Hn; eauto.
    + inversion Hl; subst z. destruct Hy as [<-|Hy].
      * apply Hh in Hd. destruct Hd as [_ Hp].
        assert (In (LFC e) (log s)) by (rewrite H1; apply in_or_app; right; left; reflexivity).
        pose proof (closure_fin _ _ I _ _ H Hg). congruence.
      * eapply i_order; eauto.
Qed.

Lemma fire_add_log : forall h k sp y s, fire h k sp (add_log y s) = add_log y (fire h k sp s).
Proof.
  intros. destruct h as [h|]; unfold fire, fire_g, link; simpl; [|reflexivity].
  destruct (upd (cause s) (next s) None h); reflexivity.
Qed.

(* ------------------------------------------------------------------ automation *)

Ltac brk := repeat match goal with
  | H : context [Nat.eqb ?a ?b] |- _ => destruct (Nat.eqb_spec a b)
  | |- context [Nat.eqb ?a ?b] => destruct (Nat.eqb_spec a b)
  end.

Ltac sat I := repeat match goal with
  | H : cause ?s ?e = Some ?c |- _ =>
      lazymatch goal with _ : e < next s /\ c <= e |- _ => fail | _ => pose proof (i_cause_lt _ _ _ I _ _ H) end
  | H : gpar ?s ?e = Some ?h |- _ =>
      lazymatch goal with _ : e < next s /\ h < e |- _ => fail | _ => pose proof (i_gpar_lt _ _ _ I _ _ H) end
  | H : trk ?s ?e = true |- _ =>
      lazymatch goal with _ : e < next s |- _ => fail | _ => pose proof (i_trk_alloc _ _ _ I _ H) end
  | H : In ?e (queue ?s) |- _ =>
      lazymatch goal with _ : e < next s /\ phase s e = PQueued |- _ => fail | _ => pose proof (i_q _ _ _ I _ H) end
  | H : In ?t (tasks ?s) |- _ =>
      lazymatch goal with _ : tev t < next s /\ _ |- _ => fail | _ => pose proof (i_task _ _ _ I _ H) end
  end.

Ltac fin I := subst; simpl in *; try discriminate; try congruence;
  try solve [match goal with H : _ = _ \/ _ = _ |- _ => destruct H; discriminate end];
  sat I; try lia; try (split; lia);
  try solve [ eauto using i_cause_live, i_pos, i_gpar_phase, i_trk_live, i_rel_fin, i_trk_kids,
     i_cause_shape, i_self_cause, i_compl, i_disp_trk, i_qd, i_fc_conv, i_log_alloc
    | eapply i_cause_live; eauto | eapply i_pos; eauto | eapply i_gpar_phase; eauto | eapply i_trk_live; eauto
    | eapply i_rel_fin; eauto | eapply i_trk_kids; eauto | eapply i_cause_shape; eauto | eapply i_self_cause; eauto
    | eapply i_compl; eauto | eapply i_disp_trk; eauto | eapply i_q; eauto | eapply i_qd; eauto | eapply i_task; eauto
    | eapply i_wait; eauto | eapply i_active; eauto | eapply i_cur; eauto | eapply i_fc; eauto | eapply i_fc_conv; eauto
    | eapply i_fc_once; eauto | eapply i_log_alloc; eauto | eapply i_oof; eauto | eapply i_q_nodup; eauto ].

Lemma NoDup_snoc : forall A (l : list A) a, NoDup l -> ~ In a l -> NoDup (l ++ [a]).
Proof.
  induction l as [|b r IH]; simpl; intros a Hn Hi.
  - constructor; [intros []|constructor].
  - inversion Hn; subst. constructor.
    + intro H. apply in_app_or in H. destruct H as [H|[H|[]]]; [contradiction|]. subst. apply Hi. left; reflexivity.
    + apply IH; [assumption|]. intro. apply Hi. right; assumption.
Qed.

Lemma tload_fresh : forall n ts, (forall t, In t ts -> tev t < n) -> tload n ts = 0.
Proof.
  induction ts as [|a r IH]; simpl; intros H; [reflexivity|].
  destruct (Nat.eqb_spec (tev a) n) as [E|E].
  - specialize (H a (or_introl eq_refl)). lia.
  - apply IH. intros. apply H. right; assumption.
Qed.

Lemma order_alloc : forall m cur s gp, Inv m cur s ->
  forall l1 l2 e y d, log s = l2 ++ LFC e :: l1 -> In y l2 -> hentry y d ->
  ~ gdesc (upd (gpar s) (next s) gp) e d.
Proof.
  intros m cur s gp I l1 l2 e y d H H0 H1 G.
  assert (H2 : In y (log s)) by (rewrite H; apply in_or_app; left; assumption).
  pose proof (i_log_alloc _ _ _ I y d H2 H1) as A.
  eapply (i_order _ _ _ I); eauto.
  refine (gdesc_stable (gpar s) _ (next s) (i_gpar_lt _ _ _ I) _ e d A G).
  intros j Hj. rewrite upd_neq by lia. reflexivity.
Qed.

Lemma load_fresh : forall m cur s, Inv m cur s ->
  tload (next s) (tasks s) + tload (next s) (map wtask (waiters s)) = 0.
Proof.
  intros m cur s I. rewrite !tload_fresh; [reflexivity| |].
  - intros t Ht. apply in_map_iff in Ht. destruct Ht as [w [<- Ht]]. apply (i_waiter _ _ _ I _ Ht).
  - intros t Ht. apply (i_task _ _ _ I _ Ht).
Qed.

Ltac qgoals I :=
  match goal with
  | H : In _ (_ ++ [_]) |- _ /\ _ =>
      apply in_app_or in H; destruct H as [H|[H|[]]]; [|congruence];
      destruct (i_q _ _ _ I _ H); split; [lia|assumption]
  | |- NoDup (_ ++ [_]) =>
      apply NoDup_snoc; [apply (i_q_nodup _ _ _ I)|];
      let H := fresh in intro H; apply (i_q _ _ _ I) in H; lia
  | |- In _ (_ ++ [_]) =>
      apply in_or_app;
      first [ right; left; solve [auto | congruence] | left; apply (i_qd _ _ _ I); [lia|assumption] ]
  | H : In ?t (tasks _) |- tev ?t < _ /\ _ => destruct (i_task _ _ _ I _ H); split; [lia|assumption]
  | |- 0 = tload _ _ + tload _ _ => symmetry; subst; apply (load_fresh _ _ _ I)
  | H : In ?w (waiters _) |- _ =>
      destruct (i_waiter _ _ _ I _ H); first [lia | split; [lia|assumption]]
  | H : In (LFC _) (log _) |- _ =>
      let A := fresh in destruct (i_fc _ _ _ I _ H) as [A _]; apply (i_trk_alloc _ _ _ I) in A; lia
  | H : In ?y (log _), H0 : hentry ?y ?d |- ?d < _ => pose proof (i_log_alloc _ _ _ I _ _ H H0); lia
  | |- ~ gdesc _ _ _ => eapply (order_alloc _ _ _ _ I); eassumption
  end.

Lemma inv_alloc : forall m cur s k sp gp, Inv m cur s ->
  (forall h, gp = Some h -> cur = Some h /\ cause s h = None) ->
  Inv m cur (alloc k sp gp s).
Proof.
  intros m cur s k sp gp I Hgp.
  assert (Hgp' : forall h, gp = Some h -> h < next s /\ phase s h = PActive /\ cause s h = None /\ trk s h = false).
  { intros h E. destruct (Hgp h E) as [Hc Hca]. destruct (i_cur _ _ _ I h Hc) as [A B].
    repeat split; auto. destruct (trk s h) eqn:T; auto.
    pose proof (i_rel_fin _ _ _ I h T Hca). congruence. }
  constructor; simpl.
  3: { intros e H. assert (e <> next s) by (intro; subst; rewrite upd_eq in H; congruence).
       rewrite upd_neq in H by assumption. rewrite upd_neq by assumption.
       rewrite cnt_childb_upd by lia. unfold childb at 2. rewrite upd_eq, andb_false_r.
       rewrite (i_count _ _ _ I e H). unfold selfc. rewrite upd_neq by assumption. lia. }
  all: intros; unfold upd in *; brk; try solve [fin I].
  all: try solve [ match goal with H : _ = Some _ |- _ => destruct (Hgp' _ H) as [? [? [? ?]]] end; fin I ].
  all: try solve [ subst; destruct (Hgp' _ eq_refl) as [? [? [? ?]]]; fin I ].
  all: try solve [ apply (i_compl _ _ _ I); [lia|assumption] | apply (i_disp_trk _ _ _ I); auto; lia].
  all: try solve [qgoals I].
  all: try solve [match goal with H : _ = MRel _ \/ _ |- _ =>
                    destruct (i_rel0 _ _ _ I _ H); first [lia | split; [lia|assumption]] end].
  all: try solve [eapply i_logged; eauto].
  - destruct (i_cur _ _ _ I _ H). lia.
  - destruct (i_cur _ _ _ I _ H). split; [lia|assumption].
Qed.


Lemma inv_fire_link : forall s h c k sp, Inv MNone (Some h) s -> cause s h = Some c ->
  Inv MNone (Some h) (fire (Some h) k sp s).
Proof.
  intros s h c k sp I Ech. unfold fire, fire_g, link.
  destruct (i_cur _ _ _ I h eq_refl) as [Hh Hph].
  assert (Hc : cause (alloc k sp (Some h) s) h = Some c) by (simpl; rewrite upd_neq by lia; exact Ech).
  rewrite Hc. 
  assert (Hth : trk s h = true) by (apply (i_trk_live _ _ _ I); congruence).
  constructor; simpl.
  3: { intros e H. rewrite !cnt_childb_upd by lia. unfold selfc, childb at 2. rewrite !upd_eq.
       destruct (Nat.eq_dec e (next s)) as [->|Hne].
       - rewrite upd_eq. rewrite (upd_neq _ _ h) by lia. rewrite upd_eq.
         rewrite Nat.eqb_refl. simpl.
         rewrite cnt_zero; [reflexivity|]. intros i Hi. unfold childb.
         destruct (cause s i) as [c'|] eqn:E; [|apply andb_false_r].
         apply (i_cause_lt _ _ _ I) in E. destruct (Nat.eqb_spec c' (next s)); [lia|apply andb_false_r].
       - rewrite !upd_neq in H by assumption.
         pose proof (i_count _ _ _ I e H) as Hc'. unfold selfc in Hc'. simpl in Hc'.
         rewrite (upd_neq _ (phase s)) by assumption.
         destruct (Nat.eqb_spec (next s) e); [congruence|]. simpl.
         destruct (Nat.eq_dec e h) as [->|Hneh].
         + rewrite upd_eq, Nat.eqb_refl. rewrite upd_neq by lia. rewrite Hc'. lia.
         + rewrite !upd_neq by (assumption || lia). destruct (Nat.eqb_spec h e); [congruence|]. rewrite Hc'. lia. }
  all: intros; unfold upd in *; brk; try solve [fin I].
  all: try solve [ match goal with H : Some _ = Some _ |- _ => inversion H; subst end; fin I ].
  all: try solve [ apply (i_compl _ _ _ I); [lia|assumption] | apply (i_disp_trk _ _ _ I); auto; lia].
  all: try solve [qgoals I].
  all: try solve [left; lia].
  all: match goal with H : cause _ ?e <> None |- _ =>
         destruct (i_pos _ _ _ I _ H) as [?|[?|?]]; try discriminate; left; subst; lia end.
Qed.

Lemma inv_fire : forall cur s k sp, Inv MNone cur s -> Inv MNone cur (fire cur k sp s).
Proof.
  intros cur s k sp I. destruct cur as [h|].
  - destruct (cause s h) as [c|] eqn:E.
    + eapply inv_fire_link; eauto.
    + unfold fire, fire_g, link. destruct (i_cur _ _ _ I h eq_refl) as [Hh _].
      assert (Hc : cause (alloc k sp (Some h) s) h = None) by (simpl; rewrite upd_neq by lia; exact E).
      rewrite Hc. apply inv_alloc; [assumption|]. intros h' Hh'. inversion Hh'; subst. auto.
  - unfold fire, fire_g. apply inv_alloc; [assumption|]. intros; discriminate.
Qed.

Lemma fire_next : forall h k sp s, next (fire h k sp s) = S (next s).
Proof. intros. destruct h as [h|]; unfold fire, fire_g, link; simpl; [|reflexivity]. destruct (upd (cause s) (next s) None h); reflexivity. Qed.
Lemma fire_phase_new : forall h k sp s, phase (fire h k sp s) (next s) = PQueued.
Proof. intros. destruct h as [h|]; unfold fire, fire_g, link; simpl; [|apply upd_eq]. destruct (upd (cause s) (next s) None h); simpl; apply upd_eq. Qed.

Lemma inv_fire_user : forall cur s sp, Inv MNone cur s -> Inv MNone cur (fire_user cur sp s).
Proof.
  intros cur s sp I. unfold fire_user, fire_user_g. change (fire_g cur cur) with (fire cur). rewrite fire_add_log.
  apply inv_add_log.
  - apply inv_fire; assumption.
  - intros; discriminate.
  - intros d Hd. simpl in Hd. subst d. rewrite fire_next, fire_phase_new. split; [lia|discriminate].
Qed.

Lemma inv_fire_all : forall cur l s, Inv MNone cur s -> Inv MNone cur (fire_all cur l s).
Proof.
  induction l as [|sp r IH]; simpl; intros s I; [assumption|]. apply IH. apply inv_fire_user; assumption.
Qed.

Lemma inv_start : forall roots, Inv MNone None (start roots).
Proof. intros. apply inv_fire_all. apply inv_init. Qed.

(* ------------------------------------------------------------------ the cause-chain walk *)

Definition dec_state (s : st) (e : nat) : st :=
  set_cause_eff s (cause s) (upd (effects s) e (effects s e - 1)%Z) (trk s).

Lemma inv_mdec_dead : forall e cur s, Inv (MDec e) cur s -> cause s e = None -> Inv MNone cur s.
Proof.
  intros e cur s I He. constructor; try (destruct I; assumption); intros.
  - rewrite (i_count _ _ _ I _ H). simpl. destruct (Nat.eqb_spec e e0); [congruence|reflexivity].
  - destruct (i_pos _ _ _ I _ H) as [?|[?|?]]; try discriminate. left; assumption.
  - destruct H; discriminate.
  - discriminate.
  - destruct (i_fc _ _ _ I _ H) as [A [B|B]]; [auto|discriminate].
Qed.

Lemma inv_dec_stop : forall e cur s, Inv (MDec e) cur s -> cause s e <> None ->
  (0 < effects s e - 1)%Z -> Inv MNone cur (dec_state s e).
Proof.
  intros e cur s I He Hn. unfold dec_state.
  constructor; simpl; try (destruct I; assumption); intros.
  - pose proof (i_count _ _ _ I _ H) as C. simpl in C. unfold upd.
    destruct (Nat.eqb_spec e0 e).
    + subst. rewrite Nat.eqb_refl in C. lia.
    + destruct (Nat.eqb_spec e e0); [congruence|]. exact C.
  - left. unfold upd. destruct (Nat.eqb_spec e0 e); [lia|].
    destruct (i_pos _ _ _ I _ H) as [?|[?|?]]; try discriminate. assumption.
  - destruct H; discriminate.
  - discriminate.
  - destruct (i_fc _ _ _ I _ H) as [A [B|B]]; [auto|discriminate].
Qed.

Lemma inv_dec_rel : forall e cur s, Inv (MDec e) cur s -> cause s e <> None ->
  ~ (0 < effects s e - 1)%Z -> Inv (MRel e) cur (dec_state s e).
Proof.
  intros e cur s I He Hn. unfold dec_state.
  pose proof (i_count _ _ _ I _ He) as Ce. simpl in Ce. rewrite Nat.eqb_refl in Ce.
  constructor; simpl; try (destruct I; assumption); intros.
  - pose proof (i_count _ _ _ I _ H) as C. simpl in C. unfold upd.
    destruct (Nat.eqb_spec e0 e).
    + subst. lia.
    + destruct (Nat.eqb_spec e e0); [congruence|]. exact C.
  - unfold upd. destruct (Nat.eqb_spec e0 e); [subst; auto|].
    destruct (i_pos _ _ _ I _ H) as [?|[?|?]]; try discriminate. left; assumption.
  - destruct H as [H|H]; inversion H; subst. rewrite upd_eq.
    destruct (cause s e0) eqn:E; [|congruence]. apply (i_cause_lt _ _ _ I) in E. split; lia.
  - discriminate.
  - destruct (i_fc _ _ _ I _ H) as [A [B|B]]; [auto|discriminate].
Qed.

Lemma inv_log_fc : forall e cur s, Inv (MRel e) cur s -> cause s e <> None ->
  Inv (MLog e) cur (add_log (LFC e) s).
Proof.
  intros e cur s I He.
  assert (Hnot : ~ In (LFC e) (log s)).
  { intro H. destruct (i_fc _ _ _ I _ H) as [_ [B|B]]; [congruence|discriminate]. }
  constructor; simpl; try (destruct I; assumption); intros.
  - destruct (i_pos _ _ _ I _ H) as [?|[?|?]]; try discriminate; auto.
    inversion H0; subst; auto.
  - destruct H as [H|H]; inversion H; subst. apply (i_rel0 _ _ _ I). left; reflexivity.
  - inversion H; subst. left; reflexivity.
  - destruct H as [H|H].
    + inversion H; subst. split; [apply (i_trk_live _ _ _ I); assumption|right; reflexivity].
    + destruct (i_fc _ _ _ I _ H) as [A [B|B]]; [auto|discriminate].
  - right. eapply i_fc_conv; eauto.
  - destruct (Nat.eqb_spec e e0).
    + subst. rewrite (fc_count_notin _ _ Hnot). lia.
    + simpl. apply (i_fc_once _ _ _ I).
  - destruct H as [<-|H]; [contradiction|]. eapply i_log_alloc; eauto.
  - destruct l2 as [|z l2]; simpl in H.
    + contradiction.
    + inversion H; subst z. destruct H0 as [<-|H0]; [contradiction|]. eapply i_order; eauto.
Qed.

Lemma inv_release : forall m e c cur s EF, Inv m cur s ->
  (m = MRel e /\ compl s e = false) \/ m = MLog e ->
  cause s e = Some c -> (forall j, j <> e -> EF j = effects s j) ->
  Inv (if Nat.eqb c e then MNone else MDec c) cur
      (set_cause_eff s (upd (cause s) e None) EF (trk s)).
Proof.
  intros m e c cur s EF I Hm Hc HEF.
  assert (Hm' : m = MRel e \/ m = MLog e) by tauto.
  destruct (i_rel0 _ _ _ I _ Hm') as [Hlt H0].
  assert (He : cause s e <> None) by congruence.
  pose proof (i_count _ _ _ I _ He) as Ce.
  assert (Hd : is_dec m e = false) by (destruct Hm' as [->| ->]; reflexivity).
  rewrite Hd, H0 in Ce.
  assert (Hself : phase s e = PFin) by (unfold selfc in Ce; destruct (phase s e); try lia; reflexivity).
  assert (Hcnt : cnt (childb (cause s) e) (next s) = 0) by lia.
  assert (Hnokid : forall d c0, cause s d = Some c0 -> c0 = e -> d = e).
  { intros d c0 Hd0 ->. destruct (Nat.eq_dec d e); [assumption|exfalso].
    pose proof (i_cause_lt _ _ _ I _ _ Hd0) as [A _].
    pose proof (cnt_zero_inv _ _ Hcnt d A) as B. unfold childb in B. rewrite Hd0, Nat.eqb_refl in B.
    destruct (Nat.eqb_spec d e); [congruence|discriminate]. }
  assert (Hnm : forall e', e' <> e -> is_dec m e' = false) by (intros; destruct Hm' as [->| ->]; reflexivity).
  constructor; simpl; try (destruct I; assumption); intros.
  - (* cause_lt *) unfold upd in H. destruct (Nat.eqb_spec d e); [discriminate|]. eapply i_cause_lt; eauto.
  - (* cause_live *) unfold upd in *. destruct (Nat.eqb_spec d e); [discriminate|].
    destruct (Nat.eqb_spec c0 e).
    + subst. exfalso. apply n. eapply Hnokid; eauto.
    + eapply i_cause_live; eauto.
  - (* count *) unfold upd in H. destruct (Nat.eqb_spec e0 e) as [|Hne]; [congruence|].
    rewrite HEF by assumption. rewrite (i_count _ _ _ I _ H). rewrite (Hnm _ Hne).
    destruct (Nat.eq_dec e0 c) as [->|Hnc].
    + destruct (Nat.eqb_spec c e); [congruence|]. simpl. rewrite Nat.eqb_refl.
      rewrite <- (cnt_drop (childb (cause s) c) (childb (upd (cause s) e None) c) (next s) e); try lia.
      * unfold childb. rewrite Hc, Nat.eqb_refl. destruct (Nat.eqb_spec e c); [congruence|reflexivity].
      * unfold childb. rewrite upd_eq. apply andb_false_r.
      * intros i Hi Hie. unfold childb. rewrite upd_neq by assumption. reflexivity.
    + assert (Hdec : is_dec (if c =? e then MNone else MDec c) e0 = false).
      { destruct (c =? e); simpl; [reflexivity|]. destruct (Nat.eqb_spec c e0); [congruence|reflexivity]. }
      rewrite Hdec. f_equal. f_equal. f_equal. apply cnt_ext. intros i Hi. unfold childb, upd.
      destruct (Nat.eqb_spec i e); [|reflexivity]. subst i. rewrite Hc.
      destruct (Nat.eqb_spec c e0); [congruence|]. rewrite andb_false_r. reflexivity.
  - (* pos *) unfold upd in H. destruct (Nat.eqb_spec e0 e) as [|Hne]; [congruence|]. left.
    rewrite HEF by assumption.
    destruct (i_pos _ _ _ I _ H) as [?|[?|?]]; [assumption| |]; subst m; destruct Hm' as [X|X]; inversion X; congruence.
  - (* rel0 *) destruct (c =? e); destruct H; discriminate.
  - (* logged *) destruct (c =? e); discriminate.
  - (* trk_live *) unfold upd in H. destruct (Nat.eqb_spec e0 e); [congruence|]. eapply i_trk_live; eauto.
  - (* rel_fin *) unfold upd in H1. destruct (Nat.eqb_spec e0 e); [subst; assumption|]. eapply i_rel_fin; eauto.
  - (* cause_shape *) unfold upd in H. destruct (Nat.eqb_spec d e); [discriminate|]. eapply i_cause_shape; eauto.
  - (* self_cause *) unfold upd in H. destruct (Nat.eqb_spec d e); [discriminate|]. eapply i_self_cause; eauto.
  - (* fc *) destruct (i_fc _ _ _ I _ H) as [A B]. split; [assumption|]. left. unfold upd.
    destruct (Nat.eqb_spec e0 e); [reflexivity|]. destruct B as [B|B]; [assumption|].
    subst m. destruct Hm' as [X|X]; inversion X; congruence.
  - (* fc_conv *) unfold upd in H1. destruct (Nat.eqb_spec e0 e); [|eapply i_fc_conv; eauto].
    subst e0. destruct Hm as [[_ Hcf]| ->].
    + rewrite (i_compl _ _ _ I _ Hlt H2) in Hcf. congruence.
    + apply (i_logged _ _ _ I). reflexivity.
Qed.


Lemma walk_dead : forall f e s, cause s e = None -> walk (S f) e s = s.
Proof. intros. simpl. rewrite H. reflexivity. Qed.

Lemma inv_walk : forall fuel e cur s, e + 2 <= fuel -> Inv (MDec e) cur s ->
  Inv MNone cur (walk fuel e s).
Proof.
  induction fuel as [|f IH]; intros e cur s Hf I; [lia|].
  simpl. destruct (cause s e) as [c|] eqn:Ec; [|eapply inv_mdec_dead; eauto].
  assert (He : cause s e <> None) by congruence.
  fold (dec_state s e).
  destruct (0 <? effects s e - 1)%Z eqn:En.
  - apply inv_dec_stop; auto. apply Z.ltb_lt; assumption.
  - assert (I1 : Inv (MRel e) cur (dec_state s e)).
    { apply inv_dec_rel; auto. intro X. apply Z.ltb_lt in X. congruence. }
    assert (Hle : c <= e) by (apply (i_cause_lt _ _ _ I) in Ec; lia).
    assert (Hlt : e < next s) by (apply (i_cause_lt _ _ _ I) in Ec; lia).
    set (s1 := dec_state s e) in *.
    assert (Hc1 : cause s1 e = Some c) by exact Ec.
    match goal with |- Inv _ _ (walk f c ?t) => set (s3 := t) end.
    assert (I3 : Inv (if Nat.eqb c e then MNone else MDec c) cur s3).
    { subst s3. change (compl s e) with (compl s1 e). destruct (compl s1 e) eqn:Eco.
      - unfold fire_complete.
        assert (I2 : Inv (MLog e) cur (alloc (KCompl e) dummy None (add_log (LFC e) s1))).
        { apply inv_alloc; [apply inv_log_fc; [assumption|congruence]|]. intros; discriminate. }
        apply (inv_release (MLog e) e c); auto.
        + simpl. rewrite upd_neq by (simpl; lia). exact Ec.
        + intros j Hj. rewrite upd_neq by assumption. reflexivity.
      - apply (inv_release (MRel e) e c); auto.
        intros j Hj. rewrite upd_neq by assumption. reflexivity. }
    destruct (Nat.eqb_spec c e) as [->|Hne].
    + destruct f as [|f']; [lia|]. rewrite walk_dead; [assumption|].
      subst s3. simpl. apply upd_eq.
    + apply IH; [lia|assumption].
Qed.

(* ------------------------------------------------------------------ dispatcher and task steps *)

(* facts about the head of the queue *)
(* q is the queue of s with the (queued) event e taken out *)
Definition qpop (s : st) (e : nat) (q : list nat) : Prop :=
  In e (queue s) /\ NoDup q /\ forall x, In x q <-> (In x (queue s) /\ x <> e).

Lemma remove_nth_qpop : forall (l : list nat) p e, nth_error l p = Some e -> NoDup l ->
  In e l /\ NoDup (remove_nth p l) /\ forall x, In x (remove_nth p l) <-> (In x l /\ x <> e).
Proof.
  induction l as [|a r IH]; intros [|p] e H N; simpl in *; try discriminate.
  - inversion H; subst. inversion N; subst. split; [auto|]. split; [assumption|].
    intros x. split.
    + intros Hx. split; [auto|]. intros ->. contradiction.
    + intros [[->|Hx] Hne]; [congruence|assumption].
  - inversion N; subst. destruct (IH p e H H3) as [A [B C]]. split; [auto|]. split.
    + constructor; [|assumption]. intro X. apply C in X. tauto.
    + intros x. split.
      * intros [->|Hx]; [split; [auto|]|apply C in Hx; tauto]. intros ->. contradiction.
      * intros [[->|Hx] Hne]; [left; reflexivity|right; apply C; tauto].
Qed.

Lemma queue_head : forall m cur s e q, Inv m cur s -> qpop s e q ->
  e < next s /\ phase s e = PQueued /\ ~ In e q /\ NoDup q /\
  (forall d h, gpar s d = Some h -> h <> e) /\
  (forall d c, cause s d = Some c -> c <> d -> c <> e) /\
  (forall t, In t (tasks s) -> tev t <> e) /\ cur <> Some e /\
  (forall w, In w (waiters s) -> tev (wtask w) <> e).
Proof.
  intros m cur s e q I [Hin [N Hq]].
  destruct (i_q _ _ _ I _ Hin) as [A B].
  repeat split; auto.
  - intro X. apply Hq in X. tauto.
  - intros d h G ->. apply (i_gpar_phase _ _ _ I) in G. congruence.
  - intros d c G Hne ->. apply (i_cause_shape _ _ _ I) in G; [|assumption]. apply (i_gpar_phase _ _ _ I) in G. congruence.
  - intros t Ht E. destruct (i_task _ _ _ I _ Ht) as [_ P]. rewrite E in P. congruence.
  - intros ->. destruct (i_cur _ _ _ I _ eq_refl) as [_ P]. congruence.
  - intros w Hw E. destruct (i_waiter _ _ _ I _ Hw) as [_ P]. rewrite E in P. congruence.
Qed.

Lemma inv_pop_active : forall s e q, Inv MNone None s -> qpop s e q ->
  ev_canc (spec s e) = false -> compl s e = false ->
  Inv MNone (Some e) (set_phase (set_queue s q) (upd (phase s) e PActive)).
Proof.
  intros s e q I Hq Hx Hco.
  destruct (queue_head _ _ _ _ _ I Hq) as [Hlt [Hph [Hnin [Hnd [Hg [Hc [Ht [Hcur Hwt]]]]]]]]; pose proof (proj2 (proj2 Hq)) as Hqq.
  constructor; simpl; try (destruct I; assumption); intros.
  - rewrite (i_count _ _ _ I _ H). unfold selfc, upd. destruct (Nat.eqb_spec e0 e); [subst; rewrite Hph|]; reflexivity.
  - unfold upd. destruct (Nat.eqb_spec h e); [discriminate|]. eapply i_gpar_phase; eauto.
  - unfold upd. destruct (Nat.eqb_spec e0 e); [subst|eapply i_rel_fin; eauto].
    pose proof (i_rel_fin _ _ _ I _ H H0). congruence.
  - unfold upd in H0. destruct (Nat.eqb_spec e0 e); [subst|eapply i_disp_trk; eauto].
    rewrite (i_compl _ _ _ I _ Hlt Hx) in Hco. congruence.
  - assert (e0 <> e) by (intros ->; contradiction). rewrite upd_neq by assumption.
    apply (i_q _ _ _ I). apply Hqq in H. tauto.
  - unfold upd in H0. destruct (Nat.eqb_spec e0 e); [discriminate|].
    apply Hqq. split; [eapply i_qd; eauto|assumption].
  - rewrite upd_neq by (apply Ht; assumption). eapply i_task; eauto.
  - rewrite upd_neq by (apply Hwt; assumption). eapply i_waiter; eauto.
  - unfold upd in H. destruct (Nat.eqb_spec e0 e); [subst; left; reflexivity|].
    destruct (i_active _ _ _ I _ H); [discriminate|right; assumption].
  - inversion H; subst. rewrite upd_eq. auto.
Qed.

Lemma inv_pop_nested : forall s e q c, Inv MNone None s -> qpop s e q ->
  cause s e = Some c ->
  Inv MNone (Some e) (set_cause_eff (set_phase (set_queue s q) (upd (phase s) e PActive))
                         (cause s) (upd (effects s) e 1%Z) (trk s)).
Proof.
  intros s e q c I Hq Hca.
  destruct (queue_head _ _ _ _ _ I Hq) as [Hlt [Hph [Hnin [Hnd [Hg [Hc [Ht [Hcur Hwt]]]]]]]]; pose proof (proj2 (proj2 Hq)) as Hqq.
  assert (Hcnt : cnt (childb (cause s) e) (next s) = 0).
  { apply cnt_zero. intros i Hi. unfold childb. destruct (Nat.eqb_spec i e); [reflexivity|]. simpl.
    destruct (cause s i) as [c'|] eqn:E; [|reflexivity]. destruct (Nat.eqb_spec c' e); [|reflexivity].
    subst c'. exfalso. eapply Hc; eauto. }
  constructor; simpl; try (destruct I; assumption); intros.
  - unfold selfc, upd. destruct (Nat.eqb_spec e0 e).
    + subst. rewrite Hcnt. reflexivity.
    + rewrite (i_count _ _ _ I _ H). reflexivity.
  - left. unfold upd. destruct (Nat.eqb_spec e0 e); [lia|].
    destruct (i_pos _ _ _ I _ H) as [?|[?|?]]; try discriminate; assumption.
  - destruct H; discriminate.
  - unfold upd. destruct (Nat.eqb_spec h e); [discriminate|]. eapply i_gpar_phase; eauto.
  - unfold upd. destruct (Nat.eqb_spec e0 e); [subst|eapply i_rel_fin; eauto]. congruence.
  - unfold upd in H0. destruct (Nat.eqb_spec e0 e); [subst|eapply i_disp_trk; eauto].
    apply (i_trk_live _ _ _ I). congruence.
  - assert (e0 <> e) by (intros ->; contradiction). rewrite upd_neq by assumption.
    apply (i_q _ _ _ I). apply Hqq in H. tauto.
  - unfold upd in H0. destruct (Nat.eqb_spec e0 e); [discriminate|].
    apply Hqq. split; [eapply i_qd; eauto|assumption].
  - rewrite upd_neq by (apply Ht; assumption). eapply i_task; eauto.
  - rewrite upd_neq by (apply Hwt; assumption). eapply i_waiter; eauto.
  - unfold upd in H. destruct (Nat.eqb_spec e0 e); [subst; left; reflexivity|].
    destruct (i_active _ _ _ I _ H); [discriminate|right; assumption].
  - inversion H; subst. rewrite upd_eq. auto.
Qed.

Lemma inv_pop_root : forall s e q, Inv MNone None s -> qpop s e q ->
  cause s e = None -> 
  Inv MNone (Some e) (set_cause_eff (set_phase (set_queue s q) (upd (phase s) e PActive))
                         (upd (cause s) e (Some e)) (upd (effects s) e 1%Z) (upd (trk s) e true)).
Proof.
  intros s e q I Hq Hca.
  destruct (queue_head _ _ _ _ _ I Hq) as [Hlt [Hph [Hnin [Hnd [Hg [Hc [Ht [Hcur Hwt]]]]]]]]; pose proof (proj2 (proj2 Hq)) as Hqq.
  assert (Htr : trk s e = false).
  { destruct (trk s e) eqn:T; [|reflexivity]. pose proof (i_rel_fin _ _ _ I _ T Hca). congruence. }
  constructor; simpl; try (destruct I; assumption); intros.
  - (* cause_lt *) unfold upd in H. destruct (Nat.eqb_spec d e); [inversion H; subst; lia|]. eapply i_cause_lt; eauto.
  - (* cause_live *) unfold upd in *. destruct (Nat.eqb_spec d e); [inversion H; subst; congruence|].
    destruct (Nat.eqb_spec c e); [discriminate|]. eapply i_cause_live; eauto.
  - (* count *) unfold selfc, upd at 1 2. destruct (Nat.eqb_spec e0 e).
    + subst. rewrite cnt_zero; [reflexivity|]. intros i Hi. unfold childb, upd.
      destruct (Nat.eqb_spec i e); [reflexivity|]. simpl.
      destruct (cause s i) as [c'|] eqn:E; [|reflexivity]. destruct (Nat.eqb_spec c' e); [|reflexivity].
      subst c'. exfalso. eapply Hc; eauto.
    + rewrite upd_neq in H by assumption. rewrite (i_count _ _ _ I _ H). simpl.
      f_equal. f_equal. f_equal. apply cnt_ext. intros i Hi. unfold childb, upd.
      destruct (Nat.eqb_spec i e); [|reflexivity]. subst i. rewrite Hca.
      destruct (Nat.eqb_spec e e0); [congruence|]. rewrite andb_false_r. reflexivity.
  - (* pos *) left. unfold upd in *. destruct (Nat.eqb_spec e0 e); [lia|].
    destruct (i_pos _ _ _ I _ H) as [?|[?|?]]; try discriminate; assumption.
  - destruct H; discriminate.
  - unfold upd. destruct (Nat.eqb_spec h e); [discriminate|]. eapply i_gpar_phase; eauto.
  - (* trk_live *) unfold upd in *. destruct (Nat.eqb_spec e0 e); [reflexivity|]. eapply i_trk_live; eauto.
  - (* trk_alloc *) unfold upd in H. destruct (Nat.eqb_spec e0 e); [subst; assumption|]. eapply i_trk_alloc; eauto.
  - (* rel_fin *) unfold upd in *. destruct (Nat.eqb_spec e0 e); [discriminate|]. eapply i_rel_fin; eauto.
  - (* trk_kids *) unfold upd in *. destruct (Nat.eqb_spec h e); [subst; exfalso; eapply Hg; eauto|].
    destruct (Nat.eqb_spec d e); [reflexivity|]. eapply i_trk_kids; eauto.
  - (* cause_shape *) unfold upd in H. destruct (Nat.eqb_spec d e); [inversion H; subst; congruence|]. eapply i_cause_shape; eauto.
  - (* self_cause *) assert (h <> e) by (eapply Hg; eauto). rewrite upd_neq by assumption.
    unfold upd in H. destruct (Nat.eqb_spec d e).
    + subst d. destruct (trk s h) eqn:T; [|reflexivity]. pose proof (i_trk_kids _ _ _ I _ _ H0 T). congruence.
    + eapply i_self_cause; eauto.
  - (* disp_trk *) unfold upd in *. destruct (Nat.eqb_spec e0 e); [reflexivity|]. eapply i_disp_trk; eauto.
  - assert (e0 <> e) by (intros ->; contradiction). rewrite upd_neq by assumption.
    apply (i_q _ _ _ I). apply Hqq in H. tauto.
  - unfold upd in H0. destruct (Nat.eqb_spec e0 e); [discriminate|].
    apply Hqq. split; [eapply i_qd; eauto|assumption].
  - rewrite upd_neq by (apply Ht; assumption). eapply i_task; eauto.
  - rewrite upd_neq by (apply Hwt; assumption). eapply i_waiter; eauto.
  - unfold upd in H. destruct (Nat.eqb_spec e0 e); [subst; left; reflexivity|].
    destruct (i_active _ _ _ I _ H); [discriminate|right; assumption].
  - inversion H; subst. rewrite upd_eq. auto.
  - (* fc *) destruct (i_fc _ _ _ I _ H) as [A [B|B]]; [|discriminate].
    assert (e0 <> e) by (intros ->; congruence). rewrite !upd_neq by assumption. auto.
  - (* fc_conv *) unfold upd in *. destruct (Nat.eqb_spec e0 e); [discriminate|]. eapply i_fc_conv; eauto.
Qed.

Lemma inv_pop_cancel : forall s e q, Inv MNone None s -> qpop s e q ->
  ev_canc (spec s e) = true ->
  Inv (MDec e) None (set_phase (set_compl (set_queue s q) (upd (compl s) e false)) (upd (phase s) e PFin)).
Proof.
  intros s e q I Hq Hx.
  destruct (queue_head _ _ _ _ _ I Hq) as [Hlt [Hph [Hnin [Hnd [Hg [Hc [Ht [Hcur Hwt]]]]]]]]; pose proof (proj2 (proj2 Hq)) as Hqq.
  constructor; simpl; try (destruct I; assumption); intros.
  - rewrite (i_count _ _ _ I _ H). unfold selfc, upd. destruct (Nat.eqb_spec e0 e).
    + subst. rewrite Hph, Nat.eqb_refl. simpl. lia.
    + destruct (Nat.eqb_spec e e0); [congruence|]. reflexivity.
  - destruct (i_pos _ _ _ I _ H) as [?|[?|?]]; try discriminate. left; assumption.
  - destruct H; discriminate.
  - discriminate.
  - unfold upd. destruct (Nat.eqb_spec h e); [discriminate|]. eapply i_gpar_phase; eauto.
  - unfold upd. destruct (Nat.eqb_spec e0 e); [reflexivity|eapply i_rel_fin; eauto].
  - unfold upd. destruct (Nat.eqb_spec e0 e); [subst; congruence|]. eapply i_compl; eauto.
  - unfold upd in H0. destruct (Nat.eqb_spec e0 e); [subst; congruence|eapply i_disp_trk; eauto].
  - assert (e0 <> e) by (intros ->; contradiction). rewrite upd_neq by assumption.
    apply (i_q _ _ _ I). apply Hqq in H. tauto.
  - unfold upd in H0. destruct (Nat.eqb_spec e0 e); [discriminate|].
    apply Hqq. split; [eapply i_qd; eauto|assumption].
  - rewrite upd_neq by (apply Ht; assumption). eapply i_task; eauto.
  - rewrite upd_neq by (apply Hwt; assumption). eapply i_waiter; eauto.
  - unfold upd in H. destruct (Nat.eqb_spec e0 e); [discriminate|].
    destruct (i_active _ _ _ I _ H); [discriminate|right; assumption].
  - discriminate.
  - destruct (i_fc _ _ _ I _ H) as [A [B|B]]; [auto|discriminate].
Qed.


(* ------------------------------------------------------------------ gate, dispatcher and task steps *)

Lemma load_zero : forall m cur s e, Inv m cur s -> waiting s e = 0 ->
  (forall t, In t (tasks s) -> tev t <> e) /\ (forall w, In w (waiters s) -> tev (wtask w) <> e).
Proof.
  intros m cur s e I Hw. rewrite (i_wait _ _ _ I) in Hw. split.
  - apply tload_zero. lia.
  - intros w Hin. apply (tload_zero e (map wtask (waiters s))); [lia|]. apply in_map. assumption.
Qed.

Lemma inv_active_fin : forall s e, Inv MNone (Some e) s -> waiting s e = 0 ->
  Inv (MDec e) None (set_phase s (upd (phase s) e PFin)).
Proof.
  intros s e I Hw.
  destruct (i_cur _ _ _ I _ eq_refl) as [Hlt Hph].
  destruct (load_zero _ _ _ _ I Hw) as [Ht Hwt].
  constructor; simpl; try (destruct I; assumption); intros.
  - rewrite (i_count _ _ _ I _ H). unfold selfc, upd. destruct (Nat.eqb_spec e0 e).
    + subst. rewrite Hph, Nat.eqb_refl. simpl. lia.
    + destruct (Nat.eqb_spec e e0); [congruence|]. reflexivity.
  - destruct (i_pos _ _ _ I _ H) as [?|[?|?]]; try discriminate. left; assumption.
  - destruct H; discriminate.
  - discriminate.
  - unfold upd. destruct (Nat.eqb_spec h e); [discriminate|]. eapply i_gpar_phase; eauto.
  - unfold upd. destruct (Nat.eqb_spec e0 e); [reflexivity|eapply i_rel_fin; eauto].
  - unfold upd in H0. destruct (Nat.eqb_spec e0 e); [subst|eapply i_disp_trk; eauto].
    apply (i_disp_trk _ _ _ I); auto. congruence.
  - destruct (i_q _ _ _ I _ H) as [A B]. split; [assumption|].
    rewrite upd_neq; [assumption|]. intros ->. congruence.
  - unfold upd in H0. destruct (Nat.eqb_spec e0 e); [discriminate|]. eapply i_qd; eauto.
  - destruct (i_task _ _ _ I _ H) as [A B]. split; [assumption|]. rewrite upd_neq; [assumption|]. auto.
  - destruct (i_waiter _ _ _ I _ H) as [A B]. split; [assumption|]. rewrite upd_neq; [assumption|]. auto.
  - unfold upd in H. destruct (Nat.eqb_spec e0 e); [discriminate|].
    destruct (i_active _ _ _ I _ H) as [X|X]; [inversion X; congruence|right; assumption].
  - discriminate.
  - destruct (i_fc _ _ _ I _ H) as [A [B|B]]; [auto|discriminate].
Qed.

(* allocation does not touch the bookkeeping of existing events *)
Lemma alloc_waiting : forall k sp gp s e, e < next s -> waiting (alloc k sp gp s) e = waiting s e.
Proof. intros. simpl. apply upd_neq. lia. Qed.

Lemma fire_frame : forall h gp k sp s,
  tasks (fire_g h gp k sp s) = tasks s /\ waiters (fire_g h gp k sp s) = waiters s /\
  next (fire_g h gp k sp s) = S (next s) /\
  (forall e, e < next s -> waiting (fire_g h gp k sp s) e = waiting s e /\
                           phase (fire_g h gp k sp s) e = phase s e /\
                           spec (fire_g h gp k sp s) e = spec s e /\
                           alert (fire_g h gp k sp s) e = alert s e).
Proof.
  intros. destruct h as [h|]; unfold fire_g, link; simpl.
  - destruct (upd (cause s) (next s) None h); simpl; repeat split; auto; apply upd_neq; lia.
  - repeat split; auto; apply upd_neq; lia.
Qed.

Lemma inv_finish : forall s e, Inv MNone (Some e) s -> waiting s e = 0 -> Inv MNone None (finish e s).
Proof.
  intros s e I Hw. unfold finish. cbv zeta.
  destruct (i_cur _ _ _ I _ eq_refl) as [Hlt Hph].
  set (s1 := if alert s e then alloc (KDone e) dummy None s else s).
  assert (I1 : Inv MNone (Some e) s1 /\ waiting s1 e = 0 /\ next s <= next s1).
  { subst s1. destruct (alert s e).
    - split; [apply inv_alloc; [assumption|intros; discriminate]|]. split; [rewrite alloc_waiting; assumption|simpl; lia].
    - auto. }
  destruct I1 as [I1 [W1 N1]].
  set (s2 := if ev_succ (spec s1 e) && negb (errs s1 e) then alloc (KSucc e) dummy None s1 else s1).
  assert (I2 : Inv MNone (Some e) s2 /\ waiting s2 e = 0).
  { subst s2. destruct (ev_succ (spec s1 e) && negb (errs s1 e)).
    - split; [apply inv_alloc; [assumption|intros; discriminate]|]. rewrite alloc_waiting; [assumption|lia].
    - auto. }
  destruct I2 as [I2 W2].
  apply inv_walk; [lia|]. apply inv_active_fin; assumption.
Qed.

Lemma inv_finish_raise : forall s e, Inv MNone (Some e) s -> waiting s e = 0 -> Inv MNone None (finish_raise e s).
Proof.
  intros s e I Hw. unfold finish_raise. cbv zeta.
  destruct (i_cur _ _ _ I _ eq_refl) as [Hlt Hph].
  set (s1 := if alert s e then fire (Some e) (KDone e) dummy s else s).
  assert (I1 : Inv MNone (Some e) s1 /\ waiting s1 e = 0).
  { subst s1. destruct (alert s e); [|auto].
    split; [apply inv_fire; assumption|]. destruct (fire_frame (Some e) (Some e) (KDone e) dummy s) as [_ [_ [_ F]]].
    destruct (F e Hlt) as [A _]. unfold fire. rewrite A. assumption. }
  destruct I1 as [I1 W1].
  apply inv_walk; [lia|]. apply inv_active_fin; assumption.
Qed.

(* cur can be dropped when the current event still has pending generator handlers *)
Lemma inv_uncur : forall s e, Inv MNone (Some e) s -> 0 < waiting s e -> Inv MNone None s.
Proof.
  intros s e I Hw. constructor; try (destruct I; assumption); intros.
  - destruct (i_active _ _ _ I _ H) as [X|X]; [inversion X; subst; right; assumption|right; assumption].
  - discriminate.
Qed.

Lemma inv_gate : forall s e, Inv MNone (Some e) s -> Inv MNone None (gate e s).
Proof.
  intros s e I. unfold gate. destruct (Nat.eqb_spec (waiting s e) 0).
  - apply inv_finish; assumption.
  - eapply inv_uncur; eauto. lia.
Qed.

Lemma inv_gate_raise : forall s e, Inv MNone (Some e) s -> Inv MNone None (gate_raise e s).
Proof.
  intros s e I. unfold gate_raise. destruct (Nat.eqb_spec (waiting s e) 0).
  - apply inv_finish_raise; assumption.
  - eapply inv_uncur; eauto. lia.
Qed.

(* cur can be set to an event that has a pending task *)
Lemma inv_setcur : forall s e, Inv MNone None s -> e < next s -> phase s e = PActive -> Inv MNone (Some e) s.
Proof.
  intros s e I Hlt Hph. constructor; try (destruct I; assumption); intros.
  - destruct (i_active _ _ _ I _ H) as [X|X]; [discriminate|right; assumption].
  - inversion H; subst. auto.
Qed.

(* errors / alert_done / stopped do not take part in the bookkeeping *)
Lemma inv_set_flags : forall m cur s a b c, Inv m cur s -> Inv m cur (set_flags s a b c).
Proof. intros m cur s a b c I. constructor; simpl; destruct I; assumption. Qed.

Lemma inv_add_task : forall s e i steps, Inv MNone (Some e) s -> Inv MNone (Some e) (add_task e i steps s).
Proof.
  intros s e i steps I. destruct (i_cur _ _ _ I _ eq_refl) as [Hlt Hph]. unfold add_task.
  constructor; simpl; try (destruct I; assumption); intros.
  - apply in_app_or in H. destruct H as [H|[<-|[]]]; [eapply i_task; eauto|simpl; auto].
  - rewrite tload_app. simpl. unfold upd, tw. simpl. destruct (Nat.eqb_spec e0 e).
    + subst. rewrite Nat.eqb_refl, (i_wait _ _ _ I e). lia.
    + destruct (Nat.eqb_spec e e0); [congruence|]. rewrite (i_wait _ _ _ I e0). lia.
  - unfold upd. destruct (Nat.eqb_spec e0 e); [right; lia|eapply i_active; eauto].
Qed.

Lemma fire_user_frame : forall h gp sp s,
  tasks (fire_user_g h gp sp s) = tasks s /\ waiters (fire_user_g h gp sp s) = waiters s /\
  next (fire_user_g h gp sp s) = S (next s) /\
  (forall e, e < next s -> waiting (fire_user_g h gp sp s) e = waiting s e /\
                           spec (fire_user_g h gp sp s) e = spec s e).
Proof.
  intros. unfold fire_user_g.
  destruct (fire_frame h gp KUser sp (add_log (LF (next s)) s)) as [A [B [C D]]].
  simpl in *. repeat split; auto; apply D; assumption.
Qed.

Lemma fire_all_frame : forall h gp l s,
  tasks (fire_all_g h gp l s) = tasks s /\ waiters (fire_all_g h gp l s) = waiters s /\
  next s <= next (fire_all_g h gp l s) /\
  (forall e, e < next s -> waiting (fire_all_g h gp l s) e = waiting s e /\
                           spec (fire_all_g h gp l s) e = spec s e).
Proof.
  induction l as [|sp r IH]; simpl; intros s; [repeat split; auto|].
  destruct (IH (fire_user_g h gp sp s)) as [A [B [C D]]].
  destruct (fire_user_frame h gp sp s) as [A' [B' [C' D']]].
  rewrite A, B, A', B'. repeat split; auto; try lia.
  - destruct (D e) as [X _]; [lia|]. rewrite X. apply D'. assumption.
  - destruct (D e) as [_ X]; [lia|]. rewrite X. apply D'. assumption.
Qed.

Lemma inv_fire_errs : forall s e, Inv MNone (Some e) s -> Inv MNone (Some e) (fire_errs e s).
Proof.
  intros s e I. unfold fire_errs. cbv zeta. apply inv_fire.
  match goal with |- Inv _ _ (if ?c then _ else _) => destruct c end.
  - apply inv_fire. apply inv_set_flags. assumption.
  - apply inv_set_flags. assumption.
Qed.

Lemma inv_run_handlers : forall hs e i ch s, Inv MNone (Some e) s -> Inv MNone (Some e) (run_handlers e i ch hs s).
Proof.
  induction hs as [|h r IH]; intros e i ch s I; simpl; [assumption|].
  destruct (i_cur _ _ _ I _ eq_refl) as [Hlt Hph].
  destruct (negb (hchan h =? ch)); [apply IH; assumption|].
  destruct h as [c kids stop raise|c steps].
  - assert (I1 : Inv MNone (Some e) (fire_all (Some e) kids (add_log (LH e i) s))).
    { apply inv_fire_all. apply inv_add_log; [assumption|intros; discriminate|].
      intros d Hd. simpl in Hd. subst d. split; [assumption|congruence]. }
    set (s1 := fire_all (Some e) kids (add_log (LH e i) s)) in *.
    assert (I2 : Inv MNone (Some e) (if stop then set_flags s1 (errs s1) (alert s1) (upd (stopd s1) e true) else s1)).
    { destruct stop; [apply inv_set_flags|]; assumption. }
    set (s2 := if stop then set_flags s1 (errs s1) (alert s1) (upd (stopd s1) e true) else s1) in *.
    assert (I3 : Inv MNone (Some e) (if raise then fire_errs e s2 else s2)).
    { destruct raise; [apply inv_fire_errs|]; assumption. }
    destruct stop; [assumption|]. apply IH; assumption.
  - apply IH. apply inv_add_task; assumption.
Qed.

Lemma inv_wake : forall s x cur, Inv MNone cur s -> Inv MNone cur (wake x s).
Proof.
  intros s x cur I. unfold wake.
  constructor; simpl; try (destruct I; assumption); intros.
  - apply in_app_or in H. destruct H as [H|H]; [eapply i_task; eauto|].
    apply in_map_iff in H. destruct H as [w [<- Hw]]. apply filter_In in Hw. destruct Hw as [Hw _].
    eapply i_waiter; eauto.
  - apply filter_In in H. destruct H as [H _]. eapply i_waiter; eauto.
  - rewrite tload_app. rewrite (i_wait _ _ _ I e).
    pose proof (tload_filter e (fun w => wev w =? x) (waiters s)). lia.
Qed.

Lemma inv_dispatch : forall s e q, Inv MNone None s -> qpop s e q ->
  Inv MNone None (dispatch fixed e (set_queue s q)).
Proof.
  intros s e q I Hq. unfold dispatch. cbv zeta.
  change (spec (set_queue s q) e) with (spec s e).
  destruct (ev_canc (spec s e)) eqn:Hx.
  - simpl fix_cancel. cbv iota. apply inv_walk; [lia|]. exact (inv_pop_cancel s e q I Hq Hx).
  - match goal with |- Inv _ _ (gate e (match kind ?t e with _ => _ end)) => set (s1 := t) end.
    assert (I1 : Inv MNone (Some e) s1).
    { subst s1. change (compl (set_phase (set_queue s q) (upd (phase (set_queue s q)) e PActive)) e) with (compl s e).
      change (cause (set_phase (set_queue s q) (upd (phase (set_queue s q)) e PActive)) e) with (cause s e).
      destruct (compl s e) eqn:Hco.
      - destruct (cause s e) as [c|] eqn:Hca.
        + exact (inv_pop_nested s e q c I Hq Hca).
        + exact (inv_pop_root s e q I Hq Hca).
      - exact (inv_pop_active s e q I Hq Hx Hco). }
    destruct (i_cur _ _ _ I1 _ eq_refl) as [Hlt Hph].
    assert (Hlog : forall y, (exists x, y = LDC x) \/ y = LD e -> Inv MNone (Some e) (add_log y s1)).
    { intros y Hy. apply inv_add_log; [assumption| |].
      - intros e0 ->. destruct Hy as [[x Hy]|Hy]; discriminate.
      - intros d Hd. destruct Hy as [[x Hy]|Hy]; subst y; simpl in Hd; [contradiction|]. subst d. split; [assumption|congruence]. }
    apply inv_gate. destruct (kind s1 e).
    + cbv zeta. match goal with |- Inv _ _ (if ?c then _ else _) => destruct c end;
        [apply inv_set_flags|]; apply inv_run_handlers; assumption.
    + apply Hlog. left. eexists; reflexivity.
    + apply Hlog. right. reflexivity.
    + apply Hlog. right. reflexivity.
    + apply Hlog. right. reflexivity.
    + apply inv_wake. apply Hlog. right. reflexivity.
Qed.

Lemma inv_task_update : forall s e ts' ws' W', Inv MNone (Some e) s ->
  (forall x, In x ts' -> In x (tasks s) \/ tev x = e) ->
  (forall w, In w ws' -> In w (waiters s) \/ tev (wtask w) = e) ->
  (forall e0, W' e0 = tload e0 ts' + tload e0 (map wtask ws')) ->
  (forall e0, e0 <> e -> W' e0 = waiting s e0) ->
  Inv MNone (Some e) (set_tasks s W' ts' ws').
Proof.
  intros s e ts' ws' W' I Ht Hw HW Hne. destruct (i_cur _ _ _ I _ eq_refl) as [Hlt Hph].
  constructor; simpl; try (destruct I; assumption); intros.
  - destruct (Ht _ H) as [X|X]; [eapply i_task; eauto|rewrite X; auto].
  - destruct (Hw _ H) as [X|X]; [eapply i_waiter; eauto|rewrite X; auto].
  - destruct (Nat.eq_dec e0 e) as [->|N]; [left; reflexivity|].
    rewrite (Hne _ N). destruct (i_active _ _ _ I _ H) as [X|X]; [inversion X; congruence|right; assumption].
Qed.

Lemma nth_error_replace_in : forall A (l : list A) p v x, nth_error l p = Some x -> In v (replace_nth p v l).
Proof.
  induction l as [|a r IH]; intros [|p] v x H; simpl in *; try discriminate; auto.
  right. eapply IH; eauto.
Qed.

(* the task at p ends and gives back its waitingHandlers units *)
Lemma inv_task_end : forall s e p t, Inv MNone (Some e) s -> nth_error (tasks s) p = Some t -> tev t = e ->
  Inv MNone (Some e) (task_end (tw t) p e s).
Proof.
  intros s e p t I Hn He. unfold task_end.
  apply inv_task_update; auto.
  - intros x Hx. left. eapply in_remove_nth; eauto.
  - intros e0. pose proof (tload_remove e0 _ _ _ Hn) as R. pose proof (i_wait _ _ _ I e0) as W.
    unfold upd. destruct (Nat.eqb_spec e0 e).
    + subst e0. rewrite He, Nat.eqb_refl in R. lia.
    + rewrite He in R. destruct (Nat.eqb_spec e e0); [congruence|]. lia.
  - intros e0 N. apply upd_neq. assumption.
Qed.

(* the task at p is replaced by t' (same handler) and gives back [tw t - tw t'] units *)
Lemma inv_task_replace : forall s e p t t' W', Inv MNone (Some e) s -> nth_error (tasks s) p = Some t ->
  tev t = e -> tev t' = e -> tw t' <= tw t ->
  (forall e0, W' e0 = upd (waiting s) e (waiting s e - (tw t - tw t')) e0) ->
  Inv MNone None (set_tasks s W' (replace_nth p t' (tasks s)) (waiters s)).
Proof.
  intros s e p t t' W' I Hn He He' Hle HW.
  pose proof (tload_replace e _ p t t' Hn) as R. rewrite He, He', Nat.eqb_refl in R.
  pose proof (i_wait _ _ _ I e) as W. pose proof (tw_pos t').
  apply (inv_uncur _ e).
  - apply inv_task_update; auto.
    + intros x Hx. apply in_replace_nth in Hx. destruct Hx as [->|Hx]; auto.
    + intros e0. rewrite HW. pose proof (tload_replace e0 _ p t t' Hn) as R0. pose proof (i_wait _ _ _ I e0) as W0.
      unfold upd. destruct (Nat.eqb_spec e0 e).
      * subst e0. lia.
      * rewrite He in R0. rewrite He' in R0. destruct (Nat.eqb_spec e e0); [congruence|]. lia.
    + intros e0 N. rewrite HW. apply upd_neq. assumption.
  - simpl. rewrite HW, upd_eq.
    pose proof (tload_in e _ t' (nth_error_replace_in _ _ p t' t Hn) He'). lia.
Qed.

Lemma inv_gen_return : forall s p t, Inv MNone (Some (tev t)) s -> nth_error (tasks s) p = Some t ->
  Inv MNone None (gen_return p t s).
Proof.
  intros s p t I Hn. unfold gen_return. cbv zeta. destruct (tmode t) eqn:Hm.
  - apply inv_gate. replace 1 with (tw t) by (unfold tw; rewrite Hm; reflexivity).
    eapply inv_task_end; eauto.
  - set (t' := {| tev := tev t; thd := thd t; tk := tk t; trest := []; tmode := TExh |}).
    eapply inv_task_replace; eauto.
    + unfold tw. rewrite Hm. simpl. lia.
    + intros e0. unfold upd, tw. rewrite Hm. simpl. destruct (e0 =? tev t); [lia|reflexivity].
  - apply inv_gate. replace 1 with (tw t) by (unfold tw; rewrite Hm; reflexivity).
    eapply inv_task_end; eauto.
Qed.

Lemma inv_step_task : forall s p, Inv MNone None s -> Inv MNone None (step_task fixed p s).
Proof.
  intros s p I. unfold step_task. destruct (nth_error (tasks s) p) as [t|] eqn:Hn; [|assumption].
  cbv zeta. simpl fix_gen. cbv iota.
  destruct (i_task _ _ _ I _ (nth_error_In _ _ Hn)) as [Hlt Hph].
  pose proof (inv_setcur _ _ I Hlt Hph) as Ic.
  set (e := tev t) in *.
  assert (Ilog : Inv MNone (Some e) (add_log (LG e (thd t) (tk t)) s)).
  { apply inv_add_log; [assumption|intros; discriminate|].
    intros d Hd. simpl in Hd. subst d. split; [assumption|congruence]. }
  destruct (trest t) as [|[kids|kids|callee] rest] eqn:Hr.
  - apply inv_gen_return; assumption.
  - (* plain step *)
    set (s0 := add_log (LG e (thd t) (tk t)) s) in *.
    pose proof (inv_fire_all _ kids _ Ilog) as I1.
    destruct (fire_all_frame (Some e) (Some e) kids s0) as [T [Wt [_ F]]].
    change (fire_all_g (Some e) (Some e) kids s0) with (fire_all (Some e) kids s0) in *.
    set (s1 := fire_all (Some e) kids s0) in *.
    assert (Hn1 : nth_error (tasks s1) p = Some t) by (rewrite T; exact Hn).
    destruct rest as [|st rest'].
    + apply inv_gen_return; assumption.
    + set (t' := {| tev := e; thd := thd t; tk := S (tk t); trest := st :: rest'; tmode := TRun |}).
      eapply (inv_task_replace s1 e p t t'); eauto.
      * unfold tw. simpl. destruct (tmode t); lia.
      * intros e0. unfold upd, tw. simpl. destruct (tmode t); simpl;
          destruct (Nat.eqb_spec e0 e); subst; try reflexivity; lia.
  - (* raising step *)
    set (s0 := add_log (LG e (thd t) (tk t)) s) in *.
    pose proof (inv_fire_all _ kids _ Ilog) as I1.
    destruct (fire_all_frame (Some e) (Some e) kids s0) as [T [Wt [_ F]]].
    change (fire_all_g (Some e) (Some e) kids s0) with (fire_all (Some e) kids s0) in *.
    set (s1 := fire_all (Some e) kids s0) in *.
    assert (Hn1 : nth_error (tasks s1) p = Some t) by (rewrite T; exact Hn).
    change (match tmode t with TResume => 2 | _ => 1 end) with (tw t).
    pose proof (inv_task_end s1 e p t I1 Hn1 eq_refl) as I2.
    set (s2 := task_end (tw t) p e s1) in *.
    apply inv_gate_raise. apply (inv_fire (Some e)).
    match goal with |- Inv _ _ (if ?c then _ else _) => destruct c end.
    + apply (inv_fire (Some e)). apply inv_set_flags. assumption.
    + apply inv_set_flags. assumption.
  - (* yield self.call(callee) *)
    set (s0 := add_log (LG e (thd t) (tk t)) s) in *.
    pose proof (inv_fire_user _ _ callee Ilog) as I1.
    destruct (fire_user_frame (Some e) (Some e) callee s0) as [T [Wt [_ F]]].
    change (fire_user_g (Some e) (Some e) callee s0) with (fire_user (Some e) callee s0) in *.
    set (s1 := fire_user (Some e) callee s0) in *.
    assert (Hn1 : nth_error (tasks s1) p = Some t) by (rewrite T; exact Hn).
    set (t' := {| tev := e; thd := thd t; tk := S (tk t); trest := rest; tmode := TResume |}).
    set (w := {| wev := next s0; wtask := t' |}).
    pose proof (i_wait _ _ _ I1 e) as We.
    pose proof (tload_remove e _ _ _ Hn1) as Re. fold e in Re. rewrite Nat.eqb_refl in Re.
    assert (Hload : forall e0, tload e0 (map wtask (waiters s1 ++ [w])) =
                               tload e0 (map wtask (waiters s1)) + (if Nat.eqb e e0 then 2 else 0)).
    { intros e0. rewrite map_app, tload_app. simpl. unfold tw. simpl. lia. }
    apply (inv_uncur _ e).
    + apply inv_task_update; auto.
      * intros x Hx. left. eapply in_remove_nth; eauto.
      * intros x Hx. apply in_app_or in Hx. destruct Hx as [Hx|[<-|[]]]; auto.
      * intros e0. rewrite Hload. pose proof (tload_remove e0 _ _ _ Hn1) as R0. fold e in R0.
        pose proof (i_wait _ _ _ I1 e0) as W0. unfold tw in *.
        destruct (tmode t); unfold upd; destruct (Nat.eqb_spec e0 e); subst;
          try rewrite Nat.eqb_refl in *; try (destruct (Nat.eqb_spec e e0); [congruence|]); lia.
      * intros e0 N. destruct (tmode t); try reflexivity; apply upd_neq; assumption.
    + simpl. unfold tw in Re. destruct (tmode t); try rewrite upd_eq; lia.
Qed.

Lemma inv_step : forall l s, Inv MNone None s -> Inv MNone None (step fixed l s).
Proof.
  intros [p|p] s I; simpl.
  - destruct (nth_error (queue s) p) as [e|] eqn:Hq; [|assumption]. apply inv_dispatch; [assumption|].
    destruct (remove_nth_qpop _ _ _ Hq (i_q_nodup _ _ _ I)) as [A [B C]]. repeat split; auto; apply C; assumption.
  - apply inv_step_task; assumption.
Qed.

Lemma inv_exec : forall ls s, Inv MNone None s -> Inv MNone None (exec fixed ls s).
Proof.
  unfold exec. induction ls as [|l r IH]; simpl; intros s I; [assumption|]. apply IH. apply inv_step; assumption.
Qed.

Lemma inv_reachable : forall s, reachable s -> Inv MNone None s.
Proof. intros s [roots [ls ->]]. apply inv_exec. apply inv_start. Qed.

(* ------------------------------------------------------------------ the C05 theorems *)

Lemma counter_inv : forall s, reachable s -> forall e, cause s e <> None ->
  effects s e = Z.of_nat (selfc (phase s) e + cnt (childb (cause s) e) (next s)).
Proof.
  intros s R e H. rewrite (i_count _ _ _ (inv_reachable _ R) _ H). simpl. f_equal. lia.
Qed.

Lemma no_out_of_fuel : forall s, reachable s -> oof s = false.
Proof. intros s R. apply (i_oof _ _ _ (inv_reachable _ R)). Qed.

Lemma complete_at_most_once : forall s, reachable s -> forall e, fc_count e (log s) <= 1.
Proof. intros s R. apply (i_fc_once _ _ _ (inv_reachable _ R)). Qed.

Lemma complete_after_closure : forall s, reachable s -> forall e d,
  In (LFC e) (log s) -> gdesc (gpar s) e d -> phase s d = PFin.
Proof. intros s R e d. apply (closure_fin _ _ (inv_reachable _ R)). Qed.

Lemma fin_is_final : forall s, reachable s -> forall d, phase s d = PFin ->
  ~ In d (queue s) /\ (forall t, In t (tasks s) -> tev t <> d) /\
  (forall w, In w (waiters s) -> tev (wtask w) <> d).
Proof.
  intros s R d H. pose proof (inv_reachable _ R) as I. repeat split.
  - intro X. destruct (i_q _ _ _ I _ X). congruence.
  - intros t Ht E. destruct (i_task _ _ _ I _ Ht) as [_ P]. rewrite E in P. congruence.
  - intros w Hw E. destruct (i_waiter _ _ _ I _ Hw) as [_ P]. rewrite E in P. congruence.
Qed.

Lemma complete_log_order : forall s, reachable s -> forall l1 l2 e y d,
  log s = l2 ++ LFC e :: l1 -> In y l2 -> hentry y d -> ~ gdesc (gpar s) e d.
Proof. intros s R. apply (i_order _ _ _ (inv_reachable _ R)). Qed.

Lemma fc_count_in : forall e l, In (LFC e) l -> 1 <= fc_count e l.
Proof.
  induction l as [|a r IH]; simpl; intros H; [contradiction|].
  destruct H as [->|H]; [rewrite Nat.eqb_refl; lia|].
  specialize (IH H). destruct a; try assumption. destruct (e0 =? e); lia.
Qed.

Lemma quiet_all_fin : forall s, Inv MNone None s -> queue s = [] -> tasks s = [] -> waiters s = [] ->
  forall e, e < next s -> phase s e = PFin.
Proof.
  intros s I Hq Ht Hws e He. destruct (phase s e) eqn:P; [| |reflexivity].
  - pose proof (i_qd _ _ _ I _ He P) as X. rewrite Hq in X. contradiction.
  - destruct (i_active _ _ _ I _ P) as [X|X]; [discriminate|].
    rewrite (i_wait _ _ _ I), Ht, Hws in X. simpl in X. lia.
Qed.

Lemma quiet_no_live : forall s, Inv MNone None s -> queue s = [] -> tasks s = [] -> waiters s = [] ->
  forall e, cause s e = None.
Proof.
  intros s I Hq Ht Hws.
  assert (H : forall n e, next s - e <= n -> cause s e <> None -> False).
  { induction n as [|n IH]; intros e Hn Hl.
    - destruct (cause s e) as [c|] eqn:E; [|congruence]. apply (i_cause_lt _ _ _ I) in E. lia.
    - assert (Hlt : e < next s).
      { destruct (cause s e) as [c|] eqn:E; [|congruence]. apply (i_cause_lt _ _ _ I) in E. lia. }
      pose proof (i_count _ _ _ I _ Hl) as C. simpl in C.
      destruct (i_pos _ _ _ I _ Hl) as [P|[P|P]]; try discriminate.
      unfold selfc in C. rewrite (quiet_all_fin _ I Hq Ht Hws _ Hlt) in C.
      destruct (cnt_pos_ex (childb (cause s) e) (next s)) as [i [Hi Hc]]; [lia|].
      unfold childb in Hc. destruct (Nat.eqb_spec i e); [discriminate|]. simpl in Hc.
      destruct (cause s i) as [c|] eqn:E; [|discriminate]. apply Nat.eqb_eq in Hc. subst c.
      pose proof (i_cause_lt _ _ _ I _ _ E).
      apply (IH i); [lia|congruence]. }
  intros e. destruct (cause s e) eqn:E; [|reflexivity]. exfalso. apply (H (next s) e); [lia|congruence].
Qed.

Lemma complete_eventually : forall s, reachable s -> queue s = [] -> tasks s = [] -> waiters s = [] ->
  forall e, e < next s -> ev_compl (spec s e) = true -> ev_canc (spec s e) = false ->
  fc_count e (log s) = 1.
Proof.
  intros s R Hq Ht Hws e He Hc Hx. pose proof (inv_reachable _ R) as I.
  assert (T : trk s e = true).
  { apply (i_disp_trk _ _ _ I); auto. rewrite (quiet_all_fin _ I Hq Ht Hws _ He). discriminate. }
  pose proof (i_fc_conv _ _ _ I _ T (quiet_no_live _ I Hq Ht Hws e) Hx Hc) as F.
  pose proof (fc_count_in _ _ F). pose proof (i_fc_once _ _ _ I e). lia.
Qed.

Lemma quiescent_all_finished : forall s, reachable s -> queue s = [] -> tasks s = [] -> waiters s = [] ->
  forall e, e < next s -> phase s e = PFin /\ cause s e = None.
Proof.
  intros s R Hq Ht Hws e He. pose proof (inv_reachable _ R) as I. split.
  - apply quiet_all_fin; assumption.
  - apply quiet_no_live; assumption.
Qed.

(* the schedule of Manager.tick is one of the schedules of the transition system *)
Lemma reachable_step : forall l s, reachable s -> reachable (step fixed l s).
Proof.
  intros l s [roots [ls ->]]. exists roots, (ls ++ [l]). unfold exec. rewrite fold_left_app. reflexivity.
Qed.

Lemma reachable_step_named : forall keys s, reachable s -> reachable (step_named fixed keys s).
Proof.
  induction keys as [|[l i] r IH]; simpl; intros s R; [assumption|]. apply IH.
  destruct (find_task l i s (tasks s) 0) as [p|]; [apply (reachable_step (LTask p))|]; assumption.
Qed.

Lemma reachable_dispatch_n : forall n s, reachable s -> reachable (dispatch_n fixed n s).
Proof. induction n; simpl; intros; [assumption|]. apply IHn. apply (reachable_step (LDisp _)); assumption. Qed.

Lemma reachable_tick : forall keys s, reachable s -> reachable (tick fixed keys s).
Proof. intros. unfold tick. apply reachable_dispatch_n. apply reachable_step_named. assumption. Qed.

Lemma run_reachable : forall fuel sched s, reachable s -> oof (run fixed fuel sched s) = false ->
  reachable (run fixed fuel sched s).
Proof.
  induction fuel as [|f IH]; simpl; intros sched s R H.
  - destruct (quiet s); [assumption|discriminate].
  - destruct (quiet s); [assumption|]. apply IH; [apply reachable_tick|]; assumption.
Qed.

Lemma start_reachable : forall roots, reachable (start roots).
Proof. intros. exists roots, []. reflexivity. Qed.

(* as soon as the closure of e has drained, e has been released (no global quiescence needed) *)
Lemma drained_released : forall cur s, Inv MNone cur s -> forall e,
  (forall d, gdesc (gpar s) e d -> phase s d = PFin) ->
  forall d, gdesc (gpar s) e d -> cause s d = None.
Proof.
  intros cur s I e Hfin.
  assert (H : forall n d, next s - d <= n -> gdesc (gpar s) e d -> cause s d <> None -> False).
  { induction n as [|n IH]; intros d Hn Hd Hl.
    - destruct (cause s d) as [c|] eqn:E; [|congruence]. apply (i_cause_lt _ _ _ I) in E. lia.
    - pose proof (i_count _ _ _ I _ Hl) as C. simpl in C.
      destruct (i_pos _ _ _ I _ Hl) as [P|[P|P]]; try discriminate.
      unfold selfc in C. rewrite (Hfin _ Hd) in C.
      destruct (cnt_pos_ex (childb (cause s) d) (next s)) as [i [Hi Hc]]; [lia|].
      unfold childb in Hc. destruct (Nat.eqb_spec i d); [discriminate|]. simpl in Hc.
      destruct (cause s i) as [c|] eqn:E; [|discriminate]. apply Nat.eqb_eq in Hc. subst c.
      pose proof (i_cause_lt _ _ _ I _ _ E).
      apply (IH i); [lia| |congruence].
      eapply gd_step; [|exact Hd]. apply (i_cause_shape _ _ _ I); auto. }
  intros d Hd. destruct (cause s d) eqn:E; [|reflexivity]. exfalso. apply (H (next s) d); [lia|assumption|congruence].
Qed.

Lemma complete_when_drained : forall s, reachable s ->
  forall e, e < next s -> ev_compl (spec s e) = true -> ev_canc (spec s e) = false ->
  (forall d, gdesc (gpar s) e d -> phase s d = PFin) ->
  fc_count e (log s) = 1.
Proof.
  intros s R e He Hc Hx Hfin. pose proof (inv_reachable _ R) as I.
  assert (T : trk s e = true).
  { apply (i_disp_trk _ _ _ I); auto. rewrite (Hfin e (gd_refl _ _)). discriminate. }
  pose proof (i_fc_conv _ _ _ I _ T (drained_released _ _ I e Hfin e (gd_refl _ _)) Hx Hc) as F.
  pose proof (fc_count_in _ _ F). pose proof (i_fc_once _ _ _ I e). lia.
Qed.


(* ------------------------------------------------------------------ exception / failure events are
   effects of the event whose handler raised (any configuration) *)
Definition kg_ok (s : st) : Prop :=
  forall d x, kind s d = KExc x \/ kind s d = KFail x -> gpar s d = Some x.

Lemma kg_alloc : forall k sp gp s, kg_ok s ->
  (forall x, k = KExc x \/ k = KFail x -> gp = Some x) -> kg_ok (alloc k sp gp s).
Proof.
  intros k sp gp s H Hk d x. simpl. unfold upd. destruct (Nat.eqb_spec d (next s)); [apply Hk|apply H].
Qed.

Lemma kg_fire : forall lk gp k sp s, kg_ok s ->
  (forall x, k = KExc x \/ k = KFail x -> gp = Some x) -> kg_ok (fire_g lk gp k sp s).
Proof.
  intros lk gp k sp s H Hk. unfold fire_g. pose proof (kg_alloc k sp gp s H Hk) as A.
  destruct lk as [h|]; [|exact A]. unfold link. destruct (cause (alloc k sp gp s) h); exact A.
Qed.

Lemma kg_fire_all : forall lk gp l s, kg_ok s -> kg_ok (fire_all_g lk gp l s).
Proof.
  induction l as [|sp r IH]; simpl; intros s H; [assumption|]. apply IH. unfold fire_user_g.
  apply kg_fire; [exact H|]. intros x [X|X]; discriminate.
Qed.

Lemma kg_walk : forall fuel e s, kg_ok s -> kg_ok (walk fuel e s).
Proof.
  induction fuel as [|f IH]; intros e s H; simpl; [exact H|].
  destruct (cause s e) as [c|]; [|exact H].
  destruct (0 <? effects s e - 1)%Z; [exact H|]. apply IH.
  match goal with |- kg_ok (set_cause_eff (if ?c then _ else _) _ _ _) => destruct c end; [|exact H].
  unfold fire_complete. apply (kg_alloc (KCompl e) dummy None (add_log (LFC e) s) H).
  intros x [X|X]; discriminate.
Qed.

Lemma kg_finish : forall e s, kg_ok s -> kg_ok (finish e s).
Proof.
  intros e s H. unfold finish. cbv zeta. apply kg_walk.
  set (s1 := if alert s e then alloc (KDone e) dummy None s else s).
  assert (H1 : kg_ok s1).
  { subst s1. destruct (alert s e); [|exact H]. apply kg_alloc; [exact H|]. intros x [X|X]; discriminate. }
  set (s2 := if ev_succ (spec s1 e) && negb (errs s1 e) then alloc (KSucc e) dummy None s1 else s1).
  assert (H2 : kg_ok s2).
  { subst s2. destruct (ev_succ (spec s1 e) && negb (errs s1 e)); [|exact H1].
    apply kg_alloc; [exact H1|]. intros x [X|X]; discriminate. }
  exact H2.
Qed.

Lemma kg_finish_raise : forall e s, kg_ok s -> kg_ok (finish_raise e s).
Proof.
  intros e s H. unfold finish_raise. cbv zeta. apply kg_walk.
  destruct (alert s e); [|exact H].
  apply (kg_fire (Some e) (Some e) (KDone e) dummy s H). intros x [X|X]; discriminate.
Qed.

Lemma kg_gate : forall e s, kg_ok s -> kg_ok (gate e s).
Proof. intros. unfold gate. destruct (waiting s e =? 0); [apply kg_finish|]; assumption. Qed.
Lemma kg_gate_raise : forall e s, kg_ok s -> kg_ok (gate_raise e s).
Proof. intros. unfold gate_raise. destruct (waiting s e =? 0); [apply kg_finish_raise|]; assumption. Qed.

Lemma kg_errs : forall lk e s0 s, kg_ok s0 ->
  s = (let s2 := if ev_fail (spec s0 e) then fire_g lk (Some e) (KFail e) dummy s0 else s0 in
       fire_g lk (Some e) (KExc e) dummy s2) -> kg_ok s.
Proof.
  intros lk e s0 s H ->. cbv zeta. apply kg_fire.
  - destruct (ev_fail (spec s0 e)); [|exact H]. apply kg_fire; [exact H|].
    intros x [X|X]; inversion X; reflexivity.
  - intros x [X|X]; inversion X; reflexivity.
Qed.

Lemma kg_run_handlers : forall hs e i ch s, kg_ok s -> kg_ok (run_handlers e i ch hs s).
Proof.
  induction hs as [|h r IH]; intros e i ch s H; simpl; [exact H|].
  destruct (negb (hchan h =? ch)); [apply IH; exact H|].
  destruct h as [c kids stop raise|c steps]; [|apply IH; exact H].
  pose proof (kg_fire_all (Some e) (Some e) kids (add_log (LH e i) s) H) as H1.
  change (fire_all_g (Some e) (Some e)) with (fire_all (Some e)) in H1.
  set (s1 := fire_all (Some e) kids (add_log (LH e i) s)) in *.
  set (s2 := if stop then set_flags s1 (errs s1) (alert s1) (upd (stopd s1) e true) else s1).
  assert (H2 : kg_ok s2) by (subst s2; destruct stop; exact H1).
  assert (H3 : kg_ok (if raise then fire_errs e s2 else s2)).
  { destruct raise; [|exact H2]. unfold fire_errs. cbv zeta.
    eapply (kg_errs (Some e) e (set_flags s2 (upd (errs s2) e true) (alert s2) (stopd s2))); [exact H2|reflexivity]. }
  destruct stop; [exact H3|]. apply IH. exact H3.
Qed.

Lemma kg_dispatch : forall cf e s, kg_ok s -> kg_ok (dispatch cf e s).
Proof.
  intros cf e s H. unfold dispatch. cbv zeta. destruct (ev_canc (spec s e)).
  - destruct (fix_cancel cf); [apply kg_walk|]; exact H.
  - apply kg_gate.
    match goal with |- kg_ok (match kind ?t e with _ => _ end) => set (s1 := t) end.
    assert (H1 : kg_ok s1).
    { subst s1. match goal with |- kg_ok (if ?c then _ else _) => destruct c end; [|exact H].
      match goal with |- kg_ok (match ?c with _ => _ end) => destruct c end; exact H. }
    destruct (kind s1 e); try exact H1.
    cbv zeta. match goal with |- kg_ok (if ?c then _ else _) => destruct c end;
      apply kg_run_handlers; exact H1.
Qed.

Lemma kg_step_task : forall cf p s, kg_ok s -> kg_ok (step_task cf p s).
Proof.
  intros cf p s H. unfold step_task. destruct (nth_error (tasks s) p) as [t|]; [|exact H]. cbv zeta.
  assert (Hret : forall s', kg_ok s' -> kg_ok (gen_return p t s')).
  { intros s' H'. unfold gen_return. cbv zeta. destruct (tmode t); try exact H'; apply kg_gate; exact H'. }
  destruct (trest t) as [|[kids|kids|callee] rest].
  - apply Hret; exact H.
  - pose proof (kg_fire_all (if fix_gen cf then Some (tev t) else None) (Some (tev t)) kids
                            (add_log (LG (tev t) (thd t) (tk t)) s) H) as H1.
    destruct rest; [apply Hret|]; exact H1.
  - pose proof (kg_fire_all (if fix_gen cf then Some (tev t) else None) (Some (tev t)) kids
                            (add_log (LG (tev t) (thd t) (tk t)) s) H) as H1.
    apply kg_gate_raise.
    match goal with |- kg_ok (fire_g ?lk _ _ _ (if _ then fire_g _ _ _ _ ?s3 else _)) =>
      eapply (kg_errs lk (tev t) s3); [exact H1|reflexivity] end.
  - assert (H1 : kg_ok (fire_user_g (if fix_gen cf then Some (tev t) else None) (Some (tev t)) callee
                                    (add_log (LG (tev t) (thd t) (tk t)) s))).
    { unfold fire_user_g. apply kg_fire; [exact H|]. intros x [X|X]; discriminate. }
    exact H1.
Qed.

Lemma kg_step : forall cf l s, kg_ok s -> kg_ok (step cf l s).
Proof.
  intros cf [p|p] s H; simpl.
  - destruct (nth_error (queue s) p); [apply kg_dispatch|]; exact H.
  - apply kg_step_task; exact H.
Qed.

Lemma kg_reachable : forall cf s, reachable_cf cf s -> kg_ok s.
Proof.
  intros cf s [roots [ls ->]]. unfold exec.
  assert (H0 : kg_ok (start roots)).
  { unfold start. apply (kg_fire_all None None). intros d x [X|X]; discriminate. }
  revert H0. generalize (start roots). induction ls as [|l r IH]; simpl; intros s0 H0; [exact H0|].
  apply IH. apply kg_step. exact H0.
Qed.

(* after <e>_complete has been fired, neither the exception event nor the <x>_failure event of a
   member x of the closure of e is dispatched *)
Lemma feedback_after : forall s, reachable s -> forall l1 l2 e d x,
  log s = l2 ++ LFC e :: l1 -> In (LD d) l2 -> kind s d = KExc x \/ kind s d = KFail x ->
  ~ gdesc (gpar s) e x.
Proof.
  intros s R l1 l2 e d x Hl Hin Hk G.
  apply (i_order _ _ _ (inv_reachable _ R) l1 l2 e (LD d) d Hl Hin eq_refl).
  eapply gd_step; [|exact G]. apply (kg_reachable fixed s R). assumption.
Qed.

(* ------------------------------------------------------------------ the code before the two repairs *)
Definition legacy_cancel_prog : list ev :=
  [Ev 1 true false false false 1 0 [HP 0 [Ev 2 false true false false 1 0 []] false false]].
Definition legacy_genstep_prog : list ev :=
  [Ev 1 true false false false 1 0
      [HG 0 [GS []; GS [Ev 2 false false false false 1 0 [HP 0 [] false false]]]]].

Lemma legacy_cancel_refuted :
  exists roots ls, let s := exec legacy ls (start roots) in
    queue s = [] /\ tasks s = [] /\ waiters s = [] /\
    exists e, e < next s /\ ev_compl (spec s e) = true /\ ev_canc (spec s e) = false /\
              fc_count e (log s) = 0.
Proof.
  exists legacy_cancel_prog, [LDisp 0; LDisp 0]. vm_compute.
  repeat split. exists 0. repeat split; auto.
Qed.

Lemma legacy_genstep_refuted :
  exists roots ls l1 l2 e y d, let s := exec legacy ls (start roots) in
    log s = l2 ++ LFC e :: l1 /\ In y l2 /\ hentry y d /\ gdesc (gpar s) e d.
Proof.
  exists legacy_genstep_prog, [LDisp 0; LTask 0; LTask 0; LDisp 0],
         [LF 1; LG 0 0 1; LG 0 0 0; LF 0], [LH 1 0], 0, (LH 1 0), 1.
  cbv zeta. split; [vm_compute; reflexivity|]. split; [left; reflexivity|]. split; [reflexivity|].
  eapply gd_step; [|apply gd_refl]. vm_compute. reflexivity.
Qed.

(* the same two programs under the current code *)
Lemma fixed_cancel_ok : let s := exec fixed [LDisp 0; LDisp 0] (start legacy_cancel_prog) in
  fc_count 0 (log s) = 1.
Proof. vm_compute. reflexivity. Qed.
Lemma fixed_genstep_ok : let s := exec fixed [LDisp 0; LTask 0; LTask 0; LDisp 0] (start legacy_genstep_prog) in
  rev (log s) = [LF 0; LG 0 0 0; LG 0 0 1; LF 1; LH 1 0; LFC 0].
Proof. vm_compute. reflexivity. Qed.
