(* Proofs about Model/HttpRobust.v (property C14).  Everything is quantified over all oracle
   answers ([answers] records), all connection states and all histories. *)
From Coq Require Import List NArith ZArith Bool Arith Lia.
From Circ Require Import Model.HttpRobust.
Import ListNotations.
Open Scope N_scope.

Definition effs_of (r : conn * list eff * list tag) : list eff := snd (fst r).
Definition conn_of (r : conn * list eff * list tag) : conn := fst (fst r).
Definition hres_of (r : conn * hres * list tag) : hres := snd (fst r).
Definition hconn_of (r : conn * hres * list tag) : conn := fst (fst r).

Definition okver (v : version) : Prop := v = (1, 0) \/ v = (1, 1).

Lemma resp_version_ok v : okver (resp_version v).
Proof.
  destruct v as [ma mi]. unfold resp_version, okver.
  destruct (ma =? 1); cbn; [|now right].
  destruct (1 <? mi) eqn:E; [now right|].
  apply N.ltb_ge in E.
  assert (H : mi = 0 \/ mi = 1) by lia. destruct H as [-> | ->]; auto.
Qed.

(* ---------- the self-fired events settle, with these effects ---------- *)

Lemma drain_nil c a : drain FUEL [] c a = Some (c, [], []).
Proof. reflexivity. Qed.

Lemma drain_close c a : drain FUEL [IClose] c a = Some (c, [EClose], []).
Proof. reflexivity. Qed.

(* the guarded release never raises KeyError *)
Definition fin (c : conn) : conn := match cli c with Some _ => set_cli c None | None => c end.

Lemma finish_total c : finish c = Some (fin c).
Proof. unfold finish, del_cli, fin. destruct (cli c); reflexivity. Qed.

Lemma fin_cli c : cli (fin c) = None.
Proof. unfold fin. destruct (cli c) eqn:E; [reflexivity|exact E]. Qed.

Lemma drain_httperror code v hd c a :
  drain FUEL [IHttpError code v hd] c a
  = Some (fin c, [EReject code; EWrite code v true hd; EClose], []).
Proof. unfold FUEL. cbn -[finish]. rewrite finish_total. destruct hd; reflexivity. Qed.

Lemma drain_request ri c a :
  drain FUEL [IRequest ri] c a
  = Some (fin c,
          match a_app a with
          | Ret (st, viaerr) =>
              EDispatch :: EWrite st (resp_version (rver ri)) (viaerr || negb (keepalive ri)) (is_head ri)
                        :: (if viaerr || negb (keepalive ri) then [EClose] else [])
          | Raise => [EDispatch; EWrite 500 (resp_version (rver ri)) true (is_head ri); EClose]
          end, []).
Proof.
  unfold FUEL. destruct (a_app a) as [|[st [|]]] eqn:A; cbn -[finish]; rewrite A; cbn -[finish];
    destruct (is_head ri); rewrite finish_total; try destruct (keepalive ri); reflexivity.
Qed.

Lemma drain_exc c a :
  drain FUEL [IExc SRead] c a
  = match a_excreq a with
    | Raise => Some (c, [], [TExcReq])
    | Ret _ => Some (fin c, [EReject 500; EWrite 500 (1, 1) true false; EClose], [TExcReq])
    end.
Proof. unfold FUEL. cbn -[finish]. destruct (a_excreq a); [reflexivity|]. cbn -[finish]. rewrite finish_total. reflexivity. Qed.

(* ---------- what _on_read can return ---------- *)

Inductive hres_ok : hres -> Prop :=
| ok_raise : hres_ok HRaise
| ok_wait : hres_ok (HRet [])
| ok_close : hres_ok (HRet [IClose])
| ok_error code v hd : In code [301; 400; 505] -> hres_ok (HRet [IHttpError code (resp_version v) hd])
| ok_request ri : hres_ok (HRet [IRequest ri]).

Lemma reject_ok c code v hd tags : buf c = true -> In code [301; 400; 505] ->
  hres_ok (hres_of (reject c code v hd tags)).
Proof. intros B I. unfold reject, del_buf. rewrite B. cbn. now constructor. Qed.

Lemma body_gate_ok c a f ri tags : buf c = true -> hres_ok (hres_of (body_gate c a f ri tags)).
Proof.
  intros B. unfold body_gate.
  destruct (a_clen a) as [|n]; [constructor|].
  destruct ((negb (n =? 0)%Z || te_chunked ri) && negb (mc f)); [constructor|].
  destruct (n <? 0)%Z; [apply reject_ok; cbn; auto|].
  destruct (negb (is10 (rver ri)) && negb (has_host ri)); [apply reject_ok; cbn; auto|].
  destruct (host_ctl ri); [apply reject_ok; cbn; auto|].
  destruct (a_path a) as [|[|]]; [constructor| |constructor; cbn; auto].
  unfold del_buf. rewrite B. constructor.
Qed.

Lemma headers_done_ok c a f tags : buf c = true -> hres_ok (hres_of (headers_done c a f tags)).
Proof.
  intros B. unfold headers_done.
  destruct (cli c) as [ri|]; [now apply body_gate_ok|].
  destruct (a_req a) as [|ri]; [constructor|].
  destruct (negb (fst (rver ri) =? 1)); [constructor; cbn; auto|].
  now apply body_gate_ok.
Qed.

Lemma after_exec_ok c a tags : buf c = true -> hres_ok (hres_of (after_exec c a tags)).
Proof.
  intros B. unfold after_exec.
  destruct (a_exec a) as [|f]; [constructor|].
  destruct (negb (hc f)); [|now apply headers_done_ok].
  destruct (perrno f) as [e|]; [|constructor].
  destruct (a_errreq a) as [|[v hd]]; [constructor|].
  apply reject_ok; cbn; auto.
Qed.

Lemma on_read_ok secure c a : hres_ok (hres_of (on_read secure c a)).
Proof.
  unfold on_read. destruct (buf c) eqn:B; [now apply after_exec_ok|].
  destruct (a_ssl a) as [|b]; [constructor|].
  destruct (b && negb secure); [constructor|].
  now apply after_exec_ok.
Qed.

(* ---------- the shape of what one read produces ---------- *)

Inductive shape : list eff -> Prop :=
| sh_wait : shape []
| sh_close : shape [EClose]
| sh_reject code v hd : In code [301; 400; 500; 505] -> okver v ->
    shape [EReject code; EWrite code v true hd; EClose]
| sh_request st v cl hd : okver v ->
    shape (EDispatch :: EWrite st v cl hd :: (if cl then [EClose] else [])).

Theorem read_shape secure c a : shape (effs_of (read_conn secure c a)).
Proof.
  unfold read_conn. pose proof (on_read_ok secure c a) as H.
  destruct (on_read secure c a) as [[c1 h] tags]. unfold hres_of in H. cbn in H.
  inversion H; subst.
  - rewrite drain_exc. destruct (a_excreq a); cbn; [constructor|].
    apply sh_reject; [cbn; auto|now right].
  - rewrite drain_nil. constructor.
  - rewrite drain_close. constructor.
  - rewrite drain_httperror. cbn. apply sh_reject; [|apply resp_version_ok].
    cbn in *. intuition.
  - rewrite drain_request. cbn. destruct (a_app a) as [|[st viaerr]]; [apply (sh_request 500 _ true)|apply sh_request]; apply resp_version_ok.
Qed.

(* corollaries in the words of the property *)

Definition is_write (e : eff) : bool := match e with EWrite _ _ _ _ => true | _ => false end.
Definition n_writes (l : list eff) : nat := length (filter is_write l).

Ltac inl H := cbn in H; repeat (destruct H as [H|H]; [try discriminate H|]); try (now destruct H).

Lemma shape_never_crash l : shape l -> ~ In ECrash l /\ ~ In EOutOfFuel l.
Proof.
  intros S. destruct S as [| |k v hd Hk Hv|st v cl hd Hv]; try destruct cl; split; intros F; inl F.
Qed.

Lemma shape_one l : shape l -> (n_writes l <= 1)%nat.
Proof. intros S. destruct S as [| |k v hd Hk Hv|st v cl hd Hv]; try destruct cl; cbn; auto. Qed.

Lemma shape_reject l code : shape l -> In (EReject code) l ->
  ~ In EDispatch l /\ In code [301; 400; 500; 505]
  /\ exists v hd, okver v /\ l = [EReject code; EWrite code v true hd; EClose].
Proof.
  intros S I. destruct S as [| |k v hd Hk Hv|st v cl hd Hv]; try destruct cl; inl I.
  injection I as ->. split; [intros F; inl F|]. split; [exact Hk|]. exists v, hd. auto.
Qed.

Lemma shape_close l st v hd : shape l -> In (EWrite st v true hd) l ->
  exists pre, l = pre ++ [EWrite st v true hd; EClose].
Proof.
  intros S I. destruct S as [| |k v' hd' Hk Hv|st' v' cl hd' Hv]; try destruct cl; inl I.
  all: try (injection I as -> -> ->; first [now exists [EReject st] | now exists [EDispatch]]).
  all: try discriminate I.
Qed.

Lemma shape_version l st v cl hd : shape l -> In (EWrite st v cl hd) l -> okver v.
Proof.
  intros S I. destruct S as [| |k v' hd' Hk Hv|st' v' cl' hd' Hv]; try destruct cl'; inl I;
    injection I as _ <- _ _; exact Hv.
Qed.

Theorem never_crash secure c a :
  ~ In ECrash (effs_of (read_conn secure c a)) /\ ~ In EOutOfFuel (effs_of (read_conn secure c a)).
Proof. apply shape_never_crash, read_shape. Qed.

Theorem one_response secure c a : (n_writes (effs_of (read_conn secure c a)) <= 1)%nat.
Proof. apply shape_one, read_shape. Qed.

Theorem rejected_not_dispatched secure c a code :
  In (EReject code) (effs_of (read_conn secure c a)) ->
  ~ In EDispatch (effs_of (read_conn secure c a))
  /\ In code [301; 400; 500; 505]
  /\ exists v hd, okver v /\ effs_of (read_conn secure c a) = [EReject code; EWrite code v true hd; EClose].
Proof. apply shape_reject, read_shape. Qed.

Theorem close_when_said secure c a st v hd :
  In (EWrite st v true hd) (effs_of (read_conn secure c a)) ->
  exists pre, effs_of (read_conn secure c a) = pre ++ [EWrite st v true hd; EClose].
Proof. apply shape_close, read_shape. Qed.

Theorem version_spoken secure c a st v cl hd :
  In (EWrite st v cl hd) (effs_of (read_conn secure c a)) -> okver v.
Proof. apply shape_version, read_shape. Qed.

(* a parser error before the end of the headers is answered 400 and nothing is kept *)
Theorem parser_error_reported secure c a f e v hd :
  buf c = true \/ a_ssl a = Ret false ->
  a_exec a = Ret f -> hc f = false -> perrno f = Some e -> a_errreq a = Ret (v, hd) ->
  effs_of (read_conn secure c a)
  = [EReject 400; EWrite 400 (resp_version (match e with BadFirstLine => (1, 1) | _ => v end)) true
                         (match e with BadFirstLine => false | _ => hd end); EClose]
  /\ conn_of (read_conn secure c a) = empty_conn.
Proof.
  intros Hs Hx Hh He Hr. unfold read_conn, on_read.
  assert (E : forall c0, fin (set_buf c0 false) = empty_conn).
  { intros [b [r|]]; reflexivity. }
  assert (G : forall c1 tags, buf c1 = true ->
    after_exec c1 a tags
    = (set_buf c1 false,
       HRet [IHttpError 400 (resp_version (match e with BadFirstLine => (1, 1) | _ => v end))
                        (match e with BadFirstLine => false | _ => hd end)],
       (tags ++ [TExec]) ++ [TErrReq])).
  { intros c1 tags B. unfold after_exec. rewrite Hx, Hh. cbn. rewrite He, Hr.
    unfold reject, del_buf. rewrite B. reflexivity. }
  destruct (buf c) eqn:B.
  - rewrite (G c [] B). rewrite drain_httperror. cbn [effs_of conn_of fst snd]. split; [reflexivity|apply E].
  - destruct Hs as [Hs|Hs]; [discriminate|]. rewrite Hs. cbn [andb].
    rewrite (G (set_buf c true) [TSsl] eq_refl). rewrite drain_httperror. cbn [effs_of conn_of fst snd].
    split; [reflexivity|]. destruct c as [b [r|]]; reflexivity.
Qed.

(* an oracle that raises on the read path is answered 500 (unless the exception handler's own
   Request constructor raises too: then nothing is sent) *)
Theorem raise_answered secure c a :
  hres_of (on_read secure c a) = HRaise ->
  effs_of (read_conn secure c a)
  = match a_excreq a with Raise => [] | Ret _ => [EReject 500; EWrite 500 (1, 1) true false; EClose] end.
Proof.
  unfold read_conn, hres_of. destruct (on_read secure c a) as [[c1 h] tags]. cbn [fst snd]. intros ->.
  rewrite drain_exc. destruct (a_excreq a); reflexivity.
Qed.

(* a request event is dispatched only for a message that passed every test of _on_read *)
Definition accepted (c : conn) (a : answers) (ri : reqinfo) : Prop :=
  exists f n, a_exec a = Ret f /\ hc f = true
    /\ (cli c = Some ri \/ (cli c = None /\ a_req a = Ret ri /\ fst (rver ri) = 1))
    /\ a_clen a = Ret n /\ (0 <= n)%Z
    /\ ((n <> 0%Z \/ te_chunked ri = true) -> mc f = true)
    /\ (is10 (rver ri) = true \/ has_host ri = true) /\ host_ctl ri = false
    /\ a_path a = Ret PCanon.

Lemma body_gate_request c a f ri tags ri' :
  hres_of (body_gate c a f ri tags) = HRet [IRequest ri'] ->
  ri' = ri /\ exists n, a_clen a = Ret n /\ (0 <= n)%Z
    /\ ((n <> 0%Z \/ te_chunked ri = true) -> mc f = true)
    /\ (is10 (rver ri) = true \/ has_host ri = true) /\ host_ctl ri = false /\ a_path a = Ret PCanon.
Proof.
  unfold body_gate, hres_of, reject.
  destruct (a_clen a) as [|n]; [discriminate|].
  destruct ((negb (n =? 0)%Z || te_chunked ri) && negb (mc f)) eqn:G; [discriminate|].
  destruct (n <? 0)%Z eqn:Neg; [destruct (del_buf c); discriminate|].
  destruct (negb (is10 (rver ri)) && negb (has_host ri)) eqn:Hh; [destruct (del_buf c); discriminate|].
  destruct (host_ctl ri) eqn:Hc; [destruct (del_buf c); discriminate|].
  destruct (a_path a) as [|[|]]; [discriminate| |discriminate].
  destruct (del_buf c); [|discriminate]. cbn. intros [= <-]. split; [reflexivity|].
  exists n. repeat split; auto.
  - apply Z.ltb_ge in Neg. exact Neg.
  - intros Hb. apply andb_false_iff in G as [G|G].
    + apply orb_false_iff in G as [G1 G2]. apply negb_false_iff, Z.eqb_eq in G1.
      destruct Hb as [Hb|Hb]; [contradiction|congruence].
    + now apply negb_false_iff in G.
  - apply andb_false_iff in Hh as [Hh|Hh]; apply negb_false_iff in Hh; auto.
Qed.

Lemma after_exec_request c a tags ri :
  hres_of (after_exec c a tags) = HRet [IRequest ri] -> accepted c a ri.
Proof.
  unfold after_exec, hres_of.
  destruct (a_exec a) as [|f] eqn:X; [discriminate|].
  destruct (hc f) eqn:Hh; cbn [negb].
  2:{ destruct (perrno f); [|discriminate]. destruct (a_errreq a) as [|[v0 h0]]; [discriminate|].
      unfold reject. destruct (del_buf c); discriminate. }
  unfold headers_done. destruct (cli c) as [r0|] eqn:C.
  - intros H. apply body_gate_request in H as (-> & n & Hn & H0 & Hm & Hho & Hct & Hp).
    exists f, n. repeat split; auto.
  - destruct (a_req a) as [|r1] eqn:Rq; [discriminate|].
    destruct (fst (rver r1) =? 1) eqn:Mj; cbn [negb]; [|discriminate].
    intros H. apply body_gate_request in H as (-> & n & Hn & H0 & Hm & Hho & Hct & Hp).
    exists f, n. repeat split; auto. right. repeat split; auto. now apply N.eqb_eq.
Qed.

Theorem dispatch_sound secure c a :
  In EDispatch (effs_of (read_conn secure c a)) ->
  exists ri, accepted (if buf c then c else set_buf c true) a ri.
Proof.
  unfold read_conn. pose proof (on_read_ok secure c a) as H.
  destruct (on_read secure c a) as [[c1 h] tags] eqn:E. unfold hres_of in H. cbn in H.
  inversion H; subst.
  - rewrite drain_exc. destruct (a_excreq a); cbn; intros F;
      repeat (destruct F as [F|F]; [discriminate|]); destruct F.
  - rewrite drain_nil. intros [].
  - rewrite drain_close. intros [F|[]]. discriminate.
  - rewrite drain_httperror. cbn. intros F. repeat (destruct F as [F|F]; [discriminate|]). destruct F.
  - intros _. exists ri. unfold on_read in E. destruct (buf c) eqn:B.
    + apply (after_exec_request c a []). unfold hres_of. now rewrite E.
    + destruct (a_ssl a) as [|b]; [discriminate|]. destruct (b && negb secure); [discriminate|].
      apply (after_exec_request (set_buf c true) a [TSsl]). unfold hres_of. now rewrite E.
Qed.

(* ---------- histories: release on disconnect, isolation, reachable-state invariant ---------- *)

Lemma run_app secure t h1 h2 :
  fst (run secure t (h1 ++ h2)) = fst (run secure (fst (run secure t h1)) h2).
Proof.
  revert t. induction h1 as [|o r IH]; intros t; [reflexivity|].
  cbn. destruct (step secure t o) as [t1 e] eqn:S.
  specialize (IH t1). destruct (run secure t1 (r ++ h2)) as [t2 es].
  destruct (run secure t1 r) as [t3 es3]. cbn in *. exact IH.
Qed.

Lemma step_other secure t o s : op_sock o <> s -> fst (step secure t o) s = t s.
Proof.
  intros N. destruct o as [s' a|s']; cbn in *.
  - destruct (read_conn secure (t s') a) as [[c effs] tg]. cbn. unfold upd.
    destruct (Nat.eqb s s') eqn:E; [apply Nat.eqb_eq in E; congruence|reflexivity].
  - unfold upd. destruct (Nat.eqb s s') eqn:E; [apply Nat.eqb_eq in E; congruence|reflexivity].
Qed.

Theorem isolation secure h t s :
  (forall o, In o h -> op_sock o <> s) -> fst (run secure t h) s = t s.
Proof.
  revert t. induction h as [|o r IH]; intros t H; [reflexivity|].
  cbn. destruct (step secure t o) as [t1 e] eqn:S.
  specialize (IH t1 (fun o' I => H o' (or_intror I))).
  destruct (run secure t1 r) as [t2 es]. cbn in *. rewrite IH.
  change t1 with (fst (t1, e)). rewrite <- S. apply step_other. apply H. now left.
Qed.

Theorem released secure h s t :
  fst (run secure t (h ++ [Disc s])) s = empty_conn.
Proof.
  rewrite run_app. cbn. unfold upd. now rewrite Nat.eqb_refl.
Qed.

Theorem stays_released secure h h' s t :
  (forall o, In o h' -> op_sock o <> s) ->
  fst (run secure t (h ++ [Disc s] ++ h')) s = empty_conn.
Proof.
  intros H. rewrite app_assoc, run_app, isolation; [apply released|exact H].
Qed.

(* between events: request/response state exists only next to parser state, and only for a
   request whose major version was accepted *)
Definition inv (c : conn) : Prop :=
  forall ri, cli c = Some ri -> buf c = true /\ fst (rver ri) = 1.

Lemma inv_empty : inv empty_conn.
Proof. intros ri H. discriminate. Qed.

Definition st_ok (c1 : conn) (h : hres) : Prop :=
  match h with
  | HRaise => inv c1
  | HRet [] => inv c1
  | HRet [IClose] => cli c1 = None
  | _ => True
  end.

Lemma reject_st c code v hd tags : st_ok (hconn_of (reject c code v hd tags)) (hres_of (reject c code v hd tags)).
Proof. unfold reject. destruct (del_buf c); exact I. Qed.

Lemma body_gate_st c a f ri tags :
  inv c -> st_ok (hconn_of (body_gate c a f ri tags)) (hres_of (body_gate c a f ri tags)).
Proof.
  intros Hi. unfold body_gate.
  destruct (a_clen a) as [|n]; [exact Hi|].
  destruct ((negb (n =? 0)%Z || te_chunked ri) && negb (mc f)); [exact Hi|].
  destruct (n <? 0)%Z; [apply reject_st|].
  destruct (negb (is10 (rver ri)) && negb (has_host ri)); [apply reject_st|].
  destruct (host_ctl ri); [apply reject_st|].
  destruct (a_path a) as [|[|]]; [exact Hi| |exact I].
  destruct (del_buf c); exact I.
Qed.

Lemma after_exec_st c a tags :
  inv c -> buf c = true -> st_ok (hconn_of (after_exec c a tags)) (hres_of (after_exec c a tags)).
Proof.
  intros Hi B. unfold after_exec.
  destruct (a_exec a) as [|f]; [exact Hi|].
  destruct (negb (hc f)).
  - destruct (perrno f) as [e|]; [|exact Hi].
    destruct (a_errreq a) as [|[v hd]]; [exact Hi|apply reject_st].
  - unfold headers_done. destruct (cli c) as [r0|] eqn:C; [now apply body_gate_st|].
    destruct (a_req a) as [|r1]; [exact Hi|].
    destruct (fst (rver r1) =? 1) eqn:Mj; cbn [negb]; [|exact I].
    apply body_gate_st. intros ri H. cbn in H. injection H as <-. split; [exact B|now apply N.eqb_eq].
Qed.

Lemma on_read_st secure c a :
  inv c -> st_ok (hconn_of (on_read secure c a)) (hres_of (on_read secure c a)).
Proof.
  intros Hi. unfold on_read. destruct (buf c) eqn:B; [now apply after_exec_st|].
  assert (Hi' : inv (set_buf c true)).
  { intros ri H. cbn in H. destruct (Hi ri H) as [F _]. congruence. }
  destruct (a_ssl a) as [|b]; [exact Hi'|].
  destruct (b && negb secure); [reflexivity|].
  now apply after_exec_st.
Qed.

Lemma inv_cleared c : inv (fin c).
Proof. intros ri H. rewrite fin_cli in H. discriminate. Qed.

Theorem read_conn_inv secure c a : inv c -> inv (conn_of (read_conn secure c a)).
Proof.
  intros Hi. pose proof (on_read_st secure c a Hi) as S. pose proof (on_read_ok secure c a) as H.
  unfold read_conn, conn_of. unfold hconn_of, hres_of in *.
  destruct (on_read secure c a) as [[c1 h] tags]. cbn [fst snd] in *.
  inversion H; subst; cbn in S.
  - rewrite drain_exc. destruct (a_excreq a); cbn; [exact S|apply inv_cleared].
  - rewrite drain_nil. exact S.
  - rewrite drain_close. cbn. intros ri F. congruence.
  - rewrite drain_httperror. cbn. apply inv_cleared.
  - rewrite drain_request. cbn. apply inv_cleared.
Qed.

Theorem run_inv secure h t : (forall s, inv (t s)) -> forall s, inv (fst (run secure t h) s).
Proof.
  revert t. induction h as [|o r IH]; intros t Ht s; [apply Ht|].
  cbn. destruct (step secure t o) as [t1 e] eqn:S.
  assert (H1 : forall x, inv (t1 x)).
  { intros x. destruct o as [s' a|s']; cbn in S.
    - pose proof (read_conn_inv secure (t s') a (Ht s')) as R. unfold conn_of in R.
      destruct (read_conn secure (t s') a) as [[c effs] tg]. injection S as <- _. cbn in R.
      unfold upd. destruct (Nat.eqb x s'); [exact R|apply Ht].
    - injection S as <- _. unfold upd. destruct (Nat.eqb x s'); [apply inv_empty|apply Ht]. }
  specialize (IH t1 H1 s). destruct (run secure t1 r) as [t2 es]. exact IH.
Qed.

Corollary reachable_inv secure h s : inv (fst (run secure empty_tables h) s).
Proof. apply run_inv. intros x. apply inv_empty. Qed.

(* ================= second layer: classify ================= *)

Definition dirty (c : N) : bool := (c =? 92) || (128 <=? c) || (c =? 91) || (c =? 93).
Definition clean (bs : list N) : Prop := forall c, In c bs -> dirty c = false.

Lemma cut_crlf_in l : forall x y, cut_crlf l = Some (x, y) ->
  (forall c, In c x -> In c l) /\ (forall c, In c y -> In c l).
Proof.
  induction l as [|a t IH]; intros x y H; [discriminate|].
  cbn [cut_crlf] in H. destruct t as [|b t']; [discriminate|].
  destruct ((a =? 13) && (b =? 10)).
  - injection H as <- <-. split; [intros c []|]. intros c I. right. right. exact I.
  - destruct (cut_crlf (b :: t')) as [[x' y']|] eqn:E; [|discriminate]. injection H as <- <-.
    destruct (IH x' y' eq_refl) as [H1 H2]. split.
    + intros c [->|I]; [now left|right; now apply H1].
    + intros c I. right. now apply H2.
Qed.

Lemma cut_crlf2_in l : forall x, cut_crlf2 l = Some x -> forall c, In c x -> In c l.
Proof.
  induction l as [|a t IH]; intros x H; [discriminate|].
  cbn [cut_crlf2] in H. destruct (starts_with [13; 10; 13; 10] (a :: t)).
  - injection H as <-. intros c [].
  - destruct (cut_crlf2 t) as [x'|]; [|discriminate]. injection H as <-.
    intros c [->|I]; [now left|right; now apply (IH x' eq_refl)].
Qed.

Lemma drop_sp_in l c : In c (drop_sp l) -> In c l.
Proof.
  induction l as [|a t IH]; [intros []|]. cbn. destruct (is_sp a); [intros I; right; now apply IH|auto].
Qed.

Lemma take_tok_in l : forall x y, take_tok l = (x, y) ->
  (forall c, In c x -> In c l) /\ (forall c, In c y -> In c l).
Proof.
  induction l as [|a t IH]; intros x y H; cbn in H.
  - injection H as <- <-. split; intros c [].
  - destruct (is_sp a).
    + injection H as <- <-. split; [intros c []|auto].
    + destruct (take_tok t) as [x' y'] eqn:E. injection H as <- <-. destruct (IH x' y' eq_refl) as [H1 H2].
      split; [intros c [->|I]; [now left|right; now apply H1]|intros c I; right; now apply H2].
Qed.

Lemma existsb_clean {l : list N} (f : N -> bool) :
  (forall c, In c l -> f c = false) -> existsb f l = false.
Proof. induction l as [|a t IH]; intros H; [reflexivity|]. cbn. rewrite (H a (or_introl eq_refl)). apply IH. intros c I. apply H. now right. Qed.

Lemma first_line_definite line : clean line -> first_line line <> Unmodelled.
Proof.
  intros C. unfold first_line.
  rewrite (existsb_clean (fun c => (c =? 92) || (128 <=? c))).
  2:{ intros c I. specialize (C c I). unfold dirty in C. repeat (apply orb_false_iff in C as [C ?]). now rewrite C, H1. }
  unfold split3. destruct (take_tok (drop_sp line)) as [t1 r1] eqn:E1.
  destruct (take_tok (drop_sp r1)) as [t2 r2] eqn:E2.
  destruct t1 as [|a1 t1]; [discriminate|]. destruct t2 as [|a2 t2]; [discriminate|].
  destruct (drop_sp r2) as [|a3 r3]; [discriminate|].
  destruct (negb (method_ok (a1 :: t1))); [discriminate|].
  rewrite (existsb_clean (fun c => (c =? 91) || (c =? 93))).
  - destruct (has_fragment (a2 :: t2)); [discriminate|]. destruct (version_ok (a3 :: r3)); discriminate.
  - intros c I. apply (take_tok_in _ _ _ E2) in I. apply drop_sp_in in I.
    apply (take_tok_in _ _ _ E1) in I. apply drop_sp_in in I. specialize (C c I). unfold dirty in C.
    repeat (apply orb_false_iff in C as [C ?]). now rewrite H0, H.
Qed.

Lemma header_block_definite blk : clean blk -> header_block blk <> Unmodelled.
Proof.
  intros C. unfold header_block. rewrite (existsb_clean (fun c => c =? 92)).
  - destruct (split_crlf (length blk) blk) as [|l1 ls]; [discriminate|].
    destruct (header_line_ok l1 && forallb (fun l => is_cont l || header_line_ok l) ls); discriminate.
  - intros c I. specialize (C c I). unfold dirty in C. repeat (apply orb_false_iff in C as [C ?]). exact C.
Qed.

(* on every byte string without backslash, bytes >= 128 and square brackets the verdict is definite *)
Theorem classify_definite bs : clean bs -> classify bs <> Unmodelled.
Proof.
  intros C. unfold classify. destruct (cut_crlf bs) as [[line rest]|] eqn:E; [|discriminate].
  destruct (cut_crlf_in _ _ _ E) as [H1 H2].
  assert (CL : clean line) by (intros c I; apply C, H1, I).
  pose proof (first_line_definite line CL) as F.
  destruct (first_line line); try discriminate; try (exfalso; now apply F).
  destruct (starts_with [13; 10] rest); [discriminate|].
  destruct (cut_crlf2 rest) as [blk|] eqn:E2; [|discriminate].
  apply header_block_definite. intros c I. apply C, H2. eapply cut_crlf2_in; eauto.
Qed.

(* composition with the connection model *)
Theorem bad_is_rejected secure c a bs e v hd :
  classify bs = Bad e -> exec_agrees a (classify bs) ->
  buf c = true \/ a_ssl a = Ret false -> a_errreq a = Ret (v, hd) ->
  effs_of (read_conn secure c a)
  = [EReject 400; EWrite 400 (resp_version (match e with BadFirstLine => (1, 1) | _ => v end)) true
                         (match e with BadFirstLine => false | _ => hd end); EClose]
  /\ ~ In EDispatch (effs_of (read_conn secure c a))
  /\ conn_of (read_conn secure c a) = empty_conn.
Proof.
  intros Hc Ha Hs Hr. rewrite Hc in Ha. destruct Ha as [m Hx].
  destruct (parser_error_reported secure c a _ e v hd Hs Hx eq_refl eq_refl Hr) as [E1 E2].
  split; [exact E1|]. split; [|exact E2]. rewrite E1. intros F. inl F.
Qed.

Theorem needmore_waits secure c a bs :
  classify bs = NeedMore -> exec_agrees a (classify bs) ->
  buf c = true \/ a_ssl a = Ret false ->
  effs_of (read_conn secure c a) = [] /\ buf (conn_of (read_conn secure c a)) = true.
Proof.
  intros Hc Ha Hs. rewrite Hc in Ha. destruct Ha as [m Hx].
  unfold read_conn, on_read. destruct (buf c) eqn:B.
  - unfold after_exec. rewrite Hx. cbn. split; [reflexivity|exact B].
  - destruct Hs as [Hs|Hs]; [discriminate|]. rewrite Hs. cbn [andb]. unfold after_exec. rewrite Hx. cbn. split; reflexivity.
Qed.

Theorem classify_total bs : clean bs ->
  classify bs = NeedMore \/ (exists e, classify bs = Bad e /\ e <> InvalidChunk) \/ classify bs = HeadersOk.
Proof.
  intros C. pose proof (classify_definite bs C) as D.
  assert (NC : classify bs <> Bad InvalidChunk).
  { unfold classify. destruct (cut_crlf bs) as [[line rest]|]; [|discriminate].
    assert (F : first_line line <> Bad InvalidChunk).
    { unfold first_line. destruct (existsb _ line); [discriminate|]. destruct (split3 line) as [[[m t] v]|]; [|discriminate].
      destruct (negb (method_ok m)); [discriminate|]. destruct (existsb _ t); [discriminate|].
      destruct (has_fragment t); [discriminate|]. destruct (version_ok v); discriminate. }
    destruct (first_line line) as [|e| |]; try discriminate.
    - intros H. apply F. exact H.
    - destruct (starts_with [13; 10] rest); [discriminate|]. destruct (cut_crlf2 rest) as [blk|]; [|discriminate].
      unfold header_block. destruct (existsb _ blk); [discriminate|]. destruct (split_crlf _ blk); [discriminate|].
      destruct (_ && _); discriminate. }
  destruct (classify bs) as [|e| |]; auto.
  - right. left. exists e. split; [reflexivity|]. intros ->. now apply NC.
  - exfalso. now apply D.
Qed.

(* ================= bursts ================= *)

Lemma cascade_shape c a hr : hres_ok hr -> shape (effs_of (cascade c a hr)).
Proof.
  intros H. unfold cascade. inversion H; subst.
  - rewrite drain_exc. destruct (a_excreq a); cbn; [constructor|]. apply sh_reject; [cbn; auto|now right].
  - rewrite drain_nil. constructor.
  - rewrite drain_close. constructor.
  - rewrite drain_httperror. cbn. apply sh_reject; [|apply resp_version_ok]. cbn in *. intuition.
  - rewrite drain_request. cbn. destruct (a_app a) as [|[st viaerr]]; [apply (sh_request 500 _ true)|apply sh_request]; apply resp_version_ok.
Qed.

(* the cascade leaves the connection as it is or releases the pair *)
Lemma cascade_conn c a hr : hres_ok hr -> conn_of (cascade c a hr) = c \/ conn_of (cascade c a hr) = fin c.
Proof.
  intros H. unfold cascade. inversion H; subst.
  - rewrite drain_exc. destruct (a_excreq a); cbn; auto.
  - rewrite drain_nil. now left.
  - rewrite drain_close. now left.
  - rewrite drain_httperror. now right.
  - rewrite drain_request. now right.
Qed.

Definition pend_ok (p : pending) : Prop := hres_ok (snd p).

Lemma phase1_ok secure h : forall t, Forall pend_ok (snd (fst (phase1 secure t h))).
Proof.
  induction h as [|o r IH]; intros t; [constructor|]. destruct o as [s a|s]; cbn [phase1].
  - pose proof (on_read_ok secure (t s) a) as H. destruct (on_read secure (t s) a) as [[c hr] tags].
    specialize (IH (upd t s c)). destruct (phase1 secure (upd t s c) r) as [[t' ps] tg]. cbn in *.
    constructor; [exact H|exact IH].
  - apply IH.
Qed.

Lemma phase2_shape ps : forall t, Forall pend_ok ps ->
  Forall (fun x => shape (snd x)) (snd (fst (phase2 t ps))).
Proof.
  induction ps as [|[[s a] hr] r IH]; intros t F; [constructor|]. inversion F as [|? ? Hp Hr]; subst.
  cbn [phase2]. pose proof (cascade_shape (t s) a hr Hp) as S.
  destruct (cascade (t s) a hr) as [[c effs] tg]. specialize (IH (upd t s c) Hr).
  destruct (phase2 (upd t s c) r) as [[t' es] tgs]. cbn in *. constructor; [exact S|exact IH].
Qed.

(* every read of a burst, whatever was queued around it, has one of the four outcomes *)
Theorem burst_outcome secure h : Forall (fun x => shape (snd x)) (snd (burst secure h)).
Proof.
  unfold burst. pose proof (phase1_ok secure h empty_tables) as F.
  destruct (phase1 secure empty_tables h) as [[t1 ps] tg]. cbn in F.
  pose proof (phase2_shape ps t1 F) as S. destruct (phase2 t1 ps) as [[t2 es] tgs]. exact S.
Qed.

Lemma fin_empty : fin empty_conn = empty_conn.
Proof. reflexivity. Qed.

Lemma phase2_keeps_empty ps : forall t s, Forall pend_ok ps -> t s = empty_conn ->
  fst (fst (phase2 t ps)) s = empty_conn.
Proof.
  induction ps as [|[[s' a] hr] r IH]; intros t s F E; [exact E|]. inversion F as [|? ? Hp Hr]; subst.
  cbn [phase2]. pose proof (cascade_conn (t s') a hr Hp) as C.
  destruct (cascade (t s') a hr) as [[c effs] tg]. unfold conn_of in C. cbn in C.
  specialize (IH (upd t s' c) s Hr). destruct (phase2 (upd t s' c) r) as [[t' es] tgs]. cbn in *.
  apply IH. unfold upd. destruct (Nat.eqb s s') eqn:Q; [|exact E].
  apply Nat.eqb_eq in Q. subst s'. rewrite E in C. destruct C as [-> | ->]; reflexivity.
Qed.

Lemma phase1_app secure h1 h2 : forall t,
  fst (fst (phase1 secure t (h1 ++ h2))) = fst (fst (phase1 secure (fst (fst (phase1 secure t h1))) h2)).
Proof.
  induction h1 as [|o r IH]; intros t; [reflexivity|]. destruct o as [s a|s]; cbn [phase1 app].
  - destruct (on_read secure (t s) a) as [[c hr] tags]. specialize (IH (upd t s c)).
    destruct (phase1 secure (upd t s c) (r ++ h2)) as [[t' ps] tg].
    destruct (phase1 secure (upd t s c) r) as [[t'' ps'] tg']. cbn in *. exact IH.
  - apply IH.
Qed.

Lemma phase1_other secure h : forall t s, (forall o, In o h -> op_sock o <> s) ->
  fst (fst (phase1 secure t h)) s = t s.
Proof.
  induction h as [|o r IH]; intros t s H; [reflexivity|]. destruct o as [s' a|s']; cbn [phase1].
  - assert (N : s' <> s) by (apply (H (Read s' a)); now left).
    destruct (on_read secure (t s') a) as [[c hr] tags].
    specialize (IH (upd t s' c) s (fun o I => H o (or_intror I))).
    destruct (phase1 secure (upd t s' c) r) as [[t' ps] tg]. cbn in *. rewrite IH. unfold upd.
    destruct (Nat.eqb s s') eqn:Q; [apply Nat.eqb_eq in Q; congruence|reflexivity].
  - assert (N : s' <> s) by (apply (H (Disc s')); now left).
    rewrite (IH (upd t s' empty_conn) s (fun o I => H o (or_intror I))). unfold upd.
    destruct (Nat.eqb s s') eqn:Q; [apply Nat.eqb_eq in Q; congruence|reflexivity].
Qed.

(* a connection whose disconnect is queued after its last read leaves nothing behind, although the cascades of
   its reads run after the disconnect *)
Theorem burst_released secure h1 h2 s :
  (forall o, In o h2 -> op_sock o <> s) ->
  fst (burst secure (h1 ++ Disc s :: h2)) s = empty_conn.
Proof.
  intros H. unfold burst.
  pose proof (phase1_ok secure (h1 ++ Disc s :: h2) empty_tables) as F.
  pose proof (phase1_app secure h1 (Disc s :: h2) empty_tables) as A.
  destruct (phase1 secure empty_tables (h1 ++ Disc s :: h2)) as [[t1 ps] tg]. cbn in F, A.
  assert (E : t1 s = empty_conn).
  { rewrite A. cbn [phase1]. rewrite phase1_other; [|exact H]. unfold upd. now rewrite Nat.eqb_refl. }
  pose proof (phase2_keeps_empty ps t1 s F E) as K. destruct (phase2 t1 ps) as [[t2 es] tgs]. exact K.
Qed.

Theorem burst_never_crash secure h s effs :
  In (s, effs) (snd (burst secure h)) -> ~ In ECrash effs /\ ~ In EOutOfFuel effs /\ (n_writes effs <= 1)%nat.
Proof.
  intros I. pose proof (burst_outcome secure h) as F. rewrite Forall_forall in F. specialize (F _ I). cbn in F.
  destruct (shape_never_crash _ F) as [A B]. repeat split; auto. now apply shape_one.
Qed.

(* ================= a connection that is left open is left clean ================= *)

Lemma body_gate_request_buf c a f ri tags ri' :
  hres_of (body_gate c a f ri tags) = HRet [IRequest ri'] -> buf (hconn_of (body_gate c a f ri tags)) = false.
Proof.
  unfold body_gate, hres_of, hconn_of, reject.
  destruct (a_clen a) as [|n]; [discriminate|].
  destruct ((negb (n =? 0)%Z || te_chunked ri) && negb (mc f)); [discriminate|].
  destruct (n <? 0)%Z; [destruct (del_buf c); discriminate|].
  destruct (negb (is10 (rver ri)) && negb (has_host ri)); [destruct (del_buf c); discriminate|].
  destruct (host_ctl ri); [destruct (del_buf c); discriminate|].
  destruct (a_path a) as [|[|]]; [discriminate| |discriminate].
  unfold del_buf. destruct (buf c); [|discriminate]. cbn. reflexivity.
Qed.

Lemma after_exec_request_buf c a tags ri :
  hres_of (after_exec c a tags) = HRet [IRequest ri] -> buf (hconn_of (after_exec c a tags)) = false.
Proof.
  unfold after_exec.
  destruct (a_exec a) as [|f]; [discriminate|].
  destruct (negb (hc f)).
  - destruct (perrno f); [|discriminate]. destruct (a_errreq a) as [|[v0 h0]]; [discriminate|].
    unfold reject, hres_of. destruct (del_buf c); discriminate.
  - unfold headers_done. destruct (cli c).
    + apply body_gate_request_buf.
    + destruct (a_req a) as [|r1]; [discriminate|]. destruct (negb (fst (rver r1) =? 1)); [discriminate|].
      apply body_gate_request_buf.
Qed.

(* the only answers that do not close are answers to dispatched requests; after them neither table holds the
   socket: the next message on the connection meets a fresh parser and builds its own request *)
Theorem open_means_clean secure c a st v hd :
  In (EWrite st v false hd) (effs_of (read_conn secure c a)) ->
  In EDispatch (effs_of (read_conn secure c a)) /\ conn_of (read_conn secure c a) = empty_conn.
Proof.
  unfold read_conn. pose proof (on_read_ok secure c a) as H.
  destruct (on_read secure c a) as [[c1 h] tags] eqn:E. unfold hres_of in H. cbn [fst snd] in H.
  inversion H; subst.
  - rewrite drain_exc. destruct (a_excreq a); cbn; intros F; inl F.
  - rewrite drain_nil. intros [].
  - rewrite drain_close. intros F. inl F.
  - rewrite drain_httperror. cbn. intros F. inl F.
  - rewrite drain_request. cbn [effs_of conn_of fst snd]. intros F. split.
    + destruct (a_app a) as [|[s0 ve]]; now left.
    + assert (B : buf c1 = false).
      { unfold on_read in E. destruct (buf c) eqn:Bc.
        - pose proof (after_exec_request_buf c a [] ri) as R. unfold hres_of, hconn_of in R. rewrite E in R. now apply R.
        - destruct (a_ssl a) as [|b]; [discriminate|]. destruct (b && negb secure); [discriminate|].
          pose proof (after_exec_request_buf (set_buf c true) a [TSsl] ri) as R. unfold hres_of, hconn_of in R.
          rewrite E in R. now apply R. }
      destruct c1 as [b1 cl1]. cbn in B. subst b1. unfold fin, empty_conn. destruct cl1; reflexivity.
Qed.
