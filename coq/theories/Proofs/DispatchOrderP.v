From Coq Require Import List Arith Bool Lia Permutation Sorted.
From Circ Require Import Model.DispatchOrder.
Import ListNotations.

Section P.
Variable K : Type.
Variable leb : K -> K -> bool.
Variable hs_of : nat -> list (handler K).

Lemma fire_only_queues : forall s ctx n p acts k,
  stack s = FBody ctx (AFire n p :: acts) :: k ->
  exists s', step K leb hs_of s = Some s' /\
    let x := Build_item p (counter s) n in
    fifo s' = fifo s ++ [x] /\ heap s' = heap s /\ batch s' = batch s /\ stopped s' = stopped s /\
    stack s' = FBody ctx acts :: k /\ trace s' = trace s ++ [TFire x].
Proof.
  intros s ctx n p acts k H. unfold step. rewrite H. eexists. split. reflexivity. simpl. repeat split.
Qed.
End P.
