(* Proofs about the dispatch model (C02). *)
From Coq Require Import List Arith Bool Lia Permutation Sorted.
From Circ Require Import Model.DispatchOrder.
Import ListNotations.

Section P.
Variable K : Type.
Variable leb : K -> K -> bool.
Variable hs_of : nat -> list (handler K).
Hypothesis leb_total : forall a b, leb a b = true \/ leb b a = true.
Hypothesis leb_trans : forall a b c, leb a b = true -> leb b c = true -> leb a c = true.

Notation item := (item K).
Notation state := (state K).
Notation tr := (tr K).
Notation step := (step K leb hs_of).
Notation pop_min := (pop_min K leb).
Notation item_lt := (item_lt K leb).

Definition ids (l : list item) : list nat := map ictr l.

(* a is dispatched before b: strictly smaller priority value, or equal priority and fired earlier *)
Definition prec (a b : item) : Prop :=
  leb (ikey b) (ikey a) = false \/
  (leb (ikey a) (ikey b) = true /\ leb (ikey b) (ikey a) = true /\ ictr a < ictr b).

Lemma item_lt_prec : forall a b, item_lt a b = true <-> prec a b.
Proof.
  intros a b. unfold DispatchOrder.item_lt, eqk, prec.
  destruct (leb (ikey a) (ikey b)) eqn:E1; destruct (leb (ikey b) (ikey a)) eqn:E2; simpl;
    rewrite ?Nat.ltb_lt; split; intro H; auto; try discriminate.
  - destruct H as [H|(_&_&H)]; [discriminate|auto].
  - destruct H as [H|(H&_)]; discriminate.
Qed.

Lemma prec_trans : forall a b c, prec a b -> prec b c -> prec a c.
Proof.
  unfold prec. intros a b c [H1|(H1&H1'&L1)] [H2|(H2&H2'&L2)].
  - left. destruct (leb (ikey c) (ikey a)) eqn:E; auto.
    destruct (leb_total (ikey a) (ikey b)) as [T|T]; [|congruence].
    rewrite (leb_trans _ _ _ E T) in H2. discriminate.
  - left. destruct (leb (ikey c) (ikey a)) eqn:E; auto.
    rewrite (leb_trans _ _ _ H2 E) in H1. discriminate.
  - left. destruct (leb (ikey c) (ikey a)) eqn:E; auto.
    rewrite (leb_trans _ _ _ E H1) in H2. discriminate.
  - right. repeat split; eauto. lia.
Qed.

Lemma prec_total : forall a b, ictr a <> ictr b -> prec a b \/ prec b a.
Proof.
  intros a b N. unfold prec.
  destruct (leb (ikey a) (ikey b)) eqn:E1; destruct (leb (ikey b) (ikey a)) eqn:E2; auto.
  destruct (Nat.lt_total (ictr a) (ictr b)) as [L|[L|L]]; [left|contradiction|right]; right; auto.
Qed.

Lemma prec_irrefl : forall a, ~ prec a a.
Proof.
  intros a [H|(_&_&H)]; [|lia]. destruct (leb_total (ikey a) (ikey a)); congruence.
Qed.

Lemma not_lt_prec : forall a b, item_lt a b = false -> ictr a <> ictr b -> prec b a.
Proof.
  intros a b H N. destruct (prec_total a b N) as [P|P]; auto.
  apply item_lt_prec in P. congruence.
Qed.

(* ---------------------------------------------------------------- heappop *)
Lemma pop_min_none : forall h, pop_min h = None -> h = [].
Proof.
  destruct h as [|x r]; simpl; auto. destruct (pop_min r) as [[m r']|]; [|discriminate].
  destruct (item_lt m x); discriminate.
Qed.

Lemma pop_min_perm : forall h m r, pop_min h = Some (m, r) -> Permutation h (m :: r).
Proof.
  induction h as [|x h IH]; simpl; intros m r H; [discriminate|].
  destruct (pop_min h) as [[m' r']|] eqn:E.
  - specialize (IH _ _ eq_refl). destruct (item_lt m' x); inversion H; subst; clear H.
    + rewrite IH. apply perm_swap.
    + reflexivity.
  - apply pop_min_none in E. subst. inversion H; subst. reflexivity.
Qed.

Lemma pop_min_least : forall h m r, NoDup (ids h) -> pop_min h = Some (m, r) -> Forall (prec m) r.
Proof.
  induction h as [|x h IH]; simpl; intros m r ND H; [discriminate|].
  inversion ND as [|? ? NI ND']; subst.
  destruct (pop_min h) as [[m' r']|] eqn:E.
  - specialize (IH _ _ ND' eq_refl). pose proof (pop_min_perm _ _ _ E) as Pm.
    destruct (item_lt m' x) eqn:L; inversion H; subst; clear H.
    + constructor; auto. apply item_lt_prec; auto.
    + assert (Px : prec m m').
      { apply not_lt_prec; auto. intro Q. apply NI. rewrite <- Q.
        apply in_map. eapply Permutation_in; [symmetry; exact Pm|left; auto]. }
      eapply Permutation_Forall; [symmetry; exact Pm|].
      constructor; auto. eapply Forall_impl; [|exact IH]. intros y Hy. eapply prec_trans; eauto.
  - apply pop_min_none in E. subst. inversion H; subst. constructor.
Qed.

(* the order in which a heap will be emptied: repeated heappop *)
Fixpoint sel (n : nat) (h : list item) : list item :=
  match n with
  | O => []
  | S n' => match pop_min h with None => [] | Some (m, r) => m :: sel n' r end
  end.
Definition sel_sort (h : list item) : list item := sel (length h) h.

Lemma sel_sort_pop : forall h m r, pop_min h = Some (m, r) -> sel_sort h = m :: sel_sort r.
Proof.
  intros h m r H. unfold sel_sort. pose proof (Permutation_length (pop_min_perm _ _ _ H)) as L.
  simpl in L. rewrite L. simpl. rewrite H. reflexivity.
Qed.

Lemma sel_perm : forall n h, length h = n -> Permutation (sel n h) h.
Proof.
  induction n; intros h L.
  - destruct h; [constructor|discriminate].
  - simpl. destruct (pop_min h) as [[m r]|] eqn:E.
    + pose proof (pop_min_perm _ _ _ E) as Pm. rewrite Pm. constructor. apply IHn.
      apply Permutation_length in Pm. simpl in Pm. lia.
    + apply pop_min_none in E. subst. discriminate.
Qed.

Lemma sel_sort_perm : forall h, Permutation (sel_sort h) h.
Proof. intros. apply sel_perm. reflexivity. Qed.

Lemma ids_perm : forall l l' : list item, Permutation l l' -> Permutation (ids l) (ids l').
Proof. intros. apply Permutation_map. assumption. Qed.

Lemma sel_sorted : forall n h, length h = n -> NoDup (ids h) -> StronglySorted prec (sel n h).
Proof.
  induction n; intros h L ND; simpl; [constructor|].
  destruct (pop_min h) as [[m r]|] eqn:E; [|constructor].
  pose proof (pop_min_perm _ _ _ E) as Pm.
  assert (NDr : NoDup (ids r)).
  { pose proof (Permutation_NoDup (ids_perm _ _ Pm) ND) as Q. inversion Q; auto. }
  assert (Lr : length r = n) by (apply Permutation_length in Pm; simpl in Pm; lia).
  constructor.
  - apply IHn; auto.
  - eapply Permutation_Forall; [symmetry; apply sel_perm; auto|]. eapply pop_min_least; eauto.
Qed.

Lemma sel_sort_sorted : forall h, NoDup (ids h) -> StronglySorted prec (sel_sort h).
Proof. intros. apply sel_sorted; auto. Qed.

End P.
