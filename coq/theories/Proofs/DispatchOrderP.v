(* Proofs about the dispatch model (C02). *)
From Coq Require Import List Arith Bool Lia Permutation Sorted.
From Circ Require Import Model.DispatchOrder.
Import ListNotations.

Section P.
Variable K : Type.
Variable leb : K -> K -> bool.
Variable hs_of : nat -> nat -> list (handler K).
Hypothesis leb_total : forall a b, leb a b = true \/ leb b a = true.
Hypothesis leb_trans : forall a b c, leb a b = true -> leb b c = true -> leb a c = true.

Notation item := (item K).
Notation state := (state K).
Notation tr := (tr K).
Notation step := (step K leb hs_of).
Notation pop_min := (pop_min K leb).
Notation item_lt := (item_lt K leb).

Definition ids (l : list item) : list nat := map ictr l.

(* a is dispatched before b: strictly smaller priority value, or equal priority and fired earlier *)
Definition prec (a b : item) : Prop :=
  leb (ikey b) (ikey a) = false \/
  (leb (ikey a) (ikey b) = true /\ leb (ikey b) (ikey a) = true /\ ictr a < ictr b).

Lemma item_lt_prec : forall a b, item_lt a b = true <-> prec a b.
Proof.
  intros a b. unfold DispatchOrder.item_lt, eqk, prec.
  destruct (leb (ikey a) (ikey b)) eqn:E1; destruct (leb (ikey b) (ikey a)) eqn:E2; simpl;
    rewrite ?Nat.ltb_lt; split; intro H; auto; try discriminate.
  - destruct H as [H|(_&_&H)]; [discriminate|auto].
  - destruct H as [H|(H&_)]; discriminate.
Qed.

Lemma prec_trans : forall a b c, prec a b -> prec b c -> prec a c.
Proof.
  unfold prec. intros a b c [H1|(H1&H1'&L1)] [H2|(H2&H2'&L2)].
  - left. destruct (leb (ikey c) (ikey a)) eqn:E; auto.
    destruct (leb_total (ikey a) (ikey b)) as [T|T]; [|congruence].
    rewrite (leb_trans _ _ _ E T) in H2. discriminate.
  - left. destruct (leb (ikey c) (ikey a)) eqn:E; auto.
    rewrite (leb_trans _ _ _ H2 E) in H1. discriminate.
  - left. destruct (leb (ikey c) (ikey a)) eqn:E; auto.
    rewrite (leb_trans _ _ _ E H1) in H2. discriminate.
  - right. repeat split; eauto. lia.
Qed.

Lemma prec_total : forall a b, ictr a <> ictr b -> prec a b \/ prec b a.
Proof.
  intros a b N. unfold prec.
  destruct (leb (ikey a) (ikey b)) eqn:E1; destruct (leb (ikey b) (ikey a)) eqn:E2; auto.
  destruct (Nat.lt_total (ictr a) (ictr b)) as [L|[L|L]]; [left|contradiction|right]; right; auto.
Qed.

Lemma prec_irrefl : forall a, ~ prec a a.
Proof.
  intros a [H|(_&_&H)]; [|lia]. destruct (leb_total (ikey a) (ikey a)); congruence.
Qed.

Lemma not_lt_prec : forall a b, item_lt a b = false -> ictr a <> ictr b -> prec b a.
Proof.
  intros a b H N. destruct (prec_total a b N) as [P|P]; auto.
  apply item_lt_prec in P. congruence.
Qed.

(* ---------------------------------------------------------------- heappop *)
Lemma pop_min_none : forall h, pop_min h = None -> h = [].
Proof.
  destruct h as [|x r]; simpl; auto. destruct (pop_min r) as [[m r']|]; [|discriminate].
  destruct (item_lt m x); discriminate.
Qed.

Lemma pop_min_perm : forall h m r, pop_min h = Some (m, r) -> Permutation h (m :: r).
Proof.
  induction h as [|x h IH]; simpl; intros m r H; [discriminate|].
  destruct (pop_min h) as [[m' r']|] eqn:E.
  - specialize (IH _ _ eq_refl). destruct (item_lt m' x); inversion H; subst; clear H.
    + rewrite IH. apply perm_swap.
    + reflexivity.
  - apply pop_min_none in E. subst. inversion H; subst. reflexivity.
Qed.

Lemma pop_min_least : forall h m r, NoDup (ids h) -> pop_min h = Some (m, r) -> Forall (prec m) r.
Proof.
  induction h as [|x h IH]; simpl; intros m r ND H; [discriminate|].
  inversion ND as [|? ? NI ND']; subst.
  destruct (pop_min h) as [[m' r']|] eqn:E.
  - specialize (IH _ _ ND' eq_refl). pose proof (pop_min_perm _ _ _ E) as Pm.
    destruct (item_lt m' x) eqn:L; inversion H; subst; clear H.
    + constructor; auto. apply item_lt_prec; auto.
    + assert (Px : prec m m').
      { apply not_lt_prec; auto. intro Q. apply NI. rewrite <- Q.
        apply in_map. eapply Permutation_in; [symmetry; exact Pm|left; auto]. }
      eapply Permutation_Forall; [symmetry; exact Pm|].
      constructor; auto. eapply Forall_impl; [|exact IH]. intros y Hy. eapply prec_trans; eauto.
  - apply pop_min_none in E. subst. inversion H; subst. constructor.
Qed.

(* the order in which a heap will be emptied: repeated heappop *)
Fixpoint sel (n : nat) (h : list item) : list item :=
  match n with
  | O => []
  | S n' => match pop_min h with None => [] | Some (m, r) => m :: sel n' r end
  end.
Definition sel_sort (h : list item) : list item := sel (length h) h.

Lemma sel_sort_pop : forall h m r, pop_min h = Some (m, r) -> sel_sort h = m :: sel_sort r.
Proof.
  intros h m r H. unfold sel_sort. pose proof (Permutation_length (pop_min_perm _ _ _ H)) as L.
  simpl in L. rewrite L. simpl. rewrite H. reflexivity.
Qed.

Lemma sel_perm : forall n h, length h = n -> Permutation (sel n h) h.
Proof.
  induction n; intros h L.
  - destruct h; [constructor|discriminate].
  - simpl. destruct (pop_min h) as [[m r]|] eqn:E.
    + pose proof (pop_min_perm _ _ _ E) as Pm. rewrite Pm. constructor. apply IHn.
      apply Permutation_length in Pm. simpl in Pm. lia.
    + apply pop_min_none in E. subst. discriminate.
Qed.

Lemma sel_sort_perm : forall h, Permutation (sel_sort h) h.
Proof. intros. apply sel_perm. reflexivity. Qed.

Lemma ids_perm : forall l l' : list item, Permutation l l' -> Permutation (ids l) (ids l').
Proof. intros. apply Permutation_map. assumption. Qed.

Lemma sel_sorted : forall n h, length h = n -> NoDup (ids h) -> StronglySorted prec (sel n h).
Proof.
  induction n; intros h L ND; simpl; [constructor|].
  destruct (pop_min h) as [[m r]|] eqn:E; [|constructor].
  pose proof (pop_min_perm _ _ _ E) as Pm.
  assert (NDr : NoDup (ids r)).
  { pose proof (Permutation_NoDup (ids_perm _ _ Pm) ND) as Q. inversion Q; auto. }
  assert (Lr : length r = n) by (apply Permutation_length in Pm; simpl in Pm; lia).
  constructor.
  - apply IHn; auto.
  - eapply Permutation_Forall; [symmetry; apply sel_perm; auto|]. apply (pop_min_least h m r ND E).
Qed.

Lemma sel_sort_sorted : forall h, NoDup (ids h) -> StronglySorted prec (sel_sort h).
Proof. intros. apply sel_sorted; auto. Qed.


(* ---------------------------------------------------------------- trace functions *)
Lemma disps_app : forall a b : list tr, disps (a ++ b) = disps a ++ disps b.
Proof. intros. unfold disps. apply flat_map_app. Qed.
Lemma fires_app : forall a b : list tr, fires (a ++ b) = fires a ++ fires b.
Proof. intros. unfold fires. apply flat_map_app. Qed.
Lemma invs_app : forall e (a b : list tr), invs e (a ++ b) = invs e a ++ invs e b.
Proof. intros. unfold invs. apply flat_map_app. Qed.

(* ---------------------------------------------------------------- the specification as a monitor
   queued: fired and not yet taken by a pass (in fire order); pend: rest of the running pass in the
   order it has to be dispatched; next: the next fire gets this id. *)
Record mst := { queued : list item; pend : list item; next : nat }.

Definition quiet (e : tr) : Prop :=
  match e with TFire _ | TSnap | TDisp _ => False | _ => True end.

Inductive mstep : mst -> tr -> mst -> Prop :=
| ms_fire m x : ictr x = next m ->
    mstep m (TFire x) {| queued := queued m ++ [x]; pend := pend m; next := S (next m) |}
| ms_snap m : pend m = [] ->
    mstep m TSnap {| queued := []; pend := sel_sort (queued m); next := next m |}
| ms_disp m x p : pend m = x :: p ->
    mstep m (TDisp x) {| queued := queued m; pend := p; next := next m |}
| ms_quiet m e : quiet e -> mstep m e m.

Inductive mrun : mst -> list tr -> mst -> Prop :=
| mrun_nil m : mrun m [] m
| mrun_cons m e m1 t m2 : mstep m e m1 -> mrun m1 t m2 -> mrun m (e :: t) m2.

Lemma mrun_app : forall a b m m2, mrun m (a ++ b) m2 <-> exists m1, mrun m a m1 /\ mrun m1 b m2.
Proof.
  induction a as [|e a IH]; simpl; intros b m m2; split.
  - intro H. exists m. split; [constructor|auto].
  - intros (m1&H1&H2). inversion H1; subst. auto.
  - intro H. inversion H; subst. apply IH in H5. destruct H5 as (m1'&Ha&Hb).
    exists m1'. split; auto. econstructor; eauto.
  - intros (m1&H1&H2). inversion H1; subst. econstructor; eauto. apply IH. eauto.
Qed.

Lemma mrun_snoc : forall m t m1 e m2, mrun m t m1 -> mstep m1 e m2 -> mrun m (t ++ [e]) m2.
Proof. intros. apply mrun_app. exists m1. split; auto. econstructor; eauto. constructor. Qed.

Definition m0 : mst := {| queued := []; pend := []; next := 0 |}.

(* well-formed monitor states: ids are unique and below next *)
Definition mwf (m : mst) : Prop :=
  NoDup (ids (queued m ++ pend m)) /\ Forall (fun c => c < next m) (ids (queued m ++ pend m)).

Lemma nodup_snoc_lt : forall (l : list nat) n, NoDup l -> Forall (fun c => c < n) l -> NoDup (l ++ [n]).
Proof.
  induction l; simpl; intros n ND F.
  - constructor; [intros []|constructor].
  - inversion ND; inversion F; subst. constructor; auto.
    rewrite in_app_iff. intros [H|[H|[]]]; [contradiction|lia].
Qed.

Lemma mwf_step : forall m e m', mwf m -> mstep m e m' -> mwf m'.
Proof.
  intros m e m' [ND F] H. inversion H; subst; unfold mwf; simpl; auto.
  - (* fire *)
    assert (P : Permutation ((queued m ++ [x]) ++ pend m) ((queued m ++ pend m) ++ [x])).
    { rewrite <- !app_assoc. apply Permutation_app_head. apply Permutation_app_comm. }
    split.
    + eapply Permutation_NoDup; [symmetry; apply ids_perm; exact P|].
      unfold ids. rewrite map_app. simpl. rewrite H0. apply nodup_snoc_lt; auto.
    + eapply Permutation_Forall; [symmetry; apply ids_perm; exact P|].
      unfold ids. rewrite map_app. apply Forall_app. split.
      * eapply Forall_impl; [|exact F]. simpl. intros; lia.
      * constructor; [simpl; lia|constructor].
  - (* snap *)
    rewrite H0, app_nil_r in *.
    split; [eapply Permutation_NoDup|eapply Permutation_Forall]; try (symmetry; apply ids_perm, sel_sort_perm); auto.
  - (* disp *)
    rewrite H0 in *.
    assert (P : Permutation (queued m ++ x :: p) (x :: queued m ++ p)) by (symmetry; apply Permutation_middle).
    pose proof (Permutation_NoDup (ids_perm _ _ P) ND) as ND'.
    pose proof (Permutation_Forall (ids_perm _ _ P) F) as F'.
    simpl in ND', F'. inversion ND'; inversion F'; subst. auto.
Qed.

Lemma mwf_run : forall m t m', mrun m t m' -> mwf m -> mwf m'.
Proof. induction 1; auto. intro. apply IHmrun. eapply mwf_step; eauto. Qed.

Lemma mwf_m0 : mwf m0.
Proof. split; constructor. Qed.

Lemma next_mono : forall m t m', mrun m t m' -> next m <= next m'.
Proof.
  induction 1; auto. etransitivity; [|exact IHmrun]. inversion H; subst; simpl; lia.
Qed.

(* what the monitor holds in [queued] is what was fired since the last snapshot *)
Lemma queued_pf : forall m t m', mrun m t m' -> queued m' = pf_from (queued m) t.
Proof.
  induction 1; simpl; auto.
  inversion H; subst; simpl in *; auto.
  destruct e; simpl in *; auto; contradiction.
Qed.

(* a pass without a further snapshot: the dispatches are a prefix of the pass *)
Lemma pend_pass : forall m t m', mrun m t m' -> forallb (fun e => negb (is_snap e)) t = true ->
  pend m = disps t ++ pend m'.
Proof.
  induction 1; simpl; intro N; auto.
  apply andb_true_iff in N. destruct N as [N1 N2]. specialize (IHmrun N2).
  inversion H; subst; simpl in *; auto; try discriminate.
  - rewrite H1. simpl. f_equal. auto.
  - destruct e; simpl in *; auto; contradiction.
Qed.

(* every member of the running pass is dispatched or still pending *)
Lemma pend_disp : forall m t m', mrun m t m' -> forall y, In y (pend m) -> In (TDisp y) t \/ In y (pend m').
Proof.
  induction 1; intros y Hy; auto.
  inversion H; subst; simpl in *.
  - destruct (IHmrun y Hy); auto.
  - rewrite H1 in Hy. destruct Hy.
  - rewrite H1 in Hy. destruct Hy as [->|Hy]; auto. destruct (IHmrun y Hy); auto.
  - destruct (IHmrun y Hy); auto.
Qed.

Lemma fire_ids_ge : forall m t m', mrun m t m' -> forall x, In (TFire x) t -> next m <= ictr x.
Proof.
  induction 1; intros x Hx; [destruct Hx|].
  destruct Hx as [->|Hx].
  - inversion H; subst; simpl in *; try lia.
  - specialize (IHmrun x Hx). inversion H; subst; simpl in *; lia.
Qed.

(* generations: as long as an entry of the pass that began when the ids were below n is pending,
   nothing with an id >= n can be pending *)
Lemma generations : forall m t m', mrun m t m' -> forall n,
  Forall (fun c => c < n) (ids (pend m)) -> Forall (fun c => n <= c) (ids (queued m)) -> n <= next m ->
  Forall (fun c => c < n) (ids (pend m')) \/ (forall y, In y (pend m) -> In (TDisp y) t).
Proof.
  induction 1; intros n Fp Fq Ln; auto.
  inversion H; subst; simpl in *.
  - (* fire *)
    destruct (IHmrun n) as [L|R]; simpl; auto.
    unfold ids. rewrite map_app. apply Forall_app. split; auto. constructor; [lia|constructor].
  - (* snap *) right. rewrite H1. intros y [].
  - (* disp *)
    rewrite H1 in *. simpl in Fp. inversion Fp; subst.
    destruct (IHmrun n) as [L|R]; simpl; auto.
    right. intros y [->|Hy]; auto.
  - destruct (IHmrun n) as [L|R]; auto.
Qed.

(* the ids of the fires are 0, 1, 2, ... in fire order *)
Lemma fire_ids_seq : forall m t m', mrun m t m' -> ids (fires t) = seq (next m) (next m' - next m).
Proof.
  induction 1.
  - rewrite Nat.sub_diag. reflexivity.
  - pose proof (next_mono _ _ _ H0) as Mo.
    inversion H; subst; simpl in *; auto.
    + rewrite IHmrun, H1. replace (next m2 - next m) with (S (next m2 - S (next m))) by lia. reflexivity.
    + destruct e; simpl in *; auto; contradiction.
Qed.


(* ---------------------------------------------------------------- reachable states, queue invariant *)
Inductive reach (prog : list (act K)) : state -> Prop :=
| reach_init : reach prog (init prog)
| reach_step s s' : reach prog s -> step s = Some s' -> reach prog s'.

Lemma run_reach : forall prog n s, reach prog s -> reach prog (run K leb hs_of n s).
Proof.
  induction n; simpl; intros s R; auto.
  destruct (step s) eqn:E; auto. apply IHn. econstructor; eauto.
Qed.

Definition abs (s : state) : mst := {| queued := fifo s; pend := sel_sort (heap s); next := counter s |}.

Record qinv (s : state) : Prop := {
  q_batch : batch s = length (heap s);
  q_run : mrun m0 (trace s) (abs s);
  q_nodup : NoDup (ids (fifo s ++ heap s ++ disps (trace s)));
  q_lt : Forall (fun c => c < counter s) (ids (fifo s ++ heap s ++ disps (trace s)));
  q_crash : crashed s = false }.

Lemma disps_quiet : forall t : list tr, Forall quiet t -> disps t = [].
Proof. induction 1; auto. destruct x; simpl in *; auto; contradiction. Qed.

Lemma mrun_quiet : forall m t m', mrun m t m' -> forall q, Forall quiet q -> mrun m (t ++ q) m'.
Proof.
  intros m t m' H q Q. apply mrun_app. exists m'. split; auto. clear H.
  induction Q; [constructor|]. econstructor; [apply ms_quiet; auto|auto].
Qed.

Lemma qinv_quiet : forall s s' t, qinv s ->
  fifo s' = fifo s -> heap s' = heap s -> counter s' = counter s -> batch s' = batch s ->
  crashed s' = crashed s -> trace s' = trace s ++ t -> Forall quiet t -> qinv s'.
Proof.
  intros s s' t [B R N L C] Hf Hh Hc Hb Hx Ht Q.
  constructor; rewrite ?Hf, ?Hh, ?Hc, ?Hb, ?Hx, ?Ht, ?disps_app, ?(disps_quiet _ Q), ?app_nil_r; auto.
  replace (abs s') with (abs s) by (unfold abs; rewrite Hf, Hh, Hc; reflexivity).
  apply mrun_quiet; auto.
Qed.

Lemma quiet_ret : forall ctx : option (nat * nat),
  Forall quiet (match ctx with Some (e, h) => [TRet (K:=K) e h] | None => [] end).
Proof. destruct ctx as [[e h]|]; repeat constructor. Qed.

Lemma qinv_step : forall s s', qinv s -> step s = Some s' -> qinv s'.
Proof.
  intros s s' I H. unfold DispatchOrder.step in H.
  destruct (stack s) as [|[ctx [|[n p md cs| | | |fs] acts]| |x rem chk] k] eqn:Hstk; try discriminate.
  - (* body returns *)
    inversion H; subst; clear H.
    eapply qinv_quiet with (t := match ctx with Some (e, h) => [TRet e h] | None => [] end);
      eauto; try reflexivity. apply quiet_ret.
  - (* fire *)
    inversion H; subst; clear H. destruct I as [B R N L C].
    set (x := {| ikey := p; ictr := counter s; iname := n; imode := md; ichans := cs |}) in *.
    assert (P : Permutation ((fifo s ++ [x]) ++ heap s ++ disps (trace s))
                            ((fifo s ++ heap s ++ disps (trace s)) ++ [x])).
    { rewrite <- !app_assoc. apply Permutation_app_head. rewrite (app_assoc (heap s)).
      apply Permutation_app_comm. }
    constructor; simpl; auto.
    + eapply mrun_snoc; [exact R|]. exact (ms_fire (abs s) x eq_refl).
    + rewrite disps_app. simpl. rewrite app_nil_r.
      eapply Permutation_NoDup; [symmetry; apply ids_perm; exact P|].
      unfold ids. rewrite map_app. simpl. apply nodup_snoc_lt; auto.
    + rewrite disps_app. simpl. rewrite app_nil_r.
      eapply Permutation_Forall; [symmetry; apply ids_perm; exact P|].
      unfold ids. rewrite map_app. apply Forall_app. split.
      * eapply Forall_impl; [|exact L]. simpl. intros; lia.
      * constructor; [simpl; lia|constructor].
  - (* flush *)
    destruct (batch s =? 0) eqn:Bz; inversion H; subst; clear H.
    + (* a new pass *)
      destruct I as [B R N L C]. apply Nat.eqb_eq in Bz.
      assert (Hh : heap s = []) by (destruct (heap s); [auto|simpl in B; lia]).
      constructor; simpl; auto.
      * rewrite Hh. reflexivity.
      * replace (trace s ++ [TFlushB; TSnap]) with ((trace s ++ [TFlushB]) ++ [TSnap])
          by (rewrite <- app_assoc; reflexivity).
        eapply mrun_snoc; [apply mrun_quiet; [exact R|repeat constructor]|].
        rewrite Hh. simpl.
        assert (Hp : pend (abs s) = []) by (simpl; rewrite Hh; reflexivity).
        exact (ms_snap (abs s) Hp).
      * rewrite disps_app, Hh in *. simpl in *. rewrite app_nil_r in *. auto.
      * rewrite disps_app, Hh in *. simpl in *. rewrite app_nil_r in *. auto.
    + eapply qinv_quiet with (t := [TFlushB]); eauto; try reflexivity. repeat constructor.
  - (* stop *)
    destruct ctx as [[e h]|]; simpl in H; inversion H; subst; clear H.
    + eapply qinv_quiet with (t := [TStop e h]); eauto; try reflexivity. repeat constructor.
    + eapply qinv_quiet with (t := []); eauto; try reflexivity.
  - (* return of a generator *)
    destruct ctx as [[e h]|]; simpl in H; inversion H; subst; clear H.
    + eapply qinv_quiet with (t := [TGen e h]); eauto; try reflexivity. repeat constructor.
    + eapply qinv_quiet with (t := []); eauto; try reflexivity.
  - (* raise *)
    destruct ctx as [[e h]|]; simpl in H; inversion H; subst; clear H.
    + eapply qinv_quiet with (t := [TRaise e h]); eauto; try reflexivity. repeat constructor.
    + eapply qinv_quiet with (t := []); eauto; try reflexivity.
  - (* loop head *)
    destruct (batch s =? 0) eqn:Bz.
    + inversion H; subst; clear H.
      eapply qinv_quiet with (t := [TFlushE]); eauto; try reflexivity. repeat constructor.
    + apply Nat.eqb_neq in Bz. destruct I as [B R N L C].
      destruct (pop_min (heap s)) as [[m h']|] eqn:Pm.
      * inversion H; subst; clear H.
        pose proof (pop_min_perm _ _ _ Pm) as Pp.
        assert (P : Permutation (fifo s ++ h' ++ disps (trace s) ++ [m])
                                (fifo s ++ heap s ++ disps (trace s))).
        { apply Permutation_app_head. rewrite Pp. simpl.
          rewrite app_assoc. symmetry. apply Permutation_cons_append. }
        constructor; simpl; auto.
        -- apply Permutation_length in Pp. simpl in Pp. lia.
        -- eapply mrun_snoc; [exact R|].
           exact (ms_disp (abs s) m (sel_sort h') (sel_sort_pop _ _ _ Pm)).
        -- rewrite disps_app. simpl. eapply Permutation_NoDup; [symmetry; apply ids_perm; exact P|auto].
        -- rewrite disps_app. simpl. eapply Permutation_Forall; [symmetry; apply ids_perm; exact P|auto].
      * apply pop_min_none in Pm. rewrite Pm in B. simpl in B. lia.
  - (* dispatcher loop *)
    destruct (chk && (is_stopped (ictr x) (stopped s) || is_pre (imode x))); [|destruct rem as [|h rem']]; inversion H; subst; clear H.
    + eapply qinv_quiet with (t := [TDone (ictr x)]); eauto; try reflexivity. repeat constructor.
    + eapply qinv_quiet with (t := [TDone (ictr x)]); eauto; try reflexivity. repeat constructor.
    + eapply qinv_quiet with (t := [TInv (ictr x) (hid h) (S (depth k))]); eauto; try reflexivity. repeat constructor.
Qed.

Lemma qinv_init : forall prog, qinv (init prog).
Proof. intro. constructor; simpl; auto; constructor. Qed.

Lemma qinv_reach : forall prog s, reach prog s -> qinv s.
Proof. induction 1; [apply qinv_init|eapply qinv_step; eauto]. Qed.


(* ---------------------------------------------------------------- theorems about passes *)
Definition nosnap (t : list tr) : Prop := forallb (fun e => negb (is_snap e)) t = true.

Lemma split_at_snap : forall t1 t2 m, mrun m0 (t1 ++ TSnap :: t2) m ->
  exists ma mb, mrun m0 t1 ma /\ mwf ma /\ queued ma = pending_fires t1 /\ pend ma = [] /\
    mb = {| queued := []; pend := sel_sort (queued ma); next := next ma |} /\ mrun mb t2 m.
Proof.
  intros t1 t2 m H. apply mrun_app in H. destruct H as (ma&Ha&Hb).
  inversion Hb; subst. inversion H2; subst; [|simpl in H; contradiction].
  exists ma. eexists. repeat split; eauto.
  - eapply mwf_run; eauto. apply mwf_m0.
  - eapply mwf_run; eauto. apply mwf_m0.
  - apply (queued_pf _ _ _ Ha).
Qed.

Lemma NoDup_app_l : forall (A : Type) (l1 l2 : list A), NoDup (l1 ++ l2) -> NoDup l1.
Proof. induction l1; simpl; intros l2 H; [constructor|]. inversion H; subst. constructor; eauto. rewrite in_app_iff in *. tauto. Qed.

Lemma NoDup_app_r : forall (A : Type) (l1 l2 : list A), NoDup (l1 ++ l2) -> NoDup l2.
Proof. induction l1; simpl; intros l2 H; auto. inversion H; subst. eauto. Qed.
Lemma NoDup_app_disj : forall (A : Type) (l1 l2 : list A) a, NoDup (l1 ++ l2) -> In a l1 -> ~ In a l2.
Proof.
  induction l1; simpl; intros l2 b H I; [destruct I|]. inversion H; subst.
  destruct I as [->|I]; eauto. rewrite in_app_iff in *. tauto.
Qed.

Theorem pass_sorted : forall prog s t1 t2, reach prog s ->
  trace s = t1 ++ TSnap :: t2 -> nosnap t2 ->
  exists rest, length rest = batch s /\
    Permutation (pending_fires t1) (disps t2 ++ rest) /\ StronglySorted prec (disps t2 ++ rest).
Proof.
  intros prog s t1 t2 R Ht N. destruct (qinv_reach _ _ R) as [B Rn _ _ _].
  rewrite Ht in Rn. destruct (split_at_snap _ _ _ Rn) as (ma&mb&Ha&[ND _]&Hq&Hp&->&Hb).
  pose proof (pend_pass _ _ _ Hb N) as E. simpl in E.
  exists (sel_sort (heap s)). split; [|split].
  - rewrite B. apply Permutation_length. apply sel_sort_perm.
  - rewrite <- E, <- Hq. symmetry. apply sel_sort_perm.
  - rewrite <- E. apply sel_sort_sorted. unfold ids in ND. rewrite map_app in ND. eapply NoDup_app_l; eauto.
Qed.

Theorem no_overtake : forall prog s t1 t2 t3 x x', reach prog s ->
  trace s = t1 ++ TSnap :: t2 ++ TDisp x :: t3 -> In (TFire x') t2 -> ictr x' = ictr x ->
  forall y, In y (pending_fires t1) -> In (TDisp y) t2.
Proof.
  intros prog s t1 t2 t3 x x' R Ht Hf Hid y Hy. destruct (qinv_reach _ _ R) as [_ Rn _ _ _].
  rewrite Ht in Rn. destruct (split_at_snap _ _ _ Rn) as (ma&mb&Ha&[ND F]&Hq&Hp&->&Hb).
  apply mrun_app in Hb. destruct Hb as (mc&Hc&Hd).
  inversion Hd; subst. inversion H2; subst; [|simpl in H; contradiction].
  assert (Fq : Forall (fun c => c < next ma) (ids (queued ma))).
  { unfold ids in F. rewrite map_app in F. apply Forall_app in F. tauto. }
  destruct (generations _ _ _ Hc (next ma)) as [L|Rr]; simpl; auto.
  - eapply Permutation_Forall; [symmetry; apply ids_perm, sel_sort_perm|auto].
  - match goal with Hpe : pend mc = _ :: _ |- _ => rewrite Hpe in L end. simpl in L. inversion L; subst.
    pose proof (fire_ids_ge _ _ _ Hc _ Hf) as G. simpl in G. lia.
  - apply Rr. simpl. eapply Permutation_in; [symmetry; apply sel_sort_perm|]. rewrite Hq. auto.
Qed.

Theorem fire_order : forall prog s, reach prog s -> ids (fires (trace s)) = seq 0 (counter s).
Proof.
  intros prog s R. destruct (qinv_reach _ _ R) as [_ Rn _ _ _].
  pose proof (fire_ids_seq _ _ _ Rn) as E. simpl in E. rewrite Nat.sub_0_r in E. exact E.
Qed.

Theorem disp_once : forall prog s, reach prog s -> NoDup (ids (disps (trace s))).
Proof.
  intros prog s R. destruct (qinv_reach _ _ R) as [_ _ N _ _].
  unfold ids in N. rewrite !map_app in N. apply NoDup_app_r in N. apply NoDup_app_r in N. exact N.
Qed.

Theorem no_crash : forall prog s, reach prog s -> crashed s = false /\ batch s = length (heap s).
Proof. intros prog s R. destruct (qinv_reach _ _ R). auto. Qed.


(* ---------------------------------------------------------------- shape of the control stack *)
Notation frame := (frame K).

(* stacks whose top frame is a body: the main program, or a handler body that sits on its
   dispatcher frame, which sits on a dispatchEvents loop that was entered from a body *)
Inductive wfB : list frame -> Prop :=
| wfB_main acts : wfB [FBody None acts]
| wfB_h e h acts x rem k : ictr x = e -> wfB k ->
    wfB (FBody (Some (e, h)) acts :: FDisp x rem true :: FLoop :: k).

Definition wfstack (k : list frame) : Prop :=
  k = [] \/ wfB k \/ (exists k', k = FLoop :: k' /\ wfB k') \/
  (exists x rem chk k', k = FDisp x rem chk :: FLoop :: k' /\ wfB k').

Lemma wfB_acts : forall ctx a a' k, wfB (FBody ctx a :: k) -> wfB (FBody ctx a' :: k).
Proof. intros ctx a a' k H. inversion H; subst; constructor; auto. Qed.

Lemma wfstack_body : forall ctx a k, wfstack (FBody ctx a :: k) -> wfB (FBody ctx a :: k).
Proof.
  intros ctx a k [H|[H|[(k'&H&_)|(x&rem&chk&k'&H&_)]]]; auto; discriminate.
Qed.

Lemma wf_step : forall s s', wfstack (stack s) -> step s = Some s' -> wfstack (stack s').
Proof.
  intros s s' W H. unfold DispatchOrder.step in H.
  destruct (stack s) as [|[ctx [|[n p md cs| | | |fs] acts]| |x rem chk] k] eqn:Hstk; try discriminate.
  - inversion H; subst; clear H. simpl. apply wfstack_body in W. inversion W; subst.
    + left; auto.
    + right; right; right. eauto 8.
  - inversion H; subst; clear H. simpl. right; left. eapply wfB_acts, wfstack_body; eauto.
  - apply wfstack_body in W.
    destruct (batch s =? 0); inversion H; subst; clear H; simpl;
      right; right; left; eexists; split; eauto; eapply wfB_acts; eauto.
  - apply wfstack_body in W.
    destruct ctx as [[e h]|]; simpl in H; inversion H; subst; clear H; simpl;
      right; left; eapply wfB_acts; eauto.
  - apply wfstack_body in W.
    destruct ctx as [[e h]|]; simpl in H; inversion H; subst; clear H; simpl;
      right; left; eapply wfB_acts; eauto.
  - apply wfstack_body in W.
    destruct ctx as [[e h]|]; simpl in H; inversion H; subst; clear H; simpl;
      right; left; eapply wfB_acts; eauto.
  - assert (Wk : wfB k).
    { destruct W as [W|[W|[(k'&W&Wk)|(x&rem&chk&k'&W&_)]]]; try discriminate.
      - inversion W.
      - inversion W; subst; auto. }
    destruct (batch s =? 0); [inversion H; subst; simpl; right; left; auto|].
    destruct (pop_min (heap s)) as [[m h']|]; inversion H; subst; clear H; simpl.
    + right; right; right. eauto 8.
    + left; auto.
  - assert (Wk : exists k', k = FLoop :: k' /\ wfB k').
    { destruct W as [W|[W|[(k'&W&Wk)|(x0&rem0&chk0&k'&W&Wk)]]]; try discriminate.
      - inversion W.
      - inversion W; subst; eauto. }
    destruct Wk as (k'&->&Wk).
    destruct (chk && (is_stopped (ictr x) (stopped s) || is_pre (imode x))); [|destruct rem as [|h rem']];
      inversion H; subst; clear H; simpl.
    + right; right; left. eauto.
    + right; right; left. eauto.
    + right; left. constructor; auto.
Qed.

Lemma wf_reach : forall prog s, reach prog s -> wfstack (stack s).
Proof.
  induction 1; [right; left; constructor|eapply wf_step; eauto].
Qed.

Definition loops (k : list frame) : nat :=
  length (filter (fun f => match f with FLoop => true | _ => false end) k).

Lemma wfB_depth : forall k, wfB k -> depth k = loops k.
Proof. induction 1; simpl; auto. unfold depth, loops in *. simpl. rewrite IHwfB. reflexivity. Qed.

(* handlers nest only through explicit flush() calls: the handler nesting depth never exceeds the
   number of dispatchEvents loops that are active *)
Theorem depth_le_loops : forall prog s, reach prog s -> depth (stack s) <= loops (stack s).
Proof.
  intros prog s R. destruct (wf_reach _ _ R) as [W|[W|[(k'&W&Wk)|(x&rem&chk&k'&W&Wk)]]].
  - rewrite W. auto.
  - rewrite (wfB_depth _ W). auto.
  - rewrite W. unfold depth, loops. simpl. fold (depth k') (loops k'). rewrite (wfB_depth _ Wk). auto.
  - rewrite W. unfold depth, loops. simpl. fold (depth k') (loops k'). rewrite (wfB_depth _ Wk). auto.
Qed.


(* ---------------------------------------------------------------- handler order and stop() *)
Definition frame_ids (k : list frame) : list nat :=
  flat_map (fun f => match f with FDisp x _ _ => [ictr x] | _ => [] end) k.
(* the handler ids of an event in the order sorted(..., reverse=True) gives them *)
Definition full (x : item) : list nat := map hid (handlers_for K leb hs_of x).

(* after a stop() of event e no handler is invoked for e *)
Definition ok_stop (t : list tr) : Prop :=
  forall u e h v, t = u ++ TStop e h :: v -> forall h' d, ~ In (TInv e h' d) v.

Lemma snoc_cases : forall (A : Type) (l : list A), l = [] \/ exists l' a, l = l' ++ [a].
Proof. intros A l. induction l using rev_ind; [left; auto|right; eauto]. Qed.

Lemma ok_stop_snoc : forall t a, ok_stop t ->
  (forall e h' d, a = TInv e h' d -> forall h, ~ In (TStop e h) t) -> ok_stop (t ++ [a]).
Proof.
  intros t a O Ha u e h v E h' d I.
  destruct (snoc_cases _ v) as [->|(v'&a'&->)]; [destruct I|].
  - rewrite app_comm_cons, app_assoc in E. apply app_inj_tail in E. destruct E as [E ->].
    apply in_app_iff in I. destruct I as [I|[I|[]]].
    + eapply O; eauto.
    + subst t. eapply Ha; eauto. apply in_app_iff. right. left. reflexivity.
Qed.

Definition plain (e : tr) : Prop :=
  match e with TDisp _ | TInv _ _ _ | TDone _ | TStop _ _ => False | _ => True end.

Lemma ok_stop_plain : forall q t, ok_stop t -> Forall plain q -> ok_stop (t ++ q).
Proof.
  induction q as [|a q IH]; intros t O F; [rewrite app_nil_r; auto|].
  inversion F; subst. replace (t ++ a :: q) with ((t ++ [a]) ++ q) by (rewrite <- app_assoc; reflexivity).
  apply IH; auto. apply ok_stop_snoc; auto. intros; subst. simpl in *. contradiction.
Qed.

Lemma plain_disps : forall q, Forall plain q -> disps q = [].
Proof. induction 1; auto. destruct x; simpl in *; auto; contradiction. Qed.
Lemma plain_invs : forall e q, Forall plain q -> invs e q = [].
Proof. induction 1; auto. destruct x; simpl in *; auto; contradiction. Qed.
Lemma plain_done : forall e q, Forall plain q -> ~ In (TDone e) q.
Proof. induction 1; simpl; auto. intros [H1|H1]; auto. subst. simpl in *. auto. Qed.
Lemma plain_stop : forall e h q, Forall plain q -> ~ In (TStop e h) q.
Proof. induction 1; simpl; auto. intros [H1|H1]; auto. subst. simpl in *. auto. Qed.

Record hinv (s : state) : Prop := {
  h_frames : NoDup (frame_ids (stack s));
  h_fdisp : forall x rem chk, In (FDisp x rem chk) (stack s) ->
      In x (disps (trace s)) /\ ~ In (TDone (ictr x)) (trace s) /\
      invs (ictr x) (trace s) ++ map hid rem = full x /\
      (chk = false -> ~ In (ictr x) (stopped s));
  h_done : forall x, In x (disps (trace s)) -> ~ In (ictr x) (frame_ids (stack s)) ->
      In (TDone (ictr x)) (trace s) /\
      exists rem, invs (ictr x) (trace s) ++ rem = full x /\
        (rem = [] \/ In (ictr x) (stopped s) \/ imode x = MPreStop);
  h_fresh : forall e, ~ In e (ids (disps (trace s))) ->
      invs e (trace s) = [] /\ ~ In (TDone e) (trace s) /\ ~ In e (stopped s);
  h_stop : forall e, In e (stopped s) <-> exists h, In (TStop e h) (trace s);
  h_nis : ok_stop (trace s) }.

Lemma in_frame_ids : forall x rem chk k, In (FDisp x rem chk) k -> In (ictr x) (frame_ids k).
Proof. intros. unfold frame_ids. apply in_flat_map. eexists; split; eauto. simpl; auto. Qed.

Lemma frame_ids_in : forall i k, In i (frame_ids k) -> exists x rem chk, In (FDisp x rem chk) k /\ ictr x = i.
Proof.
  intros i k H. unfold frame_ids in H. apply in_flat_map in H. destruct H as (f&Hf&Hi).
  destruct f; simpl in Hi; try contradiction. destruct Hi as [<-|[]]. eauto.
Qed.

Lemma ids_inj : forall (l : list item) a b, NoDup (ids l) -> In a l -> In b l -> ictr a = ictr b -> a = b.
Proof.
  induction l as [|c l IH]; simpl; intros a b ND Ia Ib E; [destruct Ia|].
  inversion ND; subst. destruct Ia as [->|Ia]; destruct Ib as [->|Ib]; auto.
  - exfalso. apply H1. rewrite E. apply in_map. auto.
  - exfalso. apply H1. rewrite <- E. apply in_map. auto.
Qed.

(* steps that touch neither dispatcher frames nor stop flags and log only plain entries *)
Lemma hinv_plain : forall s s' t, hinv s -> stopped s' = stopped s ->
  frame_ids (stack s') = frame_ids (stack s) ->
  (forall x rem chk, In (FDisp x rem chk) (stack s') -> In (FDisp x rem chk) (stack s)) ->
  trace s' = trace s ++ t -> Forall plain t -> hinv s'.
Proof.
  intros s s' t [Hf Hd Hn Hr Hs Ho] Est Efr Hin Et P.
  constructor; rewrite ?Est, ?Efr, ?Et, ?disps_app, ?(plain_disps _ P), ?app_nil_r; auto.
  - intros x rem chk I. destruct (Hd _ _ _ (Hin _ _ _ I)) as (A&B&C&D).
    rewrite invs_app, (plain_invs _ _ P), app_nil_r. repeat split; auto.
    rewrite in_app_iff. intros [Q|Q]; [auto|eapply plain_done; eauto].
  - intros x I NI. destruct (Hn _ I NI) as (A&rem&B&C). split.
    + apply in_app_iff; auto.
    + exists rem. rewrite invs_app, (plain_invs _ _ P), app_nil_r. auto.
  - intros e NI. destruct (Hr _ NI) as (A&B&C).
    rewrite invs_app, (plain_invs _ _ P), app_nil_r. repeat split; auto.
    rewrite in_app_iff. intros [Q|Q]; [auto|eapply plain_done; eauto].
  - intro e. rewrite Hs. split; intros (h&I); exists h.
    + apply in_app_iff; auto.
    + apply in_app_iff in I. destruct I as [I|I]; auto. exfalso. eapply plain_stop; eauto.
  - apply ok_stop_plain; auto.
Qed.

Lemma plain_ret : forall ctx : option (nat * nat),
  Forall plain (match ctx with Some (e, h) => [TRet (K:=K) e h] | None => [] end).
Proof. destruct ctx as [[e h]|]; repeat constructor. Qed.

Lemma invs_snoc_other : forall e (t : list tr) a, (forall e' h d, a <> TInv e' h d) -> invs e (t ++ [a]) = invs e t.
Proof.
  intros e t a N. rewrite invs_app. simpl. destruct a; simpl; rewrite ?app_nil_r; auto.
  exfalso. eapply N; eauto.
Qed.

Lemma in_snoc_other : forall (t : list tr) a b, a <> b -> In b (t ++ [a]) <-> In b t.
Proof.
  intros. rewrite in_app_iff. simpl. split; [intros [I|[I|[]]]; auto; contradiction|auto].
Qed.


Lemma is_stopped_in : forall e l, is_stopped e l = true <-> In e l.
Proof.
  intros. unfold is_stopped. rewrite existsb_exists. split.
  - intros (y&I&E). apply Nat.eqb_eq in E. subst. auto.
  - intro I. exists e. split; auto. apply Nat.eqb_refl.
Qed.

Lemma hinv_step : forall s s', qinv s -> wfstack (stack s) -> hinv s -> step s = Some s' -> hinv s'.
Proof.
  intros s s' Q W I H. unfold DispatchOrder.step in H.
  destruct (stack s) as [|[ctx [|[n p md cs| | | |fs] acts]| |x rem chk] k] eqn:Hstk; try discriminate.
  - (* body returns *)
    inversion H; subst; clear H.
    eapply hinv_plain with (t := match ctx with Some (e, h) => [TRet e h] | None => [] end);
      eauto; try reflexivity; try apply plain_ret; rewrite Hstk; simpl; auto.
  - (* fire *)
    inversion H; subst; clear H.
    eapply hinv_plain with (t := [TFire {| ikey := p; ictr := counter s; iname := n; imode := md; ichans := cs |}]);
      eauto; try reflexivity; try (repeat constructor); rewrite Hstk; simpl; auto.
    intros x rem chk [E|E]; [discriminate|auto].
  - (* flush *)
    destruct (batch s =? 0); inversion H; subst; clear H.
    + eapply hinv_plain with (t := [TFlushB; TSnap]); eauto; try reflexivity; try (repeat constructor);
        rewrite Hstk; simpl; auto.
      intros x rem chk [E|[E|E]]; try discriminate; auto.
    + eapply hinv_plain with (t := [TFlushB]); eauto; try reflexivity; try (repeat constructor);
        rewrite Hstk; simpl; auto.
      intros x rem chk [E|[E|E]]; try discriminate; auto.
  - (* stop *)
    destruct ctx as [[e h]|]; simpl in H; inversion H; subst; clear H.
    + apply wfstack_body in W. inversion W; subst. clear W.
      destruct I as [Hf Hd Hn Hr Hs Ho]. rewrite Hstk in *. simpl in Hf.
      assert (Hx : In x (disps (trace s))) by (apply (Hd x rem true); simpl; auto).
      constructor; simpl; rewrite ?disps_app, ?app_nil_r; simpl; rewrite ?app_nil_r; auto.
      * intros x0 rem0 chk0 I0.
        assert (I1 : In (FDisp x0 rem0 chk0) (FBody (Some (ictr x, h)) (AStop :: acts) :: FDisp x rem true :: FLoop :: k0)).
        { destruct I0 as [E|I0]; [discriminate|right; auto]. }
        destruct (Hd _ _ _ I1) as (A&B&C&D). repeat split; auto.
        -- rewrite in_snoc_other; [auto|discriminate].
        -- rewrite invs_snoc_other; [auto|discriminate].
        -- intros -> [E|E]; [|apply D; auto].
           destruct I0 as [E0|[E0|[E0|I0]]]; try discriminate.
           apply in_frame_ids in I0. inversion Hf; subst. rewrite <- E in I0. auto.
      * intros x0 I0 N0. destruct (Hn x0 I0 N0) as (A&rem0&B&C). split.
        -- apply in_app_iff; auto.
        -- exists rem0. rewrite invs_snoc_other; [|discriminate]. split; auto.
           destruct C as [C|[C|C]]; auto.
      * intros e0 N0. destruct (Hr e0 N0) as (A&B&C). repeat split.
        -- rewrite invs_snoc_other; [auto|discriminate].
        -- rewrite in_snoc_other; [auto|discriminate].
        -- intros [E|E]; [|auto]. apply N0. rewrite <- E. apply in_map. auto.
      * intro e0. split.
        -- intros [<-|E]; [exists h; apply in_app_iff; right; left; auto|].
           apply Hs in E. destruct E as (h0&E). exists h0. apply in_app_iff; auto.
        -- intros (h0&E). apply in_app_iff in E. destruct E as [E|[E|[]]].
           ++ right. apply Hs. eauto.
           ++ inversion E; subst. auto.
      * apply ok_stop_snoc; auto. intros; discriminate.
    + eapply hinv_plain with (t := []); eauto; try reflexivity; try constructor; rewrite Hstk; simpl; auto.
      intros x rem chk [E|E]; [discriminate|auto].
  - (* return of a generator *)
    destruct ctx as [[e h]|]; simpl in H; inversion H; subst; clear H.
    + eapply hinv_plain with (t := [TGen e h]); eauto; try reflexivity; try (repeat constructor);
        rewrite Hstk; simpl; auto.
      intros x rem chk [E|E]; [discriminate|auto].
    + eapply hinv_plain with (t := []); eauto; try reflexivity; try constructor; rewrite Hstk; simpl; auto.
      intros x rem chk [E|E]; [discriminate|auto].
  - (* raise *)
    destruct ctx as [[e h]|]; simpl in H; inversion H; subst; clear H.
    + eapply hinv_plain with (t := [TRaise e h]); eauto; try reflexivity; try (repeat constructor);
        rewrite Hstk; simpl; auto.
      intros x rem chk [E|E]; [discriminate|auto].
    + eapply hinv_plain with (t := []); eauto; try reflexivity; try constructor; rewrite Hstk; simpl; auto.
      intros x rem chk [E|E]; [discriminate|auto].
  - (* loop head *)
    destruct (batch s =? 0) eqn:Bz.
    + inversion H; subst; clear H.
      eapply hinv_plain with (t := [TFlushE]); eauto; try reflexivity; try (repeat constructor);
        rewrite Hstk; simpl; auto.
    + destruct (pop_min (heap s)) as [[m h']|] eqn:Pm; inversion H; subst; clear H.
      * (* dispatch m *)
        destruct I as [Hf Hd Hn Hr Hs Ho]. rewrite Hstk in *. simpl in Hf.
        assert (Nm : ~ In (ictr m) (ids (disps (trace s)))).
        { destruct Q as [_ _ N _ _]. unfold ids in N. rewrite !map_app in N. apply NoDup_app_r in N.
          eapply NoDup_app_disj; eauto. apply in_map.
          eapply Permutation_in; [symmetry; apply (pop_min_perm _ _ _ Pm)|left; auto]. }
        destruct (Hr _ Nm) as (Fi&Fd&Fs).
        constructor; simpl; rewrite ?disps_app; simpl; auto.
        -- constructor; auto. intro C. apply frame_ids_in in C. destruct C as (x0&r0&c0&C&E).
           apply Nm. rewrite <- E. apply in_map. apply (Hd x0 r0 c0). right. auto.
        -- intros x0 rem0 chk0 [E|[E|I0]]; [inversion E; subst; clear E|discriminate|].
           ++ repeat split; auto.
              ** apply in_app_iff; right; left; auto.
              ** rewrite in_snoc_other; [auto|discriminate].
              ** rewrite invs_snoc_other; [|discriminate]. rewrite Fi. reflexivity.
           ++ destruct (Hd x0 rem0 chk0) as (A&B&C&D); [right; auto|]. repeat split; auto.
              ** apply in_app_iff; auto.
              ** rewrite in_snoc_other; [auto|discriminate].
              ** rewrite invs_snoc_other; [auto|discriminate].
        -- intros x0 I0 N0. apply in_app_iff in I0. destruct I0 as [I0|[<-|[]]]; [|exfalso; apply N0; auto].
           destruct (Hn x0 I0) as (A&rem0&B&C); [intro; apply N0; auto|]. split.
           ++ apply in_app_iff; auto.
           ++ exists rem0. rewrite invs_snoc_other; [auto|discriminate].
        -- intros e0 N0. destruct (Hr e0) as (A&B&C).
           { intro; apply N0. unfold ids. rewrite map_app. apply in_app_iff; auto. }
           repeat split; auto.
           ++ rewrite invs_snoc_other; [auto|discriminate].
           ++ rewrite in_snoc_other; [auto|discriminate].
        -- intro e0. rewrite Hs. split; intros (h0&E); exists h0.
           ++ apply in_app_iff; auto.
           ++ apply in_snoc_other in E; [auto|discriminate].
        -- apply ok_stop_snoc; auto. intros; discriminate.
      * (* pop from an empty heap: the stack is cleared *)
        destruct I as [Hf Hd Hn Hr Hs Ho]. exfalso.
        destruct Q as [B _ _ _ _]. apply pop_min_none in Pm. rewrite Pm in B. simpl in B.
        apply Nat.eqb_neq in Bz. lia.
  - (* dispatcher loop *)
    destruct I as [Hf Hd Hn Hr Hs Ho]. rewrite Hstk in *. simpl in Hf. inversion Hf as [|? ? Nx Hfk]; subst.
    destruct (Hd x rem chk) as (Dx&Tx&Ix&Cx); [left; auto|].
    assert (Done : forall s1, stopped s1 = stopped s -> stack s1 = k ->
              trace s1 = trace s ++ [TDone (ictr x)] ->
              (map hid rem = [] \/ In (ictr x) (stopped s) \/ imode x = MPreStop) -> hinv s1).
    { intros s1 E1 E2 E3 Why. constructor; rewrite ?E1, ?E2, ?E3, ?disps_app; simpl; rewrite ?app_nil_r; auto.
      - intros x0 rem0 chk0 I0. destruct (Hd x0 rem0 chk0) as (A&B&C&D); [right; auto|].
        repeat split; auto.
        + rewrite in_snoc_other; [auto|]. intro E; inversion E.
          apply Nx. match goal with Hq : ictr x = ictr x0 |- _ => rewrite Hq end. eapply in_frame_ids; eauto.
        + rewrite invs_snoc_other; [auto|discriminate].
      - intros x0 I0 N0. destruct (Nat.eq_dec (ictr x0) (ictr x)) as [E|E].
        + assert (x0 = x).
          { destruct Q as [_ _ N _ _]. unfold ids in N. rewrite !map_app in N. do 2 apply NoDup_app_r in N.
            eapply ids_inj; eauto. }
          subst x0. split; [apply in_app_iff; right; left; auto|].
          exists (map hid rem). rewrite invs_snoc_other; [auto|discriminate].
        + destruct (Hn x0 I0) as (A&rem0&B&C); [intros [F|F]; auto|]. split; [apply in_app_iff; auto|].
          exists rem0. rewrite invs_snoc_other; [auto|discriminate].
      - intros e0 N0. destruct (Hr e0 N0) as (A&B&C). repeat split; auto.
        + rewrite invs_snoc_other; [auto|discriminate].
        + rewrite in_snoc_other; [auto|]. intro E; inversion E; subst. apply N0. apply in_map. auto.
      - intro e0. rewrite Hs. split; intros (h0&E); exists h0.
        + apply in_app_iff; auto.
        + apply in_snoc_other in E; [auto|discriminate].
      - apply ok_stop_snoc; auto. intros; discriminate. }
    destruct (chk && (is_stopped (ictr x) (stopped s) || is_pre (imode x))) eqn:Cs; [|destruct rem as [|h rem']];
      inversion H; subst; clear H.
    + apply Done; auto. right. apply andb_true_iff in Cs. destruct Cs as [_ Cs].
      apply orb_true_iff in Cs. destruct Cs as [Cs|Cs]; [left; apply is_stopped_in; auto|right].
      destruct (imode x); simpl in Cs; congruence.
    + apply Done; auto.
    + (* invoke h *)
      assert (Ns : ~ In (ictr x) (stopped s)).
      { destruct chk; simpl in Cs; auto. apply orb_false_iff in Cs. destruct Cs as [Cs _].
        intro F. apply is_stopped_in in F. congruence. }
      constructor; simpl; rewrite ?disps_app; simpl; rewrite ?app_nil_r; auto.
      * intros x0 rem0 chk0 [E|[E|I0]]; [discriminate|inversion E; subst; clear E|].
        -- repeat split; auto.
           ++ rewrite in_snoc_other; [auto|discriminate].
           ++ rewrite invs_app. simpl. rewrite Nat.eqb_refl. simpl in Ix. rewrite <- Ix, <- app_assoc. reflexivity.
        -- destruct (Hd x0 rem0 chk0) as (A&B&C&D); [right; auto|]. repeat split; auto.
           ++ rewrite in_snoc_other; [auto|discriminate].
           ++ rewrite invs_app. simpl. destruct (ictr x =? ictr x0) eqn:E; [|rewrite app_nil_r; auto].
              apply Nat.eqb_eq in E. exfalso. apply Nx. rewrite E. eapply in_frame_ids; eauto.
      * intros x0 I0 N0. destruct (Hn x0 I0 N0) as (A&rem0&B&C). split; [apply in_app_iff; auto|].
        exists rem0. rewrite invs_app. simpl. destruct (ictr x =? ictr x0) eqn:E; [|rewrite app_nil_r; auto].
        apply Nat.eqb_eq in E. exfalso. apply N0. left. auto.
      * intros e0 N0. destruct (Hr e0 N0) as (A&B&C). repeat split; auto.
        -- rewrite invs_app. simpl. destruct (ictr x =? e0) eqn:E; [|rewrite app_nil_r; auto].
           apply Nat.eqb_eq in E. exfalso. apply N0. rewrite <- E. apply in_map. auto.
        -- rewrite in_snoc_other; [auto|discriminate].
      * intro e0. rewrite Hs. split; intros (h0&E); exists h0.
        -- apply in_app_iff; auto.
        -- apply in_snoc_other in E; [auto|discriminate].
      * apply ok_stop_snoc; auto. intros e0 h0 d0 E h1 F. inversion E; subst.
        apply Ns. apply Hs. eauto.
Qed.


Lemma hinv_init : forall prog, hinv (init prog).
Proof.
  intro. constructor; simpl; auto.
  - constructor.
  - intros x rem chk [E|[]]. discriminate.
  - intros x [].
  - intro e. split; [intros []|intros (h&[])].
  - intros u e h v E. destruct u; discriminate.
Qed.

Lemma hinv_reach : forall prog s, reach prog s -> hinv s.
Proof.
  induction 1; [apply hinv_init|].
  eapply hinv_step; eauto using qinv_reach, wf_reach.
Qed.

Lemma frame_of : forall prog s x, reach prog s -> In x (disps (trace s)) ->
  In (ictr x) (frame_ids (stack s)) -> exists rem chk, In (FDisp x rem chk) (stack s).
Proof.
  intros prog s x R D F. apply frame_ids_in in F. destruct F as (x0&rem&chk&I&E).
  destruct (hinv_reach _ _ R) as [_ Hd _ _ _ _]. destruct (Hd _ _ _ I) as (A&_).
  assert (x0 = x) by (eapply ids_inj; eauto using disp_once). subst. eauto.
Qed.

(* the handlers invoked for a dispatched event are always a prefix of its sorted handler list *)
Theorem handlers_prefix : forall prog s x, reach prog s -> In x (disps (trace s)) ->
  exists rem, invs (ictr x) (trace s) ++ rem = full x.
Proof.
  intros prog s x R D. destruct (hinv_reach _ _ R) as [_ Hd Hn _ _ _].
  destruct (in_dec Nat.eq_dec (ictr x) (frame_ids (stack s))) as [F|F].
  - destruct (frame_of _ _ _ R D F) as (rem&chk&I). destruct (Hd _ _ _ I) as (_&_&C&_). eauto.
  - destruct (Hn _ D F) as (_&rem&B&_). eauto.
Qed.

(* when the dispatcher is done with an event that nobody stopped (neither a handler nor, before the
   dispatch, the outside), all its handlers ran *)
Theorem handlers_complete : forall prog s x, reach prog s -> In x (disps (trace s)) ->
  In (TDone (ictr x)) (trace s) -> (forall h, ~ In (TStop (ictr x) h) (trace s)) -> imode x <> MPreStop ->
  invs (ictr x) (trace s) = full x.
Proof.
  intros prog s x R D Dn Ns Np. destruct (hinv_reach _ _ R) as [_ Hd Hn _ Hs _].
  destruct (in_dec Nat.eq_dec (ictr x) (frame_ids (stack s))) as [F|F].
  - destruct (frame_of _ _ _ R D F) as (rem&chk&I). destruct (Hd _ _ _ I) as (_&B&_). contradiction.
  - destruct (Hn _ D F) as (_&rem&B&[->|[C|C]]).
    + rewrite app_nil_r in B. auto.
    + apply Hs in C. destruct C as (h&C). exfalso. eapply Ns; eauto.
    + contradiction.
Qed.

(* a cancelled event takes its slot in the pass (it is in disps) but no handler ever runs for it *)
Theorem cancelled_no_handlers : forall prog s x, reach prog s -> In x (disps (trace s)) ->
  imode x = MCancel -> invs (ictr x) (trace s) = [].
Proof.
  intros prog s x R D C. destruct (handlers_prefix _ _ _ R D) as (rem&E).
  unfold full, handlers_for in E. rewrite C in E. simpl in E. apply app_eq_nil in E. tauto.
Qed.

(* once stop() was called on an event, no further handler is invoked for it *)
Theorem no_invoke_after_stop : forall prog s u e h v, reach prog s ->
  trace s = u ++ TStop e h :: v -> forall h' d, ~ In (TInv e h' d) v.
Proof. intros prog s u e h v R E. destruct (hinv_reach _ _ R) as [_ _ _ _ _ Ho]. eapply Ho; eauto. Qed.

(* stop() is logged by a handler that was invoked for that event *)
Definition binv (s : state) : Prop :=
  (forall e h acts, In (FBody (Some (e, h)) acts) (stack s) -> In h (invs e (trace s))) /\
  (forall e h, In (TStop e h) (trace s) -> In h (invs e (trace s))).

Lemma invs_mono : forall e h (t q : list tr), In h (invs e t) -> In h (invs e (t ++ q)).
Proof. intros. rewrite invs_app. apply in_app_iff. auto. Qed.

Ltac nostop_tac :=
  let F := fresh "F" in intros ? ? F; simpl in F; intuition discriminate.
Ltac frames_tac :=
  let e0 := fresh "e" in let h0 := fresh "h" in let a0 := fresh "a" in let I0 := fresh "I" in
  intros e0 h0 a0 I0; simpl in I0;
  repeat match type of I0 with _ \/ _ => destruct I0 as [I0|I0] end;
  try discriminate;
  first [ inversion I0; subst; left; eexists; left; reflexivity
        | left; exists a0; right; exact I0 ].

Lemma binv_step : forall s s', binv s -> step s = Some s' -> binv s'.
Proof.
  intros s s' [Bf Bs] H. unfold DispatchOrder.step in H.
  assert (Keep : forall t, trace s' = trace s ++ t ->
            (forall e h, ~ In (TStop e h) t) ->
            (forall e h acts, In (FBody (Some (e, h)) acts) (stack s') ->
                 (exists acts', In (FBody (Some (e, h)) acts') (stack s)) \/ In h (invs e t)) ->
            binv s').
  { intros t Et Nt Hk. split.
    - intros e h acts I. rewrite Et. destruct (Hk _ _ _ I) as [(a'&I')|I'].
      + apply invs_mono. eauto.
      + rewrite invs_app. apply in_app_iff. auto.
    - intros e h I. rewrite Et in *. apply in_app_iff in I. destruct I as [I|I].
      + apply invs_mono. auto.
      + exfalso. eapply Nt; eauto. }
  destruct (stack s) as [|[ctx [|[n p md cs| | | |fs] acts]| |x rem chk] k] eqn:Hstk; try discriminate.
  - inversion H; subst; clear H.
    apply Keep with (t := match ctx with Some (e, h) => [TRet e h] | None => [] end);
      [reflexivity|destruct ctx as [[e h]|]; nostop_tac|frames_tac].
  - inversion H; subst; clear H.
    apply Keep with (t := [TFire {| ikey := p; ictr := counter s; iname := n; imode := md; ichans := cs |}]);
      [reflexivity|nostop_tac|frames_tac].
  - destruct (batch s =? 0); inversion H; subst; clear H.
    + apply Keep with (t := [TFlushB; TSnap]); [reflexivity|nostop_tac|frames_tac].
    + apply Keep with (t := [TFlushB]); [reflexivity|nostop_tac|frames_tac].
  - destruct ctx as [[e h]|]; simpl in H; inversion H; subst; clear H.
    + split; simpl.
      * intros e0 h0 a I. apply invs_mono. destruct I as [I|I].
        -- inversion I; subst. eapply Bf. left. reflexivity.
        -- eapply Bf. right. eauto.
      * intros e0 h0 I. apply invs_mono. apply in_app_iff in I. destruct I as [I|[I|[]]]; auto.
        inversion I; subst. eapply Bf. left. reflexivity.
    + apply Keep with (t := []); [reflexivity|nostop_tac|frames_tac].
  - destruct ctx as [[e h]|]; simpl in H; inversion H; subst; clear H.
    + apply Keep with (t := [TGen e h]); [reflexivity|nostop_tac|frames_tac].
    + apply Keep with (t := []); [reflexivity|nostop_tac|frames_tac].
  - destruct ctx as [[e h]|]; simpl in H; inversion H; subst; clear H.
    + apply Keep with (t := [TRaise e h]); [reflexivity|nostop_tac|frames_tac].
    + apply Keep with (t := []); [reflexivity|nostop_tac|frames_tac].
  - destruct (batch s =? 0); [|destruct (pop_min (heap s)) as [[m h']|]]; inversion H; subst; clear H.
    + apply Keep with (t := [TFlushE]); [reflexivity|nostop_tac|frames_tac].
    + apply Keep with (t := [TDisp m]); [reflexivity|nostop_tac|frames_tac].
    + split; simpl; [intros e h a []|auto].
  - destruct (chk && (is_stopped (ictr x) (stopped s) || is_pre (imode x))); [|destruct rem as [|h rem']];
      inversion H; subst; clear H.
    + apply Keep with (t := [TDone (ictr x)]); [reflexivity|nostop_tac|frames_tac].
    + apply Keep with (t := [TDone (ictr x)]); [reflexivity|nostop_tac|frames_tac].
    + apply Keep with (t := [TInv (ictr x) (hid h) (S (depth k))]); [reflexivity|nostop_tac|].
      intros e h0 a [I|[I|I]]; [|discriminate|left; exists a; right; auto].
      inversion I; subst. right. simpl. rewrite Nat.eqb_refl. left. auto.
Qed.

Theorem stopper_was_invoked : forall prog s e h, reach prog s ->
  In (TStop e h) (trace s) -> In h (invs e (trace s)).
Proof.
  intros prog s e h R. assert (B : binv s).
  { induction R; [|eapply binv_step; eauto]. split; simpl; [intros e0 h0 a [I|[]]; discriminate|intros e0 h0 []]. }
  destruct B as [_ B]. auto.
Qed.

(* sorted(handlers, key=priority, reverse=True) *)
Definition hge (a b : handler K) : Prop := leb (hprio b) (hprio a) = true.

Lemma insert_desc_perm : forall h l, Permutation (insert_desc K leb h l) (h :: l).
Proof.
  induction l as [|x r IH]; simpl; auto. destruct (leb (hprio x) (hprio h)); auto.
  rewrite IH. apply perm_swap.
Qed.

Theorem sort_desc_perm : forall l, Permutation (sort_desc K leb l) l.
Proof.
  induction l as [|h l IH]; simpl; auto. unfold sort_desc in *. simpl.
  rewrite insert_desc_perm. auto.
Qed.

Lemma insert_desc_sorted : forall h l, StronglySorted hge l -> StronglySorted hge (insert_desc K leb h l).
Proof.
  induction l as [|x r IH]; simpl; intro S.
  - repeat constructor.
  - inversion S; subst. destruct (leb (hprio x) (hprio h)) eqn:E.
    + constructor; auto. constructor; auto.
      eapply Forall_impl; [|eassumption]. unfold hge. intros y Hy. eapply leb_trans; eauto.
    + constructor; auto. eapply Permutation_Forall; [symmetry; apply insert_desc_perm|].
      constructor; auto. unfold hge. destruct (leb_total (hprio x) (hprio h)); congruence.
Qed.

Theorem sort_desc_sorted : forall l, StronglySorted hge (sort_desc K leb l).
Proof.
  induction l as [|h l IH]; [constructor|]. unfold sort_desc in *. simpl. apply insert_desc_sorted. auto.
Qed.


(* the dispatchEvents loops on the stack are exactly the flush() calls that were entered and have not returned *)
Definition nB (t : list tr) : nat := length (filter (fun e => match e with TFlushB => true | _ => false end) t).
Definition nE (t : list tr) : nat := length (filter (fun e => match e with TFlushE => true | _ => false end) t).

Lemma flush_count_step : forall s s', qinv s -> step s = Some s' ->
  loops (stack s) + nE (trace s) = nB (trace s) -> loops (stack s') + nE (trace s') = nB (trace s').
Proof.
  intros s s' Q H. unfold DispatchOrder.step in H.
  destruct (stack s) as [|[ctx [|[n p md cs| | | |fs] acts]| |x rem chk] k] eqn:Hstk; try discriminate.
  - inversion H; subst; clear H. destruct ctx as [[e h]|]; unfold loops, nB, nE; simpl;
      rewrite ?filter_app, ?app_length; simpl; lia.
  - inversion H; subst; clear H. unfold loops, nB, nE; simpl; rewrite ?filter_app, ?app_length; simpl; lia.
  - destruct (batch s =? 0); inversion H; subst; clear H; unfold loops, nB, nE; simpl;
      rewrite ?filter_app, ?app_length; simpl; lia.
  - destruct ctx as [[e h]|]; simpl in H; inversion H; subst; clear H; unfold loops, nB, nE; simpl;
      rewrite ?filter_app, ?app_length; simpl; lia.
  - destruct ctx as [[e h]|]; simpl in H; inversion H; subst; clear H; unfold loops, nB, nE; simpl;
      rewrite ?filter_app, ?app_length; simpl; lia.
  - destruct ctx as [[e h]|]; simpl in H; inversion H; subst; clear H; unfold loops, nB, nE; simpl;
      rewrite ?filter_app, ?app_length; simpl; lia.
  - destruct (batch s =? 0) eqn:Bz.
    + inversion H; subst; clear H. unfold loops, nB, nE; simpl; rewrite ?filter_app, ?app_length; simpl; lia.
    + destruct (pop_min (heap s)) as [[m h']|] eqn:Pm; inversion H; subst; clear H.
      * unfold loops, nB, nE; simpl; rewrite ?filter_app, ?app_length; simpl; lia.
      * exfalso. destruct Q as [B _ _ _ _]. apply pop_min_none in Pm. rewrite Pm in B. simpl in B.
        apply Nat.eqb_neq in Bz. lia.
  - destruct (chk && (is_stopped (ictr x) (stopped s) || is_pre (imode x))); [|destruct rem as [|h rem']];
      inversion H; subst; clear H; unfold loops, nB, nE; simpl; rewrite ?filter_app, ?app_length; simpl; lia.
Qed.

Theorem depth_le_active_flushes : forall prog s, reach prog s ->
  depth (stack s) + nE (trace s) <= nB (trace s).
Proof.
  intros prog s R.
  assert (E : loops (stack s) + nE (trace s) = nB (trace s)).
  { induction R; [reflexivity|]. eapply flush_count_step; eauto using qinv_reach. }
  pose proof (depth_le_loops _ _ R). lia.
Qed.

(* ---------------------------------------------------------------- events delivered on several channels *)
Lemma is_seen_in : forall i l, existsb (Nat.eqb i) l = true <-> In i l.
Proof.
  intros. rewrite existsb_exists. split.
  - intros (y&I&E). apply Nat.eqb_eq in E. subst. auto.
  - intro I. exists i. split; auto. apply Nat.eqb_refl.
Qed.

Lemma dedup_spec : forall (l : list (handler K)) seen,
  NoDup (map hid (dedup K seen l)) /\
  (forall h, In h (dedup K seen l) -> In h l /\ ~ In (hid h) seen) /\
  (forall h, In h l -> In (hid h) seen \/ In (hid h) (map hid (dedup K seen l))).
Proof.
  induction l as [|h r IH]; intro seen; simpl.
  - split; [constructor|split; [intros h []|intros h []]].
  - destruct (existsb (Nat.eqb (hid h)) seen) eqn:E.
    + apply is_seen_in in E. destruct (IH seen) as (A&B&C). repeat split; auto.
      * destruct (B _ H); auto.
      * destruct (B _ H); auto.
      * intros h0 [<-|I]; auto.
    + assert (N : ~ In (hid h) seen) by (intro F; apply is_seen_in in F; congruence).
      destruct (IH (hid h :: seen)) as (A&B&C). repeat split.
      * simpl. constructor; auto. intro F. apply in_map_iff in F. destruct F as (h'&Eh&Ih).
        destruct (B _ Ih) as (_&Nh). apply Nh. left. auto.
      * destruct H as [<-|I]; auto. destruct (B _ I); auto.
      * destruct H as [<-|I]; auto. destruct (B _ I) as (_&Nh). intro F. apply Nh. right. auto.
      * intros h0 [<-|I]; [right; left; auto|].
        destruct (C _ I) as [[F|F]|F]; [right; left; auto|left; auto|right; right; auto].
Qed.

(* the handler list of a (not cancelled) event: every handler that matches one of its channels, once,
   in descending priority order *)
Theorem handlers_union : forall x, imode x <> MCancel ->
  let L := handlers_for K leb hs_of x in
  StronglySorted hge L /\ NoDup (map hid L) /\
  (forall h, In h L -> In h (handlers_chain K hs_of x)) /\
  (forall h, In h (handlers_chain K hs_of x) -> In (hid h) (map hid L)).
Proof.
  intros x Nc L. unfold L, handlers_for. destruct (imode x); simpl; try congruence;
    destruct (dedup_spec (handlers_chain K hs_of x) []) as (A&B&C);
    pose proof (sort_desc_perm (dedup K [] (handlers_chain K hs_of x))) as P;
    (repeat split;
     [apply sort_desc_sorted
     |eapply Permutation_NoDup; [symmetry; apply Permutation_map; exact P|exact A]
     |intros h I; apply (B h); eapply Permutation_in; eauto
     |intros h I; destruct (C h I) as [[]|F]; eapply Permutation_in; [symmetry; apply Permutation_map; exact P|exact F]]).
Qed.

(* ---------------------------------------------------------------- events stopped before their dispatch
   `if event.stopped: break` is only looked at after a handler returned, so an event on which stop() was called
   from outside before it was dispatched still gets its first (highest-priority) handler, and only that one *)
Definition pinv (s : state) : Prop :=
  (forall x rem, In (FDisp x rem false) (stack s) -> invs (ictr x) (trace s) = []) /\
  (forall x, In x (disps (trace s)) -> imode x = MPreStop -> length (invs (ictr x) (trace s)) <= 1).

Lemma noinv_invs : forall e (t : list tr), (forall e' h d, ~ In (TInv e' h d) t) -> invs e t = [].
Proof.
  induction t as [|a t IH]; intro N; auto. simpl.
  rewrite IH by (intros e' h d F; eapply N; right; eauto).
  destruct a; auto. exfalso. eapply N. left. reflexivity.
Qed.

Ltac noinv_tac := let F := fresh "F" in intros ? ? ? F; simpl in F; intuition discriminate.
Ltac sub_tac := let I0 := fresh "I" in intros ? ? I0; simpl in I0 |- *; intuition discriminate.

Lemma pinv_step : forall s s', qinv s -> hinv s -> pinv s -> step s = Some s' -> pinv s'.
Proof.
  intros s s' Q Hi [Pf Pl] H. unfold DispatchOrder.step in H.
  assert (Keep : forall t, trace s' = trace s ++ t -> (forall e h d, ~ In (TInv e h d) t) -> disps t = [] ->
            (forall x rem, In (FDisp x rem false) (stack s') -> In (FDisp x rem false) (stack s)) -> pinv s').
  { intros t Et Nt Dt Sub. split.
    - intros x rem I. rewrite Et, invs_app, (noinv_invs _ _ Nt), app_nil_r. eauto.
    - intros x I M. rewrite Et, disps_app, Dt, app_nil_r in I.
      rewrite Et, invs_app, (noinv_invs _ _ Nt), app_nil_r. auto. }
  destruct (stack s) as [|[ctx [|[n p md cs| | | |fs] acts]| |x rem chk] k] eqn:Hstk; try discriminate.
  - inversion H; subst; clear H.
    apply Keep with (t := match ctx with Some (e, h) => [TRet e h] | None => [] end);
      [reflexivity|destruct ctx as [[e h]|]; noinv_tac|destruct ctx as [[e h]|]; reflexivity|sub_tac].
  - inversion H; subst; clear H.
    apply Keep with (t := [TFire {| ikey := p; ictr := counter s; iname := n; imode := md; ichans := cs |}]);
      [reflexivity|noinv_tac|reflexivity|sub_tac].
  - destruct (batch s =? 0); inversion H; subst; clear H.
    + apply Keep with (t := [TFlushB; TSnap]); [reflexivity|noinv_tac|reflexivity|sub_tac].
    + apply Keep with (t := [TFlushB]); [reflexivity|noinv_tac|reflexivity|sub_tac].
  - destruct ctx as [[e h]|]; simpl in H; inversion H; subst; clear H.
    + apply Keep with (t := [TStop e h]); [reflexivity|noinv_tac|reflexivity|sub_tac].
    + apply Keep with (t := []); [reflexivity|noinv_tac|reflexivity|sub_tac].
  - destruct ctx as [[e h]|]; simpl in H; inversion H; subst; clear H.
    + apply Keep with (t := [TGen e h]); [reflexivity|noinv_tac|reflexivity|sub_tac].
    + apply Keep with (t := []); [reflexivity|noinv_tac|reflexivity|sub_tac].
  - destruct ctx as [[e h]|]; simpl in H; inversion H; subst; clear H.
    + apply Keep with (t := [TRaise e h]); [reflexivity|noinv_tac|reflexivity|sub_tac].
    + apply Keep with (t := []); [reflexivity|noinv_tac|reflexivity|sub_tac].
  - destruct (batch s =? 0); [|destruct (pop_min (heap s)) as [[m h']|] eqn:Pm]; inversion H; subst; clear H.
    + apply Keep with (t := [TFlushE]); [reflexivity|noinv_tac|reflexivity|sub_tac].
    + (* dispatch m *)
      assert (Nm : ~ In (ictr m) (ids (disps (trace s)))).
      { destruct Q as [_ _ N _ _]. unfold ids in N. rewrite !map_app in N. apply NoDup_app_r in N.
        eapply NoDup_app_disj; eauto. apply in_map.
        eapply Permutation_in; [symmetry; apply (pop_min_perm _ _ _ Pm)|left; auto]. }
      destruct (h_fresh _ Hi _ Nm) as (Fi&_&_).
      split; simpl.
      * intros x0 r0 [E|[E|I0]]; [inversion E; subst|discriminate|];
          (rewrite invs_snoc_other; [|discriminate]); auto. apply (Pf x0 r0). right. auto.
      * intros x0 I0 M. rewrite invs_snoc_other; [|discriminate].
        rewrite disps_app in I0. apply in_app_iff in I0. destruct I0 as [I0|[<-|[]]]; auto.
        rewrite Fi. simpl. lia.
    + split; simpl; [intros x0 r0 []|auto].
  - destruct (chk && (is_stopped (ictr x) (stopped s) || is_pre (imode x))) eqn:Cs; [|destruct rem as [|h rem']];
      inversion H; subst; clear H.
    + apply Keep with (t := [TDone (ictr x)]); [reflexivity|noinv_tac|reflexivity|sub_tac].
    + apply Keep with (t := [TDone (ictr x)]); [reflexivity|noinv_tac|reflexivity|sub_tac].
    + (* invoke h *)
      destruct Hi as [Hf Hd _ _ _ _]. rewrite Hstk in *. simpl in Hf. inversion Hf as [|? ? Nx _]; subst.
      destruct (Hd x (h :: rem') chk) as (Dx&_); [left; auto|].
      split; simpl.
      * intros x0 r0 [E|[E|I0]]; try discriminate.
        rewrite invs_app. simpl. destruct (ictr x =? ictr x0) eqn:E.
        -- apply Nat.eqb_eq in E. exfalso. apply Nx. rewrite E. eapply in_frame_ids; eauto.
        -- rewrite app_nil_r. apply (Pf x0 r0). right. auto.
      * intros x0 I0 M. rewrite disps_app in I0. simpl in I0. rewrite app_nil_r in I0.
        rewrite invs_app. simpl. destruct (ictr x =? ictr x0) eqn:E.
        -- apply Nat.eqb_eq in E.
           assert (x0 = x).
           { destruct Q as [_ _ N _ _]. unfold ids in N. rewrite !map_app in N. do 2 apply NoDup_app_r in N.
             eapply ids_inj; eauto. }
           subst x0. rewrite M in Cs. simpl in Cs. rewrite orb_true_r, andb_true_r in Cs. subst chk.
           rewrite (Pf x (h :: rem')) by (left; auto). simpl. lia.
        -- rewrite app_nil_r. auto.
Qed.

Theorem prestopped_at_most_one : forall prog s x, reach prog s -> In x (disps (trace s)) ->
  imode x = MPreStop -> length (invs (ictr x) (trace s)) <= 1.
Proof.
  intros prog s x R. assert (P : pinv s).
  { induction R; [split; simpl; [intros x0 r0 [E|[]]; discriminate|intros x0 []]|].
    eapply pinv_step; eauto using qinv_reach, hinv_reach. }
  destruct P as [_ P]. auto.
Qed.

(* ---------------------------------------------------------------- the pass order as a function *)
Lemma eqk_true : forall a b, eqk K leb a b = true <-> leb a b = true /\ leb b a = true.
Proof. intros. unfold eqk. apply andb_true_iff. Qed.

Lemma filter_or_perm : forall (A : Type) (f g : A -> bool) l,
  (forall x, In x l -> f x = true -> g x = true -> False) ->
  Permutation (filter (fun x => f x || g x) l) (filter f l ++ filter g l).
Proof.
  induction l as [|x l IH]; intro D; simpl; auto.
  assert (IH' := IH (fun y I => D y (or_intror I))).
  destruct (f x) eqn:F; destruct (g x) eqn:G; simpl; auto.
  - exfalso. eapply D; eauto. left; auto.
  - apply Permutation_cons_app. auto.
Qed.

Lemma filter_all : forall (A : Type) (f : A -> bool) l, (forall x, In x l -> f x = true) -> filter f l = l.
Proof.
  induction l as [|x l IH]; intro H; simpl; auto.
  rewrite (H x) by (left; auto). f_equal. apply IH. intros; apply H; right; auto.
Qed.

(* ks strictly ascending *)
Definition asc (ks : list K) : Prop := StronglySorted (fun a b => leb b a = false) ks.
(* every entry's priority is (equivalent to) one of ks *)
Definition covers (ks : list K) (l : list item) : Prop :=
  forall x, In x l -> existsb (eqk K leb (ikey x)) ks = true.

Lemma bucket_perm_filter : forall ks l, asc ks ->
  Permutation (bucket leb ks l) (filter (fun x => existsb (eqk K leb (ikey x)) ks) l).
Proof.
  induction 1 as [|k ks S IH F]; unfold bucket in *; simpl.
  - induction l; simpl; auto.
  - rewrite IH. symmetry. apply filter_or_perm.
    intros x _ E1 E2. apply existsb_exists in E2. destruct E2 as (k'&I&E2).
    rewrite Forall_forall in F. specialize (F _ I).
    apply eqk_true in E1. apply eqk_true in E2. destruct E1 as [E1 _]. destruct E2 as [_ E2].
    rewrite (leb_trans _ _ _ E2 E1) in F. discriminate.
Qed.

Lemma bucket_perm : forall ks l, asc ks -> covers ks l -> Permutation (bucket leb ks l) l.
Proof. intros ks l A C. rewrite bucket_perm_filter by auto. rewrite filter_all; auto. Qed.

Lemma SS_app : forall (A : Type) (R : A -> A -> Prop) l1 l2, StronglySorted R l1 -> StronglySorted R l2 ->
  (forall a b, In a l1 -> In b l2 -> R a b) -> StronglySorted R (l1 ++ l2).
Proof.
  induction 1 as [|a l1 S IH F]; intros S2 C; simpl; auto.
  constructor.
  - apply IH; auto. intros; apply C; auto. right; auto.
  - apply Forall_app. split; auto. apply Forall_forall. intros b I. apply C; auto. left; auto.
Qed.

Lemma SS_filter_impl : forall (A : Type) (R R' : A -> A -> Prop) (f : A -> bool) l, StronglySorted R l ->
  (forall a b, f a = true -> f b = true -> R a b -> R' a b) -> StronglySorted R' (filter f l).
Proof.
  induction 1 as [|a l S IH F]; intro H; simpl; [constructor|].
  destruct (f a) eqn:Fa; auto. constructor; auto.
  apply Forall_forall. intros b I. apply filter_In in I. destruct I as [I Fb].
  rewrite Forall_forall in F. apply H; auto.
Qed.

Definition idlt (a b : item) : Prop := ictr a < ictr b.

Lemma bucket_sorted : forall ks l, asc ks -> StronglySorted idlt l -> StronglySorted prec (bucket leb ks l).
Proof.
  induction 1 as [|k ks S IH F]; intro Sl; unfold bucket in *; simpl; [constructor|].
  apply SS_app; auto.
  - eapply SS_filter_impl; [exact Sl|]. intros a b Ea Eb L. right.
    apply eqk_true in Ea. apply eqk_true in Eb. destruct Ea as [Ea1 Ea2]. destruct Eb as [Eb1 Eb2].
    repeat split; [eapply leb_trans; eauto|eapply leb_trans; eauto|exact L].
  - intros a b Ia Ib. apply filter_In in Ia. destruct Ia as [_ Ea].
    apply in_flat_map in Ib. destruct Ib as (k'&Ik&Ib). apply filter_In in Ib. destruct Ib as [_ Eb].
    rewrite Forall_forall in F. specialize (F _ Ik).
    apply eqk_true in Ea. apply eqk_true in Eb. destruct Ea as [Ea _]. destruct Eb as [_ Eb].
    left. destruct (leb (ikey b) (ikey a)) eqn:E; auto.
    rewrite (leb_trans _ _ _ (leb_trans _ _ _ Eb E) Ea) in F. discriminate.
Qed.

Lemma sorted_perm_unique : forall (A : Type) (R : A -> A -> Prop),
  (forall a, ~ R a a) -> (forall a b c, R a b -> R b c -> R a c) ->
  forall l1 l2, StronglySorted R l1 -> StronglySorted R l2 -> Permutation l1 l2 -> l1 = l2.
Proof.
  intros A R Irr Tr. induction l1 as [|a l1 IH]; intros l2 S1 S2 P.
  - apply Permutation_nil in P. auto.
  - destruct l2 as [|b l2]; [apply Permutation_sym, Permutation_nil in P; discriminate|].
    inversion S1 as [|? ? S1' F1]; inversion S2 as [|? ? S2' F2]; subst.
    rewrite Forall_forall in F1, F2.
    assert (Ia : In a (b :: l2)) by (eapply Permutation_in; [exact P|left; auto]).
    assert (Ib : In b (a :: l1)) by (eapply Permutation_in; [symmetry; exact P|left; auto]).
    destruct Ib as [E|Ib].
    + subst b. f_equal. apply IH; auto. eapply Permutation_cons_inv; eauto.
    + destruct Ia as [E|Ia]; [subst b; f_equal; apply IH; auto; eapply Permutation_cons_inv; eauto|].
      exfalso. apply (Irr a). eapply Tr; [apply F1; exact Ib|apply F2; exact Ia].
Qed.

(* the queue holds its entries in fire order *)
Lemma queued_incr : forall m t m', mrun m t m' -> mwf m -> StronglySorted idlt (queued m) ->
  StronglySorted idlt (queued m').
Proof.
  induction 1 as [|m e m1 t m2 St Rn IH]; auto. intros W S. apply IH; [eapply mwf_step; eauto|].
  inversion St; subst; simpl; auto; [|constructor].
  apply SS_app; auto; [repeat constructor|].
  intros a b Ia [<-|[]]. destruct W as [_ F]. unfold ids in F. rewrite map_app in F. apply Forall_app in F.
  destruct F as [F _]. rewrite Forall_forall in F. unfold idlt.
  match goal with Hx : ictr x = next m |- _ => rewrite Hx end. apply F. apply in_map. auto.
Qed.

(* a completed pass dispatched exactly [bucket ks] of what was queued when it began *)
Theorem pass_exact : forall prog s t1 t2 ks, reach prog s ->
  trace s = t1 ++ TSnap :: t2 -> nosnap t2 -> batch s = 0 ->
  asc ks -> covers ks (pending_fires t1) ->
  disps t2 = bucket leb ks (pending_fires t1).
Proof.
  intros prog s t1 t2 ks R Ht N B A C.
  destruct (pass_sorted _ _ _ _ R Ht N) as (rest&L&P&S).
  rewrite B in L. destruct rest; [|discriminate]. rewrite app_nil_r in *.
  assert (I : StronglySorted idlt (pending_fires t1)).
  { destruct (qinv_reach _ _ R) as [_ Rn _ _ _]. rewrite Ht in Rn.
    destruct (split_at_snap _ _ _ Rn) as (ma&mb&Ha&_&Hq&_). rewrite <- Hq.
    apply (queued_incr _ _ _ Ha mwf_m0). constructor. }
  apply (sorted_perm_unique _ prec prec_irrefl prec_trans); auto.
  - apply bucket_sorted; auto.
  - rewrite <- P. symmetry. apply bucket_perm; auto.
Qed.

(* fire() only appends to the FIFO: no handler runs, no frame is pushed, heap and batch are untouched *)
Lemma fire_only_queues : forall (s : state) ctx n p md cs acts k,
  stack s = FBody ctx (AFire n p md cs :: acts) :: k ->
  exists s', step s = Some s' /\
    let x := Build_item p (counter s) n md cs in
    fifo s' = fifo s ++ [x] /\ heap s' = heap s /\ batch s' = batch s /\ stopped s' = stopped s /\
    stack s' = FBody ctx acts :: k /\ trace s' = trace s ++ [TFire x].
Proof.
  intros s ctx n p md cs acts k H. unfold DispatchOrder.step. rewrite H. eexists. split. reflexivity. simpl. repeat split.
Qed.

End P.

(* the two assumptions on the priority comparison, named for the statements in Props/C02.v *)
Definition Total (K : Type) (leb : K -> K -> bool) : Prop := forall a b : K, leb a b = true \/ leb b a = true.
Definition Trans (K : Type) (leb : K -> K -> bool) : Prop :=
  forall a b c : K, leb a b = true -> leb b c = true -> leb a c = true.

Lemma handlers_sorted : forall (K : Type) (leb : K -> K -> bool), Total K leb -> Trans K leb -> forall l,
  Permutation (sort_desc K leb l) l /\
  StronglySorted (fun a b => leb (hprio b) (hprio a) = true) (sort_desc K leb l).
Proof. intros K leb T R l. split; [apply sort_desc_perm|apply (sort_desc_sorted K leb T R)]. Qed.

Lemma run_init_reach : forall (K : Type) (leb : K -> K -> bool) (hs_of : nat -> nat -> list (handler K)) prog n,
  reach K leb hs_of prog (run K leb hs_of n (init prog)).
Proof. intros. apply run_reach. constructor. Qed.
