(* Proofs about the poller model (Model/Poller.v). *)
From Coq Require Import List Arith Bool Lia.
From Circ Require Import Model.Poller.
Import ListNotations.

(* ------------------------------------------------------------------ basics *)
Lemma mem_In : forall x l, mem x l = true <-> In x l.
Proof.
  intros x l. unfold mem. rewrite existsb_exists. split.
  - intros [y [Hy He]]. apply Nat.eqb_eq in He. subst. exact Hy.
  - intros H. exists x. split; [exact H | apply Nat.eqb_refl].
Qed.

Lemma mem_false : forall x l, mem x l = false <-> ~ In x l.
Proof.
  intros x l. rewrite <- mem_In. destruct (mem x l); split; intro H; congruence.
Qed.

Lemma upd_same : forall A (m : nat -> option A) k v, upd m k v k = v.
Proof. intros. unfold upd. rewrite Nat.eqb_refl. reflexivity. Qed.

Lemma upd_other : forall A (m : nat -> option A) k v j, j <> k -> upd m k v j = m j.
Proof. intros. unfold upd. destruct (Nat.eqb_spec j k); [contradiction | reflexivity]. Qed.

Lemma In_remove1 : forall x y l, In x (remove1 y l) -> In x l.
Proof.
  induction l as [|z t IH]; simpl; intros H; [exact H|].
  destruct (Nat.eqb y z); [right; exact H|].
  destruct H as [H|H]; [left; exact H | right; apply IH; exact H].
Qed.

Lemma In_remove1_neq : forall x y l, x <> y -> In x l -> In x (remove1 y l).
Proof.
  induction l as [|z t IH]; simpl; intros Hn H; [exact H|].
  destruct (Nat.eqb_spec y z).
  - destruct H as [H|H]; [subst; contradiction | exact H].
  - destruct H as [H|H]; [left; exact H | right; apply IH; assumption].
Qed.

Lemma remove1_notin : forall x l, ~ In x l -> remove1 x l = l.
Proof.
  induction l as [|z t IH]; simpl; intros H; [reflexivity|].
  destruct (Nat.eqb_spec x z).
  - subst. exfalso. apply H. left. reflexivity.
  - f_equal. apply IH. intro. apply H. right. assumption.
Qed.

Lemma NoDup_remove1 : forall x l, NoDup l -> NoDup (remove1 x l) /\ ~ In x (remove1 x l).
Proof.
  induction l as [|z t IH]; simpl; intros H.
  - split; [constructor | intros []].
  - inversion H as [|? ? Hz Ht]; subst.
    destruct (Nat.eqb_spec x z).
    + subst. split; assumption.
    + destruct (IH Ht) as [H1 H2]. split.
      * constructor; [|exact H1]. intro Hi. apply Hz. eapply In_remove1. exact Hi.
      * intros [Hi|Hi]; [congruence | contradiction].
Qed.

Lemma mem_remove1_neq : forall x y l, x <> y -> mem x (remove1 y l) = mem x l.
Proof.
  intros x y l Hn. destruct (mem x l) eqn:E.
  - apply mem_In. apply In_remove1_neq; [exact Hn | apply mem_In; exact E].
  - apply mem_false. intro Hi. apply mem_false in E. apply E. eapply In_remove1. exact Hi.
Qed.

Lemma NoDup_app_one : forall (x : nat) l, NoDup l -> ~ In x l -> NoDup (l ++ [x]).
Proof.
  induction l as [|z t IH]; simpl; intros H Hn.
  - constructor; [intros [] | constructor].
  - inversion H; subst. constructor.
    + rewrite in_app_iff. intros [Hi|[Hi|[]]]; [contradiction|]. subst. apply Hn. left. reflexivity.
    + apply IH; [assumption|]. intro. apply Hn. right. assumption.
Qed.

(* ------------------------------------------------------------------ what "registered" means *)
Definition reading (s : state) (o : nat) : Prop := In o (rd s).
Definition writing (s : state) (o : nat) : Prop := In o (wr s).
Definition registered (s : state) (o : nat) : Prop := In o (rd s) \/ In o (wr s).

(* API precondition P1: a role is added only when it is not registered already
   (every caller in circuits guards with isReading / isWriting) *)
Definition pre (s : state) (x : op) : Prop :=
  match x with
  | AddR _ o => ~ In o (rd s)
  | AddW _ o => ~ In o (wr s)
  | _ => True
  end.

Inductive reach (k : kind) : state -> Prop :=
| reach_init : reach k init
| reach_step : forall s x s' e, reach k s -> pre s x -> step k s x = Ok s' e -> reach k s'.

(* ------------------------------------------------------------------ the invariant *)
Record WInv (s : state) : Prop := {
  w_inj : forall o f, fds s o = Some f <-> holder s f = Some o;
  w_born : forall o f, fds s o = Some f -> born s o = Some f;
  w_reg_born : forall o, registered s o -> born s o <> None;
  w_nd_r : NoDup (rd s);
  w_nd_w : NoDup (wr s);
  w_tg : forall o, tg s o <> None -> registered s o
}.

Definition mask (s : state) (o : nat) : bool * bool := (mem o (rd s), mem o (wr s)).

Record MInv (s : state) : Prop := {
  m_born : forall f o, pmap s f = Some o -> born s o = Some f;
  (* every registered open object is mirrored in the kernel table and in _map *)
  m_mirror : forall o f, fds s o = Some f -> registered s o -> pmap s f = Some o /\ kreg s f = Some (mask s o);
  (* a kernel entry whose _map object still has that number carries exactly that object's interest *)
  m_exact : forall f o m, pmap s f = Some o -> fds s o = Some f -> kreg s f = Some m -> m = mask s o /\ registered s o
}.

(* epoll only: the kernel drops closed descriptors, so every entry is live *)
Definition EInv (s : state) : Prop :=
  forall f m, kreg s f = Some m -> exists o, pmap s f = Some o /\ fds s o = Some f.

Definition Inv (k : kind) (s : state) : Prop :=
  WInv s /\ (k <> KSelect -> MInv s) /\ (k = KEPoll -> EInv s).

(* ------------------------------------------------------------------ helpers for the invariant *)
Lemma mem_ext : forall x l l', (In x l <-> In x l') -> mem x l = mem x l'.
Proof.
  intros x l l' H. destruct (mem x l') eqn:E.
  - apply mem_In. apply H. apply mem_In. exact E.
  - apply mem_false. intro Hi. apply mem_false in E. apply E. apply H. exact Hi.
Qed.

Lemma registered_mask : forall s o, registered s o <-> (fst (mask s o) || snd (mask s o)) = true.
Proof.
  intros s o. unfold registered, mask. simpl. rewrite orb_true_iff, !mem_In. reflexivity.
Qed.

(* MInv for every object but o (o's list membership has just been changed by a BasePoller method) *)
Record MInvX (o : nat) (s : state) : Prop := {
  x_born : forall f o', pmap s f = Some o' -> born s o' = Some f;
  x_mirror : forall o' f, o' <> o -> fds s o' = Some f -> registered s o' -> pmap s f = Some o' /\ kreg s f = Some (mask s o');
  x_exact : forall f o' m, o' <> o -> pmap s f = Some o' -> fds s o' = Some f -> kreg s f = Some m -> m = mask s o' /\ registered s o'
}.

(* s1 differs from s only in o's membership / target *)
Definition only_o (o : nat) (s s1 : state) : Prop :=
  fds s1 = fds s /\ holder s1 = holder s /\ born s1 = born s /\ pmap s1 = pmap s /\ kreg s1 = kreg s /\
  (forall o', o' <> o -> (In o' (rd s1) <-> In o' (rd s)) /\ (In o' (wr s1) <-> In o' (wr s)) /\ tg s1 o' = tg s o').

Lemma only_o_mask : forall o s s1 o', only_o o s s1 -> o' <> o -> mask s1 o' = mask s o' /\ (registered s1 o' <-> registered s o').
Proof.
  intros o s s1 o' (_ & _ & _ & _ & _ & H) Hn. destruct (H o' Hn) as (Hr & Hw & _). split.
  - unfold mask. f_equal; apply mem_ext; assumption.
  - unfold registered. rewrite Hr, Hw. reflexivity.
Qed.

Lemma MInv_only_o : forall o s s1, MInv s -> only_o o s s1 -> MInvX o s1.
Proof.
  intros o s s1 [Hb Hm He] Ho. pose proof Ho as (Hf & Hh & Hbn & Hp & Hk & _). split.
  - intros f o' H. rewrite Hp in H. rewrite Hbn. apply Hb. exact H.
  - intros o' f Hn H1 H2. destruct (only_o_mask _ _ _ _ Ho Hn) as [Hmk Hrg].
    rewrite Hf in H1. rewrite Hp, Hk, Hmk. apply Hm; [exact H1 | apply Hrg; exact H2].
  - intros f o' m Hn H1 H2 H3. destruct (only_o_mask _ _ _ _ Ho Hn) as [Hmk Hrg].
    rewrite Hp in H1. rewrite Hf in H2. rewrite Hk in H3. rewrite Hmk, Hrg. eapply He; eassumption.
Qed.

Lemma EInv_only_o : forall o s s1, EInv s -> only_o o s s1 -> EInv s1.
Proof.
  intros o s s1 He (Hf & _ & _ & Hp & Hk & _) f m H. rewrite Hk in H. rewrite Hp, Hf. eapply He. exact H.
Qed.

Lemma rd_drop_target : forall s o, rd (drop_target s o) = rd s /\ wr (drop_target s o) = wr s /\
  fds (drop_target s o) = fds s /\ holder (drop_target s o) = holder s /\ born (drop_target s o) = born s /\
  pmap (drop_target s o) = pmap s /\ kreg (drop_target s o) = kreg s /\
  (forall o', o' <> o -> tg (drop_target s o) o' = tg s o').
Proof.
  intros s o. unfold drop_target. destruct (mem o (rd s) || mem o (wr s)); simpl; repeat split; try reflexivity.
  intros o' Hn. apply upd_other. exact Hn.
Qed.

Lemma only_o_addR : forall s c o, only_o o s (b_addR s c o).
Proof.
  intros. unfold only_o, b_addR. simpl. repeat split; try reflexivity; try tauto.
  - rewrite in_app_iff. simpl. intuition congruence.
  - rewrite in_app_iff. tauto.
  - apply upd_other. assumption.
Qed.

Lemma only_o_addW : forall s c o, only_o o s (b_addW s c o).
Proof.
  intros. unfold only_o, b_addW. simpl. repeat split; try reflexivity; try tauto.
  - rewrite in_app_iff. simpl. intuition congruence.
  - rewrite in_app_iff. tauto.
  - apply upd_other. assumption.
Qed.

Lemma only_o_remR : forall s o, only_o o s (b_remR s o).
Proof.
  intros s o. unfold b_remR.
  destruct (rd_drop_target (set_rd s (remove1 o (rd s))) o) as (H1 & H2 & H3 & H4 & H5 & H6 & H7 & H8).
  unfold only_o. rewrite H1, H2, H3, H4, H5, H6, H7. simpl. repeat split; try reflexivity; try tauto.
  - apply In_remove1.
  - apply In_remove1_neq. assumption.
  - rewrite H8 by assumption. reflexivity.
Qed.

Lemma only_o_remW : forall s o, only_o o s (b_remW s o).
Proof.
  intros s o. unfold b_remW.
  destruct (rd_drop_target (set_wr s (remove1 o (wr s))) o) as (H1 & H2 & H3 & H4 & H5 & H6 & H7 & H8).
  unfold only_o. rewrite H1, H2, H3, H4, H5, H6, H7. simpl. repeat split; try reflexivity; try tauto.
  - apply In_remove1.
  - apply In_remove1_neq. assumption.
  - rewrite H8 by assumption. reflexivity.
Qed.

Lemma only_o_discard : forall s o, only_o o s (b_discard s o).
Proof.
  intros s o. unfold only_o, b_discard. simpl. repeat split; try reflexivity.
  - apply In_remove1.
  - apply In_remove1_neq. assumption.
  - apply In_remove1.
  - apply In_remove1_neq. assumption.
  - apply upd_other. assumption.
Qed.

(* ------------------------------------------------------------------ _updateRegistration *)
Lemma orb_false_mem : forall s o, mem o (rd s) || mem o (wr s) = false -> ~ In o (rd s) /\ ~ In o (wr s).
Proof. intros s o H. apply orb_false_iff in H. destruct H. split; apply mem_false; assumption. Qed.

Lemma update_reg_shape : forall k s o s', update_reg k s o = Some s' ->
  fds s' = fds s /\ holder s' = holder s /\ born s' = born s /\ rd s' = rd s /\ wr s' = wr s /\
  (registered s o -> tg s' = tg s) /\
  (~ registered s o -> forall o', tg s' o' = if Nat.eqb o' o then None else tg s o').
Proof.
  intros k s o s' H. unfold update_reg, unregister in H.
  destruct (fds s o) as [f|] eqn:Ef; simpl in H.
  - destruct (mem o (rd s) || mem o (wr s)) eqn:Em.
    + rewrite Ef in H. inversion H; subst; clear H. simpl. repeat split; try reflexivity.
      intros Hn. exfalso. apply Hn. apply registered_mask. exact Em.
    + destruct (orb_false_mem _ _ Em) as [Hr Hw].
      assert (Hs : s' = b_discard (set_kreg s (upd (kreg s) f None)) o \/
                   s' = set_pmap (b_discard (set_kreg s (upd (kreg s) f None)) o) (upd (pmap s) f None)).
      { simpl in H. rewrite Ef in H. destruct k; inversion H; auto. }
      clear H. rename Hs into H.
      destruct H as [H|H]; subst s'; simpl; rewrite !remove1_notin by assumption;
        repeat split; try reflexivity; try (intros [Hx|Hx]; contradiction).
  - destruct (mem o (rd s) || mem o (wr s)) eqn:Em.
    + rewrite Ef in H. discriminate.
    + destruct (orb_false_mem _ _ Em) as [Hr Hw].
      assert (s' = b_discard s o) as ->.
      { simpl in H. rewrite Ef in H. destruct k; inversion H; reflexivity. }
      simpl. rewrite !remove1_notin by assumption.
      repeat split; try reflexivity; try (intros [Hx|Hx]; contradiction).
Qed.

Lemma update_reg_tables : forall k s o s', update_reg k s o = Some s' ->
  match fds s o with
  | Some f =>
      (registered s o -> (forall j, kreg s' j = upd (kreg s) f (Some (mask s o)) j) /\
                         (forall j, pmap s' j = upd (pmap s) f (Some o) j)) /\
      (~ registered s o -> (forall j, kreg s' j = upd (kreg s) f None j) /\
                           (forall j, pmap s' j = pmap s j \/ (j = f /\ pmap s' j = None)))
  | None => ~ registered s o /\ kreg s' = kreg s /\ pmap s' = pmap s
  end.
Proof.
  intros k s o s' H. unfold update_reg, unregister in H.
  destruct (fds s o) as [f|] eqn:Ef; simpl in H.
  - destruct (mem o (rd s) || mem o (wr s)) eqn:Em.
    + rewrite Ef in H. inversion H; subst; clear H. simpl. split.
      * intros _. split; intros j; unfold upd, mask; destruct (Nat.eqb j f); reflexivity.
      * intros Hn. exfalso. apply Hn. apply registered_mask. exact Em.
    + assert (Hs : s' = b_discard (set_kreg s (upd (kreg s) f None)) o \/
                   s' = set_pmap (b_discard (set_kreg s (upd (kreg s) f None)) o) (upd (pmap s) f None)).
      { simpl in H. rewrite Ef in H. destruct k; inversion H; auto. }
      clear H. split.
      * intros Hr. apply registered_mask in Hr. unfold mask in Hr. simpl in Hr. congruence.
      * intros _. destruct Hs as [H|H]; subst s'; simpl; split; intros j; try reflexivity.
        -- left. reflexivity.
        -- unfold upd. destruct (Nat.eqb_spec j f); [right; split; [assumption|reflexivity] | left; reflexivity].
  - destruct (mem o (rd s) || mem o (wr s)) eqn:Em.
    + rewrite Ef in H. discriminate.
    + assert (s' = b_discard s o) as ->.
      { simpl in H. rewrite Ef in H. destruct k; inversion H; reflexivity. }
      simpl. split; [|split; reflexivity].
      intros Hr. apply registered_mask in Hr. unfold mask in Hr. simpl in Hr. congruence.
Qed.

Lemma update_reg_MInv : forall k s o s',
  (forall o' f, fds s o' = Some f <-> holder s f = Some o') ->
  (forall o' f, fds s o' = Some f -> born s o' = Some f) ->
  MInvX o s -> update_reg k s o = Some s' -> MInv s'.
Proof.
  intros k s o s' Hinj Hborn [Xb Xm Xe] H.
  pose proof (update_reg_shape _ _ _ _ H) as (Hf & Hh & Hbn & Hrd & Hwr & _).
  pose proof (update_reg_tables _ _ _ _ H) as Ht.
  assert (Hmask : forall o', mask s' o' = mask s o') by (intros; unfold mask; rewrite Hrd, Hwr; reflexivity).
  assert (Hreg : forall o', registered s' o' <-> registered s o') by (intros; unfold registered; rewrite Hrd, Hwr; reflexivity).
  destruct (fds s o) as [f|] eqn:Ef.
  - destruct Ht as [HtA HtB].
    assert (Hdec : registered s o \/ ~ registered s o).
    { destruct (fst (mask s o) || snd (mask s o)) eqn:E.
      - left. apply registered_mask. exact E.
      - right. intro Hr. apply registered_mask in Hr. congruence. }
    destruct Hdec as [Hr|Hr].
    + destruct (HtA Hr) as [Hk Hp]. split.
      * intros f' o' Hpm. rewrite Hp in Hpm. rewrite Hbn. unfold upd in Hpm.
        destruct (Nat.eqb_spec f' f).
        -- inversion Hpm; subst. apply Hborn. exact Ef.
        -- eapply Xb. exact Hpm.
      * intros o' f' Hfd Hrg. rewrite Hf in Hfd. rewrite Hk, Hp, Hmask.
        destruct (Nat.eq_dec o' o) as [->|Hn].
        -- rewrite Ef in Hfd. inversion Hfd; subst. rewrite !upd_same. split; reflexivity.
        -- assert (f' <> f).
           { intro; subst. apply Hinj in Hfd. apply Hinj in Ef. congruence. }
           rewrite !upd_other by assumption. apply Xm; [assumption | exact Hfd | apply Hreg; exact Hrg].
      * intros f' o' m Hpm Hfd Hkr. rewrite Hp in Hpm. rewrite Hf in Hfd. rewrite Hk in Hkr. rewrite Hmask, Hreg.
        unfold upd in Hpm, Hkr. destruct (Nat.eqb_spec f' f).
        -- subst. inversion Hpm; subst. inversion Hkr; subst. split; [reflexivity | exact Hr].
        -- assert (o' <> o) by (intro; subst; congruence).
           eapply Xe; eassumption.
    + destruct (HtB Hr) as [Hk Hp]. split.
      * intros f' o' Hpm. rewrite Hbn. destruct (Hp f') as [Hq|[_ Hq]]; [|congruence].
        rewrite Hq in Hpm. eapply Xb. exact Hpm.
      * intros o' f' Hfd Hrg. rewrite Hf in Hfd. apply Hreg in Hrg. rewrite Hmask.
        assert (o' <> o) by (intro; subst; contradiction).
        assert (f' <> f).
        { intro; subst. apply Hinj in Hfd. apply Hinj in Ef. congruence. }
        destruct (Xm o' f' H0 Hfd Hrg) as [X1 X2].
        rewrite Hk, upd_other by assumption. split; [|exact X2].
        destruct (Hp f') as [Hq|[Hq _]]; [rewrite Hq; exact X1 | contradiction].
      * intros f' o' m Hpm Hfd Hkr. rewrite Hf in Hfd. rewrite Hk in Hkr. rewrite Hmask, Hreg.
        unfold upd in Hkr. destruct (Nat.eqb_spec f' f); [discriminate|].
        destruct (Hp f') as [Hq|[Hq _]]; [|contradiction]. rewrite Hq in Hpm.
        assert (o' <> o) by (intro; subst; congruence).
        eapply Xe; eassumption.
  - destruct Ht as (Hr & Hk & Hp). split.
    + intros f' o' Hpm. rewrite Hbn. rewrite Hp in Hpm. eapply Xb. exact Hpm.
    + intros o' f' Hfd Hrg. rewrite Hf in Hfd. apply Hreg in Hrg. rewrite Hmask, Hk, Hp.
      apply Xm; try assumption. intro; subst; contradiction.
    + intros f' o' m Hpm Hfd Hkr. rewrite Hf in Hfd. rewrite Hp in Hpm. rewrite Hk in Hkr. rewrite Hmask, Hreg.
      eapply Xe; try eassumption. intro; subst; congruence.
Qed.

Lemma update_reg_EInv : forall k s o s', EInv s -> update_reg k s o = Some s' -> EInv s'.
Proof.
  intros k s o s' He H.
  pose proof (update_reg_shape _ _ _ _ H) as (Hf & _).
  pose proof (update_reg_tables _ _ _ _ H) as Ht.
  intros f m Hk. rewrite Hf.
  destruct (fds s o) as [fo|] eqn:Ef.
  + destruct Ht as [HtA HtB].
    destruct (fst (mask s o) || snd (mask s o)) eqn:E.
    * assert (Hr : registered s o) by (apply registered_mask; exact E).
      destruct (HtA Hr) as [Hkk Hp]. rewrite Hkk in Hk. rewrite Hp. unfold upd in *.
      destruct (Nat.eqb_spec f fo); [subst; exists o; split; [reflexivity|exact Ef]|]. eapply He. exact Hk.
    * assert (Hr : ~ registered s o) by (intro Hr; apply registered_mask in Hr; congruence).
      destruct (HtB Hr) as [Hkk Hp]. rewrite Hkk in Hk. unfold upd in Hk.
      destruct (Nat.eqb_spec f fo); [discriminate|].
      destruct (Hp f) as [Hq|[Hq _]]; [|contradiction]. rewrite Hq. eapply He. exact Hk.
  + destruct Ht as (_ & Hkk & Hp). rewrite Hkk in Hk. rewrite Hp. eapply He. exact Hk.
Qed.

(* ------------------------------------------------------------------ WInv through an API call *)
Lemma api_shape : forall k s o s', api k s o = Some s' ->
  fds s' = fds s /\ holder s' = holder s /\ born s' = born s /\ rd s' = rd s /\ wr s' = wr s /\
  (forall o', tg s' o' = tg s o' \/ (o' = o /\ tg s' o' = None)).
Proof.
  intros k s o s' H.
  assert (Hu : update_reg k s o = Some s' ->
    fds s' = fds s /\ holder s' = holder s /\ born s' = born s /\ rd s' = rd s /\ wr s' = wr s /\
    (forall o', tg s' o' = tg s o' \/ (o' = o /\ tg s' o' = None))).
  { intros Hu. destruct (update_reg_shape _ _ _ _ Hu) as (H1 & H2 & H3 & H4 & H5 & H6 & H7).
    repeat split; try assumption. intros o'.
    destruct (fst (mask s o) || snd (mask s o)) eqn:E.
    - left. rewrite H6; [reflexivity | apply registered_mask; exact E].
    - rewrite H7 by (intro Hr; apply registered_mask in Hr; congruence).
      destruct (Nat.eqb_spec o' o); [right; split; [assumption|reflexivity] | left; reflexivity]. }
  destruct k; simpl in H; try (apply Hu; exact H).
  inversion H; subst. repeat split; try reflexivity. intros; left; reflexivity.
Qed.

Lemma WInv_api : forall k s s1 o s', WInv s -> only_o o s s1 -> NoDup (rd s1) -> NoDup (wr s1) ->
  born s o <> None -> (tg s1 o <> None -> registered s1 o) -> api k s1 o = Some s' -> WInv s'.
Proof.
  intros k s s1 o s' [Wi Wb Wr Wn1 Wn2 Wt] Ho N1 N2 Hbo Hto H.
  destruct (api_shape _ _ _ _ H) as (H1 & H2 & H3 & H4 & H5 & H6).
  pose proof Ho as (G1 & G2 & G3 & _ & _ & G6).
  assert (Hreg : forall o', registered s' o' <-> registered s1 o') by (intros; unfold registered; rewrite H4, H5; reflexivity).
  split.
  - intros o' f. rewrite H1, H2, G1, G2. apply Wi.
  - intros o' f. rewrite H1, H3, G1, G3. apply Wb.
  - intros o' Hr. rewrite H3, G3. apply Hreg in Hr.
    destruct (Nat.eq_dec o' o) as [->|Hn]; [exact Hbo|].
    apply Wr. destruct (G6 o' Hn) as (A & B & _). unfold registered in *. rewrite <- A, <- B. exact Hr.
  - rewrite H4. exact N1.
  - rewrite H5. exact N2.
  - intros o' Ht. apply Hreg. destruct (H6 o') as [E|[_ E]]; [|congruence]. rewrite E in Ht.
    destruct (Nat.eq_dec o' o) as [->|Hn]; [apply Hto; exact Ht|].
    destruct (G6 o' Hn) as (A & B & C). rewrite C in Ht. apply Wt in Ht.
    unfold registered in *. rewrite A, B. exact Ht.
Qed.

Lemma Inv_api : forall k s s1 o s', Inv k s -> only_o o s s1 -> NoDup (rd s1) -> NoDup (wr s1) ->
  born s o <> None -> (tg s1 o <> None -> registered s1 o) -> api k s1 o = Some s' -> Inv k s'.
Proof.
  intros k s s1 o s' (HW & HM & HE) Ho N1 N2 Hb Ht H. split; [|split].
  - eapply WInv_api; eassumption.
  - intros Hk. assert (Hu : update_reg k s1 o = Some s') by (destruct k; [congruence | exact H | exact H]).
    pose proof Ho as (G1 & G2 & G3 & _).
    eapply update_reg_MInv; [ | | eapply MInv_only_o; [apply HM; exact Hk | exact Ho] | exact Hu].
    + intros o' f. rewrite G1, G2. apply (w_inj _ HW).
    + intros o' f. rewrite G1, G3. apply (w_born _ HW).
  - intros Hk. subst k. simpl in H. eapply update_reg_EInv; [|exact H].
    eapply EInv_only_o; [apply HE; reflexivity | exact Ho].
Qed.

(* ------------------------------------------------------------------ Open / Close *)
Lemma Inv_open : forall k s o f s' e, Inv k s -> step k s (Open o f) = Ok s' e -> Inv k s'.
Proof.
  intros k s o f s' e (HW & HM & HE) H. simpl in H.
  destruct (born s o) eqn:Eb; [discriminate|]. destruct (holder s f) eqn:Eh; [discriminate|].
  inversion H; subst; clear H. destruct HW as [Wi Wb Wr Wn1 Wn2 Wt].
  assert (Hfo : fds s o = None).
  { destruct (fds s o) eqn:E; [|reflexivity]. apply Wb in E. congruence. }
  split; [|split].
  - split; simpl; try assumption.
    + intros o' f'. unfold upd. destruct (Nat.eqb_spec o' o); destruct (Nat.eqb_spec f' f); subst.
      * split; reflexivity.
      * split; intro H; [inversion H; congruence|]. apply Wi in H. congruence.
      * split; intro H; [|inversion H; congruence]. apply Wi in H. congruence.
      * apply Wi.
    + intros o' f'. unfold upd. destruct (Nat.eqb_spec o' o); [auto | apply Wb].
    + intros o' Hr. unfold upd. destruct (Nat.eqb_spec o' o); [discriminate | apply Wr; exact Hr].
  - intros Hk. destruct (HM Hk) as [Mb Mm Me]. split; simpl.
    + intros f' o' Hp. unfold upd. destruct (Nat.eqb_spec o' o); [subst; apply Mb in Hp; congruence | apply Mb; exact Hp].
    + intros o' f' Hfd Hr. unfold upd in Hfd. destruct (Nat.eqb_spec o' o).
      * subst. exfalso. apply (Wr o); [exact Hr | exact Eb].
      * apply Mm; assumption.
    + intros f' o' m Hp Hfd Hkr. unfold upd in Hfd. destruct (Nat.eqb_spec o' o).
      * subst. apply Mb in Hp. congruence.
      * eapply Me; eassumption.
  - intros Hk f' m Hkr. simpl in *. destruct (HE Hk f' m Hkr) as (o' & Hp & Hfd).
    exists o'. split; [exact Hp|]. unfold upd. destruct (Nat.eqb_spec o' o); [subst; congruence | exact Hfd].
Qed.

Lemma Inv_close : forall k s o s' e, Inv k s -> step k s (Close o) = Ok s' e -> Inv k s'.
Proof.
  intros k s o s' e (HW & HM & HE) H. simpl in H.
  destruct (fds s o) as [f|] eqn:Ef; [|discriminate].
  inversion H; subst; clear H. destruct HW as [Wi Wb Wr Wn1 Wn2 Wt].
  assert (Hinj : forall o' f', fds s o' = Some f' -> o' <> o -> f' <> f).
  { intros o' f' H1 H2 ->. apply Wi in H1. apply Wi in Ef. congruence. }
  split; [|split].
  - split; simpl; try assumption.
    + intros o' f'. unfold upd. destruct (Nat.eqb_spec o' o); destruct (Nat.eqb_spec f' f); subst.
      * split; discriminate.
      * split; [discriminate|]. intro H. apply Wi in H. congruence.
      * split; [|discriminate]. intro H. exfalso. eapply Hinj; eauto.
      * apply Wi.
    + intros o' f'. unfold upd. destruct (Nat.eqb_spec o' o); [discriminate | apply Wb].
  - intros Hk. destruct (HM Hk) as [Mb Mm Me]. split; simpl.
    + exact Mb.
    + intros o' f' Hfd Hr. unfold upd in Hfd. destruct (Nat.eqb_spec o' o); [discriminate|].
      destruct (Mm o' f' Hfd Hr) as [A B]. split; [exact A|].
      destruct k; try exact B. rewrite upd_other; [exact B | eapply Hinj; eauto].
    + intros f' o' m Hp Hfd Hkr. unfold upd in Hfd. destruct (Nat.eqb_spec o' o); [discriminate|].
      eapply Me; try eassumption.
      destruct k; try exact Hkr. unfold upd in Hkr. destruct (Nat.eqb_spec f' f); [discriminate | exact Hkr].
  - intros Hk. subst k. intros f' m Hkr. simpl in Hkr. unfold upd in Hkr. destruct (Nat.eqb_spec f' f); [discriminate|].
    simpl.
    destruct (HE eq_refl f' m Hkr) as (o' & Hp & Hfd). exists o'. split; [exact Hp|].
    unfold upd. destruct (Nat.eqb_spec o' o); [subst; congruence | exact Hfd].
Qed.

(* ------------------------------------------------------------------ one reported descriptor *)
Lemma process_cases : forall k s f r s' e, process k s (f, r) = (s', e) ->
  (s' = s /\ forall x, In x e -> exists o c, x = ERead o c \/ x = EWrite o c) \/
  (exists o, pmap s f = Some o /\ ~ registered s o /\ s' = forget s f /\ e = []) \/
  (exists o, pmap s f = Some o /\ s' = b_discard (forget s f) o /\ e = [EDisc o (target s o)]).
Proof.
  intros k s f r s' e H. unfold process in H.
  destruct (pmap s f) as [o|] eqn:Ep.
  - match type of H with (if ?c then _ else _) = _ => destruct c eqn:Est end.
    + destruct (mem o (rd s) || mem o (wr s)) eqn:Em; inversion H; subst; clear H.
      * right. right. exists o. auto.
      * right. left. exists o. repeat split; try reflexivity.
        intro Hr. apply registered_mask in Hr. unfold mask in Hr. simpl in Hr. congruence.
    + match type of H with (if ?c then _ else _) = _ => destruct c eqn:Eh end; inversion H; subst; clear H.
      * right. right. exists o. auto.
      * left. split; [reflexivity|]. intros x Hx. apply in_app_iff in Hx.
        destruct Hx as [Hx|Hx]; [destruct (r_in r) | destruct (r_out r)]; simpl in Hx; try contradiction;
          destruct Hx as [Hx|[]]; subst; eauto.
  - inversion H; subst. left. split; [reflexivity|]. intros x [].
Qed.

Lemma Inv_forget : forall k s f o, k <> KSelect -> Inv k s -> pmap s f = Some o -> ~ registered s o -> Inv k (forget s f).
Proof.
  intros k s f o Hk (HW & HM & HE) Hp Hn. destruct (HM Hk) as [Mb Mm Me]. split; [|split].
  - destruct HW. split; simpl; assumption.
  - intros _. split; simpl.
    + intros f' o' H. unfold upd in H. destruct (Nat.eqb_spec f' f); [discriminate | apply Mb; exact H].
    + intros o' f' Hfd Hr. change (registered s o') in Hr. change (mask (forget s f) o') with (mask s o').
      destruct (Mm o' f' Hfd Hr) as [A B].
      assert (f' <> f) by (intro; subst; rewrite Hp in A; inversion A; subst; contradiction).
      rewrite !upd_other by assumption. split; assumption.
    + intros f' o' m H1 H2 H3. unfold upd in H1, H3. destruct (Nat.eqb_spec f' f); [discriminate|].
      change (mask (forget s f) o') with (mask s o'). change (registered s o'). eapply Me; eassumption.
  - intros Hk' f' m H. simpl in H. unfold upd in H. destruct (Nat.eqb_spec f' f); [discriminate|].
    destruct (HE Hk' f' m H) as (o' & A & B). exists o'. simpl. rewrite upd_other by assumption. split; assumption.
Qed.

Lemma Inv_forget_discard : forall k s f o, k <> KSelect -> Inv k s -> pmap s f = Some o -> Inv k (b_discard (forget s f) o).
Proof.
  intros k s f o Hk (HW & HM & HE) Hp. destruct (HM Hk) as [Mb Mm Me]. destruct HW as [Wi Wb Wr Wn1 Wn2 Wt].
  destruct (NoDup_remove1 o _ Wn1) as [N1 N1']. destruct (NoDup_remove1 o _ Wn2) as [N2 N2'].
  assert (Hsub : forall o', registered (b_discard (forget s f) o) o' -> registered s o' /\ o' <> o).
  { intros o' [H|H]; simpl in H.
    - split; [left; eapply In_remove1; exact H | intro; subst; contradiction].
    - split; [right; eapply In_remove1; exact H | intro; subst; contradiction]. }
  assert (Hmask : forall o', o' <> o -> mask (b_discard (forget s f) o) o' = mask s o').
  { intros o' Hn. unfold mask. simpl. rewrite !mem_remove1_neq by assumption. reflexivity. }
  assert (Hsup : forall o', o' <> o -> registered s o' -> registered (b_discard (forget s f) o) o').
  { intros o' Hn [H|H]; [left | right]; simpl; apply In_remove1_neq; assumption. }
  split; [|split].
  - split; simpl; try assumption.
    + intros o' Hr. apply Wr. apply Hsub. exact Hr.
    + intros o' Ht. unfold upd in Ht. destruct (Nat.eqb_spec o' o); [congruence|].
      apply Hsup; [assumption | apply Wt; exact Ht].
  - intros _. split.
    + simpl. intros f' o' H. unfold upd in H. destruct (Nat.eqb_spec f' f); [discriminate | apply Mb; exact H].
    + intros o' f' Hfd Hr. destruct (Hsub o' Hr) as [Hr' Hn]. simpl in Hfd.
      destruct (Mm o' f' Hfd Hr') as [A B].
      assert (f' <> f) by (intro; subst; rewrite Hp in A; inversion A; subst; contradiction).
      rewrite Hmask by assumption. simpl. rewrite !upd_other by assumption. split; assumption.
    + intros f' o' m H1 H2 H3. simpl in H1, H2, H3. unfold upd in H1, H3. destruct (Nat.eqb_spec f' f); [discriminate|].
      assert (o' <> o).
      { intro; subst. apply Mb in H1. apply Mb in Hp. congruence. }
      rewrite Hmask by assumption. destruct (Me f' o' m H1 H2 H3) as [A B]. split; [exact A | apply Hsup; assumption].
  - intros Hk' f' m H. simpl in H. unfold upd in H. destruct (Nat.eqb_spec f' f); [discriminate|].
    destruct (HE Hk' f' m H) as (o' & A & B). exists o'. simpl. rewrite upd_other by assumption. split; assumption.
Qed.

Lemma Inv_process : forall k s fr s' e, k <> KSelect -> Inv k s -> process k s fr = (s', e) -> Inv k s'.
Proof.
  intros k s [f r] s' e Hk HI H. destruct (process_cases _ _ _ _ _ _ H) as [[-> _]|[(o & Hp & Hn & -> & _)|(o & Hp & -> & _)]].
  - exact HI.
  - eapply Inv_forget; eassumption.
  - eapply Inv_forget_discard; eassumption.
Qed.

Lemma Inv_processes : forall k l s s' e, k <> KSelect -> Inv k s -> processes k s l = (s', e) -> Inv k s'.
Proof.
  induction l as [|fr t IH]; simpl; intros s s' e Hk HI H.
  - inversion H; subst. exact HI.
  - destruct (process k s fr) as [s1 e1] eqn:E1. destruct (processes k s1 t) as [s2 e2] eqn:E2.
    inversion H; subst. eapply IH; [exact Hk | eapply Inv_process; eassumption | exact E2].
Qed.
