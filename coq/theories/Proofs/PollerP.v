(* Proofs about the poller model (Model/Poller.v). *)
From Coq Require Import List Arith Bool Lia.
From Circ Require Import Model.Poller.
Import ListNotations.

(* ------------------------------------------------------------------ basics *)
Lemma mem_In : forall x l, mem x l = true <-> In x l.
Proof.
  intros x l. unfold mem. rewrite existsb_exists. split.
  - intros [y [Hy He]]. apply Nat.eqb_eq in He. subst. exact Hy.
  - intros H. exists x. split; [exact H | apply Nat.eqb_refl].
Qed.

Lemma mem_false : forall x l, mem x l = false <-> ~ In x l.
Proof.
  intros x l. rewrite <- mem_In. destruct (mem x l); split; intro H; congruence.
Qed.

Lemma upd_same : forall A (m : nat -> option A) k v, upd m k v k = v.
Proof. intros. unfold upd. rewrite Nat.eqb_refl. reflexivity. Qed.

Lemma upd_other : forall A (m : nat -> option A) k v j, j <> k -> upd m k v j = m j.
Proof. intros. unfold upd. destruct (Nat.eqb_spec j k); [contradiction | reflexivity]. Qed.

Lemma In_remove1 : forall x y l, In x (remove1 y l) -> In x l.
Proof.
  induction l as [|z t IH]; simpl; intros H; [exact H|].
  destruct (Nat.eqb y z); [right; exact H|].
  destruct H as [H|H]; [left; exact H | right; apply IH; exact H].
Qed.

Lemma In_remove1_neq : forall x y l, x <> y -> In x l -> In x (remove1 y l).
Proof.
  induction l as [|z t IH]; simpl; intros Hn H; [exact H|].
  destruct (Nat.eqb_spec y z).
  - destruct H as [H|H]; [subst; contradiction | exact H].
  - destruct H as [H|H]; [left; exact H | right; apply IH; assumption].
Qed.

Lemma remove1_notin : forall x l, ~ In x l -> remove1 x l = l.
Proof.
  induction l as [|z t IH]; simpl; intros H; [reflexivity|].
  destruct (Nat.eqb_spec x z).
  - subst. exfalso. apply H. left. reflexivity.
  - f_equal. apply IH. intro. apply H. right. assumption.
Qed.

Lemma NoDup_remove1 : forall x l, NoDup l -> NoDup (remove1 x l) /\ ~ In x (remove1 x l).
Proof.
  induction l as [|z t IH]; simpl; intros H.
  - split; [constructor | intros []].
  - inversion H as [|? ? Hz Ht]; subst.
    destruct (Nat.eqb_spec x z).
    + subst. split; assumption.
    + destruct (IH Ht) as [H1 H2]. split.
      * constructor; [|exact H1]. intro Hi. apply Hz. eapply In_remove1. exact Hi.
      * intros [Hi|Hi]; [congruence | contradiction].
Qed.

Lemma mem_remove1_neq : forall x y l, x <> y -> mem x (remove1 y l) = mem x l.
Proof.
  intros x y l Hn. destruct (mem x l) eqn:E.
  - apply mem_In. apply In_remove1_neq; [exact Hn | apply mem_In; exact E].
  - apply mem_false. intro Hi. apply mem_false in E. apply E. eapply In_remove1. exact Hi.
Qed.

Lemma NoDup_app_one : forall (x : nat) l, NoDup l -> ~ In x l -> NoDup (l ++ [x]).
Proof.
  induction l as [|z t IH]; simpl; intros H Hn.
  - constructor; [intros [] | constructor].
  - inversion H; subst. constructor.
    + rewrite in_app_iff. intros [Hi|[Hi|[]]]; [contradiction|]. subst. apply Hn. left. reflexivity.
    + apply IH; [assumption|]. intro. apply Hn. right. assumption.
Qed.

(* ------------------------------------------------------------------ what "registered" means *)
Definition reading (s : state) (o : nat) : Prop := In o (rd s).
Definition writing (s : state) (o : nat) : Prop := In o (wr s).
Definition registered (s : state) (o : nat) : Prop := In o (rd s) \/ In o (wr s).

(* API precondition P1: a role is added only when it is not registered already
   (every caller in circuits guards with isReading / isWriting) *)
(* environment assumption for an iteration: poll/epoll report every number of the interest table at most once
   (in any order) *)
Definition order_ok (s : state) (order : list nat) : Prop :=
  NoDup order /\ forall f, kreg s f <> None -> In f order.

Definition pre (s : state) (x : op) : Prop :=
  match x with
  | AddR _ o => ~ In o (rd s)
  | AddW _ o => ~ In o (wr s)
  | Tick _ order => order_ok s order
  | _ => True
  end.

Inductive reach (k : kind) : state -> Prop :=
| reach_init : reach k init
| reach_step : forall s x s' e, reach k s -> pre s x -> step k s x = Ok s' e -> reach k s'.

(* ------------------------------------------------------------------ the invariant *)
Record WInv (s : state) : Prop := {
  w_inj : forall o f, fds s o = Some f <-> holder s f = Some o;
  w_born : forall o f, fds s o = Some f -> born s o = Some f;
  w_reg_born : forall o, registered s o -> born s o <> None;
  w_nd_r : NoDup (rd s);
  w_nd_w : NoDup (wr s);
  w_tg : forall o, tg s o <> None -> registered s o
}.

Definition mask (s : state) (o : nat) : bool * bool := (mem o (rd s), mem o (wr s)).

Record MInv (s : state) : Prop := {
  m_born : forall f o, pmap s f = Some o -> born s o = Some f;
  (* every registered open object is mirrored in the kernel table and in _map *)
  m_mirror : forall o f, fds s o = Some f -> registered s o -> pmap s f = Some o /\ kreg s f = Some (mask s o);
  (* a kernel entry whose _map object still has that number carries exactly that object's interest *)
  m_exact : forall f o m, pmap s f = Some o -> fds s o = Some f -> kreg s f = Some m -> m = mask s o /\ registered s o
}.

(* epoll only: the kernel drops closed descriptors, so every entry is live *)
Definition EInv (s : state) : Prop :=
  forall f m, kreg s f = Some m -> exists o, pmap s f = Some o /\ fds s o = Some f.

Definition Inv (k : kind) (s : state) : Prop :=
  WInv s /\ (k <> KSelect -> MInv s) /\ (k = KEPoll -> EInv s).

(* ------------------------------------------------------------------ helpers for the invariant *)
Lemma mem_ext : forall x l l', (In x l <-> In x l') -> mem x l = mem x l'.
Proof.
  intros x l l' H. destruct (mem x l') eqn:E.
  - apply mem_In. apply H. apply mem_In. exact E.
  - apply mem_false. intro Hi. apply mem_false in E. apply E. apply H. exact Hi.
Qed.

Lemma registered_mask : forall s o, registered s o <-> (fst (mask s o) || snd (mask s o)) = true.
Proof.
  intros s o. unfold registered, mask. simpl. rewrite orb_true_iff, !mem_In. reflexivity.
Qed.

(* MInv for every object but o (o's list membership has just been changed by a BasePoller method) *)
Record MInvX (o : nat) (s : state) : Prop := {
  x_born : forall f o', pmap s f = Some o' -> born s o' = Some f;
  x_mirror : forall o' f, o' <> o -> fds s o' = Some f -> registered s o' -> pmap s f = Some o' /\ kreg s f = Some (mask s o');
  x_exact : forall f o' m, o' <> o -> pmap s f = Some o' -> fds s o' = Some f -> kreg s f = Some m -> m = mask s o' /\ registered s o'
}.

(* s1 differs from s only in o's membership / target *)
Definition only_o (o : nat) (s s1 : state) : Prop :=
  fds s1 = fds s /\ holder s1 = holder s /\ born s1 = born s /\ pmap s1 = pmap s /\ kreg s1 = kreg s /\
  (forall o', o' <> o -> (In o' (rd s1) <-> In o' (rd s)) /\ (In o' (wr s1) <-> In o' (wr s)) /\ tg s1 o' = tg s o').

Lemma only_o_mask : forall o s s1 o', only_o o s s1 -> o' <> o -> mask s1 o' = mask s o' /\ (registered s1 o' <-> registered s o').
Proof.
  intros o s s1 o' (_ & _ & _ & _ & _ & H) Hn. destruct (H o' Hn) as (Hr & Hw & _). split.
  - unfold mask. f_equal; apply mem_ext; assumption.
  - unfold registered. rewrite Hr, Hw. reflexivity.
Qed.

Lemma MInv_only_o : forall o s s1, MInv s -> only_o o s s1 -> MInvX o s1.
Proof.
  intros o s s1 [Hb Hm He] Ho. pose proof Ho as (Hf & Hh & Hbn & Hp & Hk & _). split.
  - intros f o' H. rewrite Hp in H. rewrite Hbn. apply Hb. exact H.
  - intros o' f Hn H1 H2. destruct (only_o_mask _ _ _ _ Ho Hn) as [Hmk Hrg].
    rewrite Hf in H1. rewrite Hp, Hk, Hmk. apply Hm; [exact H1 | apply Hrg; exact H2].
  - intros f o' m Hn H1 H2 H3. destruct (only_o_mask _ _ _ _ Ho Hn) as [Hmk Hrg].
    rewrite Hp in H1. rewrite Hf in H2. rewrite Hk in H3. rewrite Hmk, Hrg. eapply He; eassumption.
Qed.

Lemma EInv_only_o : forall o s s1, EInv s -> only_o o s s1 -> EInv s1.
Proof.
  intros o s s1 He (Hf & _ & _ & Hp & Hk & _) f m H. rewrite Hk in H. rewrite Hp, Hf. eapply He. exact H.
Qed.

Lemma rd_drop_target : forall s o, rd (drop_target s o) = rd s /\ wr (drop_target s o) = wr s /\
  fds (drop_target s o) = fds s /\ holder (drop_target s o) = holder s /\ born (drop_target s o) = born s /\
  pmap (drop_target s o) = pmap s /\ kreg (drop_target s o) = kreg s /\
  (forall o', o' <> o -> tg (drop_target s o) o' = tg s o').
Proof.
  intros s o. unfold drop_target. destruct (mem o (rd s) || mem o (wr s)); simpl; repeat split; try reflexivity.
  intros o' Hn. apply upd_other. exact Hn.
Qed.

Lemma only_o_addR : forall s c o, only_o o s (b_addR s c o).
Proof.
  intros. unfold only_o, b_addR. simpl. repeat split; try reflexivity; try tauto.
  - rewrite in_app_iff. simpl. intuition congruence.
  - rewrite in_app_iff. tauto.
  - apply upd_other. assumption.
Qed.

Lemma only_o_addW : forall s c o, only_o o s (b_addW s c o).
Proof.
  intros. unfold only_o, b_addW. simpl. repeat split; try reflexivity; try tauto.
  - rewrite in_app_iff. simpl. intuition congruence.
  - rewrite in_app_iff. tauto.
  - apply upd_other. assumption.
Qed.

Lemma only_o_remR : forall s o, only_o o s (b_remR s o).
Proof.
  intros s o. unfold b_remR.
  destruct (rd_drop_target (set_rd s (remove1 o (rd s))) o) as (H1 & H2 & H3 & H4 & H5 & H6 & H7 & H8).
  unfold only_o. rewrite H1, H2, H3, H4, H5, H6, H7. simpl. repeat split; try reflexivity; try tauto.
  - apply In_remove1.
  - apply In_remove1_neq. assumption.
  - rewrite H8 by assumption. reflexivity.
Qed.

Lemma only_o_remW : forall s o, only_o o s (b_remW s o).
Proof.
  intros s o. unfold b_remW.
  destruct (rd_drop_target (set_wr s (remove1 o (wr s))) o) as (H1 & H2 & H3 & H4 & H5 & H6 & H7 & H8).
  unfold only_o. rewrite H1, H2, H3, H4, H5, H6, H7. simpl. repeat split; try reflexivity; try tauto.
  - apply In_remove1.
  - apply In_remove1_neq. assumption.
  - rewrite H8 by assumption. reflexivity.
Qed.

Lemma only_o_discard : forall s o, only_o o s (b_discard s o).
Proof.
  intros s o. unfold only_o, b_discard. simpl. repeat split; try reflexivity.
  - apply In_remove1.
  - apply In_remove1_neq. assumption.
  - apply In_remove1.
  - apply In_remove1_neq. assumption.
  - apply upd_other. assumption.
Qed.

(* ------------------------------------------------------------------ _updateRegistration *)
Lemma orb_false_mem : forall s o, mem o (rd s) || mem o (wr s) = false -> ~ In o (rd s) /\ ~ In o (wr s).
Proof. intros s o H. apply orb_false_iff in H. destruct H. split; apply mem_false; assumption. Qed.

(* the branch of _updateRegistration taken when the descriptor has no role left *)
Lemma update_reg_zero : forall k s o s', mem o (rd s) || mem o (wr s) = false -> update_reg k s o = Some s' ->
  fds s' = fds s /\ holder s' = holder s /\ born s' = born s /\ rd s' = rd s /\ wr s' = wr s /\
  tg s' = upd (tg s) o None /\
  kreg s' = match fds s o with Some f => upd (kreg s) f None | None => kreg s end /\
  (forall j, pmap s' j = pmap s j \/ (pmap s' j = None /\ (fds s o = Some j \/ pmap s j = Some o))).
Proof.
  intros k s o s' Em H. destruct (orb_false_mem _ _ Em) as [Hr Hw].
  unfold update_reg, unregister in H.
  destruct (fds s o) as [f|] eqn:Ef; simpl in H; rewrite Em in H; simpl in H; rewrite Ef in H.
  - destruct k; inversion H; subst; clear H; simpl; rewrite !remove1_notin by assumption;
      repeat split; try reflexivity; intros j.
    + unfold drop_obj. destruct (pmap s j) as [o'|] eqn:Ep; [|left; reflexivity].
      destruct (Nat.eqb_spec o' o); [right; subst; auto | left; reflexivity].
    + unfold upd. destruct (Nat.eqb_spec j f); [right; split; [reflexivity | left; subst; reflexivity] | left; reflexivity].
    + unfold drop_obj. destruct (pmap s j) as [o'|] eqn:Ep; [|left; reflexivity].
      destruct (Nat.eqb_spec o' o); [right; subst; auto | left; reflexivity].
  - destruct k; inversion H; subst; clear H; simpl; rewrite !remove1_notin by assumption;
      repeat split; try reflexivity; intros j.
    + unfold drop_obj. destruct (pmap s j) as [o'|] eqn:Ep; [|left; reflexivity].
      destruct (Nat.eqb_spec o' o); [right; subst; auto | left; reflexivity].
    + left; reflexivity.
    + unfold drop_obj. destruct (pmap s j) as [o'|] eqn:Ep; [|left; reflexivity].
      destruct (Nat.eqb_spec o' o); [right; subst; auto | left; reflexivity].
Qed.

Lemma update_reg_shape : forall k s o s', update_reg k s o = Some s' ->
  fds s' = fds s /\ holder s' = holder s /\ born s' = born s /\ rd s' = rd s /\ wr s' = wr s /\
  (registered s o -> tg s' = tg s) /\
  (~ registered s o -> forall o', tg s' o' = if Nat.eqb o' o then None else tg s o').
Proof.
  intros k s o s' H.
  destruct (mem o (rd s) || mem o (wr s)) eqn:Em.
  - unfold update_reg, unregister in H.
    destruct (fds s o) as [f|] eqn:Ef; simpl in H; rewrite Em in H; simpl in H; rewrite Ef in H; [|discriminate].
    inversion H; subst; clear H. simpl. repeat split; try reflexivity.
    intros Hn. exfalso. apply Hn. apply registered_mask. exact Em.
  - destruct (update_reg_zero _ _ _ _ Em H) as (A & B & C & D & E & F & _).
    repeat split; try assumption.
    + intros Hr. apply registered_mask in Hr. unfold mask in Hr. simpl in Hr. congruence.
    + intros _ o'. rewrite F. unfold upd. reflexivity.
Qed.

Lemma update_reg_tables : forall k s o s', update_reg k s o = Some s' ->
  match fds s o with
  | Some f =>
      (registered s o -> (forall j, kreg s' j = upd (kreg s) f (Some (mask s o)) j) /\
                         (forall j, pmap s' j = upd (pmap s) f (Some o) j)) /\
      (~ registered s o -> (forall j, kreg s' j = upd (kreg s) f None j) /\
                           (forall j, pmap s' j = pmap s j \/ (pmap s' j = None /\ (j = f \/ pmap s j = Some o))))
  | None => ~ registered s o /\ kreg s' = kreg s /\
            (forall j, pmap s' j = pmap s j \/ (pmap s' j = None /\ pmap s j = Some o))
  end.
Proof.
  intros k s o s' H.
  destruct (mem o (rd s) || mem o (wr s)) eqn:Em.
  - assert (Hr : registered s o) by (apply registered_mask; exact Em).
    unfold update_reg, unregister in H.
    destruct (fds s o) as [f|] eqn:Ef; simpl in H; rewrite Em in H; simpl in H; rewrite Ef in H; [|discriminate].
    inversion H; subst; clear H. simpl. split.
    + intros _. split; intros j; unfold upd, mask; destruct (Nat.eqb j f); reflexivity.
    + intros Hn. contradiction.
  - assert (Hn : ~ registered s o).
    { intro Hr. apply registered_mask in Hr. unfold mask in Hr. simpl in Hr. congruence. }
    destruct (update_reg_zero _ _ _ _ Em H) as (_ & _ & _ & _ & _ & _ & K & P).
    destruct (fds s o) as [f|] eqn:Ef.
    + split; [intros Hr; contradiction|]. intros _. split; [intros j; rewrite K; reflexivity|].
      intros j. destruct (P j) as [E|[E [E2|E2]]]; [left; exact E | right | right].
      * split; [exact E | left; congruence].
      * split; [exact E | right; exact E2].
    + split; [exact Hn|]. split.
      * exact K.
      * intros j. destruct (P j) as [E|[E [E2|E2]]]; [left; exact E | discriminate | right; auto].
Qed.

Lemma update_reg_MInv : forall k s o s',
  (forall o' f, fds s o' = Some f <-> holder s f = Some o') ->
  (forall o' f, fds s o' = Some f -> born s o' = Some f) ->
  MInvX o s -> update_reg k s o = Some s' -> MInv s'.
Proof.
  intros k s o s' Hinj Hborn [Xb Xm Xe] H.
  pose proof (update_reg_shape _ _ _ _ H) as (Hf & Hh & Hbn & Hrd & Hwr & _).
  pose proof (update_reg_tables _ _ _ _ H) as Ht.
  assert (Hmask : forall o', mask s' o' = mask s o') by (intros; unfold mask; rewrite Hrd, Hwr; reflexivity).
  assert (Hreg : forall o', registered s' o' <-> registered s o') by (intros; unfold registered; rewrite Hrd, Hwr; reflexivity).
  destruct (fds s o) as [f|] eqn:Ef.
  - destruct Ht as [HtA HtB].
    assert (Hdec : registered s o \/ ~ registered s o).
    { destruct (fst (mask s o) || snd (mask s o)) eqn:E.
      - left. apply registered_mask. exact E.
      - right. intro Hr. apply registered_mask in Hr. congruence. }
    destruct Hdec as [Hr|Hr].
    + destruct (HtA Hr) as [Hk Hp]. split.
      * intros f' o' Hpm. rewrite Hp in Hpm. rewrite Hbn. unfold upd in Hpm.
        destruct (Nat.eqb_spec f' f).
        -- inversion Hpm; subst. apply Hborn. exact Ef.
        -- eapply Xb. exact Hpm.
      * intros o' f' Hfd Hrg. rewrite Hf in Hfd. rewrite Hk, Hp, Hmask.
        destruct (Nat.eq_dec o' o) as [->|Hn].
        -- rewrite Ef in Hfd. inversion Hfd; subst. rewrite !upd_same. split; reflexivity.
        -- assert (f' <> f).
           { intro; subst. apply Hinj in Hfd. apply Hinj in Ef. congruence. }
           rewrite !upd_other by assumption. apply Xm; [assumption | exact Hfd | apply Hreg; exact Hrg].
      * intros f' o' m Hpm Hfd Hkr. rewrite Hp in Hpm. rewrite Hf in Hfd. rewrite Hk in Hkr. rewrite Hmask, Hreg.
        unfold upd in Hpm, Hkr. destruct (Nat.eqb_spec f' f).
        -- subst. inversion Hpm; subst. inversion Hkr; subst. split; [reflexivity | exact Hr].
        -- assert (o' <> o) by (intro; subst; congruence).
           eapply Xe; eassumption.
    + destruct (HtB Hr) as [Hk Hp]. split.
      * intros f' o' Hpm. rewrite Hbn. destruct (Hp f') as [Hq|[Hq _]]; [|congruence].
        rewrite Hq in Hpm. eapply Xb. exact Hpm.
      * intros o' f' Hfd Hrg. rewrite Hf in Hfd. apply Hreg in Hrg. rewrite Hmask.
        assert (o' <> o) by (intro; subst; contradiction).
        assert (f' <> f).
        { intro; subst. apply Hinj in Hfd. apply Hinj in Ef. congruence. }
        destruct (Xm o' f' H0 Hfd Hrg) as [X1 X2].
        rewrite Hk, upd_other by assumption. split; [|exact X2].
        destruct (Hp f') as [Hq|[Hq [Hq2|Hq2]]]; [rewrite Hq; exact X1 | contradiction | congruence].
      * intros f' o' m Hpm Hfd Hkr. rewrite Hf in Hfd. rewrite Hk in Hkr. rewrite Hmask, Hreg.
        unfold upd in Hkr. destruct (Nat.eqb_spec f' f); [discriminate|].
        destruct (Hp f') as [Hq|[Hq _]]; [|congruence]. rewrite Hq in Hpm.
        assert (o' <> o) by (intro; subst; congruence).
        eapply Xe; eassumption.
  - destruct Ht as (Hr & Hk & Hp). split.
    + intros f' o' Hpm. rewrite Hbn. destruct (Hp f') as [Hq|[Hq _]]; [|congruence].
      rewrite Hq in Hpm. eapply Xb. exact Hpm.
    + intros o' f' Hfd Hrg. rewrite Hf in Hfd. apply Hreg in Hrg. rewrite Hmask, Hk.
      assert (o' <> o) by (intro; subst; contradiction).
      destruct (Xm o' f' H0 Hfd Hrg) as [X1 X2]. split; [|exact X2].
      destruct (Hp f') as [Hq|[Hq Hq2]]; [rewrite Hq; exact X1 | congruence].
    + intros f' o' m Hpm Hfd Hkr. rewrite Hf in Hfd. rewrite Hk in Hkr. rewrite Hmask, Hreg.
      destruct (Hp f') as [Hq|[Hq _]]; [|congruence]. rewrite Hq in Hpm.
      eapply Xe; try eassumption. intro; subst; congruence.
Qed.

Lemma update_reg_EInv : forall k s o s', EInv s -> update_reg k s o = Some s' -> EInv s'.
Proof.
  intros k s o s' He H.
  pose proof (update_reg_shape _ _ _ _ H) as (Hf & _).
  pose proof (update_reg_tables _ _ _ _ H) as Ht.
  intros f m Hk. rewrite Hf.
  destruct (fds s o) as [fo|] eqn:Ef.
  + destruct Ht as [HtA HtB].
    destruct (fst (mask s o) || snd (mask s o)) eqn:E.
    * assert (Hr : registered s o) by (apply registered_mask; exact E).
      destruct (HtA Hr) as [Hkk Hp]. rewrite Hkk in Hk. rewrite Hp. unfold upd in *.
      destruct (Nat.eqb_spec f fo); [subst; exists o; split; [reflexivity|exact Ef]|]. eapply He. exact Hk.
    * assert (Hr : ~ registered s o) by (intro Hr; apply registered_mask in Hr; congruence).
      destruct (HtB Hr) as [Hkk Hp]. rewrite Hkk in Hk. unfold upd in Hk.
      destruct (Nat.eqb_spec f fo); [discriminate|].
      destruct (He f m Hk) as (o' & A & B).
      destruct (Hp f) as [Hq|[Hq [Hq2|Hq2]]]; [rewrite Hq; eauto | contradiction | exfalso; congruence].
  + destruct Ht as (_ & Hkk & Hp). rewrite Hkk in Hk.
    destruct (He f m Hk) as (o' & A & B).
    destruct (Hp f) as [Hq|[Hq Hq2]]; [rewrite Hq; eauto | exfalso; congruence].
Qed.

(* ------------------------------------------------------------------ WInv through an API call *)
Lemma api_shape : forall k s o s', api k s o = Some s' ->
  fds s' = fds s /\ holder s' = holder s /\ born s' = born s /\ rd s' = rd s /\ wr s' = wr s /\
  (forall o', tg s' o' = tg s o' \/ (o' = o /\ tg s' o' = None)).
Proof.
  intros k s o s' H.
  assert (Hu : update_reg k s o = Some s' ->
    fds s' = fds s /\ holder s' = holder s /\ born s' = born s /\ rd s' = rd s /\ wr s' = wr s /\
    (forall o', tg s' o' = tg s o' \/ (o' = o /\ tg s' o' = None))).
  { intros Hu. destruct (update_reg_shape _ _ _ _ Hu) as (H1 & H2 & H3 & H4 & H5 & H6 & H7).
    repeat split; try assumption. intros o'.
    destruct (fst (mask s o) || snd (mask s o)) eqn:E.
    - left. rewrite H6; [reflexivity | apply registered_mask; exact E].
    - rewrite H7 by (intro Hr; apply registered_mask in Hr; congruence).
      destruct (Nat.eqb_spec o' o); [right; split; [assumption|reflexivity] | left; reflexivity]. }
  destruct k; simpl in H; try (apply Hu; exact H).
  inversion H; subst. repeat split; try reflexivity. intros; left; reflexivity.
Qed.

Lemma WInv_api : forall k s s1 o s', WInv s -> only_o o s s1 -> NoDup (rd s1) -> NoDup (wr s1) ->
  born s o <> None -> (tg s1 o <> None -> registered s1 o) -> api k s1 o = Some s' -> WInv s'.
Proof.
  intros k s s1 o s' [Wi Wb Wr Wn1 Wn2 Wt] Ho N1 N2 Hbo Hto H.
  destruct (api_shape _ _ _ _ H) as (H1 & H2 & H3 & H4 & H5 & H6).
  pose proof Ho as (G1 & G2 & G3 & _ & _ & G6).
  assert (Hreg : forall o', registered s' o' <-> registered s1 o') by (intros; unfold registered; rewrite H4, H5; reflexivity).
  split.
  - intros o' f. rewrite H1, H2, G1, G2. apply Wi.
  - intros o' f. rewrite H1, H3, G1, G3. apply Wb.
  - intros o' Hr. rewrite H3, G3. apply Hreg in Hr.
    destruct (Nat.eq_dec o' o) as [->|Hn]; [exact Hbo|].
    apply Wr. destruct (G6 o' Hn) as (A & B & _). unfold registered in *. rewrite <- A, <- B. exact Hr.
  - rewrite H4. exact N1.
  - rewrite H5. exact N2.
  - intros o' Ht. apply Hreg. destruct (H6 o') as [E|[_ E]]; [|congruence]. rewrite E in Ht.
    destruct (Nat.eq_dec o' o) as [->|Hn]; [apply Hto; exact Ht|].
    destruct (G6 o' Hn) as (A & B & C). rewrite C in Ht. apply Wt in Ht.
    unfold registered in *. rewrite A, B. exact Ht.
Qed.

Lemma Inv_api : forall k s s1 o s', Inv k s -> only_o o s s1 -> NoDup (rd s1) -> NoDup (wr s1) ->
  born s o <> None -> (tg s1 o <> None -> registered s1 o) -> api k s1 o = Some s' -> Inv k s'.
Proof.
  intros k s s1 o s' (HW & HM & HE) Ho N1 N2 Hb Ht H. split; [|split].
  - eapply WInv_api; eassumption.
  - intros Hk. assert (Hu : update_reg k s1 o = Some s') by (destruct k; [congruence | exact H | exact H]).
    pose proof Ho as (G1 & G2 & G3 & _).
    eapply update_reg_MInv; [ | | eapply MInv_only_o; [apply HM; exact Hk | exact Ho] | exact Hu].
    + intros o' f. rewrite G1, G2. apply (w_inj _ HW).
    + intros o' f. rewrite G1, G3. apply (w_born _ HW).
  - intros Hk. subst k. simpl in H. eapply update_reg_EInv; [|exact H].
    eapply EInv_only_o; [apply HE; reflexivity | exact Ho].
Qed.

(* ------------------------------------------------------------------ Open / Close *)
Lemma Inv_open : forall k s o f s' e, Inv k s -> step k s (Open o f) = Ok s' e -> Inv k s'.
Proof.
  intros k s o f s' e (HW & HM & HE) H. simpl in H.
  destruct (born s o) eqn:Eb; [discriminate|]. destruct (holder s f) eqn:Eh; [discriminate|].
  inversion H; subst; clear H. destruct HW as [Wi Wb Wr Wn1 Wn2 Wt].
  assert (Hfo : fds s o = None).
  { destruct (fds s o) eqn:E; [|reflexivity]. apply Wb in E. congruence. }
  split; [|split].
  - split; simpl; try assumption.
    + intros o' f'. unfold upd. destruct (Nat.eqb_spec o' o); destruct (Nat.eqb_spec f' f); subst.
      * split; reflexivity.
      * split; intro H; [inversion H; congruence|]. apply Wi in H. congruence.
      * split; intro H; [|inversion H; congruence]. apply Wi in H. congruence.
      * apply Wi.
    + intros o' f'. unfold upd. destruct (Nat.eqb_spec o' o); [auto | apply Wb].
    + intros o' Hr. unfold upd. destruct (Nat.eqb_spec o' o); [discriminate | apply Wr; exact Hr].
  - intros Hk. destruct (HM Hk) as [Mb Mm Me]. split; simpl.
    + intros f' o' Hp. unfold upd. destruct (Nat.eqb_spec o' o); [subst; apply Mb in Hp; congruence | apply Mb; exact Hp].
    + intros o' f' Hfd Hr. unfold upd in Hfd. destruct (Nat.eqb_spec o' o).
      * subst. exfalso. apply (Wr o); [exact Hr | exact Eb].
      * apply Mm; assumption.
    + intros f' o' m Hp Hfd Hkr. unfold upd in Hfd. destruct (Nat.eqb_spec o' o).
      * subst. apply Mb in Hp. congruence.
      * eapply Me; eassumption.
  - intros Hk f' m Hkr. simpl in *. destruct (HE Hk f' m Hkr) as (o' & Hp & Hfd).
    exists o'. split; [exact Hp|]. unfold upd. destruct (Nat.eqb_spec o' o); [subst; congruence | exact Hfd].
Qed.

Lemma Inv_close : forall k s o s' e, Inv k s -> step k s (Close o) = Ok s' e -> Inv k s'.
Proof.
  intros k s o s' e (HW & HM & HE) H. simpl in H.
  destruct (fds s o) as [f|] eqn:Ef; [|discriminate].
  inversion H; subst; clear H. destruct HW as [Wi Wb Wr Wn1 Wn2 Wt].
  assert (Hinj : forall o' f', fds s o' = Some f' -> o' <> o -> f' <> f).
  { intros o' f' H1 H2 ->. apply Wi in H1. apply Wi in Ef. congruence. }
  split; [|split].
  - split; simpl; try assumption.
    + intros o' f'. unfold upd. destruct (Nat.eqb_spec o' o); destruct (Nat.eqb_spec f' f); subst.
      * split; discriminate.
      * split; [discriminate|]. intro H. apply Wi in H. congruence.
      * split; [|discriminate]. intro H. exfalso. eapply Hinj; eauto.
      * apply Wi.
    + intros o' f'. unfold upd. destruct (Nat.eqb_spec o' o); [discriminate | apply Wb].
  - intros Hk. destruct (HM Hk) as [Mb Mm Me]. split; simpl.
    + exact Mb.
    + intros o' f' Hfd Hr. unfold upd in Hfd. destruct (Nat.eqb_spec o' o); [discriminate|].
      destruct (Mm o' f' Hfd Hr) as [A B]. split; [exact A|].
      destruct k; try exact B. rewrite upd_other; [exact B | eapply Hinj; eauto].
    + intros f' o' m Hp Hfd Hkr. unfold upd in Hfd. destruct (Nat.eqb_spec o' o); [discriminate|].
      eapply Me; try eassumption.
      destruct k; try exact Hkr. unfold upd in Hkr. destruct (Nat.eqb_spec f' f); [discriminate | exact Hkr].
  - intros Hk. subst k. intros f' m Hkr. simpl in Hkr. unfold upd in Hkr. destruct (Nat.eqb_spec f' f); [discriminate|].
    simpl.
    destruct (HE eq_refl f' m Hkr) as (o' & Hp & Hfd). exists o'. split; [exact Hp|].
    unfold upd. destruct (Nat.eqb_spec o' o); [subst; congruence | exact Hfd].
Qed.

(* ------------------------------------------------------------------ one reported descriptor *)
Lemma process_cases : forall k s f r s' e, process k s (f, r) = (s', e) ->
  (s' = s /\ forall x, In x e -> exists o c, x = ERead o c \/ x = EWrite o c) \/
  (exists o, pmap s f = Some o /\ ~ registered s o /\ s' = forget s f /\ e = []) \/
  (exists o, pmap s f = Some o /\ s' = b_discard (forget s f) o /\ e = [EDisc o (target s o)]).
Proof.
  intros k s f r s' e H. unfold process in H.
  destruct (pmap s f) as [o|] eqn:Ep.
  - match type of H with (if ?c then _ else _) = _ => destruct c eqn:Est end.
    + destruct (mem o (rd s) || mem o (wr s)) eqn:Em; inversion H; subst; clear H.
      * right. right. exists o. auto.
      * right. left. exists o. repeat split; try reflexivity.
        intro Hr. apply registered_mask in Hr. unfold mask in Hr. simpl in Hr. congruence.
    + match type of H with (if ?c then _ else _) = _ => destruct c eqn:Eh end; inversion H; subst; clear H.
      * right. right. exists o. auto.
      * left. split; [reflexivity|]. intros x Hx. apply in_app_iff in Hx.
        destruct Hx as [Hx|Hx]; [destruct (r_in r) | destruct (r_out r)]; simpl in Hx; try contradiction;
          destruct Hx as [Hx|[]]; subst; eauto.
  - inversion H; subst. left. split; [reflexivity|]. intros x [].
Qed.

Lemma Inv_forget : forall k s f o, k <> KSelect -> Inv k s -> pmap s f = Some o -> ~ registered s o -> Inv k (forget s f).
Proof.
  intros k s f o Hk (HW & HM & HE) Hp Hn. destruct (HM Hk) as [Mb Mm Me]. split; [|split].
  - destruct HW. split; simpl; assumption.
  - intros _. split; simpl.
    + intros f' o' H. unfold upd in H. destruct (Nat.eqb_spec f' f); [discriminate | apply Mb; exact H].
    + intros o' f' Hfd Hr. change (registered s o') in Hr. change (mask (forget s f) o') with (mask s o').
      destruct (Mm o' f' Hfd Hr) as [A B].
      assert (f' <> f) by (intro; subst; rewrite Hp in A; inversion A; subst; contradiction).
      rewrite !upd_other by assumption. split; assumption.
    + intros f' o' m H1 H2 H3. unfold upd in H1, H3. destruct (Nat.eqb_spec f' f); [discriminate|].
      change (m = mask s o' /\ registered s o'). eapply Me; eassumption.
  - intros Hk' f' m H. simpl in H. unfold upd in H. destruct (Nat.eqb_spec f' f); [discriminate|].
    destruct (HE Hk' f' m H) as (o' & A & B). exists o'. simpl. rewrite upd_other by assumption. split; assumption.
Qed.

Lemma Inv_forget_discard : forall k s f o, k <> KSelect -> Inv k s -> pmap s f = Some o -> Inv k (b_discard (forget s f) o).
Proof.
  intros k s f o Hk (HW & HM & HE) Hp. destruct (HM Hk) as [Mb Mm Me]. destruct HW as [Wi Wb Wr Wn1 Wn2 Wt].
  destruct (NoDup_remove1 o _ Wn1) as [N1 N1']. destruct (NoDup_remove1 o _ Wn2) as [N2 N2'].
  assert (Hsub : forall o', registered (b_discard (forget s f) o) o' -> registered s o' /\ o' <> o).
  { intros o' [H|H]; simpl in H.
    - split; [left; eapply In_remove1; exact H | intro; subst; contradiction].
    - split; [right; eapply In_remove1; exact H | intro; subst; contradiction]. }
  assert (Hmask : forall o', o' <> o -> mask (b_discard (forget s f) o) o' = mask s o').
  { intros o' Hn. unfold mask. simpl. rewrite !mem_remove1_neq by assumption. reflexivity. }
  assert (Hsup : forall o', o' <> o -> registered s o' -> registered (b_discard (forget s f) o) o').
  { intros o' Hn [H|H]; [left | right]; simpl; apply In_remove1_neq; assumption. }
  split; [|split].
  - split; simpl; try assumption.
    + intros o' Hr. apply Wr. apply Hsub. exact Hr.
    + intros o' Ht. unfold upd in Ht. destruct (Nat.eqb_spec o' o); [congruence|].
      apply Hsup; [assumption | apply Wt; exact Ht].
  - intros _. split.
    + simpl. intros f' o' H. unfold upd in H. destruct (Nat.eqb_spec f' f); [discriminate | apply Mb; exact H].
    + intros o' f' Hfd Hr. destruct (Hsub o' Hr) as [Hr' Hn]. simpl in Hfd.
      destruct (Mm o' f' Hfd Hr') as [A B].
      assert (f' <> f) by (intro; subst; rewrite Hp in A; inversion A; subst; contradiction).
      rewrite Hmask by assumption. simpl. rewrite !upd_other by assumption. split; assumption.
    + intros f' o' m H1 H2 H3. simpl in H1, H2, H3. unfold upd in H1, H3. destruct (Nat.eqb_spec f' f); [discriminate|].
      assert (o' <> o).
      { intro; subst. apply Mb in H1. apply Mb in Hp. congruence. }
      rewrite Hmask by assumption. destruct (Me f' o' m H1 H2 H3) as [A B]. split; [exact A | apply Hsup; assumption].
  - intros Hk' f' m H. simpl in H. unfold upd in H. destruct (Nat.eqb_spec f' f); [discriminate|].
    destruct (HE Hk' f' m H) as (o' & A & B). exists o'. simpl. rewrite upd_other by assumption. split; assumption.
Qed.

Lemma Inv_process : forall k s fr s' e, k <> KSelect -> Inv k s -> process k s fr = (s', e) -> Inv k s'.
Proof.
  intros k s [f r] s' e Hk HI H. destruct (process_cases _ _ _ _ _ _ H) as [[-> _]|[(o & Hp & Hn & -> & _)|(o & Hp & -> & _)]].
  - exact HI.
  - eapply Inv_forget; eassumption.
  - eapply Inv_forget_discard; eassumption.
Qed.

Lemma Inv_processes : forall k l s s' e, k <> KSelect -> Inv k s -> processes k s l = (s', e) -> Inv k s'.
Proof.
  induction l as [|fr t IH]; simpl; intros s s' e Hk HI H.
  - inversion H; subst. exact HI.
  - destruct (process k s fr) as [s1 e1] eqn:E1. destruct (processes k s1 t) as [s2 e2] eqn:E2.
    inversion H; subst. eapply IH; [exact Hk | eapply Inv_process; eassumption | exact E2].
Qed.

(* ------------------------------------------------------------------ Select's iteration *)
Lemma WInv_preen : forall s, WInv s -> WInv (preen s).
Proof.
  intros s [Wi Wb Wr Wn1 Wn2 Wt]. split; simpl; try assumption.
  - intros o [H|H]; apply filter_In in H; destruct H as [H _]; apply Wr; [left|right]; exact H.
  - apply NoDup_filter. exact Wn1.
  - apply NoDup_filter. exact Wn2.
  - intros o Ht. destruct (closed s o) eqn:Ec; simpl in Ht.
    + destruct (mem o (rd s) || mem o (wr s)) eqn:Em; [congruence|].
      apply Wt in Ht. apply registered_mask in Ht. unfold mask in Ht. simpl in Ht. congruence.
    + apply Wt in Ht. destruct Ht as [H|H]; [left|right]; simpl; apply filter_In; (split; [exact H | rewrite Ec; reflexivity]).
Qed.

Lemma Inv_tick : forall k s st order s' e, Inv k s -> tick k s st order = (s', e) -> Inv k s'.
Proof.
  intros k s st order s' e HI H. destruct k; simpl in H.
  - unfold select_tick in H. destruct HI as (HW & _ & _).
    destruct (existsb (closed s) (rd s) || existsb (closed s) (wr s)); inversion H; subst.
    + split; [apply WInv_preen; exact HW | split; intros; congruence].
    + split; [exact HW | split; intros; congruence].
  - eapply Inv_processes; [discriminate | exact HI | exact H].
  - eapply Inv_processes; [discriminate | exact HI | exact H].
Qed.

(* ------------------------------------------------------------------ every step preserves the invariant *)
Lemma Inv_init : forall k, Inv k init.
Proof.
  intros k. split; [|split].
  - split; simpl.
    + intros o f; split; discriminate.
    + intros; discriminate.
    + intros o [[]|[]].
    + constructor.
    + constructor.
    + intros o H. congruence.
  - intros _. split; simpl; intros; discriminate.
  - intros _ f m H. discriminate.
Qed.

Lemma lift_ok : forall o s e, lift o = Ok s e -> o = Some s /\ e = [].
Proof. intros [x|] s e H; simpl in H; inversion H; auto. Qed.

Lemma Inv_step : forall k s x s' e, Inv k s -> pre s x -> step k s x = Ok s' e -> Inv k s'.
Proof.
  intros k s x s' e HI Hpre H. destruct x.
  - eapply Inv_open; eassumption.
  - eapply Inv_close; eassumption.
  - (* AddR *) simpl in H, Hpre. destruct (born s o) eqn:Eb; [|discriminate]. apply lift_ok in H. destruct H as [H _].
    pose proof HI as ([_ _ _ N1 N2 _] & _).
    eapply Inv_api; [exact HI | apply only_o_addR | | | (rewrite Eb; discriminate) | | exact H]; simpl.
    + apply NoDup_app_one; assumption.
    + exact N2.
    + intros _. left. simpl. apply in_app_iff. right. left. reflexivity.
  - (* AddW *) simpl in H, Hpre. destruct (born s o) eqn:Eb; [|discriminate]. apply lift_ok in H. destruct H as [H _].
    pose proof HI as ([_ _ _ N1 N2 _] & _).
    eapply Inv_api; [exact HI | apply only_o_addW | | | (rewrite Eb; discriminate) | | exact H]; simpl.
    + exact N1.
    + apply NoDup_app_one; assumption.
    + intros _. right. simpl. apply in_app_iff. right. left. reflexivity.
  - (* RemR *) simpl in H. destruct (born s o) eqn:Eb; [|discriminate]. apply lift_ok in H. destruct H as [H _].
    pose proof HI as ([_ _ _ N1 N2 _] & _).
    destruct (rd_drop_target (set_rd s (remove1 o (rd s))) o) as (H1 & H2 & _).
    eapply Inv_api; [exact HI | apply only_o_remR | | | (rewrite Eb; discriminate) | | exact H]; unfold b_remR.
    + rewrite H1. simpl. apply NoDup_remove1. exact N1.
    + rewrite H2. simpl. exact N2.
    + unfold registered. rewrite H1, H2. unfold drop_target.
      destruct (mem o (rd (set_rd s (remove1 o (rd s)))) || mem o (wr (set_rd s (remove1 o (rd s))))) eqn:Em.
      * intros _. apply orb_true_iff in Em. rewrite !mem_In in Em. exact Em.
      * simpl. rewrite upd_same. congruence.
  - (* RemW *) simpl in H. destruct (born s o) eqn:Eb; [|discriminate]. apply lift_ok in H. destruct H as [H _].
    pose proof HI as ([_ _ _ N1 N2 _] & _).
    destruct (rd_drop_target (set_wr s (remove1 o (wr s))) o) as (H1 & H2 & _).
    eapply Inv_api; [exact HI | apply only_o_remW | | | (rewrite Eb; discriminate) | | exact H]; unfold b_remW.
    + rewrite H1. simpl. exact N1.
    + rewrite H2. simpl. apply NoDup_remove1. exact N2.
    + unfold registered. rewrite H1, H2. unfold drop_target.
      destruct (mem o (rd (set_wr s (remove1 o (wr s)))) || mem o (wr (set_wr s (remove1 o (wr s))))) eqn:Em.
      * intros _. apply orb_true_iff in Em. rewrite !mem_In in Em. exact Em.
      * simpl. rewrite upd_same. congruence.
  - (* Discard *) simpl in H. destruct (born s o) eqn:Eb; [|discriminate]. apply lift_ok in H. destruct H as [H _].
    pose proof HI as ([_ _ _ N1 N2 _] & _).
    eapply Inv_api; [exact HI | apply only_o_discard | | | (rewrite Eb; discriminate) | | exact H]; simpl.
    + apply NoDup_remove1. exact N1.
    + apply NoDup_remove1. exact N2.
    + rewrite upd_same. congruence.
  - simpl in H. destruct (tick k s st order) as [s1 e1] eqn:Et. inversion H; subst. eapply Inv_tick; eassumption.
Qed.

Theorem reach_Inv : forall k s, reach k s -> Inv k s.
Proof.
  intros k s H. induction H as [|s x s' e _ IH Hp Hs]; [apply Inv_init | eapply Inv_step; eassumption].
Qed.

(* ================================================================== emission: Select *)
Definition clean (s : state) : Prop := existsb (closed s) (rd s) || existsb (closed s) (wr s) = false.

Lemma select_read : forall s st o c,
  In (ERead o c) (snd (select_tick s st)) <->
  clean s /\ In o (rd s) /\ (exists f, fds s o = Some f /\ sr (st f) = true) /\ c = target s o.
Proof.
  intros s st o c. unfold select_tick, clean.
  destruct (existsb (closed s) (rd s) || existsb (closed s) (wr s)); simpl.
  - split; [intros [] | intros [H _]; discriminate].
  - rewrite in_app_iff, !in_map_iff. split.
    + intros [(x & Hx & _)|(x & Hx & Hf)]; [discriminate|]. inversion Hx; subst. apply filter_In in Hf.
      destruct Hf as [Hi Hr]. unfold sel_ready in Hr. destruct (fds s o) as [f|] eqn:Ef; [|discriminate].
      repeat split; try assumption. exists f. split; [reflexivity | exact Hr].
    + intros (_ & Hi & (f & Ef & Hr) & ->). right. exists o. split; [reflexivity|].
      apply filter_In. split; [exact Hi|]. unfold sel_ready. rewrite Ef. exact Hr.
Qed.

Lemma select_write : forall s st o c,
  In (EWrite o c) (snd (select_tick s st)) <->
  clean s /\ In o (wr s) /\ (exists f, fds s o = Some f /\ sw (st f) = true) /\ c = target s o.
Proof.
  intros s st o c. unfold select_tick, clean.
  destruct (existsb (closed s) (rd s) || existsb (closed s) (wr s)); simpl.
  - split; [intros [] | intros [H _]; discriminate].
  - rewrite in_app_iff, !in_map_iff. split.
    + intros [(x & Hx & Hf)|(x & Hx & _)]; [|discriminate]. inversion Hx; subst. apply filter_In in Hf.
      destruct Hf as [Hi Hr]. unfold sel_ready in Hr. destruct (fds s o) as [f|] eqn:Ef; [|discriminate].
      repeat split; try assumption. exists f. split; [reflexivity | exact Hr].
    + intros (_ & Hi & (f & Ef & Hr) & ->). left. exists o. split; [reflexivity|].
      apply filter_In. split; [exact Hi|]. unfold sel_ready. rewrite Ef. exact Hr.
Qed.

Lemma select_no_disc : forall s st o c, ~ In (EDisc o c) (snd (select_tick s st)).
Proof.
  intros s st o c. unfold select_tick.
  destruct (existsb (closed s) (rd s) || existsb (closed s) (wr s)); simpl; [intros []|].
  rewrite in_app_iff, !in_map_iff. intros [(x & Hx & _)|(x & Hx & _)]; discriminate.
Qed.

(* an iteration that meets a closed descriptor reports nothing and leaves a clean poller *)
Lemma select_preen_clean : forall s st, ~ clean s ->
  snd (select_tick s st) = [] /\ clean (fst (select_tick s st)) /\
  (forall o, closed s o = false -> (In o (rd (fst (select_tick s st))) <-> In o (rd s)) /\
                                   (In o (wr (fst (select_tick s st))) <-> In o (wr s))).
Proof.
  intros s st Hn. unfold select_tick, clean in *.
  destruct (existsb (closed s) (rd s) || existsb (closed s) (wr s)) eqn:E; [|congruence].
  simpl. split; [reflexivity|]. split.
  - apply orb_false_iff. split; apply not_true_is_false; intro H; apply existsb_exists in H;
      destruct H as (x & Hx & Hc); apply filter_In in Hx; destruct Hx as [_ Hx];
      unfold closed in *; simpl in Hc; destruct (fds s x); simpl in Hx; congruence.
  - intros o Hc. split; rewrite filter_In, Hc; simpl; tauto.
Qed.

(* ================================================================== emission: Poll / EPoll *)
Lemma scan1_spec : forall s st f x, In x (scan1 s st f) ->
  fst x = f /\ exists mi mo, kreg s f = Some (mi, mo) /\
  ((holder s f = None /\ r_nval (snd x) = true /\ r_in (snd x) = false /\ r_out (snd x) = false) \/
   (holder s f <> None /\ snd x = {| r_in := mi && pin (st f); r_out := mo && pout (st f);
                                     r_hup := phup (st f); r_err := perr (st f); r_nval := false |})).
Proof.
  intros s st f x H. unfold scan1 in H. destruct (kreg s f) as [[mi mo]|] eqn:Ek; [|destruct H].
  destruct (holder s f) eqn:Eh.
  - match type of H with In _ (if ?c then _ else _) => destruct c end; [|destruct H].
    destruct H as [<-|[]]. simpl. split; [reflexivity|]. exists mi, mo. split; [reflexivity|]. right. split; [congruence | reflexivity].
  - destruct H as [<-|[]]. simpl. split; [reflexivity|]. exists mi, mo. split; [reflexivity|]. left. auto.
Qed.

Lemma scan_in_order : forall s st order x, In x (scan s st order) -> In (fst x) order /\ In x (scan1 s st (fst x)).
Proof.
  intros s st order x H. unfold scan in H. apply in_flat_map in H. destruct H as (f & Hf & Hx).
  destruct (scan1_spec _ _ _ _ Hx) as [E _]. rewrite E. split; assumption.
Qed.

Lemma scan_nodup : forall s st order, NoDup order -> NoDup (map fst (scan s st order)).
Proof.
  intros s st order. induction order as [|f t IH]; intros H; simpl; [constructor|].
  inversion H as [|? ? Hn Ht]; subst. rewrite map_app.
  assert (Hrest : forall g, In g (map fst (flat_map (scan1 s st) t)) -> In g t).
  { intros g Hg. apply in_map_iff in Hg. destruct Hg as (x & <- & Hx). apply (scan_in_order s st t x). exact Hx. }
  unfold scan1 at 1. destruct (kreg s f) as [[mi mo]|]; simpl; [|apply IH; exact Ht].
  destruct (holder s f).
  - match goal with |- NoDup (map fst (if ?c then _ else _) ++ _) => destruct c end; simpl; [|apply IH; exact Ht].
    constructor; [intro Hi; apply Hn; apply Hrest; exact Hi | apply IH; exact Ht].
  - simpl. constructor; [intro Hi; apply Hn; apply Hrest; exact Hi | apply IH; exact Ht].
Qed.

Lemma process_frame : forall k s f0 r0 s1 e1 f r, k <> KSelect -> Inv k s ->
  process k s (f0, r0) = (s1, e1) -> f <> f0 -> snd (process k s1 (f, r)) = snd (process k s (f, r)).
Proof.
  intros k s f0 r0 s1 e1 f r Hk (HW & HM & _) H Hn. destruct (HM Hk) as [Mb _ _].
  destruct (process_cases _ _ _ _ _ _ H) as [[-> _]|[(o0 & Hp & _ & -> & _)|(o0 & Hp & -> & _)]].
  - reflexivity.
  - unfold process. simpl. rewrite upd_other by assumption.
    destruct (pmap s f) as [o|]; [|reflexivity].
    repeat match goal with |- context[if ?c then _ else _] => destruct c end; reflexivity.
  - unfold process. simpl. rewrite upd_other by assumption.
    destruct (pmap s f) as [o|] eqn:Epf; [|reflexivity].
    assert (o <> o0) by (intro; subst; apply Mb in Hp; apply Mb in Epf; congruence).
    rewrite !mem_remove1_neq by assumption.
    unfold target. simpl. rewrite upd_other by assumption.
    repeat match goal with |- context[if ?c then _ else _] => destruct c end; reflexivity.
Qed.

Opaque process.
Lemma processes_events : forall k l s x, k <> KSelect -> Inv k s -> NoDup (map fst l) ->
  (In x (snd (processes k s l)) <-> exists fr, In fr l /\ In x (snd (process k s fr))).
Proof.
  induction l as [|[f0 r0] t IH]; intros s x Hk HI Hnd; simpl.
  - split; [intros [] | intros (fr & [] & _)].
  - destruct (process k s (f0, r0)) as [s1 e1] eqn:E1. destruct (processes k s1 t) as [s2 e2] eqn:E2. simpl.
    inversion Hnd as [|? ? Hnot Hnd']; subst.
    assert (HI1 : Inv k s1) by (eapply Inv_process; eassumption).
    pose proof (IH s1 x Hk HI1 Hnd') as IH1. rewrite E2 in IH1. simpl in IH1.
    assert (Hfr : forall fr, In fr t -> snd (process k s1 fr) = snd (process k s fr)).
    { intros [f r] Hin. eapply process_frame; try eassumption.
      intro; subst. apply Hnot. apply in_map_iff. exists (f0, r). split; [reflexivity | exact Hin]. }
    rewrite in_app_iff, IH1. split.
    + intros [H|(fr & Hin & H)].
      * exists (f0, r0). split; [left; reflexivity | rewrite E1; exact H].
      * exists fr. split; [right; exact Hin | rewrite <- Hfr by exact Hin; exact H].
    + intros (fr & [<-|Hin] & H).
      * left. rewrite E1 in H. exact H.
      * right. exists fr. split; [exact Hin | rewrite Hfr by exact Hin; exact H].
Qed.
Transparent process.


Definition stale (k : kind) (s : state) (o f : nat) : bool :=
  match k, fds s o with
  | KPoll, Some f' => negb (Nat.eqb f' f)
  | KPoll, None => true
  | _, _ => false
  end.

Definition hangs (k : kind) (r : revents) : bool :=
  (r_hup r || r_err r || (is_poll k && r_nval r)) && negb (r_in r).

Lemma process_read : forall k s f r o c,
  In (ERead o c) (snd (process k s (f, r))) <->
  pmap s f = Some o /\ stale k s o f = false /\ r_in r = true /\ c = target s o.
Proof.
  intros k s f r o c. unfold process. destruct (pmap s f) as [o'|]; [|simpl; split; [intros [] | intros [H _]; discriminate]].
  change (match k with KPoll => match fds s o' with Some f' => negb (Nat.eqb f' f) | None => true end | _ => false end) with (stale k s o' f).
  change ((r_hup r || r_err r || is_poll k && r_nval r) && negb (r_in r)) with (hangs k r).
  destruct (stale k s o' f) eqn:Es.
  - destruct (mem o' (rd s) || mem o' (wr s)); simpl.
    + split; [intros [H|[]]; discriminate | intros (H1 & H2 & _); inversion H1; subst; congruence].
    + split; [intros [] | intros (H1 & H2 & _); inversion H1; subst; congruence].
  - destruct (hangs k r) eqn:Eh; simpl.
    + split; [intros [H|[]]; discriminate|]. intros (H1 & _ & H3 & _). unfold hangs in Eh. rewrite H3 in Eh. simpl in Eh. rewrite andb_false_r in Eh. discriminate.
    + rewrite in_app_iff. split.
      * intros [H|H]; [destruct (r_in r) eqn:Ei | destruct (r_out r)]; simpl in H; try contradiction; destruct H as [H|[]]; inversion H; subst. auto.
      * intros (H1 & _ & H3 & ->). inversion H1; subst. left. rewrite H3. left. reflexivity.
Qed.

Lemma process_write : forall k s f r o c,
  In (EWrite o c) (snd (process k s (f, r))) <->
  pmap s f = Some o /\ stale k s o f = false /\ hangs k r = false /\ r_out r = true /\ c = target s o.
Proof.
  intros k s f r o c. unfold process. destruct (pmap s f) as [o'|]; [|simpl; split; [intros [] | intros [H _]; discriminate]].
  change (match k with KPoll => match fds s o' with Some f' => negb (Nat.eqb f' f) | None => true end | _ => false end) with (stale k s o' f).
  change ((r_hup r || r_err r || is_poll k && r_nval r) && negb (r_in r)) with (hangs k r).
  destruct (stale k s o' f) eqn:Es.
  - destruct (mem o' (rd s) || mem o' (wr s)); simpl.
    + split; [intros [H|[]]; discriminate | intros (H1 & H2 & _); inversion H1; subst; congruence].
    + split; [intros [] | intros (H1 & H2 & _); inversion H1; subst; congruence].
  - destruct (hangs k r) eqn:Eh; simpl.
    + split; [intros [H|[]]; discriminate|]. intros (_ & _ & H3 & _). discriminate.
    + rewrite in_app_iff. split.
      * intros [H|H]; [destruct (r_in r) | destruct (r_out r) eqn:Eo]; simpl in H; try contradiction; destruct H as [H|[]]; inversion H; subst. auto.
      * intros (H1 & _ & _ & H3 & ->). inversion H1; subst. right. rewrite H3. left. reflexivity.
Qed.

Lemma process_disc : forall k s f r o c,
  In (EDisc o c) (snd (process k s (f, r))) ->
  pmap s f = Some o /\ c = target s o /\
  ((stale k s o f = true /\ registered s o) \/ (stale k s o f = false /\ hangs k r = true)).
Proof.
  intros k s f r o c. unfold process. destruct (pmap s f) as [o'|]; [|simpl; intros []].
  change (match k with KPoll => match fds s o' with Some f' => negb (Nat.eqb f' f) | None => true end | _ => false end) with (stale k s o' f).
  change ((r_hup r || r_err r || is_poll k && r_nval r) && negb (r_in r)) with (hangs k r).
  destruct (stale k s o' f) eqn:Es.
  - destruct (mem o' (rd s) || mem o' (wr s)) eqn:Em; simpl; intros H; [|contradiction].
    destruct H as [H|[]]. inversion H; subst. repeat split. left. split; [exact Es|]. apply registered_mask. exact Em.
  - destruct (hangs k r) eqn:Eh; simpl.
    + intros [H|[]]. inversion H; subst. repeat split. right. auto.
    + rewrite in_app_iff. intros [H|H]; [destruct (r_in r) | destruct (r_out r)]; simpl in H; try contradiction; destruct H as [H|[]]; discriminate.
Qed.

(* a reported number whose _map object passes the staleness test is that object's current number *)
Lemma reported_open : forall k s f o m, k <> KSelect -> Inv k s ->
  pmap s f = Some o -> kreg s f = Some m -> stale k s o f = false -> fds s o = Some f.
Proof.
  intros k s f o m Hk (HW & HM & HE) Hp Hkr Hs. destruct k; [congruence | |].
  - unfold stale in Hs. destruct (fds s o) as [f'|]; [|discriminate].
    apply negb_false_iff in Hs. apply Nat.eqb_eq in Hs. subst. reflexivity.
  - destruct (HE eq_refl f m Hkr) as (o' & Hp' & Hf). congruence.
Qed.

Lemma stale_closed : forall k s f o, k <> KSelect -> Inv k s -> pmap s f = Some o -> stale k s o f = true -> fds s o = None.
Proof.
  intros k s f o Hk (HW & HM & _) Hp Hs. destruct (HM Hk) as [Mb _ _].
  unfold stale in Hs. destruct k; try discriminate. destruct (fds s o) as [f'|] eqn:Ef; [|reflexivity].
  apply (w_born _ HW) in Ef. apply Mb in Hp. rewrite Hp in Ef. inversion Ef; subst. rewrite Nat.eqb_refl in Hs. discriminate.
Qed.

Lemma tick_poll : forall k s st order, k <> KSelect -> tick k s st order = processes k s (scan s st order).
Proof. intros k s st order Hk. destruct k; [congruence | reflexivity | reflexivity]. Qed.

Theorem poll_read : forall k s st order o c, k <> KSelect -> Inv k s -> order_ok s order ->
  (In (ERead o c) (snd (tick k s st order)) <->
   In o (rd s) /\ (exists f, fds s o = Some f /\ pin (st f) = true) /\ c = target s o).
Proof.
  intros k s st order o c Hk HI [Hnd Hcov]. rewrite tick_poll by exact Hk.
  rewrite processes_events; [| exact Hk | exact HI | apply scan_nodup; exact Hnd].
  pose proof HI as (HW & HM & HE). destruct (HM Hk) as [Mb Mm Me].
  split.
  - intros ([f r] & Hin & Hev). apply process_read in Hev. destruct Hev as (Hp & Hs & Hri & ->).
    apply scan_in_order in Hin. simpl in Hin. destruct Hin as [_ Hin].
    destruct (scan1_spec _ _ _ _ Hin) as (_ & mi & mo & Hkr & [(_ & _ & Hx & _)|(Hh & Hr)]); simpl in *; [congruence|].
    subst r. simpl in Hri. apply andb_true_iff in Hri. destruct Hri as [Hmi Hpin].
    pose proof (reported_open _ _ _ _ _ Hk HI Hp Hkr Hs) as Hfd.
    destruct (Me f o _ Hp Hfd Hkr) as [Hm _]. unfold mask in Hm. injection Hm as E1 E2. rewrite E1 in Hmi.
    split; [apply mem_In; exact Hmi|]. split; [exists f; auto | reflexivity].
  - intros (Hi & (f & Hfd & Hpin) & ->).
    destruct (Mm o f Hfd (or_introl Hi)) as [Hp Hkr].
    assert (Hh : holder s f = Some o) by (apply (w_inj _ HW); exact Hfd).
    set (r := {| r_in := mem o (rd s) && pin (st f); r_out := mem o (wr s) && pout (st f);
                 r_hup := phup (st f); r_err := perr (st f); r_nval := false |}).
    assert (Hri : r_in r = true) by (simpl; apply andb_true_iff; split; [apply mem_In; exact Hi | exact Hpin]).
    exists (f, r). split.
    + unfold scan. apply in_flat_map. exists f. split; [apply Hcov; congruence|].
      unfold scan1. rewrite Hkr. unfold mask. rewrite Hh. fold r. rewrite Hri. simpl. left. reflexivity.
    + apply process_read. repeat split; try assumption.
      unfold stale. rewrite Hfd. destruct k; try reflexivity. rewrite Nat.eqb_refl. reflexivity.
Qed.

(* hang-up / error reported for o's number while no readable data is reported for o *)
Definition hang_only (s : state) (st : nat -> status) (o f : nat) : bool :=
  (phup (st f) || perr (st f)) && negb (mem o (rd s) && pin (st f)).

Theorem poll_write : forall k s st order o c, k <> KSelect -> Inv k s -> order_ok s order ->
  (In (EWrite o c) (snd (tick k s st order)) <->
   In o (wr s) /\ (exists f, fds s o = Some f /\ pout (st f) = true /\ hang_only s st o f = false) /\ c = target s o).
Proof.
  intros k s st order o c Hk HI [Hnd Hcov]. rewrite tick_poll by exact Hk.
  rewrite processes_events; [| exact Hk | exact HI | apply scan_nodup; exact Hnd].
  pose proof HI as (HW & HM & HE). destruct (HM Hk) as [Mb Mm Me].
  split.
  - intros ([f r] & Hin & Hev). apply process_write in Hev. destruct Hev as (Hp & Hs & Hh & Hro & ->).
    apply scan_in_order in Hin. simpl in Hin. destruct Hin as [_ Hin].
    destruct (scan1_spec _ _ _ _ Hin) as (_ & mi & mo & Hkr & [(_ & _ & _ & Hx)|(Hho & Hr)]); simpl in *; [congruence|].
    subst r. simpl in Hro. apply andb_true_iff in Hro. destruct Hro as [Hmo Hpout].
    pose proof (reported_open _ _ _ _ _ Hk HI Hp Hkr Hs) as Hfd.
    destruct (Me f o _ Hp Hfd Hkr) as [Hm _]. unfold mask in Hm. injection Hm as E1 E2. rewrite E2 in Hmo.
    split; [apply mem_In; exact Hmo|]. split; [|reflexivity]. exists f. repeat split; try assumption.
    unfold hangs in Hh. simpl in Hh. rewrite andb_false_r, orb_false_r in Hh. unfold hang_only. rewrite <- E1. exact Hh.
  - intros (Hi & (f & Hfd & Hpout & Hho) & ->).
    destruct (Mm o f Hfd (or_intror Hi)) as [Hp Hkr].
    assert (Hh : holder s f = Some o) by (apply (w_inj _ HW); exact Hfd).
    set (r := {| r_in := mem o (rd s) && pin (st f); r_out := mem o (wr s) && pout (st f);
                 r_hup := phup (st f); r_err := perr (st f); r_nval := false |}).
    assert (Hro : r_out r = true) by (simpl; apply andb_true_iff; split; [apply mem_In; exact Hi | exact Hpout]).
    exists (f, r). split.
    + unfold scan. apply in_flat_map. exists f. split; [apply Hcov; congruence|].
      unfold scan1. rewrite Hkr. unfold mask. rewrite Hh. fold r. rewrite Hro. rewrite orb_true_r. simpl. left. reflexivity.
    + apply process_write. repeat split; try assumption.
      * unfold stale. rewrite Hfd. destruct k; try reflexivity. rewrite Nat.eqb_refl. reflexivity.
      * unfold hangs. simpl. rewrite andb_false_r, orb_false_r. exact Hho.
Qed.

Theorem poll_disc : forall k s st order o c, k <> KSelect -> Inv k s -> order_ok s order ->
  In (EDisc o c) (snd (tick k s st order)) ->
  registered s o /\ c = target s o /\
  (fds s o = None \/ exists f, fds s o = Some f /\ hang_only s st o f = true).
Proof.
  intros k s st order o c Hk HI [Hnd Hcov]. rewrite tick_poll by exact Hk.
  rewrite processes_events; [| exact Hk | exact HI | apply scan_nodup; exact Hnd].
  pose proof HI as (HW & HM & HE). destruct (HM Hk) as [Mb Mm Me].
  intros ([f r] & Hin & Hev). apply process_disc in Hev. destruct Hev as (Hp & -> & Hc).
  apply scan_in_order in Hin. simpl in Hin. destruct Hin as [_ Hin].
  destruct Hc as [[Hs Hr]|[Hs Hh]].
  - split; [exact Hr|]. split; [reflexivity|]. left. eapply stale_closed; eassumption.
  - destruct (scan1_spec _ _ _ _ Hin) as (_ & mi & mo & Hkr & Hcase); simpl in *.
    pose proof (reported_open _ _ _ _ _ Hk HI Hp Hkr Hs) as Hfd.
    destruct (Me f o _ Hp Hfd Hkr) as [Hm Hr]. unfold mask in Hm. injection Hm as E1 E2.
    split; [exact Hr|]. split; [reflexivity|]. right. exists f. split; [exact Hfd|].
    destruct Hcase as [(Hho & _)|(_ & Hrr)].
    + apply (w_inj _ HW) in Hfd. congruence.
    + subst r. unfold hangs in Hh. simpl in Hh. rewrite andb_false_r, orb_false_r in Hh. unfold hang_only. rewrite <- E1. exact Hh.
Qed.

(* ================================================================== registrations follow the set model *)
Opaque process.
Lemma processes_sub : forall k l s s' e, processes k s l = (s', e) ->
  (forall o, In o (rd s') -> In o (rd s)) /\ (forall o, In o (wr s') -> In o (wr s)) /\
  fds s' = fds s /\ born s' = born s.
Proof.
  induction l as [|[f r] t IH]; intros s s' e H.
  - simpl in H. inversion H; subst. auto.
  - simpl in H. destruct (process k s (f, r)) as [s1 e1] eqn:E1. destruct (processes k s1 t) as [s2 e2] eqn:E2.
    inversion H; subst. destruct (IH _ _ _ E2) as (A & B & C & D).
    assert (Hs : (forall o, In o (rd s1) -> In o (rd s)) /\ (forall o, In o (wr s1) -> In o (wr s)) /\ fds s1 = fds s /\ born s1 = born s).
    { destruct (process_cases _ _ _ _ _ _ E1) as [[-> _]|[(o0 & _ & _ & -> & _)|(o0 & _ & -> & _)]]; simpl; auto.
      repeat split; try reflexivity; intros o; apply In_remove1. }
    destruct Hs as (A1 & B1 & C1 & D1). split; [|split; [|split]].
    + intros o Hi. apply A1. apply A. exact Hi.
    + intros o Hi. apply B1. apply B. exact Hi.
    + congruence.
    + congruence.
Qed.
Transparent process.


Lemma tick_sub : forall k s st order s' e, tick k s st order = (s', e) ->
  (forall o, In o (rd s') -> In o (rd s)) /\ (forall o, In o (wr s') -> In o (wr s)) /\
  fds s' = fds s /\ born s' = born s.
Proof.
  intros k s st order s' e H. destruct k; simpl in H; try (eapply processes_sub; exact H).
  unfold select_tick in H. destruct (existsb (closed s) (rd s) || existsb (closed s) (wr s)); inversion H; subst; simpl; auto.
  repeat split; try reflexivity; intros o Hi; apply filter_In in Hi; tauto.
Qed.

(* the lists after a step, as the set model says *)
Theorem step_lists : forall k s x s' e, step k s x = Ok s' e ->
  match x with
  | AddR c o => rd s' = rd s ++ [o] /\ wr s' = wr s
  | AddW c o => rd s' = rd s /\ wr s' = wr s ++ [o]
  | RemR o => rd s' = remove1 o (rd s) /\ wr s' = wr s
  | RemW o => rd s' = rd s /\ wr s' = remove1 o (wr s)
  | Discard o => rd s' = remove1 o (rd s) /\ wr s' = remove1 o (wr s)
  | Open _ _ | Close _ => rd s' = rd s /\ wr s' = wr s
  | Tick _ _ => (forall o, In o (rd s') -> In o (rd s)) /\ (forall o, In o (wr s') -> In o (wr s))
  end.
Proof.
  intros k s x s' e H. destruct x; simpl in H.
  - destruct (born s o); [discriminate|]. destruct (holder s f); [discriminate|]. inversion H; subst. simpl. auto.
  - destruct (fds s o); [|discriminate]. inversion H; subst. simpl. auto.
  - destruct (born s o); [|discriminate]. apply lift_ok in H. destruct H as [H _].
    destruct (api_shape _ _ _ _ H) as (_ & _ & _ & A & B & _). rewrite A, B. simpl. auto.
  - destruct (born s o); [|discriminate]. apply lift_ok in H. destruct H as [H _].
    destruct (api_shape _ _ _ _ H) as (_ & _ & _ & A & B & _). rewrite A, B. simpl. auto.
  - destruct (born s o); [|discriminate]. apply lift_ok in H. destruct H as [H _].
    destruct (api_shape _ _ _ _ H) as (_ & _ & _ & A & B & _). rewrite A, B. unfold b_remR.
    destruct (rd_drop_target (set_rd s (remove1 o (rd s))) o) as (H1 & H2 & _). rewrite H1, H2. simpl. auto.
  - destruct (born s o); [|discriminate]. apply lift_ok in H. destruct H as [H _].
    destruct (api_shape _ _ _ _ H) as (_ & _ & _ & A & B & _). rewrite A, B. unfold b_remW.
    destruct (rd_drop_target (set_wr s (remove1 o (wr s))) o) as (H1 & H2 & _). rewrite H1, H2. simpl. auto.
  - destruct (born s o); [|discriminate]. apply lift_ok in H. destruct H as [H _].
    destruct (api_shape _ _ _ _ H) as (_ & _ & _ & A & B & _). rewrite A, B. simpl. auto.
  - destruct (tick k s st order) as [s1 e1] eqn:Et. inversion H; subst.
    destruct (tick_sub _ _ _ _ _ _ Et) as (A & B & _). auto.
Qed.

(* the target of a freshly registered descriptor is the registering component's channel, and it is kept
   as long as the descriptor stays registered in some role *)
Lemma api_tg_reg : forall k s o s', api k s o = Some s' -> registered s o -> tg s' = tg s.
Proof.
  intros k s o s' H Hr. destruct k; simpl in H.
  - inversion H; reflexivity.
  - destruct (update_reg_shape _ _ _ _ H) as (_ & _ & _ & _ & _ & A & _). apply A. exact Hr.
  - destruct (update_reg_shape _ _ _ _ H) as (_ & _ & _ & _ & _ & A & _). apply A. exact Hr.
Qed.

Theorem step_target : forall k s x s' e, step k s x = Ok s' e ->
  match x with
  | AddR c o | AddW c o => tg s' o = Some c /\ forall o', o' <> o -> tg s' o' = tg s o'
  | RemR o => (In o (wr s) -> tg s' o = tg s o) /\ forall o', o' <> o -> tg s' o' = tg s o'
  | RemW o => (In o (rd s) -> tg s' o = tg s o) /\ forall o', o' <> o -> tg s' o' = tg s o'
  | Discard o => forall o', o' <> o -> tg s' o' = tg s o'
  | Open _ _ | Close _ => tg s' = tg s
  | Tick _ _ => True
  end.
Proof.
  intros k s x s' e H. destruct x; simpl in H; try exact I.
  - destruct (born s o); [discriminate|]. destruct (holder s f); [discriminate|]. inversion H; subst. reflexivity.
  - destruct (fds s o); [|discriminate]. inversion H; subst. reflexivity.
  - destruct (born s o); [|discriminate]. apply lift_ok in H. destruct H as [H _]. split.
    + rewrite (api_tg_reg _ _ _ _ H); [simpl; apply upd_same | left; simpl; apply in_app_iff; right; left; reflexivity].
    + intros o' Hn. destruct (api_shape _ _ _ _ H) as (_ & _ & _ & _ & _ & A).
      destruct (A o') as [E|[E _]]; [|contradiction]. rewrite E. simpl. apply upd_other. exact Hn.
  - destruct (born s o); [|discriminate]. apply lift_ok in H. destruct H as [H _]. split.
    + rewrite (api_tg_reg _ _ _ _ H); [simpl; apply upd_same | right; simpl; apply in_app_iff; right; left; reflexivity].
    + intros o' Hn. destruct (api_shape _ _ _ _ H) as (_ & _ & _ & _ & _ & A).
      destruct (A o') as [E|[E _]]; [|contradiction]. rewrite E. simpl. apply upd_other. exact Hn.
  - destruct (born s o); [|discriminate]. apply lift_ok in H. destruct H as [H _].
    destruct (rd_drop_target (set_rd s (remove1 o (rd s))) o) as (H1 & H2 & _ & _ & _ & _ & _ & H8). split.
    + intros Hw. rewrite (api_tg_reg _ _ _ _ H).
      * unfold b_remR, drop_target. simpl. apply mem_In in Hw. rewrite Hw, orb_true_r. reflexivity.
      * right. unfold b_remR. rewrite H2. exact Hw.
    + intros o' Hn. destruct (api_shape _ _ _ _ H) as (_ & _ & _ & _ & _ & A).
      destruct (A o') as [E|[E _]]; [|contradiction]. rewrite E. unfold b_remR. rewrite H8 by exact Hn. reflexivity.
  - destruct (born s o); [|discriminate]. apply lift_ok in H. destruct H as [H _].
    destruct (rd_drop_target (set_wr s (remove1 o (wr s))) o) as (H1 & H2 & _ & _ & _ & _ & _ & H8). split.
    + intros Hw. rewrite (api_tg_reg _ _ _ _ H).
      * unfold b_remW, drop_target. simpl. apply mem_In in Hw. rewrite Hw. reflexivity.
      * left. unfold b_remW. rewrite H1. exact Hw.
    + intros o' Hn. destruct (api_shape _ _ _ _ H) as (_ & _ & _ & _ & _ & A).
      destruct (A o') as [E|[E _]]; [|contradiction]. rewrite E. unfold b_remW. rewrite H8 by exact Hn. reflexivity.
  - destruct (born s o); [|discriminate]. apply lift_ok in H. destruct H as [H _].
    intros o' Hn. destruct (api_shape _ _ _ _ H) as (_ & _ & _ & _ & _ & A).
    destruct (A o') as [E|[E _]]; [|contradiction]. rewrite E. simpl. apply upd_other. exact Hn.
Qed.

(* ================================================================== no ghost events *)
Definition ev_obj (e : ev) : nat := match e with ERead o _ | EWrite o _ | EDisc o _ => o end.
Definition is_rw (e : ev) : Prop := match e with EDisc _ _ => False | _ => True end.
Definition adds (o : nat) (x : op) : Prop := match x with AddR _ o' | AddW _ o' => o' = o | _ => False end.

Fixpoint run_pre (k : kind) (s : state) (h : list op) : Prop :=
  match h with
  | [] => True
  | x :: t => pre s x /\ match step k s x with Ok s' _ => run_pre k s' t | _ => True end
  end.

Lemma tick_event_registered : forall k s st order e, Inv k s -> order_ok s order ->
  In e (snd (tick k s st order)) -> registered s (ev_obj e) /\ (is_rw e -> fds s (ev_obj e) <> None).
Proof.
  intros k s st order e HI Hord Hin.
  assert (Hk : k = KSelect \/ k <> KSelect) by (destruct k; [left; reflexivity | right; discriminate | right; discriminate]).
  destruct Hk as [->|Hk].
  - simpl in Hin. destruct e as [o c|o c|o c]; simpl.
    + apply select_read in Hin. destruct Hin as (_ & Hi & (f & Hf & _) & _). split; [left; exact Hi | intros _; congruence].
    + apply select_write in Hin. destruct Hin as (_ & Hi & (f & Hf & _) & _). split; [right; exact Hi | intros _; congruence].
    + exfalso. eapply select_no_disc. exact Hin.
  - destruct e as [o c|o c|o c]; simpl.
    + apply (poll_read k s st order o c Hk HI Hord) in Hin. destruct Hin as (Hi & (f & Hf & _) & _).
      split; [left; exact Hi | intros _; congruence].
    + apply (poll_write k s st order o c Hk HI Hord) in Hin. destruct Hin as (Hi & (f & Hf & _) & _).
      split; [right; exact Hi | intros _; congruence].
    + apply (poll_disc k s st order o c Hk HI Hord) in Hin. destruct Hin as (Hr & _). split; [exact Hr | intros []].
Qed.

Lemma step_unreg : forall k s x s' e o, step k s x = Ok s' e -> ~ adds o x -> ~ registered s o -> ~ registered s' o.
Proof.
  intros k s x s' e o H Ha Hn Hr. pose proof (step_lists _ _ _ _ _ H) as L.
  destruct x; simpl in Ha; unfold registered in *.
  - destruct L as [A B]. rewrite A, B in Hr. contradiction.
  - destruct L as [A B]. rewrite A, B in Hr. contradiction.
  - destruct L as [A B]. rewrite A, B in Hr. rewrite in_app_iff in Hr. simpl in Hr. intuition congruence.
  - destruct L as [A B]. rewrite A, B in Hr. rewrite in_app_iff in Hr. simpl in Hr. intuition congruence.
  - destruct L as [A B]. rewrite A, B in Hr. destruct Hr as [Hr|Hr]; [apply In_remove1 in Hr|]; tauto.
  - destruct L as [A B]. rewrite A, B in Hr. destruct Hr as [Hr|Hr]; [|apply In_remove1 in Hr]; tauto.
  - destruct L as [A B]. rewrite A, B in Hr. destruct Hr as [Hr|Hr]; apply In_remove1 in Hr; tauto.
  - destruct L as [A B]. destruct Hr as [Hr|Hr]; [apply A in Hr | apply B in Hr]; tauto.
Qed.

Lemma run_cons_trace : forall k s x t tr oc sf, run k s (x :: t) = (tr, oc, sf) ->
  match step k s x with
  | Ok s1 e1 => exists tr1, run k s1 t = (tr1, oc, sf) /\
                 forall p, In p tr -> (exists st order, x = Tick st order /\ p = (s1, e1)) \/ In p tr1
  | _ => tr = []
  end.
Proof.
  intros k s x t tr oc sf H. simpl in H. destruct (step k s x) as [s1 e1| |].
  - destruct (run k s1 t) as [[tr1 oc1] sf1]. inversion H; subst. exists tr1. split; [reflexivity|].
    intros p Hp. destruct x; auto. destruct Hp as [<-|Hp]; [left; eauto | right; exact Hp].
  - inversion H; reflexivity.
  - inversion H; reflexivity.
Qed.

Theorem no_ghost_unregistered : forall k h s tr oc sf o,
  reach k s -> run_pre k s h -> run k s h = (tr, oc, sf) ->
  ~ registered s o -> (forall x, In x h -> ~ adds o x) ->
  forall s' evs e, In (s', evs) tr -> In e evs -> ev_obj e <> o.
Proof.
  induction h as [|x t IH]; intros s tr oc sf o Hre Hpre Hrun Hn Hadds s' evs e Hin He.
  - simpl in Hrun. inversion Hrun; subst. destruct Hin.
  - pose proof (run_cons_trace _ _ _ _ _ _ _ Hrun) as Hc. simpl in Hpre. destruct Hpre as [Hp Hpre].
    destruct (step k s x) as [s1 e1| |] eqn:Es; try (subst; destruct Hin).
    destruct Hc as (tr1 & Hrun1 & Htr).
    assert (Hre1 : reach k s1) by (eapply reach_step; eassumption).
    assert (Hn1 : ~ registered s1 o) by (eapply step_unreg; [exact Es | apply Hadds; left; reflexivity | exact Hn]).
    destruct (Htr _ Hin) as [(st & order & -> & Heq)|Hin1].
    + inversion Heq; subst. simpl in Es. destruct (tick k s st order) as [s2 e2] eqn:Et. inversion Es; subst.
      assert (Hev : In e (snd (tick k s st order))) by (rewrite Et; exact He).
      destruct (tick_event_registered _ _ _ _ _ (reach_Inv _ _ Hre) Hp Hev) as [Hr _].
      intro; subst. contradiction.
    + eapply IH; try eassumption. intros y Hy. apply Hadds. right. exact Hy.
Qed.

Lemma step_fds : forall k s x s' e, step k s x = Ok s' e ->
  forall o, fds s o = None -> born s o <> None -> fds s' o = None /\ born s' o <> None.
Proof.
  intros k s x s' e H o Hf Hb.
  assert (Hapi : forall s1 o1, fds s1 = fds s -> born s1 = born s -> lift (api k s1 o1) = Ok s' e -> fds s' o = None /\ born s' o <> None).
  { intros s1 o1 E1 E2 Hl. apply lift_ok in Hl. destruct Hl as [Hl _].
    destruct (api_shape _ _ _ _ Hl) as (A & _ & B & _). rewrite A, B, E1, E2. auto. }
  destruct x; simpl in H.
  - destruct (born s o0) eqn:Eb; [discriminate|]. destruct (holder s f); [discriminate|]. inversion H; subst. simpl.
    unfold upd. destruct (Nat.eqb_spec o o0); [subst; congruence | auto].
  - destruct (fds s o0); [|discriminate]. inversion H; subst. simpl. unfold upd. destruct (Nat.eqb o o0); auto.
  - destruct (born s o0); [|discriminate]. eapply Hapi; [| |exact H]; reflexivity.
  - destruct (born s o0); [|discriminate]. eapply Hapi; [| |exact H]; reflexivity.
  - destruct (born s o0); [|discriminate]. eapply Hapi; [| |exact H];
      destruct (rd_drop_target (set_rd s (remove1 o0 (rd s))) o0) as (_ & _ & A & _ & B & _); unfold b_remR; [rewrite A | rewrite B]; reflexivity.
  - destruct (born s o0); [|discriminate]. eapply Hapi; [| |exact H];
      destruct (rd_drop_target (set_wr s (remove1 o0 (wr s))) o0) as (_ & _ & A & _ & B & _); unfold b_remW; [rewrite A | rewrite B]; reflexivity.
  - destruct (born s o0); [|discriminate]. eapply Hapi; [| |exact H]; reflexivity.
  - destruct (tick k s st order) as [s1 e1] eqn:Et. inversion H; subst.
    destruct (tick_sub _ _ _ _ _ _ Et) as (_ & _ & A & B). rewrite A, B. auto.
Qed.

(* a closed descriptor never produces a readiness event again, whatever is done afterwards
   (including opening a new descriptor with its number, registered or not) *)
Theorem no_ghost_closed : forall k h s tr oc sf o,
  reach k s -> run_pre k s h -> run k s h = (tr, oc, sf) ->
  fds s o = None -> born s o <> None ->
  forall s' evs e, In (s', evs) tr -> In e evs -> is_rw e -> ev_obj e <> o.
Proof.
  induction h as [|x t IH]; intros s tr oc sf o Hre Hpre Hrun Hf Hb s' evs e Hin He Hrw.
  - simpl in Hrun. inversion Hrun; subst. destruct Hin.
  - pose proof (run_cons_trace _ _ _ _ _ _ _ Hrun) as Hc. simpl in Hpre. destruct Hpre as [Hp Hpre].
    destruct (step k s x) as [s1 e1| |] eqn:Es; try (subst; destruct Hin).
    destruct Hc as (tr1 & Hrun1 & Htr).
    assert (Hre1 : reach k s1) by (eapply reach_step; eassumption).
    destruct (step_fds _ _ _ _ _ Es o Hf Hb) as [Hf1 Hb1].
    destruct (Htr _ Hin) as [(st & order & -> & Heq)|Hin1].
    + inversion Heq; subst. simpl in Es. destruct (tick k s st order) as [s2 e2] eqn:Et. inversion Es; subst.
      assert (Hev : In e (snd (tick k s st order))) by (rewrite Et; exact He).
      destruct (tick_event_registered _ _ _ _ _ (reach_Inv _ _ Hre) Hp Hev) as [_ Hopen].
      intro; subst. apply (Hopen Hrw). exact Hf.
    + eapply IH; eassumption.
Qed.

Lemma discard_unregisters : forall k s o s' e, reach k s -> step k s (Discard o) = Ok s' e -> ~ registered s' o.
Proof.
  intros k s o s' e Hre H. destruct (step_lists _ _ _ _ _ H) as [A B].
  destruct (reach_Inv _ _ Hre) as ([_ _ _ N1 N2 _] & _).
  unfold registered. rewrite A, B. intros [Hi|Hi]; [apply (NoDup_remove1 o _ N1) in Hi | apply (NoDup_remove1 o _ N2) in Hi]; exact Hi.
Qed.

Lemma close_closes : forall k s o s' e, reach k s -> step k s (Close o) = Ok s' e -> fds s' o = None /\ born s' o <> None.
Proof.
  intros k s o s' e Hre H. simpl in H. destruct (fds s o) as [f|] eqn:Ef; [|discriminate]. inversion H; subst. simpl.
  split; [apply upd_same|]. destruct (reach_Inv _ _ Hre) as (HW & _). rewrite (w_born _ HW _ _ Ef). discriminate.
Qed.

(* ================================================================== the three pollers agree *)
Definition plain (x : status) : Prop := phup x = false /\ perr x = false /\ sr x = pin x /\ sw x = pout x.

Lemma clean_open : forall s o, clean s -> registered s o -> fds s o <> None.
Proof.
  intros s o Hc Hr Hf. unfold clean in Hc. apply orb_false_iff in Hc. destruct Hc as [C1 C2].
  assert (Hcl : closed s o = true) by (unfold closed; rewrite Hf; reflexivity).
  destruct Hr as [Hr|Hr].
  - assert (existsb (closed s) (rd s) = true) by (apply existsb_exists; eauto). congruence.
  - assert (existsb (closed s) (wr s) = true) by (apply existsb_exists; eauto). congruence.
Qed.

Theorem agree_tick : forall k s1 s2 st order e,
  k <> KSelect -> Inv KSelect s1 -> Inv k s2 -> order_ok s2 order ->
  (forall o, In o (rd s1) <-> In o (rd s2)) -> (forall o, In o (wr s1) <-> In o (wr s2)) ->
  (forall o, tg s1 o = tg s2 o) -> (forall o, fds s1 o = fds s2 o) ->
  clean s1 -> (forall o f, registered s1 o -> fds s1 o = Some f -> plain (st f)) ->
  (In e (snd (tick KSelect s1 st order)) <-> In e (snd (tick k s2 st order))).
Proof.
  intros k s1 s2 st order e Hk HI1 HI2 Hord Hrd Hwr Htg Hfd Hclean Hplain.
  assert (Htarget : forall o, target s1 o = target s2 o) by (intros; unfold target; rewrite Htg; reflexivity).
  assert (Hmem : forall o, mem o (rd s1) = mem o (rd s2)) by (intros; apply mem_ext; apply Hrd).
  destruct e as [o c|o c|o c].
  - simpl tick at 1. rewrite select_read, (poll_read k s2 st order o c Hk HI2 Hord). split.
    + intros (_ & Hi & (f & Hf & Hs) & ->). destruct (Hplain o f (or_introl Hi) Hf) as (_ & _ & E & _).
      split; [apply Hrd; exact Hi|]. split; [exists f; rewrite <- Hfd; split; [exact Hf | congruence] | apply Htarget].
    + intros (Hi & (f & Hf & Hs) & ->). apply Hrd in Hi. rewrite <- Hfd in Hf.
      destruct (Hplain o f (or_introl Hi) Hf) as (_ & _ & E & _).
      split; [exact Hclean|]. split; [exact Hi|]. split; [exists f; split; [exact Hf | congruence] | symmetry; apply Htarget].
  - simpl tick at 1. rewrite select_write, (poll_write k s2 st order o c Hk HI2 Hord). split.
    + intros (_ & Hi & (f & Hf & Hs) & ->). destruct (Hplain o f (or_intror Hi) Hf) as (E1 & E2 & _ & E).
      split; [apply Hwr; exact Hi|]. split; [|apply Htarget]. exists f. rewrite <- Hfd. split; [exact Hf|]. split; [congruence|].
      unfold hang_only. rewrite E1, E2. reflexivity.
    + intros (Hi & (f & Hf & Hs & _) & ->). apply Hwr in Hi. rewrite <- Hfd in Hf.
      destruct (Hplain o f (or_intror Hi) Hf) as (_ & _ & _ & E).
      split; [exact Hclean|]. split; [exact Hi|]. split; [exists f; split; [exact Hf | congruence] | symmetry; apply Htarget].
  - split.
    + intros H. exfalso. simpl in H. eapply select_no_disc. exact H.
    + intros H. exfalso. apply (poll_disc k s2 st order o c Hk HI2 Hord) in H. destruct H as (Hr & _ & Hc).
      assert (Hr1 : registered s1 o) by (destruct Hr as [Hr|Hr]; [left; apply Hrd | right; apply Hwr]; exact Hr).
      destruct Hc as [Hc|(f & Hf & Hh)].
      * apply (clean_open s1 o Hclean Hr1). rewrite Hfd. exact Hc.
      * rewrite <- Hfd in Hf. destruct (Hplain o f Hr1 Hf) as (E1 & E2 & _). unfold hang_only in Hh. rewrite E1, E2 in Hh. discriminate.
Qed.

(* ================================================================== the mirror, for the Props file *)
Theorem mirror : forall k s, k <> KSelect -> reach k s ->
  (forall o f, fds s o = Some f -> registered s o -> kreg s f = Some (mem o (rd s), mem o (wr s)) /\ pmap s f = Some o) /\
  (forall o f m, fds s o = Some f -> pmap s f = Some o -> kreg s f = Some m -> m = (mem o (rd s), mem o (wr s)) /\ registered s o) /\
  (forall o f, fds s o = Some f -> ~ registered s o -> pmap s f = Some o -> kreg s f = None).
Proof.
  intros k s Hk Hre. destruct (reach_Inv _ _ Hre) as (HW & HM & _). destruct (HM Hk) as [Mb Mm Me]. split; [|split].
  - intros o f Hf Hr. destruct (Mm o f Hf Hr) as [A B]. split; assumption.
  - intros o f m Hf Hp Hkr. eapply Me; eassumption.
  - intros o f Hf Hn Hp. destruct (kreg s f) as [m|] eqn:Ek; [|reflexivity].
    exfalso. apply Hn. eapply Me; eassumption.
Qed.

Theorem mirror_epoll : forall s f m, reach KEPoll s -> kreg s f = Some m ->
  exists o, fds s o = Some f /\ registered s o /\ m = (mem o (rd s), mem o (wr s)).
Proof.
  intros s f m Hre Hk. destruct (reach_Inv _ _ Hre) as (HW & HM & HE).
  destruct (HE eq_refl f m Hk) as (o & Hp & Hf). destruct (HM ltac:(discriminate)) as [_ _ Me].
  destruct (Me f o m Hp Hf Hk) as [A B]. exists o. auto.
Qed.

(* ================================================================== agreement along whole histories *)
(* how the descriptor table evolves: the same for every poller *)
Definition world_after (x : op) (s s' : state) : Prop :=
  match x with
  | Open o f => fds s' = upd (fds s) o (Some f) /\ holder s' = upd (holder s) f (Some o) /\ born s' = upd (born s) o (Some f)
  | Close o => exists f, fds s o = Some f /\ fds s' = upd (fds s) o None /\ holder s' = upd (holder s) f None /\ born s' = born s
  | _ => fds s' = fds s /\ holder s' = holder s /\ born s' = born s
  end.

Opaque process.
Lemma processes_world : forall k l s s' e, processes k s l = (s', e) ->
  fds s' = fds s /\ holder s' = holder s /\ born s' = born s.
Proof.
  induction l as [|[f r] t IH]; intros s s' e H.
  - simpl in H. inversion H; subst. auto.
  - simpl in H. destruct (process k s (f, r)) as [s1 e1] eqn:E1. destruct (processes k s1 t) as [s2 e2] eqn:E2.
    inversion H; subst. destruct (IH _ _ _ E2) as (A & B & C).
    assert (Hs : fds s1 = fds s /\ holder s1 = holder s /\ born s1 = born s).
    { destruct (process_cases _ _ _ _ _ _ E1) as [[-> _]|[(o0 & _ & _ & -> & _)|(o0 & _ & -> & _)]]; simpl; auto. }
    destruct Hs as (A1 & B1 & C1). repeat split; congruence.
Qed.
Transparent process.

Lemma tick_world : forall k s st order s' e, tick k s st order = (s', e) ->
  fds s' = fds s /\ holder s' = holder s /\ born s' = born s.
Proof.
  intros k s st order s' e H. destruct k; simpl in H; try (eapply processes_world; exact H).
  unfold select_tick in H. destruct (existsb (closed s) (rd s) || existsb (closed s) (wr s)); inversion H; subst; simpl; auto.
Qed.

Lemma step_world : forall k s x s' e, step k s x = Ok s' e -> world_after x s s'.
Proof.
  intros k s x s' e H.
  assert (Hapi : forall s1 o1, fds s1 = fds s -> holder s1 = holder s -> born s1 = born s -> lift (api k s1 o1) = Ok s' e ->
                 fds s' = fds s /\ holder s' = holder s /\ born s' = born s).
  { intros s1 o1 E1 E2 E3 Hl. apply lift_ok in Hl. destruct Hl as [Hl _].
    destruct (api_shape _ _ _ _ Hl) as (A & B & C & _). rewrite A, B, C. auto. }
  destruct x; simpl in H; simpl.
  - destruct (born s o); [discriminate|]. destruct (holder s f); [discriminate|]. inversion H; subst. simpl. auto.
  - destruct (fds s o) as [f|] eqn:Ef; [|discriminate]. inversion H; subst. simpl. exists f. auto.
  - destruct (born s o); [|discriminate]. eapply Hapi; [| | |exact H]; reflexivity.
  - destruct (born s o); [|discriminate]. eapply Hapi; [| | |exact H]; reflexivity.
  - destruct (born s o); [|discriminate].
    destruct (rd_drop_target (set_rd s (remove1 o (rd s))) o) as (_ & _ & A & B & C & _).
    eapply Hapi; [| | |exact H]; unfold b_remR; [rewrite A | rewrite B | rewrite C]; reflexivity.
  - destruct (born s o); [|discriminate].
    destruct (rd_drop_target (set_wr s (remove1 o (wr s))) o) as (_ & _ & A & B & C & _).
    eapply Hapi; [| | |exact H]; unfold b_remW; [rewrite A | rewrite B | rewrite C]; reflexivity.
  - destruct (born s o); [|discriminate]. eapply Hapi; [| | |exact H]; reflexivity.
  - destruct (tick k s st order) as [s1 e1] eqn:Et. inversion H; subst. eapply tick_world. exact Et.
Qed.

Definition wfeq (s1 s2 : state) : Prop :=
  (forall o, fds s1 o = fds s2 o) /\ (forall f, holder s1 f = holder s2 f) /\ (forall o, born s1 o = born s2 o).

Lemma wfeq_step : forall x s1 s1' s2 s2', wfeq s1 s2 -> world_after x s1 s1' -> world_after x s2 s2' -> wfeq s1' s2'.
Proof.
  intros x s1 s1' s2 s2' (F & H & B) W1 W2.
  assert (Hsame : (fds s1' = fds s1 /\ holder s1' = holder s1 /\ born s1' = born s1) ->
                  (fds s2' = fds s2 /\ holder s2' = holder s2 /\ born s2' = born s2) -> wfeq s1' s2').
  { intros (A1 & A2 & A3) (B1 & B2 & B3). unfold wfeq. rewrite A1, A2, A3, B1, B2, B3. auto. }
  destruct x; simpl in W1, W2; try (apply Hsame; assumption).
  - destruct W1 as (A1 & A2 & A3). destruct W2 as (B1 & B2 & B3). unfold wfeq. rewrite A1, A2, A3, B1, B2, B3.
    repeat split; intros j; unfold upd; match goal with |- context[Nat.eqb j ?q] => destruct (Nat.eqb j q) end; auto.
  - destruct W1 as (f1 & E1 & A1 & A2 & A3). destruct W2 as (f2 & E2 & B1 & B2 & B3).
    assert (f1 = f2) by (rewrite F in E1; congruence). subst f2.
    unfold wfeq. rewrite A1, A2, A3, B1, B2, B3.
    repeat split; intros j; unfold upd; try match goal with |- context[Nat.eqb j ?q] => destruct (Nat.eqb j q) end; auto.
Qed.

(* what one reported descriptor does to the registrations: nothing, or the object is dropped and told so *)
Lemma process_keep : forall k s fr s' e, Inv k s -> process k s fr = (s', e) ->
  forall o, ((In o (rd s') <-> In o (rd s)) /\ (In o (wr s') <-> In o (wr s)) /\ tg s' o = tg s o) \/
            (~ registered s' o /\ exists c, In (EDisc o c) e).
Proof.
  intros k s [f r] s' e (HW & _) H o.
  destruct (process_cases _ _ _ _ _ _ H) as [[-> _]|[(o0 & _ & _ & -> & _)|(o0 & _ & -> & ->)]].
  - left. tauto.
  - left. simpl. tauto.
  - destruct (Nat.eq_dec o o0) as [->|Hn].
    + right. split.
      * unfold registered. simpl. intros [Hi|Hi].
        -- apply (NoDup_remove1 o0 _ (w_nd_r _ HW)) in Hi. exact Hi.
        -- apply (NoDup_remove1 o0 _ (w_nd_w _ HW)) in Hi. exact Hi.
      * eexists. left. reflexivity.
    + left. simpl. repeat split; try apply In_remove1; try (apply In_remove1_neq; assumption).
      apply upd_other. exact Hn.
Qed.

Opaque process.
Lemma processes_keep : forall k l s s' e, k <> KSelect -> Inv k s -> processes k s l = (s', e) ->
  forall o, ((In o (rd s') <-> In o (rd s)) /\ (In o (wr s') <-> In o (wr s)) /\ tg s' o = tg s o) \/
            (~ registered s' o /\ exists c, In (EDisc o c) e).
Proof.
  induction l as [|fr t IH]; intros s s' e Hk HI H o.
  - simpl in H. inversion H; subst. left. tauto.
  - simpl in H. destruct (process k s fr) as [s1 e1] eqn:E1. destruct (processes k s1 t) as [s2 e2] eqn:E2.
    inversion H; subst.
    assert (HI1 : Inv k s1) by (eapply Inv_process; eassumption).
    destruct (IH _ _ _ Hk HI1 E2 o) as [(A & B & C)|(Hn & c & Hc)].
    + destruct (process_keep _ _ _ _ _ HI E1 o) as [(A1 & B1 & C1)|(Hn1 & c & Hc)].
      * left. rewrite A, B, C. auto.
      * right. split; [|exists c; apply in_app_iff; left; exact Hc].
        unfold registered in *. rewrite A, B. exact Hn1.
    + right. split; [exact Hn | exists c; apply in_app_iff; right; exact Hc].
Qed.
Transparent process.

(* completeness of _disconnect: a registered open descriptor in hang-up-only state is told so *)
Lemma poll_disc_complete : forall k s st order o f, k <> KSelect -> Inv k s -> order_ok s order ->
  registered s o -> fds s o = Some f -> hang_only s st o f = true ->
  In (EDisc o (target s o)) (snd (tick k s st order)).
Proof.
  intros k s st order o f Hk HI [Hnd Hcov] Hr Hfd Hh. rewrite tick_poll by exact Hk.
  rewrite processes_events; [| exact Hk | exact HI | apply scan_nodup; exact Hnd].
  pose proof HI as (HW & HM & HE). destruct (HM Hk) as [Mb Mm Me].
  destruct (Mm o f Hfd Hr) as [Hp Hkr].
  assert (Hho : holder s f = Some o) by (apply (w_inj _ HW); exact Hfd).
  set (r := {| r_in := mem o (rd s) && pin (st f); r_out := mem o (wr s) && pout (st f);
               r_hup := phup (st f); r_err := perr (st f); r_nval := false |}).
  unfold hang_only in Hh. apply andb_true_iff in Hh. destruct Hh as [Hhe Hni].
  exists (f, r). split.
  - unfold scan. apply in_flat_map. exists f. split; [apply Hcov; congruence|].
    unfold scan1. rewrite Hkr. unfold mask. rewrite Hho. fold r.
    assert (Hnz : r_in r || r_out r || r_hup r || r_err r = true).
    { simpl. apply orb_true_iff in Hhe. destruct Hhe as [E|E]; rewrite E; rewrite ?orb_true_r; reflexivity. }
    rewrite Hnz. left. reflexivity.
  - unfold process. rewrite Hp.
    assert (Hst : match k with KPoll => match fds s o with Some f' => negb (Nat.eqb f' f) | None => true end | _ => false end = false).
    { rewrite Hfd. destruct k; try reflexivity. rewrite Nat.eqb_refl. reflexivity. }
    rewrite Hst.
    assert (Hhg : (r_hup r || r_err r || is_poll k && r_nval r) && negb (r_in r) = true).
    { simpl. rewrite andb_false_r, orb_false_r, Hhe. simpl. exact Hni. }
    rewrite Hhg. simpl. left. reflexivity.
Qed.

Lemma allopen_clean : forall s, (forall o, registered s o -> fds s o <> None) -> clean s.
Proof.
  intros s H. unfold clean. apply orb_false_iff. split; apply not_true_is_false; intro E;
    apply existsb_exists in E; destruct E as (o & Hi & Hc); unfold closed in Hc;
    destruct (fds s o) eqn:Ef; try discriminate; [apply (H o (or_introl Hi)) | apply (H o (or_intror Hi))]; exact Ef.
Qed.

Lemma select_tick_clean : forall s st, clean s -> fst (select_tick s st) = s.
Proof. intros s st H. unfold select_tick, clean in *. rewrite H. reflexivity. Qed.

Lemma add_open : forall k s c o s' e, k <> KSelect ->
  (step k s (AddR c o) = Ok s' e \/ step k s (AddW c o) = Ok s' e) -> fds s o <> None.
Proof.
  intros k s c o s' e Hk H Hf.
  assert (Hgen : forall s1, fds s1 o = None -> registered s1 o -> api k s1 o = Some s' -> False).
  { intros s1 E Hr Ha. assert (Hu : update_reg k s1 o = Some s') by (destruct k; [congruence | exact Ha | exact Ha]).
    pose proof (update_reg_tables _ _ _ _ Hu) as Ht. rewrite E in Ht. destruct Ht as (Hn & _). contradiction. }
  destruct H as [H|H]; simpl in H; destruct (born s o); try discriminate; apply lift_ok in H; destruct H as [H _].
  - eapply Hgen; [| |exact H]; [exact Hf | left; simpl; apply in_app_iff; right; left; reflexivity].
  - eapply Hgen; [| |exact H]; [exact Hf | right; simpl; apply in_app_iff; right; left; reflexivity].
Qed.

(* the relation between Select (s1) and Poll / EPoll (s2) after the same history: same descriptor table;
   Poll/EPoll's registrations are a subset of Select's; on that subset roles and targets coincide.
   The difference ([dropped]) consists of descriptors that Poll/EPoll have hung up on. *)
Record Rel (s1 s2 : state) : Prop := {
  r_world : wfeq s1 s2;
  r_sub_r : forall o, In o (rd s2) -> In o (rd s1);
  r_sub_w : forall o, In o (wr s2) -> In o (wr s1);
  r_same : forall o, registered s2 o ->
           (In o (rd s1) -> In o (rd s2)) /\ (In o (wr s1) -> In o (wr s2)) /\ tg s1 o = tg s2 o;
  r_open : forall o, registered s1 o -> fds s1 o <> None
}.

Definition dropped (s1 s2 : state) (o : nat) : Prop := registered s1 o /\ ~ registered s2 o.
Definition consistent (x : status) : Prop := sr x = pin x /\ sw x = pout x.

(* joint precondition of a step applied to the three pollers: the API precondition for each; a descriptor that
   Poll/EPoll have hung up on is discarded before it is registered again; descriptors are discarded before they
   are closed; select and poll see the same readable / writable bits *)
Definition joint_pre (s1 s2 : state) (x : op) : Prop :=
  pre s1 x /\ pre s2 x /\
  match x with
  | AddR _ o | AddW _ o => ~ dropped s1 s2 o
  | Close o => ~ registered s1 o
  | Tick st _ => forall f, consistent (st f)
  | _ => True
  end.

Lemma registered_dec : forall s o, registered s o \/ ~ registered s o.
Proof.
  intros s o. destruct (fst (mask s o) || snd (mask s o)) eqn:E.
  - left. apply registered_mask. exact E.
  - right. intro Hr. apply registered_mask in Hr. congruence.
Qed.

Lemma Rel_step : forall k s1 s2 x s1' e1 s2' e2, k <> KSelect ->
  Rel s1 s2 -> Inv KSelect s1 -> Inv k s2 -> joint_pre s1 s2 x ->
  step KSelect s1 x = Ok s1' e1 -> step k s2 x = Ok s2' e2 -> Rel s1' s2'.
Proof.
  intros k s1 s2 x s1' e1 s2' e2 Hk [Rw Rr Rwr Rs Ro] HI1 HI2 (Hp1 & Hp2 & Hj) H1 H2.
  pose proof (step_world _ _ _ _ _ H1) as W1. pose proof (step_world _ _ _ _ _ H2) as W2.
  pose proof (wfeq_step _ _ _ _ _ Rw W1 W2) as Rw'.
  pose proof (step_lists _ _ _ _ _ H1) as L1. pose proof (step_lists _ _ _ _ _ H2) as L2.
  pose proof (step_target _ _ _ _ _ H1) as T1. pose proof (step_target _ _ _ _ _ H2) as T2.
  destruct HI1 as ([_ _ _ N1r N1w _] & _). pose proof HI2 as ([_ _ _ N2r N2w _] & _).
  destruct x.
  - (* Open *) destruct L1 as [A1 B1]. destruct L2 as [A2 B2]. simpl in W1. destruct W1 as (F1 & _).
    split; try exact Rw'; unfold registered; rewrite ?A1, ?B1, ?A2, ?B2, ?T1, ?T2; try assumption.
    intros o' Hr. rewrite F1. unfold upd. destruct (Nat.eqb o' o); [discriminate | apply Ro; exact Hr].
  - (* Close *) destruct L1 as [A1 B1]. destruct L2 as [A2 B2]. simpl in W1. destruct W1 as (f & _ & F1 & _).
    split; try exact Rw'; unfold registered; rewrite ?A1, ?B1, ?A2, ?B2, ?T1, ?T2; try assumption.
    intros o' Hr. rewrite F1. unfold upd. destruct (Nat.eqb_spec o' o); [subst; contradiction | apply Ro; exact Hr].
  - (* AddR *) destruct L1 as [A1 B1]. destruct L2 as [A2 B2]. destruct T1 as [T1a T1b]. destruct T2 as [T2a T2b].
    simpl in W1. destruct W1 as (F1 & _).
    assert (Hopen : fds s1 o <> None).
    { destruct Rw as (F & _). rewrite F. eapply (add_open k s2 c o); [exact Hk | left; exact H2]. }
    split; try exact Rw'; unfold registered; rewrite ?A1, ?B1, ?A2, ?B2.
    + intros o'. rewrite !in_app_iff. intros [Hi|Hi]; [left; apply Rr; exact Hi | right; exact Hi].
    + exact Rwr.
    + intros o' Hr. destruct (Nat.eq_dec o' o) as [->|Hn].
      * split; [intros _; apply in_app_iff; right; left; reflexivity|]. split; [|congruence].
        intros Hw. destruct (registered_dec s2 o) as [Hr2|Hr2].
        -- apply (Rs o Hr2). exact Hw.
        -- exfalso. apply Hj. split; [right; exact Hw | exact Hr2].
      * assert (Hr2 : registered s2 o').
        { destruct Hr as [Hi|Hi]; [apply in_app_iff in Hi; destruct Hi as [Hi|[Hi|[]]]; [left; exact Hi | congruence] | right; exact Hi]. }
        destruct (Rs o' Hr2) as (Sa & Sb & Sc). split; [|split].
        -- rewrite !in_app_iff. intros [Hi|[Hi|[]]]; [left; apply Sa; exact Hi | congruence].
        -- exact Sb.
        -- rewrite T1b, T2b by exact Hn. exact Sc.
    + intros o' Hr. rewrite F1. destruct (Nat.eq_dec o' o) as [->|Hn]; [exact Hopen|].
      apply Ro. destruct Hr as [Hi|Hi]; [apply in_app_iff in Hi; destruct Hi as [Hi|[Hi|[]]]; [left; exact Hi | congruence] | right; exact Hi].
  - (* AddW *) destruct L1 as [A1 B1]. destruct L2 as [A2 B2]. destruct T1 as [T1a T1b]. destruct T2 as [T2a T2b].
    simpl in W1. destruct W1 as (F1 & _).
    assert (Hopen : fds s1 o <> None).
    { destruct Rw as (F & _). rewrite F. eapply (add_open k s2 c o); [exact Hk | right; exact H2]. }
    split; try exact Rw'; unfold registered; rewrite ?A1, ?B1, ?A2, ?B2.
    + exact Rr.
    + intros o'. rewrite !in_app_iff. intros [Hi|Hi]; [left; apply Rwr; exact Hi | right; exact Hi].
    + intros o' Hr. destruct (Nat.eq_dec o' o) as [->|Hn].
      * split; [|split; [intros _; apply in_app_iff; right; left; reflexivity | congruence]].
        intros Hw. destruct (registered_dec s2 o) as [Hr2|Hr2].
        -- apply (Rs o Hr2). exact Hw.
        -- exfalso. apply Hj. split; [left; exact Hw | exact Hr2].
      * assert (Hr2 : registered s2 o').
        { destruct Hr as [Hi|Hi]; [left; exact Hi | apply in_app_iff in Hi; destruct Hi as [Hi|[Hi|[]]]; [right; exact Hi | congruence]]. }
        destruct (Rs o' Hr2) as (Sa & Sb & Sc). split; [|split].
        -- exact Sa.
        -- rewrite !in_app_iff. intros [Hi|[Hi|[]]]; [left; apply Sb; exact Hi | congruence].
        -- rewrite T1b, T2b by exact Hn. exact Sc.
    + intros o' Hr. rewrite F1. destruct (Nat.eq_dec o' o) as [->|Hn]; [exact Hopen|].
      apply Ro. destruct Hr as [Hi|Hi]; [left; exact Hi | apply in_app_iff in Hi; destruct Hi as [Hi|[Hi|[]]]; [right; exact Hi | congruence]].
  - (* RemR *) destruct L1 as [A1 B1]. destruct L2 as [A2 B2]. destruct T1 as [T1a T1b]. destruct T2 as [T2a T2b].
    simpl in W1. destruct W1 as (F1 & _).
    destruct (NoDup_remove1 o _ N1r) as [_ X1]. destruct (NoDup_remove1 o _ N2r) as [_ X2].
    split; try exact Rw'; unfold registered; rewrite ?A1, ?B1, ?A2, ?B2.
    + intros o' Hi. destruct (Nat.eq_dec o' o) as [->|Hn]; [contradiction|].
      apply In_remove1_neq; [exact Hn | apply Rr; eapply In_remove1; exact Hi].
    + exact Rwr.
    + intros o' Hr. destruct (Nat.eq_dec o' o) as [->|Hn].
      * destruct Hr as [Hi|Hi]; [contradiction|].
        destruct (Rs o (or_intror Hi)) as (_ & Sb & Sc).
        split; [intros Hx; contradiction|]. split; [exact Sb|].
        rewrite (T1a (Rwr _ Hi)), (T2a Hi). exact Sc.
      * assert (Hr2 : registered s2 o') by (destruct Hr as [Hi|Hi]; [left; eapply In_remove1; exact Hi | right; exact Hi]).
        destruct (Rs o' Hr2) as (Sa & Sb & Sc). split; [|split].
        -- intros Hi. apply In_remove1_neq; [exact Hn | apply Sa; eapply In_remove1; exact Hi].
        -- exact Sb.
        -- rewrite T1b, T2b by exact Hn. exact Sc.
    + intros o' Hr. rewrite F1. apply Ro. destruct Hr as [Hi|Hi]; [left; eapply In_remove1; exact Hi | right; exact Hi].
  - (* RemW *) destruct L1 as [A1 B1]. destruct L2 as [A2 B2]. destruct T1 as [T1a T1b]. destruct T2 as [T2a T2b].
    simpl in W1. destruct W1 as (F1 & _).
    destruct (NoDup_remove1 o _ N1w) as [_ X1]. destruct (NoDup_remove1 o _ N2w) as [_ X2].
    split; try exact Rw'; unfold registered; rewrite ?A1, ?B1, ?A2, ?B2.
    + exact Rr.
    + intros o' Hi. destruct (Nat.eq_dec o' o) as [->|Hn]; [contradiction|].
      apply In_remove1_neq; [exact Hn | apply Rwr; eapply In_remove1; exact Hi].
    + intros o' Hr. destruct (Nat.eq_dec o' o) as [->|Hn].
      * destruct Hr as [Hi|Hi]; [|contradiction].
        destruct (Rs o (or_introl Hi)) as (Sa & _ & Sc).
        split; [exact Sa|]. split; [intros Hx; contradiction|].
        rewrite (T1a (Rr _ Hi)), (T2a Hi). exact Sc.
      * assert (Hr2 : registered s2 o') by (destruct Hr as [Hi|Hi]; [left; exact Hi | right; eapply In_remove1; exact Hi]).
        destruct (Rs o' Hr2) as (Sa & Sb & Sc). split; [|split].
        -- exact Sa.
        -- intros Hi. apply In_remove1_neq; [exact Hn | apply Sb; eapply In_remove1; exact Hi].
        -- rewrite T1b, T2b by exact Hn. exact Sc.
    + intros o' Hr. rewrite F1. apply Ro. destruct Hr as [Hi|Hi]; [left; exact Hi | right; eapply In_remove1; exact Hi].
  - (* Discard *) destruct L1 as [A1 B1]. destruct L2 as [A2 B2].
    simpl in W1. destruct W1 as (F1 & _).
    destruct (NoDup_remove1 o _ N1r) as [_ X1]. destruct (NoDup_remove1 o _ N2r) as [_ X2].
    destruct (NoDup_remove1 o _ N1w) as [_ Y1]. destruct (NoDup_remove1 o _ N2w) as [_ Y2].
    split; try exact Rw'; unfold registered; rewrite ?A1, ?B1, ?A2, ?B2.
    + intros o' Hi. destruct (Nat.eq_dec o' o) as [->|Hn]; [contradiction|].
      apply In_remove1_neq; [exact Hn | apply Rr; eapply In_remove1; exact Hi].
    + intros o' Hi. destruct (Nat.eq_dec o' o) as [->|Hn]; [contradiction|].
      apply In_remove1_neq; [exact Hn | apply Rwr; eapply In_remove1; exact Hi].
    + intros o' Hr. destruct (Nat.eq_dec o' o) as [->|Hn]; [destruct Hr; contradiction|].
      assert (Hr2 : registered s2 o') by (destruct Hr as [Hi|Hi]; [left | right]; eapply In_remove1; exact Hi).
      destruct (Rs o' Hr2) as (Sa & Sb & Sc). split; [|split].
      * intros Hi. apply In_remove1_neq; [exact Hn | apply Sa; eapply In_remove1; exact Hi].
      * intros Hi. apply In_remove1_neq; [exact Hn | apply Sb; eapply In_remove1; exact Hi].
      * rewrite T1, T2 by exact Hn. exact Sc.
    + intros o' Hr. rewrite F1. apply Ro. destruct Hr as [Hi|Hi]; [left | right]; eapply In_remove1; exact Hi.
  - (* Tick *) simpl in H1, H2.
    assert (Hcl : clean s1) by (apply allopen_clean; exact Ro).
    assert (s1' = s1) as ->.
    { rewrite <- (select_tick_clean s1 st Hcl). destruct (select_tick s1 st). inversion H1; reflexivity. }
    destruct (tick k s2 st order) as [s2x e2x] eqn:Et. inversion H2; subst.
    destruct (tick_sub _ _ _ _ _ _ Et) as (Sr & Sw & _).
    assert (Hkeep := fun o => processes_keep k (scan s2 st order) s2 s2' e2 Hk HI2 (eq_trans (eq_sym (tick_poll k s2 st order Hk)) Et) o).
    split; try exact Rw'.
    + intros o Hi. apply Rr. apply Sr. exact Hi.
    + intros o Hi. apply Rwr. apply Sw. exact Hi.
    + intros o Hr. destruct (Hkeep o) as [(A & B & C)|(Hn & _)]; [|contradiction].
      assert (Hr2 : registered s2 o) by (destruct Hr as [Hi|Hi]; [left; apply Sr | right; apply Sw]; exact Hi).
      destruct (Rs o Hr2) as (Sa & Sb & Sc). rewrite A, B, C. auto.
    + exact Ro.
Qed.

Inductive joint (k : kind) : list op -> state -> state -> Prop :=
| joint_nil : joint k [] init init
| joint_snoc : forall h s1 s2 x s1' e1 s2' e2, joint k h s1 s2 -> joint_pre s1 s2 x ->
    step KSelect s1 x = Ok s1' e1 -> step k s2 x = Ok s2' e2 -> joint k (h ++ [x]) s1' s2'.

Lemma Rel_init : Rel init init.
Proof.
  split; simpl; try tauto; try (repeat split; reflexivity); try (intros o [[]|[]]).
Qed.

Theorem agree_history : forall k h s1 s2, k <> KSelect -> joint k h s1 s2 ->
  Rel s1 s2 /\ reach KSelect s1 /\ reach k s2.
Proof.
  intros k h s1 s2 Hk H. induction H as [|h s1 s2 x s1' e1 s2' e2 _ IH Hj H1 H2].
  - split; [apply Rel_init | split; apply reach_init].
  - destruct IH as (HR & R1 & R2). pose proof Hj as (P1 & P2 & _). split; [|split].
    + eapply Rel_step; try eassumption; apply reach_Inv; assumption.
    + eapply reach_step; eassumption.
    + eapply reach_step; eassumption.
Qed.

Opaque process.
Lemma processes_disc_gone : forall k l s s' e o c, k <> KSelect -> Inv k s -> processes k s l = (s', e) ->
  In (EDisc o c) e -> ~ registered s' o.
Proof.
  induction l as [|[f r] t IH]; intros s s' e o c Hk HI H Hd.
  - simpl in H. inversion H; subst. destruct Hd.
  - simpl in H. destruct (process k s (f, r)) as [sa ea] eqn:Ea. destruct (processes k sa t) as [sb eb] eqn:Eb.
    inversion H; subst. apply in_app_iff in Hd.
    assert (HIa : Inv k sa) by (eapply Inv_process; eassumption).
    destruct Hd as [Hd|Hd]; [|eapply IH; eassumption].
    destruct (process_cases _ _ _ _ _ _ Ea) as [[-> Hx]|[(o0 & _ & _ & -> & ->)|(o0 & _ & -> & ->)]].
    + destruct (Hx _ Hd) as (o1 & c1 & [E|E]); discriminate.
    + destruct Hd.
    + destruct Hd as [Hd|[]]. inversion Hd; subst.
      destruct (processes_sub _ _ _ _ _ Eb) as (Sr & Sw & _). destruct HI as (HW & _).
      intros [Hi|Hi]; [apply Sr in Hi | apply Sw in Hi]; simpl in Hi.
      * apply (NoDup_remove1 o _ (w_nd_r _ HW)) in Hi. exact Hi.
      * apply (NoDup_remove1 o _ (w_nd_w _ HW)) in Hi. exact Hi.
Qed.
Transparent process.

(* what one iteration emits on both sides of the relation *)
Theorem agree_events : forall k s1 s2 st order, k <> KSelect ->
  Rel s1 s2 -> Inv k s2 -> order_ok s2 order -> (forall f, consistent (st f)) ->
  let e1 := snd (tick KSelect s1 st order) in
  let e2 := snd (tick k s2 st order) in
  let s2' := fst (tick k s2 st order) in
  (forall o c, In (ERead o c) e2 <-> In (ERead o c) e1 /\ registered s2 o) /\
  (forall o c, In (EWrite o c) e2 <->
               In (EWrite o c) e1 /\ registered s2 o /\ forall f, fds s2 o = Some f -> hang_only s2 st o f = false) /\
  (forall o c, In (EDisc o c) e2 <->
               registered s2 o /\ c = target s2 o /\ exists f, fds s2 o = Some f /\ hang_only s2 st o f = true) /\
  (forall o c, ~ In (EDisc o c) e1) /\
  fst (tick KSelect s1 st order) = s1 /\
  (forall o, registered s2 o -> (~ registered s2' o <-> exists c, In (EDisc o c) e2)).
Proof.
  intros k s1 s2 st order Hk [Rw Rr Rwr Rs Ro] HI2 Hord Hcons e1 e2 s2'.
  destruct Rw as (F & _).
  assert (Hcl : clean s1) by (apply allopen_clean; exact Ro).
  assert (Htg : forall o, registered s2 o -> target s1 o = target s2 o).
  { intros o Hr. unfold target. destruct (Rs o Hr) as (_ & _ & E). rewrite E. reflexivity. }
  split; [|split; [|split; [|split; [|split]]]].
  - intros o c. unfold e1, e2. simpl tick at 2. rewrite select_read, (poll_read k s2 st order o c Hk HI2 Hord). split.
    + intros (Hi & (f & Hf & Hpin) & ->). destruct (Hcons f) as [E _].
      split; [|left; exact Hi]. split; [exact Hcl|]. split; [apply Rr; exact Hi|].
      split; [exists f; rewrite F; split; [exact Hf | congruence] | symmetry; apply Htg; left; exact Hi].
    + intros ((_ & Hi & (f & Hf & Hs) & ->) & Hr). destruct (Hcons f) as [E _].
      split; [apply (Rs o Hr); exact Hi|]. split; [exists f; rewrite <- F; split; [exact Hf | congruence] | apply Htg; exact Hr].
  - intros o c. unfold e1, e2. simpl tick at 2. rewrite select_write, (poll_write k s2 st order o c Hk HI2 Hord). split.
    + intros (Hi & (f & Hf & Hpout & Hh) & ->). destruct (Hcons f) as [_ E].
      split; [|split; [right; exact Hi | intros f' Hf'; rewrite Hf in Hf'; inversion Hf'; subst; exact Hh]].
      split; [exact Hcl|]. split; [apply Rwr; exact Hi|].
      split; [exists f; rewrite F; split; [exact Hf | congruence] | symmetry; apply Htg; right; exact Hi].
    + intros ((_ & Hi & (f & Hf & Hs) & ->) & Hr & Hh). destruct (Hcons f) as [_ E]. rewrite F in Hf.
      split; [apply (Rs o Hr); exact Hi|]. split; [|apply Htg; exact Hr].
      exists f. split; [exact Hf|]. split; [congruence | apply Hh; exact Hf].
  - intros o c. unfold e2. split.
    + intros H. apply (poll_disc k s2 st order o c Hk HI2 Hord) in H. destruct H as (Hr & Hc & [Hn|Hx]).
      * exfalso. apply (Ro o).
        -- destruct Hr as [Hi|Hi]; [left; apply Rr | right; apply Rwr]; exact Hi.
        -- rewrite F. exact Hn.
      * auto.
    + intros (Hr & -> & f & Hf & Hh). eapply poll_disc_complete; eassumption.
  - intros o c. unfold e1. simpl. apply select_no_disc.
  - simpl. apply select_tick_clean. exact Hcl.
  - intros o Hr. unfold s2', e2.
    destruct (tick k s2 st order) as [sx ex] eqn:Et. simpl.
    pose proof (processes_keep k (scan s2 st order) s2 sx ex Hk HI2 (eq_trans (eq_sym (tick_poll k s2 st order Hk)) Et) o) as Hkeep.
    split.
    + intros Hn. destruct Hkeep as [(A & B & _)|(_ & Hc)]; [|exact Hc].
      exfalso. apply Hn. unfold registered in *. rewrite A, B. exact Hr.
    + intros (c & Hc). eapply processes_disc_gone; [exact Hk | exact HI2 | | exact Hc].
      rewrite <- tick_poll by exact Hk. exact Et.
Qed.

(* resynchronisation: once the client discards a descriptor, it is no longer in the difference; nothing else
   but a _disconnect in an iteration ever enlarges the difference *)
Theorem dropped_step : forall k s1 s2 x s1' e1 s2' e2 o, k <> KSelect ->
  Rel s1 s2 -> Inv KSelect s1 -> Inv k s2 -> joint_pre s1 s2 x ->
  step KSelect s1 x = Ok s1' e1 -> step k s2 x = Ok s2' e2 ->
  match x with
  | Discard o' => dropped s1' s2' o <-> dropped s1 s2 o /\ o <> o'
  | Tick _ _ => dropped s1' s2' o <-> dropped s1 s2 o \/ exists c, In (EDisc o c) e2
  | _ => dropped s1' s2' o -> dropped s1 s2 o
  end.
Proof.
  intros k s1 s2 x s1' e1 s2' e2 o Hk HR HI1 HI2 Hj H1 H2.
  pose proof (Rel_step _ _ _ _ _ _ _ _ Hk HR HI1 HI2 Hj H1 H2) as HR'.
  pose proof (step_lists _ _ _ _ _ H1) as L1. pose proof (step_lists _ _ _ _ _ H2) as L2.
  destruct HR as [Rw Rr Rwr Rs Ro]. destruct Hj as (_ & P2 & Hj).
  pose proof HI1 as ([_ _ _ N1r N1w _] & _). pose proof HI2 as ([_ _ _ N2r N2w _] & _).
  unfold dropped, registered.
  destruct x; destruct L1 as [A1 B1]; destruct L2 as [A2 B2]; try (rewrite A1, B1, A2, B2; tauto).
  - (* AddR *) rewrite A1, B1, A2, B2. rewrite !in_app_iff. simpl. intros [Hr Hn].
    destruct (Nat.eq_dec o o0) as [->|Hne]; [exfalso; apply Hn; left; right; left; reflexivity|].
    split; [|intro H; apply Hn; destruct H as [H|H]; [left; left; exact H | right; exact H]].
    destruct Hr as [[H|[H|[]]]|H]; [left; exact H | congruence | right; exact H].
  - (* AddW *) rewrite A1, B1, A2, B2. rewrite !in_app_iff. simpl. intros [Hr Hn].
    destruct (Nat.eq_dec o o0) as [->|Hne]; [exfalso; apply Hn; right; right; left; reflexivity|].
    split; [|intro H; apply Hn; destruct H as [H|H]; [left; exact H | right; left; exact H]].
    destruct Hr as [H|[H|[H|[]]]]; [left; exact H | right; exact H | congruence].
  - (* RemR *) rewrite A1, B1, A2, B2. intros [Hr Hn].
    split; [destruct Hr as [H|H]; [left; eapply In_remove1; exact H | right; exact H]|].
    intros [H|H]; [|apply Hn; right; exact H].
    destruct (Nat.eq_dec o o0) as [->|Hne].
    + destruct Hr as [Hx|Hx]; [apply (NoDup_remove1 o0 _ N1r) in Hx; exact Hx|].
      apply Hn. right. apply (Rs o0 (or_introl H)). exact Hx.
    + apply Hn. left. apply In_remove1_neq; assumption.
  - (* RemW *) rewrite A1, B1, A2, B2. intros [Hr Hn].
    split; [destruct Hr as [H|H]; [left; exact H | right; eapply In_remove1; exact H]|].
    intros [H|H]; [apply Hn; left; exact H|].
    destruct (Nat.eq_dec o o0) as [->|Hne].
    + destruct Hr as [Hx|Hx]; [|apply (NoDup_remove1 o0 _ N1w) in Hx; exact Hx].
      apply Hn. left. apply (Rs o0 (or_intror H)). exact Hx.
    + apply Hn. right. apply In_remove1_neq; assumption.
  - (* Discard *) rewrite A1, B1, A2, B2. split.
    + intros [Hr Hn].
      assert (Hne : o <> o0).
      { intro; subst. destruct Hr as [Hx|Hx]; [apply (NoDup_remove1 o0 _ N1r) in Hx | apply (NoDup_remove1 o0 _ N1w) in Hx]; exact Hx. }
      split; [|exact Hne]. split; [destruct Hr as [H|H]; [left | right]; eapply In_remove1; exact H|].
      intros [H|H]; apply Hn; [left | right]; apply In_remove1_neq; assumption.
    + intros [[Hr Hn] Hne]. split; [destruct Hr as [H|H]; [left | right]; apply In_remove1_neq; assumption|].
      intros [H|H]; apply Hn; [left | right]; eapply In_remove1; exact H.
  - (* Tick *) simpl in H1, H2.
    assert (Hcl : clean s1) by (apply allopen_clean; exact Ro).
    assert (s1' = s1) as ->.
    { rewrite <- (select_tick_clean s1 st Hcl). destruct (select_tick s1 st). inversion H1; reflexivity. }
    pose proof (agree_events k s1 s2 st order Hk (Build_Rel _ _ Rw Rr Rwr Rs Ro) HI2 P2 Hj) as (_ & _ & Hdisc & _ & _ & Hgone).
    destruct (tick k s2 st order) as [s2x e2x] eqn:Et. inversion H2; subst. simpl in Hdisc, Hgone.
    fold (registered s1 o). fold (registered s2' o). fold (registered s2 o).
    split.
    + intros [Hr Hn]. destruct (registered_dec s2 o) as [Hr2|Hr2]; [|left; split; assumption].
      right. apply (Hgone o Hr2). exact Hn.
    + intros [[Hr Hn]|(c & Hc)].
      * split; [exact Hr|]. intros Hx. apply Hn. destruct Hx as [Hx|Hx]; [left; apply A2 | right; apply B2]; exact Hx.
      * pose proof Hc as Hc'. apply Hdisc in Hc'. destruct Hc' as (Hr2 & _).
        split; [destruct Hr2 as [Hx|Hx]; [left; apply Rr | right; apply Rwr]; exact Hx|].
        apply (Hgone o Hr2). exists c. exact Hc.
Qed.

(* when nothing is in the difference the three pollers have the same registrations and targets *)
Theorem synced_equal : forall k s1 s2, Rel s1 s2 -> Inv KSelect s1 -> Inv k s2 -> (forall o, ~ dropped s1 s2 o) ->
  (forall o, In o (rd s1) <-> In o (rd s2)) /\ (forall o, In o (wr s1) <-> In o (wr s2)) /\
  (forall o, tg s1 o = tg s2 o) /\ (forall o, fds s1 o = fds s2 o).
Proof.
  intros k s1 s2 [Rw Rr Rwr Rs Ro] (W1 & _) (W2 & _) Hnd.
  assert (Hreg : forall o, registered s1 o -> registered s2 o).
  { intros o Hr. destruct (registered_dec s2 o) as [H|H]; [exact H | exfalso; apply (Hnd o); split; assumption]. }
  split; [|split; [|split]].
  - intros o. split; [|apply Rr]. intros Hi. apply (Rs o (Hreg o (or_introl Hi))). exact Hi.
  - intros o. split; [|apply Rwr]. intros Hi. apply (Rs o (Hreg o (or_intror Hi))). exact Hi.
  - intros o. destruct (registered_dec s2 o) as [H|H]; [apply (Rs o H)|].
    destruct (tg s1 o) eqn:E1.
    + exfalso. apply H. apply Hreg. apply (w_tg _ W1). congruence.
    + destruct (tg s2 o) eqn:E2; [|reflexivity]. exfalso. apply H. apply (w_tg _ W2). congruence.
  - destruct Rw as (F & _). exact F.
Qed.

(* composition: the event relation holds for the iteration following any jointly valid history *)
Theorem agree_history_events : forall k h s1 s2 st order, k <> KSelect -> joint k h s1 s2 ->
  order_ok s2 order -> (forall f, consistent (st f)) ->
  let e1 := snd (tick KSelect s1 st order) in
  let e2 := snd (tick k s2 st order) in
  let s2' := fst (tick k s2 st order) in
  (forall o c, In (ERead o c) e2 <-> In (ERead o c) e1 /\ registered s2 o) /\
  (forall o c, In (EWrite o c) e2 <->
               In (EWrite o c) e1 /\ registered s2 o /\ forall f, fds s2 o = Some f -> hang_only s2 st o f = false) /\
  (forall o c, In (EDisc o c) e2 <->
               registered s2 o /\ c = target s2 o /\ exists f, fds s2 o = Some f /\ hang_only s2 st o f = true) /\
  (forall o c, ~ In (EDisc o c) e1) /\
  fst (tick KSelect s1 st order) = s1 /\
  (forall o, registered s2 o -> (~ registered s2' o <-> exists c, In (EDisc o c) e2)).
Proof.
  intros k h s1 s2 st order Hk Hj Hord Hc. destruct (agree_history _ _ _ _ Hk Hj) as (HR & _ & R2).
  apply agree_events; try assumption. apply reach_Inv. exact R2.
Qed.

(* readable form of the hang-up difference: everything Poll/EPoll report, Select reports too; what Select reports
   in addition concerns only descriptors that Poll/EPoll are hanging up on in this very iteration (they emit
   _disconnect and drop the registration) or have hung up on before (the difference) *)
Theorem hangup_difference : forall k h s1 s2 st order o c, k <> KSelect -> joint k h s1 s2 ->
  order_ok s2 order -> (forall f, consistent (st f)) ->
  let e1 := snd (tick KSelect s1 st order) in
  let e2 := snd (tick k s2 st order) in
  let s2' := fst (tick k s2 st order) in
  (In (ERead o c) e2 -> In (ERead o c) e1) /\ (In (EWrite o c) e2 -> In (EWrite o c) e1) /\
  (In (ERead o c) e1 -> In (ERead o c) e2 \/ dropped s1 s2 o) /\
  (In (EWrite o c) e1 -> In (EWrite o c) e2 \/ dropped s1 s2 o \/
                         ((exists c', In (EDisc o c') e2) /\ ~ registered s2' o)).
Proof.
  intros k h s1 s2 st order o c Hk Hj Hord Hc e1 e2 s2'.
  destruct (agree_history_events k h s1 s2 st order Hk Hj Hord Hc) as (Hr & Hw & Hd & _ & _ & Hg).
  fold e1 in Hr, Hw. fold e2 in Hr, Hw, Hd, Hg. fold s2' in Hg.
  assert (Hreg1 : forall x, In x e1 -> registered s1 (ev_obj x)).
  { intros x Hx. unfold e1 in Hx. simpl in Hx. destruct x as [o1 c1|o1 c1|o1 c1]; simpl.
    - apply select_read in Hx. left. tauto.
    - apply select_write in Hx. right. tauto.
    - exfalso. eapply select_no_disc. exact Hx. }
  split; [|split; [|split]].
  - intros H. apply Hr in H. tauto.
  - intros H. apply Hw in H. tauto.
  - intros H. destruct (registered_dec s2 o) as [H2|H2].
    + left. apply Hr. split; assumption.
    + right. split; [apply (Hreg1 _ H) | exact H2].
  - intros H. destruct (registered_dec s2 o) as [H2|H2]; [|right; left; split; [apply (Hreg1 _ H) | exact H2]].
    destruct (fds s2 o) as [f|] eqn:Ef.
    + destruct (hang_only s2 st o f) eqn:Eh.
      * right. right.
        assert (Hx : In (EDisc o (target s2 o)) e2) by (apply Hd; split; [exact H2 | split; [reflexivity | exists f; auto]]).
        split; [eexists; exact Hx | apply (Hg o H2); eexists; exact Hx].
      * left. apply Hw. split; [exact H|]. split; [exact H2|]. intros f' Hf'. rewrite Ef in Hf'. injection Hf' as <-. exact Eh.
    + left. apply Hw. split; [exact H|]. split; [exact H2|]. intros f' Hf'. rewrite Ef in Hf'. discriminate.
Qed.

Theorem resync : forall k h s1 s2 x s1' e1 s2' e2 o, k <> KSelect -> joint k h s1 s2 -> joint_pre s1 s2 x ->
  step KSelect s1 x = Ok s1' e1 -> step k s2 x = Ok s2' e2 ->
  match x with
  | Discard o' => dropped s1' s2' o <-> dropped s1 s2 o /\ o <> o'
  | Tick _ _ => dropped s1' s2' o <-> dropped s1 s2 o \/ exists c, In (EDisc o c) e2
  | _ => dropped s1' s2' o -> dropped s1 s2 o
  end.
Proof.
  intros k h s1 s2 x s1' e1 s2' e2 o Hk Hj Hp H1 H2.
  destruct (agree_history _ _ _ _ Hk Hj) as (HR & R1 & R2).
  eapply (dropped_step k s1 s2 x s1' e1 s2' e2 o Hk HR (reach_Inv _ _ R1) (reach_Inv _ _ R2) Hp H1 H2).
Qed.

Theorem synced_history : forall k h s1 s2, k <> KSelect -> joint k h s1 s2 -> (forall o, ~ dropped s1 s2 o) ->
  (forall o, In o (rd s1) <-> In o (rd s2)) /\ (forall o, In o (wr s1) <-> In o (wr s2)) /\
  (forall o, tg s1 o = tg s2 o) /\ (forall o, fds s1 o = fds s2 o).
Proof.
  intros k h s1 s2 Hk Hj Hn. destruct (agree_history _ _ _ _ Hk Hj) as (HR & R1 & R2).
  exact (synced_equal k s1 s2 HR (reach_Inv _ _ R1) (reach_Inv _ _ R2) Hn).
Qed.
