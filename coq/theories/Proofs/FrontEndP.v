(* Proofs about Model/FrontEnd.v: the composition HTTP front end + Static is contained. *)
From Coq Require Import List NArith Bool Lia.
From Circ Require Import Model.StaticPath Model.FrontEnd Proofs.StaticPathP.
Import ListNotations.
Open Scope N_scope.

Definition nodot (p : str) : Prop := is_dot p = false /\ is_dotdot p = false.

Lemma abs_loop_nodot : forall parts stack dir st' dir',
  Forall nodot stack -> abs_loop stack dir parts = (st', dir') -> Forall nodot st'.
Proof.
  induction parts as [|p r IH]; intros stack dir st' dir' Hs H; simpl in H.
  - inversion H; subst. assumption.
  - destruct (is_dotdot p) eqn:E1.
    + eapply IH; [|exact H]. destruct stack; simpl; [constructor|]. inversion Hs; assumption.
    + destruct (negb (is_dot p)) eqn:E2.
      * eapply IH; [|exact H]. constructor; [|assumption]. split; [|assumption].
        apply negb_true_iff. assumption.
      * eapply IH; [|exact H]. assumption.
Qed.

Lemma abs_loop_noslash : forall parts stack dir st' dir',
  Forall (fun c => ~ In SL c) stack -> Forall (fun c => ~ In SL c) parts ->
  abs_loop stack dir parts = (st', dir') -> Forall (fun c => ~ In SL c) st'.
Proof.
  induction parts as [|p r IH]; intros stack dir st' dir' Hs Hp H; simpl in H.
  - inversion H; subst. assumption.
  - inversion Hp; subst.
    destruct (is_dotdot p).
    + eapply IH; [| |exact H]; [|assumption]. destruct stack; simpl; [constructor|]. inversion Hs; assumption.
    + destruct (negb (is_dot p)); (eapply IH; [| |exact H]); try assumption.
      constructor; assumption.
Qed.

Lemma split_intercalate_ns : forall l, Forall (fun c => ~ In SL c) l -> l <> [] ->
  split_slash (intercalate l) = l.
Proof.
  induction l as [|a r IH]; intros H Hn; [congruence|].
  inversion H as [|? ? Ha Hr]; subst.
  assert (split_slash a = [a]) as Ea by (apply split_on_id; exact Ha).
  destruct r as [|b r]; [exact Ea|].
  change (intercalate (a :: b :: r)) with (a ++ SL :: intercalate (b :: r)).
  unfold split_slash in *. rewrite split_on_app, Ea, IH by (assumption || discriminate). reflexivity.
Qed.

(* URL.abspath never leaves a '.' or '..' segment *)
Lemma abspath_segments_nodot : forall path, Forall nodot (split_slash (url_abspath path)).
Proof.
  intros path. unfold url_abspath.
  destruct (abs_loop [] false (split_slash (collapse path))) as [stack dir] eqn:E.
  pose proof (abs_loop_nodot _ _ _ _ _ (Forall_nil _) E) as Hd.
  pose proof (abs_loop_noslash _ _ _ _ _ (Forall_nil _) (split_on_nodelim SL (collapse path)) E) as Hs.
  apply Forall_rev in Hd. apply Forall_rev in Hs.
  unfold str in *. remember (rev stack) as parts eqn:Eparts. clear Eparts E.
  assert (nodot []) as N0 by (split; reflexivity).
  destruct dir.
  - destruct parts as [|a r].
    + simpl. constructor; [exact N0|]. constructor; [exact N0|constructor].
    + rewrite intercalate_app by discriminate.
      change (intercalate [[SL]]) with [SL].
      unfold split_slash. rewrite split_on_app. fold split_slash.
      rewrite (split_intercalate_ns (a :: r) Hs) by discriminate.
      apply Forall_app. split; [assumption|]. simpl. constructor; [exact N0|]. constructor; [exact N0|constructor].
  - rewrite app_nil_r. destruct parts as [|a r].
    + simpl. constructor; [exact N0|constructor].
    + rewrite (split_intercalate_ns (a :: r) Hs) by discriminate. assumption.
Qed.

Section Composition.
  Variables quote unquote : str -> str.
  Variable parse_target : str -> option str.
  Variables fexists isfile isdir : str -> bool.
  Variable unq : str -> str.

  Lemma frontend_dispatch : forall path p,
    frontend quote unquote path = FeDispatch p ->
    p = path /\ is_ascii path = true /\ canonical quote unquote path = true.
  Proof.
    intros path p H. unfold frontend in H.
    destruct (is_ascii path); simpl in H; [|discriminate].
    destruct (canonical quote unquote path); [|discriminate].
    inversion H. auto.
  Qed.

  Lemma canonical_spec : forall path, canonical quote unquote path = true ->
    path = sanitized quote unquote path \/ quote path = sanitized quote unquote path.
  Proof.
    intros path H. unfold canonical in H. apply orb_true_iff in H as [H|H]; apply str_eqb_eq in H; auto.
  Qed.

  (* containment for the composition *)
  Theorem http_static_contained : forall mount d defaults dirlisting path loc,
    starts_slash d = true -> Forall plain defaults ->
    served (http_static quote unquote fexists isfile isdir unq mount d defaults dirlisting path) = Some loc ->
    (is_ascii path = true /\
     (path = sanitized quote unquote path \/ quote path = sanitized quote unquote path)) /\
    contained d loc.
  Proof.
    intros mount d defaults dirlisting path loc Hd Hdf H. unfold http_static in H.
    destruct (frontend quote unquote path) as [p| |] eqn:E; try discriminate.
    destruct (frontend_dispatch _ _ E) as (-> & Ha & Hc).
    split; [split; [assumption|apply canonical_spec; assumption]|].
    eapply static_contained; eassumption.
  Qed.

  (* a request that is redirected or rejected is answered without consulting the file system at all *)
  Theorem http_static_redirect_no_access : forall mount d defaults dirlisting path,
    (forall p, frontend quote unquote path <> FeDispatch p) ->
    forall fe' ff' fd' unq',
    http_static quote unquote fe' ff' fd' unq' mount d defaults dirlisting path = Pass.
  Proof.
    intros mount d defaults dirlisting path H fe' ff' fd' unq'. unfold http_static.
    destruct (frontend quote unquote path) as [p| |]; [exfalso; apply (H p); reflexivity| |]; reflexivity.
  Qed.

  Theorem http_static_target_contained : forall mount d defaults dirlisting target loc,
    starts_slash d = true -> Forall plain defaults ->
    served (http_static_target quote unquote parse_target fexists isfile isdir unq
                               mount d defaults dirlisting target) = Some loc ->
    (exists path, parse_target target = Some path /\
       frontend quote unquote path = FeDispatch path /\ is_ascii path = true /\
       (path = sanitized quote unquote path \/ quote path = sanitized quote unquote path)) /\
    contained d loc.
  Proof.
    intros mount d defaults dirlisting target loc Hd Hdf H. unfold http_static_target in H.
    destruct (parse_target target) as [path|] eqn:Ep; [|discriminate].
    destruct (http_static_contained _ _ _ _ _ _ Hd Hdf H) as [[Ha Hc] Hl].
    split; [|assumption]. exists path. split; [reflexivity|].
    split; [|split; assumption].
    unfold http_static in H. destruct (frontend quote unquote path) as [p| |] eqn:E; try discriminate.
    destruct (frontend_dispatch _ _ E) as (-> & _). reflexivity.
  Qed.

  (* what "canonical" buys when re-encoding does not change the normalised path (no escapes to redo):
     a path dispatched because it equals its sanitised form has no '.' or '..' segment *)
  Theorem canonical_no_dot_segments : forall path,
    let a := url_abspath (split_params (SL :: path)) in
    quote (unquote a) = a -> path = sanitized quote unquote path ->
    Forall nodot (split_slash path).
  Proof.
    intros path a Hq Hp. unfold sanitized in Hp. fold a in Hp. rewrite Hq in Hp. rewrite Hp.
    apply abspath_segments_nodot.
  Qed.
End Composition.
