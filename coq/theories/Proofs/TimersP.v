(* Proofs for the timer model (C09): every run of the model is accepted by the specification monitor (the
   specification state computed from the history equals the abstraction of the concrete timer table), and the
   consequences of acceptance: never early, due timers fire, sleep bound, one-shot once, silence after
   unregistration, persistent gap, reset. *)
From Coq Require Import List ZArith Bool Lia ZifyBool Arith.
From Circ Require Import Model.Timers.
Import ListNotations.
Open Scope Z_scope.

Lemma floorsec_le : forall d, floorsec d <= d < floorsec d + UNIT.
Proof.
  intros d. unfold floorsec, UNIT.
  pose proof (Z.div_mod d 1024 ltac:(lia)). pose proof (Z.mod_pos_bound d 1024 ltac:(lia)). lia.
Qed.

(* ------------------------------------------------------------------ lists *)

Lemma upd_length : forall A (l : list A) i f, length (upd l i f) = length l.
Proof. induction l; destruct i; simpl; intros; auto. Qed.

Lemma map_upd : forall A B (g : A -> B) (f : A -> A) (f' : B -> B) (l : list A) i,
  (forall x, g (f x) = f' (g x)) -> map g (upd l i f) = upd (map g l) i f'.
Proof. induction l; destruct i; simpl; intros; auto; f_equal; auto. Qed.

Lemma map_upd_same : forall A B (g : A -> B) (f : A -> A) (l : list A) i,
  (forall x, g (f x) = g x) -> map g (upd l i f) = map g l.
Proof. induction l; destruct i; simpl; intros; auto; f_equal; auto. Qed.

Lemma upd_id : forall A (l : list A) i f x, nth_error l i = Some x -> f x = x -> upd l i f = l.
Proof.
  induction l; destruct i; simpl; intros; try discriminate; auto.
  - inversion H; subst. rewrite H0. auto.
  - f_equal. eauto.
Qed.

Lemma nth_error_upd_same : forall A (l : list A) i f x,
  nth_error l i = Some x -> nth_error (upd l i f) i = Some (f x).
Proof. induction l; destruct i; simpl; intros; try discriminate; auto. inversion H; auto. Qed.

Lemma nth_error_upd_other : forall A (l : list A) i j f, i <> j -> nth_error (upd l i f) j = nth_error l j.
Proof. induction l; destruct i; destruct j; simpl; intros; auto; try congruence. Qed.

Lemma nth_error_upd : forall A (l : list A) i j f,
  nth_error (upd l i f) j = if Nat.eqb i j then option_map f (nth_error l j) else nth_error l j.
Proof.
  intros. destruct (Nat.eqb i j) eqn:E.
  - apply Nat.eqb_eq in E. subst. destruct (nth_error l j) eqn:N.
    + simpl. eapply nth_error_upd_same; eauto.
    + simpl. apply nth_error_None. rewrite upd_length. apply nth_error_None. auto.
  - apply Nat.eqb_neq in E. apply nth_error_upd_other; auto.
Qed.

Lemma memb_In : forall x l, memb x l = true <-> In x l.
Proof.
  intros. unfold memb. rewrite existsb_exists. split.
  - intros [y [H1 H2]]. apply Nat.eqb_eq in H2. subst. auto.
  - intros. exists x. split; auto. apply Nat.eqb_refl.
Qed.

Lemma nodupb_NoDup : forall l, nodupb l = true -> NoDup l.
Proof.
  induction l; simpl; intros. constructor.
  apply andb_true_iff in H. destruct H. constructor; auto.
  intro. apply memb_In in H1. rewrite H1 in H. discriminate.
Qed.

Lemma NoDup_nodupb : forall l, NoDup l -> nodupb l = true.
Proof.
  induction 1; simpl; auto. apply andb_true_iff. split; auto.
  destruct (memb x l) eqn:E; auto. apply memb_In in E. contradiction.
Qed.

(* ------------------------------------------------------------------ the monitor *)

Lemma mon_run_app : forall num den a b ms,
  mon_run num den ms (a ++ b) =
  match mon_run num den ms a with Some m => mon_run num den m b | None => None end.
Proof.
  induction a; simpl; intros; auto. destruct (mon_step num den ms a); auto.
Qed.

Lemma mon_run_single : forall num den ms r, mon_run num den ms [r] = mon_step num den ms r.
Proof. intros. simpl. destruct (mon_step num den ms r); auto. Qed.

(* refinement relation: the history is accepted and leads to the abstraction of the timer table *)
Definition R (num den : Z) (s : st) : Prop :=
  mon_run num den [] (history s) = Some (map abs (timers s)).

Lemma R_nolog : forall num den s s', timers s' = timers s -> rlog s' = rlog s -> R num den s -> R num den s'.
Proof. unfold R, history. intros. rewrite H, H0. auto. Qed.

Lemma R_log : forall num den s s' r, R num den s -> rlog s' = r :: rlog s ->
  mon_step num den (map abs (timers s)) r = Some (map abs (timers s')) -> R num den s'.
Proof.
  unfold R, history. intros. rewrite H0. simpl. rewrite mon_run_app, H. simpl. rewrite H1. auto.
Qed.

Lemma abs_set_pend : forall x, abs (t_set_pend x) = s_kill (abs x).
Proof. intros. unfold abs, t_set_pend, s_kill. simpl. rewrite andb_false_r. auto. Qed.

Lemma abs_removed : forall x, abs (t_removed x) = abs x.
Proof.
  intros. unfold t_removed. destruct (t_pend x) eqn:E; auto.
  unfold abs. simpl. rewrite E. simpl. rewrite andb_false_r. auto.
Qed.

Lemma abs_rereg : forall x, abs (t_rereg x) = s_revive (abs x).
Proof. intros. reflexivity. Qed.

Lemma abs_reset : forall nw niv x, abs (t_reset nw niv x) = s_rearm nw niv (abs x).
Proof. intros. unfold abs, t_reset, s_rearm. simpl. f_equal. destruct niv; lia. Qed.

Lemma unregister_abs : forall s i tm, nth_error (timers s) i = Some tm ->
  map abs (timers (unregister s i)) = upd (map abs (timers s)) i s_kill.
Proof.
  intros. unfold unregister. rewrite H.
  destruct (t_reg tm && negb (t_pend tm)) eqn:E.
  - simpl. apply map_upd. apply abs_set_pend.
  - symmetry. eapply upd_id. rewrite nth_error_map, H. simpl. reflexivity.
    unfold s_kill, abs. simpl. rewrite E. auto.
Qed.

Lemma unregister_rlog : forall s i, rlog (unregister s i) = rlog s.
Proof. intros. unfold unregister. destruct (nth_error (timers s) i); auto. destruct (_ && _); auto. Qed.
Lemma unregister_now : forall s i, now (unregister s i) = now s.
Proof. intros. unfold unregister. destruct (nth_error (timers s) i); auto. destruct (_ && _); auto. Qed.

Lemma create_R : forall num den s iv p dl, R num den s ->
  match dl with Some d => now s + iv = floorsec d | None => True end -> R num den (create s iv p dl).
Proof.
  intros. eapply R_log; eauto. reflexivity. simpl.
  assert (E : match dl with Some d => now s + iv =? floorsec d | None => true end = true).
  { destruct dl; auto. lia. }
  rewrite E. f_equal. rewrite map_app. simpl. f_equal. unfold abs. simpl. f_equal. f_equal. lia.
Qed.

Lemma do_op_R : forall num den o s, R num den s -> R num den (do_op s o).
Proof.
  intros num den o s H. destruct o; simpl.
  - apply create_R; auto.
  - apply create_R; auto. lia.
  - destruct (nth_error (timers s) i) eqn:E; auto.
    eapply R_log; eauto. reflexivity. simpl. rewrite nth_error_map, E. simpl. f_equal.
    symmetry. apply map_upd. apply abs_reset.
  - destruct (nth_error (timers s) i) eqn:E; auto.
    eapply R_log; eauto. reflexivity. simpl. rewrite nth_error_map, E. simpl. f_equal.
    symmetry. apply map_upd. apply abs_reset.
  - destruct (nth_error (timers s) i) eqn:E; auto.
    eapply R_log; eauto. simpl. rewrite unregister_rlog. reflexivity.
    simpl. rewrite nth_error_map, E. simpl. f_equal. symmetry. eapply unregister_abs; eauto.
  - eapply R_nolog; eauto.
  - eapply R_nolog; eauto.
  - destruct (nth_error (timers s) i) eqn:E; auto.
    destruct (negb (t_reg t) && negb (t_pend t)); auto.
    eapply R_log; eauto. reflexivity. simpl. rewrite nth_error_map, E. simpl. f_equal.
    symmetry. apply map_upd. apply abs_rereg.
Qed.

Lemma do_ops_R : forall num den l s, R num den s -> R num den (do_ops s l).
Proof. unfold do_ops. induction l; simpl; intros; auto. apply IHl. apply do_op_R; auto. Qed.

(* ------------------------------------------------------------------ generate_events *)

Lemma map_upd_at : forall A B (g : A -> B) (f : A -> A) (f' : B -> B) (l : list A) i x,
  nth_error l i = Some x -> g (f x) = f' (g x) -> map g (upd l i f) = upd (map g l) i f'.
Proof.
  induction l; destruct i; simpl; intros; try discriminate.
  - inversion H; subst. rewrite H0. auto.
  - f_equal. eauto.
Qed.

Lemma upd_none : forall A (l : list A) i f, nth_error l i = None -> upd l i f = l.
Proof. induction l; destruct i; simpl; intros; try discriminate; auto. f_equal; auto. Qed.

Lemma upd_ext_at : forall A (l : list A) i f g x,
  nth_error l i = Some x -> f x = g x -> upd l i f = upd l i g.
Proof.
  induction l; destruct i; simpl; intros; try discriminate; auto.
  - inversion H; subst. rewrite H0; auto.
  - f_equal; eauto.
Qed.

Lemma is_due_abs : forall nw tm, is_due nw tm = s_alive (abs tm) && (s_exp (abs tm) <=? nw).
Proof.
  intros. unfold is_due, abs, s_exp. simpl.
  replace (t_exp tm - t_int tm + t_int tm) with (t_exp tm) by lia. auto.
Qed.

Lemma due_from_abs : forall nw l k, due_from nw k l = sdue_from nw k (map abs l).
Proof. induction l; simpl; intros; auto. rewrite is_due_abs. rewrite !IHl. auto. Qed.

Lemma sdue_from_In : forall t ms k i, In i (sdue_from t k ms) <->
  exists j x, i = (k + j)%nat /\ nth_error ms j = Some x /\ s_alive x && (s_exp x <=? t) = true.
Proof.
  induction ms; simpl; intros.
  - split; [tauto|]. intros [j [x [_ [H _]]]]. destruct j; discriminate.
  - destruct (s_alive a && (s_exp a <=? t)) eqn:E.
    + simpl. rewrite IHms. split.
      * intros [H | [j [x [H1 [H2 H3]]]]].
        -- exists O, a. subst. simpl. repeat split; auto.
        -- exists (S j), x. simpl. repeat split; auto. lia.
      * intros [j [x [H1 [H2 H3]]]]. destruct j.
        -- left. lia.
        -- right. exists j, x. simpl in H2. repeat split; auto. lia.
    + rewrite IHms. split.
      * intros [j [x [H1 [H2 H3]]]]. exists (S j), x. simpl. repeat split; auto. lia.
      * intros [j [x [H1 [H2 H3]]]]. destruct j.
        -- simpl in H2. inversion H2; subst. congruence.
        -- exists j, x. simpl in H2. repeat split; auto. lia.
Qed.

Lemma sdue_from_NoDup : forall t ms k, NoDup (sdue_from t k ms).
Proof.
  induction ms; simpl; intros. constructor.
  destruct (s_alive a && (s_exp a <=? t)); auto.
  constructor; auto. intro H. apply sdue_from_In in H. destruct H as [j [x [H _]]]. lia.
Qed.

Lemma sdue_fire_ok : forall t ms i, In i (sdue_from t 0 ms) <-> fire_ok ms t i = true.
Proof.
  intros. rewrite sdue_from_In. unfold fire_ok. split.
  - intros [j [x [H1 [H2 H3]]]]. simpl in H1. subst. rewrite H2. auto.
  - intros. destruct (nth_error ms i) eqn:E; try discriminate. exists i, s. auto.
Qed.

Lemma reorder_spec : forall sch due due' sch', reorder sch due = (due', sch') -> NoDup due ->
  (forall x, In x due' <-> In x due) /\ nodupb due' = true.
Proof.
  unfold reorder. intros sch due due' sch' H ND.
  destruct (forallb (fun x => memb x (firstn (length due) sch)) due &&
            forallb (fun x => memb x due) (firstn (length due) sch) &&
            nodupb (firstn (length due) sch)) eqn:E; inversion H; subst; clear H.
  - apply andb_true_iff in E. destruct E as [E E3]. apply andb_true_iff in E. destruct E as [E1 E2].
    split; auto. intros x. rewrite forallb_forall in E1, E2. split; intros.
    + apply memb_In. auto.
    + apply memb_In. auto.
  - split. tauto. apply NoDup_nodupb; auto.
Qed.

Lemma fire_timer_abs : forall s i,
  map abs (timers (fire_timer s i)) = upd (map abs (timers s)) i (s_fired (now s))
  /\ rlog (fire_timer s i) = rlog s /\ now (fire_timer s i) = now s.
Proof.
  intros. unfold fire_timer. destruct (nth_error (timers s) i) eqn:E.
  - destruct (t_persist t) eqn:P.
    + simpl. repeat split; auto. eapply map_upd_at; eauto.
      rewrite abs_reset. unfold s_fired. simpl. rewrite P. auto.
    + rewrite unregister_rlog, unregister_now. simpl. repeat split; auto.
      erewrite unregister_abs by (simpl; eauto). simpl.
      eapply upd_ext_at. rewrite nth_error_map, E. simpl. reflexivity.
      unfold s_fired. simpl. rewrite P. auto.
  - repeat split; auto. symmetry. apply upd_none. rewrite nth_error_map, E. auto.
Qed.

Lemma fire_fold_abs : forall l s,
  map abs (timers (fold_left fire_timer l s)) =
    fold_left (fun m i => upd m i (s_fired (now s))) l (map abs (timers s))
  /\ rlog (fold_left fire_timer l s) = rlog s /\ now (fold_left fire_timer l s) = now s.
Proof.
  induction l; simpl; intros; auto.
  destruct (fire_timer_abs s a) as [H1 [H2 H3]].
  destruct (IHl (fire_timer s a)) as [I1 [I2 I3]].
  rewrite I1, I2, I3, H1, H2, H3. auto.
Qed.

Definition tl_le (num den : Z) (c : tlv) (v : Z) : Prop :=
  match c with Fin d => d <= v | Tmo => num <= v * den | Inf => False end.

Lemma reduce_le : forall num den c v, 0 <= v -> tl_le num den (reduce num den c v) v.
Proof.
  intros. unfold reduce. destruct (v <? 0) eqn:E; [lia|].
  destruct c; simpl; try lia.
  - destruct (v <? d) eqn:E1; simpl; lia.
  - destruct (v * den <? num) eqn:E1; simpl; lia.
Qed.

Lemma reduce_mono : forall num den c v w, 0 < den -> tl_le num den c w -> tl_le num den (reduce num den c v) w.
Proof.
  intros. unfold reduce. destruct (v <? 0) eqn:E; auto.
  destruct c; simpl in *; try tauto.
  - destruct (v <? d) eqn:E1; simpl; lia.
  - destruct (v * den <? num) eqn:E1; simpl; auto. nia.
Qed.

Lemma reduce_all_mono : forall num den nw l c w, 0 < den ->
  tl_le num den c w -> tl_le num den (reduce_all num den nw l c) w.
Proof.
  unfold reduce_all. induction l; simpl; intros; auto.
  apply IHl; auto. destruct (t_reg a && (nw <? t_exp a)); auto. apply reduce_mono; auto.
Qed.

Lemma reduce_all_le : forall num den nw l c tm, 0 < den -> In tm l -> t_reg tm = true -> nw < t_exp tm ->
  tl_le num den (reduce_all num den nw l c) (t_exp tm - nw).
Proof.
  unfold reduce_all. induction l; simpl; intros. tauto.
  destruct H0.
  - subst. assert (E : t_reg tm && (nw <? t_exp tm) = true) by lia. rewrite E.
    apply (reduce_all_mono num den nw l); auto. apply reduce_le. lia.
  - eapply IHl; eauto.
Qed.

Lemma reduce_all_zero : forall num den nw l, reduce_all num den nw l (Fin 0) = Fin 0.
Proof.
  unfold reduce_all. induction l; simpl; auto.
  destruct (t_reg a && (nw <? t_exp a)); auto.
  assert (E : reduce num den (Fin 0) (t_exp a - nw) = Fin 0).
  { unfold reduce. destruct (t_exp a - nw <? 0); auto. }
  rewrite E. auto.
Qed.

Lemma ceil_div_le : forall num den v, 0 < den -> num <= v * den -> ceil_div num den <= v.
Proof.
  intros. unfold ceil_div. assert ((num + den - 1) / den < v + 1); [|lia].
  apply Z.div_lt_upper_bound; auto. nia.
Qed.

Lemma idle_wait_same : forall s d, timers (idle_wait s d) = timers s /\ rlog (idle_wait s d) = rlog s.
Proof.
  intros. unfold idle_wait. destruct (stims s) as [|[[a b] c] r]; destruct d; simpl; auto.
  destruct (a <? now s + z); simpl; auto.
Qed.

(* the sleep bound inside one iteration, for every state *)
Lemma wait_ok_gen : forall num den s w, 0 < den ->
  due_from (now s) 0 (timers s) = [] ->
  (forall tm, In tm (timers s) -> t_reg tm = true -> now s < t_exp tm -> tl_le num den w (t_exp tm - now s)) ->
  wait_ok num den (map abs (timers s)) (now s) w = true.
Proof.
  intros num den s w Hden Hdue Hle. unfold wait_ok. apply forallb_forall. intros x Hx.
  apply in_map_iff in Hx. destruct Hx as [tm [Hx Hin]]. subst x.
  destruct (s_alive (abs tm)) eqn:A; auto. simpl.
  assert (Hnd : now s < t_exp tm).
  { destruct (Z_lt_dec (now s) (t_exp tm)); auto. exfalso.
    apply In_nth_error in Hin. destruct Hin as [j Hj].
    assert (In j (due_from (now s) 0 (timers s))).
    { rewrite due_from_abs. apply sdue_from_In. exists j, (abs tm). split; [reflexivity|]. split.
      rewrite nth_error_map, Hj; auto.
      apply andb_true_iff. split; [exact A|]. unfold abs, s_exp. simpl. lia. }
    rewrite Hdue in H. auto. }
  assert (Hreg : t_reg tm = true). { unfold abs in A. simpl in A. lia. }
  specialize (Hle tm Hin Hreg Hnd). unfold abs, s_exp. simpl.
  destruct w; simpl in *; try tauto.
  - lia.
  - pose proof (ceil_div_le num den (t_exp tm - now s) Hden Hle). lia.
Qed.

Lemma iter_step : forall num den s due w,
  nodupb due = true ->
  (forall x, In x due <-> In x (due_from (now s) 0 (timers s))) ->
  match w with None => True
             | Some w' => due = [] /\ wait_ok num den (map abs (timers s)) (now s) w' = true end ->
  mon_step num den (map abs (timers s)) (LIter (now s) due w) =
  Some (fold_left (fun m i => upd m i (s_fired (now s))) due (map abs (timers s))).
Proof.
  intros num den s due w ND IFF W. unfold mon_step.
  assert (E : nodupb due && forallb (fire_ok (map abs (timers s)) (now s)) due &&
              forallb (fun i => memb i due) (sdue_from (now s) 0 (map abs (timers s))) &&
              match w with
              | None => true
              | Some w' => match due with [] => wait_ok num den (map abs (timers s)) (now s) w' | _ => false end
              end = true).
  { repeat (apply andb_true_iff; split); auto.
    - apply forallb_forall. intros x Hx. apply sdue_fire_ok. rewrite <- due_from_abs. apply IFF. auto.
    - apply forallb_forall. intros x Hx. apply memb_In. apply IFF. rewrite due_from_abs. auto.
    - destruct w; auto. destruct W as [W1 W2]. subst. auto. }
  rewrite E. auto.
Qed.

Lemma do_gen_R : forall p s more, 0 < p_tmo_den p ->
  R (p_tmo_num p) (p_tmo_den p) s -> R (p_tmo_num p) (p_tmo_den p) (do_gen p s more).
Proof.
  intros p s more Hden HR. unfold do_gen.
  set (num := p_tmo_num p) in *. set (den := p_tmo_den p) in *.
  set (tl0 := if more || negb match queue s with [] => true | _ => false end then Fin 0
              else match tasks s with [] => Inf | _ => Tmo end).
  destruct (reorder (sched s) (due_from (now s) 0 (timers s))) as [due sch'] eqn:RE.
  apply reorder_spec in RE; [|rewrite due_from_abs; apply sdue_from_NoDup].
  destruct RE as [IFF ND].
  set (s1 := fold_left fire_timer due (set_sched s sch')).
  destruct (fire_fold_abs due (set_sched s sch')) as [F1 [F2 F3]]. fold s1 in F1, F2, F3. simpl in F1, F2, F3.
  set (tl2 := reduce_all num den (now s) (timers s) match due with [] => tl0 | _ => Fin 0 end).
  assert (FIN : forall s' w, timers s' = timers s1 -> rlog s' = LIter (now s) due w :: rlog s1 ->
           match w with None => True
             | Some w' => due = [] /\ wait_ok num den (map abs (timers s)) (now s) w' = true end ->
           R num den s').
  { intros s' w T L W. eapply R_log; eauto. rewrite L, F2. reflexivity.
    rewrite T, F1. apply iter_step; auto. }
  assert (WOK : due = [] -> tl2 <> Inf /\ wait_ok num den (map abs (timers s)) (now s) tl2 = true
                 \/ (forall tm, In tm (timers s) -> t_reg tm && negb (t_pend tm) = false)).
  { intros D. destruct (forallb (fun tm => negb (t_reg tm && negb (t_pend tm))) (timers s)) eqn:ALL.
    - right. intros tm Hin. rewrite forallb_forall in ALL. specialize (ALL tm Hin). lia.
    - left. assert (DUE : due_from (now s) 0 (timers s) = []).
      { destruct (due_from (now s) 0 (timers s)) eqn:DF; auto. exfalso.
        assert (In n due) by (apply IFF; left; auto). rewrite D in H. auto. }
      assert (LE : forall tm, In tm (timers s) -> t_reg tm = true -> now s < t_exp tm ->
                     tl_le num den tl2 (t_exp tm - now s)).
      { intros. unfold tl2. apply reduce_all_le; auto. }
      split; [|apply wait_ok_gen; auto].
      intro EQ. 
      assert (EX : exists tm, In tm (timers s) /\ t_reg tm && negb (t_pend tm) = true).
      { clear - ALL. induction (timers s); simpl in *; try discriminate.
        destruct (t_reg a && negb (t_pend a)) eqn:E. exists a; auto.
        simpl in ALL. destruct (IHl ALL) as [tm [H1 H2]]. exists tm; auto. }
      destruct EX as [tm [Hin Hal]].
      assert (now s < t_exp tm).
      { destruct (Z_lt_dec (now s) (t_exp tm)); auto. exfalso.
        apply In_nth_error in Hin. destruct Hin as [j Hj].
        assert (In j (due_from (now s) 0 (timers s))).
        { rewrite due_from_abs. apply sdue_from_In. exists j, (abs tm). split; [reflexivity|]. split.
          rewrite nth_error_map, Hj; auto.
          apply andb_true_iff. split. unfold abs; simpl; auto. unfold abs, s_exp. simpl. lia. }
        rewrite DUE in H. auto. }
      specialize (LE tm Hin ltac:(lia) H). rewrite EQ in LE. simpl in LE. auto. }
  assert (WOK2 : due = [] -> forall w, (w = Inf -> tl2 = Inf) -> (w <> Inf -> w = tl2) ->
                  wait_ok num den (map abs (timers s)) (now s) w = true).
  { intros D w HI HN. destruct (WOK D) as [[H1 H2] | H].
    - destruct w.
      + exfalso. apply H1. apply HI. reflexivity.
      + rewrite HN; auto; try discriminate.
      + rewrite HN; auto; try discriminate.
    - unfold wait_ok. apply forallb_forall. intros x Hx. apply in_map_iff in Hx.
      destruct Hx as [tm [Hx Hin]]. subst. unfold abs at 1. simpl. rewrite (H tm Hin). auto. }
  fold tl2. destruct tl2 as [|d|] eqn:TL.
  - destruct (idle_wait_same (add_log s1 (LIter (now s) due (Some Inf))) None) as [I1 I2].
    apply FIN with (w := Some Inf); [rewrite I1; reflexivity | rewrite I2; reflexivity | ].
    destruct due as [|x due'].
    + split; auto; apply WOK2; auto; congruence.
    + exfalso. unfold tl2 in TL. rewrite reduce_all_zero in TL. discriminate.
  - destruct (d <=? 0) eqn:D0.
    + apply FIN with (w := None); auto.
    + destruct (idle_wait_same (add_log s1 (LIter (now s) due (Some (Fin d)))) (Some d)) as [I1 I2].
      apply FIN with (w := Some (Fin d)); [rewrite I1; reflexivity | rewrite I2; reflexivity | ].
      destruct due as [|x due'].
      * split; auto; apply WOK2; auto; congruence.
      * exfalso. unfold tl2 in TL. rewrite reduce_all_zero in TL. inversion TL. lia.
  - destruct (idle_wait_same (add_log s1 (LIter (now s) due (Some Tmo))) (Some (ceil_div num den))) as [I1 I2].
    apply FIN with (w := Some Tmo); [rewrite I1; reflexivity | rewrite I2; reflexivity | ].
    destruct due as [|x due'].
    + split; auto; apply WOK2; auto; congruence.
    + exfalso. unfold tl2 in TL. rewrite reduce_all_zero in TL. discriminate.
Qed.

(* ------------------------------------------------------------------ dispatch, tasks, tick, run *)

Section Run.
Variable p : prog.
Hypothesis Hden : 0 < p_tmo_den p.
Let RR := R (p_tmo_num p) (p_tmo_den p).

Lemma dispatch_R : forall s e more, RR s -> RR (dispatch p s e more).
Proof.
  intros s e more H. destruct e; simpl.
  - apply do_gen_R; auto.
  - apply do_ops_R. eapply R_log; eauto; reflexivity.
  - apply do_ops_R; auto.
  - eapply R_nolog; eauto.
  - auto.
  - eapply R_nolog; eauto.
  - unfold RR, R, history in *. simpl. rewrite map_upd_same; auto. apply abs_removed.
Qed.

Lemma flush_R : forall batch s, RR s -> RR (flush p s batch).
Proof. induction batch; simpl; intros; auto. apply IHbatch. apply dispatch_R; auto. Qed.

Lemma run_steps_R : forall l s id, RR s -> RR (fst (run_steps s l id)).
Proof.
  induction l; simpl; intros; auto. destruct a; simpl; auto. apply IHl. apply do_ops_R; auto.
Qed.

Lemma step_task_R : forall s k, RR s -> RR (fst (step_task s k)).
Proof.
  intros. unfold step_task. destruct (k_sleep k).
  - destruct (z <=? now s); auto.
  - apply run_steps_R; auto.
Qed.

Lemma step_tasks_R : forall l s acc, RR s -> RR (fst (step_tasks s l acc)).
Proof.
  induction l; simpl; intros; auto.
  pose proof (step_task_R s a H). destruct (step_task s a) as [s1 k1]. apply IHl. auto.
Qed.

Lemma deliver_R : forall s x, RR s -> RR (deliver s x).
Proof. intros s [[a b] c] H. unfold deliver. eapply R_nolog; eauto. Qed.

Lemma deliver_due_R : forall l s, RR s -> RR (deliver_due s l).
Proof.
  induction l; simpl; intros.
  - eapply R_nolog; eauto.
  - destruct (fst (fst a) <=? now s).
    + apply IHl. apply deliver_R; auto.
    + eapply R_nolog; eauto.
Qed.

Lemma tick_R : forall s, RR s -> RR (tick p s).
Proof.
  intros. unfold tick.
  pose proof (deliver_due_R (stims s) s H) as H0.
  set (s0 := deliver_due s (stims s)) in *.
  destruct (reorder (tsched s0) (map k_id (tasks s0))) as [ord tsch'].
  assert (H1 : RR (set_tsched (set_tasks s0 []) tsch')) by (eapply R_nolog; eauto).
  pose proof (step_tasks_R (pick_tasks (tasks s0) ord) _ [] H1) as H2.
  destruct (step_tasks (set_tsched (set_tasks s0 []) tsch') (pick_tasks (tasks s0) ord) []) as [s1 alive]. simpl in H2.
  apply flush_R. eapply R_nolog; eauto.
Qed.

Lemma run_R : forall n s, RR s -> RR (fst (run p s n)).
Proof.
  induction n; simpl; intros; auto.
  destruct (halted s); auto.
  pose proof (IHn (tick p s) (tick_R s H)). destruct (run p (tick p s) n). auto.
Qed.

Lemma init_R : forall t0 sts sch tsch, RR (init t0 sts sch tsch).
Proof. intros. reflexivity. Qed.

(* every run of the loop is accepted by the specification, and the specification's view after the run is the
   abstraction of the timers' fields *)
Theorem run_conforms : forall t0 sts sch tsch n,
  let s := fst (run p (init t0 sts sch tsch) n) in
  spec_after p (history s) = Some (map abs (timers s)).
Proof. intros. apply run_R. apply init_R. Qed.

End Run.

(* ------------------------------------------------------------------ what acceptance means *)

Definition touches (i : nat) (r : lrec) : bool :=
  match r with
  | LReset j _ _ => Nat.eqb i j
  | LUnreq j _ => Nat.eqb i j
  | LRereg j _ => Nat.eqb i j
  | LIter _ fired _ => memb i fired
  | _ => false
  end.

Definition is_rereg (i : nat) (r : lrec) : bool :=
  match r with LRereg j _ => Nat.eqb i j | _ => false end.

Section Mon.
Variables num den : Z.

Lemma accepted_split : forall pre r post ms0 m,
  mon_run num den ms0 (pre ++ r :: post) = Some m ->
  exists ms ms', mon_run num den ms0 pre = Some ms /\ mon_step num den ms r = Some ms' /\
                 mon_run num den ms' post = Some m.
Proof.
  intros. rewrite mon_run_app in H. destruct (mon_run num den ms0 pre) eqn:E; try discriminate.
  simpl in H. destruct (mon_step num den l r) eqn:E2; try discriminate. eauto.
Qed.

Lemma iter_inv : forall ms t fired w ms', mon_step num den ms (LIter t fired w) = Some ms' ->
  NoDup fired /\ (forall i, In i fired <-> fire_ok ms t i = true) /\
  match w with None => True | Some w' => fired = [] /\ wait_ok num den ms t w' = true end /\
  ms' = fold_left (fun m i => upd m i (s_fired t)) fired ms.
Proof.
  intros. simpl in H.
  destruct (nodupb fired) eqn:E1; simpl in H; try discriminate.
  destruct (forallb (fire_ok ms t) fired) eqn:E2; simpl in H; try discriminate.
  destruct (forallb (fun i => memb i fired) (sdue_from t 0 ms)) eqn:E3; simpl in H; try discriminate.
  destruct (match w with None => true | Some w' => match fired with [] => wait_ok num den ms t w' | _ => false end end) eqn:E4;
    try discriminate.
  inversion H; subst. repeat split; auto.
  - apply nodupb_NoDup; auto.
  - intros. rewrite forallb_forall in E2. auto.
  - intros. rewrite forallb_forall in E3. apply sdue_fire_ok in H0. apply memb_In. auto.
  - destruct w; auto. destruct fired; try discriminate. auto.
Qed.

Lemma fold_fired_notin : forall t fired ms i, ~ In i fired ->
  nth_error (fold_left (fun m j => upd m j (s_fired t)) fired ms) i = nth_error ms i.
Proof.
  induction fired; simpl; intros; auto.
  rewrite IHfired by tauto. apply nth_error_upd_other. intro; subst; tauto.
Qed.

Lemma fold_fired_in : forall t fired ms i x, NoDup fired -> In i fired -> nth_error ms i = Some x ->
  nth_error (fold_left (fun m j => upd m j (s_fired t)) fired ms) i = Some (s_fired t x).
Proof.
  induction fired; simpl; intros. tauto.
  inversion H; subst. destruct H0.
  - subst. rewrite fold_fired_notin; auto. apply nth_error_upd_same; auto.
  - eapply IHfired; eauto. rewrite nth_error_upd_other; auto. intro; subst; tauto.
Qed.

Lemma nth_error_app_some : forall A (l l' : list A) i x, nth_error l i = Some x -> nth_error (l ++ l') i = Some x.
Proof. intros. rewrite nth_error_app1; auto. apply nth_error_Some. congruence. Qed.

Lemma step_untouched : forall ms r ms' i x, mon_step num den ms r = Some ms' -> touches i r = false ->
  nth_error ms i = Some x -> nth_error ms' i = Some x.
Proof.
  intros ms r ms' i x H T N. destruct r.
  - simpl in H. destruct (match dl with Some d => t + iv =? floorsec d | None => true end); inversion H.
    apply nth_error_app_some; auto.
  - simpl in *. destruct (nth_error ms i0); inversion H. rewrite nth_error_upd_other; auto.
    apply Nat.eqb_neq in T. auto.
  - simpl in *. destruct (nth_error ms i0); inversion H. rewrite nth_error_upd_other; auto.
    apply Nat.eqb_neq in T. auto.
  - apply iter_inv in H. destruct H as [_ [_ [_ H]]]. subst. rewrite fold_fired_notin; auto.
    simpl in T. intro. apply memb_In in H. congruence.
  - simpl in H. inversion H; subst; auto.
  - simpl in *. destruct (nth_error ms i0); inversion H. rewrite nth_error_upd_other; auto.
    apply Nat.eqb_neq in T. auto.
Qed.

Lemma run_untouched : forall l ms ms' i x, mon_run num den ms l = Some ms' ->
  (forall r, In r l -> touches i r = false) -> nth_error ms i = Some x -> nth_error ms' i = Some x.
Proof.
  induction l; simpl; intros. inversion H; subst; auto.
  destruct (mon_step num den ms a) eqn:E; try discriminate.
  eapply IHl; eauto. eapply step_untouched; eauto.
Qed.

(* a timer the specification considers dead stays dead and silent until it is registered again *)
Lemma step_dead : forall ms r ms' i x, mon_step num den ms r = Some ms' ->
  nth_error ms i = Some x -> s_alive x = false -> is_rereg i r = false ->
  (exists x', nth_error ms' i = Some x' /\ s_alive x' = false) /\
  (forall t fired w, r = LIter t fired w -> ~ In i fired).
Proof.
  intros ms r ms' i x H N A RR.
  assert (NF : forall t fired w, r = LIter t fired w -> ~ In i fired).
  { intros; subst. apply iter_inv in H. destruct H as [_ [H _]]. intro I. apply H in I.
    unfold fire_ok in I. rewrite N, A in I. discriminate. }
  split; auto. destruct (touches i r) eqn:T.
  - destruct r; simpl in T; try discriminate.
    + apply Nat.eqb_eq in T. subst i0. simpl in H. rewrite N in H. inversion H.
      exists (s_rearm t niv x). split. apply nth_error_upd_same; auto. auto.
    + apply Nat.eqb_eq in T. subst i0. simpl in H. rewrite N in H. inversion H.
      exists (s_kill x). split. apply nth_error_upd_same; auto. auto.
    + apply memb_In in T. exfalso. eapply NF; eauto.
    + simpl in RR. congruence.
  - exists x. split; auto. eapply step_untouched; eauto.
Qed.

Lemma run_dead_state : forall l ms ms' i x, mon_run num den ms l = Some ms' ->
  nth_error ms i = Some x -> s_alive x = false -> (forall r, In r l -> is_rereg i r = false) ->
  exists x', nth_error ms' i = Some x' /\ s_alive x' = false.
Proof.
  induction l; simpl; intros. inversion H; subst; eauto.
  destruct (mon_step num den ms a) eqn:E; try discriminate.
  destruct (step_dead _ _ _ _ _ E H0 H1 (H2 a (or_introl eq_refl))) as [[x' [N' A']] _].
  eapply IHl; eauto.
Qed.

Lemma run_dead : forall mid ms i x t fired w post m, 
  mon_run num den ms (mid ++ LIter t fired w :: post) = Some m ->
  nth_error ms i = Some x -> s_alive x = false -> (forall r, In r mid -> is_rereg i r = false) ->
  ~ In i fired.
Proof.
  intros. apply accepted_split in H. destruct H as [ma [mb [A [B C]]]].
  destruct (run_dead_state _ _ _ _ _ A H0 H1 H2) as [x' [N' A']].
  eapply (step_dead _ _ _ _ _ B N' A'); eauto.
Qed.

End Mon.

Section Consequences.
Variable p : prog.
Hypothesis Hden : 0 < p_tmo_den p.
Variables (t0 : Z) (sts : list (Z * bool * nat)) (sch tsch : list nat) (n : nat).
Let h := history (fst (run p (init t0 sts sch tsch) n)).

Lemma h_accepted : exists m, spec_after p h = Some m.
Proof. eexists. apply run_conforms; auto. Qed.

Lemma h_split : forall pre r post, h = pre ++ r :: post ->
  exists ms ms' m, spec_after p pre = Some ms /\ mon_step (p_tmo_num p) (p_tmo_den p) ms r = Some ms' /\
                   mon_run (p_tmo_num p) (p_tmo_den p) ms' post = Some m.
Proof.
  intros. destruct h_accepted as [m Hm]. rewrite H in Hm.
  apply accepted_split in Hm. destruct Hm as [ms [ms' [A [B C]]]]. exists ms, ms', m. auto.
Qed.

Lemma not_early : forall pre t fired w post i, h = pre ++ LIter t fired w :: post -> In i fired ->
  exists ms x, spec_after p pre = Some ms /\ nth_error ms i = Some x /\
               s_alive x = true /\ s_t0 x + s_iv x <= t.
Proof.
  intros. apply h_split in H. destruct H as [ms [ms' [m [A [B C]]]]].
  apply iter_inv in B. destruct B as [_ [B _]]. apply B in H0. unfold fire_ok in H0.
  destruct (nth_error ms i) eqn:E; try discriminate. exists ms, s. unfold s_exp in H0. repeat split; auto; lia.
Qed.

Lemma fired_nodup : forall pre t fired w post, h = pre ++ LIter t fired w :: post -> NoDup fired.
Proof.
  intros. apply h_split in H. destruct H as [ms [ms' [m [A [B C]]]]].
  apply iter_inv in B. tauto.
Qed.

Lemma due_fires : forall pre t fired w post ms i x, h = pre ++ LIter t fired w :: post ->
  spec_after p pre = Some ms -> nth_error ms i = Some x -> s_alive x = true -> s_t0 x + s_iv x <= t ->
  In i fired.
Proof.
  intros. apply h_split in H. destruct H as [ms1 [ms' [m [A [B C]]]]].
  rewrite H0 in A. inversion A; subst ms1.
  apply iter_inv in B. destruct B as [_ [B _]]. apply B. unfold fire_ok, s_exp. rewrite H1, H2. simpl. lia.
Qed.

Lemma sleep_bound : forall pre t fired w post, h = pre ++ LIter t fired (Some w) :: post ->
  fired = [] /\
  forall ms i x, spec_after p pre = Some ms -> nth_error ms i = Some x -> s_alive x = true ->
    exists d, dur (p_tmo_num p) (p_tmo_den p) w = Some d /\ t + d <= s_t0 x + s_iv x.
Proof.
  intros. apply h_split in H. destruct H as [ms1 [ms' [m [A [B C]]]]].
  apply iter_inv in B. destruct B as [_ [_ [[B1 B2] _]]]. split; auto.
  intros. rewrite H in A. inversion A; subst ms1. unfold wait_ok in B2. rewrite forallb_forall in B2.
  apply nth_error_In in H0. specialize (B2 x H0). rewrite H1 in B2. simpl in B2.
  destruct (dur (p_tmo_num p) (p_tmo_den p) w); try discriminate. exists z. unfold s_exp in B2. split; auto. lia.
Qed.

Lemma oneshot_once : forall pre t fired w mid t' fired' w' post ms i x,
  h = pre ++ LIter t fired w :: mid ++ LIter t' fired' w' :: post ->
  In i fired -> spec_after p pre = Some ms -> nth_error ms i = Some x -> s_p x = false ->
  (forall r, In r mid -> is_rereg i r = false) -> ~ In i fired'.
Proof.
  intros. apply h_split in H. destruct H as [ms1 [ms' [m [A [B C]]]]].
  rewrite H1 in A. inversion A; subst ms1.
  apply iter_inv in B. destruct B as [ND [_ [_ B]]]. subst ms'.
  assert (N1 : nth_error (fold_left (fun m j => upd m j (s_fired t)) fired ms) i = Some (s_fired t x))
    by (eapply fold_fired_in; eauto).
  eapply (run_dead _ _ mid _ i (s_fired t x) t' fired' w' post m C N1); eauto.
  unfold s_fired. rewrite H3. auto.
Qed.

Lemma unregistered_silent : forall pre i t mid t' fired w post,
  h = pre ++ LUnreq i t :: mid ++ LIter t' fired w :: post ->
  (forall r, In r mid -> is_rereg i r = false) -> ~ In i fired.
Proof.
  intros. apply h_split in H. destruct H as [ms [ms' [m [A [B C]]]]].
  simpl in B. destruct (nth_error ms i) eqn:E; try discriminate. inversion B; subst.
  eapply (run_dead _ _ mid _ i (s_kill s) t' fired w post m C); eauto. apply nth_error_upd_same; eauto.
Qed.

Lemma persistent_gap : forall pre t1 f1 w1 mid t2 f2 w2 post ms i x,
  h = pre ++ LIter t1 f1 w1 :: mid ++ LIter t2 f2 w2 :: post ->
  In i f1 -> In i f2 -> (forall r, In r mid -> touches i r = false) ->
  spec_after p pre = Some ms -> nth_error ms i = Some x -> s_p x = true ->
  t1 + s_iv x <= t2.
Proof.
  intros. apply h_split in H. destruct H as [ms1 [ms' [m [A [B C]]]]].
  rewrite H3 in A. inversion A; subst ms1.
  apply iter_inv in B. destruct B as [ND [_ [_ B]]].
  apply accepted_split in C. destruct C as [ma [mb [C1 [C2 C3]]]].
  assert (N1 : nth_error ms' i = Some (s_fired t1 x)) by (subst ms'; eapply fold_fired_in; eauto).
  eapply run_untouched in C1; eauto.
  apply iter_inv in C2. destruct C2 as [_ [C2 _]]. apply C2 in H1. unfold fire_ok in H1. rewrite C1 in H1.
  unfold s_fired, s_exp in H1. rewrite H5 in H1. simpl in H1. lia.
Qed.

Lemma reset_restarts : forall pre i r niv mid t fired w post ms x,
  h = pre ++ LReset i r niv :: mid ++ LIter t fired w :: post ->
  In i fired -> (forall e, In e mid -> touches i e = false) ->
  spec_after p pre = Some ms -> nth_error ms i = Some x ->
  r + (match niv with Some v => v | None => s_iv x end) <= t.
Proof.
  intros. apply h_split in H. destruct H as [ms1 [ms' [m [A [B C]]]]].
  rewrite H2 in A. inversion A; subst ms1.
  simpl in B. rewrite H3 in B. inversion B; subst ms'.
  apply accepted_split in C. destruct C as [ma [mb [C1 [C2 C3]]]].
  eapply run_untouched in C1; eauto; [|apply nth_error_upd_same; eauto].
  apply iter_inv in C2. destruct C2 as [_ [C2 _]]. apply C2 in H0. unfold fire_ok in H0. rewrite C1 in H0.
  unfold s_rearm, s_exp in H0. simpl in H0. lia.
Qed.

Lemma first_firing : forall pre tc iv pp dl mid t fired w post ms,
  h = pre ++ LCreate tc iv pp dl :: mid ++ LIter t fired w :: post ->
  spec_after p pre = Some ms ->
  In (length ms) fired -> (forall e, In e mid -> touches (length ms) e = false) ->
  tc + iv <= t /\ match dl with Some d => tc + iv = floorsec d | None => True end.
Proof.
  intros. apply h_split in H. destruct H as [ms1 [ms' [m [A [B C]]]]].
  rewrite H0 in A. inversion A; subst ms1.
  simpl in B. destruct (match dl with Some d => tc + iv =? floorsec d | None => true end) eqn:E; try discriminate.
  inversion B; subst ms'.
  apply accepted_split in C. destruct C as [ma [mb [C1 [C2 C3]]]].
  eapply run_untouched in C1; eauto; [|rewrite nth_error_app2, Nat.sub_diag; [reflexivity|lia]].
  apply iter_inv in C2. destruct C2 as [_ [C2 _]]. apply C2 in H1. unfold fire_ok in H1. rewrite C1 in H1.
  unfold s_exp in H1. simpl in H1. split. lia. destruct dl; auto. lia.
Qed.

End Consequences.

(* the clock after an idle wait: it never ends later than asked for *)
Lemma idle_wait_clock : forall s d, 0 <= d -> now s <= now (idle_wait s (Some d)) <= now s + d.
Proof.
  intros. unfold idle_wait. destruct (stims s) as [|[[a b] c] r]; simpl; try lia.
  destruct (a <? now s + d) eqn:E; simpl; lia.
Qed.

(* ------------------------------------------------------------------ the two-stage removal completes *)

Definition gone (tm : timer) : Prop := t_reg tm = false /\ t_pend tm = false.
Definition pg (tm : timer) : Prop := t_pend tm = true \/ gone tm.

(* the program never registers timer i again *)
Definition op_rr (i : nat) (o : op) : bool := match o with OReReg j => Nat.eqb i j | _ => false end.
Definition ops_ok (i : nat) (l : list op) : Prop := forall o, In o l -> op_rr i o = false.
Definition steps_ok (i : nat) (l : list gstep) : Prop := forall o, In (GOps o) l -> ops_ok i o.
Definition prog_ok (i : nat) (p : prog) : Prop :=
  (forall l, In l (p_ops p) -> ops_ok i l) /\ (forall l, In l (p_onfire p) -> ops_ok i l) /\
  (forall l, In l (p_gs p) -> steps_ok i l).
Definition tasks_ok (i : nat) (s : st) : Prop := forall k, In k (tasks s) -> steps_ok i (k_steps k).

Lemma script_ok : forall A (tbl : list (list A)) k (P : list A -> Prop), P [] -> (forall l, In l tbl -> P l) -> P (script tbl k).
Proof.
  intros. unfold script. destruct (nth_error tbl k) eqn:E; auto. apply H0. eapply nth_error_In; eauto.
Qed.

(* how a step may change the state, as far as the removal of timer i and the book-keeping of pending flags go *)
Definition xt (i : nat) (s s' : st) : Prop :=
  (forall tm, nth_error (timers s) i = Some tm ->
     exists tm', nth_error (timers s') i = Some tm' /\ (pg tm -> pg tm') /\ (gone tm -> gone tm')) /\
  (forall e, In e (queue s) -> In e (queue s')) /\
  (forall j tm', nth_error (timers s') j = Some tm' -> t_pend tm' = true ->
     (exists tm, nth_error (timers s) j = Some tm /\ t_pend tm = true) \/ In (EPrep j) (queue s')).

Section XT.
Variable i : nat.

Lemma xt_refl : forall s, xt i s s.
Proof. intros. split; [|split]; eauto. Qed.

Lemma xt_trans : forall a b c, xt i a b -> xt i b c -> xt i a c.
Proof.
  intros a b c [A1 [A2 A3]] [B1 [B2 B3]]. split; [|split]; auto.
  - intros tm H. destruct (A1 tm H) as [tm1 [N1 [P1 G1]]]. destruct (B1 tm1 N1) as [tm2 [N2 [P2 G2]]].
    exists tm2. auto.
  - intros j tm' N P. destruct (B3 j tm' N P) as [[tm1 [N1 P1]] | H]; auto.
    destruct (A3 j tm1 N1 P1) as [H | H]; auto.
Qed.

Lemma xt_same : forall s s', timers s' = timers s -> (forall e, In e (queue s) -> In e (queue s')) -> xt i s s'.
Proof. intros. split; [|split]; auto; intros; rewrite H in *; eauto. Qed.

Lemma xt_upd_at : forall s s' k f, timers s' = upd (timers s) k f ->
  (forall e, In e (queue s) -> In e (queue s')) ->
  (forall tm, nth_error (timers s) k = Some tm ->
     (k = i -> (pg tm -> pg (f tm)) /\ (gone tm -> gone (f tm))) /\
     (t_pend (f tm) = true -> t_pend tm = true \/ In (EPrep k) (queue s'))) ->
  xt i s s'.
Proof.
  intros s s' k f T Q H. split; [|split]; auto.
  - intros tm N. rewrite T, nth_error_upd. destruct (Nat.eqb k i) eqn:E.
    + apply Nat.eqb_eq in E. subst k. rewrite N. simpl. exists (f tm). destruct (H tm N) as [H1 _].
      destruct (H1 eq_refl). auto.
    + eauto.
  - intros j tm' N P. rewrite T, nth_error_upd in N. destruct (Nat.eqb k j) eqn:E.
    + apply Nat.eqb_eq in E. subst k. destruct (nth_error (timers s) j) eqn:E2; simpl in N; inversion N; subst.
      destruct (H t eq_refl) as [_ H2]. destruct (H2 P); eauto.
    + eauto.
Qed.

Lemma xt_app : forall s s' l, timers s' = timers s ++ l -> (forall tm, In tm l -> t_pend tm = false) ->
  (forall e, In e (queue s) -> In e (queue s')) -> xt i s s'.
Proof.
  intros s s' l T L Q. split; [|split]; auto.
  - intros tm N. rewrite T. exists tm. split; auto. apply nth_error_app_some; auto.
  - intros j tm' N P. rewrite T in N. destruct (lt_dec j (length (timers s))).
    + rewrite nth_error_app1 in N by auto. eauto.
    + rewrite nth_error_app2 in N by lia. apply nth_error_In in N. rewrite (L tm' N) in P. discriminate.
Qed.

Lemma in_push : forall s e x, In x (queue s) -> In x (queue (push_ev s e)).
Proof. intros. simpl. apply in_or_app. auto. Qed.

Lemma xt_unregister : forall s k, xt i s (unregister s k).
Proof.
  intros. unfold unregister. destruct (nth_error (timers s) k) eqn:E; [|apply xt_refl].
  destruct (t_reg t && negb (t_pend t)) eqn:C; [|apply xt_refl].
  eapply xt_upd_at with (k := k) (f := t_set_pend); [reflexivity|intros; apply in_push; auto|].
  intros tm N. rewrite E in N. inversion N; subst. split.
  - intros _. split.
    + intros. left. reflexivity.
    + intros [G1 G2]. rewrite G1 in C. discriminate.
  - intros _. right. simpl. apply in_or_app. right. left. auto.
Qed.

Lemma reset_keeps : forall nw niv tm, (pg tm -> pg (t_reset nw niv tm)) /\ (gone tm -> gone (t_reset nw niv tm)).
Proof. intros. unfold pg, gone, t_reset. simpl. tauto. Qed.

Lemma xt_reset : forall s k nw niv r, xt i s (add_log (set_timers s (upd (timers s) k (t_reset nw niv))) r).
Proof.
  intros. eapply xt_upd_at; [reflexivity|auto|]. intros. split. intros; apply reset_keeps. simpl. auto.
Qed.

Lemma xt_do_op : forall o s, op_rr i o = false -> xt i s (do_op s o).
Proof.
  destruct o; intros s OK; simpl.
  - eapply xt_app. reflexivity. intros tm [H | []]; subst; auto. intros; simpl; apply in_or_app; auto.
  - eapply xt_app. reflexivity. intros tm [H | []]; subst; auto. intros; simpl; apply in_or_app; auto.
  - destruct (nth_error (timers s) i0); [|apply xt_refl]. apply xt_reset.
  - destruct (nth_error (timers s) i0); [|apply xt_refl]. apply xt_reset.
  - destruct (nth_error (timers s) i0); [|apply xt_refl].
    eapply xt_trans. apply (xt_unregister s i0). apply xt_same; auto.
  - apply xt_same; auto.
  - apply xt_same; auto. intros. apply in_push; auto.
  - destruct (nth_error (timers s) i0) eqn:E; [|apply xt_refl].
    destruct (negb (t_reg t) && negb (t_pend t)) eqn:C; [|apply xt_refl].
    eapply xt_upd_at with (k := i0) (f := t_rereg); [reflexivity|intros; simpl; apply in_or_app; auto|].
    intros tm N. split.
    + intros. subst i0. simpl in OK. rewrite Nat.eqb_refl in OK. discriminate.
    + simpl. discriminate.
Qed.

Lemma xt_do_ops : forall l s, ops_ok i l -> xt i s (do_ops s l).
Proof.
  unfold do_ops. induction l; simpl; intros. apply xt_refl.
  eapply xt_trans. apply xt_do_op. apply H. left; auto. apply IHl. intros o Ho. apply H. right; auto.
Qed.

Lemma xt_fire_timer : forall s k, xt i s (fire_timer s k).
Proof.
  intros. unfold fire_timer. destruct (nth_error (timers s) k); [|apply xt_refl].
  destruct (t_persist t).
  - eapply xt_upd_at; [reflexivity|intros; apply in_push; auto|].
    intros. split. intros; apply reset_keeps. simpl. auto.
  - eapply xt_trans; [|apply xt_unregister]. apply xt_same; auto. intros; apply in_push; auto.
Qed.

Lemma xt_fire_fold : forall l s, xt i s (fold_left fire_timer l s).
Proof.
  induction l; simpl; intros. apply xt_refl. eapply xt_trans. apply xt_fire_timer. apply IHl.
Qed.

Lemma xt_idle_wait : forall s d, xt i s (idle_wait s d).
Proof.
  intros. unfold idle_wait. destruct (stims s) as [|[[a b] c] r]; destruct d; simpl.
  - apply xt_same; auto.
  - apply xt_same; auto.
  - destruct (a <? now s + z).
    + apply xt_same; auto. intros. simpl. apply in_or_app. auto.
    + apply xt_same; auto.
  - apply xt_same; auto. intros. simpl. apply in_or_app. auto.
Qed.

Lemma xt_do_gen : forall p s more, xt i s (do_gen p s more).
Proof.
  intros. unfold do_gen. destruct (reorder (sched s) (due_from (now s) 0 (timers s))) as [due sch'].
  set (s1 := fold_left fire_timer due (set_sched s sch')).
  assert (E1 : xt i s s1).
  { eapply xt_trans; [|apply xt_fire_fold]. apply xt_same; auto. }
  destruct (reduce_all _ _ _ _ _).
  - eapply xt_trans; [|apply xt_idle_wait]. eapply xt_trans. apply E1. apply xt_same; auto.
  - destruct (d <=? 0).
    + eapply xt_trans. apply E1. apply xt_same; auto.
    + eapply xt_trans; [|apply xt_idle_wait]. eapply xt_trans. apply E1. apply xt_same; auto.
  - eapply xt_trans; [|apply xt_idle_wait]. eapply xt_trans. apply E1. apply xt_same; auto.
Qed.

Lemma removed_keeps : forall tm, (pg tm -> pg (t_removed tm)) /\ (gone tm -> gone (t_removed tm)).
Proof.
  intros. unfold t_removed. destruct (t_pend tm) eqn:E; [|tauto].
  unfold pg, gone. simpl. split; [auto | intros [_ H]; congruence].
Qed.

Lemma removed_not_pend : forall tm, t_pend (t_removed tm) = false.
Proof. intros. unfold t_removed. destruct (t_pend tm) eqn:E; auto. Qed.

Lemma xt_dispatch : forall p s e more, prog_ok i p -> xt i s (dispatch p s e more).
Proof.
  intros p s e more [O1 [O2 O3]]. destruct e; simpl.
  - apply xt_do_gen.
  - eapply xt_trans; [|apply xt_do_ops]. apply xt_same; auto.
    apply script_ok; auto. intros o [].
  - apply xt_do_ops. apply script_ok; auto. intros o [].
  - apply xt_same; auto.
  - apply xt_refl.
  - apply xt_same; auto. intros; apply in_push; auto.
  - eapply xt_upd_at with (k := i0) (f := t_removed); [reflexivity|intros; apply in_push; auto|].
    intros. split. intros; apply removed_keeps. rewrite removed_not_pend. discriminate.
Qed.

Lemma xt_flush : forall p batch s, prog_ok i p -> xt i s (flush p s batch).
Proof.
  induction batch; simpl; intros. apply xt_refl.
  eapply xt_trans; [eapply (xt_dispatch p s a); exact H | apply IHbatch; auto].
Qed.

Lemma xt_run_steps : forall l s id, steps_ok i l -> xt i s (fst (run_steps s l id)).
Proof.
  induction l; simpl; intros. apply xt_refl. destruct a; simpl; try apply xt_refl.
  eapply xt_trans. apply xt_do_ops. apply H. left; auto. apply IHl. intros o Ho. apply H. right; auto.
Qed.

Lemma xt_step_tasks : forall l s acc, (forall k, In k l -> steps_ok i (k_steps k)) ->
  xt i s (fst (step_tasks s l acc)).
Proof.
  induction l; simpl; intros. apply xt_refl.
  assert (E : xt i s (fst (step_task s a))).
  { unfold step_task. destruct (k_sleep a). destruct (z <=? now s); apply xt_refl.
    apply xt_run_steps. apply H. left; auto. }
  destruct (step_task s a) as [s1 k1]. simpl in E. eapply xt_trans. apply E. apply IHl.
  intros k Hk. apply H. right; auto.
Qed.

Lemma xt_deliver_due : forall l s, xt i s (deliver_due s l).
Proof.
  induction l; simpl; intros. apply xt_same; auto.
  destruct (fst (fst a) <=? now s).
  - eapply xt_trans; [|apply IHl]. destruct a as [[x y] z]. apply xt_same; auto. intros; apply in_push; auto.
  - apply xt_same; auto.
Qed.

End XT.

Definition PG (s : st) (i : nat) : Prop := exists tm, nth_error (timers s) i = Some tm /\ pg tm.
Definition Gone (s : st) (i : nat) : Prop := exists tm, nth_error (timers s) i = Some tm /\ gone tm.

Lemma xt_PG : forall i s s', xt i s s' -> PG s i -> PG s' i.
Proof. intros i s s' [E _] [tm [N P]]. destruct (E tm N) as [tm' [N' [P' _]]]. exists tm'. auto. Qed.
Lemma xt_Gone : forall i s s', xt i s s' -> Gone s i -> Gone s' i.
Proof. intros i s s' [E _] [tm [N P]]. destruct (E tm N) as [tm' [N' [_ P']]]. exists tm'. auto. Qed.

(* every pending timer has its prepare_unregister, or the completion event, among the events still to be dispatched
   (X: rest of the batch being flushed) *)
Definition QX (s : st) (X : list ev) : Prop :=
  forall j tm, nth_error (timers s) j = Some tm -> t_pend tm = true ->
    In (EPrep j) (X ++ queue s) \/ In (EPrepC j) (X ++ queue s).

Lemma xt_QX : forall i s s' X, xt i s s' -> QX s X -> QX s' X.
Proof.
  intros i s s' X [_ [B C]] Q j tm' N P.
  assert (M : forall e, In e (X ++ queue s) -> In e (X ++ queue s')).
  { intros e H. apply in_app_or in H. apply in_or_app. destruct H; auto. }
  destruct (C j tm' N P) as [[tm [N0 P0]] | H].
  - destruct (Q j tm N0 P0); auto.
  - left. apply in_or_app. auto.
Qed.

Lemma dispatch_QX : forall i p s e r more, prog_ok i p -> QX s (e :: r) -> QX (dispatch p s e more) r.
Proof.
  intros i p s e r more OK Q.
  assert (GEN : (forall j, e <> EPrep j) -> (forall j, e <> EPrepC j) -> QX (dispatch p s e more) r).
  { intros N1 N2. pose proof (xt_QX i _ _ _ (xt_dispatch i p s e more OK) Q) as Q'.
    intros j tm N P. destruct (Q' j tm N P) as [H | H]; simpl in H; destruct H as [H | H]; auto;
      exfalso; [eapply N1 | eapply N2]; eauto. }
  destruct e; try (apply GEN; intros; discriminate).
  - (* EPrep i0 *) simpl. intros j tm N P. simpl in N. destruct (Q j tm N P) as [H | H]; simpl in H; destruct H as [H | H].
    + inversion H; subst. right. apply in_or_app. right. simpl. apply in_or_app. right. left. auto.
    + left. apply in_app_or in H. apply in_or_app. destruct H; auto. right. simpl. apply in_or_app. auto.
    + discriminate.
    + right. apply in_app_or in H. apply in_or_app. destruct H; auto. right. simpl. apply in_or_app. auto.
  - (* EPrepC i0 *) simpl. intros j tm N P. simpl in N. rewrite nth_error_upd in N.
    destruct (Nat.eqb i0 j) eqn:E.
    + destruct (nth_error (timers s) j); simpl in N; inversion N; subst. rewrite removed_not_pend in P. discriminate.
    + apply Nat.eqb_neq in E. destruct (Q j tm N P) as [H | H]; simpl in H; destruct H as [H | H].
      * discriminate.
      * left. apply in_app_or in H. apply in_or_app. destruct H; auto. right. simpl. apply in_or_app. auto.
      * inversion H; subst. congruence.
      * right. apply in_app_or in H. apply in_or_app. destruct H; auto. right. simpl. apply in_or_app. auto.
Qed.

Lemma flush_QX : forall i p batch s, prog_ok i p -> QX s batch -> QX (flush p s batch) [].
Proof.
  induction batch; simpl; intros; auto. apply IHbatch; auto. eapply dispatch_QX; eauto.
Qed.

Lemma flush_prep : forall i p batch s, prog_ok i p -> In (EPrep i) batch -> In (EPrepC i) (queue (flush p s batch)).
Proof.
  induction batch; simpl; intros. tauto. destruct H0.
  - subst. apply (xt_flush i p batch); auto. simpl. apply in_or_app. right. left. auto.
  - auto.
Qed.

Lemma flush_prepc : forall i p batch s, prog_ok i p -> In (EPrepC i) batch -> PG s i -> Gone (flush p s batch) i.
Proof.
  induction batch; simpl; intros. tauto. destruct H0.
  - subst. eapply xt_Gone. apply xt_flush; auto. simpl.
    destruct H1 as [tm [N P]]. exists (t_removed tm). split. simpl. apply nth_error_upd_same; auto.
    unfold t_removed. destruct P as [P | P].
    + rewrite P. split; auto.
    + destruct P as [P1 P2]. rewrite P2. split; auto.
  - apply IHbatch; auto. eapply xt_PG; eauto. apply xt_dispatch; auto.
Qed.

(* tasks only ever run steps of the program's generators *)
Lemma do_op_tasks : forall o s, tasks (do_op s o) = tasks s.
Proof.
  destruct o; intros; simpl; auto;
    try (destruct (nth_error (timers s) i); auto; fail).
  - destruct (nth_error (timers s) i); auto. simpl. unfold unregister.
    destruct (nth_error (timers s) i); auto. destruct (_ && _); auto.
  - destruct (nth_error (timers s) i); auto. destruct (_ && _); auto.
Qed.

Lemma do_ops_tasks : forall l s, tasks (do_ops s l) = tasks s.
Proof. unfold do_ops. induction l; simpl; intros; auto. rewrite IHl. apply do_op_tasks. Qed.

Lemma fire_timer_tasks : forall s k, tasks (fire_timer s k) = tasks s.
Proof.
  intros. unfold fire_timer. destruct (nth_error (timers s) k); auto. destruct (t_persist t); auto.
  unfold unregister. simpl. destruct (nth_error (timers s) k); auto. destruct (_ && _); auto.
Qed.

Lemma fire_fold_tasks : forall l s, tasks (fold_left fire_timer l s) = tasks s.
Proof. induction l; simpl; intros; auto. rewrite IHl. apply fire_timer_tasks. Qed.

Lemma idle_wait_tasks : forall s d, tasks (idle_wait s d) = tasks s.
Proof.
  intros. unfold idle_wait. destruct (stims s) as [|[[a b] c] r]; destruct d; simpl; auto.
  destruct (a <? now s + z); auto.
Qed.

Lemma do_gen_tasks : forall p s more, tasks (do_gen p s more) = tasks s.
Proof.
  intros. unfold do_gen. destruct (reorder _ _) as [due sch'].
  destruct (reduce_all _ _ _ _ _); [| destruct (d <=? 0) |];
    try rewrite idle_wait_tasks; simpl; rewrite fire_fold_tasks; auto.
Qed.

Lemma dispatch_tasks_ok : forall i p s e more, prog_ok i p -> tasks_ok i s -> tasks_ok i (dispatch p s e more).
Proof.
  intros i p s e more [_ [_ O3]] T. unfold tasks_ok in *. destruct e; simpl.
  - rewrite do_gen_tasks. auto.
  - rewrite do_ops_tasks. auto.
  - rewrite do_ops_tasks. auto.
  - intros k0 Hk. apply in_app_or in Hk. destruct Hk as [Hk | [Hk | []]]; auto. subst. simpl.
    apply script_ok; auto. intros o [].
  - auto.
  - auto.
  - auto.
Qed.

Lemma flush_tasks_ok : forall i p batch s, prog_ok i p -> tasks_ok i s -> tasks_ok i (flush p s batch).
Proof. induction batch; simpl; intros; auto. apply IHbatch; auto. apply dispatch_tasks_ok; auto. Qed.

Lemma run_steps_res : forall i l s id, steps_ok i l ->
  tasks (fst (run_steps s l id)) = tasks s /\
  match snd (run_steps s l id) with Some k => steps_ok i (k_steps k) | None => True end.
Proof.
  induction l; simpl; intros; auto. destruct a; simpl.
  - destruct (IHl (do_ops s l0) id) as [A B]. intros o Ho. apply H. right; auto.
    rewrite A, do_ops_tasks. auto.
  - split; auto. intros o Ho. apply H. right; auto.
  - split; auto. intros o Ho. apply H. right; auto.
Qed.

Lemma step_tasks_res : forall i l s acc, (forall k, In k l -> steps_ok i (k_steps k)) ->
  (forall k, In k acc -> steps_ok i (k_steps k)) ->
  tasks (fst (step_tasks s l acc)) = tasks s /\
  (forall k, In k (snd (step_tasks s l acc)) -> steps_ok i (k_steps k)).
Proof.
  induction l; simpl; intros; auto.
  assert (E : tasks (fst (step_task s a)) = tasks s /\
              match snd (step_task s a) with Some k => steps_ok i (k_steps k) | None => True end).
  { unfold step_task. destruct (k_sleep a).
    - destruct (z <=? now s); simpl; split; auto; apply H; left; auto.
    - apply run_steps_res. apply H. left; auto. }
  destruct (step_task s a) as [s1 k1]. simpl in E. destruct E as [E1 E2].
  destruct (IHl s1 (match k1 with Some k' => acc ++ [k'] | None => acc end)) as [A B].
  - intros k Hk. apply H. right; auto.
  - destruct k1; auto. intros k Hk. apply in_app_or in Hk. destruct Hk as [Hk | [Hk | []]]; auto. subst; auto.
  - rewrite A, E1. auto.
Qed.

Lemma pick_tasks_in : forall l ids k, In k (pick_tasks l ids) -> In k l.
Proof.
  intros. unfold pick_tasks in H. apply in_flat_map in H. destruct H as [id [_ H]].
  destruct (find (fun k0 => Nat.eqb (k_id k0) id) l) eqn:E; simpl in H; [|tauto].
  destruct H as [H | []]. subst. apply find_some in E. tauto.
Qed.

Lemma deliver_due_tasks : forall l s, tasks (deliver_due s l) = tasks s.
Proof.
  induction l; simpl; intros; auto. destruct (fst (fst a) <=? now s); auto.
  rewrite IHl. destruct a as [[x y] z]. auto.
Qed.

(* the state just before the flush of a tick, and the batch it flushes *)
Lemma tick_shape : forall i p s, prog_ok i p -> tasks_ok i s -> exists s3,
  tick p s = flush p (set_queue s3 []) (queue s3) /\ xt i s s3 /\ tasks_ok i s3.
Proof.
  intros i p s OK T. unfold tick.
  pose proof (xt_deliver_due i (stims s) s) as E0.
  pose proof (deliver_due_tasks (stims s) s) as T0. set (s0 := deliver_due s (stims s)) in *.
  destruct (reorder (tsched s0) (map k_id (tasks s0))) as [ord tsch'].
  assert (PK : forall k, In k (pick_tasks (tasks s0) ord) -> steps_ok i (k_steps k)).
  { intros k Hk. apply pick_tasks_in in Hk. rewrite T0 in Hk. auto. }
  pose proof (xt_step_tasks i _ (set_tsched (set_tasks s0 []) tsch') [] PK) as E1.
  destruct (step_tasks_res i _ (set_tsched (set_tasks s0 []) tsch') [] PK ltac:(intros k [])) as [R1 R2].
  destruct (step_tasks (set_tsched (set_tasks s0 []) tsch') (pick_tasks (tasks s0) ord) []) as [s1 alive].
  simpl in E1, R1, R2.
  eexists. split. reflexivity. split.
  - eapply xt_trans. apply E0. eapply xt_trans. apply (xt_same i s0 (set_tsched (set_tasks s0 []) tsch')); auto.
    eapply xt_trans. apply E1. apply xt_same; auto. intros. simpl. apply in_or_app. auto.
  - unfold tasks_ok. simpl. rewrite R1. simpl. rewrite app_nil_r. auto.
Qed.

(* the invariant of runs *)
Definition Inv (i : nat) (s : st) : Prop := QX s [] /\ tasks_ok i s.

Lemma tick_Inv : forall i p s, prog_ok i p -> Inv i s -> Inv i (tick p s).
Proof.
  intros i p s OK [Q T]. destruct (tick_shape i p s OK T) as [s3 [E [X T3]]]. rewrite E. split.
  - apply (flush_QX i); auto. pose proof (xt_QX i _ _ _ X Q) as Q3.
    intros j tm N P. simpl in N. destruct (Q3 j tm N P) as [H | H]; simpl in *; rewrite app_nil_r; auto.
  - apply flush_tasks_ok; auto.
Qed.

Lemma run_Inv : forall i p n s, prog_ok i p -> Inv i s -> Inv i (fst (run p s n)).
Proof.
  induction n; simpl; intros; auto. destruct (halted s); auto.
  pose proof (IHn (tick p s) H (tick_Inv i p s H H0)). destruct (run p (tick p s) n). auto.
Qed.

Lemma init_Inv : forall i t0 sts sch tsch, Inv i (init t0 sts sch tsch).
Proof. intros. split. intros j tm N. destruct j; discriminate. intros k []. Qed.

Lemma tick_prep : forall i p s, prog_ok i p -> tasks_ok i s -> In (EPrep i) (queue s) -> PG s i ->
  In (EPrepC i) (queue (tick p s)) /\ PG (tick p s) i.
Proof.
  intros i p s OK T H H0. destruct (tick_shape i p s OK T) as [s3 [E [X _]]]. rewrite E. split.
  - apply (flush_prep i); auto. apply X. auto.
  - assert (P3 : PG s3 i) by (eapply xt_PG; eauto).
    eapply xt_PG. apply xt_flush; auto. destruct P3 as [tm [N P]]. exists tm. auto.
Qed.

Lemma tick_prepc : forall i p s, prog_ok i p -> tasks_ok i s -> In (EPrepC i) (queue s) -> PG s i -> Gone (tick p s) i.
Proof.
  intros i p s OK T H H0. destruct (tick_shape i p s OK T) as [s3 [E [X _]]]. rewrite E.
  assert (P3 : PG s3 i) by (eapply xt_PG; eauto).
  apply (flush_prepc i); auto; try (apply X; auto; fail); try (destruct P3 as [tm [N P]]; exists tm; auto).
Qed.

Theorem gone_stays : forall i p s, prog_ok i p -> tasks_ok i s -> Gone s i -> Gone (tick p s) i.
Proof.
  intros i p s OK T H. destruct (tick_shape i p s OK T) as [s3 [E [X _]]]. rewrite E.
  assert (P3 : Gone s3 i) by (eapply xt_Gone; eauto).
  eapply xt_Gone. apply xt_flush; auto. destruct P3 as [tm [N P]]. exists tm. auto.
Qed.

(* a timer that is not alive (pending, or out already) is out of the tree two ticks later *)
Lemma removed_after_two : forall i p s tm, prog_ok i p -> Inv i s ->
  nth_error (timers s) i = Some tm -> t_reg tm && negb (t_pend tm) = false -> Gone (tick p (tick p s)) i.
Proof.
  intros i p s tm OK [Q T] N A.
  pose proof (tick_Inv i p s OK (conj Q T)) as [Q1 T1].
  destruct (t_pend tm) eqn:P.
  - assert (PGs : PG s i) by (exists tm; split; auto; left; auto).
    destruct (Q i tm N P) as [H | H]; simpl in H.
    + destruct (tick_prep i p s OK T H PGs) as [H1 H2]. apply tick_prepc; auto.
    + apply gone_stays; auto. apply tick_prepc; auto.
  - assert (G : Gone s i). { exists tm. split; auto. split; auto. destruct (t_reg tm); auto. }
    apply gone_stays; auto. apply gone_stays; auto.
Qed.

(* what starts the removal: unregister() on an alive timer, in particular a one-shot that fires *)
Lemma unregister_starts : forall s i tm, nth_error (timers s) i = Some tm -> t_reg tm && negb (t_pend tm) = true ->
  In (EPrep i) (queue (unregister s i)) /\ PG (unregister s i) i.
Proof.
  intros. unfold unregister. rewrite H, H0. split.
  - simpl. apply in_or_app. right. left. auto.
  - exists (t_set_pend tm). split. simpl. apply nth_error_upd_same; auto. left. reflexivity.
Qed.

Lemma oneshot_fire_starts : forall s i tm, nth_error (timers s) i = Some tm -> t_persist tm = false ->
  t_reg tm && negb (t_pend tm) = true ->
  In (ETimer i) (queue (fire_timer s i)) /\ In (EPrep i) (queue (fire_timer s i)) /\ PG (fire_timer s i) i.
Proof.
  intros. unfold fire_timer. rewrite H, H0.
  destruct (unregister_starts (push_ev s (ETimer i)) i tm H H1) as [A B]. repeat split; auto.
  apply (xt_unregister i). simpl. apply in_or_app. right. left. auto.
Qed.

(* for every run: a timer the specification considers dead at the end of the history (a one-shot that fired, a timer
   whose unregistration was requested, not registered again since) is out of the tree two ticks later *)
Section Removed.
Variable p : prog.
Hypothesis Hden : 0 < p_tmo_den p.
Variables (t0 : Z) (sts : list (Z * bool * nat)) (sch tsch : list nat) (n : nat).
Let sn := fst (run p (init t0 sts sch tsch) n).

Lemma dead_removed : forall i pre ms x post m, prog_ok i p ->
  history sn = pre ++ post -> spec_after p pre = Some ms -> nth_error ms i = Some x -> s_alive x = false ->
  mon_run (p_tmo_num p) (p_tmo_den p) ms post = Some m ->
  (forall r, In r post -> is_rereg i r = false) ->
  Gone (tick p (tick p sn)) i.
Proof.
  intros i pre ms x post m OK H S N A M RR.
  pose proof (run_conforms p Hden t0 sts sch tsch n) as C. simpl in C. fold sn in C.
  rewrite H in C. unfold spec_after in C, S. rewrite mon_run_app, S, M in C. inversion C; subst m.
  destruct (run_dead_state _ _ _ _ _ _ _ M N A RR) as [x' [N' A']].
  rewrite nth_error_map in N'. destruct (nth_error (timers sn) i) eqn:E; simpl in N'; inversion N'; subst.
  eapply removed_after_two; eauto. apply run_Inv; auto. apply init_Inv.
Qed.

Lemma oneshot_removed : forall i pre t fired w post ms x, prog_ok i p ->
  history sn = pre ++ LIter t fired w :: post -> In i fired ->
  spec_after p pre = Some ms -> nth_error ms i = Some x -> s_p x = false ->
  (forall r, In r post -> is_rereg i r = false) ->
  Gone (tick p (tick p sn)) i.
Proof.
  intros i pre t fired w post ms x OK H I S N P RR.
  pose proof (run_conforms p Hden t0 sts sch tsch n) as C. simpl in C. fold sn in C. rewrite H in C.
  apply accepted_split in C. destruct C as [ms1 [ms' [A [B C]]]].
  unfold spec_after in S. rewrite S in A. inversion A; subst ms1.
  pose proof B as B'. apply iter_inv in B'. destruct B' as [ND [_ [_ B']]].
  assert (N1 : nth_error ms' i = Some (s_fired t x)) by (subst ms'; eapply fold_fired_in; eauto).
  eapply (dead_removed i (pre ++ [LIter t fired w]) ms' (s_fired t x) post); eauto.
  - rewrite <- app_assoc. auto.
  - unfold spec_after. rewrite mon_run_app, S, mon_run_single. exact B.
  - unfold s_fired. rewrite P. auto.
Qed.

Lemma unregistered_removed : forall i pre t post, prog_ok i p ->
  history sn = pre ++ LUnreq i t :: post -> (forall r, In r post -> is_rereg i r = false) ->
  Gone (tick p (tick p sn)) i.
Proof.
  intros i pre t post OK H RR.
  pose proof (run_conforms p Hden t0 sts sch tsch n) as C. simpl in C. fold sn in C. rewrite H in C.
  apply accepted_split in C. destruct C as [ms [ms' [A [B C]]]].
  pose proof B as B'. simpl in B'. destruct (nth_error ms i) eqn:E; try discriminate. inversion B'; subst ms'.
  eapply (dead_removed i (pre ++ [LUnreq i t]) (upd ms i s_kill) (s_kill s) post); eauto.
  - rewrite <- app_assoc. auto.
  - unfold spec_after. rewrite mon_run_app. unfold spec_after in A. rewrite A, mon_run_single. exact B.
  - apply nth_error_upd_same; auto.
Qed.

End Removed.
