(* C18: a stream of several accepted IRC messages, cut into reads in any way,
   is received by the Line protocol as exactly one line per message, in order,
   each line being the message without its CRLF, and nothing is held back. *)
From Coq Require Import List NArith Arith Bool Lia.
From Circ Require Import Model.Line Model.Irc Proofs.LineP Proofs.IrcP.
Import ListNotations.
Open Scope N_scope.

Definition crlf_lines (bodies : list (list N)) : list (list N * bool) :=
  map (fun b => (b, true)) bodies.

Lemma crlf_lines_wf bodies : Forall clean bodies -> wf_lines (crlf_lines bodies).
Proof.
  induction 1 as [|b r Hb Hr IH]; [exact I|].
  cbn [crlf_lines map wf_lines]. split; [now apply clean_noLF|split; [discriminate|exact IH]].
Qed.

Lemma crlf_lines_join bodies :
  join_lines (crlf_lines bodies) [] = concat (map (fun b => b ++ [13; 10]) bodies).
Proof.
  induction bodies as [|b r IH]; [reflexivity|].
  cbn [crlf_lines map join_lines concat]. fold (crlf_lines r). rewrite IH.
  rewrite <- app_assoc. reflexivity.
Qed.

Lemma crlf_lines_fst bodies : map fst (crlf_lines bodies) = bodies.
Proof. unfold crlf_lines. rewrite map_map. cbn [fst]. apply map_id. Qed.

Theorem message_stream (ms : list msg) (bs : list (list N)) (chunks : list (list N)) :
  Forall2 (fun m b => to_str m = Some b) ms bs ->
  concat chunks = concat bs ->
  exists bodies, run [] chunks = (bodies, []) /\
                 Forall2 (fun b body => b = body ++ [13; 10] /\ clean body) bs bodies.
Proof.
  intros H E.
  assert (exists bodies, Forall2 (fun b body => b = body ++ [13; 10] /\ clean body) bs bodies) as (bodies & HB).
  { clear E. induction H as [|m b ms' bs' Hm _ IH].
    - exists []. constructor.
    - destruct IH as (r & Hr). destruct (one_line m b Hm) as (body & Hb & Hc).
      exists (body :: r). constructor; [split; assumption|exact Hr]. }
  exists bodies. split; [|exact HB].
  assert (Hclean : Forall clean bodies).
  { clear -HB. induction HB as [|b body bs' r [_ Hc] _ IH]; constructor; assumption. }
  assert (Hcat : concat bs = concat (map (fun b => b ++ [13; 10]) bodies)).
  { clear -HB. induction HB as [|b body bs' r [Hb _] _ IH]; [reflexivity|].
    cbn [concat map]. now rewrite Hb, IH. }
  rewrite <- (crlf_lines_fst bodies).
  apply lines_exact.
  - now apply crlf_lines_wf.
  - constructor.
  - now rewrite E, Hcat, crlf_lines_join.
Qed.

(* server mode: the same for the messages a client sends on socket k, whatever
   the other sockets receive in between *)
Theorem server_message_stream (k : nat) (evs : list (nat * list N)) (ms : list msg) (bs : list (list N)) :
  Forall2 (fun m b => to_str m = Some b) ms bs ->
  concat (proj k evs) = concat bs ->
  exists bodies, projl k (fst (run_srv empty_bufs evs)) = bodies /\
                 snd (run_srv empty_bufs evs) k = [] /\
                 Forall2 (fun b body => b = body ++ [13; 10] /\ clean body) bs bodies.
Proof.
  intros H E. destruct (message_stream ms bs (proj k evs) H E) as (bodies & R & HB).
  exists bodies. pose proof (server_isolation k evs) as S. rewrite R in S.
  injection S as S1 S2. split; [exact S1|split; [exact S2|exact HB]].
Qed.
