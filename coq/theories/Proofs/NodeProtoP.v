(* Proofs about Model/NodeProto.v (C19). *)
From Coq Require Import List NArith ZArith Bool Lia.
From Circ Require Import Model.NodeProto.
Import ListNotations.

(* ------------------------------------------------------------------ escape *)
Lemma escape_no_tilde : forall s, ~ In TILDE (escape s).
Proof.
  induction s as [|c t IH]; simpl; [tauto|].
  destruct (N.eqb c TILDE) eqn:E.
  - intros H. unfold TILDE in H. repeat (destruct H as [H|H]; [discriminate H|]). tauto.
  - simpl. intros [H|H]; [|tauto]. subst c. rewrite N.eqb_refl in E. discriminate.
Qed.

(* ------------------------------------------------------------------ split *)
Lemma prefixb_app : forall d x, prefixb d (d ++ x) = true.
Proof. induction d as [|c d IH]; intros x; simpl; [reflexivity|]. rewrite N.eqb_refl. apply IH. Qed.

Lemma prefixb_short : forall d s, length s < length d -> prefixb d s = false.
Proof.
  induction d as [|c d IH]; intros s H; simpl in *; [lia|].
  destruct s as [|y s]; [reflexivity|]. simpl in H.
  rewrite IH by lia. apply andb_false_r.
Qed.

Lemma pieces_skip : forall d a x, pieces d (length a) (a ++ x) = pieces d 0 x.
Proof. intros d a x. induction a as [|c a IH]; simpl; [reflexivity|exact IH]. Qed.

Lemma pieces_nonempty : forall d k s, pieces d k s <> [].
Proof.
  intros d k s. revert k. induction s as [|c s IH]; intros k; [discriminate|].
  cbn [pieces]. destruct k as [|k]; [|apply IH].
  destruct (prefixb d (c :: s)); [discriminate|].
  destruct (pieces d 0 s); discriminate.
Qed.

Lemma pieces_clean : forall d0 dr e x, ~ In d0 e ->
  pieces (d0 :: dr) 0 (e ++ x) =
  match pieces (d0 :: dr) 0 x with h :: r => (e ++ h) :: r | [] => [] end.
Proof.
  intros d0 dr e x. destruct (pieces (d0 :: dr) 0 x) as [|h r] eqn:Hx.
  { exfalso. exact (pieces_nonempty _ _ _ Hx). }
  induction e as [|c e IH]; intros Hn.
  - simpl app. exact Hx.
  - assert (Hc : N.eqb d0 c = false).
    { apply N.eqb_neq. intros ->. apply Hn. left. reflexivity. }
    assert (He : ~ In d0 e) by (intros H; apply Hn; right; exact H).
    change ((c :: e) ++ x) with (c :: (e ++ x)).
    cbn [pieces]. cbn [prefixb]. rewrite Hc. cbn [andb].
    rewrite (IH He). reflexivity.
Qed.

Lemma pieces_delim : forall d0 dr x,
  pieces (d0 :: dr) 0 ((d0 :: dr) ++ x) = [] :: pieces (d0 :: dr) 0 x.
Proof.
  intros d0 dr x. change ((d0 :: dr) ++ x) with (d0 :: (dr ++ x)).
  cbn [pieces].
  change (prefixb (d0 :: dr) (d0 :: dr ++ x)) with (prefixb (d0 :: dr) ((d0 :: dr) ++ x)).
  rewrite prefixb_app.
  replace (length (d0 :: dr) - 1) with (length dr) by (simpl; lia).
  rewrite pieces_skip. reflexivity.
Qed.

Lemma pieces_short : forall d s, length s < length d -> pieces d 0 s = [s].
Proof.
  intros d s. induction s as [|c s IH]; intros H; [reflexivity|].
  cbn [pieces]. rewrite (prefixb_short d (c :: s) H).
  rewrite IH by (simpl in H; lia). reflexivity.
Qed.

(* ------------------------------------------------------------------ framing *)
Section FramingP.
  Variable P : Type.
  Variable parse : list N -> option P.
  Variable enc : P -> list N.
  Variables (d0 : N) (dr : list N).
  Let D := d0 :: dr.

  Variable ok : P -> Prop.                   (* the packets honest peers send (JSON objects) *)
  Hypothesis Hrt : forall p, ok p -> parse (enc p) = Some p.
  Hypothesis Hclean : forall p, ok p -> ~ In d0 (enc p).
  Hypothesis Hpre : forall p q r, ok p -> enc p = q ++ r -> r <> [] -> parse q = None.
  Hypothesis Hext : forall p t t', ok p -> D = t ++ t' -> t <> [] -> t' <> [] -> parse (enc p ++ t) = None.
  Hypothesis Hdel : forall t t', D = t ++ t' -> t' <> [] -> parse t = None.

  Notation proc := (proc P parse).
  Notation feed := (feed P parse D).
  Notation run := (run P parse D).
  Notation frames := (frames P D enc).

  Definition good (e : list N) : Prop := e = [] \/ exists p, ok p /\ e = enc p.

  Definition Inv (buf rest : list N) (exp : list P) : Prop :=
    (buf = [] /\ rest = [] /\ exp = []) \/
    (exists e pend, good e /\ Forall ok pend /\ buf ++ rest = e ++ D ++ frames pend /\
                    exp = opt_list (parse e) ++ pend /\ length buf < length e + length D).

  Lemma Inv_right : forall buf rest e pend exp, good e -> Forall ok pend -> buf ++ rest = e ++ D ++ frames pend ->
    exp = opt_list (parse e) ++ pend -> length buf < length e + length D -> Inv buf rest exp.
  Proof. intros. right. exists e, pend. auto. Qed.

  Lemma parse_nil : parse [] = None.
  Proof. apply (Hdel [] D); [reflexivity|discriminate]. Qed.

  Lemma good_clean : forall e, good e -> ~ In d0 e.
  Proof. intros e [->|[p [Hok ->]]]; [intros []|apply Hclean; exact Hok]. Qed.

  Lemma proc_cons : forall x ps, ps <> [] ->
    proc (x :: ps) = (opt_list (parse x) ++ fst (proc ps), snd (proc ps)).
  Proof.
    intros x ps H. destruct ps as [|y ps]; [contradiction|].
    change (proc (x :: y :: ps)) with (let '(o, b) := proc (y :: ps) in (opt_list (parse x) ++ o, b)).
    destruct (proc (y :: ps)); reflexivity.
  Qed.

  Lemma proc_single : forall l, proc [l] = match parse l with Some p => ([p], []) | None => ([], l) end.
  Proof. reflexivity. Qed.

  Lemma frames_cons : forall p ps, frames (p :: ps) = enc p ++ D ++ frames ps.
  Proof. intros. unfold NodeProto.frames. simpl. rewrite <- app_assoc. reflexivity. Qed.

  Definition Post (e : list N) (pend : list P) (u rest' : list N) : Prop :=
    exists out buf' exp', proc (split D u) = (out, buf') /\
                          opt_list (parse e) ++ pend = out ++ exp' /\ Inv buf' rest' exp'.

  Lemma split_clean1 : forall u, ~ In d0 u -> split D u = [u].
  Proof.
    intros u Hc. unfold split. rewrite <- (app_nil_r u) at 1. unfold D.
    rewrite (pieces_clean d0 dr u [] Hc). simpl. rewrite app_nil_r. reflexivity.
  Qed.

  (* u ends inside e (or exactly at its end) *)
  Lemma caseB : forall pend e u l rest', good e -> Forall ok pend -> e = u ++ l -> rest' = l ++ D ++ frames pend ->
    Post e pend u rest'.
  Proof.
    intros pend e u l rest' Hg Hok He Hr. pose proof (good_clean e Hg) as Hce. unfold Post.
    destruct l as [|l0 l].
    - rewrite app_nil_r in He. subst u. simpl in Hr.
      rewrite (split_clean1 e Hce), proc_single.
      destruct Hg as [->|[p [Hp ->]]].
      + rewrite parse_nil. exists [], [], pend.
        split; [reflexivity|split; [reflexivity|]].
        apply (Inv_right _ _ [] pend);
          [left; reflexivity|exact Hok|simpl; rewrite Hr; reflexivity|rewrite parse_nil; reflexivity|simpl; lia].
      + rewrite (Hrt p Hp). exists [p], [], pend.
        split; [reflexivity|split; [reflexivity|]].
        apply (Inv_right _ _ [] pend);
          [left; reflexivity|exact Hok|simpl; rewrite Hr; reflexivity|rewrite parse_nil; reflexivity|simpl; lia].
    - destruct Hg as [->|[p [Hpk Hp]]]; [destruct u; discriminate He|].
      assert (Hcu : ~ In d0 u). { intros Hi. apply Hce. rewrite He. apply in_or_app. left. exact Hi. }
      rewrite (split_clean1 u Hcu), proc_single.
      rewrite (Hpre p u (l0 :: l) Hpk) by (try discriminate; rewrite <- Hp; exact He).
      exists [], u, (opt_list (parse e) ++ pend).
      split; [reflexivity|split; [reflexivity|]].
      apply (Inv_right _ _ e pend);
        [right; exists p; split; assumption|exact Hok| |reflexivity|rewrite He, app_length; simpl; lia].
      rewrite Hr. rewrite He at 1. rewrite <- app_assoc. reflexivity.
  Qed.

  (* u ends inside the delimiter that follows e *)
  Lemma caseA1 : forall pend e u l m0 m rest', good e -> Forall ok pend -> u = e ++ l -> D = l ++ m0 :: m ->
    rest' = (m0 :: m) ++ frames pend -> Post e pend u rest'.
  Proof.
    intros pend e u l m0 m rest' Hg Hok Hu HD Hm. pose proof (good_clean e Hg) as Hce. unfold Post.
    destruct l as [|l0 l].
    - rewrite app_nil_r in Hu. subst u.
      apply (caseB pend e e [] rest' Hg Hok); [rewrite app_nil_r; reflexivity|].
      rewrite Hm, HD. reflexivity.
    - assert (Hlen : length (l0 :: l) < length D) by (rewrite HD, app_length; simpl; lia).
      assert (Hsp : split D u = [e ++ l0 :: l]).
      { unfold split. rewrite Hu. unfold D. rewrite (pieces_clean d0 dr e (l0 :: l) Hce). fold D.
        rewrite pieces_short by exact Hlen. reflexivity. }
      rewrite Hsp, proc_single.
      assert (Hn : parse (e ++ l0 :: l) = None).
      { destruct Hg as [->|[p [Hpk ->]]].
        - simpl. apply (Hdel (l0 :: l) (m0 :: m) HD). discriminate.
        - apply (Hext p (l0 :: l) (m0 :: m) Hpk HD); discriminate. }
      rewrite Hn. exists [], (e ++ l0 :: l), (opt_list (parse e) ++ pend).
      split; [reflexivity|split; [reflexivity|]].
      apply (Inv_right _ _ e pend); [exact Hg|exact Hok| |reflexivity|rewrite app_length; lia].
      rewrite Hm. transitivity (e ++ ((l0 :: l) ++ m0 :: m) ++ frames pend).
      { rewrite <- !app_assoc. reflexivity. }
      rewrite <- HD. reflexivity.
  Qed.

  (* u covers e and the whole delimiter *)
  Lemma caseA2 : forall e (exp0 : list P) u m rest', good e -> u = e ++ D ++ m ->
    (exists out buf' exp', proc (split D m) = (out, buf') /\ exp0 = out ++ exp' /\ Inv buf' rest' exp') ->
    exists out buf' exp', proc (split D u) = (out, buf') /\
                          opt_list (parse e) ++ exp0 = out ++ exp' /\ Inv buf' rest' exp'.
  Proof.
    intros e exp0 u m rest' Hg Hu (out & buf' & exp' & Hp & He & Hi).
    pose proof (good_clean e Hg) as Hce.
    exists (opt_list (parse e) ++ out), buf', exp'.
    split; [|split; [rewrite He, app_assoc; reflexivity|exact Hi]].
    unfold split in *. rewrite Hu. unfold D at 1. rewrite (pieces_clean d0 dr e _ Hce). fold D.
    change (pieces D 0 (D ++ m)) with (pieces (d0 :: dr) 0 ((d0 :: dr) ++ m)).
    rewrite (pieces_delim d0 dr m). fold D. rewrite app_nil_r.
    rewrite proc_cons by apply pieces_nonempty. rewrite Hp. reflexivity.
  Qed.

  Lemma proc_empty : proc (split D []) = ([], []).
  Proof. unfold split. simpl. rewrite parse_nil. reflexivity. Qed.

  (* what one call of add_buffer does when buffer ++ data = u is a prefix of an honest stream that
     starts with [e], the delimiter and complete frames *)
  Lemma G : forall pend e u rest', good e -> Forall ok pend -> u ++ rest' = e ++ D ++ frames pend ->
    Post e pend u rest'.
  Proof.
    induction pend as [|p' pend IH]; intros e u rest' Hg Hok H.
    all: apply app_eq_app in H; destruct H as [l [[Hu Hr]|[He Hr]]].
    all: try (apply (caseB _ e u l rest' Hg Hok He Hr)).
    all: symmetry in Hr; apply app_eq_app in Hr; destruct Hr as [m [[Hl Hm]|[HD Hm]]].
    - (* pend = [], l = D ++ m *)
      apply (caseA2 e [] u m rest' Hg); [rewrite Hu, Hl; reflexivity|].
      simpl in Hm. symmetry in Hm. apply app_eq_nil in Hm. destruct Hm as [-> ->].
      exists [], [], []. split; [apply proc_empty|split; [reflexivity|left; auto]].
    - destruct m as [|m0 m].
      + rewrite app_nil_r in HD. subst l. simpl in Hm. subst rest'.
        apply (caseA2 e [] u [] [] Hg); [rewrite Hu, app_nil_r; reflexivity|].
        exists [], [], []. split; [apply proc_empty|split; [reflexivity|left; auto]].
      + apply (caseA1 [] e u l m0 m rest' Hg Hok Hu HD Hm).
    - (* pend = p' :: pend, l = D ++ m *)
      pose proof (Forall_inv Hok) as Hp'. pose proof (Forall_inv_tail Hok) as Hok'.
      apply (caseA2 e (p' :: pend) u m rest' Hg); [rewrite Hu, Hl; reflexivity|].
      rewrite frames_cons in Hm. symmetry in Hm.
      destruct (IH (enc p') m rest' (or_intror (ex_intro _ p' (conj Hp' eq_refl))) Hok' Hm)
        as (out & buf' & exp' & Hp & He & Hi).
      exists out, buf', exp'. split; [exact Hp|split; [|exact Hi]].
      rewrite (Hrt p' Hp') in He. exact He.
    - pose proof (Forall_inv Hok) as Hp'. pose proof (Forall_inv_tail Hok) as Hok'.
      destruct m as [|m0 m].
      + rewrite app_nil_r in HD. subst l. simpl in Hm. subst rest'.
        apply (caseA2 e (p' :: pend) u [] _ Hg); [rewrite Hu, app_nil_r; reflexivity|].
        exists [], [], (p' :: pend). split; [apply proc_empty|split; [reflexivity|]].
        apply (Inv_right _ _ (enc p') pend);
          [right; exists p'; split; [exact Hp'|reflexivity]|exact Hok'|simpl; apply frames_cons
          |rewrite (Hrt p' Hp'); reflexivity|simpl; lia].
      + apply (caseA1 (p' :: pend) e u l m0 m rest' Hg Hok Hu HD Hm).
  Qed.

  Lemma step_inv : forall buf d rest' exp, Inv buf (d ++ rest') exp ->
    exists out buf' exp', feed buf d = (out, buf') /\ exp = out ++ exp' /\ Inv buf' rest' exp'.
  Proof.
    intros buf d rest' exp [(Hb & Hr & He)|(e & pend & Hg & Hok & Hs & He & _)].
    - apply app_eq_nil in Hr. destruct Hr as [-> ->]. subst buf exp.
      exists [], [], []. split; [|split; [reflexivity|left; auto]].
      unfold NodeProto.feed, split. simpl. rewrite parse_nil. reflexivity.
    - rewrite app_assoc in Hs.
      destruct (G pend e (buf ++ d) rest' Hg Hok Hs) as (out & buf' & exp' & Hp & Hx & Hi).
      exists out, buf', exp'. split; [exact Hp|split; [rewrite He; exact Hx|exact Hi]].
  Qed.

  Lemma Inv_end : forall buf exp, Inv buf [] exp -> buf = [] /\ exp = [].
  Proof.
    intros buf exp [(-> & _ & ->)|(e & pend & _ & _ & Hs & _ & Hl)]; [auto|].
    rewrite app_nil_r in Hs. rewrite Hs, !app_length in Hl. lia.
  Qed.

  Lemma frames_app : forall a b, frames (a ++ b) = frames a ++ frames b.
  Proof. intros a b. unfold NodeProto.frames. rewrite map_app, concat_app. reflexivity. Qed.

  (* the writer appends complete frames to the stream that is still to be read *)
  Lemma Inv_extend : forall buf rest exp ps, Forall ok ps -> Inv buf rest exp ->
    Inv buf (rest ++ frames ps) (exp ++ ps).
  Proof.
    intros buf rest exp ps Hps [(-> & -> & ->)|(e & pend & Hg & Hok & Hs & He & Hl)].
    - destruct ps as [|p ps]; [left; auto|]. inversion Hps as [|? ? Hp Hps']; subst.
      apply (Inv_right _ _ (enc p) ps);
        [right; exists p; split; [exact Hp|reflexivity]|exact Hps'|simpl; apply frames_cons
        |rewrite (Hrt p Hp); reflexivity|simpl; lia].
    - apply (Inv_right _ _ e (pend ++ ps)); [exact Hg|apply Forall_app; split; assumption| | |exact Hl].
      + rewrite app_assoc, Hs, frames_app, <- !app_assoc. reflexivity.
      + rewrite He, app_assoc. reflexivity.
  Qed.

  Lemma Inv_ok : forall buf rest exp, Inv buf rest exp -> Forall ok exp.
  Proof.
    intros buf rest exp [(_ & _ & ->)|(e & pend & Hg & Hok & _ & -> & _)]; [constructor|].
    apply Forall_app. split; [|exact Hok].
    destruct Hg as [->|[p [Hp ->]]]; [rewrite parse_nil; constructor|].
    rewrite (Hrt p Hp). repeat constructor. exact Hp.
  Qed.

  Lemma run_inv : forall cs buf exp, Inv buf (concat cs) exp -> run buf cs = (exp, []).
  Proof.
    induction cs as [|c cs IH]; intros buf exp H.
    - simpl in *. destruct (Inv_end _ _ H) as [-> ->]. reflexivity.
    - simpl concat in H. destruct (step_inv buf c (concat cs) exp H) as (out & buf' & exp' & Hf & He & Hi).
      cbn [NodeProto.run]. rewrite Hf. rewrite (IH buf' exp' Hi). rewrite He. reflexivity.
  Qed.

  Theorem framing : forall ps cs, Forall ok ps -> concat cs = frames ps -> run [] cs = (ps, []).
  Proof.
    intros ps cs Hok H. apply run_inv. rewrite H.
    replace ps with ([] ++ ps) at 2 by reflexivity. rewrite <- (app_nil_l (frames ps)).
    apply Inv_extend; [exact Hok|left; auto].
  Qed.

  Corollary framing_cut_independent : forall ps cs1 cs2, Forall ok ps ->
    concat cs1 = frames ps -> concat cs2 = frames ps -> run [] cs1 = run [] cs2.
  Proof. intros ps cs1 cs2 Hok H1 H2. rewrite (framing ps cs1 Hok H1), (framing ps cs2 Hok H2). reflexivity. Qed.
End FramingP.

(* ------------------------------------------------------------------ strings, association lists *)
Lemma str_eqb_eq : forall a b, str_eqb a b = true <-> a = b.
Proof.
  induction a as [|x a IH]; destruct b as [|y b]; simpl; split; intros H; try reflexivity; try discriminate.
  - apply andb_true_iff in H. destruct H as [H1 H2]. apply N.eqb_eq in H1. apply IH in H2. subst. reflexivity.
  - inversion H; subst. rewrite N.eqb_refl. apply IH. reflexivity.
Qed.

Lemma str_eqb_refl : forall a, str_eqb a a = true.
Proof. intros. apply str_eqb_eq. reflexivity. Qed.

Lemma str_eqb_neq : forall a b, a <> b -> str_eqb a b = false.
Proof. intros a b H. destruct (str_eqb a b) eqn:E; [|reflexivity]. apply str_eqb_eq in E. contradiction. Qed.

Lemma get_set_same : forall (k : list N) (v : json) l, get k (set_kv k v l) = Some v.
Proof.
  intros k v l. induction l as [|[k' v'] l IH]; simpl.
  - rewrite str_eqb_refl. reflexivity.
  - destruct (str_eqb k k') eqn:E; simpl.
    + rewrite str_eqb_refl. reflexivity.
    + destruct (str_ltb k k'); simpl; [rewrite str_eqb_refl; reflexivity|]. rewrite E. exact IH.
Qed.

Lemma get_set_other : forall (k k1 : list N) (v : json) l, k <> k1 -> get k (set_kv k1 v l) = get k l.
Proof.
  intros k k1 v l Hn. induction l as [|[k' v'] l IH]; simpl.
  - rewrite (str_eqb_neq k k1 Hn). reflexivity.
  - destruct (str_eqb k1 k') eqn:E; simpl.
    + apply str_eqb_eq in E. subst k'. rewrite (str_eqb_neq k k1 Hn). reflexivity.
    + destruct (str_ltb k1 k'); simpl.
      * rewrite (str_eqb_neq k k1 Hn). reflexivity.
      * destruct (str_eqb k k'); [reflexivity|exact IH].
Qed.

Lemma get_filter : forall (f : list N -> bool) (k : list N) (l : list (list N * json)),
  get k (filter (fun p => f (fst p)) l) = if f k then get k l else None.
Proof.
  intros f k l. induction l as [|[k' v'] l IH]; simpl; [destruct (f k); reflexivity|].
  destruct (f k') eqn:Ef; simpl.
  - destruct (str_eqb k k') eqn:E; [|exact IH].
    apply str_eqb_eq in E. subst k'. rewrite Ef. reflexivity.
  - destruct (str_eqb k k') eqn:E; [|exact IH].
    apply str_eqb_eq in E. subst k'. rewrite Ef in IH |- *. exact IH.
Qed.


Lemma NoDup_filter_keys_Z : forall (f : Z * nat -> bool) l, NoDup (map fst l) -> NoDup (map fst (filter f l)).
Proof.
  intros f l. induction l as [|p l IH]; simpl; intros H; [constructor|].
  inversion H as [|? ? Hni Hnd]; subst.
  destruct (f p); simpl; [|apply IH; exact Hnd].
  constructor; [|apply IH; exact Hnd].
  intros Hi. apply Hni. apply in_map_iff in Hi. destruct Hi as [q [Hq Hin]].
  apply filter_In in Hin. apply in_map_iff. exists q. tauto.
Qed.

Lemma NoDup_app_single : forall (l : list Z) x, NoDup l -> ~ In x l -> NoDup (l ++ [x]).
Proof.
  induction l as [|y l IH]; intros x Hn Hi; simpl; [constructor; [tauto|constructor]|].
  inversion Hn; subst. constructor.
  - intros H. apply in_app_or in H. destruct H as [H|[H|[]]]; [contradiction|]. subst. apply Hi. left. reflexivity.
  - apply IH; [assumption|]. intros H. apply Hi. right. exact H.
Qed.

Section MetaP.
  Variable excl : list (list N).

  Lemma apply_meta_blocked : forall k meta attrs, allowed excl k = false ->
    get k (apply_meta excl meta attrs) = get k attrs.
  Proof.
    intros k meta. induction meta as [|[k1 v1] meta IH]; intros attrs Hk; simpl; [reflexivity|].
    rewrite IH by exact Hk. destruct (allowed excl k1) eqn:E; [|reflexivity].
    apply get_set_other. intros ->. rewrite Hk in E. discriminate.
  Qed.

  Lemma get_notin : forall (k : list N) (l : list (list N * json)), ~ In k (map fst l) -> get k l = None.
  Proof.
    intros k l. induction l as [|[k2 v2] l IH]; simpl; intros Hni; [reflexivity|].
    destruct (str_eqb k k2) eqn:E2.
    - apply str_eqb_eq in E2. subst. exfalso. apply Hni. left. reflexivity.
    - apply IH. intros H. apply Hni. right. exact H.
  Qed.

  Lemma apply_meta_get : forall k meta attrs, NoDup (map fst meta) -> allowed excl k = true ->
    get k (apply_meta excl meta attrs) = match get k meta with Some v => Some v | None => get k attrs end.
  Proof.
    intros k meta. induction meta as [|[k1 v1] meta IH]; intros attrs Hnd Hk; simpl; [reflexivity|].
    inversion Hnd as [|? ? Hni Hnd']; subst.
    rewrite IH by assumption.
    destruct (str_eqb k k1) eqn:E.
    - apply str_eqb_eq in E. subst k1. rewrite Hk.
      rewrite (get_notin k meta Hni). apply get_set_same.
    - destruct (get k meta); [reflexivity|].
      destruct (allowed excl k1); [|reflexivity].
      apply get_set_other. intros ->. rewrite str_eqb_refl in E. discriminate.
  Qed.

  Lemma NoDup_filter_keys : forall (f : list N * json -> bool) l,
    NoDup (map fst l) -> NoDup (map fst (filter f l)).
  Proof.
    intros f l. induction l as [|p l IH]; simpl; intros H; [constructor|].
    inversion H as [|? ? Hni Hnd]; subst.
    destruct (f p); simpl; [|apply IH; exact Hnd].
    constructor; [|apply IH; exact Hnd].
    intros Hi. apply Hni. apply in_map_iff in Hi. destruct Hi as [q [Hq Hin]].
    apply filter_In in Hin. apply in_map_iff. exists q. tauto.
  Qed.

  Lemma blocked_of_excl : forall k, mem_str k excl = true -> allowed excl k = false.
  Proof. intros k H. unfold allowed. rewrite H. apply andb_false_r. Qed.

  Ltac crack H :=
    repeat match type of H with
           | context [match ?x with _ => _ end] => destruct x eqn:?; try discriminate H
           end.

  (* whatever a peer puts into a call packet: no excluded (or dunder) attribute is set on the event,
     and the channels are hashable *)
  Theorem load_event_safe : forall data e id, load_event excl data = Some (e, id) ->
    (forall k, allowed excl k = false -> get k (eattrs e) = None) /\ forallb hashable (echannels e) = true.
  Proof.
    intros data e id H. unfold load_event in H. crack H.
    inversion H; subst; clear H. simpl. split; [|assumption].
    intros k Hk. rewrite apply_meta_blocked by exact Hk. reflexivity.
  Qed.

  (* the three flags the dispatcher tests are booleans: Python's bool() of whatever JSON value was sent *)
  Theorem load_event_flags : forall data e id, load_event excl data = Some (e, id) ->
    exists o s f n, data = JObj o /\ get k_success o = Some s /\ get k_failure o = Some f /\
                    get k_notify o = Some n /\
                    esuccess e = truthy s /\ efailure e = truthy f /\ enotify e = truthy n.
  Proof.
    intros data e id H. unfold load_event in H. crack H.
    inversion H; subst; clear H. cbn [esuccess efailure enotify].
    eexists _, _, _, _. repeat split; eassumption || reflexivity.
  Qed.

  Theorem load_event_dispatch_safe : forall data e id, load_event excl data = Some (e, id) ->
    mem_str k_cause excl = true -> dispatch_safe e = true.
  Proof.
    intros data e id H Hc. destruct (load_event_safe data e id H) as [Ha Hh].
    unfold dispatch_safe. rewrite Hh. rewrite (Ha k_cause (blocked_of_excl _ Hc)). reflexivity.
  Qed.

  Theorem load_value_safe : forall o v id er meta, load_value excl o = LvOk v id er meta ->
    forall k, allowed excl k = false -> get k meta = None.
  Proof.
    intros o v id er meta H k Hk. unfold load_value in H. crack H.
    inversion H; subst; clear H.
    rewrite (get_filter (allowed excl)). rewrite Hk. reflexivity.
  Qed.

  (* serialisation: load_event (dump_event e id) gives back name, args, kwargs, flags, channels, id *)
  Definition wf_event (e : event) : Prop :=
    existsb (N.eqb 0) (ename e) = false /\ existsb surrogate (ename e) = false /\
    mem_str k__name (map fst (ekwargs e)) = false /\ mem_str k_cls (map fst (ekwargs e)) = false /\
    mem_str k_self (map fst (ekwargs e)) = false /\
    forallb hashable (echannels e) = true.

  Theorem serial : forall e id, wf_event e ->
    load_event excl (event_data excl e id) =
    Some ({| ename := ename e; eargs := eargs e; ekwargs := ekwargs e; esuccess := esuccess e;
             efailure := efailure e; enotify := enotify e; echannels := echannels e;
             eattrs := apply_meta excl (dump_meta_ev excl e) [] |}, id).
  Proof.
    intros e id (Hn & Hsu & H1 & H2 & H3 & Hh). unfold load_event, event_data.
    change (get k_name _) with (Some (JStr (ename e))).
    change (get k_args _) with (Some (JArr (eargs e))).
    change (get k_kwargs _) with (Some (JObj (ekwargs e))).
    change (get k_success _) with (Some (JBool (esuccess e))).
    change (get k_failure _) with (Some (JBool (efailure e))).
    change (get k_notify _) with (Some (JBool (enotify e))).
    change (get k_channels _) with (Some (JArr (echannels e))).
    change (get k_meta _) with (Some (JObj (dump_meta_ev excl e))).
    change (get k_id _) with (Some id).
    cbn [iter_json as_dict truthy]. rewrite H1, H2, H3, Hn, Hsu, Hh. reflexivity.
  Qed.

  Theorem serial_attrs : forall e k, NoDup (map fst (eattrs e)) ->
    get k (apply_meta excl (dump_meta_ev excl e) []) =
    if allowed excl k then get k (eattrs e) else None.
  Proof.
    intros e k Hnd. destruct (allowed excl k) eqn:Hk.
    - rewrite apply_meta_get; [|apply NoDup_filter_keys; exact Hnd|exact Hk].
      unfold dump_meta_ev. rewrite (get_filter (fun k => negb (mem_str k excl))).
      unfold allowed in Hk. apply andb_true_iff in Hk. destruct Hk as [_ Hk]. rewrite Hk.
      destruct (get k (eattrs e)); reflexivity.
    - apply apply_meta_blocked. exact Hk.
  Qed.

  (* firewalls *)
  Variable dumps : json -> option (list N).
  Variable loads : list N -> option (option json).
  Variable D : list N.
  Variables fw_send fw_recv : event -> bool.
  Variable handler : event -> hres.
  Variable b_chan : json.

  Notation b_packet := (b_packet excl dumps D fw_recv handler b_chan).
  Notation a_send := (a_send excl dumps D fw_send).

  Definition dispatched (r : list event * list (nat * list N) * bool * bool) : list event :=
    let '(l, _, _, _) := r in l.

  (* a call rejected by the receive firewall is never dispatched, whatever the packet *)
  Theorem firewall_recv : forall j e id, load_event excl j = Some (e, id) -> fw_recv e = false ->
    dispatched (b_packet j) = [].
  Proof.
    intros j e id Hl Hf. unfold NodeProto.b_packet.
    destruct (is_miss j); [reflexivity|].
    destruct (is_value j) as [o|].
    - destruct (load_value excl o); reflexivity.
    - rewrite Hl, Hf. destruct (packet dumps D _); reflexivity.
  Qed.

  (* every packet makes B dispatch at most one event, and only one that passed the firewall *)
  Theorem dispatch_at_most_once : forall j, length (dispatched (b_packet j)) <= 1.
  Proof.
    intros j. unfold NodeProto.b_packet.
    destruct (is_miss j); [simpl; lia|].
    destruct (is_value j) as [o|].
    - destruct (load_value excl o); simpl; lia.
    - destruct (load_event excl j) as [[e id]|]; [|simpl; lia].
      destruct (fw_recv e).
      + match goal with |- context [handler ?x] => destruct (handler x) as [|r|r|[|]] end; cbv zeta;
          repeat match goal with |- context [if ?c then _ else _] => destruct c end;
          repeat match goal with |- context [match packet ?a ?b ?c with _ => _ end] => destruct (packet a b c) end;
          simpl; lia.
      + destruct (packet dumps D _); simpl; lia.
  Qed.

  (* an honest call packet whose event passes the firewall and has a handler runs exactly once *)
  Theorem dispatch_exactly_once : forall e id, wf_event e ->
    let e1 := {| ename := ename e; eargs := eargs e; ekwargs := ekwargs e; esuccess := esuccess e;
                 efailure := efailure e; enotify := enotify e; echannels := echannels e;
                 eattrs := apply_meta excl (dump_meta_ev excl e) [] |} in
    let e2 := {| ename := ename e; eargs := eargs e; ekwargs := ekwargs e; esuccess := true;
                 efailure := efailure e; enotify := enotify e;
                 echannels := match echannels e with [] => [b_chan] | l => l end;
                 eattrs := apply_meta excl (dump_meta_ev excl e) [] |} in
    is_miss (event_data excl e id) = false -> fw_recv e1 = true -> handler e2 <> HNone ->
    dispatched (b_packet (event_data excl e id)) = [e2].
  Proof.
    intros e id Hwf e1 e2 Hm Hf Hh. unfold NodeProto.b_packet. rewrite Hm.
    change (is_value (event_data excl e id)) with (@None (list (list N * json))).
    rewrite (serial e id Hwf). change (fw_recv _) with (fw_recv e1). rewrite Hf.
    change (handler _) with (handler e2). cbv zeta.
    destruct (handler e2) as [|r|r|late]; [congruence| | |];
      (destruct (no_reply id); [reflexivity|]; destruct (packet dumps D _); reflexivity).
  Qed.

  (* a call rejected by the send firewall writes nothing and consumes no id *)
  Theorem firewall_send : forall s e m, fw_send e = false ->
    wab (a_send s e m) = wab s /\ a_nid (a_send s e m) = a_nid s /\ a_pend (a_send s e m) = a_pend s
    /\ a_issued (a_send s e m) = a_issued s.
  Proof. intros s e m H. unfold NodeProto.a_send. rewrite H. simpl. auto. Qed.

  (* a send that passes the firewall, with or without result, writes the call with the current id,
     records that id as handed to the peer and moves the counter on *)
  Theorem send_id : forall s e m b, fw_send e = true ->
    packet dumps D (event_data excl e (JInt (a_nid s))) = Some b ->
    wab (a_send s e m) = wab s ++ b /\ a_issued (a_send s e m) = a_issued s ++ [a_nid s]
    /\ a_nid (a_send s e m) = (a_nid s + 1)%Z
    /\ a_pend (a_send s e m) = match m with MCall => a_pend s ++ [(a_nid s, length (a_calls s))] | _ => a_pend s end
    /\ a_nores (a_send s e m) = match m with MCall => a_nores s | _ => a_nores s ++ [a_nid s] end.
  Proof. intros s e m b Hf Hp. unfold NodeProto.a_send. rewrite Hf, Hp. simpl. auto. Qed.

  (* the answer to call [id] reaches exactly the waiting call registered under [id] *)
  Theorem result_routing : forall pend calls id i v er e,
    zget id pend = Some i -> is_miss (value_data excl (JInt id) er v e) = false ->
    a_packet excl pend calls (value_data excl (JInt id) er v e) =
    (upd i (fun c => set_value c v er (filter (fun p => allowed excl (fst p)) (dump_meta excl e))) calls,
     false, false).
  Proof.
    intros pend calls id i v er e Hz Hm. unfold a_packet. rewrite Hm.
    unfold value_data, is_value. change (get k_value _) with (Some v).
    unfold load_value. change (get k_meta _) with (Some (JObj (dump_meta excl e))).
    change (get k_value _) with (Some v). change (get k_id _) with (Some (JInt id)).
    change (get k_errors _) with (Some er). cbn [hashable id_key]. rewrite Hz. reflexivity.
  Qed.

  (* a reply whose id is not registered (e.g. the reply to a send without result) changes nothing *)
  Theorem unregistered_reply_ignored : forall pend calls id v er e,
    zget id pend = None -> is_miss (value_data excl (JInt id) er v e) = false ->
    a_packet excl pend calls (value_data excl (JInt id) er v e) = (calls, false, false).
  Proof.
    intros pend calls id v er e Hz Hm. unfold a_packet. rewrite Hm.
    unfold value_data, is_value. change (get k_value _) with (Some v).
    unfold load_value. change (get k_meta _) with (Some (JObj (dump_meta excl e))).
    change (get k_value _) with (Some v). change (get k_id _) with (Some (JInt id)).
    change (get k_errors _) with (Some er). cbn [hashable id_key]. rewrite Hz. reflexivity.
  Qed.

  (* ids handed to the peer (with or without result) are never reused; the ids of the waiting calls
     are among them, pairwise distinct, and disjoint from the ids of sends without result - for every
     schedule and every hostile input *)
  Notation step := (step excl dumps loads D fw_send fw_recv handler b_chan).
  Definition ids_ok (s : st) : Prop :=
    NoDup (a_issued s) /\
    (forall x, In x (a_issued s) -> (x < a_nid s)%Z) /\
    NoDup (map fst (a_pend s)) /\
    (forall x, In x (map fst (a_pend s)) -> In x (a_issued s) /\ ~ In x (a_nores s)) /\
    (forall x, In x (a_nores s) -> In x (a_issued s)).

  Lemma in_keys_filter : forall (f : Z * nat -> bool) l x, In x (map fst (filter f l)) -> In x (map fst l).
  Proof.
    intros f l x H. apply in_map_iff in H. destruct H as [q [Hq Hin]].
    apply filter_In in Hin. apply in_map_iff. exists q. tauto.
  Qed.

  Lemma ids_ok_filter : forall f s s', ids_ok s -> a_nid s' = a_nid s -> a_issued s' = a_issued s ->
    a_nores s' = a_nores s -> a_pend s' = filter f (a_pend s) -> ids_ok s'.
  Proof.
    intros f s s' (H1 & H2 & H3 & H4 & H5) Hnid Hi Hn Hp. unfold ids_ok. rewrite Hp, Hnid, Hi, Hn.
    repeat split; try assumption.
    - apply NoDup_filter_keys_Z. exact H3.
    - apply (H4 x). eapply in_keys_filter. eassumption.
    - apply (H4 x). eapply in_keys_filter. eassumption.
  Qed.

  Lemma ids_ok_same : forall s s', ids_ok s -> a_nid s' = a_nid s -> a_issued s' = a_issued s ->
    a_nores s' = a_nores s -> a_pend s' = a_pend s -> ids_ok s'.
  Proof. intros s s' H Hnid Hi Hn Hp. unfold ids_ok in *. rewrite Hp, Hnid, Hi, Hn. exact H. Qed.

  Lemma step_ids : forall s o, ids_ok s -> ids_ok (step s o).
  Proof.
    intros s o H. destruct o as [e m|b|b|n|n| |]; cbn [NodeProto.step].
    - unfold NodeProto.a_send. destruct (fw_send e); [|eapply ids_ok_same; [exact H|reflexivity..]].
      destruct (packet dumps D _); [|eapply ids_ok_same; [exact H|reflexivity..]].
      destruct H as (H1 & H2 & H3 & H4 & H5). unfold ids_ok. cbn [a_pend a_nid a_issued a_nores].
      assert (Hfresh : ~ In (a_nid s) (a_issued s)) by (intros Hi; specialize (H2 _ Hi); lia).
      split; [apply NoDup_app_single; assumption|].
      split; [intros x Hx; apply in_app_or in Hx; destruct Hx as [Hx|[<-|[]]]; [specialize (H2 _ Hx)|]; lia|].
      destruct m.
      + (* with result *)
        split; [rewrite map_app; simpl; apply NoDup_app_single; [exact H3|]; intros Hi; apply Hfresh, (H4 _ Hi)|].
        split.
        * intros x Hx. rewrite map_app in Hx. apply in_app_or in Hx. destruct Hx as [Hx|[<-|[]]].
          -- destruct (H4 _ Hx). split; [apply in_or_app; left|]; assumption.
          -- split; [apply in_or_app; right; left; reflexivity|]. intros Hn. apply Hfresh, (H5 _ Hn).
        * intros x Hx. apply in_or_app. left. apply (H5 _ Hx).
      + split; [exact H3|]. split.
        * intros x Hx. destruct (H4 _ Hx) as [Ha Hb]. split; [apply in_or_app; left; exact Ha|].
          intros Hn. apply in_app_or in Hn. destruct Hn as [Hn|[<-|[]]]; [contradiction|contradiction].
        * intros x Hx. apply in_app_or in Hx. apply in_or_app. destruct Hx as [Hx|[<-|[]]]; [left; apply (H5 _ Hx)|right; left; reflexivity].
      + split; [exact H3|]. split.
        * intros x Hx. destruct (H4 _ Hx) as [Ha Hb]. split; [apply in_or_app; left; exact Ha|].
          intros Hn. apply in_app_or in Hn. destruct Hn as [Hn|[<-|[]]]; [contradiction|contradiction].
        * intros x Hx. apply in_app_or in Hx. apply in_or_app. destruct Hx as [Hx|[<-|[]]]; [left; apply (H5 _ Hx)|right; left; reflexivity].
    - eapply ids_ok_same; [exact H|reflexivity..].
    - eapply ids_ok_same; [exact H|reflexivity..].
    - destruct (take n (wab s)) as [d rest]. destruct d; [exact H|].
      unfold b_read. cbn [b_buf]. destruct (feed json _ D _ _) as [js buf].
      destruct (b_packets _ _ _ _ _ _ js) as [[[l o] ab] bd]. eapply ids_ok_same; [exact H|reflexivity..].
    - destruct (take n (wba s)) as [d rest]. destruct d; [exact H|].
      unfold a_read. cbn [a_buf a_pend a_calls]. destruct (feed json _ D _ _) as [js buf].
      destruct (a_packets _ _ _ js) as [[calls ab] bd].
      eapply (ids_ok_filter _ s); [exact H|reflexivity..].
    - destruct (take_packet D (wab s)) as [d rest]. destruct d; [exact H|].
      unfold b_read. cbn [b_buf]. destruct (feed json _ D _ _) as [js buf].
      destruct (b_packets _ _ _ _ _ _ js) as [[[l o] ab] bd]. eapply ids_ok_same; [exact H|reflexivity..].
    - destruct (take_packet D (wba s)) as [d rest]. destruct d; [exact H|].
      unfold a_read. cbn [a_buf a_pend a_calls]. destruct (feed json _ D _ _) as [js buf].
      destruct (a_packets _ _ _ js) as [[calls ab] bd].
      eapply (ids_ok_filter _ s); [exact H|reflexivity..].
  Qed.

  Lemma zget_notin : forall x l, ~ In x (map fst l) -> zget x l = None.
  Proof.
    intros x l. induction l as [|[k v] l IH]; simpl; intros H; [reflexivity|].
    destruct (Z.eqb x k) eqn:E; [apply Z.eqb_eq in E; subst; exfalso; apply H; left; reflexivity|].
    apply IH. intros Hi. apply H. right. exact Hi.
  Qed.

  Theorem ids_unique : forall ops,
    let s := exec excl dumps loads D fw_send fw_recv handler b_chan ops in
    NoDup (a_issued s) /\ NoDup (map fst (a_pend s)) /\
    (forall x, In x (map fst (a_pend s)) -> In x (a_issued s)) /\
    (forall x, In x (a_nores s) -> In x (a_issued s) /\ zget x (a_pend s) = None).
  Proof.
    intros ops s. subst s. unfold exec.
    assert (H : forall s, ids_ok s -> ids_ok (fold_left step ops s)).
    { induction ops as [|o ops IH]; intros s Hs; [exact Hs|]. simpl. apply IH. apply step_ids. exact Hs. }
    destruct (H (st0) ) as (H1 & H2 & H3 & H4 & H5).
    { unfold ids_ok. simpl. split; [constructor|]. split; [intros x []|]. split; [constructor|]. split; intros x []. }
    split; [exact H1|]. split; [exact H3|]. split.
    - intros x Hx. apply (H4 x Hx).
    - intros x Hx. split; [apply (H5 x Hx)|].
      apply zget_notin. intros Hi. destruct (H4 _ Hi) as [_ Hn]. contradiction.
  Qed.
End MetaP.

(* ------------------------------------------------------------------ a toy codec satisfying the framing premises *)
Module Toy.
  Local Open Scope N_scope.
  Definition enc (b : bool) : list N := if b then [49] else [48; 48].
  Definition parse (s : list N) : option bool :=
    match s with [49] => Some true | [48; 48] => Some false | _ => None end.
  Definition d0 : N := 126.
  Definition dr : list N := [126; 126].

  Lemma Hrt : forall p, parse (enc p) = Some p. Proof. destruct p; reflexivity. Qed.
  Lemma Hclean : forall p, ~ In d0 (enc p).
  Proof. destruct p; simpl; unfold d0; intros H; repeat (destruct H as [H|H]; [discriminate H|]); exact H. Qed.
  Lemma Hpre : forall p q r, enc p = q ++ r -> r <> [] -> parse q = None.
  Proof.
    intros p q r H Hr. destruct p; simpl in H; destruct q as [|a [|b [|c q]]]; simpl in H;
      try reflexivity; inversion H; subst; try reflexivity; try congruence;
      try (destruct q; discriminate).
  Qed.
  Lemma Hext : forall p t t', d0 :: dr = t ++ t' -> t <> [] -> t' <> [] -> parse (enc p ++ t) = None.
  Proof.
    intros p t t' H Ht Ht'. destruct t as [|a t]; [congruence|]. inversion H; subst.
    destruct p; simpl; [reflexivity|]. destruct t; reflexivity.
  Qed.
  Lemma Hdel : forall t t', d0 :: dr = t ++ t' -> t' <> [] -> parse t = None.
  Proof.
    intros t t' H Ht'. destruct t as [|a [|b [|c [|x t]]]]; try reflexivity; simpl in H; inversion H; subst;
      try congruence; try (destruct t; discriminate); try reflexivity.
  Qed.

  Theorem toy_framing : forall ps cs, concat cs = frames bool (d0 :: dr) enc ps ->
    run bool parse (d0 :: dr) [] cs = (ps, []).
  Proof.
    intros ps cs H.
    apply (framing bool parse enc d0 dr (fun _ => True) (fun p _ => Hrt p) (fun p _ => Hclean p)
             (fun p q r _ => Hpre p q r) (fun p t t' _ => Hext p t t') Hdel ps cs); [|exact H].
    apply Forall_forall. intros; exact I.
  Qed.
End Toy.

(* ------------------------------------------------------------------ one concrete exchange *)
Module Ex.
  Local Open Scope N_scope.
  Definition excl : list (list N) := dispatcher_attrs ++ [k_name; k_args; k_value].
  Definition ev (name : list N) : event :=
    {| ename := name; eargs := [JInt 7%Z]; ekwargs := [(k_value, JInt 1%Z)]; esuccess := false;
       efailure := false; enotify := false; echannels := [JStr [42]]; eattrs := [([116], JInt 3%Z)] |}.
  Definition e0 := ev [101; 48].
  Definition call_data := event_data excl e0 (JInt 0%Z).
  Definition loaded : event := match load_event excl call_data with Some (e, _) => e | None => e0 end.
  Definition result : json := JArr [JStr [111; 107]].
  Definition reply_data := value_data excl (JInt 0%Z) (JBool false) result loaded.
  Definition is_call (j : json) : bool :=
    match j with JObj o => match get k_name o with Some _ => true | None => false end | _ => false end.
  Definition dumps (j : json) : option (list N) := Some (if is_call j then [65] else [66]).
  Definition loads (b : list N) : option (option json) :=
    match b with [65] => Some (Some call_data) | [66] => Some (Some reply_data) | _ => Some None end.
  Definition D : list N := [126; 126; 126].
  Definition final (h : event -> hres) (cut : nat) : st :=
    exec excl dumps loads D (fun _ => true) (fun _ => true) h (JStr [110]) 
         [OSend e0 MCall; OAB cut; OAB 0%nat; OBA cut; OBA 0%nat].

  Lemma roundtrip : forall cut, In cut [0; 1; 2; 3]%nat ->
    map c_val (a_calls (final (fun _ => HVal result) cut)) = [result]
    /\ map c_fin (a_calls (final (fun _ => HVal result) cut)) = [true]
    /\ length (b_log (final (fun _ => HVal result) cut)) = 1%nat.
  Proof. intros cut H. simpl in H. repeat (destruct H as [<-|H]; [vm_compute; auto|]). contradiction. Qed.

  (* the handler raises on the peer: the call is dispatched once and the error flag comes back *)
  Definition reply_err := value_data excl (JInt 0%Z) (JBool true) JERR loaded.
  Definition loads_err (b : list N) : option (option json) :=
    match b with [65] => Some (Some call_data) | [66] => Some (Some reply_err) | _ => Some None end.
  Definition final_err (late : bool) (cut : nat) : st :=
    exec excl dumps loads_err D (fun _ => true) (fun _ => true) (fun _ => HRaise late) (JStr [110])
         [OSend e0 MCall; OAB cut; OAB 0%nat; OBA cut; OBA 0%nat].
  Lemma error_returns : forall late cut, In cut [0; 2]%nat ->
    length (b_log (final_err late cut)) = 1%nat
    /\ map c_fin (a_calls (final_err late cut)) = [true]
    /\ map c_err (a_calls (final_err late cut)) = [Some (JBool true)]
    /\ map c_val (a_calls (final_err late cut)) = [JERR].
  Proof.
    intros late cut H. simpl in H.
    destruct late; repeat (destruct H as [<-|H]; [vm_compute; auto|]); contradiction.
  Qed.

  (* a send without result: the peer runs the event once and answers; the answer is ignored, nobody is
     resumed, the id stays used up; a following call gets the next id *)
  Definition final_nores (m : smode) : st :=
    exec excl dumps loads D (fun _ => true) (fun _ => true) (fun _ => HVal result) (JStr [110])
         [OSend e0 m; OABP; OBAP; OSend e0 MCall].
  Lemma noresult_ex : forall m, In m [MNoResAttr; MNoResApi] ->
    length (b_log (final_nores m)) = 1%nat /\ map c_fin (a_calls (final_nores m)) = [false; false]
    /\ a_issued (final_nores m) = [0; 1]%Z /\ a_nores (final_nores m) = [0%Z]
    /\ map fst (a_pend (final_nores m)) = [1%Z].
  Proof. intros m H. simpl in H. repeat (destruct H as [<-|H]; [vm_compute; auto|]). contradiction. Qed.

  Lemma e0_wf : wf_event e0 /\ NoDup (map fst (eattrs e0)).
  Proof. repeat split; try reflexivity. repeat constructor. simpl. tauto. Qed.
End Ex.
