From Coq Require Import List NArith ZArith Bool Lia.
From Circ Require Import Model.NodeProto.
Import ListNotations.

Lemma escape_no_tilde : forall s, ~ In TILDE (escape s).
Proof.
  induction s as [|c t IH]; simpl; [tauto|].
  destruct (N.eqb c TILDE) eqn:E.
  - intros H. unfold TILDE in H. repeat (destruct H as [H|H]; [discriminate H|]). tauto.
  - simpl. intros [H|H]; [|tauto]. subst c. rewrite N.eqb_refl in E. discriminate.
Qed.
