(* Proofs about Model/StaticPath.v: whatever Static serves lies inside the document root. *)
From Coq Require Import List NArith Bool Lia.
From Circ Require Import Model.StaticPath.
Import ListNotations.
Open Scope N_scope.

(* ---------- strings ---------- *)

Lemma str_eqb_eq : forall a b, str_eqb a b = true <-> a = b.
Proof.
  induction a as [|x a IH]; destruct b as [|y b]; simpl; split; intro H; try congruence; auto.
  - apply andb_true_iff in H as [H1 H2]. apply N.eqb_eq in H1. apply IH in H2. congruence.
  - inversion H; subst. rewrite N.eqb_refl. simpl. apply IH. reflexivity.
Qed.

Lemma str_eqb_neq : forall a b, str_eqb a b = false -> a <> b.
Proof. intros a b H E. apply str_eqb_eq in E. congruence. Qed.

Lemma prefixb_spec : forall p s, prefixb p s = true -> exists r, s = p ++ r.
Proof.
  induction p as [|x p IH]; intros s H; simpl in *.
  - exists s. reflexivity.
  - destruct s as [|y s]; [discriminate|].
    apply andb_true_iff in H as [H1 H2]. apply N.eqb_eq in H1. subst y.
    destruct (IH _ H2) as [r ->]. exists r. reflexivity.
Qed.

Lemma prefixb_app : forall p r, prefixb p (p ++ r) = true.
Proof. induction p as [|x p IH]; intros r; simpl; auto. rewrite N.eqb_refl. simpl. apply IH. Qed.

Lemma ends_slash_inv : forall x, ends_slash x = true -> exists x0, x = x0 ++ [SL].
Proof.
  intros x H. unfold ends_slash, starts_slash in H.
  destruct (rev x) as [|c y] eqn:E; [discriminate|].
  apply N.eqb_eq in H. subst c.
  exists (rev y). rewrite <- (rev_involutive x), E. reflexivity.
Qed.

(* ---------- split ---------- *)

Lemma split_on_nonnil : forall d s, split_on d s <> [].
Proof.
  intros d s. destruct s as [|c t]; simpl; [discriminate|].
  destruct (c =? d); [discriminate|]. destruct (split_on d t); discriminate.
Qed.

Lemma split_on_app : forall d a b, split_on d (a ++ d :: b) = split_on d a ++ split_on d b.
Proof.
  intros d a b. induction a as [|c a IH]; simpl.
  - rewrite N.eqb_refl. reflexivity.
  - destruct (c =? d); [rewrite IH; reflexivity|].
    rewrite IH. destruct (split_on d a) as [|h r] eqn:E.
    + exfalso. exact (split_on_nonnil d a E).
    + reflexivity.
Qed.

Lemma split_on_id : forall d c, ~ In d c -> split_on d c = [c].
Proof.
  intros d c. induction c as [|x c IH]; intros H; simpl; [reflexivity|].
  destruct (x =? d) eqn:E.
  - apply N.eqb_eq in E. subst. exfalso. apply H. left. reflexivity.
  - rewrite IH; [reflexivity|]. intro. apply H. right. assumption.
Qed.

Lemma split_on_nodelim : forall d s, Forall (fun c => ~ In d c) (split_on d s).
Proof.
  intros d s. induction s as [|x s IH]; simpl.
  - constructor; [intros []|constructor].
  - destruct (x =? d) eqn:E.
    + constructor; [intros []|exact IH].
    + destruct (split_on d s) as [|h r]; [repeat constructor; intros [H|[]]; subst; rewrite N.eqb_refl in E; discriminate|].
      inversion IH; subst. constructor; [|assumption].
      intros [H|H]; [subst; rewrite N.eqb_refl in E; discriminate|auto].
Qed.

Lemma comps_of_app : forall a b, comps_of (a ++ SL :: b) = comps_of a ++ comps_of b.
Proof. intros. unfold comps_of, split_slash. rewrite split_on_app, filter_app. reflexivity. Qed.

Lemma comps_of_nil : comps_of [] = [].
Proof. reflexivity. Qed.

Lemma comps_of_cons_slash : forall x, comps_of (SL :: x) = comps_of x.
Proof. intros. change (SL :: x) with ([] ++ SL :: x). rewrite comps_of_app. reflexivity. Qed.

(* ---------- plain names ---------- *)

Lemma plain_nonnil : forall c, plain c -> isnil c = false.
Proof. intros c [H _]. destruct c; [congruence|reflexivity]. Qed.

Lemma plain_not_dot : forall c, plain c -> is_dot c = false.
Proof.
  intros c (_ & H & _). unfold is_dot. destruct (str_eqb c [DOT]) eqn:E; [|reflexivity].
  apply str_eqb_eq in E. congruence.
Qed.

Lemma plain_not_dotdot : forall c, plain c -> is_dotdot c = false.
Proof.
  intros c (_ & _ & H & _). unfold is_dotdot. destruct (str_eqb c [DOT; DOT]) eqn:E; [|reflexivity].
  apply str_eqb_eq in E. congruence.
Qed.

Lemma plain_no_leading_slash : forall c, plain c -> starts_slash c = false.
Proof.
  intros c (_ & _ & _ & H). destruct c as [|x c]; [reflexivity|]. simpl.
  destruct (x =? SL) eqn:E; [|reflexivity]. apply N.eqb_eq in E. subst. exfalso. apply H. left. reflexivity.
Qed.

Lemma plainb_spec : forall c, plainb c = true -> plain c.
Proof.
  intros c H. unfold plainb in H.
  repeat (apply andb_true_iff in H; destruct H as [H ?]).
  apply negb_true_iff in H, H0, H1, H2.
  repeat split.
  - intro; subst; discriminate.
  - apply str_eqb_neq. exact H2.
  - apply str_eqb_neq. exact H1.
  - intro I. assert (existsb (N.eqb SL) c = true) as X; [|congruence].
    apply existsb_exists. exists SL. split; [assumption|apply N.eqb_refl].
Qed.

(* ---------- normpath ---------- *)

Definition ncomps (p : str) : list str := norm_comps true [] (split_slash p).

Lemma norm_plain : forall comps stack,
  Forall plain stack -> Forall (fun c => ~ In SL c) comps ->
  Forall plain (norm_comps true stack comps).
Proof.
  induction comps as [|c r IH]; intros stack Hs Hc; simpl.
  - apply Forall_rev. assumption.
  - inversion Hc as [|? ? Hc1 Hc2]; subst.
    destruct (isnil c || is_dot c) eqn:E1; [apply IH; assumption|].
    apply orb_false_iff in E1 as [En Ed].
    match goal with |- Forall plain (if ?b then _ else _) => destruct b eqn:E2 end.
    + apply IH; [|assumption]. constructor; [|assumption].
      assert (is_dotdot c = false) as Hdd.
      { destruct (is_dotdot c) eqn:Edd; [|reflexivity]. simpl in E2.
        destruct stack as [|t st]; [discriminate|].
        inversion Hs; subst. rewrite (plain_not_dotdot t) in E2 by assumption. discriminate. }
      repeat split.
      * intro; subst; discriminate.
      * apply str_eqb_neq. exact Ed.
      * apply str_eqb_neq. exact Hdd.
      * assumption.
    + apply IH; [|assumption]. destruct stack; simpl; [constructor|]. inversion Hs; assumption.
Qed.

Lemma norm_snoc_skip : forall abs l stack c, isnil c || is_dot c = true ->
  norm_comps abs stack (l ++ [c]) = norm_comps abs stack l.
Proof.
  induction l as [|x l IH]; intros stack c H; simpl.
  - rewrite H. reflexivity.
  - destruct (isnil x || is_dot x); [apply IH; assumption|].
    match goal with |- (if ?b then _ else _) = _ => destruct b end; apply IH; assumption.
Qed.

Lemma norm_snoc_plain : forall l stack c, plain c ->
  norm_comps true stack (l ++ [c]) = norm_comps true stack l ++ [c].
Proof.
  induction l as [|x l IH]; intros stack c H; simpl.
  - rewrite (plain_nonnil c H), (plain_not_dot c H), (plain_not_dotdot c H). simpl. reflexivity.
  - destruct (isnil x || is_dot x); [apply IH; assumption|].
    match goal with |- (if ?b then _ else _) = _ => destruct b end; apply IH; assumption.
Qed.

Lemma comps_of_intercalate : forall comps, Forall plain comps -> comps_of (intercalate comps) = comps.
Proof.
  induction comps as [|a r IH]; intros H; [reflexivity|].
  inversion H as [|? ? Ha Hr]; subst.
  assert (comps_of a = [a]) as Ea.
  { unfold comps_of, split_slash. destruct Ha as (Hn & _ & _ & Hs).
    rewrite split_on_id by assumption. simpl. destruct a; [congruence|reflexivity]. }
  destruct r as [|b r].
  - simpl. exact Ea.
  - change (intercalate (a :: b :: r)) with (a ++ SL :: intercalate (b :: r)).
    rewrite comps_of_app, Ea, IH by assumption. reflexivity.
Qed.

Lemma comps_of_render : forall k comps, Forall plain comps ->
  comps_of (repeat SL k ++ intercalate comps) = comps.
Proof.
  induction k as [|k IH]; intros comps H; simpl.
  - apply comps_of_intercalate. assumption.
  - rewrite comps_of_cons_slash. apply IH. assumption.
Qed.

Lemma normpath_abs : forall p, starts_slash p = true ->
  exists k, normpath p = SL :: repeat SL k ++ intercalate (ncomps p).
Proof.
  intros p H. destruct p as [|c t]; [discriminate|].
  unfold normpath, init_slashes. rewrite H.
  destruct (starts_slash (tl (c :: t)) && negb (starts_slash (tl (tl (c :: t))))).
  - exists 1%nat. reflexivity.
  - exists 0%nat. reflexivity.
Qed.

Lemma ncomps_plain : forall p, Forall plain (ncomps p).
Proof.
  intros p. unfold ncomps. apply norm_plain; [constructor|].
  apply (split_on_nodelim SL p).
Qed.

Lemma comps_of_normpath : forall p, starts_slash p = true -> comps_of (normpath p) = ncomps p.
Proof.
  intros p H. destruct (normpath_abs p H) as [k ->].
  change (SL :: repeat SL k ++ intercalate (ncomps p)) with (repeat SL (S k) ++ intercalate (ncomps p)).
  apply comps_of_render. apply ncomps_plain.
Qed.

Lemma normpath_starts_slash : forall p, starts_slash p = true -> starts_slash (normpath p) = true.
Proof. intros p H. destruct (normpath_abs p H) as [k ->]. reflexivity. Qed.

(* ---------- join ---------- *)

Lemma join2_abs : forall d u, starts_slash d = true -> starts_slash (join2 d u) = true.
Proof.
  intros d u H. unfold join2. destruct (starts_slash u) eqn:E; [assumption|].
  destruct d as [|c d]; [discriminate|].
  destruct (isnil (c :: d) || ends_slash (c :: d)); simpl; exact H.
Qed.

(* the non-skipped components of join(x, c): those of x, then what c contributes *)
Lemma ncomps_join_rel : forall x c, x <> [] -> starts_slash c = false -> ~ In SL c ->
  ncomps (join2 x c) = norm_comps true [] (split_slash x ++ [c]) \/
  exists x0, x = x0 ++ [SL] /\ ncomps (join2 x c) = norm_comps true [] (split_slash x0 ++ [c]).
Proof.
  intros x c Hx Hc Hs. unfold join2. rewrite Hc.
  destruct x as [|a x]; [congruence|]. simpl isnil. simpl orb.
  destruct (ends_slash (a :: x)) eqn:E.
  - right. destruct (ends_slash_inv _ E) as [x0 E0]. exists x0. split; [assumption|].
    rewrite E0, <- app_assoc. simpl. unfold ncomps, split_slash.
    rewrite split_on_app, (split_on_id SL c) by assumption. reflexivity.
  - left. unfold ncomps, split_slash. rewrite split_on_app, (split_on_id SL c) by assumption. reflexivity.
Qed.

Lemma ncomps_snoc_slash : forall x0, ncomps (x0 ++ [SL]) = ncomps x0.
Proof.
  intros. unfold ncomps, split_slash. rewrite split_on_app. simpl.
  apply norm_snoc_skip. reflexivity.
Qed.

Lemma ncomps_join_plain : forall x df, x <> [] -> plain df ->
  ncomps (join2 x df) = ncomps x ++ [df].
Proof.
  intros x df Hx Hp.
  destruct (ncomps_join_rel x df Hx (plain_no_leading_slash _ Hp)) as [E|[x0 [E0 E]]].
  - destruct Hp as (_ & _ & _ & H); exact H.
  - rewrite E. apply norm_snoc_plain. assumption.
  - rewrite E, E0, ncomps_snoc_slash. apply norm_snoc_plain. assumption.
Qed.

Lemma ncomps_join_skip : forall x c, x <> [] -> c = [] \/ c = [DOT] ->
  ncomps (join2 x c) = ncomps x.
Proof.
  intros x c Hx Hc.
  assert (starts_slash c = false) as H1 by (destruct Hc; subst; reflexivity).
  assert (~ In SL c) as H2.
  { destruct Hc; subst; simpl; [tauto|]. intros [H|[]]. discriminate. }
  assert (isnil c || is_dot c = true) as H3 by (destruct Hc; subst; reflexivity).
  destruct (ncomps_join_rel x c Hx H1 H2) as [E|[x0 [E0 E]]].
  - rewrite E. apply norm_snoc_skip. assumption.
  - rewrite E, E0, ncomps_snoc_slash. apply norm_snoc_skip. assumption.
Qed.

(* ---------- the containment test ---------- *)

Lemma inside_comps : forall d loc, d <> [] -> inside d loc = true ->
  exists r, comps_of loc = comps_of d ++ comps_of r.
Proof.
  intros d loc Hd H. unfold inside in H. apply orb_true_iff in H as [H|H].
  - apply str_eqb_eq in H. subst. exists []. rewrite comps_of_nil, app_nil_r. reflexivity.
  - apply prefixb_spec in H as [r ->]. exists r.
    unfold join2. simpl starts_slash. cbv iota.
    destruct d as [|a d]; [congruence|]. simpl isnil. simpl orb.
    destruct (ends_slash (a :: d)) eqn:E.
    + destruct (ends_slash_inv _ E) as [d0 ->].
      rewrite app_nil_r, <- app_assoc. simpl.
      rewrite !comps_of_app, comps_of_nil, app_nil_r. reflexivity.
    + rewrite <- app_assoc. simpl app. apply (comps_of_app (a :: d) r).
Qed.

(* "inside the document root": absolute, and its components are those of the
   document root followed by plain names only *)
Definition contained (d loc : str) : Prop :=
  starts_slash loc = true /\
  exists rest, comps_of loc = comps_of d ++ rest /\ Forall plain rest.

Lemma abs_nonnil : forall d, starts_slash d = true -> d <> [].
Proof. intros d H E. subst. discriminate. Qed.

Lemma location_comps : forall d u, starts_slash d = true ->
  starts_slash (location d u) = true /\ comps_of (location d u) = ncomps (join2 d u).
Proof.
  intros d u Hd. pose proof (abs_nonnil d Hd) as Hn. unfold location. destruct u as [|c u].
  - split; [apply normpath_starts_slash, join2_abs; assumption|].
    rewrite comps_of_normpath by (apply join2_abs; assumption).
    rewrite !ncomps_join_skip; auto.
  - split; [apply normpath_starts_slash, join2_abs; assumption|].
    apply comps_of_normpath, join2_abs. assumption.
Qed.

Lemma location_contained : forall d u, starts_slash d = true ->
  inside d (location d u) = true -> contained d (location d u).
Proof.
  intros d u Hd Hi. destruct (location_comps d u Hd) as [Hs Hc].
  split; [assumption|].
  destruct (inside_comps d _ (abs_nonnil d Hd) Hi) as [r Hr].
  exists (comps_of r). split; [assumption|].
  pose proof (ncomps_plain (join2 d u)) as Hp. rewrite <- Hc, Hr in Hp.
  apply Forall_app in Hp. tauto.
Qed.

Section Fs.
  Variables fexists isfile isdir : str -> bool.
  Variable unq : str -> str.

  Lemma served_serve_file : forall loc, served (serve_file fexists isdir loc) = Some loc.
  Proof. intros. unfold serve_file. destruct (fexists loc && negb (isdir loc)); reflexivity. Qed.

  Lemma try_defaults_some : forall d u defaults o,
    try_defaults fexists isdir d u defaults = Some o ->
    exists df, In df defaults /\ served o = Some (normpath (join2 (join2 d u) df)).
  Proof.
    induction defaults as [|df r IH]; intros o H; simpl in H; [discriminate|].
    destruct (fexists (normpath (join2 (join2 d u) df))).
    - inversion H; subst. exists df. split; [left; reflexivity|apply served_serve_file].
    - destruct (IH _ H) as [df' [Hin Hs]]. exists df'. split; [right; assumption|assumption].
  Qed.

  Theorem static_contained : forall mount d defaults dirlisting reqpath loc,
    starts_slash d = true -> Forall plain defaults ->
    served (static_request fexists isfile isdir unq mount d defaults dirlisting reqpath) = Some loc ->
    contained d loc.
  Proof.
    intros mount d defaults dirlisting reqpath loc Hd Hdf H.
    unfold static_request in H.
    destruct (unmount mount reqpath) as [p|]; [|discriminate].
    set (u := unq (strip_sl p)) in *.
    destruct (inside d (location d u)) eqn:Hi; simpl in H; [|discriminate].
    pose proof (location_contained d u Hd Hi) as Hc.
    destruct (location_comps d u Hd) as [_ Hlc].
    destruct (fexists (location d u)); simpl in H; [|discriminate].
    destruct (isfile (location d u)).
    { rewrite served_serve_file in H. inversion H; subst. assumption. }
    destruct (isdir (location d u)); [|discriminate].
    assert (join2 d u <> []) as Hj by (apply abs_nonnil, join2_abs; assumption).
    destruct Hc as [_ [rest [Hr Hp]]].
    destruct (try_defaults fexists isdir d u defaults) as [o|] eqn:Et.
    - destruct (try_defaults_some _ _ _ _ Et) as [df [Hin Hs]].
      rewrite Hs in H. inversion H; subst loc. clear H.
      assert (plain df) as Hpd by (rewrite Forall_forall in Hdf; apply Hdf; assumption).
      assert (starts_slash (join2 (join2 d u) df) = true) as Ha
          by (apply join2_abs, join2_abs; assumption).
      split; [apply normpath_starts_slash; assumption|].
      exists (rest ++ [df]). split.
      + rewrite comps_of_normpath, ncomps_join_plain by assumption.
        rewrite <- Hlc, Hr, app_assoc. reflexivity.
      + apply Forall_app. split; [assumption|constructor; [assumption|constructor]].
    - destruct dirlisting; [|discriminate]. simpl in H. inversion H; subst loc. clear H.
      assert (starts_slash (join2 d u) = true) as Ha by (apply join2_abs; assumption).
      split; [apply normpath_starts_slash; assumption|].
      exists rest. split; [|assumption].
      rewrite comps_of_normpath by assumption. rewrite <- Hlc. assumption.
  Qed.

End Fs.

(* string level reading of the containment test *)
Lemma inside_spec : forall d loc, inside d loc = true <-> (loc = d \/ exists r, loc = join2 d [] ++ r).
Proof.
  intros d loc. unfold inside. rewrite orb_true_iff. split; intros [H|H].
  - left. apply str_eqb_eq. assumption.
  - right. apply prefixb_spec. assumption.
  - left. apply str_eqb_eq. assumption.
  - right. destruct H as [r ->]. apply prefixb_app.
Qed.

(* ---------- benign paths are served: the test is not over-restrictive ---------- *)

Lemma normpath_abs_exact : forall p, starts_slash p = true ->
  normpath p = repeat SL (init_slashes p) ++ intercalate (ncomps p).
Proof.
  intros p H. destruct p as [|c t]; [discriminate|].
  unfold normpath. unfold init_slashes at 2 3. rewrite H. unfold init_slashes. rewrite H.
  destruct (starts_slash (tl (c :: t)) && negb (starts_slash (tl (tl (c :: t))))); reflexivity.
Qed.

Lemma norm_plain_all : forall ps stack, Forall plain ps ->
  norm_comps true stack ps = rev stack ++ ps.
Proof.
  induction ps as [|c ps IH]; intros stack H; simpl.
  - rewrite app_nil_r. reflexivity.
  - inversion H; subst.
    rewrite (plain_nonnil c), (plain_not_dot c), (plain_not_dotdot c) by assumption. simpl.
    rewrite IH by assumption. simpl. rewrite <- app_assoc. reflexivity.
Qed.

Lemma norm_app_plain : forall l stack ps, Forall plain ps ->
  norm_comps true stack (l ++ ps) = norm_comps true stack l ++ ps.
Proof.
  induction l as [|x l IH]; intros stack ps H; simpl.
  - apply norm_plain_all. assumption.
  - destruct (isnil x || is_dot x); [apply IH; assumption|].
    match goal with |- (if ?b then _ else _) = _ => destruct b end; apply IH; assumption.
Qed.

Lemma split_intercalate : forall ps, Forall plain ps -> ps <> [] -> split_slash (intercalate ps) = ps.
Proof.
  induction ps as [|a r IH]; intros H Hn; [congruence|].
  inversion H as [|? ? Ha Hr]; subst.
  assert (split_slash a = [a]) as Ea by (apply split_on_id; destruct Ha as (_ & _ & _ & X); exact X).
  destruct r as [|b r]; [exact Ea|].
  change (intercalate (a :: b :: r)) with (a ++ SL :: intercalate (b :: r)).
  unfold split_slash in *. rewrite split_on_app, Ea, IH by (assumption || discriminate). reflexivity.
Qed.

Lemma intercalate_app : forall a b, a <> [] -> b <> [] ->
  intercalate (a ++ b) = intercalate a ++ SL :: intercalate b.
Proof.
  induction a as [|x a IH]; intros b Ha Hb; [congruence|].
  destruct a as [|y a].
  - simpl. destruct b; [congruence|reflexivity].
  - change (intercalate ((x :: y :: a) ++ b)) with (x ++ SL :: intercalate ((y :: a) ++ b)).
    rewrite IH by (assumption || discriminate).
    change (intercalate (x :: y :: a)) with (x ++ SL :: intercalate (y :: a)).
    rewrite <- app_assoc. reflexivity.
Qed.

Lemma ends_slash_app : forall d, ends_slash (d ++ [SL]) = true.
Proof. intros. unfold ends_slash. rewrite rev_app_distr. reflexivity. Qed.

Lemma init_slashes_app : forall d y, starts_slash d = true -> ends_slash d = false ->
  init_slashes (d ++ SL :: y) = init_slashes d.
Proof.
  intros d y Hs He. unfold init_slashes.
  destruct d as [|a [|b [|c d]]]; try discriminate.
  - unfold ends_slash in He. simpl in *. congruence.
  - simpl in Hs. simpl. rewrite Hs.
    assert (b =? SL = false) as Hb.
    { unfold ends_slash in He. simpl in He. exact He. }
    rewrite Hb. reflexivity.
  - reflexivity.
Qed.

Lemma intercalate_head_plain : forall ps, Forall plain ps -> ps <> [] ->
  intercalate ps <> [] /\ starts_slash (intercalate ps) = false.
Proof.
  intros ps H Hn. destruct ps as [|a r]; [congruence|]. inversion H as [|? ? Ha Hr]; subst.
  pose proof (plain_no_leading_slash a Ha) as Hs.
  destruct Ha as (Ha & _). destruct a as [|x a]; [congruence|].
  destruct r; simpl in *; split; try discriminate; exact Hs.
Qed.

Lemma location_benign : forall d ps,
  starts_slash d = true -> ends_slash d = false -> normpath d = d ->
  Forall plain ps -> ps <> [] ->
  location d (intercalate ps) = d ++ SL :: intercalate ps /\
  inside d (location d (intercalate ps)) = true.
Proof.
  intros d ps Hs He Hn Hp Hne.
  destruct (intercalate_head_plain ps Hp Hne) as [Hu1 Hu2].
  set (u := intercalate ps) in *.
  assert (location d u = d ++ SL :: u) as Hl.
  { unfold location. destruct u as [|c u'] eqn:Eu; [congruence|]. rewrite <- Eu in *.
    assert (join2 d u = d ++ SL :: u) as Hj.
    { unfold join2. rewrite Hu2, He. destruct d; [discriminate|reflexivity]. }
    rewrite Hj.
    rewrite normpath_abs_exact by (destruct d; [discriminate|exact Hs]).
    rewrite init_slashes_app by assumption.
    assert (ncomps (d ++ SL :: u) = ncomps d ++ ps) as Hc.
    { unfold ncomps, split_slash. rewrite split_on_app.
      fold split_slash. unfold u. rewrite split_intercalate by assumption.
      apply norm_app_plain. assumption. }
    rewrite Hc.
    pose proof (normpath_abs_exact d Hs) as Hd. rewrite Hn in Hd.
    assert (ncomps d <> []) as Hnd.
    { intro E. rewrite E in Hd. simpl in Hd. rewrite app_nil_r in Hd.
      unfold init_slashes in Hd. rewrite Hs in Hd.
      assert (ends_slash d = true) as X; [|congruence].
      rewrite Hd. destruct (starts_slash (tl d) && negb (starts_slash (tl (tl d)))); reflexivity. }
    rewrite intercalate_app by assumption.
    rewrite app_assoc, <- Hd. reflexivity. }
  split; [exact Hl|].
  rewrite Hl. unfold inside. apply orb_true_iff. right.
  unfold join2. simpl starts_slash. cbv iota. rewrite He.
  destruct d as [|a d]; [discriminate|]. simpl isnil. simpl orb. cbv iota.
  change ((a :: d) ++ SL :: u) with ((a :: d) ++ [SL] ++ u). rewrite app_assoc. apply prefixb_app.
Qed.

Theorem static_benign :
  forall (fexists isfile isdir : str -> bool) (unq : str -> str) d defaults dirlisting reqpath ps,
  starts_slash d = true -> ends_slash d = false -> normpath d = d ->
  Forall plain ps -> ps <> [] ->
  unq (strip_sl reqpath) = intercalate ps ->
  fexists (d ++ SL :: intercalate ps) = true ->
  isfile (d ++ SL :: intercalate ps) = true ->
  isdir (d ++ SL :: intercalate ps) = false ->
  static_request fexists isfile isdir unq None d defaults dirlisting reqpath
  = File (d ++ SL :: intercalate ps).
Proof.
  intros fexists isfile isdir unq d defaults dirlisting reqpath ps Hs He Hn Hp Hne Hu Hx Hf Hd.
  destruct (location_benign d ps Hs He Hn Hp Hne) as [Hl Hi].
  unfold static_request, unmount. rewrite Hu, Hi, Hl, Hx, Hf. simpl.
  unfold serve_file. rewrite Hx, Hd. reflexivity.
Qed.
